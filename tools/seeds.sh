#!/bin/bash
# tools/seeds.sh "C04 C05 ..." "1 2 3" [parallel]: the quick check of each property with each seed (never one property twice at once)
ROOT=$(cd "$(dirname "$0")/.." && pwd)
cd $ROOT; O=$ROOT/run/seeds; mkdir -p $O
run() { p=$1; s=$2; O=$3; /usr/bin/time -f "%e" -o $O/$p.$s.time ./check $p --tier quick --seed $s > $O/$p.$s.out 2> $O/$p.$s.err; echo "$p seed $s exit $? time $(tail -1 $O/$p.$s.time) viol $(grep -c ^VIOLATION $O/$p.$s.out)"; }
export -f run
for s in $2; do for p in $1; do echo "$p $s $O"; done | xargs -P ${3:-4} -L 1 bash -c 'run $0 $1 $2'; done
