#!/usr/bin/env python3
"""Regenerates the part of DESIGN.md below the marker line from the committed data:
props/*.json (what each check proves and ties), known_findings.json (fixes and open findings),
seeded/*/meta.json + eval.json (seeded changes and which check catches them), evidence/*.json (last run)."""
import glob, json, os, re, subprocess

ROOT = os.path.dirname(os.path.dirname(os.path.abspath(__file__)))
MARK = "<!-- GENERATED BELOW by tools/gen_design.py: do not edit by hand -->"


def first_sentences(txt, n=300):
    txt = re.sub(r"\s+", " ", txt).strip()
    return txt if len(txt) <= n else txt[:n].rsplit(" ", 1)[0] + " ..."


def main():
    out = [MARK, ""]
    props = {}
    for f in sorted(glob.glob(os.path.join(ROOT, "props", "*.json"))):
        p = json.load(open(f))
        props[p["id"]] = p
    titles = {}
    for l in open(os.path.join(ROOT, "properties.jsonl")):
        d = json.loads(l)
        titles[d["id"]] = d["title"]
    # ---- A. status
    out += ["## A. What exists per property (generated)", "",
            "| id | theorems (Properties/Cxx.v) | Rocq files in its closure | last quick run: evaluations / correspondence cases / wall | partial / modelled rather than verified |",
            "|---|---|---|---|---|"]
    for pid, p in props.items():
        ev = {}
        try:
            ev = json.load(open(os.path.join(ROOT, "evidence", pid + ".json")))
        except Exception:
            pass
        cov = ev.get("coverage", {})
        src = open(os.path.join(ROOT, "coq", p["prop_files"][0])).read()
        thms = re.findall(r"^\s*Theorem\s+(\w+)", src, re.M)
        out.append("| %s | %d: %s | %s | %s / %s / %ss | %s |" % (
            pid, len(thms), ", ".join(thms), ", ".join(p["prop_files"] + p.get("corr_files", [])),
            cov.get("evaluations", "?"), cov.get("correspondence_cases", "?"), ev.get("wall_s", "?"),
            first_sentences(p.get("partial", "") or "-", 400)))
    out += ["", "The full statement of what each check proves, ties and trusts is the `level_claimed.text` / `level_note` of MANIFEST.json "
            "(generated from `props/Cxx.json`); per-property notes with the model-to-Go tables are in `design_notes/`.", ""]
    # ---- B. findings
    kf = json.load(open(os.path.join(ROOT, "known_findings.json")))["findings"]
    fixed = [f for f in kf if f.get("status") == "fixed"]
    opn = [f for f in kf if f.get("status") == "open"]
    out += ["## B. Genuine defects of the pinned tree found by the checks (generated from known_findings.json)", "",
            "%d repaired by a `fix:` commit in /repo (the model follows the repaired code, the theorem is unguarded; the entry suppresses nothing), "
            "%d recorded as open findings (the check prints KNOWN-FINDING for exactly the matched input class and still reports any other violation)." % (len(fixed), len(opn)), "",
            "### B.1 Repaired", "", "| property | commit | what failed |", "|---|---|---|"]
    for f in fixed:
        w = re.sub(r"^fixed: property=\w+ \w+ ", "", f.get("what", ""))
        out.append("| %s | %s | %s |" % (f["property"], f.get("commit", ""), first_sentences(w, 420).replace("|", "\\|")))
    out += ["", "### B.2 Open (not repaired: by specification, by format, or needs a design decision)", "",
            "| property | id | matcher (clause / tag) | what fails and why it is not repaired |", "|---|---|---|---|"]
    for f in opn:
        m = f.get("match", {})
        out.append("| %s | %s | %s / %s | %s |" % (f["property"], f["id"], m.get("clause", ""), m.get("tag", ""),
                                                 first_sentences(f.get("what", ""), 600).replace("|", "\\|")))
    out.append("")
    # ---- C. seeded changes
    out += ["## C. Seeded changes and which check catches them (generated from seeded/*/)", "",
            "Each change was written by a fresh sub-agent that saw only the property record and a scratch worktree of /repo (nothing from /verif); "
            "it compiles, passes the 104 tests, and comes with a demonstration that fails with it and passes without it - all re-confirmed by "
            "`tools/seeded_eval.py` in a scratch worktree before it was kept. `first` = result of the check as it was when the change arrived; "
            "`now` = result of the latest evaluation after strengthening.", "",
            "| id | property | site and what it needs to manifest | first | now (check: direct violations / correspondence) |", "|---|---|---|---|---|"]
    c_first = c_now = n = 0
    for d in sorted(glob.glob(os.path.join(ROOT, "seeded", "*"))):
        try:
            meta = json.load(open(os.path.join(d, "meta.json")))
        except Exception:
            continue
        sid = meta["id"]
        readme = ""
        try:
            readme = open(os.path.join(d, "README.md")).read()
        except Exception:
            pass
        desc = first_sentences(re.sub(r"[#*`|]", "", readme), 330)
        first = meta.get("caught_by_at_first_evaluation")
        firsttxt = "n/a" if first is None and "note" in meta else ("caught" if first else "MISSED")
        nowtxt = firsttxt
        ev = None
        try:
            ev = json.load(open(os.path.join(d, "eval.json")))
        except Exception:
            pass
        stale = None
        try:
            lg = open(os.path.join(d, "eval.log")).read()
            if '"patch_applies": false' in lg and (not ev or ev.get("repo_head") not in lg):
                stale = "the patch no longer applies to the current tree (its site was rewritten by a later fix: commit); kept as evaluated at first"
                ev = None
        except Exception:
            pass
        if ev and str(ev.get("demo_with_change", "")).startswith("PASSES"):
            stale = "the change no longer breaks the property on the current tree (its own demonstration passes: the defect it relied on was repaired by a fix: commit)"
        if ev:
            parts = []
            for pid, c in ev.get("checks", {}).items():
                s = c.get("summary") or [""]
                mm = re.search(r"correspondence (\d+/\d+).*direct violations (\d+)", s[0] if s else "")
                parts.append("%s exit %s%s" % (pid, c.get("exit"), (": %s direct, corr %s" % (mm.group(2), mm.group(1))) if mm else ""))
            nowtxt = ("caught" if ev.get("caught_by") else "MISSED") + " (" + "; ".join(parts) + ")"
        if "note" in meta and not ev and not stale:
            nowtxt = meta["note"]
        if stale:
            nowtxt = stale
        n += 1
        c_first += 1 if first else 0
        c_now += 1 if not stale and ((ev and ev.get("caught_by")) or (not ev and first)) else 0
        n_stale = locals().get("n_stale", 0) + (1 if stale else 0)
        out.append("| %s | %s | %s | %s | %s |" % (sid, meta["property"], desc, firsttxt, first_sentences(nowtxt, 260)))
    out += ["", "Totals: %d seeded changes; caught at first evaluation %d; caught now %d; %d no longer applicable to the current tree (see their rows)." % (n, c_first, c_now, locals().get("n_stale", 0)), ""]
    # ---- D. reverted fixes
    try:
        rv = json.load(open(os.path.join(ROOT, "seeded", "reverts.json")))
        out += ["## D. Reverted fixes (generated from seeded/reverts.json)", "",
                "Every `fix:` commit recorded as fixed was reverted in a scratch worktree of /repo at %s and the owning quick check run against it "
                "(`tools/revert_eval.py`): %d reverts, %d raise an alarm, %d are missed, %d skipped (the revert no longer applies because a later fix rewrote the site, "
                "or the reverted tree does not build)." % (rv.get("repo_head"), rv["total"], rv["caught"], rv["missed"], rv["skipped"]), ""]
        missed = [r for r in rv["results"] if r["result"] == "MISSED"]
        if missed:
            out += ["Missed (the defect is no longer reachable through the inputs of the quick tier, or it is masked by a later fix):", ""]
            for r in missed:
                out.append("* %s %s - %s" % (r["property"], r["commit"], first_sentences(r.get("what", ""), 200)))
            out.append("")
        byp = {}
        for r in rv["results"]:
            d = byp.setdefault(r["property"], [0, 0, 0])
            d[0 if r["result"] == "caught" else 1 if r["result"] == "MISSED" else 2] += 1
        out += ["| property | caught | missed | skipped |", "|---|---|---|---|"]
        for pid in sorted(byp):
            out.append("| %s | %d | %d | %d |" % (pid, byp[pid][0], byp[pid][1], byp[pid][2]))
        out.append("")
    except Exception as ex:
        pass
    path = os.path.join(ROOT, "DESIGN.md")
    src = open(path).read()
    head = src.split(MARK)[0].rstrip() + "\n\n"
    open(path, "w").write(head + "\n".join(out) + "\n")
    print("DESIGN.md regenerated: %d properties, %d fixed, %d open, %d seeded" % (len(props), len(fixed), len(opn), n))


if __name__ == "__main__":
    main()
