#!/usr/bin/env python3
"""Evaluate one seeded change against the checks.

  tools/seeded_eval.py <dir-with-patch.diff+demo_test.go> <property-id> [--also C01,C03] [--tier quick] [--seed 1]

1. scratch worktree of /repo HEAD under /tmp/seedwt-<pid>, patch applied;
2. confirms: go build ok, suite passes with the change, demo fails with the change, demo passes without it;
3. runs `VERIF_REPO=<worktree> ./check <property>` (and the --also ones) and records exit code and VIOLATION lines;
4. prints one JSON object (also written to <dir>/eval.json) and removes the worktree.
Never run two evaluations of the same property at the same time (they share run/<id>).
"""
import argparse, json, os, re, shutil, subprocess, sys, time

ROOT = os.path.dirname(os.path.dirname(os.path.abspath(__file__)))
ENV = dict(os.environ, GOFLAGS="-mod=mod", GOPROXY="off", GOSUMDB="off", GOTOOLCHAIN="local")


def sh(cmd, cwd=None, env=ENV, timeout=1800):
    try:
        p = subprocess.run(cmd, cwd=cwd, env=env, shell=isinstance(cmd, str), timeout=timeout,
                           stdout=subprocess.PIPE, stderr=subprocess.STDOUT, text=True, errors="replace")
        return p.returncode, p.stdout
    except subprocess.TimeoutExpired as e:
        return 124, (e.stdout or b"").decode("utf8", "replace") if isinstance(e.stdout, bytes) else (e.stdout or "")


def demo_target(demo):
    src = open(demo).read()
    m = re.search(r"copy to:\s*(\S+)", src)
    if m:
        return m.group(1).rstrip(".,;)`'\"")
    pk = re.search(r"^package\s+(\w+)", src, re.M).group(1)
    d = pk[:-5] if pk.endswith("_test") else pk
    return d + "/zz_demo_test.go"


def main():
    ap = argparse.ArgumentParser()
    ap.add_argument("dir")
    ap.add_argument("prop")
    ap.add_argument("--also", default="")
    ap.add_argument("--tier", default="quick")
    ap.add_argument("--seed", default="1")
    ap.add_argument("--skip-confirm", action="store_true")
    a = ap.parse_args()
    d = os.path.abspath(a.dir)
    wt = "/tmp/seedwt-%s-%d" % (a.prop.lower(), os.getpid())
    out = dict(dir=d, property=a.prop, repo_head=sh("git -C /repo rev-parse --short HEAD")[1].strip())
    rc, o = sh("git -C /repo worktree add -q --detach %s HEAD" % wt)
    if rc != 0:
        print(o); return 2
    try:
        demo = os.path.join(d, "demo_test.go")
        target = demo_target(demo)
        out["demo_target"] = target
        pkgdir = "./" + os.path.dirname(target)
        runsel = ""
        if not a.skip_confirm:
            # (4) demo passes without the change
            shutil.copy(demo, os.path.join(wt, target))
            rc, o = sh("timeout 900 go test -vet=off -count=1 %s %s" % (runsel, pkgdir), cwd=wt)
            out["demo_without_change"] = "pass" if rc == 0 else "FAIL"
            out["demo_without_change_tail"] = o[-600:] if rc != 0 else ""
            os.remove(os.path.join(wt, target))
        rc, o = sh("git apply %s" % os.path.join(d, "patch.diff"), cwd=wt)
        out["patch_applies"] = rc == 0
        if rc != 0:
            out["patch_error"] = o[-800:]
            print(json.dumps(out, indent=1)); return 1
        if not a.skip_confirm:
            rc, o = sh("go build ./... && go vet ./verifhook >/dev/null 2>&1; go build -tags verif ./...", cwd=wt)
            out["build"] = "ok" if rc == 0 else "FAIL"
            rc, o = sh("timeout 1200 go test -vet=off -count=1 ./...", cwd=wt)
            out["suite_with_change"] = "pass" if rc == 0 else "FAIL"
            if rc != 0:
                out["suite_tail"] = o[-1500:]
            shutil.copy(demo, os.path.join(wt, target))
            rc, o = sh("timeout 900 go test -vet=off -count=1 %s %s" % (runsel, pkgdir), cwd=wt)
            out["demo_with_change"] = "fail (as required)" if rc != 0 else "PASSES (change not demonstrated)"
            out["demo_with_change_tail"] = o[-700:]
            os.remove(os.path.join(wt, target))
        checks = {}
        for pid in [a.prop] + [x for x in a.also.split(",") if x]:
            t0 = time.time()
            rc, o = sh([os.path.join(ROOT, "check"), pid, "--tier", a.tier, "--seed", a.seed], cwd=ROOT,
                       env=dict(ENV, VERIF_REPO=wt), timeout=3600)
            vl = [l for l in o.split("\n") if l.startswith("VIOLATION")]
            summary = [l for l in o.split("\n") if re.match(r"^C\d\d (quick|thorough):", l)]
            reps = []
            for l in vl[:3]:
                m = re.search(r"replay=(\S+)", l)
                if m and os.path.exists(os.path.join(ROOT, m.group(1))):
                    try:
                        r = json.load(open(os.path.join(ROOT, m.group(1))))
                        reps.append(dict(kind=r.get("kind"), clause=r.get("clause"), what=str(r.get("what"))[:500],
                                         obligation=r.get("obligation")))
                    except Exception as e:
                        reps.append(dict(error=str(e)))
            checks[pid] = dict(exit=rc, violations=vl, summary=summary, replays=reps, wall_s=round(time.time() - t0, 1))
        out["checks"] = checks
        out["caught_by"] = [p for p, c in checks.items() if c["exit"] == 1 and c["violations"]]
    finally:
        sh("git -C /repo worktree remove --force %s" % wt)
        shutil.rmtree(wt, ignore_errors=True)
    json.dump(out, open(os.path.join(d, "eval.json"), "w"), indent=1)
    print(json.dumps(out, indent=1))
    return 0


if __name__ == "__main__":
    sys.exit(main())
