#!/bin/bash
# usage: tools/verify_claim.sh C01 [C02 ...]   -- runs the quick check with seeds 1,2,3 and validates the evidence
export GOFLAGS=-mod=mod GOPROXY=off GOSUMDB=off GOTOOLCHAIN=local
cd /verif
for id in "$@"; do
  okall=1
  for seed in 1 2 3; do
    t0=$(date +%s)
    out=$(./check $id --tier quick --seed $seed 2>&1); rc=$?
    t1=$(date +%s)
    viol=$(echo "$out" | grep -c '^VIOLATION')
    ev=$(python3-vt -c "import json,jsonschema; jsonschema.validate(json.load(open('evidence/$id.json')), json.load(open('/root/.vp/EVIDENCE.schema.json'))); print('evok')" 2>&1 | tail -1)
    echo "$id seed=$seed rc=$rc violations=$viol evidence=$ev wall=$((t1-t0))s :: $(echo "$out" | grep -v '^WARNING' | tail -1)"
    [ $rc -eq 0 ] && [ "$viol" = 0 ] && [ "$ev" = evok ] || okall=0
  done
  [ $okall = 1 ] && echo "$id PASS" || echo "$id FAIL"
done
