#!/usr/bin/env python3
"""Self-test with the reverse of every `fix:` commit (DESIGN.md section 10 a).

  tools/revert_eval.py [--only C07,C09] [--jobs 4] [--out seeded/reverts.json]

For every entry of known_findings.json with status=fixed and a commit: a scratch worktree of /repo HEAD,
`git revert --no-commit <commit>` (skipped when it does not apply cleanly any more: a later fix rewrote the site),
`go build ./...`; then `VERIF_REPO=<worktree> ./check <property> --tier quick` must exit 1 with a VIOLATION line.
Properties are processed in parallel, the reverts of one property one after the other (they share run/<id>).
"""
import argparse, json, os, re, shutil, subprocess, sys, time
from concurrent.futures import ThreadPoolExecutor

ROOT = os.path.dirname(os.path.dirname(os.path.abspath(__file__)))
ENV = dict(os.environ, GOFLAGS="-mod=mod", GOPROXY="off", GOSUMDB="off", GOTOOLCHAIN="local")


def sh(cmd, cwd=None, env=ENV, timeout=1800):
    try:
        p = subprocess.run(cmd, cwd=cwd, env=env, shell=isinstance(cmd, str), timeout=timeout,
                           stdout=subprocess.PIPE, stderr=subprocess.STDOUT, text=True, errors="replace")
        return p.returncode, p.stdout
    except subprocess.TimeoutExpired:
        return 124, "[timeout]"


def one(pid, f):
    c = f["commit"]
    wt = "/tmp/revwt-%s-%s" % (pid.lower(), c)
    res = dict(property=pid, commit=c, id=f.get("id"), what=re.sub(r"^fixed: property=\w+ \w+ ", "", f.get("what", ""))[:200])
    rc, o = sh("git -C /repo worktree add -q --detach %s HEAD" % wt)
    if rc != 0:
        res["result"] = "error: " + o[-200:]
        return res
    try:
        rc, o = sh("git revert --no-commit %s" % c, cwd=wt)
        if rc != 0:
            res["result"] = "skipped: the revert does not apply cleanly (the site was changed again later)"
            return res
        rc, o = sh("go build ./... && go build -tags verif ./...", cwd=wt)
        if rc != 0:
            res["result"] = "skipped: the reverted tree does not build"
            return res
        t0 = time.time()
        rc, o = sh([os.path.join(ROOT, "check"), pid, "--tier", "quick"], cwd=ROOT, env=dict(ENV, VERIF_REPO=wt), timeout=1500)
        vl = [l for l in o.split("\n") if l.startswith("VIOLATION")]
        summ = [l for l in o.split("\n") if re.match(r"^C\d\d quick:", l)]
        res["exit"] = rc
        res["violations"] = len(vl)
        res["summary"] = summ[-1] if summ else ""
        res["wall_s"] = round(time.time() - t0, 1)
        res["result"] = "caught" if rc == 1 and vl else "MISSED"
    finally:
        sh("git -C /repo worktree remove --force %s" % wt)
        shutil.rmtree(wt, ignore_errors=True)
    return res


def main():
    ap = argparse.ArgumentParser()
    ap.add_argument("--only", default="")
    ap.add_argument("--commits", default="", help="only these fix commits (comma separated), e.g. to retry one")
    ap.add_argument("--jobs", type=int, default=4)
    ap.add_argument("--out", default=os.path.join(ROOT, "seeded", "reverts.json"))
    a = ap.parse_args()
    kf = json.load(open(os.path.join(ROOT, "known_findings.json")))["findings"]
    only = set(x for x in a.only.split(",") if x)
    commits = set(x for x in a.commits.split(",") if x)
    byp = {}
    seen = set()
    for f in kf:
        if f.get("status") == "fixed" and f.get("commit") and (not only or f["property"] in only) and (not commits or f["commit"] in commits):
            k = (f["property"], f["commit"])
            if k in seen:
                continue
            seen.add(k)
            byp.setdefault(f["property"], []).append(f)

    def run_prop(pid):
        out = []
        for f in byp[pid]:
            r = one(pid, f)
            print("%s %s %s  %s" % (pid, f["commit"], r["result"], r.get("summary", "")[:110]), flush=True)
            out.append(r)
        return out

    results = []
    with ThreadPoolExecutor(max_workers=a.jobs) as ex:
        for rs in ex.map(run_prop, sorted(byp)):
            results += rs
    old = []
    if (only or commits) and os.path.exists(a.out):
        new = set((r["property"], r["commit"]) for r in results)
        old = [r for r in json.load(open(a.out)).get("results", []) if (r["property"], r["commit"]) not in new
               and (commits or r["property"] not in only)]
    results = sorted(old + results, key=lambda r: (r["property"], r["commit"]))
    n = len(results)
    caught = sum(1 for r in results if r["result"] == "caught")
    missed = sum(1 for r in results if r["result"] == "MISSED")
    json.dump(dict(comment="reverse of every fix: commit, evaluated by tools/revert_eval.py", repo_head=sh("git -C /repo rev-parse --short HEAD")[1].strip(),
                   total=n, caught=caught, missed=missed, skipped=n - caught - missed, results=results), open(a.out, "w"), indent=1)
    print("total %d caught %d missed %d skipped %d" % (n, caught, missed, n - caught - missed))


if __name__ == "__main__":
    sys.exit(main())
