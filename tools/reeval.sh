#!/bin/bash
# tools/reeval.sh C05 : re-evaluates every seeded change of that property, one after the other (they share run/C05).
# All properties, four at a time:  ls seeded | sed 's/-m.*//' | grep '^C' | sort -u | xargs -P 4 -L 1 tools/reeval.sh
P=$1
ROOT=$(cd "$(dirname "$0")/.." && pwd)
for d in $ROOT/seeded/$P-m*; do
  [ -f $d/patch.diff ] || continue
  $ROOT/tools/seeded_eval.py $d $P > $d/eval.log 2>&1
  python3 - $d <<'PY'
import json,sys
d=sys.argv[1]
try:
    e=json.load(open(d+'/eval.json'))
    print(d.split('/')[-1], 'applies', e.get('patch_applies'), 'demo_with', (e.get('demo_with_change') or '')[:6], 'demo_without', e.get('demo_without_change'), 'CAUGHT' if e.get('caught_by') else 'MISSED', [c['summary'][0][:100] if c['summary'] else '' for c in e.get('checks',{}).values()])
except Exception as ex:
    print(d, 'ERROR', ex)
PY
done
