package collh

import (
	"fmt"

	"github.com/lyraproj/pcore/pcore"
	"github.com/lyraproj/pcore/px"
	"github.com/lyraproj/pcore/types"
)

// Operations outside the op language of coq/Model/Coll.v (property C08 only; their model is coq/Model/CollHeapX.v):
//
//  HashNew    R = the tree (an array of [path, value] pairs), I = 1: Hash.new(tree, 'tree'), I = 2: Hash.new(tree, 'hash_tree')
//             - the constructor route of types/hashtype.go:85, called through px.New like a program would.  The result
//             shares the *HashEntry objects of a root hash and the values of the tree.
//  MapEntries R = a hash, X = a key, I = 0: every entry (k, v) is mapped to a new entry (pool[X], v) - a many-to-one
//             mapper, the result holds the key pool[X] len(R) times; I = 1: the identity (the result shares the entry
//             OBJECTS of the receiver)
//
// A *MutableHashValue (nested in the result of Hash.new(.., 'tree')) that a later step returns is put into the pool as
// the Hash that it embeds (the same object: this is what the constructor itself does with the root).

func (o Op) xString() string {
	switch o.Kind {
	case "HashNew":
		opt := "tree"
		if o.I == 2 {
			opt = "hash_tree"
		}
		return fmt.Sprintf("Hash.new(v%d, '%s')", o.R, opt)
	case "MapEntries":
		if o.I == 1 {
			return fmt.Sprintf("v%d.MapEntries(e -> e)", o.R)
		}
		return fmt.Sprintf("v%d.MapEntries((k,v) -> (v%d,v))", o.R, o.X)
	}
	return o.Kind
}

// XGallina prints a step as a term of type `xop` (Model/CollHeapX.v)
func (o Op) XGallina() string {
	switch o.Kind {
	case "HashNew":
		return fmt.Sprintf("XHashNew %d %v", o.R, o.I == 2)
	case "MapEntries":
		return fmt.Sprintf("XMapEntries %d %d %v", o.R, o.X, o.I == 1)
	}
	return "XBase (" + o.Gallina() + ")"
}

func IsXOp(o Op) bool { return o.Kind == "HashNew" || o.Kind == "MapEntries" }

func applyX(pool []px.Value, o Op) px.Value {
	switch o.Kind {
	case "HashNew":
		opt := "tree"
		if o.I == 2 {
			opt = "hash_tree"
		}
		return px.New(pcore.RootContext(), types.DefaultHashType(), pool[o.R], types.WrapString(opt))
	case "MapEntries":
		m := asMap(pool[o.R])
		if o.I == 1 {
			return m.MapEntries(func(e px.MapEntry) px.MapEntry { return e })
		}
		k := pool[o.X]
		return m.MapEntries(func(e px.MapEntry) px.MapEntry { return types.WrapHashEntry(k, e.Value()) })
	}
	panic("bad op " + o.Kind)
}

// Unwrap: a mutable hash as the Hash that it embeds (the same object)
func Unwrap(v px.Value) px.Value {
	if mv, ok := v.(*types.MutableHashValue); ok && mv != nil {
		return &mv.Hash
	}
	return v
}
