package collh

import (
	"verifharness/lib"
)

// Gen builds a history step by step; the pure reference pool tells the generator the kind and shape of
// every earlier value, so that generation is deterministic and independent of the implementation.
type Gen struct {
	R    *lib.Rng
	Ops  []Op
	Pool []*PV
	ref  *Ref
	// Spare[i]: value i is likely to have spare capacity in its backing slice (generator bias only)
	Spare []bool
	// Keys: when set, the key alphabet of this generator (instead of keyAlphabet)
	Keys []*PV
}

func NewGen(r *lib.Rng) *Gen { return &Gen{R: r, ref: &Ref{}} }

var spareOps = map[string]bool{"Build": true, "Parse": true, "Add": true, "AddAll": true, "Select": true, "Reject": true,
	"Delete": true, "DeleteAll": true, "Flatten": true, "Unique": true, "Merge": true, "Slice": true, "EachSlice": true}

// Push appends a step and returns its pool index
func (g *Gen) Push(o Op) int {
	v, _ := g.ref.Apply(g.Pool, o)
	g.Ops = append(g.Ops, o)
	g.Pool = append(g.Pool, v)
	g.Spare = append(g.Spare, spareOps[o.Kind])
	return len(g.Pool) - 1
}

func (g *Gen) Lit(p *PV) int { return g.Push(Op{Kind: "Lit", P: p}) }

// Pick a pool index whose value satisfies f: biased towards recent values and values with spare capacity
func (g *Gen) Pick(f func(*PV) bool) int {
	var c []int
	for i, p := range g.Pool {
		if f(p) {
			c = append(c, i)
		}
	}
	if len(c) == 0 {
		return -1
	}
	switch x := g.R.Intn(8); {
	case x < 3:
		return c[len(c)-1]
	case x < 5:
		var s []int
		for _, i := range c {
			if g.Spare[i] {
				s = append(s, i)
			}
		}
		if len(s) > 0 {
			return s[g.R.Intn(len(s))]
		}
	case x < 6 && len(c) > 1:
		return c[len(c)-2]
	}
	return c[g.R.Intn(len(c))]
}

func IsArr(p *PV) bool   { return p.K == "a" }
func IsHash(p *PV) bool  { return p.K == "h" }
func IsEntry(p *PV) bool { return p.K == "e" }
func IsColl(p *PV) bool  { return p.K == "a" || p.K == "h" }
func Any(p *PV) bool     { return true }

var keyAlphabet = []*PV{St("a"), St("b"), St("c"), In(1), Ar(St("a")), In(2), St("d")}
var scalarAlphabet = []*PV{In(1), In(2), In(3), In(0), St("a"), St("b"), St("c"), St(""), U(), Bo(true)}

func (g *Gen) RandKey() *PV {
	if len(g.Keys) > 0 {
		return g.Keys[g.R.Intn(len(g.Keys))]
	}
	return keyAlphabet[g.R.Intn(len(keyAlphabet))]
}

// AlikeKeys: a key alphabet in which different keys print alike (1 and '1', true and 'true', undef and 'undef',
// the empty string) and equal keys are different trees: hashes with the same entries in another order - also with
// such keys inside - alone, inside an array and as the value of an inner entry; a hash entry's two element array.
func AlikeKeys() []*PV {
	one, sone, tr, str, un, sun, emp := In(1), St("1"), Bo(true), St("true"), U(), St("undef"), St("")
	h1 := Ha(En(one, St("a")), En(sone, St("b")))
	h1r := Ha(En(sone, St("b")), En(one, St("a")))
	h1x := Ha(En(sone, St("a")), En(one, St("b"))) // not equal to h1
	h2 := Ha(En(tr, In(1)), En(str, In(2)), En(St("z"), In(3)))
	h2r := Ha(En(St("z"), In(3)), En(str, In(2)), En(tr, In(1)))
	h3 := Ha(En(un, In(0)), En(sun, In(0)), En(emp, In(0)))
	h3r := Ha(En(emp, In(0)), En(un, In(0)), En(sun, In(0)))
	ab := Ha(En(St("a"), In(1)), En(St("b"), In(2)))
	ba := Ha(En(St("b"), In(2)), En(St("a"), In(1)))
	return []*PV{one, sone, tr, str, un, sun, emp, St("a"), h1, h1r, h1x, h2, h2r, h3, h3r, ab, ba,
		Ar(St("p"), h1), Ar(St("p"), h1r), Ha(En(h1, In(1)), En(St("q"), In(2))), Ha(En(St("q"), In(2)), En(h1r, In(1))),
		Ha(En(St("k"), h2)), Ha(En(St("k"), h2r)), Ar(one, sone), Ar(sone, one), Ar(St("a"))}
}

func (g *Gen) RandScalar() *PV { return scalarAlphabet[g.R.Intn(len(scalarAlphabet))] }

// RandPV: a random tree of bounded depth; hashes have distinct keys
func (g *Gen) RandPV(depth int) *PV {
	x := g.R.Intn(10)
	if depth <= 0 || x < 4 {
		return g.RandScalar()
	}
	if x < 8 {
		return g.RandArr(depth)
	}
	return g.RandHash(depth)
}

func (g *Gen) RandArr(depth int) *PV {
	n := g.R.Intn(5)
	a := &PV{K: "a"}
	for i := 0; i < n; i++ {
		a.L = append(a.L, g.RandPV(depth-1))
	}
	return a
}

func (g *Gen) RandIntArr() *PV {
	n := g.R.Intn(6)
	a := &PV{K: "a"}
	for i := 0; i < n; i++ {
		a.L = append(a.L, In(int64(g.R.Intn(5))))
	}
	return a
}

func (g *Gen) RandHash(depth int) *PV {
	n := g.R.Intn(4)
	h := &PV{K: "h"}
	for i := 0; i < n; i++ {
		k := g.RandKey()
		dup := false
		for _, e := range h.L {
			if Veq(e.L[0], k) {
				dup = true
			}
		}
		if !dup {
			h.L = append(h.L, En(k, g.RandPV(depth-1)))
		}
	}
	return h
}

// Seed pushes a fresh collection through one of the three construction routes
func (g *Gen) Seed(p *PV) int {
	switch x := g.R.Intn(6); {
	case x < 2 && IsColl(p):
		return g.Push(Op{Kind: "Build", I: len(p.L) + g.R.Intn(5), P: p})
	case x < 4 && p.Parsable():
		return g.Push(Op{Kind: "Parse", P: p})
	}
	return g.Lit(p)
}

func (g *Gen) randPred() *Pred {
	if g.R.Chance(1, 3) {
		return &Pred{Kind: "int"}
	}
	return &Pred{Kind: "eq", X: g.R.Intn(len(g.Pool))}
}

func (g *Gen) randMapper() *Mapper {
	switch g.R.Intn(3) {
	case 0:
		return &Mapper{Kind: "id"}
	case 1:
		return &Mapper{Kind: "wrap"}
	}
	return &Mapper{Kind: "const", X: g.R.Intn(len(g.Pool))}
}

func (g *Gen) bounds(n int) (int, int) {
	switch x := g.R.Intn(12); {
	case x == 0:
		return 0, n + 1 + g.R.Intn(3) // beyond the length (within a spare capacity, perhaps)
	case x == 1:
		return -1, n
	case x == 2 && n > 0:
		return n, n - 1
	}
	i := g.R.Intn(n + 1)
	j := i + g.R.Intn(n+1-i)
	return i, j
}

// elemOf returns the index of a pool value equal to some element (or key) of p, pushing a literal if needed
func (g *Gen) elemOf(p *PV, key bool) int {
	if len(p.L) == 0 || g.R.Chance(1, 5) {
		if key {
			return g.Lit(g.RandKey())
		}
		return g.Lit(g.RandScalar())
	}
	e := p.L[g.R.Intn(len(p.L))]
	if key && e.K == "e" {
		e = e.L[0]
	}
	if e.K == "e" {
		return g.Lit(e)
	}
	if len(g.Keys) > 0 && g.R.Chance(1, 2) {
		// an equal key that is another tree (a hash with its entries in another order)
		for _, k := range g.Keys {
			if Veq(k, e) && !k.Equal(e) {
				return g.Lit(k)
			}
		}
	}
	for i, q := range g.Pool {
		if q.Equal(e) && g.R.Chance(1, 2) {
			return i
		}
	}
	return g.Lit(e)
}

// Weights of the random step kinds; Alias-heavy for C08, uniform-ish for C09
type Weights map[string]int

var AliasWeights = Weights{"Seed": 6, "Add": 16, "AddAll": 8, "Slice": 9, "EachSlice": 5, "Delete": 8, "DeleteAll": 7,
	"Select": 3, "Reject": 3, "Map": 2, "Sort": 2, "Flatten": 3, "Unique": 3, "At": 3, "Len": 1, "Find": 1,
	"Merge": 7, "Get": 2, "Includes": 1, "Keys": 1, "Values": 1, "MapValues": 2, "SelectPairs": 2, "RejectPairs": 2,
	"HashFromArray": 2, "Key": 1, "Value": 1, "Equals": 1, "Touch": 3, "AsArray": 1, "Twice": 10}

var ModelWeights = Weights{"Seed": 5, "Add": 8, "AddAll": 6, "Slice": 5, "EachSlice": 3, "Delete": 8, "DeleteAll": 8,
	"Select": 4, "Reject": 4, "Map": 3, "Sort": 3, "Flatten": 4, "Unique": 4, "At": 3, "Len": 1, "Find": 2,
	"Merge": 12, "Get": 5, "Includes": 3, "Keys": 2, "Values": 2, "MapValues": 3, "SelectPairs": 3, "RejectPairs": 3,
	"HashFromArray": 5, "Key": 1, "Value": 1, "Equals": 3, "Touch": 1, "AsArray": 2, "Twice": 2}

var weightOrder = []string{"Seed", "Add", "AddAll", "Slice", "EachSlice", "Delete", "DeleteAll", "Select", "Reject", "Map", "Sort",
	"Flatten", "Unique", "At", "Len", "Find", "Merge", "Get", "Includes", "Keys", "Values", "MapValues", "SelectPairs",
	"RejectPairs", "HashFromArray", "Key", "Value", "Equals", "Touch", "AsArray", "Twice"}

func (g *Gen) pickKind(w Weights) string {
	total := 0
	for _, k := range weightOrder {
		total += w[k]
	}
	x := g.R.Intn(total)
	for _, k := range weightOrder {
		if x < w[k] {
			return k
		}
		x -= w[k]
	}
	return "Seed"
}

// Step appends one random step (possibly preceded by literal steps for its arguments)
func (g *Gen) Step(w Weights) {
	kind := g.pickKind(w)
	coll := g.Pick(IsColl)
	if coll < 0 || kind == "Seed" {
		if g.R.Chance(1, 4) {
			g.Seed(g.RandPV(2))
		} else if g.R.Bool() {
			g.Seed(g.RandArr(2))
		} else {
			g.Seed(g.RandHash(2))
		}
		return
	}
	recv := g.Pool[coll]
	switch kind {
	case "Twice":
		// two additions on one receiver (the second must not disturb the result of the first)
		r := g.Pick(IsArr)
		if r < 0 {
			return
		}
		x := g.Lit(g.RandScalar())
		g.Push(Op{Kind: "Add", R: r, X: x})
		if g.R.Bool() {
			g.Push(Op{Kind: "Add", R: r, X: g.Lit(g.RandScalar())})
		} else {
			g.Push(Op{Kind: "AddAll", R: r, X: g.Lit(g.RandArr(1))})
		}
	case "Add":
		if recv.K == "h" {
			if g.R.Chance(1, 6) {
				g.Push(Op{Kind: "Add", R: coll, X: g.Lit(Ar(g.RandKey(), g.RandScalar()))})
			} else if g.R.Chance(1, 10) {
				g.Push(Op{Kind: "Add", R: coll, X: g.Lit(g.RandScalar())})
			} else {
				g.Push(Op{Kind: "Add", R: coll, X: g.Lit(En(g.RandKey(), g.RandScalar()))})
			}
		} else if g.R.Chance(1, 3) {
			g.Push(Op{Kind: "Add", R: coll, X: g.R.Intn(len(g.Pool))})
		} else {
			g.Push(Op{Kind: "Add", R: coll, X: g.Lit(g.RandScalar())})
		}
	case "AddAll":
		if recv.K == "h" && g.R.Chance(1, 3) {
			// array of pairs, possibly with a repeated key
			n := g.R.Intn(4)
			a := &PV{K: "a"}
			for i := 0; i < n; i++ {
				a.L = append(a.L, Ar(g.RandKey(), g.RandScalar()))
			}
			g.Push(Op{Kind: "AddAll", R: coll, X: g.Lit(a)})
		} else if x := g.Pick(func(p *PV) bool { return p.K == recv.K }); x >= 0 && g.R.Chance(2, 3) {
			g.Push(Op{Kind: "AddAll", R: coll, X: x})
		} else {
			g.Push(Op{Kind: "AddAll", R: coll, X: g.Pick(IsColl)})
		}
	case "Slice":
		i, j := g.bounds(len(recv.L))
		g.Push(Op{Kind: "Slice", R: coll, I: i, J: j})
	case "EachSlice":
		n := 1 + g.R.Intn(3)
		g.Push(Op{Kind: "EachSlice", R: coll, I: n, J: g.R.Intn(len(recv.L)/n + 2)})
	case "Delete":
		g.Push(Op{Kind: "Delete", R: coll, X: g.elemOf(recv, recv.K == "h")})
	case "DeleteAll":
		n := g.R.Intn(4)
		a := &PV{K: "a"}
		for i := 0; i < n; i++ {
			if len(recv.L) > 0 && g.R.Chance(3, 4) {
				e := recv.L[g.R.Intn(len(recv.L))]
				if recv.K == "h" {
					e = e.L[0]
				}
				a.L = append(a.L, e)
			} else {
				a.L = append(a.L, g.RandKey())
			}
		}
		g.Push(Op{Kind: "DeleteAll", R: coll, X: g.Lit(a)})
	case "Select", "Reject", "Find":
		pd := g.randPred()
		if pd.Kind == "eq" && g.R.Chance(2, 3) {
			pd.X = g.elemOf(recv, false)
		}
		g.Push(Op{Kind: kind, R: coll, Pd: pd})
	case "Map":
		g.Push(Op{Kind: "Map", R: coll, Mp: g.randMapper()})
	case "Sort":
		r := g.Pick(func(p *PV) bool { return IsColl(p) && allInts(p.L, p.K == "h") })
		if r < 0 || g.R.Chance(1, 3) {
			r = g.Seed(g.RandIntArr())
		}
		g.Push(Op{Kind: "Sort", R: r})
	case "Flatten", "Unique", "Len", "Touch":
		g.Push(Op{Kind: kind, R: coll})
	case "At":
		r := g.Pick(func(p *PV) bool { return isList(p) })
		g.Push(Op{Kind: "At", R: r, I: g.R.Intn(len(g.Pool[r].L)+2) - 1})
	case "Merge", "Get", "Includes", "Keys", "Values", "MapValues", "SelectPairs", "RejectPairs", "AsArray":
		r := g.Pick(IsHash)
		if r < 0 {
			g.Seed(g.RandHash(2))
			return
		}
		h := g.Pool[r]
		switch kind {
		case "Merge":
			x := g.Pick(IsHash)
			if g.R.Chance(1, 2) {
				x = g.Seed(g.RandHash(1))
			}
			g.Push(Op{Kind: "Merge", R: r, X: x})
		case "Get", "Includes":
			g.Push(Op{Kind: kind, R: r, X: g.elemOf(h, true)})
		case "MapValues":
			g.Push(Op{Kind: kind, R: r, Mp: g.randMapper()})
		case "SelectPairs", "RejectPairs":
			pd := g.randPred()
			if pd.Kind == "eq" {
				pd.X = g.elemOf(h, true)
			}
			g.Push(Op{Kind: kind, R: r, Pd: pd})
		default:
			g.Push(Op{Kind: kind, R: r})
		}
	case "HashFromArray":
		n := g.R.Intn(4)
		a := &PV{K: "a"}
		pairs := g.R.Bool()
		for i := 0; i < n; i++ {
			if pairs {
				a.L = append(a.L, Ar(g.RandKey(), g.RandScalar()))
			} else {
				a.L = append(a.L, g.RandKey(), g.RandScalar())
			}
		}
		if g.R.Chance(1, 8) {
			a.L = append(a.L, g.RandScalar())
		}
		g.Push(Op{Kind: "HashFromArray", R: g.Seed(a)})
	case "Key", "Value":
		e := g.Pick(IsEntry)
		if e < 0 {
			h := g.Pick(func(p *PV) bool { return p.K == "h" && len(p.L) > 0 })
			if h < 0 {
				return
			}
			e = g.Push(Op{Kind: "At", R: h, I: g.R.Intn(len(g.Pool[h].L))})
		}
		g.Push(Op{Kind: kind, R: e})
	case "Equals":
		g.Push(Op{Kind: "Equals", R: g.R.Intn(len(g.Pool)), X: g.R.Intn(len(g.Pool))})
	}
}

// RandomHistory: n random steps
func RandomHistory(r *lib.Rng, n int, w Weights) []Op { return RandomHistoryKeys(r, n, w, nil) }

// RandomHistoryKeys: n random steps over the given key alphabet (nil: the default one)
func RandomHistoryKeys(r *lib.Rng, n int, w Weights, keys []*PV) []Op {
	g := NewGen(r)
	g.Keys = keys
	// with equal keys that are different trees in the alphabet the generator's own pool must key hashes by Equals
	// too (or a literal taken from its pool could hold two equal keys)
	g.ref.ByEquals = keys != nil
	for len(g.Ops) < n {
		g.Step(w)
	}
	return g.Ops
}
