package collh

import (
	"fmt"
	"runtime"
	"strings"

	"github.com/lyraproj/issue/issue"
	"github.com/lyraproj/pcore/pcore"
	"github.com/lyraproj/pcore/px"
	"github.com/lyraproj/pcore/serialization"
	"github.com/lyraproj/pcore/types"
)

// MaxDepth bounds the element walk of a snapshot: on a defective tree aliasing can build a cyclic
// array, on which String()/ToKey() would overflow the (unrecoverable) Go stack.
const MaxDepth = 48

// Lit builds a fresh implementation value with exactly sized backing slices (no spare capacity).
func Lit(p *PV) px.Value {
	switch p.K {
	case "u":
		return px.Undef
	case "b":
		return types.WrapBoolean(p.B)
	case "i":
		return types.WrapInteger(p.I)
	case "s":
		return types.WrapString(p.S)
	case "a":
		els := make([]px.Value, len(p.L))
		for i, c := range p.L {
			els[i] = Lit(c)
		}
		return types.WrapValues(els)
	case "h":
		es := make([]*types.HashEntry, len(p.L))
		for i, c := range p.L {
			es[i] = types.WrapHashEntry(Lit(c.L[0]), Lit(c.L[1]))
		}
		return types.WrapHash(es)
	case "e":
		return types.WrapHashEntry(Lit(p.L[0]), Lit(p.L[1]))
	}
	panic("cannot build " + p.K)
}

// Build makes the top level collection with BuildArray/BuildHash and the given capacity (spare
// capacity when cap > length), children exactly sized.
func Build(capacity int, p *PV) px.Value {
	switch p.K {
	case "a":
		return types.BuildArray(capacity, func(ar *types.Array, els []px.Value) []px.Value {
			for _, c := range p.L {
				els = append(els, Lit(c))
			}
			return els
		})
	case "h":
		return types.BuildHash(capacity, func(h *types.Hash, es []*types.HashEntry) []*types.HashEntry {
			for _, c := range p.L {
				es = append(es, types.WrapHashEntry(Lit(c.L[0]), Lit(c.L[1])))
			}
			return es
		})
	}
	return Lit(p)
}

// Snapshot is the deep element walk of an implementation value (arrays through Len/At, hashes through
// Len/At + Key/Value of each entry), bounded by MaxDepth.
func Snapshot(v px.Value) *PV { return snapshot(v, MaxDepth) }

func snapshot(v px.Value, fuel int) *PV {
	if v == nil {
		return &PV{K: "nil"}
	}
	if fuel == 0 {
		return &PV{K: "cut"}
	}
	switch x := v.(type) {
	case *types.UndefValue:
		return U()
	case px.Boolean:
		return Bo(x.Bool())
	case px.Integer:
		return In(x.Int())
	case px.StringValue:
		return St(x.String())
	case *types.Array:
		n := x.Len()
		r := &PV{K: "a", L: make([]*PV, n)}
		for i := 0; i < n; i++ {
			r.L[i] = snapshot(rawAt(x, i), fuel-1)
		}
		return r
	case *types.HashEntry:
		if x == nil {
			return &PV{K: "nil"}
		}
		return En(snapshot(x.Key(), fuel-1), snapshot(x.Value(), fuel-1))
	case *types.MutableHashValue:
		// nested in the result of Hash.new(tree, 'tree') (xops.go): the Hash that it embeds
		return snapshot(&x.Hash, fuel)
	case *types.Hash:
		n := x.Len()
		r := &PV{K: "h", L: make([]*PV, n)}
		for i := 0; i < n; i++ {
			e := rawAt(x, i)
			if he, ok := e.(*types.HashEntry); ok && he != nil {
				r.L[i] = En(snapshot(he.Key(), fuel-1), snapshot(he.Value(), fuel-1))
			} else {
				r.L[i] = &PV{K: "nil"}
			}
		}
		return r
	}
	return &PV{K: "bad", S: fmt.Sprintf("%T", v)}
}

// rawAt is List.At, with a nil element (possible on a defective tree) mapped to nil
func rawAt(l px.List, i int) (v px.Value) {
	defer func() {
		if r := recover(); r != nil {
			v = nil
		}
	}()
	v = l.At(i)
	if he, ok := v.(*types.HashEntry); ok && he == nil {
		return nil
	}
	return v
}

// Texts are the other two observables named by the property: program-format text and hash key.  Only
// computed when the walk was clean (no nil element, no cycle), otherwise they could fault or not return.
type Texts struct {
	Program string
	Key     string
	Err     string
}

func TextsOf(v px.Value, snap *PV) (t Texts) {
	if !snap.Clean() {
		return Texts{Err: "unclean"}
	}
	defer func() {
		if r := recover(); r != nil {
			t.Err = "panic: " + fmt.Sprint(r)
		}
	}()
	t.Program = px.ToString2(v, types.Program)
	t.Key = string(px.ToKey(v))
	return
}

func classify(r interface{}) string {
	if _, ok := r.(runtime.Error); ok {
		return "fault"
	}
	if s, ok := r.(string); ok && s == "Operation not supported" {
		return "unsupported"
	}
	if _, ok := r.(issue.Reported); ok {
		return "issue"
	}
	return "other:" + strings.ReplaceAll(fmt.Sprintf("%T %v", r, r), "*)", "")
}

func mkPred(pool []px.Value, pd *Pred) px.Predicate {
	switch pd.Kind {
	case "eq":
		x := pool[pd.X]
		return func(v px.Value) bool { return v.Equals(x, nil) }
	case "int":
		return func(v px.Value) bool { _, ok := v.(px.Integer); return ok }
	}
	panic("bad pred")
}

func mkMapper(pool []px.Value, m *Mapper) px.Mapper {
	switch m.Kind {
	case "id":
		return func(v px.Value) px.Value { return v }
	case "wrap":
		return func(v px.Value) px.Value { return types.SingletonArray(v) }
	case "const":
		x := pool[m.X]
		return func(v px.Value) px.Value { return x }
	}
	panic("bad mapper")
}

func intLess(a, b px.Value) bool {
	x, ok1 := a.(px.Integer)
	y, ok2 := b.(px.Integer)
	return ok1 && ok2 && x.Int() < y.Int()
}

type badType struct{}

// sortable: the harness sorts only collections of integers (hashes: integer keys), on which the
// comparator is a strict total order up to identity, so that the result does not depend on the algorithm
func sortable(l px.List) bool {
	ok := true
	switch x := l.(type) {
	case *types.Array:
		x.Each(func(v px.Value) {
			if _, isInt := v.(px.Integer); !isInt {
				ok = false
			}
		})
	case *types.Hash:
		x.EachKey(func(v px.Value) {
			if _, isInt := v.(px.Integer); !isInt {
				ok = false
			}
		})
	default:
		ok = false
	}
	return ok
}

func asList(v px.Value) px.List {
	switch v.(type) {
	case *types.Array, *types.Hash, *types.HashEntry:
		return v.(px.List)
	}
	panic(badType{})
}

func asMap(v px.Value) px.OrderedMap {
	if h, ok := v.(*types.Hash); ok {
		return h
	}
	panic(badType{})
}

func freeEntry(p *PV) bool {
	if p.K == "e" {
		return true
	}
	for _, c := range p.L {
		if p.K == "h" && c.K == "e" {
			if freeEntry(c.L[0]) || freeEntry(c.L[1]) {
				return true
			}
		} else if freeEntry(c) {
			return true
		}
	}
	return false
}

// Touch runs the read-only operations named by the property (type inference, printing, hashing,
// serializing); they fill the lazy caches of the value.
func Touch(v px.Value) {
	defer func() { _ = recover() }()
	_ = v.PType()
	_ = px.DetailedValueType(v)
	_ = v.String()
	_ = px.ToString2(v, types.Program)
	_ = px.ToKey(v)
	if h, ok := v.(*types.Hash); ok {
		_ = h.IncludesKey(px.Undef)
	}
	if freeEntry(Snapshot(v)) {
		// a hash entry outside a hash is not serializable data (the serializer logs a warning and prints it)
		return
	}
	func() {
		defer func() { _ = recover() }()
		serialization.NewSerializer(pcore.RootContext(), px.EmptyMap).Convert(v, types.NewCollector())
	}()
}

// ApplyImpl runs one step on the real implementation. pool holds the values of all earlier steps.
// The returned value is what the step adds to the pool (undef on error).
func ApplyImpl(pool []px.Value, o Op) (res px.Value, errClass string) {
	defer func() {
		if r := recover(); r != nil {
			res = px.Undef
			if _, ok := r.(badType); ok {
				errClass = "badtype"
			} else {
				errClass = classify(r)
			}
		}
	}()
	switch o.Kind {
	case "Lit":
		return Lit(o.P), ""
	case "Build":
		return Build(o.I, o.P), ""
	case "Parse":
		return types.Parse(o.P.Literal()), ""
	case "Equals":
		return types.WrapBoolean(pool[o.R].Equals(pool[o.X], nil)), ""
	case "Touch":
		Touch(pool[o.R])
		return px.Undef, ""
	case "Key":
		if e, ok := pool[o.R].(*types.HashEntry); ok {
			return e.Key(), ""
		}
		panic(badType{})
	case "Value":
		if e, ok := pool[o.R].(*types.HashEntry); ok {
			return e.Value(), ""
		}
		panic(badType{})
	case "HashFromArray":
		if a, ok := pool[o.R].(*types.Array); ok {
			return types.WrapHashFromArray(a), ""
		}
		panic(badType{})
	case "HashNew", "MapEntries":
		return applyX(pool, o), ""
	case "Access":
		return applyA(pool, o), ""
	case "AsArray":
		switch x := pool[o.R].(type) {
		case *types.Hash:
			return x.AsArray(), ""
		case *types.HashEntry:
			return x.AsArray(), ""
		}
		panic(badType{})
	}
	switch o.Kind {
	case "Merge", "Get", "Includes", "Keys", "Values", "MapValues", "SelectPairs", "RejectPairs":
		m := asMap(pool[o.R])
		switch o.Kind {
		case "Merge":
			return m.Merge(asMap(pool[o.X])), ""
		case "Get":
			v, ok := m.Get(pool[o.X])
			v2 := m.Get2(pool[o.X], nil)
			if ok != m.IncludesKey(pool[o.X]) || (ok && v2 != v) || (!ok && v2 != nil) {
				return px.Undef, "other:Get, Get2 and IncludesKey disagree"
			}
			if !ok && !px.Undef.Equals(v, nil) {
				return px.Undef, "other:Get of an absent key does not return undef"
			}
			return v, ""
		case "Includes":
			return types.WrapBoolean(m.IncludesKey(pool[o.X])), ""
		case "Keys":
			return m.Keys(), ""
		case "Values":
			return m.Values(), ""
		case "MapValues":
			return m.MapValues(mkMapper(pool, o.Mp)), ""
		case "SelectPairs":
			p := mkPred(pool, o.Pd)
			return m.SelectPairs(func(k, v px.Value) bool { return p(k) }), ""
		case "RejectPairs":
			p := mkPred(pool, o.Pd)
			return m.RejectPairs(func(k, v px.Value) bool { return p(k) }), ""
		}
	}
	l := asList(pool[o.R])
	if _, isEntry := l.(*types.HashEntry); isEntry && !EntryOps[o.Kind] {
		panic(badType{})
	}
	switch o.Kind {
	case "Add":
		return l.Add(pool[o.X]), ""
	case "AddAll":
		return l.AddAll(asList(pool[o.X])), ""
	case "Slice":
		return l.Slice(o.I, o.J), ""
	case "Delete":
		return l.Delete(pool[o.X]), ""
	case "DeleteAll":
		return l.DeleteAll(asList(pool[o.X])), ""
	case "Select":
		return l.Select(mkPred(pool, o.Pd)), ""
	case "Reject":
		return l.Reject(mkPred(pool, o.Pd)), ""
	case "Find":
		v, ok := l.Find(mkPred(pool, o.Pd))
		if !ok {
			return px.Undef, ""
		}
		return v, ""
	case "Map":
		return l.Map(mkMapper(pool, o.Mp)), ""
	case "Sort":
		if s, ok := l.(px.SortableList); ok && sortable(l) {
			return s.Sort(intLess), ""
		}
		panic(badType{})
	case "Flatten":
		return l.Flatten(), ""
	case "Unique":
		return l.Unique(), ""
	case "At":
		return l.At(o.I), ""
	case "Len":
		return types.WrapInteger(int64(l.Len())), ""
	case "EachSlice":
		if o.I < 1 {
			panic(badType{})
		}
		var chunks []px.Value
		l.EachSlice(o.I, func(s px.List) { chunks = append(chunks, s) })
		if o.J < len(chunks) {
			return chunks[o.J], ""
		}
		return px.Undef, ""
	}
	panic("bad op " + o.Kind)
}
