package collh

import (
	"fmt"

	"github.com/lyraproj/pcore/px"
	"github.com/lyraproj/pcore/types"
)

// Change: a value obtained earlier does not look the same after a later step (C08).
type Change struct {
	Step   int    `json:"step"`
	Value  int    `json:"value"`
	What   string `json:"what"` // "walk" | "program-text" | "hash-key"
	Before string `json:"before"`
	After  string `json:"after"`
}

// Diff: the implementation's result of a step differs from the reference (C09).
type Diff struct {
	Step   int    `json:"step"`
	Clause string `json:"clause"`
	What   string `json:"what"`
}

type History struct {
	Ops       []Op
	Outs      []Out // implementation: projected result of every step
	RefOuts   []Out // reference
	Final     []*PV // snapshot of every pool value after the last step
	Ambiguous bool  // see ref.go
	Change    *Change
	Diff      *Diff
	Unclean   bool // a nil element or a cycle was seen in a snapshot
}

type RunOpts struct {
	// Immutability: re-snapshot every live value after each step and compare (C08)
	Immutability bool
	// Reference: run the pure reference alongside and compare results and queries (C09)
	Reference bool
	// TouchAll: run the read-only operations (type inference, printing, hashing, serializing) on
	// every live value after each step, so that lazily filled caches are exercised
	TouchAll bool
	// KeysByEquals: the reference keys hashes by Equals (Ref.ByEquals) - property C09
	KeysByEquals bool
}

// ProbeKeys are looked up in every hash result (present or not)
var ProbeKeys = []*PV{St("a"), St("b"), St("c"), In(1), Ar(St("a")), St("d"), In(2), U()}

// Run executes a history on the implementation (and the reference).
func Run(ops []Op, opt RunOpts) *History {
	h := &History{Ops: ops}
	pool := make([]px.Value, 0, len(ops))
	snaps := make([]*PV, 0, len(ops))
	texts := make([]Texts, 0, len(ops))
	refPool := make([]*PV, 0, len(ops))
	ref := &Ref{ByEquals: opt.KeysByEquals}
	for i, o := range ops {
		res, errClass := ApplyImpl(pool, o)
		res = Unwrap(res) // xops.go: only the results of Hash.new(.., 'tree') hold such values
		var out Out
		var snap *PV
		if errClass != "" {
			out = Out{Err: errClass}
			res = px.Undef
			snap = U()
		} else {
			snap = Snapshot(res)
			out = Out{V: snap}
		}
		if !snap.Clean() {
			h.Unclean = true
		}
		h.Outs = append(h.Outs, out)
		if opt.Reference {
			rv, rerr := ref.Apply(refPool, o)
			var rout Out
			if rerr != "" {
				rout = Out{Err: rerr}
				rv = U()
			} else {
				rout = Out{V: rv}
			}
			refPool = append(refPool, rv)
			h.RefOuts = append(h.RefOuts, rout)
			if h.Diff == nil && !ref.Ambiguous {
				if !sameOut(o, out, rout) {
					h.Diff = &Diff{Step: i, Clause: clauseOf(o, refPool), What: fmt.Sprintf("step %d %s returned %s, the abstract %s returns %s",
						i, o.String(), out, kindName(o, refPool), rout)}
				} else if errClass == "" {
					if msg, clause := QueryCheck(res, snap, ref); msg != "" && !ref.Ambiguous {
						h.Diff = &Diff{Step: i, Clause: clause, What: fmt.Sprintf("result of step %d %s = %s: %s", i, o.String(), snap, msg)}
					}
				}
			}
		}
		stop := false
		if opt.Immutability && o.Kind != "Lit" {
			// every value obtained before this step must look exactly as it did before the step
			// (a Lit step only runs the harness's own construction of a fresh literal: no operation)
			for j, v := range pool {
				now := Snapshot(v)
				if !now.Equal(snaps[j]) {
					h.Change = &Change{Step: i, Value: j, What: "walk", Before: snaps[j].String(), After: now.String()}
					break
				}
				t := TextsOf(v, now)
				if t.Program != texts[j].Program || t.Err != texts[j].Err {
					h.Change = &Change{Step: i, Value: j, What: "program-text", Before: texts[j].Program + texts[j].Err, After: t.Program + t.Err}
					break
				}
				if t.Key != texts[j].Key {
					h.Change = &Change{Step: i, Value: j, What: "hash-key", Before: fmt.Sprintf("%q", texts[j].Key), After: fmt.Sprintf("%q", t.Key)}
					break
				}
			}
			stop = h.Change != nil
		}
		pool = append(pool, res)
		snaps = append(snaps, snap)
		if opt.Immutability {
			texts = append(texts, TextsOf(res, snap))
			if opt.TouchAll && !stop && snap.Clean() {
				// the read-only operations (type inference, printing, hashing, serializing) fill the lazy
				// caches of the new value; they must not change what it contains
				Touch(res)
				if now := Snapshot(res); !now.Equal(snap) {
					h.Change = &Change{Step: i, Value: i, What: "walk (after the read-only operations)", Before: snap.String(), After: now.String()}
					stop = true
				}
			}
		}
		// a nil element or a cycle (possible only on a defective tree): no further operation is applied,
		// printing or hashing such a value may not return
		if stop || !snap.Clean() {
			h.Ops = ops[:i+1]
			break
		}
	}
	h.Ambiguous = ref.Ambiguous
	h.Final = make([]*PV, len(pool))
	for j, v := range pool {
		h.Final[j] = Snapshot(v)
		if !h.Final[j].Clean() {
			h.Unclean = true
		}
	}
	return h
}

// sameOut: the implementation's result is the one the abstract sequence / map gives.  A Slice whose bounds lie
// outside the sequence has no result: the abstract model only says that the call fails, not how (a Go runtime
// error and a reported issue are both failures).
func sameOut(o Op, out, rout Out) bool {
	if o.Kind == "Slice" && rout.Err == "fault" && (out.Err == "fault" || out.Err == "issue") {
		return true
	}
	return out.Equal(rout)
}

func kindName(o Op, refPool []*PV) string {
	if o.R < len(refPool) && refPool[o.R].K == "h" {
		return "insertion-ordered map"
	}
	return "sequence"
}

func clauseOf(o Op, refPool []*PV) string {
	switch o.Kind {
	case "Lit", "Build":
		return "construct"
	case "Parse":
		return "parse-literal"
	case "HashFromArray":
		return "hash-abstract-map"
	}
	if o.R < len(refPool) && refPool[o.R].K == "h" {
		return "hash-abstract-map"
	}
	return "array-abstract-sequence"
}

// QueryCheck compares every query method of List / OrderedMap on v with the snapshot of v (taken
// through Len/At): returns a description of the first inconsistency and the clause it falls under.
func QueryCheck(v px.Value, snap *PV, ref *Ref) (msg string, clause string) {
	defer func() {
		if r := recover(); r != nil {
			msg, clause = fmt.Sprintf("a query method panicked: %v", r), "queries"
		}
	}()
	if !snap.Clean() {
		return "the value holds a nil element or is cyclic", "queries"
	}
	// the invariant holds for the value and everything inside it
	if m := dupKeys(snap, ref); m != "" {
		return m, "no-two-equal-keys"
	}
	switch x := v.(type) {
	case *types.Array:
		n := len(snap.L)
		if x.Len() != n || x.IsEmpty() != (n == 0) {
			return "Len/IsEmpty disagree with the walk", "queries"
		}
		if !px.Undef.Equals(x.At(-1), nil) || !px.Undef.Equals(x.At(n), nil) {
			return "At outside the bounds does not return undef", "queries"
		}
		i := 0
		ok := true
		x.Each(func(e px.Value) {
			if i >= n || !Snapshot(e).Equal(snap.L[i]) {
				ok = false
			}
			i++
		})
		if !ok || i != n {
			return "Each disagrees with At", "queries"
		}
		i = 0
		x.EachWithIndex(func(e px.Value, idx int) {
			if idx != i || i >= n || !Snapshot(e).Equal(snap.L[i]) {
				ok = false
			}
			i++
		})
		if !ok || i != n {
			return "EachWithIndex disagrees with At", "queries"
		}
		app := x.AppendTo(make([]px.Value, 0, 1))
		if len(app) != n {
			return "AppendTo disagrees with Len", "queries"
		}
		for j, e := range app {
			if !Snapshot(e).Equal(snap.L[j]) {
				return "AppendTo disagrees with At", "queries"
			}
		}
	case *types.Hash:
		n := len(snap.L)
		if x.Len() != n || x.IsEmpty() != (n == 0) {
			return "Len/IsEmpty disagree with the walk", "queries"
		}
		ks, vs := Snapshot(x.Keys()), Snapshot(x.Values())
		if ks.K != "a" || vs.K != "a" || len(ks.L) != n || len(vs.L) != n {
			return "Keys/Values have the wrong length", "queries"
		}
		for i, e := range snap.L {
			if !ks.L[i].Equal(e.L[0]) || !vs.L[i].Equal(e.L[1]) {
				return fmt.Sprintf("Keys/Values disagree with entry %d", i), "queries"
			}
		}
		i := 0
		ok := true
		x.EachPair(func(k, val px.Value) {
			if i >= n || !Snapshot(k).Equal(snap.L[i].L[0]) || !Snapshot(val).Equal(snap.L[i].L[1]) {
				ok = false
			}
			i++
		})
		if !ok || i != n {
			return "EachPair disagrees with At", "queries"
		}
		i = 0
		x.EachKey(func(k px.Value) {
			if i >= n || !Snapshot(k).Equal(snap.L[i].L[0]) {
				ok = false
			}
			i++
		})
		if !ok || i != n {
			return "EachKey disagrees with At", "queries"
		}
		i = 0
		x.EachValue(func(val px.Value) {
			if i >= n || !Snapshot(val).Equal(snap.L[i].L[1]) {
				ok = false
			}
			i++
		})
		if !ok || i != n {
			return "EachValue disagrees with At", "queries"
		}
		// lookups find exactly the present keys: every present key, and the probe keys
		probes := append([]*PV{}, ProbeKeys...)
		for _, e := range snap.L {
			probes = append(probes, e.L[0])
		}
		for _, k := range probes {
			if k.K == "e" {
				continue
			}
			pos := ref.find(snap.L, k)
			kv := Lit(k)
			got, found := x.Get(kv)
			inc := x.IncludesKey(kv)
			if found != (pos >= 0) || inc != (pos >= 0) {
				return fmt.Sprintf("Get/IncludesKey(%s) = %v/%v but the key is %s", k, found, inc, presence(pos)), "lookup"
			}
			if pos >= 0 && !Snapshot(got).Equal(snap.L[pos].L[1]) {
				return fmt.Sprintf("Get(%s) = %s but the entry holds %s", k, Snapshot(got), snap.L[pos].L[1]), "lookup"
			}
			d := x.Get2(kv, px.Undef)
			if pos < 0 && !px.Undef.Equals(d, nil) {
				return fmt.Sprintf("Get2(%s) of an absent key does not return the default", k), "lookup"
			}
			if k.K == "s" {
				g4, f4 := x.Get4(k.S)
				if f4 != (pos >= 0) || x.IncludesKey2(k.S) != (pos >= 0) {
					return fmt.Sprintf("Get4/IncludesKey2(%q) disagree with presence", k.S), "lookup"
				}
				if pos >= 0 && !Snapshot(g4).Equal(snap.L[pos].L[1]) {
					return fmt.Sprintf("Get4(%q) returns another entry's value", k.S), "lookup"
				}
				ge, fe := x.GetEntry(k.S)
				if fe != (pos >= 0) || (fe && !Snapshot(ge).Equal(snap.L[pos])) {
					return fmt.Sprintf("GetEntry(%q) disagrees", k.S), "lookup"
				}
			}
		}
	}
	return "", ""
}

func presence(pos int) string {
	if pos >= 0 {
		return "present"
	}
	return "absent"
}

// dupKeys: the invariant "no hash ever holds two equal keys", anywhere inside the tree
func dupKeys(p *PV, ref *Ref) string {
	if p.K == "h" {
		for i := range p.L {
			for j := i + 1; j < len(p.L); j++ {
				if p.L[i].K != "e" || p.L[j].K != "e" {
					continue
				}
				if ref.keq(p.L[i].L[0], p.L[j].L[0]) {
					return fmt.Sprintf("the hash %s holds the key %s twice (entries %d and %d)", p, p.L[i].L[0], i, j)
				}
			}
		}
	}
	for _, c := range p.L {
		if m := dupKeys(c, ref); m != "" {
			return m
		}
	}
	return ""
}
