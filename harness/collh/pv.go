// Package collh is the machinery shared by the C08 (immutability) and C09 (abstract collections)
// harnesses: the pure value trees, the operation language over a pool of values, the application of an
// operation to the real pcore implementation, the Go reference (immutable sequence / insertion-ordered
// map), the deep snapshot of an implementation value, generators and the Gallina printers.
// The Rocq counterparts are coq/Model/Heap.v (stores, slices) and coq/Model/Coll.v (operations).
package collh

import (
	"fmt"
	"strings"

	"verifharness/lib"
)

// PV is a pure value tree (Coq: `pv` in Model/Coll.v).
//  K: "u" undef, "b" boolean, "i" integer, "s" string, "a" array (L = elements),
//     "h" hash (L = entries, each of kind "e"), "e" hash entry (L = [key, value]),
//     "nil" a Go nil element, "cut" the snapshot depth limit was hit (cyclic value), "bad" not a supported kind
type PV struct {
	K string `json:"k"`
	B bool   `json:"b,omitempty"`
	I int64  `json:"i,omitempty"`
	S string `json:"s,omitempty"`
	L []*PV  `json:"l,omitempty"`
}

func U() *PV                { return &PV{K: "u"} }
func Bo(b bool) *PV         { return &PV{K: "b", B: b} }
func In(i int64) *PV        { return &PV{K: "i", I: i} }
func St(s string) *PV       { return &PV{K: "s", S: s} }
func Ar(l ...*PV) *PV       { return &PV{K: "a", L: l} }
func En(k, v *PV) *PV       { return &PV{K: "e", L: []*PV{k, v}} }
func Ha(entries ...*PV) *PV { return &PV{K: "h", L: entries} }

func (p *PV) Key() *PV { return p.L[0] }
func (p *PV) Val() *PV { return p.L[1] }

// Equal is structural equality of trees; on the harness universe this is equality of px.ToKey bytes.
func (p *PV) Equal(q *PV) bool {
	if p.K != q.K || len(p.L) != len(q.L) {
		return false
	}
	switch p.K {
	case "b":
		return p.B == q.B
	case "i":
		return p.I == q.I
	case "s":
		return p.S == q.S
	}
	for i := range p.L {
		if !p.L[i].Equal(q.L[i]) {
			return false
		}
	}
	return true
}

// HasRepeatedKey: some hash inside the tree holds two entries with equal keys
func (p *PV) HasRepeatedKey() bool {
	if p.K == "h" {
		for i := range p.L {
			for j := i + 1; j < len(p.L); j++ {
				if p.L[i].K == "e" && p.L[j].K == "e" && Veq(p.L[i].L[0], p.L[j].L[0]) {
					return true
				}
			}
		}
	}
	for _, c := range p.L {
		if c.HasRepeatedKey() {
			return true
		}
	}
	return false
}

// Clean: no nil / cut / bad node anywhere
func (p *PV) Clean() bool {
	switch p.K {
	case "nil", "cut", "bad":
		return false
	}
	for _, c := range p.L {
		if !c.Clean() {
			return false
		}
	}
	return true
}

func (p *PV) Depth() int {
	d := 0
	for _, c := range p.L {
		if x := c.Depth(); x > d {
			d = x
		}
	}
	return d + 1
}

func (p *PV) Size() int {
	n := 1
	for _, c := range p.L {
		n += c.Size()
	}
	return n
}

// String is a compact canonical text (used for distinct counting and messages)
func (p *PV) String() string {
	var b strings.Builder
	p.write(&b)
	return b.String()
}

func (p *PV) write(b *strings.Builder) {
	switch p.K {
	case "u":
		b.WriteString("undef")
	case "b":
		fmt.Fprintf(b, "%v", p.B)
	case "i":
		fmt.Fprintf(b, "%d", p.I)
	case "s":
		fmt.Fprintf(b, "%q", p.S)
	case "a":
		b.WriteString("[")
		for i, c := range p.L {
			if i > 0 {
				b.WriteString(",")
			}
			c.write(b)
		}
		b.WriteString("]")
	case "h":
		b.WriteString("{")
		for i, c := range p.L {
			if i > 0 {
				b.WriteString(",")
			}
			if c.K == "e" {
				c.L[0].write(b)
				b.WriteString("=>")
				c.L[1].write(b)
			} else {
				c.write(b)
			}
		}
		b.WriteString("}")
	case "e":
		b.WriteString("(")
		p.L[0].write(b)
		b.WriteString("=>")
		p.L[1].write(b)
		b.WriteString(")")
	default:
		b.WriteString("<" + p.K + ">")
	}
}

// Literal is the Puppet literal text handed to types.Parse (only for trees of undef/bool/int/simple
// strings/arrays/hashes; entries cannot be written at top level).
func (p *PV) Literal() string {
	var b strings.Builder
	p.literal(&b)
	return b.String()
}

func (p *PV) literal(b *strings.Builder) {
	switch p.K {
	case "u":
		b.WriteString("undef")
	case "b":
		fmt.Fprintf(b, "%v", p.B)
	case "i":
		fmt.Fprintf(b, "%d", p.I)
	case "s":
		b.WriteString("'" + p.S + "'")
	case "a":
		b.WriteString("[")
		for i, c := range p.L {
			if i > 0 {
				b.WriteString(", ")
			}
			c.literal(b)
		}
		b.WriteString("]")
	case "h":
		b.WriteString("{")
		for i, c := range p.L {
			if i > 0 {
				b.WriteString(", ")
			}
			c.L[0].literal(b)
			b.WriteString(" => ")
			c.L[1].literal(b)
		}
		b.WriteString("}")
	default:
		panic("no literal for " + p.K)
	}
}

// Parsable: can be written as literal text that lexes back to the same tree
func (p *PV) Parsable() bool {
	switch p.K {
	case "u", "b", "i":
		return true
	case "s":
		if p.S == "" {
			return true
		}
		for i := 0; i < len(p.S); i++ {
			c := p.S[i]
			if !(c >= 'a' && c <= 'z' || c >= '0' && c <= '9' || c == ' ' || c >= 'A' && c <= 'Z') {
				return false
			}
		}
		return true
	case "a":
		for _, c := range p.L {
			if !c.Parsable() {
				return false
			}
		}
		return true
	case "h":
		for _, c := range p.L {
			if c.K != "e" || !c.L[0].Parsable() || !c.L[1].Parsable() {
				return false
			}
		}
		return true
	}
	return false
}

// Gallina prints the tree as a term of type `pv`.
func (p *PV) Gallina() string {
	switch p.K {
	case "u":
		return "PUndef"
	case "b":
		return "(PBool " + lib.GBool(p.B) + ")"
	case "i":
		return "(PInt " + lib.GZ(p.I) + ")"
	case "s":
		return "(PStr " + lib.GStr(p.S) + ")"
	case "a":
		es := make([]string, len(p.L))
		for i, c := range p.L {
			es[i] = c.Gallina()
		}
		return "(PArr " + lib.GList(es, "pv") + ")"
	case "h":
		es := make([]string, len(p.L))
		for i, c := range p.L {
			if c.K == "e" {
				es[i] = lib.GPair(c.L[0].Gallina(), c.L[1].Gallina())
			} else {
				es[i] = lib.GPair("PNil", "PNil")
			}
		}
		return "(PHash " + lib.GList(es, "pv * pv") + ")"
	case "e":
		return "(PEntry " + p.L[0].Gallina() + " " + p.L[1].Gallina() + ")"
	case "nil":
		return "PNil"
	case "cut":
		return "PCut"
	}
	return "PBad"
}
