package collh

import "sort"

// The Go reference: an Array is an immutable sequence, a Hash an immutable insertion-ordered map keyed
// by value equality (one entry per key), written on pure trees from the interface documentation
// (px/values.go List / OrderedMap) - no slices, no index, no sharing.
//
// Two notions of equality occur in the interface: `Equals` (Veq: a two element array equals a hash entry,
// hashes are equal irrespective of order) and hash-key equality (px.ToKey; on the harness universe =
// structural equality of the trees).  Where the two differ on a pair that an operation compares, the
// expected result depends on which notion is meant - that is the subject of property C07, not of C08/C09 -
// and the history is flagged Ambiguous (excluded from the reference comparison and from the model tie).
// With Ref.ByEquals (property C09: "a map keyed by value equality") the reference takes the side of Equals instead.

type Ref struct {
	Ambiguous bool
	// ByEquals: hash-key equality IS Equals (the statement of property C09: "a Hash is a map keyed by value
	// equality"; px.ToKey must respect Equals).  The reference then takes the side of Equals wherever the two
	// notions could differ (a hash entry against its two element array, hashes with the same entries in another
	// order, at any depth) and no history is flagged Ambiguous.
	ByEquals bool
}

// Veq mirrors Equals of the value kinds of the universe.
func Veq(a, b *PV) bool {
	switch a.K {
	case "u":
		return b.K == "u"
	case "b":
		return b.K == "b" && a.B == b.B
	case "i":
		return b.K == "i" && a.I == b.I
	case "s":
		return b.K == "s" && a.S == b.S
	case "a":
		if b.K == "a" && len(a.L) == len(b.L) {
			for i := range a.L {
				if !Veq(a.L[i], b.L[i]) {
					return false
				}
			}
			return true
		}
		if len(a.L) == 2 && b.K == "e" {
			return Veq(a.L[0], b.L[0]) && Veq(a.L[1], b.L[1])
		}
		return false
	case "e":
		if b.K == "e" {
			return Veq(a.L[0], b.L[0]) && Veq(a.L[1], b.L[1])
		}
		if b.K == "a" && len(b.L) == 2 {
			return Veq(a.L[0], b.L[0]) && Veq(a.L[1], b.L[1])
		}
		return false
	case "h":
		if b.K != "h" || len(a.L) != len(b.L) {
			return false
		}
		for _, e := range a.L {
			found := false
			for _, f := range b.L {
				// the key is looked up through the index of the other hash: by its hash key, i.e. (C07) by Equals
				if Veq(e.L[0], f.L[0]) {
					found = Veq(e, f)
					break
				}
			}
			if !found {
				return false
			}
		}
		return true
	}
	return false
}

// eq is the equality meant by `Equals` calls; flags the history when key equality would answer differently
func (r *Ref) eq(a, b *PV) bool {
	v := Veq(a, b)
	if !r.ByEquals && v != a.Equal(b) {
		r.Ambiguous = true
	}
	return v
}

// keq is hash-key equality; flags the history when Equals would answer differently
func (r *Ref) keq(a, b *PV) bool {
	if r.ByEquals {
		return Veq(a, b)
	}
	k := a.Equal(b)
	if k != Veq(a, b) {
		r.Ambiguous = true
	}
	return k
}

func (r *Ref) find(entries []*PV, k *PV) int {
	pos := -1
	for i, e := range entries {
		if r.keq(e.L[0], k) && pos < 0 {
			pos = i
		}
	}
	return pos
}

// put: replace the entry of an existing key in place, append a new key
func (r *Ref) put(entries []*PV, e *PV) []*PV {
	if i := r.find(entries, e.L[0]); i >= 0 {
		out := append([]*PV{}, entries...)
		out[i] = e
		return out
	}
	return append(append([]*PV{}, entries...), e)
}

func (r *Ref) merge(a, b []*PV) []*PV {
	out := a
	for _, e := range b {
		out = r.put(out, e)
	}
	return out
}

// elements of a list-like value as the List interface enumerates them
func elems(p *PV) []*PV {
	return p.L // array: elements; hash: entries; entry: key, value
}

func isList(p *PV) bool { return p.K == "a" || p.K == "h" || p.K == "e" }

func (r *Ref) pred(pool []*PV, pd *Pred) func(*PV) bool {
	if pd.Kind == "eq" {
		x := pool[pd.X]
		return func(v *PV) bool { return r.eq(v, x) }
	}
	return func(v *PV) bool { return v.K == "i" }
}

func mapper(pool []*PV, m *Mapper) func(*PV) *PV {
	switch m.Kind {
	case "id":
		return func(v *PV) *PV { return v }
	case "wrap":
		return func(v *PV) *PV { return Ar(v) }
	}
	x := pool[m.X]
	return func(v *PV) *PV { return x }
}

func flatten(els []*PV, out []*PV) []*PV {
	for _, e := range els {
		switch e.K {
		case "a", "e":
			out = flatten(e.L, out)
		default:
			out = append(out, e)
		}
	}
	return out
}

func allInts(els []*PV, key bool) bool {
	for _, e := range els {
		if key {
			e = e.L[0]
		}
		if e.K != "i" {
			return false
		}
	}
	return true
}

func (r *Ref) hashFromArray(x *PV) ([]*PV, string) {
	top := len(x.L)
	pairs := top > 0
	for _, e := range x.L {
		if e.K != "a" && e.K != "e" {
			pairs = false
		}
	}
	var entries []*PV
	if pairs {
		for _, e := range x.L {
			if len(e.L) != 2 {
				return nil, "issue"
			}
			entries = r.put(entries, En(e.L[0], e.L[1]))
		}
	} else {
		if top%2 != 0 {
			return nil, "issue"
		}
		for i := 0; i < top; i += 2 {
			entries = r.put(entries, En(x.L[i], x.L[i+1]))
		}
	}
	return entries, ""
}

// EntryOps are the operations the harness applies to a HashEntry receiver
var EntryOps = map[string]bool{"Add": true, "AddAll": true, "Delete": true, "DeleteAll": true, "At": true, "Len": true,
	"Key": true, "Value": true, "AsArray": true, "Flatten": true, "Equals": true, "Touch": true}

func val(p *PV) (*PV, string) { return p, "" }

// dedupLiteral: what a literal with repeated keys denotes (later value replaces the earlier entry in place)
func (r *Ref) dedupLiteral(p *PV) *PV {
	switch p.K {
	case "a":
		out := &PV{K: "a", L: make([]*PV, len(p.L))}
		for i, c := range p.L {
			out.L[i] = r.dedupLiteral(c)
		}
		return out
	case "h":
		var es []*PV
		for _, c := range p.L {
			es = r.put(es, En(r.dedupLiteral(c.L[0]), r.dedupLiteral(c.L[1])))
		}
		return &PV{K: "h", L: es}
	}
	return p
}

// Apply evaluates one step on the pure pool; returns the value appended to the pool and the error class.
func (r *Ref) Apply(pool []*PV, o Op) (*PV, string) {
	switch o.Kind {
	case "Lit", "Build":
		return val(o.P)
	case "Parse":
		return val(r.dedupLiteral(o.P))
	case "Equals":
		return val(Bo(r.eq(pool[o.R], pool[o.X])))
	case "Touch":
		return val(U())
	case "Key", "Value":
		if pool[o.R].K != "e" {
			return U(), "badtype"
		}
		if o.Kind == "Key" {
			return val(pool[o.R].L[0])
		}
		return val(pool[o.R].L[1])
	case "HashFromArray":
		if pool[o.R].K != "a" {
			return U(), "badtype"
		}
		es, err := r.hashFromArray(pool[o.R])
		if err != "" {
			return U(), err
		}
		return val(Ha(es...))
	case "AsArray":
		switch x := pool[o.R]; x.K {
		case "h":
			out := &PV{K: "a", L: make([]*PV, len(x.L))}
			for i, e := range x.L {
				out.L[i] = Ar(e.L[0], e.L[1])
			}
			return val(out)
		case "e":
			return val(Ar(x.L[0], x.L[1]))
		}
		return U(), "badtype"
	}
	recv := pool[o.R]
	switch o.Kind {
	case "Merge", "Get", "Includes", "Keys", "Values", "MapValues", "SelectPairs", "RejectPairs":
		if recv.K != "h" {
			return U(), "badtype"
		}
		switch o.Kind {
		case "Merge":
			if pool[o.X].K != "h" {
				return U(), "badtype"
			}
			return val(Ha(r.merge(recv.L, pool[o.X].L)...))
		case "Get":
			if i := r.find(recv.L, pool[o.X]); i >= 0 {
				return val(recv.L[i].L[1])
			}
			return val(U())
		case "Includes":
			return val(Bo(r.find(recv.L, pool[o.X]) >= 0))
		case "Keys", "Values":
			out := &PV{K: "a", L: make([]*PV, len(recv.L))}
			for i, e := range recv.L {
				if o.Kind == "Keys" {
					out.L[i] = e.L[0]
				} else {
					out.L[i] = e.L[1]
				}
			}
			return val(out)
		case "MapValues":
			m := mapper(pool, o.Mp)
			out := &PV{K: "h", L: make([]*PV, len(recv.L))}
			for i, e := range recv.L {
				out.L[i] = En(e.L[0], m(e.L[1]))
			}
			return val(out)
		case "SelectPairs", "RejectPairs":
			p := r.pred(pool, o.Pd)
			out := &PV{K: "h"}
			for _, e := range recv.L {
				if p(e.L[0]) == (o.Kind == "SelectPairs") {
					out.L = append(out.L, e)
				}
			}
			return val(out)
		}
	}
	if !isList(recv) || (recv.K == "e" && !EntryOps[o.Kind]) {
		return U(), "badtype"
	}
	switch o.Kind {
	case "Add":
		x := pool[o.X]
		switch recv.K {
		case "a":
			return val(Ar(append(append([]*PV{}, recv.L...), x)...))
		case "h":
			if x.K == "e" {
				return val(Ha(r.put(recv.L, x)...))
			}
			if x.K == "a" && len(x.L) == 2 {
				return val(Ha(r.put(recv.L, En(x.L[0], x.L[1]))...))
			}
		}
		return U(), "unsupported"
	case "AddAll":
		x := pool[o.X]
		if !isList(x) {
			return U(), "badtype"
		}
		switch recv.K {
		case "a":
			return val(Ar(append(append([]*PV{}, recv.L...), elems(x)...)...))
		case "h":
			switch x.K {
			case "h":
				return val(Ha(r.merge(recv.L, x.L)...))
			case "a":
				es, err := r.hashFromArray(x)
				if err != "" {
					return U(), err
				}
				return val(Ha(r.merge(recv.L, es)...))
			}
		}
		return U(), "unsupported"
	case "Slice":
		if recv.K == "e" {
			return U(), "badtype"
		}
		if o.I < 0 || o.I > o.J || o.J > len(recv.L) {
			return U(), "fault"
		}
		return val(&PV{K: recv.K, L: append([]*PV{}, recv.L[o.I:o.J]...)})
	case "Delete":
		x := pool[o.X]
		switch recv.K {
		case "a":
			out := &PV{K: "a"}
			for _, e := range recv.L {
				if !r.eq(e, x) {
					out.L = append(out.L, e)
				}
			}
			return val(out)
		case "h":
			out := &PV{K: "h"}
			for _, e := range recv.L {
				if !r.keq(e.L[0], x) {
					out.L = append(out.L, e)
				}
			}
			return val(out)
		}
		return U(), "unsupported"
	case "DeleteAll":
		x := pool[o.X]
		if !isList(x) {
			return U(), "badtype"
		}
		switch recv.K {
		case "a":
			out := &PV{K: "a"}
			for _, e := range recv.L {
				hit := false
				for _, d := range elems(x) {
					if !hit && r.eq(e, d) {
						hit = true
					}
				}
				if !hit {
					out.L = append(out.L, e)
				}
			}
			return val(out)
		case "h":
			out := &PV{K: "h"}
			for _, e := range recv.L {
				hit := false
				for _, d := range elems(x) {
					if r.keq(e.L[0], d) {
						hit = true
					}
				}
				if !hit {
					out.L = append(out.L, e)
				}
			}
			return val(out)
		}
		return U(), "unsupported"
	case "Select", "Reject":
		p := r.pred(pool, o.Pd)
		out := &PV{K: recv.K}
		for _, e := range recv.L {
			if p(e) == (o.Kind == "Select") {
				out.L = append(out.L, e)
			}
		}
		return val(out)
	case "Find":
		p := r.pred(pool, o.Pd)
		for _, e := range recv.L {
			if p(e) {
				return val(e)
			}
		}
		return val(U())
	case "Map":
		m := mapper(pool, o.Mp)
		out := &PV{K: "a", L: make([]*PV, len(recv.L))}
		for i, e := range recv.L {
			out.L[i] = m(e)
		}
		return val(out)
	case "Sort":
		if !allInts(recv.L, recv.K == "h") {
			return U(), "badtype"
		}
		out := &PV{K: recv.K, L: append([]*PV{}, recv.L...)}
		sort.SliceStable(out.L, func(i, j int) bool {
			if recv.K == "h" {
				return out.L[i].L[0].I < out.L[j].L[0].I
			}
			return out.L[i].I < out.L[j].I
		})
		return val(out)
	case "Flatten":
		switch recv.K {
		case "a":
			for _, e := range recv.L {
				if e.K == "a" || e.K == "e" {
					return val(Ar(flatten(recv.L, nil)...))
				}
			}
			return val(recv)
		case "h":
			var els []*PV
			for _, e := range recv.L {
				els = append(els, e.L[0], e.L[1])
			}
			return val(Ar(flatten(els, nil)...))
		}
		return val(Ar(flatten(recv.L, nil)...))
	case "Unique":
		if recv.K == "h" {
			return val(recv)
		}
		out := &PV{K: "a"}
		for _, e := range recv.L {
			dup := false
			for _, f := range out.L {
				if r.keq(e, f) {
					dup = true
				}
			}
			if !dup {
				out.L = append(out.L, e)
			}
		}
		return val(out)
	case "At":
		if o.I >= 0 && o.I < len(recv.L) {
			return val(recv.L[o.I])
		}
		return val(U())
	case "Len":
		return val(In(int64(len(recv.L))))
	case "EachSlice":
		if o.I < 1 || recv.K == "e" {
			return U(), "badtype"
		}
		lo := o.J * o.I
		if lo >= len(recv.L) {
			return val(U())
		}
		hi := lo + o.I
		if hi > len(recv.L) {
			hi = len(recv.L)
		}
		return val(Ar(append([]*PV{}, recv.L[lo:hi]...)...))
	}
	panic("bad op " + o.Kind)
}
