package collh

import (
	"fmt"
	"strings"

	"verifharness/lib"
)

// Pred is the tiny predicate language handed to Select/Reject/Find/SelectPairs/RejectPairs.
//  "eq": the element Equals pool[X];  "int": the element is an Integer
type Pred struct {
	Kind string `json:"k"`
	X    int    `json:"x,omitempty"`
}

// Mapper is the tiny mapper language handed to Map/MapValues.
//  "id": x -> x;  "wrap": x -> [x];  "const": x -> pool[X]
type Mapper struct {
	Kind string `json:"k"`
	X    int    `json:"x,omitempty"`
}

// Op is one step of a history.  Every step appends exactly one value to the pool (the result, or undef
// when the step failed), so the pool index of the result of step n is n.
type Op struct {
	Kind string  `json:"op"`
	R    int     `json:"r,omitempty"` // receiver (pool index)
	X    int     `json:"x,omitempty"` // argument (pool index)
	I    int     `json:"i,omitempty"`
	J    int     `json:"j,omitempty"`
	P    *PV     `json:"p,omitempty"`
	Pd   *Pred   `json:"pd,omitempty"`
	Mp   *Mapper `json:"mp,omitempty"`
}

// Out is the projected observable of one step: an error class or the deep snapshot of the result.
//  Err: "" | "fault" (Go runtime error) | "unsupported" (panic "Operation not supported") |
//       "issue" (a reported pcore issue) | "badtype" (the harness asked for an ill-typed call; never generated) |
//       "other:<text>" anything else (always a disagreement)
type Out struct {
	Err string `json:"err,omitempty"`
	V   *PV    `json:"v,omitempty"`
}

func (o Out) String() string {
	if o.Err != "" {
		return "error(" + o.Err + ")"
	}
	return o.V.String()
}

func (o Out) Equal(p Out) bool {
	if o.Err != "" || p.Err != "" {
		return o.Err == p.Err
	}
	return o.V.Equal(p.V)
}

func (o Out) Gallina() string {
	switch {
	case o.Err == "":
		return "RVal " + o.V.Gallina()
	case o.Err == "fault":
		return "RErr EFault"
	case o.Err == "unsupported":
		return "RErr EUnsupported"
	case o.Err == "issue":
		return "RErr EIssue"
	case o.Err == "badtype":
		return "RErr EBadType"
	}
	return "RErr EOther"
}

func (p *Pred) gallina() string {
	switch p.Kind {
	case "eq":
		return fmt.Sprintf("(PdEq %d)", p.X)
	case "int":
		return "PdInt"
	}
	panic("bad pred " + p.Kind)
}

func (p *Pred) String() string {
	if p.Kind == "eq" {
		return fmt.Sprintf("==v%d", p.X)
	}
	return "is_int"
}

func (m *Mapper) gallina() string {
	switch m.Kind {
	case "id":
		return "MpId"
	case "wrap":
		return "MpWrap"
	case "const":
		return fmt.Sprintf("(MpConst %d)", m.X)
	}
	panic("bad mapper " + m.Kind)
}

func (m *Mapper) String() string {
	if m.Kind == "const" {
		return fmt.Sprintf("const v%d", m.X)
	}
	return m.Kind
}

func (o Op) Gallina() string {
	switch o.Kind {
	case "Lit":
		return "OLit " + o.P.Gallina()
	case "Build":
		return fmt.Sprintf("OBuild %d %s", o.I, o.P.Gallina())
	case "Parse":
		return "OParse " + o.P.Gallina()
	case "Add", "AddAll", "Delete", "DeleteAll", "Merge", "Get", "Includes":
		return fmt.Sprintf("O%s %d %d", o.Kind, o.R, o.X)
	case "Equals":
		return fmt.Sprintf("OEquals %d %d", o.R, o.X)
	case "Slice":
		return fmt.Sprintf("OSlice %d %s %s", o.R, lib.GZ(int64(o.I)), lib.GZ(int64(o.J)))
	case "At":
		return fmt.Sprintf("OAt %d %s", o.R, lib.GZ(int64(o.I)))
	case "EachSlice":
		return fmt.Sprintf("OEachSlice %d %d %d", o.R, o.I, o.J)
	case "Select", "Reject", "Find", "SelectPairs", "RejectPairs":
		return fmt.Sprintf("O%s %d %s", o.Kind, o.R, o.Pd.gallina())
	case "Map", "MapValues":
		return fmt.Sprintf("O%s %d %s", o.Kind, o.R, o.Mp.gallina())
	case "Sort", "Flatten", "Unique", "Len", "Keys", "Values", "HashFromArray", "Key", "Value", "Touch", "AsArray":
		return fmt.Sprintf("O%s %d", o.Kind, o.R)
	}
	panic("bad op " + o.Kind)
}

func (o Op) String() string {
	switch o.Kind {
	case "Lit":
		return "Lit " + o.P.String()
	case "Build":
		return fmt.Sprintf("Build(cap %d) %s", o.I, o.P.String())
	case "Parse":
		return "Parse " + o.P.Literal()
	case "Add", "AddAll", "Delete", "DeleteAll", "Merge", "Get", "Includes", "Equals":
		return fmt.Sprintf("v%d.%s(v%d)", o.R, o.Kind, o.X)
	case "Slice":
		return fmt.Sprintf("v%d.Slice(%d,%d)", o.R, o.I, o.J)
	case "At":
		return fmt.Sprintf("v%d.At(%d)", o.R, o.I)
	case "EachSlice":
		return fmt.Sprintf("v%d.EachSlice(%d)#%d", o.R, o.I, o.J)
	case "Select", "Reject", "Find", "SelectPairs", "RejectPairs":
		return fmt.Sprintf("v%d.%s(%s)", o.R, o.Kind, o.Pd)
	case "Map", "MapValues":
		return fmt.Sprintf("v%d.%s(%s)", o.R, o.Kind, o.Mp)
	case "HashNew", "MapEntries":
		return o.xString()
	case "Access":
		return o.aString()
	}
	return fmt.Sprintf("v%d.%s()", o.R, o.Kind)
}

func OpsText(ops []Op) []string {
	r := make([]string, len(ops))
	for i, o := range ops {
		r[i] = fmt.Sprintf("v%d := %s", i, o.String())
	}
	return r
}

func OpsCanon(ops []Op) string {
	return strings.Join(OpsText(ops), "; ")
}

func GallinaOps(ops []Op) string {
	gs := make([]string, len(ops))
	for i, o := range ops {
		gs[i] = o.Gallina()
	}
	return lib.GList(gs, "op")
}

func GallinaOuts(outs []Out) string {
	gs := make([]string, len(outs))
	for i, o := range outs {
		gs[i] = o.Gallina()
	}
	return lib.GList(gs, "out")
}
