package collh

import (
	"fmt"
	"strings"

	"github.com/lyraproj/pcore/px"
	"github.com/lyraproj/pcore/types"
)

// Read accessors that hand out GO SLICES, and the writes of the CALLER into what came back (property C08 only; model:
// coq/Model/CollHeapA.v):
//
//  Access  R = the receiver (Array / Hash / HashEntry), I = dl, J = dc, X = the pool value the destination is filled with,
//          P = [entries, cell0, x0, cell1, x1, ...]
//            dst := nil (J < 0 and I == 0) or make([]T, dl, max(dc, dl)) filled with pool[X]
//            res := pool[R].AppendTo(dst)          (entries = false)
//            res := pool[R].AppendEntriesTo(dst)   (entries = true, R a Hash, pool[X] / pool[x_i] hash entries)
//            for every (cell, x): res[:cap(res)][cell] = pool[x] when cell < cap(res) - the caller writes into the elements
//            and into the spare capacity of what it was given
//          the result is types.WrapValues(res) / types.WrapHash(res): the slice itself, no copy (what the creators of
//          Enum / Tuple / Callable do with the result of AppendTo)

func AccessOp(entries bool, r, dl, dc, dx int, ws [][2]int) Op {
	l := []*PV{Bo(entries)}
	for _, w := range ws {
		l = append(l, In(int64(w[0])), In(int64(w[1])))
	}
	return Op{Kind: "Access", R: r, X: dx, I: dl, J: dc, P: Ar(l...)}
}

func (o Op) accessArgs() (entries bool, ws [][2]int) {
	entries = o.P.L[0].B
	for i := 1; i+1 < len(o.P.L); i += 2 {
		ws = append(ws, [2]int{int(o.P.L[i].I), int(o.P.L[i+1].I)})
	}
	return
}

func (o Op) aString() string {
	entries, ws := o.accessArgs()
	dst := fmt.Sprintf("make(%d,%d) of v%d", o.I, o.J, o.X)
	if o.J < 0 && o.I == 0 {
		dst = "nil"
	}
	m := "AppendTo"
	if entries {
		m = "AppendEntriesTo"
	}
	var b strings.Builder
	for _, w := range ws {
		fmt.Fprintf(&b, " [%d]=v%d", w[0], w[1])
	}
	return fmt.Sprintf("res := v%d.%s(%s); res[:cap]%s; wrap(res)", o.R, m, dst, b.String())
}

// AGallina prints a step as a term of type `aop` (Model/CollHeapA.v)
func (o Op) AGallina() string {
	if o.Kind != "Access" {
		return "ABase (" + o.XGallina() + ")"
	}
	entries, ws := o.accessArgs()
	dc := o.J
	if dc < 0 {
		dc = 0
	}
	gs := make([]string, len(ws))
	for i, w := range ws {
		gs[i] = fmt.Sprintf("(%d, %d)", w[0], w[1])
	}
	return fmt.Sprintf("AAccess %v %d %d %d %d ([%s])%%nat", entries, o.R, o.I, dc, o.X, strings.Join(gs, "; "))
}

func applyA(pool []px.Value, o Op) px.Value {
	entries, ws := o.accessArgs()
	c := o.J
	if c < o.I {
		c = o.I
	}
	if entries {
		h, ok := pool[o.R].(*types.Hash)
		if !ok {
			panic(badType{})
		}
		for _, w := range ws {
			if _, ok := pool[w[1]].(*types.HashEntry); !ok {
				panic(badType{})
			}
		}
		var dst []*types.HashEntry
		if o.J >= 0 || o.I > 0 {
			dst = make([]*types.HashEntry, o.I, c)
			for i := range dst {
				e, ok := pool[o.X].(*types.HashEntry)
				if !ok {
					panic(badType{})
				}
				dst[i] = e
			}
		}
		res := h.AppendEntriesTo(dst)
		full := res[:cap(res)]
		for _, w := range ws {
			if w[0] < len(full) {
				full[w[0]] = pool[w[1]].(*types.HashEntry)
			}
		}
		return types.WrapHash(res)
	}
	l := asList(pool[o.R])
	var dst []px.Value
	if o.J >= 0 || o.I > 0 {
		dst = make([]px.Value, o.I, c)
		for i := range dst {
			dst[i] = pool[o.X]
		}
	}
	res := l.AppendTo(dst)
	full := res[:cap(res)]
	for _, w := range ws {
		if w[0] < len(full) {
			full[w[0]] = pool[w[1]]
		}
	}
	return types.WrapValues(res)
}
