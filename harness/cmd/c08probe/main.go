package main

import (
	"fmt"
	"verifharness/collh"
)

func main() {
	I, S, A, E, H := collh.In, collh.St, collh.Ar, collh.En, collh.Ha
	for _, p := range []*collh.PV{A(I(1)), H(E(I(1), I(2))), H(E(A(I(1), A(I(1), S("b"))), I(2))), E(I(1), I(2)), A(E(I(1), I(2)))} {
		fmt.Println("touch", p)
		collh.Touch(collh.Lit(p))
	}
}
