package main

// Histories: the property is stated for all pairs of types and all values — whatever was asked of those type
// objects before. A history keeps ONE set of type and value objects alive (a cluster of related recipes, plus the
// type px.DetailedValueType infers for each of its values, which the value caches), interleaves the other public
// operations that touch the same objects (failed px.AssertType / px.AssertInstance, px.DescribeMismatch, PType(),
// String(), Equals, px.ToKey, px.CommonType, px.GenericType, px.Normalize, repeated IsAssignable / IsInstance) with
// the soundness queries, and asks the queries again. The reference answer of a query comes from separately built
// objects that nothing else has touched. "A answers that B is assignable" is a function of (A, B): an answer that
// differs after an operation is a violation; where a value of the cluster shows it, it is reported as the unsound
// triple (A accepts B, v is an instance of B, v is not an instance of A).

import (
	"fmt"
	"strings"

	"github.com/lyraproj/pcore/px"
	"verifharness/lat"
	"verifharness/lib"
)

type hop struct {
	Op string `json:"op"`
	I  int    `json:"i"`
	J  int    `json:"j"`
}

// histIn is the replayable input of a history. Type slot i < len(Types) is Types[i] built once; slot
// len(Types)+k is px.DetailedValueType(value k) of the value object Values[k] built once.
type histIn struct {
	Kind   string       `json:"kind"`
	Types  []*lat.Spec  `json:"types"`
	Values []*lat.VSpec `json:"values"`
	Warm   bool         `json:"warm"` // every query of the cluster is asked once before the operations
	Ops    []hop        `json:"ops"`
	QA     int          `json:"qa"`
	QB     int          `json:"qb"`
	QV     int          `json:"qv"` // -1: the query is IsAssignable(QA, QB); otherwise IsInstance(QA, value QV) (QB unused when < 0)
}

type world struct {
	T []px.Type
	V []px.Value
}

func (in *histIn) nT() int { return len(in.Types) + len(in.Values) }

func (in *histIn) freshType(i int) (t px.Type) {
	lat.Guarded(func() bool {
		if i < len(in.Types) {
			t = in.Types[i].Build()
		} else {
			t = px.DetailedValueType(in.Values[i-len(in.Types)].Build())
		}
		return true
	})
	return
}

func (in *histIn) freshValue(k int) (v px.Value) {
	lat.Guarded(func() bool { v = in.Values[k].Build(); return true })
	return
}

func (in *histIn) newWorld() *world {
	w := &world{}
	for i := range in.Types {
		t := in.freshType(i)
		if t == nil {
			return nil
		}
		w.T = append(w.T, t)
	}
	for k := range in.Values {
		v := in.freshValue(k)
		if v == nil {
			return nil
		}
		w.V = append(w.V, v)
	}
	for k := range in.Values {
		var t px.Type
		lat.Guarded(func() bool { t = px.DetailedValueType(w.V[k]); return true })
		if t == nil {
			return nil
		}
		w.T = append(w.T, t)
	}
	return w
}

func gAsg(a, b px.Type) bool {
	r, _ := lat.Guarded(func() bool { return px.IsAssignable(a, b) })
	return r
}

func gInst(a px.Type, v px.Value) bool {
	r, _ := lat.Guarded(func() bool { return px.IsInstance(a, v) })
	return r
}

var typeOps2 = []string{"assertType", "describe", "equals", "common", "asg"}
var typeValOps = []string{"assertInst", "inst"}
var typeOps1 = []string{"ptype", "string", "tokey", "generic", "normalize", "default"}
var valOps1 = []string{"detailed", "vstring", "vtokey"}

func (w *world) exec(o hop) {
	lat.Guarded(func() bool {
		switch o.Op {
		case "asg":
			px.IsAssignable(w.T[o.I], w.T[o.J])
		case "inst":
			px.IsInstance(w.T[o.I], w.V[o.J])
		case "assertType":
			px.AssertType("x", w.T[o.I], w.T[o.J])
		case "assertInst":
			px.AssertInstance("x", w.T[o.I], w.V[o.J])
		case "describe":
			_ = px.DescribeMismatch("x", w.T[o.I], w.T[o.J])
		case "equals":
			w.T[o.I].Equals(w.T[o.J], nil)
		case "common":
			px.CommonType(w.T[o.I], w.T[o.J])
		case "ptype":
			px.IsInstance(w.T[o.I].PType(), w.T[o.I])
		case "string":
			_ = w.T[o.I].String()
		case "tokey":
			px.ToKey(w.T[o.I])
		case "generic":
			px.GenericType(w.T[o.I])
		case "normalize":
			px.Normalize(w.T[o.I])
		case "default":
			px.DefaultFor(w.T[o.I])
		case "detailed":
			px.DetailedValueType(w.V[o.J])
		case "vstring":
			_ = w.V[o.J].String()
		case "vtokey":
			px.ToKey(w.V[o.J])
		}
		return true
	})
}

// the fresh-object reference of a cluster
type reference struct {
	asg  [][]bool
	inst [][]bool
}

func (in *histIn) reference() *reference {
	n, m := in.nT(), len(in.Values)
	r := &reference{asg: make([][]bool, n), inst: make([][]bool, n)}
	for i := 0; i < n; i++ {
		r.asg[i] = make([]bool, n)
		r.inst[i] = make([]bool, m)
		for j := 0; j < n; j++ {
			a, b := in.freshType(i), in.freshType(j)
			if a == nil || b == nil {
				return nil
			}
			if i == j {
				// the history asks an object about itself: so does the reference
				b = a
			}
			r.asg[i][j] = gAsg(a, b)
		}
		for k := 0; k < m; k++ {
			a, v := in.freshType(i), in.freshValue(k)
			if a == nil || v == nil {
				return nil
			}
			r.inst[i][k] = gInst(a, v)
		}
	}
	return r
}

// query of a replayable history: (persistent answer, reference answer)
func (in *histIn) run() (got, want bool, ok bool) {
	w := in.newWorld()
	if w == nil {
		return false, false, false
	}
	if in.Warm {
		w.askAll()
	}
	for _, o := range in.Ops {
		w.exec(o)
	}
	if in.QV < 0 {
		a, b := in.freshType(in.QA), in.freshType(in.QB)
		if in.QA == in.QB {
			b = a
		}
		return gAsg(w.T[in.QA], w.T[in.QB]), gAsg(a, b), true
	}
	a, v := in.freshType(in.QA), in.freshValue(in.QV)
	return gInst(w.T[in.QA], w.V[in.QV]), gInst(a, v), true
}

func (w *world) askAll() {
	for _, a := range w.T {
		for _, b := range w.T {
			gAsg(a, b)
		}
		for _, v := range w.V {
			gInst(a, v)
		}
	}
}

type histRunner struct {
	res  *lib.Result
	seen map[string]bool
}

func opsText(ops []hop) string {
	var s []string
	for _, o := range ops {
		s = append(s, fmt.Sprintf("%s(%d,%d)", o.Op, o.I, o.J))
	}
	if len(s) > 6 {
		s = append([]string{fmt.Sprintf("... %d operations ...", len(s)-6)}, s[len(s)-6:]...)
	}
	return strings.Join(s, " ")
}

// minimise: the shortest suffix of the operations (1, 2, 4, ... last ones, without / with the warm-up) after which
// the query still deviates from the reference; the whole history otherwise.
func minimise(in histIn) histIn {
	for k := 1; k < len(in.Ops); k *= 2 {
		for _, warm := range []bool{false, true} {
			if warm && !in.Warm {
				continue
			}
			c := in
			c.Warm = warm
			c.Ops = in.Ops[len(in.Ops)-k:]
			if got, want, ok := c.run(); ok && got != want {
				return c
			}
		}
	}
	return in
}

// check compares the answers of the persistent objects that involve the slots `touched` (nil: all) with the reference.
// It reports the first deviation and answers false (the caller then starts over with new objects).
func (h *histRunner) check(in *histIn, w *world, ref *reference, done []hop, touched []int, excluded func(a, b *lat.Spec) bool) bool {
	n, m := in.nT(), len(in.Values)
	rows := touched
	if rows == nil {
		rows = make([]int, n)
		for i := range rows {
			rows[i] = i
		}
	}
	report := func(qa, qb, qv int, got, want bool) {
		c := *in
		c.Kind, c.Ops, c.QA, c.QB, c.QV = "hist", append([]hop{}, done...), qa, qb, qv
		c = minimise(c)
		last := c.Ops[len(c.Ops)-1]
		text := func(i int) string {
			var s string
			lat.Guarded(func() bool { s = w.T[i].String(); return true })
			return s
		}
		tags := []string{"history:" + last.Op}
		if qv < 0 {
			// a value of the cluster that shows the unsoundness (answers of the persistent objects)
			if got && (qa >= len(in.Types) || qb >= len(in.Types) || !excluded(in.Types[qa], in.Types[qb])) {
				for k := 0; k < m; k++ {
					if gInst(w.T[qb], w.V[k]) && !gInst(w.T[qa], w.V[k]) {
						h.res.Violate(lib.Violation{Clause: "soundness", What: fmt.Sprintf("after %s on the same type objects, %s accepts %s, and %s is an instance of the latter but not of the former (separately built objects: not accepted)",
							opsText(c.Ops), text(qa), text(qb), lat.ValText(w.V[k])), Input: c, Tags: tags})
						return
					}
				}
			}
			h.res.Violate(lib.Violation{Clause: "history", What: fmt.Sprintf("IsAssignable(%s, %s) is %v on separately built objects and %v after %s on the same type objects",
				text(qa), text(qb), want, got, opsText(c.Ops)), Input: c, Tags: tags})
			return
		}
		h.res.Violate(lib.Violation{Clause: "history", What: fmt.Sprintf("IsInstance(%s, %s) is %v on separately built objects and %v after %s on the same objects",
			text(qa), lat.ValText(w.V[qv]), want, got, opsText(c.Ops)), Input: c, Tags: tags})
	}
	for _, i := range rows {
		for j := 0; j < n; j++ {
			h.res.Evaluations += 2
			if got := gAsg(w.T[i], w.T[j]); got != ref.asg[i][j] {
				report(i, j, -1, got, ref.asg[i][j])
				return false
			}
			if got := gAsg(w.T[j], w.T[i]); got != ref.asg[j][i] {
				report(j, i, -1, got, ref.asg[j][i])
				return false
			}
		}
		for k := 0; k < m; k++ {
			h.res.Evaluations++
			if got := gInst(w.T[i], w.V[k]); got != ref.inst[i][k] {
				report(i, -1, k, got, ref.inst[i][k])
				return false
			}
		}
	}
	return true
}

// cluster runs the histories of one cluster: (1) every operation kind on every argument tuple, in order, on objects that
// stay alive (after each operation the answers that involve its arguments are asked again, after each kind all of them);
// (2) random long histories over all operation kinds.
func (h *histRunner) cluster(rng *lib.Rng, name string, ts []*lat.Spec, vs []*lat.VSpec, nRandomOps int, excluded func(a, b *lat.Spec) bool) {
	in := &histIn{Kind: "hist", Types: ts, Values: vs, QV: -1}
	ref := in.reference()
	if ref == nil {
		h.res.Count("hist.cluster-not-buildable")
		return
	}
	h.res.Count("hist.clusters")
	h.res.Count("hist.clusters." + name)
	n, m := in.nT(), len(vs)
	nontrivial := 0
	for i := 0; i < n; i++ {
		for j := 0; j < n; j++ {
			if i != j && ref.asg[i][j] {
				nontrivial++
			}
		}
	}
	var ops []hop
	for _, k := range typeOps2 {
		for i := 0; i < n; i++ {
			for j := 0; j < n; j++ {
				ops = append(ops, hop{k, i, j})
			}
		}
	}
	for _, k := range typeValOps {
		for i := 0; i < n; i++ {
			for j := 0; j < m; j++ {
				ops = append(ops, hop{k, i, j})
			}
		}
	}
	for _, k := range typeOps1 {
		for i := 0; i < n; i++ {
			ops = append(ops, hop{k, i, i})
		}
	}
	for _, k := range valOps1 {
		for j := 0; j < m; j++ {
			ops = append(ops, hop{k, len(ts) + j, j}) // I: the type slot the value's inferred type lives in
		}
	}
	runSeq := func(warm bool, seq []hop, fullEvery int) {
		in.Warm = warm
		w := in.newWorld()
		if w == nil {
			return
		}
		if warm {
			w.askAll()
		}
		var done []hop
		for x, o := range seq {
			w.exec(o)
			done = append(done, o)
			h.res.Count("hist.op." + o.Op)
			touched := []int{o.I}
			if o.J != o.I && o.J < n && o.Op != "assertInst" && o.Op != "inst" && o.Op != "detailed" && o.Op != "vstring" && o.Op != "vtokey" {
				touched = append(touched, o.J)
			}
			if (o.Op == "assertInst" || o.Op == "inst") && len(ts)+o.J < n {
				touched = append(touched, len(ts)+o.J)
			}
			full := x == len(seq)-1 || (x+1 < len(seq) && seq[x+1].Op != o.Op) || (fullEvery > 0 && x%fullEvery == fullEvery-1)
			if full {
				touched = nil
			}
			if !h.check(in, w, ref, done, touched, excluded) {
				// the objects are no longer what their recipes say: go on with new ones
				w = in.newWorld()
				if w == nil {
					return
				}
				if warm {
					w.askAll()
				}
				done = nil
			}
		}
	}
	runSeq(false, ops, 0)
	runSeq(true, ops, 0)
	if nRandomOps > 0 {
		seq := make([]hop, nRandomOps)
		for x := range seq {
			seq[x] = ops[rng.Intn(len(ops))]
		}
		runSeq(rng.Bool(), seq, 10)
	}
	if nontrivial > 0 {
		h.res.Nontrivial("hist/" + name + "/" + ts[0].String())
	}
}

// structuredClusters: hand-made groups of related recipes (every group: types that accept / nearly accept each other,
// and values at their boundaries).
func structuredClusters() (names []string, tss [][]*lat.Spec, vss [][]*lat.VSpec) {
	I, S, Any := lat.Int(lat.Min, lat.Max), lat.A("String"), lat.A("Any")
	opt := func(t *lat.Spec) *lat.Spec { return lat.W("Optional", t) }
	M := func(n string, k int, t *lat.Spec) lat.Member { return lat.Member{Name: n, Kind: k, T: t} }
	add := func(n string, ts []*lat.Spec, vs []*lat.VSpec) {
		names, tss, vss = append(names, n), append(tss, ts), append(vss, vs)
	}
	hv := []*lat.VSpec{lat.VH(lat.VS("a"), lat.VS("x"), lat.VS("b"), lat.VI(2)), lat.VH(lat.VS("a"), lat.VI(1)), lat.VH(lat.VS("a"), lat.VI(1), lat.VS("b"), lat.VI(2)),
		lat.VH(lat.VS("b"), lat.VI(2)), lat.VH(), lat.VH(lat.VS("a"), lat.VU(), lat.VS("b"), lat.VS("x"))}
	add("struct", []*lat.Spec{lat.Struct(M("a", 0, I)), lat.Struct(M("a", 0, I), M("b", 0, I)), lat.Struct(M("a", 1, I), M("b", 0, I)),
		lat.Struct(M("a", 0, S), M("b", 0, I)), lat.Struct(M("a", 1, I), M("b", 1, S)), lat.Struct(M("a", 0, opt(I))), lat.Struct(M("b", 0, I)),
		lat.Struct(M("a", 2, opt(I)), M("b", 1, Any))}, hv)
	add("struct-hash", []*lat.Spec{lat.Hsh(S, I, 0, lat.Max), lat.Hsh(S, Any, 1, 2), lat.Struct(M("a", 1, I)), lat.Struct(M("a", 0, I), M("b", 1, I)),
		lat.Hsh(lat.Enum(false, "a", "b"), I, 0, 2), lat.W("Iterable", lat.Tup(S, I)), lat.Struct(M("a", 0, Any), M("b", 0, Any)), lat.Coll(0, 2)}, hv)
	av := []*lat.VSpec{lat.VA(lat.VI(1), lat.VS("a")), lat.VA(lat.VI(1)), lat.VA(), lat.VA(lat.VI(1), lat.VI(2)), lat.VA(lat.VS("a"), lat.VI(1)), lat.VA(lat.VI(1), lat.VS("a"), lat.VS("b"))}
	add("tuple-array", []*lat.Spec{lat.Tup(I, S), lat.TupSz(1, 3, I, S), lat.Arr(I, 1, 2), lat.Arr(lat.A("Scalar"), 0, lat.Max), lat.Tup(Any), lat.TupSz(0, 2, I),
		lat.Tup(I, lat.Var(I, S)), lat.W("Iterable", lat.A("Scalar"))}, av)
	add("variant-alias", []*lat.Spec{lat.A("Data"), lat.UAlias(lat.Var(I, S)), lat.Var(I, S), opt(I), lat.RecAliases()[0], lat.UAlias(lat.Var(lat.Tup(lat.A("Data"), S), lat.Tup(lat.A("Data"), I))),
		lat.Var(lat.Tup(lat.A("Data"), S), lat.Tup(lat.A("Data"), I)), lat.W("NotUndef", opt(S))},
		[]*lat.VSpec{lat.VI(1), lat.VS("a"), lat.VU(), lat.VA(&lat.VSpec{K: "Regexp", S: "x"}, lat.VI(1)), lat.VA(lat.VI(1), lat.VS("a")), lat.VA(lat.VB(true), lat.VS("a"))})
	add("string", []*lat.Spec{S, lat.StrSz(1, 2), lat.StrVal("a"), lat.Enum(false, "a", "b"), lat.Enum(true, "A", "a"), lat.Pat("^a+$"), lat.Enum(false, "b", "b"), lat.A("Scalar")},
		[]*lat.VSpec{lat.VS("a"), lat.VS("A"), lat.VS("b"), lat.VS("aa"), lat.VS(""), lat.VI(1)})
	add("type-sensitive", []*lat.Spec{lat.W("Type", I), lat.W("Type", lat.Int(0, 5)), lat.W("Type", lat.Struct(M("a", 1, I))), lat.W("Sensitive", I), lat.W("Sensitive", Any),
		lat.W("Type", Any), lat.W("Type", lat.Var(I, S)), lat.W("Iterable", I)},
		[]*lat.VSpec{lat.VT(lat.Int(1, 2)), lat.VT(S), lat.VT(lat.Struct(M("a", 0, I))), {K: "Sensitive", Sub: []*lat.VSpec{lat.VI(1)}}, lat.VT(lat.Struct()), lat.VA(lat.VI(1))})
	return
}

func runHistories(cfg *lib.Config, res *lib.Result, u *lat.Universe, rng *lib.Rng, excludedSpec func(a, b *lat.Spec) bool) {
	h := &histRunner{res: res, seen: map[string]bool{}}
	nRelated, nKind, nRandomOps := 40, 6, 150
	if cfg.Thorough() {
		nRelated, nKind, nRandomOps = 400, 40, 600
	}
	names, tss, vss := structuredClusters()
	for i := range names {
		h.cluster(rng, names[i], tss[i], vss[i], nRandomOps, excludedSpec)
	}
	nT, nV := len(u.L), len(u.V)
	usable := func(t int) bool {
		k := u.Dec[t].K
		return k != "Any" && k != "Unit" && !lat.SpecContains(u.Specs[t], "AliasRec")
	}
	// values for a group of pool types: instances first (collections before scalars), then anything
	valuesFor := func(ts []int) []*lat.VSpec {
		var coll, other []int
		for v := 0; v < nV; v++ {
			for _, t := range ts {
				if u.Inst[t][v] {
					if k := u.VDec[v].K; k == "Hash" || k == "Arr" {
						coll = append(coll, v)
					} else {
						other = append(other, v)
					}
					break
				}
			}
		}
		var out []*lat.VSpec
		pick := func(from []int, k int) {
			for i := 0; i < k && len(from) > 0; i++ {
				out = append(out, u.VSpec[from[rng.Intn(len(from))]])
			}
		}
		pick(coll, 3)
		pick(other, 2)
		out = append(out, u.VSpec[rng.Intn(nV)])
		return dedupV(out)
	}
	specsOf := func(ts []int) []*lat.Spec {
		out := make([]*lat.Spec, len(ts))
		for i, t := range ts {
			out[i] = u.Specs[t]
		}
		return out
	}
	// clusters of one top-level kind
	byKind := map[string][]int{}
	var kinds []string
	for t := 0; t < nT; t++ {
		if !usable(t) {
			continue
		}
		k := u.Dec[t].K
		if _, ok := byKind[k]; !ok {
			kinds = append(kinds, k)
		}
		byKind[k] = append(byKind[k], t)
	}
	for _, k := range kinds {
		reps := 1
		switch k {
		case "Struct":
			reps = nKind * 2
		case "Tuple", "Hash", "Array", "Variant", "Alias", "Iterable":
			reps = nKind / 2
		}
		for x := 0; x < reps && len(byKind[k]) >= 3; x++ {
			ts := pickDistinct(rng, byKind[k], 6)
			h.cluster(rng, "kind:"+k, specsOf(ts), valuesFor(ts), nRandomOps/3, excludedSpec)
		}
	}
	// clusters of types related to an anchor by acceptance (either direction)
	for x := 0; x < nRelated; x++ {
		a := rng.Intn(nT)
		if !usable(a) {
			continue
		}
		var rel []int
		for b := 0; b < nT; b++ {
			if b != a && usable(b) && (u.Asg[a][b] || u.Asg[b][a]) {
				rel = append(rel, b)
			}
		}
		if len(rel) < 2 {
			continue
		}
		ts := append([]int{a}, pickDistinct(rng, rel, 5)...)
		h.cluster(rng, "related", specsOf(ts), valuesFor(ts), nRandomOps/3, excludedSpec)
	}
}

func pickDistinct(rng *lib.Rng, from []int, k int) []int {
	if len(from) <= k {
		return append([]int{}, from...)
	}
	var out []int
	used := map[int]bool{}
	for len(out) < k {
		x := from[rng.Intn(len(from))]
		if !used[x] {
			used[x] = true
			out = append(out, x)
		}
	}
	return out
}

func dedupV(vs []*lat.VSpec) []*lat.VSpec {
	seen := map[string]bool{}
	var out []*lat.VSpec
	for _, v := range vs {
		if k := v.String(); !seen[k] {
			seen[k] = true
			out = append(out, v)
		}
	}
	return out
}

func replayHist(in interface{}, res *lib.Result) {
	var h histIn
	lib.Remarshal(in, &h)
	w := h.newWorld()
	if w == nil {
		fmt.Println("the recipes of the history do not build")
		return
	}
	for i, t := range w.T {
		fmt.Printf("T%d = %s\n", i, t)
	}
	for k, v := range w.V {
		fmt.Printf("V%d = %s   (T%d is its inferred type)\n", k, lat.ValText(v), len(h.Types)+k)
	}
	fmt.Printf("warm-up (all queries once): %v\noperations: %s\n", h.Warm, opsText(h.Ops))
	got, want, _ := h.run()
	if h.QV < 0 {
		fmt.Printf("IsAssignable(T%d, T%d): separately built objects %v, after the operations %v\n", h.QA, h.QB, want, got)
	} else {
		fmt.Printf("IsInstance(T%d, V%d): separately built objects %v, after the operations %v\n", h.QA, h.QV, want, got)
	}
	if got != want {
		fmt.Println("FAILS: the answer depends on what was asked before")
		res.Violate(lib.Violation{Clause: "history", What: "the answer depends on what was asked of the same objects before", Input: in})
	}
}
