// c01: assignability is sound — IsAssignable(A,B) and IsInstance(B,v) imply IsInstance(A,v).
package main

import (
	"fmt"
	"strings"

	"github.com/lyraproj/pcore/pcore"
	"github.com/lyraproj/pcore/px"
	"github.com/lyraproj/pcore/types"
	"verifharness/lat"
	"verifharness/lib"
)

func main() {
	cfg := lib.ParseFlags()
	res := lib.NewResult("C01")
	res.Rule = "types: atoms (every scalar kind, boundary ranges) + every constructor applied to an element sub-pool (bounded-exhaustive over the " +
		"listed choices) + seeded random types of depth 2-3, each built twice through the Go constructors; values: generic pool + boundary " +
		"witnesses of every pool type + types as values; ALL ordered pairs (A,B) are evaluated; a pair is non-trivial when " +
		"IsAssignable(A,B) holds, neither side is Any/Unit, and B has at least one instance in the value pool; distinct = distinct (A,B) recipes. " +
		"Outside the model fragment (direct check only): Data/RichData and user aliases (constructor route and recursive ones through parser + AddTypes) in " +
		"every member position and in two-position Variants (also below an alias), Iterable over entry tuples against Structs with required / Optional[k] / " +
		"implicitly optional keys, Enums that repeat a value, random types over all of it. Histories: clusters of related type objects kept alive " +
		"(hand-made, one kind, related by acceptance) + the types inferred for their values; every other public operation on every argument tuple, then " +
		"random long sequences; after each operation the answers are compared with those of separately built objects. " +
		"Fifth wave: two distinct alias objects with one name and different definitions (Go constructor under a fixed name; declarations in root contexts of their own) alone and in 17 member positions"
	pcore.Do(func(c px.Context) {
		if cfg.Replay != "" {
			replay(cfg, res)
		} else {
			run(cfg, res)
		}
	})
	res.Write(cfg)
}

// excluded: the two exclusions the property names — Unit anywhere, and a Struct on the left with a Hash
// type on the right (the by-specification rule may have fired, also when nested).
func excluded(u *lat.Universe, a, b int) bool {
	// (the recipe is looked at as well: the decoded structure does not show what is below an alias)
	has := func(i int, kind string) bool {
		return lat.Contains(u.Dec[i], kind) || lat.SpecContains(u.Specs[i], kind)
	}
	if has(a, "Unit") || has(b, "Unit") {
		return true
	}
	if has(a, "Struct") && has(b, "Hash") {
		return true
	}
	return false
}

// valueHasHashType: the value is, or holds, a type that contains a Hash type
func valueHasHashType(v *types.VerifVal) bool {
	if v.K == "Type" && lat.Contains(v.T, "Hash") {
		return true
	}
	for _, e := range v.Vs {
		if valueHasHashType(e) {
			return true
		}
	}
	return false
}

// excludedSpec: the same exclusions, on recipes
func excludedSpec(a, b *lat.Spec) bool {
	if lat.SpecContains(a, "Unit") || lat.SpecContains(b, "Unit") {
		return true
	}
	return lat.SpecContains(a, "Struct") && lat.SpecContains(b, "Hash")
}

func run(cfg *lib.Config, res *lib.Result) {
	rng := lib.NewRng(cfg.Seed)
	nRandom, coqAsg, coqInst, nRandomX := 250, 2500, 1500, 200
	if cfg.Thorough() {
		nRandom, coqAsg, coqInst, nRandomX = 1500, 12000, 8000, 1200
	}
	// the families outside the Rocq model (direct check only): aliases in member positions, user aliases (also recursive
	// ones), Iterable over entry tuples against Structs with optional keys, Enums that repeat a value; a separate
	// generator so that the random types of the model fragment stay what they were
	xr := lib.NewRng(cfg.Seed ^ 0x5eed01)
	xt := lat.ExtTypes(xr, nRandomX, cfg.Thorough())
	xv := lat.ExtValues(xt)
	// third wave: Float types with an infinite bound and the values that hold non-finite floats, the family of Object
	// types with instances, twin systems of mutually recursive aliases
	x3 := lat.Ext3Types(lib.NewRng(cfg.Seed^0x5eed04), cfg.Thorough())
	xt = append(xt, x3...)
	xv = append(xv, lat.Ext3Values(x3)...)
	// fifth wave: two distinct alias objects with one name and different definitions (Go constructor, and declarations in
	// contexts of their own), alone and in every member position
	x5 := lat.Ext5Types(lib.NewRng(cfg.Seed^0x5eed05), cfg.Thorough())
	xt = append(xt, x5...)
	xv = append(xv, lat.Ext5Values(x5)...)
	// sixth wave: Enums with long value lists (a shortcut taken above some length must answer as the scan does), alone and
	// in member positions, with the strings at and around the lists in either spelling
	xt = append(xt, lat.LongEnumFamilies(true)...)
	xv = append(xv, lat.LongEnumValues()...)
	// parameterized Object types P[arg] (types.objectTypeExtension) with instances of P
	xt = append(xt, lat.ParamObjectFamilies()...)
	xv = append(xv, lat.ParamObjectValues()...)
	u := lat.NewUniverseWith(rng, nRandom, 0, xt, xv)
	u.FillInst()
	u.FillAsg()
	for _, c := range u.Crashes {
		if in, ok := c.Input.(map[string]interface{}); ok {
			a, _ := in["a"].(*lat.Spec)
			b, _ := in["b"].(*lat.Spec)
			t, _ := in["t"].(*lat.Spec)
			if (lat.IsParamObject(a) && lat.IsParamObject(b)) || lat.IsParamObject(t) {
				// open finding: the case-expression match of two type arguments panics for some pairs of kinds
				c.Tags = append(c.Tags, "param-object-extension-match-panics")
			}
		}
		res.Violate(c)
	}
	res.Extra["types"] = len(u.L)
	res.Extra["values"] = len(u.V)
	for _, sp := range u.Specs {
		switch sp.K {
		case "FloatB", "ValType", "Decl", "DeclOnce", "CtxDecl":
			res.Count("pool.type." + sp.K)
		}
		if lat.IsCtxDecl(sp) {
			res.Count("pool.type.holds-CtxDecl")
		}
	}
	for _, vs := range u.VSpec {
		if vs.K == "New" {
			res.Count("pool.value.New")
		}
	}
	nT, nV := len(u.L), len(u.V)
	hasInstance := make([]bool, nT)
	for t := 0; t < nT; t++ {
		for v := 0; v < nV; v++ {
			if u.Inst[t][v] {
				hasInstance[t] = true
				break
			}
		}
	}
	typeValueWithHash := make([]bool, nV)
	for v := 0; v < nV; v++ {
		typeValueWithHash[v] = valueHasHashType(u.VDec[v])
	}
	type pair struct{ a, b int }
	var truePairs, falsePairs []pair
	// types that hold a long Enum stay out of the randomly drawn model-tie cases (some KB of text per occurrence, and their
	// strings would multiply the rows of the regexp oracle table): they have a file of their own, cases_longenum
	heavy := make([]bool, nT)
	for t := 0; t < nT; t++ {
		heavy[t] = lat.HasLongEnum(u.Specs[t])
	}
	for a := 0; a < nT; a++ {
		for b := 0; b < nT; b++ {
			res.Evaluations++
			if !u.Asg[a][b] {
				res.Count("asg.false")
				if u.InM[a] && u.InM[b] && !heavy[a] && !heavy[b] {
					falsePairs = append(falsePairs, pair{a, b})
				}
				continue
			}
			res.Count("asg.true")
			if u.InM[a] && u.InM[b] && !heavy[a] && !heavy[b] {
				truePairs = append(truePairs, pair{a, b})
			}
			if excluded(u, a, b) {
				res.Count("asg.true.excluded")
				continue
			}
			if u.Dec[a].K != "Any" && hasInstance[b] {
				res.Nontrivial(fmt.Sprintf("%d/%d", a, b))
			}
			for v := 0; v < nV; v++ {
				if u.Inst[b][v] && !u.Inst[a][v] {
					if typeValueWithHash[v] && (lat.Contains(u.Dec[b], "Struct") || lat.SpecContains(u.Specs[b], "Struct")) {
						// the same by-specification rule, one level up: the value is a type, and what makes a Hash type an instance of
						// Type[Struct[..]] is that the Struct accepts it on key type and size alone
						res.Count("asg.true.value-excluded")
						continue
					}
					res.Violate(lib.Violation{Clause: "soundness",
						What:  fmt.Sprintf("%s accepts %s, and %s is an instance of the latter but not of the former%s", u.Text[a], u.Text[b], lat.ValText(u.V[v]), lat.Legend(u.Specs[a], u.Specs[b])),
						Input: map[string]interface{}{"kind": "sound", "a": u.Specs[a], "b": u.Specs[b], "v": u.VSpec[v]},
						Tags:  tags(u, a, b)})
					break
				}
			}
		}
	}
	// ---- histories: the same questions on type objects that other public operations have touched
	runHistories(cfg, res, u, lib.NewRng(cfg.Seed^0x5eed02), excludedSpec)
	res.Sample(map[string]interface{}{"A": u.Text[3%nT], "B": u.Text[7%nT], "assignable": u.Asg[3%nT][7%nT]})
	for i := 0; i < 4 && i < len(truePairs); i++ {
		p := truePairs[(i*7919+13)%len(truePairs)]
		res.Sample(map[string]interface{}{"A": u.Text[p.a], "B": u.Text[p.b], "assignable": true})
	}
	// ---- M: assignability cases (all kinds of answers: every true pair first up to half the budget, then false pairs)
	emitAsg := func(name string, ps []pair) {
		cf := &lib.CasesFile{Imports: []string{"Model.Base", "Model.Ty", "Model.Lattice", "Corr.CorrC01"}, Typ: "ty * ty * bool",
			Obligations: map[string]string{"asg_model": "asg_mismatches orc cases"}}
		pats, strs := map[string]bool{}, map[string]bool{}
		for _, p := range ps {
			lat.TyStrings(u.Dec[p.a], pats, strs)
			lat.TyStrings(u.Dec[p.b], pats, strs)
			cf.Add(fmt.Sprintf("(%s, %s, %s)", lat.GTy(u.Dec[p.a]), lat.GTy(u.Dec[p.b]), lib.GBool(u.Asg[p.a][p.b])),
				map[string]interface{}{"kind": "asg", "a": u.Specs[p.a], "b": u.Specs[p.b]})
		}
		cf.Prelude = lat.Oracle(pats, strs)
		res.CorrFiles = append(res.CorrFiles, cf.WriteTo(cfg.Out, name))
	}
	sample := func(ps []pair, n int) []pair {
		if len(ps) <= n {
			return ps
		}
		out := make([]pair, 0, n)
		for i := 0; i < n; i++ {
			out = append(out, ps[rng.Intn(len(ps))])
		}
		return out
	}
	shards := 4
	for s := 0; s < shards; s++ {
		ps := append(sample(truePairs, coqAsg/shards/2), sample(falsePairs, coqAsg/shards/2)...)
		emitAsg(fmt.Sprintf("cases_asg_%d", s), ps)
	}
	// ---- M: instance cases
	type tv struct{ t, v int }
	var tvs []tv
	for t := 0; t < nT; t++ {
		if !u.InM[t] || heavy[t] {
			continue
		}
		for v := 0; v < nV; v++ {
			if u.VInM[v] {
				tvs = append(tvs, tv{t, v})
			}
		}
	}
	// M: long Enums on every run: every type of the long-Enum family (defined once in the prelude) against the strings at and
	// around the lists, in either spelling, alone and inside an array / as a hash key; and the answers of the family's types to
	// each other where the two lengths multiply to at most 400 (C03 sends the same pairs and a sample of the costlier ones)
	{
		fam := lat.LongEnumFamilies(true)
		pos := map[string]int{}
		for i := 0; i < nT; i++ {
			pos[u.Specs[i].String()] = i + 1
		}
		vpos := map[string]int{}
		for i := 0; i < nV; i++ {
			vpos[u.VSpec[i].String()] = i + 1
		}
		var prelude strings.Builder
		var lists lat.StrListTable
		var idx, famIdx []int
		for fi, sp := range fam {
			if sp.K == "Pattern" {
				continue
			}
			if i := pos[sp.String()] - 1; i >= 0 && u.InM[i] {
				fmt.Fprintf(&prelude, "Definition LE%d : ty := %s.\n", len(idx), lists.GTy(u.Dec[i]))
				idx = append(idx, i)
				famIdx = append(famIdx, fi)
			}
		}
		cf := &lib.CasesFile{Imports: []string{"Model.Base", "Model.Ty", "Model.Lattice", "Corr.CorrC01"}, Typ: "ty * value * bool",
			Obligations: map[string]string{"inst_model": "inst_mismatches orc cases", "asg_model": "asg_mismatches orc le_asg"}}
		lvs := lat.LongEnumValues()
		for k, t := range idx {
			for vi, vs := range lvs {
				v := vpos[vs.String()] - 1
				if v < 0 || !u.VInM[v] {
					continue
				}
				if u.Inst[t][v] {
					res.Count("longenum.inst.true")
				} else {
					res.Count("longenum.inst.false")
				}
				cf.Add(fmt.Sprintf("(LE%d, %s, %s)", k, lat.GVal(u.VDec[v]), lib.GBool(u.Inst[t][v])), map[string]interface{}{"kind": "le-inst", "i": famIdx[k], "j": vi})
			}
		}
		var rows []string
		for ka, a := range idx {
			for kb, b := range idx {
				bare := func(i int) bool { k := u.Dec[i].K; return k == "Enum" || k == "StringVal" || k == "StringSz" }
				if !((bare(a) && bare(b)) || u.Dec[a].K == u.Dec[b].K) || lat.LongEnumCost(u.Specs[a])*lat.LongEnumCost(u.Specs[b]) > 400 {
					continue
				}
				rows = append(rows, fmt.Sprintf("(LE%d, LE%d, %s)", ka, kb, lib.GBool(u.Asg[a][b])))
				cf.Inputs = append(cf.Inputs, map[string]interface{}{"kind": "le-asg", "i": famIdx[ka], "j": famIdx[kb]})
			}
		}
		// (le_asg is written in chunks: a flat list literal of that length overflows coqc's stack)
		prelude.WriteString("Definition le_asg : list (ty * ty * bool) :=\n")
		const chunk = 1500
		for i := 0; i < len(rows); i += chunk {
			j := i + chunk
			if j > len(rows) {
				j = len(rows)
			}
			prelude.WriteString(" " + lib.GList(rows[i:j], "ty * ty * bool") + " ++\n")
		}
		prelude.WriteString(" [].\n")
		// indices of the second obligation continue behind the instance cases, as the recorded inputs do
		cf.Obligations["asg_model"] = fmt.Sprintf("List.map (N.add %d%%N) (asg_mismatches orc le_asg)", len(cf.Cases))
		cf.Prelude = lists.Defs.String() + prelude.String() + lat.Oracle(map[string]bool{}, map[string]bool{})
		res.Extra["long-enum-types-in-model-tie"] = len(idx)
		res.Extra["long-enum-asg-pairs-in-model-tie"] = len(rows)
		res.CorrFiles = append(res.CorrFiles, cf.WriteTo(cfg.Out, "cases_longenum"))
	}
	for s := 0; s < 2; s++ {
		cf := &lib.CasesFile{Imports: []string{"Model.Base", "Model.Ty", "Model.Lattice", "Corr.CorrC01"}, Typ: "ty * value * bool",
			Obligations: map[string]string{"inst_model": "inst_mismatches orc cases"}}
		pats, strs := map[string]bool{}, map[string]bool{}
		for i := 0; i < coqInst/2; i++ {
			x := tvs[rng.Intn(len(tvs))]
			// prefer positive cases: half of the budget is drawn until an instance is hit
			if i%2 == 0 {
				for k := 0; k < 20 && !u.Inst[x.t][x.v]; k++ {
					x = tvs[rng.Intn(len(tvs))]
				}
			}
			lat.TyStrings(u.Dec[x.t], pats, strs)
			lat.ValStrings(u.VDec[x.v], pats, strs)
			cf.Add(fmt.Sprintf("(%s, %s, %s)", lat.GTy(u.Dec[x.t]), lat.GVal(u.VDec[x.v]), lib.GBool(u.Inst[x.t][x.v])),
				map[string]interface{}{"kind": "inst", "t": u.Specs[x.t], "v": u.VSpec[x.v]})
		}
		cf.Prelude = lat.Oracle(pats, strs)
		res.CorrFiles = append(res.CorrFiles, cf.WriteTo(cfg.Out, fmt.Sprintf("cases_inst_%d", s)))
	}
}

// tags for known-finding matchers: the kinds of the two top-level constructors
func tags(u *lat.Universe, a, b int) []string {
	ts := []string{"pair:" + u.Dec[a].K + "<-" + u.Dec[b].K}
	if lat.IsParamObject(u.Specs[a]) && lat.IsParamObject(u.Specs[b]) {
		// open finding: P[x] accepts P[y] by the case-expression match of the two ARGUMENTS (objectTypeExtension.testAssignable)
		ts = append(ts, "param-object-extension-accepts-by-argument-match")
	}
	return ts
}

func replay(cfg *lib.Config, res *lib.Result) {
	for _, in := range lat.ReplayInputs(cfg.Replay) {
		var x struct {
			Kind string     `json:"kind"`
			A    *lat.Spec  `json:"a"`
			B    *lat.Spec  `json:"b"`
			T    *lat.Spec  `json:"t"`
			V    *lat.VSpec `json:"v"`
			I    int        `json:"i"`
			J    int        `json:"j"`
		}
		lib.Remarshal(in, &x)
		res.Evaluations++
		switch x.Kind {
		case "le-inst", "le-asg":
			// the long-Enum family, named by position
			fam := lat.LongEnumFamilies(true)
			if x.Kind == "le-asg" {
				x.Kind, x.A, x.B = "asg", fam[x.I], fam[x.J]
			} else {
				x.Kind, x.T, x.V = "inst", fam[x.I], lat.LongEnumValues()[x.J]
			}
		}
		switch x.Kind {
		case "hist":
			replayHist(in, res)
		case "sound":
			a, b, v := x.A.Build(), x.B.Build(), x.V.Build()
			asg := px.IsAssignable(a, b)
			ib, ia := px.IsInstance(b, v), px.IsInstance(a, v)
			fmt.Printf("A = %s\nB = %s\nv = %s\nIsAssignable(A,B) = %v, IsInstance(B,v) = %v, IsInstance(A,v) = %v\n", a, b, lat.ValText(v), asg, ib, ia)
			if asg && ib && !ia {
				fmt.Println("FAILS: A accepts B but not B's instance v")
				res.Violate(lib.Violation{Clause: "soundness", What: fmt.Sprintf("%s accepts %s but not its instance %s", a, b, lat.ValText(v)), Input: in})
			}
		case "asg":
			a, b := x.A.Build(), x.B.Build()
			fmt.Printf("A = %s\nB = %s\nIsAssignable(A,B) = %v\n", a, b, px.IsAssignable(a, b))
		case "inst":
			t, v := x.T.Build(), x.V.Build()
			fmt.Printf("T = %s\nv = %s\nIsInstance(T,v) = %v\n", t, lat.ValText(v), px.IsInstance(t, v))
		}
	}
}
