// c03: assignability is a preorder, monotone per constructor, consistent with equality.
package main

import (
	"fmt"
	"math"
	"os"
	"strconv"
	"strings"

	"github.com/lyraproj/issue/issue"
	"github.com/lyraproj/pcore/pcore"
	"github.com/lyraproj/pcore/px"
	"github.com/lyraproj/pcore/types"
	"verifharness/lat"
	"verifharness/lib"
)

func main() {
	if pf := os.Getenv("C03_CONC_CHILD"); pf != "" {
		// the child process of the concurrent first-question family (conc.go)
		concChild(pf)
		return
	}
	cfg := lib.ParseFlags()
	res := lib.NewResult("C03")
	res.Rule = "types: the lattice pool (atoms with boundary ranges + every constructor over an element sub-pool + seeded random types of " +
		"depth 2-3), each built twice through the Go constructors. Laws checked directly on the implementation: reflexivity on the separately " +
		"built copy and on the re-parsed text; Equals => mutual acceptance (all pairs); transitivity (ALL triples of the pool); monotonicity of " +
		"every covariant one-hole context over every accepted pair; widening of sizes/ranges; Any top; Variant member; Optional. " +
		"A case is non-trivial when its premise holds with neither side Any/Unit (e.g. a triple A>=B>=C); distinct = distinct recipes. " +
		"Outside the model fragment (direct check only), in the same pool: Data/RichData and user aliases (constructor route and recursive ones through " +
		"parser + AddTypes) in every member position and in two-position Variants (also below an alias), Iterable over entry tuples against Structs with " +
		"required / Optional[k] / implicitly optional keys and Hashes, Enums that repeat a value (directly or through the case-insensitive flag), random " +
		"types over all of it. Fifth wave: two distinct alias objects with one name and different definitions (Go constructor, contexts of their own) in 17 member positions; " +
		"Hash types whose key or value type is a wrapper around string / integer types next to Structs with required members; clause interchange: types that accept each other " +
		"(not through the by-specification rule) get the same answers from, and give the same answers to, every third type. " +
		"Sixth wave: Enums with long value lists (1..300 values, products of lengths on both sides of 256 / 1024, either case flag, capitals on either side, alone and in member " +
		"positions; all pairs of the bare family also go to the model tie); concurrent first questions: fresh Struct / Object / Variant / alias / Enum types asked for the first time " +
		"by 4-8 goroutines at once in a child process, every answer compared with the sequential answer on separately constructed copies"
	pcore.Do(func(c px.Context) {
		if cfg.Replay != "" {
			replay(c, cfg, res)
		} else {
			run(c, cfg, res)
		}
	})
	res.Write(cfg)
}

func asg(a, b px.Type) bool {
	r, _ := lat.Guarded(func() bool { return px.IsAssignable(a, b) })
	return r
}

// contexts: every covariant position the property names
type context struct {
	Name string
	F    func(x *lat.Spec) *lat.Spec
}

func contexts() []context {
	I := lat.Int(lat.Min, lat.Max)
	S := lat.A("String")
	return []context{
		{"Array[_]", func(x *lat.Spec) *lat.Spec { return lat.Arr(x, 0, lat.Max) }},
		{"Array[_,1,3]", func(x *lat.Spec) *lat.Spec { return lat.Arr(x, 1, 3) }},
		{"Hash[_,Integer]", func(x *lat.Spec) *lat.Spec { return lat.Hsh(x, I, 0, lat.Max) }},
		{"Hash[String,_]", func(x *lat.Spec) *lat.Spec { return lat.Hsh(S, x, 0, lat.Max) }},
		{"Hash[String,_,1,2]", func(x *lat.Spec) *lat.Spec { return lat.Hsh(S, x, 1, 2) }},
		{"Tuple[_]", func(x *lat.Spec) *lat.Spec { return lat.Tup(x) }},
		{"Tuple[Integer,_]", func(x *lat.Spec) *lat.Spec { return lat.Tup(I, x) }},
		{"Tuple[_,String]", func(x *lat.Spec) *lat.Spec { return lat.Tup(x, S) }},
		{"Tuple[Integer,_,1,5]", func(x *lat.Spec) *lat.Spec { return lat.TupSz(1, 5, I, x) }},
		{"Struct[{m=>_}]", func(x *lat.Spec) *lat.Spec { return lat.Struct(lat.Member{Name: "m", Kind: 0, T: x}) }},
		{"Struct[{Optional[m]=>_}]", func(x *lat.Spec) *lat.Spec { return lat.Struct(lat.Member{Name: "m", Kind: 1, T: x}) }},
		{"Struct[{a=>Integer,m=>_}]", func(x *lat.Spec) *lat.Spec {
			return lat.Struct(lat.Member{Name: "a", Kind: 0, T: I}, lat.Member{Name: "m", Kind: 0, T: x})
		}},
		{"Variant[_,Boolean]", func(x *lat.Spec) *lat.Spec { return lat.Var(x, lat.Bln(-1)) }},
		{"Variant[Boolean,_]", func(x *lat.Spec) *lat.Spec { return lat.Var(lat.Bln(-1), x) }},
		{"Optional[_]", func(x *lat.Spec) *lat.Spec { return lat.W("Optional", x) }},
		{"NotUndef[_]", func(x *lat.Spec) *lat.Spec { return lat.W("NotUndef", x) }},
		{"Type[_]", func(x *lat.Spec) *lat.Spec { return lat.W("Type", x) }},
		{"Sensitive[_]", func(x *lat.Spec) *lat.Spec { return lat.W("Sensitive", x) }},
		{"Iterable[_]", func(x *lat.Spec) *lat.Spec { return lat.W("Iterable", x) }},
		// compositions of two of the positions above
		{"Iterable[Tuple[String,_]]", func(x *lat.Spec) *lat.Spec { return lat.W("Iterable", lat.Tup(S, x)) }},
		{"Iterable[Tuple[_,Integer]]", func(x *lat.Spec) *lat.Spec { return lat.W("Iterable", lat.Tup(x, I)) }},
		{"Array[Variant[_,Boolean]]", func(x *lat.Spec) *lat.Spec { return lat.Arr(lat.Var(x, lat.Bln(-1)), 0, lat.Max) }},
		{"Optional[Struct[{Optional[m]=>_}]]", func(x *lat.Spec) *lat.Spec {
			return lat.W("Optional", lat.Struct(lat.Member{Name: "m", Kind: 1, T: x}))
		}},
	}
}

// widen returns recipes whose size / numeric range is wider than the given one (same constructor), nil when none.
func widen(s *lat.Spec) []*lat.Spec {
	cp := func() *lat.Spec { c := *s; return &c }
	var out []*lat.Spec
	switch s.K {
	case "Integer":
		if s.Lo > lat.Min {
			c := cp()
			c.Lo--
			out = append(out, c)
			c = cp()
			c.Lo = lat.Min
			out = append(out, c)
		}
		if s.Hi < lat.Max {
			c := cp()
			c.Hi++
			out = append(out, c)
			c = cp()
			c.Hi = lat.Max
			out = append(out, c)
		}
	case "Float":
		c := cp()
		c.FLo -= 0.5
		out = append(out, c)
		c = cp()
		c.FHi += 0.5
		out = append(out, c)
	case "StringSz", "Collection", "Array", "Hash":
		if s.Lo > 0 {
			c := cp()
			c.Lo--
			out = append(out, c)
		}
		if s.Hi < lat.Max {
			c := cp()
			c.Hi++
			out = append(out, c)
			c = cp()
			c.Hi = lat.Max
			out = append(out, c)
		}
	case "Tuple":
		if s.HasSize {
			if s.Lo > 0 {
				c := cp()
				c.Lo--
				out = append(out, c)
			}
			if s.Hi < lat.Max {
				c := cp()
				c.Hi++
				out = append(out, c)
			}
		}
	}
	return out
}

func build(s *lat.Spec) (t px.Type) {
	lat.Guarded(func() bool { t = s.Build(); return true })
	return
}

// negativeSizeProbes: a size range may have negative bounds (the creators only require min <= max); the ordinary pool
// has none. The test "only the empty collection is admitted: the element types do not matter" of Array / Hash / Tuple /
// Iterable.IsAssignable used to be `max == 0` and broke transitivity below zero (a sub-range of [-1,0] can have max < 0;
// finding trans-negative-collection-size, fixed: the test is `max <= 0`). This section exercises those lines:
//   - the fixed chains that refuted transitivity (corpus), as ordinary direct checks;
//   - a pool of collection types over the size ranges around and below zero: transitivity on ALL its triples, widening of
//     either bound, and (M) Equals / IsAssignable of ALL its pairs inside the model fragment against ty_eqb / asg;
//   - String[-1] was a sized String that did not accept what String accepts (finding widen-negative-string-size, fixed b11538b:
//     NewStringType gives String for every size with min <= 0 and no maximum); the probes stay as ordinary direct checks.
func negativeSizeProbes(cfg *lib.Config, res *lib.Result) {
	I, S := lat.Int(0, 9), lat.A("String")
	chains := [][3]*lat.Spec{
		{lat.Arr(I, -1, 5), lat.Arr(S, -1, 0), lat.Arr(S, -1, -1)},
		{lat.Hsh(S, I, -1, 5), lat.Hsh(I, S, -1, 0), lat.Hsh(I, S, -1, -1)},
		{lat.TupSz(-1, 5, I), lat.Arr(S, -1, 0), lat.Arr(S, -1, -1)},
		{lat.Arr(I, -2, 5), lat.TupSz(-2, 0, S), lat.TupSz(-2, -1, S)},
		{lat.TupSz(-2, 5, I), lat.TupSz(-2, 0, S), lat.TupSz(-2, -1, S)},
		{lat.W("Iterable", I), lat.Arr(S, -1, 0), lat.Arr(S, -1, -1)},
		{lat.W("Iterable", lat.Tup(I, I)), lat.Hsh(S, S, -1, 0), lat.Hsh(S, S, -1, -1)},
		{lat.W("Iterable", I), lat.TupSz(-1, 0, S), lat.TupSz(-1, -1, S)},
		{lat.Coll(-1, 5), lat.Arr(S, -1, 0), lat.Arr(S, -1, -1)}, // Collection compares sizes only
	}
	for _, ch := range chains {
		a, b, c := build(ch[0]), build(ch[1]), build(ch[2])
		if a == nil || b == nil || c == nil {
			continue
		}
		res.Evaluations++
		res.Count("trans.negative-size-corpus")
		if asg(a, b) && asg(b, c) {
			res.Nontrivial("tneg/" + ch[0].String() + "/" + ch[1].String() + "/" + ch[2].String())
			if !asg(a, c) {
				res.Violate(lib.Violation{Clause: "transitive", What: fmt.Sprintf("%s accepts %s, which accepts %s, but the first does not accept the last", a, b, c),
					Input: map[string]interface{}{"kind": "trans", "a": ch[0], "b": ch[1], "c": ch[2]}, Tags: []string{"trans:negative-size-corpus:" + ch[0].K + "<-" + ch[1].K + "<-" + ch[2].K}})
			}
		}
	}

	// ---- the pool over sizes around and below zero
	ranges := [][2]int64{{-1, 5}, {-1, 0}, {-1, -1}, {-2, -1}, {-2, 0}, {0, 0}, {0, 5}}
	U := lat.A("Undef")
	var specs []*lat.Spec
	for _, r := range ranges {
		lo, hi := r[0], r[1]
		specs = append(specs, lat.Arr(I, lo, hi), lat.Arr(S, lo, hi), lat.Arr(U, lo, hi),
			lat.Hsh(S, I, lo, hi), lat.Hsh(I, S, lo, hi),
			lat.TupSz(lo, hi), lat.TupSz(lo, hi, I), lat.TupSz(lo, hi, S), lat.TupSz(lo, hi, I, S),
			lat.Coll(lo, hi))
	}
	specs = append(specs,
		lat.W("Iterable", I), lat.W("Iterable", S), lat.W("Iterable", lat.Tup(S, I)), lat.W("Iterable", lat.Tup(I, S)),
		lat.Struct(), lat.Struct(lat.Member{Name: "a", Kind: 1, T: I}),
		lat.Var(lat.Arr(S, -1, -1), lat.Arr(I, -1, 0)), lat.Var(lat.Hsh(I, S, -2, -1), lat.TupSz(-1, -1, S)),
		lat.W("Optional", lat.Arr(S, -1, -1)), lat.W("NotUndef", lat.TupSz(-2, -1, I)),
		lat.W("Type", lat.Arr(I, -1, 5)), lat.W("Type", lat.Arr(S, -1, 0)), lat.W("Type", lat.Arr(S, -1, -1)),
		lat.Arr(lat.Arr(I, -1, 5), -1, 5), lat.Arr(lat.Arr(S, -1, 0), 0, 5), lat.Arr(lat.Arr(S, -1, -1), 0, 5),
		lat.A("Data"), lat.A("RichData"))
	type ent struct {
		s    *lat.Spec
		l, r px.Type
		d    *types.VerifTy
		inM  bool
	}
	var pool []ent
	for _, sp := range specs {
		l, r := build(sp), build(sp)
		if l == nil || r == nil {
			continue
		}
		d := types.VerifDecodeType(l)
		pool = append(pool, ent{sp, l, r, d, lat.InModel(d)})
	}
	n := len(pool)
	res.Extra["negative-size-types"] = n
	m := make([][]bool, n)
	for a := 0; a < n; a++ {
		m[a] = make([]bool, n)
		for b := 0; b < n; b++ {
			r, crash := lat.Guarded(func() bool { return px.IsAssignable(pool[a].l, pool[b].r) })
			m[a][b] = r
			res.Evaluations++
			if crash != "" {
				res.Violate(lib.Violation{Clause: "crash", What: fmt.Sprintf("IsAssignable(%s, %s): %s", pool[a].l, pool[b].r, crash),
					Input: map[string]interface{}{"kind": "eq", "a": pool[a].s, "b": pool[b].s}, Tags: []string{"crash-asg"}})
			}
		}
		if !m[a][a] {
			res.Violate(lib.Violation{Clause: "reflexive-copy", What: fmt.Sprintf("%s does not accept a separately constructed copy of itself", pool[a].l),
				Input: map[string]interface{}{"kind": "refl", "a": pool[a].s}, Tags: []string{"refl:negative-size:" + pool[a].s.K}})
		}
	}
	has := func(i int, kind string) bool {
		return lat.Contains(pool[i].d, kind) || lat.SpecContains(pool[i].s, kind)
	}
	for a := 0; a < n; a++ {
		for b := 0; b < n; b++ {
			if !m[a][b] || a == b {
				continue
			}
			for c := 0; c < n; c++ {
				res.Evaluations++
				if !m[b][c] || b == c {
					continue
				}
				res.Count("trans.negative-size.premise-holds")
				res.Nontrivial(fmt.Sprintf("tn/%d/%d/%d", a, b, c))
				if !m[a][c] {
					tags := []string{"trans:negative-size:" + pool[a].s.K + "<-" + pool[b].s.K + "<-" + pool[c].s.K}
					if (has(a, "Struct") && has(b, "Hash")) || (has(b, "Struct") && has(c, "Hash")) {
						tags = append(tags, "trans-through-struct-accepts-hash-rule")
					}
					if key := "violations.transitive." + strings.Join(tags, ","); res.Distribution[key] >= 3 {
						res.Distribution[key]++
						continue
					}
					res.Violate(lib.Violation{Clause: "transitive", What: fmt.Sprintf("%s accepts %s, which accepts %s, but the first does not accept the last", pool[a].l, pool[b].r, pool[c].r),
						Input: map[string]interface{}{"kind": "trans", "a": pool[a].s, "b": pool[b].s, "c": pool[c].s}, Tags: tags})
				}
			}
		}
	}
	// widening either bound of a size (also further below zero) never turns acceptance into rejection
	for a := 0; a < n; a++ {
		sp := pool[a].s
		switch sp.K {
		case "Array", "Hash", "Collection", "Tuple":
		default:
			continue
		}
		lo, hi := *sp, *sp
		lo.Lo--
		hi.Hi++
		for _, w := range []*lat.Spec{&lo, &hi} {
			wt := build(w)
			if wt == nil {
				continue
			}
			for b := 0; b < n; b++ {
				if !m[a][b] {
					continue
				}
				res.Evaluations++
				res.Count("widen.negative-size.premise-holds")
				if !asg(wt, pool[b].r) {
					res.Violate(lib.Violation{Clause: "widen", What: fmt.Sprintf("%s accepts %s but the wider %s does not", pool[a].l, pool[b].r, wt),
						Input: map[string]interface{}{"kind": "widen", "a": sp, "w": w, "b": pool[b].s}, Tags: []string{"widen:negative-size:" + sp.K + "<-" + pool[b].s.K}})
				}
			}
		}
	}
	// M: every pair of the pool inside the model fragment
	cf := &lib.CasesFile{Imports: []string{"Model.Base", "Model.Ty", "Model.Lattice", "Model.TyEq", "Corr.CorrC01", "Corr.CorrC03"}, Typ: "ty * ty * bool * bool",
		Obligations: map[string]string{"eq_model": "eq_mismatches cases", "asg_model": "asg2_mismatches orc cases"}}
	pats, strs := map[string]bool{}, map[string]bool{}
	for a := 0; a < n; a++ {
		for b := 0; b < n; b++ {
			if !pool[a].inM || !pool[b].inM {
				continue
			}
			e, _ := lat.Guarded(func() bool { return pool[a].l.Equals(pool[b].r, nil) })
			if e && (!m[a][b] || !m[b][a]) {
				res.Violate(lib.Violation{Clause: "equal-accept", What: fmt.Sprintf("%s equals %s but they do not accept each other", pool[a].l, pool[b].r),
					Input: map[string]interface{}{"kind": "eq", "a": pool[a].s, "b": pool[b].s}, Tags: []string{"eq:negative-size:" + pool[a].s.K}})
			}
			lat.TyStrings(pool[a].d, pats, strs)
			lat.TyStrings(pool[b].d, pats, strs)
			cf.Add(fmt.Sprintf("(%s, %s, %s, %s)", lat.GTy(pool[a].d), lat.GTy(pool[b].d), lib.GBool(e), lib.GBool(m[a][b])),
				map[string]interface{}{"kind": "eq", "a": pool[a].s, "b": pool[b].s})
		}
	}
	cf.Prelude = lat.Oracle(pats, strs)
	res.CorrFiles = append(res.CorrFiles, cf.WriteTo(cfg.Out, "cases_negsize"))

	w := lat.StrSz(-1, lat.Max)
	for _, bs := range []*lat.Spec{S, lat.Pat("a"), lat.Enum(false)} {
		a, wt, b := build(S), build(w), build(bs)
		if a == nil || wt == nil || b == nil {
			continue
		}
		res.Evaluations++
		res.Count("widen.negative-size-probe")
		if asg(a, b) && !asg(wt, b) {
			res.Violate(lib.Violation{Clause: "widen", What: fmt.Sprintf("%s accepts %s but the wider %s does not", a, b, wt),
				Input: map[string]interface{}{"kind": "widen", "a": S, "w": w, "b": bs}, Tags: []string{"widen:negative-size:String"}})
		}
	}
}

// hasNaNBound: the type contains a Float type with a NaN bound (only the types inferred for values that hold NaN: no
// expression and no constructor call with ordered bounds gives one)
func hasNaNBound(t *types.VerifTy) bool {
	if t.K == "Float" && t.NaN {
		return true
	}
	for _, e := range t.Ts {
		if hasNaNBound(e) {
			return true
		}
	}
	for _, e := range t.Keys {
		if hasNaNBound(e) {
			return true
		}
	}
	return false
}

// floatNaNProbes: a Float type with a NaN bound contains nothing and does not accept itself (the former open findings
// float-nan-bound-*). Since the fix it cannot be built: the constructor rejects a NaN bound with a reported error, and a
// value that holds NaN infers the unbounded Float type, which accepts a copy of itself. Ordinary direct checks.
func nanBoundRejected(lo, hi float64) (bool, string) {
	var t px.Type
	what := ""
	func() {
		defer func() {
			if r := recover(); r != nil {
				if _, ok := r.(issue.Reported); ok {
					what = "reported"
				} else {
					what = fmt.Sprintf("escaped with %T: %v", r, r)
				}
			}
		}()
		t = types.NewFloatType(lo, hi)
	}()
	if what == "reported" {
		return true, what
	}
	if what == "" {
		what = fmt.Sprintf("built %s", t)
	}
	return false, what
}

func floatNaNProbes(res *lib.Result) {
	nan, inf := math.NaN(), math.Inf(1)
	for _, p := range [][2]float64{{nan, 1}, {1, nan}, {nan, nan}, {nan, inf}, {-inf, nan}, {nan, -inf}, {inf, nan}} {
		res.Evaluations++
		res.Count("float-nan-bound-probe")
		if ok, what := nanBoundRejected(p[0], p[1]); !ok {
			res.Violate(lib.Violation{Clause: "float-nan-bound-rejected", What: fmt.Sprintf("NewFloatType(%v, %v) is not rejected with a reported error: %s", p[0], p[1], what),
				Input: map[string]interface{}{"kind": "nanbound", "lo": fmt.Sprint(p[0]), "hi": fmt.Sprint(p[1])}, Tags: []string{"float-nan-bound:constructor"}})
		}
	}
}

func trivial(u *lat.Universe, i int) bool { k := u.Dec[i].K; return k == "Any" || k == "Unit" }

func run(c px.Context, cfg *lib.Config, res *lib.Result) {
	rng := lib.NewRng(cfg.Seed)
	nRandom, coqN, monoBudget, nRandomX := 250, 2400, 60000, 200
	if cfg.Thorough() {
		nRandom, coqN, monoBudget, nRandomX = 1200, 12000, 600000, 1000
	}
	// the families outside the Rocq model (direct check only): aliases in member positions, user aliases (also recursive
	// ones), Iterable over entry tuples against Structs with required / Optional[k] / implicitly optional keys, Enums that
	// repeat a value (directly or through the case-insensitive flag); a separate generator, so that the random types of
	// the model fragment stay what they were
	xt := lat.ExtTypes(lib.NewRng(cfg.Seed^0x5eed03), nRandomX, cfg.Thorough())
	// third wave: Float types with an infinite bound, the family of Object types, twin systems of mutually recursive aliases
	xt = append(xt, lat.Ext3Types(lib.NewRng(cfg.Seed^0x5eed04), cfg.Thorough())...)
	// fifth wave: two distinct alias objects with one name and different definitions; Hash types whose key type is a wrapper
	// around string types (Variant / NotUndef / Optional / alias) next to Struct types with required members
	xt = append(xt, lat.Ext5Types(lib.NewRng(cfg.Seed^0x5eed05), cfg.Thorough())...)
	hk := lat.HashKeyFamilies(lib.NewRng(cfg.Seed^0x5eed06), cfg.Thorough())
	xt = append(xt, hk...)
	// sixth wave: Enums with long value lists (the answer is a function of the value sets and the flags, whatever the lengths)
	xt = append(xt, lat.LongEnumFamilies(false)...)
	u := lat.NewUniverseWith(rng, nRandom, 1, xt, nil)
	// Unit is "two-way assignable by definition" (every type accepts it and it accepts every type), so no
	// order law can hold through it (Integer >= Unit >= String): types that contain Unit are left out.
	u.Drop(func(i int) bool { return lat.Contains(u.Dec[i], "Unit") })
	u.FillAsg()
	for _, cr := range u.Crashes {
		res.Violate(cr)
	}
	n := len(u.L)
	res.Extra["types"] = n
	for _, sp := range u.Specs {
		switch sp.K {
		case "FloatB", "ValType", "Decl", "DeclOnce", "CtxDecl":
			res.Count("pool.type." + sp.K)
		}
		if lat.IsCtxDecl(sp) {
			res.Count("pool.type.holds-CtxDecl")
		}
	}
	spec := func(i int) interface{} { return u.Specs[i] }

	// ---- sixth wave: the answers must not depend on who else asks at the same time. The trials run in a child process,
	// next to the single-threaded search below; joinConc (deferred: after the model-tie files are written) waits for it and puts
	// its violations in front of the capped list
	joinConc := startConcurrentFirstQuestions(cfg, build)
	defer joinConc(res)
	// ---- no Float type with a NaN bound: not from the constructor, not among the types inferred for values that hold NaN
	floatNaNProbes(res)
	for a := 0; a < n; a++ {
		if hasNaNBound(u.Dec[a]) {
			res.Violate(lib.Violation{Clause: "float-nan-bound-rejected", What: fmt.Sprintf("the pool type %s has a Float member with a NaN bound%s", u.Text[a], lat.Legend(u.Specs[a])),
				Input: map[string]interface{}{"kind": "refl", "a": spec(a)}, Tags: []string{"float-nan-bound:pool"}})
		}
	}
	// ---- reflexivity: the separately built copy, and the re-parsed text
	for a := 0; a < n; a++ {
		res.Evaluations++
		if !u.Asg[a][a] {
			res.Violate(lib.Violation{Clause: "reflexive-copy", What: fmt.Sprintf("%s does not accept a separately constructed copy of itself%s", u.Text[a], lat.Legend(u.Specs[a])),
				Input: map[string]interface{}{"kind": "refl", "a": spec(a)}, Tags: []string{"refl:" + u.Dec[a].K}})
		}
		var p px.Type
		_, crash := lat.Guarded(func() bool { p = c.ParseType(u.Text[a]); return true })
		if crash == "" && p != nil {
			eq, _ := lat.Guarded(func() bool { return p.Equals(u.L[a], nil) && u.L[a].Equals(p, nil) })
			if eq {
				res.Count("reparsed.equal")
				if !asg(u.L[a], p) || !asg(p, u.L[a]) {
					res.Violate(lib.Violation{Clause: "reflexive-reparsed", What: fmt.Sprintf("%s and its re-parsed (equal) copy do not accept each other", u.Text[a]),
						Input: map[string]interface{}{"kind": "refl", "a": spec(a)}, Tags: []string{"reparse:" + u.Dec[a].K}})
				}
			} else {
				res.Count("reparsed.not-equal(C05)")
			}
		}
	}
	// ---- equality => mutual acceptance; the Equals matrix (also used by the model tie)
	eq := make([][]bool, n)
	for a := 0; a < n; a++ {
		eq[a] = make([]bool, n)
		for b := 0; b < n; b++ {
			res.Evaluations++
			e, crash := lat.Guarded(func() bool { return u.L[a].Equals(u.R[b], nil) })
			eq[a][b] = e
			if crash != "" {
				res.Violate(lib.Violation{Clause: "crash", What: fmt.Sprintf("%s.Equals(%s): %s", u.Text[a], u.Text[b], crash),
					Input: map[string]interface{}{"kind": "eq", "a": spec(a), "b": spec(b)}, Tags: []string{"crash-eq"}})
			}
			if e {
				res.Count("equal-pairs")
				if a != b {
					res.Nontrivial(fmt.Sprintf("eq/%d/%d", a, b))
				}
				if !u.Asg[a][b] || !u.Asg[b][a] {
					res.Violate(lib.Violation{Clause: "equal-accept", What: fmt.Sprintf("%s equals %s but they do not accept each other (%v, %v)%s", u.Text[a], u.Text[b], u.Asg[a][b], u.Asg[b][a], lat.Legend(u.Specs[a], u.Specs[b])),
						Input: map[string]interface{}{"kind": "eq", "a": spec(a), "b": spec(b)}, Tags: []string{"eq:" + u.Dec[a].K + "/" + u.Dec[b].K}})
				}
			}
		}
	}
	// ---- sizes with a negative bound: they parse (Array[String,-1,-1]) and the pool has none: fixed chains and a
	// small pool of their own (direct checks and model tie; finding trans-negative-collection-size is fixed,
	// so is widen-negative-string-size). Before the all-triples search: the list of recorded violations is capped,
	// and the by-specification finding alone can fill it
	negativeSizeProbes(cfg, res)
	// ---- transitivity over ALL triples
	accepts := make([][]int, n) // accepts[b] = all c with b >= c
	for b := 0; b < n; b++ {
		for cc := 0; cc < n; cc++ {
			if u.Asg[b][cc] {
				accepts[b] = append(accepts[b], cc)
			}
		}
	}
	// ---- types that accept each other are interchangeable: whoever accepts one accepts the other, and they accept the same
	// types (two instances of transitivity, A >= B1 >= B2 and B1 >= B2 >= C, stated for the pairs (B1, B2) whose mutual
	// acceptance cannot have come through the by-specification rule; what a third type - a Struct included - answers for
	// the two must then agree: the rule reads key type, value type and size of a Hash, and B1, B2 agree on all of them)
	{
		has := func(i int, kind string) bool {
			return lat.Contains(u.Dec[i], kind) || lat.SpecContains(u.Specs[i], kind)
		}
		hasStruct, hasHash := make([]bool, n), make([]bool, n)
		for i := 0; i < n; i++ {
			hasStruct[i], hasHash[i] = has(i, "Struct"), has(i, "Hash")
		}
		for b1 := 0; b1 < n; b1++ {
			if trivial(u, b1) {
				continue
			}
			for _, b2 := range accepts[b1] {
				if b2 <= b1 || !u.Asg[b2][b1] || trivial(u, b2) {
					continue
				}
				if (hasStruct[b1] && hasHash[b2]) || (hasStruct[b2] && hasHash[b1]) {
					res.Count("interchange.pair-may-use-the-rule")
					continue
				}
				res.Count("interchange.mutual-pairs")
				for a := 0; a < n; a++ {
					res.Evaluations += 2
					if u.Asg[a][b1] && !trivial(u, a) && a != b1 && a != b2 && res.DistinctNontrivial < 2200000 {
						res.Nontrivial(fmt.Sprintf("i/%d/%d/%d", a, b1, b2))
					}
					for side := 0; side < 2; side++ {
						x1, x2, what := u.Asg[a][b1], u.Asg[a][b2], "right"
						if side == 1 {
							x1, x2, what = u.Asg[b1][a], u.Asg[b2][a], "left"
							if hasStruct[b1] && hasHash[a] {
								// B1 >= B2 >= C with the by-specification rule in the last step: the open finding
								continue
							}
						}
						if x1 == x2 {
							continue
						}
						tags := []string{"inter-" + what + ":" + u.Dec[a].K + "/" + u.Dec[b1].K + "~" + u.Dec[b2].K}
						if key := "violations.interchange." + strings.Join(tags, ","); res.Distribution[key] >= 3 {
							res.Distribution[key]++
							continue
						}
						txt := fmt.Sprintf("%s and %s accept each other, but %s accepts the first: %v, the second: %v", u.Text[b1], u.Text[b2], u.Text[a], x1, x2)
						if side == 1 {
							txt = fmt.Sprintf("%s and %s accept each other, but the first accepts %s: %v, the second: %v", u.Text[b1], u.Text[b2], u.Text[a], x1, x2)
						}
						res.Violate(lib.Violation{Clause: "interchange", What: txt + lat.Legend(u.Specs[a], u.Specs[b1], u.Specs[b2]),
							Input: map[string]interface{}{"kind": "inter", "law": what, "a": spec(a), "b": spec(b1), "c": spec(b2)}, Tags: tags})
					}
				}
			}
		}
	}
	// ---- transitivity: the triples
	for a := 0; a < n; a++ {
		for b := 0; b < n; b++ {
			if !u.Asg[a][b] || trivial(u, a) {
				res.Evaluations += n
				continue
			}
			for _, cc := range accepts[b] {
				res.Evaluations++
				if trivial(u, b) || trivial(u, cc) {
					continue
				}
				if a != b && b != cc {
					res.Count("trans.premise-holds")
					if res.DistinctNontrivial < 2000000 {
						res.Nontrivial(fmt.Sprintf("t/%d/%d/%d", a, b, cc))
					}
				}
				if !u.Asg[a][cc] {
					tags := []string{"trans:" + u.Dec[a].K + "<-" + u.Dec[b].K + "<-" + u.Dec[cc].K}
					// (the recipe is looked at as well: the decoded structure does not show what is below an alias)
					has := func(i int, kind string) bool {
						return lat.Contains(u.Dec[i], kind) || lat.SpecContains(u.Specs[i], kind)
					}
					// the open finding: the by-specification rule loses what the Struct says about its keys. It excuses a chain
					// whose first step may go through the rule only when the last type brings a Struct of its own
					// (Struct[{a=>..}] >= Hash[String,..] >= Struct[{b=>..}]), and a chain whose second step may go through it
					// (Hash[Enum[a],..] >= Struct[{a=>..}] >= Hash[String,..]). A chain Struct >= Hash >= <no Struct anywhere> is
					// not excused: the rule answers for the last type exactly as for the middle one, through key type,
					// value type and size, all three of them transitive
					if has(a, "Struct") && has(b, "Hash") && has(cc, "Struct") {
						tags = append(tags, "trans-through-struct-accepts-hash-rule")
					} else if has(b, "Struct") && has(cc, "Hash") {
						tags = append(tags, "trans-through-struct-accepts-hash-rule")
					}
					keep := 3
					if len(tags) > 1 {
						// an instance of the open finding: one per group is kept (the list of kept violations is capped, and what is
						// not excused must find room in it)
						keep = 1
					}
					if key := "violations.transitive." + strings.Join(tags, ","); res.Distribution[key] >= keep {
						// Violate keeps three of a group: the others are only counted (wording a million of them costs)
						res.Distribution[key]++
						continue
					}
					res.Violate(lib.Violation{Clause: "transitive", What: fmt.Sprintf("%s accepts %s, which accepts %s, but the first does not accept the last%s", u.Text[a], u.Text[b], u.Text[cc], lat.Legend(u.Specs[a], u.Specs[b], u.Specs[cc])),
						Input: map[string]interface{}{"kind": "trans", "a": spec(a), "b": spec(b), "c": spec(cc)}, Tags: tags})
				}
			}
			res.Evaluations += n - len(accepts[b])
		}
	}
	// ---- Any is top, Variant member, Optional
	anyT := build(lat.A("Any"))
	undefT := build(lat.A("Undef"))
	for a := 0; a < n; a++ {
		res.Evaluations += 5
		if !asg(anyT, u.R[a]) {
			res.Violate(lib.Violation{Clause: "any-top", What: "Any does not accept " + u.Text[a], Input: map[string]interface{}{"kind": "law", "law": "any", "a": spec(a)}, Tags: []string{"any"}})
		}
		for i, vs := range []*lat.Spec{lat.Var(u.Specs[a], lat.Bln(-1)), lat.Var(lat.Bln(-1), u.Specs[a]), lat.Var(u.Specs[a])} {
			v := build(vs)
			if v != nil && !asg(v, u.R[a]) {
				res.Violate(lib.Violation{Clause: "variant-member", What: fmt.Sprintf("%s does not accept its member %s", v, u.Text[a]),
					Input: map[string]interface{}{"kind": "law", "law": fmt.Sprintf("variant%d", i), "a": spec(a)}, Tags: []string{"variant-member:" + u.Dec[a].K}})
			}
		}
		o := build(lat.W("Optional", u.Specs[a]))
		if o != nil && (!asg(o, u.R[a]) || !asg(o, undefT)) {
			res.Violate(lib.Violation{Clause: "optional-accepts", What: fmt.Sprintf("%s does not accept %s or Undef", o, u.Text[a]),
				Input: map[string]interface{}{"kind": "law", "law": "optional", "a": spec(a)}, Tags: []string{"optional:" + u.Dec[a].K}})
		}
	}
	// ---- widening a size or range never turns acceptance into rejection (on either side of the receiver)
	for a := 0; a < n; a++ {
		ws := widen(u.Specs[a])
		for _, w := range ws {
			wt := build(w)
			if wt == nil {
				continue
			}
			for b := 0; b < n; b++ {
				if !u.Asg[a][b] {
					continue
				}
				res.Evaluations++
				res.Count("widen.premise-holds")
				if !asg(wt, u.R[b]) {
					res.Violate(lib.Violation{Clause: "widen", What: fmt.Sprintf("%s accepts %s but the wider %s does not", u.Text[a], u.Text[b], wt),
						Input: map[string]interface{}{"kind": "widen", "a": spec(a), "w": w, "b": spec(b)}, Tags: []string{"widen:" + u.Dec[a].K + "<-" + u.Dec[b].K}})
				}
			}
		}
	}
	// ---- monotonicity: F[A] accepts F[B] whenever A accepts B, for every covariant context
	type pair struct{ a, b int }
	var truePairs []pair
	for a := 0; a < n; a++ {
		for b := 0; b < n; b++ {
			if u.Asg[a][b] && a != b && !trivial(u, a) {
				truePairs = append(truePairs, pair{a, b})
			}
		}
	}
	ctxs := contexts()
	perCtx := monoBudget / len(ctxs)
	for _, cx := range ctxs {
		for i := 0; i < perCtx && len(truePairs) > 0; i++ {
			var p pair
			if len(truePairs) <= perCtx {
				if i >= len(truePairs) {
					break
				}
				p = truePairs[i]
			} else {
				p = truePairs[rng.Intn(len(truePairs))]
			}
			fa, fb := build(cx.F(u.Specs[p.a])), build(cx.F(u.Specs[p.b]))
			if fa == nil || fb == nil {
				continue
			}
			res.Evaluations++
			res.Count("mono." + cx.Name)
			res.Nontrivial(fmt.Sprintf("m/%s/%d/%d", cx.Name, p.a, p.b))
			if !asg(fa, fb) {
				res.Violate(lib.Violation{Clause: "monotone", What: fmt.Sprintf("%s accepts %s but %s does not accept %s", u.Text[p.a], u.Text[p.b], fa, fb),
					Input: map[string]interface{}{"kind": "mono", "ctx": cx.Name, "a": spec(p.a), "b": spec(p.b)},
					Tags:  []string{"mono:" + cx.Name + ":" + u.Dec[p.a].K + "<-" + u.Dec[p.b].K}})
			}
		}
	}
	for i := 0; i < 4 && i < len(truePairs); i++ {
		p := truePairs[(i*7919+13)%len(truePairs)]
		res.Sample(map[string]interface{}{"A": u.Text[p.a], "B": u.Text[p.b], "A accepts B": true, "Array[A] accepts Array[B]": asg(build(lat.Arr(u.Specs[p.a], 0, lat.Max)), build(lat.Arr(u.Specs[p.b], 0, lat.Max)))})
	}

	// ---- M: model tie. Equals matrix vs ty_eqb, assignability vs asg (pairs drawn from the transitivity chains and the equal pairs)
	// (types that hold a long Enum are left to cases_longenum below: each occurrence is some KB of text, and their hundreds of
	// strings would multiply the rows of the regexp oracle table of the file they are drawn into)
	heavy := make([]bool, n)
	for i := 0; i < n; i++ {
		heavy[i] = lat.HasLongEnum(u.Specs[i])
	}
	var eqT, eqF, asgPs []pair
	for a := 0; a < n; a++ {
		if !u.InM[a] || heavy[a] {
			continue
		}
		for b := 0; b < n; b++ {
			if !u.InM[b] || heavy[b] {
				continue
			}
			if eq[a][b] {
				eqT = append(eqT, pair{a, b})
			} else if u.Dec[a].K == u.Dec[b].K {
				eqF = append(eqF, pair{a, b})
			}
			asgPs = append(asgPs, pair{a, b})
		}
	}
	sample := func(ps []pair, k int) []pair {
		if len(ps) <= k {
			return ps
		}
		out := make([]pair, 0, k)
		for i := 0; i < k; i++ {
			out = append(out, ps[rng.Intn(len(ps))])
		}
		return out
	}
	// M: the by-specification rule on every run: every (Struct, Hash) pair of the Hash-key family inside the model fragment
	// (key types that GuardedIsAssignable takes apart before String is asked: Variant, NotUndef, Optional; the model's
	// `flat FString k`), and a sample of the pairs the other way round
	{
		inHK := map[string]bool{}
		for _, sp := range hk {
			inHK[sp.String()] = true
		}
		var ss, hs []int
		for i := 0; i < n; i++ {
			if !u.InM[i] || !inHK[u.Specs[i].String()] {
				continue
			}
			switch u.Dec[i].K {
			case "Struct":
				ss = append(ss, i)
			case "Hash":
				hs = append(hs, i)
			}
		}
		var ps []pair
		for _, si := range ss {
			for _, hi := range hs {
				ps = append(ps, pair{si, hi})
			}
		}
		capN := 2400
		if cfg.Thorough() {
			capN = 12000
		}
		ps = sample(ps, capN)
		for i := 0; i < 300 && len(ss) > 0 && len(hs) > 0; i++ {
			ps = append(ps, pair{hs[rng.Intn(len(hs))], ss[rng.Intn(len(ss))]})
		}
		cf := &lib.CasesFile{Imports: []string{"Model.Base", "Model.Ty", "Model.Lattice", "Model.TyEq", "Corr.CorrC01", "Corr.CorrC03"}, Typ: "ty * ty * bool * bool",
			Obligations: map[string]string{"eq_model": "eq_mismatches cases", "asg_model": "asg2_mismatches orc cases"}}
		pats, strs := map[string]bool{}, map[string]bool{}
		for _, p := range ps {
			if u.Asg[p.a][p.b] {
				res.Count("structhash.cases.accepted")
			} else {
				res.Count("structhash.cases.rejected")
			}
			lat.TyStrings(u.Dec[p.a], pats, strs)
			lat.TyStrings(u.Dec[p.b], pats, strs)
			cf.Add(fmt.Sprintf("(%s, %s, %s, %s)", lat.GTy(u.Dec[p.a]), lat.GTy(u.Dec[p.b]), lib.GBool(eq[p.a][p.b]), lib.GBool(u.Asg[p.a][p.b])),
				map[string]interface{}{"kind": "eq", "a": spec(p.a), "b": spec(p.b)})
		}
		cf.Prelude = lat.Oracle(pats, strs)
		res.CorrFiles = append(res.CorrFiles, cf.WriteTo(cfg.Out, "cases_structhash"))
	}
	// M: long Enums on every run. The model's Enum <- Enum is forallb (enum_inst ci vs) vs' whatever the lengths: ALL pairs of the
	// bare long-Enum family (and the String types of single values) whose lengths multiply to at most 300 (20 x 15, 16 x 16, 17 x 16,
	// 300 x 1, 257 x 1; quick tier: all up to 40, a third of the others by the seed), and of the costlier pairs one (thorough: eight) per combination of the two lengths, drawn by the seed (32 x 32,
	// 33 x 32, 40 x 40, 300 x 300, ...: every combination on every run; 300 x 300 is 90000 string comparisons in the model, about
	// 1 us each under vm_compute, all pairs would be ~1e9). The types are defined once in the prelude and referred to by name; the ~35000 pairs are
	// written as one row per left type (a flat list literal of that length overflows coqc's stack) and expanded by flat_map in
	// the order of the recorded inputs, which name the two types by their position in lat.LongEnumBare.
	{
		fam := lat.LongEnumFamilies(false)
		pos := map[string]int{}
		for i := 0; i < n; i++ {
			pos[u.Specs[i].String()] = i + 1
		}
		var idx, famIdx []int
		var prelude strings.Builder
		var lists lat.StrListTable
		for fi, sp := range fam {
			if sp.K == "Pattern" {
				continue
			}
			if i := pos[sp.String()] - 1; i >= 0 && u.InM[i] {
				fmt.Fprintf(&prelude, "Definition LE%d : ty := %s.\n", len(idx), lists.GTy(u.Dec[i]))
				idx = append(idx, i)
				famIdx = append(famIdx, fi)
			}
		}
		ln := func(i int) int { return lat.LongEnumCost(u.Specs[i]) }
		// the pairs: two bare types (Enum / String), or two types with the same outermost constructor
		paired := func(a, b int) bool {
			bare := func(i int) bool { k := u.Dec[i].K; return k == "Enum" || k == "StringVal" || k == "StringSz" }
			return (bare(a) && bare(b)) || u.Dec[a].K == u.Dec[b].K
		}
		cf := &lib.CasesFile{Imports: []string{"Model.Base", "Model.Ty", "Model.Lattice", "Model.TyEq", "Corr.CorrC01", "Corr.CorrC03"}, Typ: "ty * ty * bool * bool",
			Obligations: map[string]string{"eq_model": "eq_mismatches (cases ++ le_cases)", "asg_model": "asg2_mismatches orc (cases ++ le_cases)"}}
		perGroup, oneIn := 1, 3
		if cfg.Thorough() {
			perGroup, oneIn = 8, 1
		}
		count := func(a, b int) {
			if u.Asg[a][b] {
				res.Count("longenum.cases.accepted")
			} else {
				res.Count("longenum.cases.rejected")
			}
		}
		big := map[[2]int][]pair{}
		var groups [][2]int
		var rows []string
		var rowInputs []interface{}
		for ka := range idx {
			var row []string
			for kb := range idx {
				a, b := idx[ka], idx[kb]
				if !paired(a, b) {
					continue
				}
				if c := ln(a) * ln(b); c > 40 && c <= 300 && (uint64(ka*7919+kb*104729)+cfg.Seed)%uint64(oneIn) != 0 {
					// quick tier: a third of the pairs between 40 and 300 comparisons, chosen by the seed (each combination of two
					// lengths occurs in dozens of pairs: both flags, four spellings)
					continue
				} else if c > 300 {
					g := [2]int{ln(a), ln(b)}
					if big[g] == nil {
						groups = append(groups, g)
					}
					big[g] = append(big[g], pair{ka, kb})
					continue
				}
				count(a, b)
				row = append(row, fmt.Sprintf("(LE%d, %s, %s)", kb, lib.GBool(eq[a][b]), lib.GBool(u.Asg[a][b])))
				rowInputs = append(rowInputs, map[string]interface{}{"kind": "le", "i": famIdx[ka], "j": famIdx[kb]})
			}
			rows = append(rows, fmt.Sprintf("(LE%d, %s)", ka, lib.GList(row, "ty * bool * bool")))
		}
		var drawn []pair
		for _, g := range groups {
			drawn = append(drawn, sample(big[g], perGroup)...)
		}
		for _, p := range drawn {
			a, b := idx[p.a], idx[p.b]
			count(a, b)
			cf.Add(fmt.Sprintf("(LE%d, LE%d, %s, %s)", p.a, p.b, lib.GBool(eq[a][b]), lib.GBool(u.Asg[a][b])), map[string]interface{}{"kind": "le", "i": famIdx[p.a], "j": famIdx[p.b]})
		}
		cf.Inputs = append(cf.Inputs, rowInputs...)
		prelude.WriteString("Definition le_rows : list (ty * list (ty * bool * bool)) :=\n " + lib.GList(rows, "ty * list (ty * bool * bool)") + ".\n")
		prelude.WriteString("Definition le_cases : list (ty * ty * bool * bool) :=\n flat_map (fun r => map (fun x => (fst r, fst (fst x), snd (fst x), snd x)) (snd r)) le_rows.\n")
		cf.Prelude = lists.Defs.String() + prelude.String() + lat.Oracle(map[string]bool{}, map[string]bool{})
		res.Extra["long-enum-types-in-model-tie"] = len(idx)
		res.Extra["long-enum-pairs-in-model-tie"] = len(cf.Inputs)
		res.CorrFiles = append(res.CorrFiles, cf.WriteTo(cfg.Out, "cases_longenum"))
	}
	shards := 4
	for s := 0; s < shards; s++ {
		cf := &lib.CasesFile{Imports: []string{"Model.Base", "Model.Ty", "Model.Lattice", "Model.TyEq", "Corr.CorrC01", "Corr.CorrC03"}, Typ: "ty * ty * bool * bool",
			Obligations: map[string]string{"eq_model": "eq_mismatches cases", "asg_model": "asg2_mismatches orc cases"}}
		pats, strs := map[string]bool{}, map[string]bool{}
		ps := append(sample(eqT, coqN/shards/3), sample(eqF, coqN/shards/3)...)
		ps = append(ps, sample(asgPs, coqN/shards/3)...)
		for _, p := range ps {
			lat.TyStrings(u.Dec[p.a], pats, strs)
			lat.TyStrings(u.Dec[p.b], pats, strs)
			cf.Add(fmt.Sprintf("(%s, %s, %s, %s)", lat.GTy(u.Dec[p.a]), lat.GTy(u.Dec[p.b]), lib.GBool(eq[p.a][p.b]), lib.GBool(u.Asg[p.a][p.b])),
				map[string]interface{}{"kind": "eq", "a": spec(p.a), "b": spec(p.b)})
		}
		cf.Prelude = lat.Oracle(pats, strs)
		res.CorrFiles = append(res.CorrFiles, cf.WriteTo(cfg.Out, fmt.Sprintf("cases_eq_%d", s)))
	}
}

func replay(c px.Context, cfg *lib.Config, res *lib.Result) {
	for _, in := range lat.ReplayInputs(cfg.Replay) {
		var x struct {
			Kind string    `json:"kind"`
			Lo   string    `json:"lo"`
			Hi   string    `json:"hi"`
			Law  string    `json:"law"`
			I    int       `json:"i"`
			J    int       `json:"j"`
			Ctx  string    `json:"ctx"`
			A    *lat.Spec `json:"a"`
			B    *lat.Spec `json:"b"`
			C    *lat.Spec `json:"c"`
			W    *lat.Spec `json:"w"`
		}
		lib.Remarshal(in, &x)
		res.Evaluations++
		fail := func(clause, what string) {
			fmt.Println("FAILS: " + what)
			res.Violate(lib.Violation{Clause: clause, What: what, Input: in})
		}
		switch x.Kind {
		case "conc":
			replayConc(cfg, res, in)
		case "nanbound":
			lo, _ := strconv.ParseFloat(x.Lo, 64)
			hi, _ := strconv.ParseFloat(x.Hi, 64)
			ok, what := nanBoundRejected(lo, hi)
			fmt.Printf("NewFloatType(%v, %v): %s\n", lo, hi, what)
			if !ok {
				fail("float-nan-bound-rejected", fmt.Sprintf("NewFloatType(%v, %v) is not rejected with a reported error: %s", lo, hi, what))
			}
		case "refl":
			a, a2 := x.A.Build(), x.A.Build()
			fmt.Printf("A = %s\nIsAssignable(A, copy of A) = %v\n", a, asg(a, a2))
			if hasNaNBound(types.VerifDecodeType(a)) {
				fail("float-nan-bound-rejected", fmt.Sprintf("%s has a Float member with a NaN bound", a))
			}
			if !asg(a, a2) {
				fail("reflexive-copy", fmt.Sprintf("%s does not accept a separately constructed copy of itself", a))
			}
			p := c.ParseType(a.String())
			fmt.Printf("re-parsed: %s, Equals = %v, accepts both ways = %v %v\n", p, p.Equals(a, nil), asg(a, p), asg(p, a))
			if p.Equals(a, nil) && a.Equals(p, nil) && (!asg(a, p) || !asg(p, a)) {
				fail("reflexive-reparsed", fmt.Sprintf("%s and its re-parsed copy do not accept each other", a))
			}
		case "eq", "le":
			if x.Kind == "le" {
				// a pair of the long-Enum family, named by position
				fam := lat.LongEnumFamilies(false)
				x.A, x.B = fam[x.I], fam[x.J]
			}
			a, b := x.A.Build(), x.B.Build()
			e := a.Equals(b, nil)
			fmt.Printf("A = %s\nB = %s\nA.Equals(B) = %v, A accepts B = %v, B accepts A = %v\n", a, b, e, asg(a, b), asg(b, a))
			if e && (!asg(a, b) || !asg(b, a)) {
				fail("equal-accept", fmt.Sprintf("%s equals %s but they do not accept each other", a, b))
			}
		case "trans":
			a, b, cc := x.A.Build(), x.B.Build(), x.C.Build()
			fmt.Printf("A = %s\nB = %s\nC = %s\nA>=B %v, B>=C %v, A>=C %v\n", a, b, cc, asg(a, b), asg(b, cc), asg(a, cc))
			if asg(a, b) && asg(b, cc) && !asg(a, cc) {
				fail("transitive", fmt.Sprintf("%s accepts %s, which accepts %s, but the first does not accept the last", a, b, cc))
			}
		case "inter":
			a, b1, b2 := x.A.Build(), x.B.Build(), x.C.Build()
			fmt.Printf("A = %s\nB1 = %s\nB2 = %s\nB1>=B2 %v, B2>=B1 %v; A>=B1 %v, A>=B2 %v; B1>=A %v, B2>=A %v\n", a, b1, b2, asg(b1, b2), asg(b2, b1), asg(a, b1), asg(a, b2), asg(b1, a), asg(b2, a))
			if asg(b1, b2) && asg(b2, b1) {
				if x.Law == "left" && asg(b1, a) != asg(b2, a) {
					fail("interchange", fmt.Sprintf("%s and %s accept each other, but only one of them accepts %s", b1, b2, a))
				}
				if x.Law != "left" && asg(a, b1) != asg(a, b2) {
					fail("interchange", fmt.Sprintf("%s and %s accept each other, but %s accepts only one of them", b1, b2, a))
				}
			}
		case "widen":
			a, w, b := x.A.Build(), x.W.Build(), x.B.Build()
			fmt.Printf("A = %s\nwider = %s\nB = %s\nA>=B %v, wider>=B %v\n", a, w, b, asg(a, b), asg(w, b))
			if asg(a, b) && !asg(w, b) {
				fail("widen", fmt.Sprintf("%s accepts %s but the wider %s does not", a, b, w))
			}
		case "mono":
			for _, cx := range contexts() {
				if cx.Name == x.Ctx {
					a, b := x.A.Build(), x.B.Build()
					fa, fb := cx.F(x.A).Build(), cx.F(x.B).Build()
					fmt.Printf("A = %s\nB = %s\nA>=B %v, %s >= %s %v\n", a, b, asg(a, b), fa, fb, asg(fa, fb))
					if asg(a, b) && !asg(fa, fb) {
						fail("monotone", fmt.Sprintf("%s accepts %s but %s does not accept %s", a, b, fa, fb))
					}
				}
			}
		case "law":
			a := x.A.Build()
			switch x.Law {
			case "any":
				if !asg(lat.A("Any").Build(), a) {
					fail("any-top", "Any does not accept "+a.String())
				}
			case "optional":
				o := lat.W("Optional", x.A).Build()
				fmt.Printf("%s accepts %s: %v, Undef: %v\n", o, a, asg(o, a), asg(o, lat.A("Undef").Build()))
				if !asg(o, a) || !asg(o, lat.A("Undef").Build()) {
					fail("optional-accepts", fmt.Sprintf("%s does not accept %s or Undef", o, a))
				}
			default:
				for i, vs := range []*lat.Spec{lat.Var(x.A, lat.Bln(-1)), lat.Var(lat.Bln(-1), x.A), lat.Var(x.A)} {
					if x.Law == fmt.Sprintf("variant%d", i) {
						v := vs.Build()
						fmt.Printf("%s accepts %s: %v\n", v, a, asg(v, a))
						if !asg(v, a) {
							fail("variant-member", fmt.Sprintf("%s does not accept its member %s", v, a))
						}
					}
				}
			}
		}
	}
}
