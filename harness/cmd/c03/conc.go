package main

// The concurrent first-question family (sixth wave, seeded change C03-m10).
//
// Every law of C03 speaks about "the answer of A to B": IsAssignable must be a function of its two operands. All other
// families ask their questions from one goroutine, so a type's lazily built caches (StructType.HashedMembers - the only
// one behind a lock in the pinned tree -, and whatever a change adds: an index of Enum values, a flattened Variant, the
// collected members of an Object type, a resolved alias) are always complete before the second question. Here each trial
// builds FRESH type objects that nobody has asked anything, releases 4-8 goroutines (forked contexts, px.Fork) that ask
// A<-B, B<-A and A.Equals(B) in rotated orders after small staggered delays, and compares every answer with the answers
// a single goroutine got from separately constructed copies.
//
// The trials run in a CHILD PROCESS (this binary re-executed with C03_CONC_CHILD set): an unsynchronised map makes the Go
// runtime abort the process (`fatal error: concurrent map read and map write`), which cannot be recovered. The child
// announces each trial on stdout before it starts; when it dies the parent reports the announced trial as a violation
// (clause concurrent-first-question) and restarts the child behind it.
//
// This is a stress test that supports the sequential theorems (they say nothing about the Go memory model): it sees a race
// only when the window is hit. Measured against C03-m10: see design_notes/C01_C03_seeded.md.

import (
	"bufio"
	"bytes"
	"encoding/json"
	"fmt"
	"os"
	"os/exec"
	"runtime"
	"strings"
	"sync"
	"sync/atomic"
	"time"

	"github.com/lyraproj/pcore/pcore"
	"github.com/lyraproj/pcore/px"
	"github.com/lyraproj/pcore/types"
	"verifharness/lat"
	"verifharness/lib"
)

// concTrial: the compact description of one trial (the replay input). The recipes are a function of it.
type concTrial struct {
	Kind    string `json:"kind"` // "conc"
	Shape   string `json:"shape"`
	N       int    `json:"n"`          // members / values
	Alt     int    `json:"alt"`        // which member types
	G       int    `json:"g"`          // goroutines
	Stagger int    `json:"stagger_ns"` // start delays are drawn from 0..Stagger
	Seed    uint64 `json:"seed"`       // delays and rotations
	Repeat  int    `json:"repeat,omitempty"`
	A       string `json:"a_text,omitempty"` // for the reader only
	B       string `json:"b_text,omitempty"`
}

var concShapes = []string{"struct-copy", "struct-wider", "struct-optional-tail", "struct-in-array", "struct-in-variant", "struct-in-optional",
	"struct-in-tuple", "struct-nested", "struct-hash-value", "variant-of-structs", "object-child", "object-twin", "alias-struct", "alias-system", "enum-long", "tuple-long", "variant-long"}

var concMemberTypes = []*lat.Spec{lat.Int(0, 5), lat.A("String"), lat.W("Optional", lat.Int(lat.Min, lat.Max)), lat.Enum(false, "a", "b"),
	lat.Arr(lat.Int(0, 9), 0, lat.Max), lat.A("FloatDefault"), lat.Bln(-1)}

// wider member types, index by index
var concWiderTypes = []*lat.Spec{lat.Int(lat.Min, lat.Max), lat.A("Scalar"), lat.W("Optional", lat.A("Numeric")), lat.A("String"),
	lat.Arr(lat.Int(lat.Min, lat.Max), 0, lat.Max), lat.A("Numeric"), lat.A("Scalar")}

func concStruct(n, alt int, wide bool, optTail bool) *lat.Spec {
	ms := make([]lat.Member, n)
	for i := range ms {
		k := (i + alt) % len(concMemberTypes)
		t := concMemberTypes[k]
		if wide {
			t = concWiderTypes[k]
		}
		kind := 0
		if i%5 == 4 {
			kind = 1
		}
		if optTail && i == n-1 {
			kind = 1
		}
		ms[i] = lat.Member{Name: fmt.Sprintf("m%04d", i), Kind: kind, T: t}
	}
	return lat.Struct(ms...)
}

func concAttrs(from, n, alt int) string {
	names := []string{"Integer[0,5]", "String", "Optional[Integer]", "Enum['a','b']", "Array[Integer[0,9]]", "Float", "Boolean"}
	var b strings.Builder
	for i := from; i < from+n; i++ {
		if i > from {
			b.WriteString(", ")
		}
		fmt.Fprintf(&b, "a%04d => %s", i, names[(i+alt)%len(names)])
	}
	return b.String()
}

func concStructText(n, alt int) string {
	names := []string{"Integer[0,5]", "String", "Optional[Integer]", "Enum['a','b']", "Array[Integer[0,9]]", "Float", "Boolean"}
	var b strings.Builder
	b.WriteString("Struct[{")
	for i := 0; i < n; i++ {
		if i > 0 {
			b.WriteString(", ")
		}
		fmt.Fprintf(&b, "m%04d => %s", i, names[(i+alt)%len(names)])
	}
	b.WriteString("}]")
	return b.String()
}

// specs: the recipe of the pair. A pair that needs both types from ONE set of declarations (Object types, aliases) is the
// recipe of a Tuple[A, B] (pairOfTuple) that is taken apart after the build.
func (t concTrial) specs() (a, b *lat.Spec, pairOfTuple bool) {
	n := t.N
	switch t.Shape {
	case "struct-copy":
		s := concStruct(n, t.Alt, false, false)
		return s, s, false
	case "struct-wider":
		return concStruct(n, t.Alt, true, false), concStruct(n, t.Alt, false, false), false
	case "struct-optional-tail":
		return concStruct(n+1, t.Alt, false, true), concStruct(n, t.Alt, false, false), false
	case "struct-in-array":
		return lat.Arr(concStruct(n, t.Alt, true, false), 0, lat.Max), lat.Arr(concStruct(n, t.Alt, false, false), 1, 3), false
	case "struct-in-variant":
		return lat.Var(lat.Int(0, 5), concStruct(n, t.Alt, true, false)), concStruct(n, t.Alt, false, false), false
	case "struct-in-optional":
		return lat.W("Optional", concStruct(n, t.Alt, false, false)), lat.W("NotUndef", concStruct(n, t.Alt, false, false)), false
	case "struct-in-tuple":
		s := concStruct(n, t.Alt, false, false)
		return lat.Tup(concStruct(n, t.Alt, true, false), s), lat.Tup(s, s), false
	case "struct-nested":
		return lat.Struct(lat.Member{Name: "x", Kind: 0, T: concStruct(n, t.Alt, true, false)}, lat.Member{Name: "y", Kind: 1, T: lat.A("Any")}),
			lat.Struct(lat.Member{Name: "x", Kind: 0, T: concStruct(n, t.Alt, false, false)}), false
	case "struct-hash-value":
		return lat.Hsh(lat.A("String"), concStruct(n, t.Alt, true, false), 0, lat.Max), lat.Hsh(lat.StrSz(1, 9), concStruct(n, t.Alt, false, false), 1, 2), false
	case "variant-of-structs":
		k := n/8 + 2
		vs := make([]*lat.Spec, k)
		for i := range vs {
			vs[i] = concStruct(8+i, t.Alt+i, false, false)
		}
		return lat.Var(vs...), lat.Var(vs[k/2:]...), false
	case "object-child":
		return lat.Decl("Tuple[@P, @C]",
			"type @P = Object[{attributes => {"+concAttrs(0, n, t.Alt)+"}}]",
			"type @C = Object[{parent => @P, attributes => {"+concAttrs(n, n/2+1, t.Alt)+"}}]"), nil, true
	case "object-twin":
		return lat.Decl("Tuple[@P, @Q]",
			"type @P = Object[{attributes => {"+concAttrs(0, n, t.Alt)+"}}]",
			"type @Q = Object[{attributes => {"+concAttrs(0, n, t.Alt)+"}}]"), nil, true
	case "alias-struct":
		return lat.Decl("Tuple[@T, @U]",
			"type @T = "+concStructText(n, t.Alt),
			"type @U = Variant[Undef, "+concStructText(n, t.Alt)+"]"), nil, true
	case "alias-system":
		return lat.Decl("Tuple[@T, @U]",
			"type @T = Variant[Integer, Array[@T], "+concStructText(n, t.Alt)+"]",
			"type @U = Variant[Integer[0,5], Array[@U], "+concStructText(n, t.Alt)+"]"), nil, true
	case "enum-long":
		vs := make([]string, n)
		ws := make([]string, n/2+1)
		for i := range vs {
			vs[i] = fmt.Sprintf("k%04d", i)
		}
		for i := range ws {
			ws[i] = fmt.Sprintf("K%04d", (i*2+t.Alt)%n)
		}
		return lat.Enum(true, vs...), lat.Enum(t.Alt%2 == 0, ws...), false
	case "tuple-long":
		ts, us := make([]*lat.Spec, n), make([]*lat.Spec, n)
		for i := range ts {
			k := (i + t.Alt) % len(concMemberTypes)
			ts[i], us[i] = concWiderTypes[k], concMemberTypes[k]
		}
		return lat.Tup(ts...), lat.Tup(us...), false
	case "variant-long":
		ts, us := make([]*lat.Spec, n), make([]*lat.Spec, n/2+1)
		for i := range ts {
			ts[i] = lat.Int(int64(10*i), int64(10*i+5))
		}
		for i := range us {
			us[i] = lat.Int(int64(20*i+1), int64(20*i+4))
		}
		return lat.Var(ts...), lat.Var(us...), false
	}
	panic("conc: unknown shape " + t.Shape)
}

func (t concTrial) build() (a, b px.Type) {
	sa, sb, pair := t.specs()
	if pair {
		tt := sa.Build().(*types.TupleType)
		return tt.Types()[0], tt.Types()[1]
	}
	return sa.Build(), sb.Build()
}

// concTrials: the trials of a run, a function of seed and tier. Many small types (the window is short but a trial is
// cheap), fewer large ones (a build of thousands of members keeps the window open for ~0.1 ms).
func concTrials(seed uint64, thorough bool) []concTrial {
	r := lib.NewRng(seed ^ 0x5eedc0c)
	type tier struct{ n, count int }
	sizes := []tier{{3, 600}, {16, 500}, {128, 300}, {1024, 120}, {4096, 24}}
	if thorough {
		sizes = []tier{{3, 4000}, {16, 3000}, {128, 2000}, {1024, 800}, {4096, 160}}
	}
	var out []concTrial
	for _, sz := range sizes {
		for i := 0; i < sz.count; i++ {
			shape := concShapes[(i+int(r.Intn(3)))%len(concShapes)]
			if i%3 == 0 {
				// the Struct against Struct question itself: a third of the trials
				shape = concShapes[i/3%3]
			}
			n := sz.n
			if strings.HasPrefix(shape, "object") || strings.HasPrefix(shape, "alias") {
				// declarations are parsed: keep them moderate
				if n > 256 {
					n = 256
				}
			}
			stagger := []int{0, 200, 1000, 5000, 20000, 100000}[r.Intn(6)]
			if n <= 16 && stagger > 5000 {
				stagger = 500
			}
			out = append(out, concTrial{Kind: "conc", Shape: shape, N: n, Alt: r.Intn(7), G: 4 + r.Intn(5), Stagger: stagger, Seed: r.Next()})
		}
	}
	// interleave the sizes (a run that is cut short by the deadline has seen all of them)
	if gcd(7919, len(out)) != 1 {
		return out
	}
	mixed := make([]concTrial, 0, len(out))
	for i := range out {
		mixed = append(mixed, out[(i*7919)%len(out)])
	}
	return mixed
}

func gcd(a, b int) int {
	for b != 0 {
		a, b = b, a%b
	}
	return a
}

type concAnswer struct {
	Q     int    `json:"q"` // 0: A<-B, 1: B<-A, 2: A.Equals(B)
	G     int    `json:"g"`
	Got   bool   `json:"got"`
	Want  bool   `json:"want"`
	Crash string `json:"crash,omitempty"`
}

func concAsk(q int, a, b px.Type) (res bool, crash string) {
	defer func() {
		if r := recover(); r != nil {
			crash = fmt.Sprintf("panic: %v", r)
		}
	}()
	switch q {
	case 0:
		return px.IsAssignable(a, b), ""
	case 1:
		return px.IsAssignable(b, a), ""
	}
	return a.Equals(b, nil), ""
}

// runConcTrial: reference answers from one goroutine on copies of their own, then the concurrent first questions on
// fresh objects. Returns the deviating answers.
func runConcTrial(c px.Context, t concTrial) (bad []concAnswer, texts [2]string) {
	ra, rb := t.build()
	var want [3]bool
	var wantCrash [3]string
	for q := 0; q < 3; q++ {
		want[q], wantCrash[q] = concAsk(q, ra, rb)
	}
	a, b := t.build()
	texts[0], texts[1] = short(ra.String()), short(rb.String())
	r := lib.NewRng(t.Seed)
	got := make([][3]bool, t.G)
	crash := make([][3]string, t.G)
	delays := make([]int, t.G)
	rots := make([]int, t.G)
	for g := 0; g < t.G; g++ {
		rots[g] = r.Intn(3)
		if t.Stagger > 0 {
			delays[g] = r.Intn(t.Stagger + 1)
		}
	}
	rots[0], delays[0] = 0, 0
	var ready int32
	var wg sync.WaitGroup
	wg.Add(t.G)
	for g := 0; g < t.G; g++ {
		g := g
		px.Fork(c, func(px.Context) {
			defer wg.Done()
			atomic.AddInt32(&ready, 1)
			for spins := 0; atomic.LoadInt32(&ready) < int32(t.G); spins++ {
				if spins > 2000 {
					runtime.Gosched()
				}
			}
			if d := delays[g]; d > 0 {
				for t0 := time.Now(); time.Since(t0) < time.Duration(d); {
				}
			}
			for i := 0; i < 3; i++ {
				q := (i + rots[g]) % 3
				got[g][q], crash[g][q] = concAsk(q, a, b)
			}
		})
	}
	wg.Wait()
	for g := 0; g < t.G; g++ {
		for q := 0; q < 3; q++ {
			if got[g][q] != want[q] || crash[g][q] != wantCrash[q] {
				bad = append(bad, concAnswer{Q: q, G: g, Got: got[g][q], Want: want[q], Crash: crash[g][q]})
			}
		}
	}
	return
}

func short(s string) string {
	if len(s) > 160 {
		return s[:150] + fmt.Sprintf("...(%d bytes)", len(s))
	}
	return s
}

type concChildParams struct {
	Trials   []concTrial `json:"trials"`
	From     int         `json:"from"`
	Deadline int         `json:"deadline_s"`
}

// concChild: the child process. Protocol on stdout: "T <i>" before trial i, "M <i> <json>" for deviating answers,
// "DONE <n>" at the end.
func concChild(paramFile string) {
	raw, err := os.ReadFile(paramFile)
	if err != nil {
		fmt.Println("ERR", err)
		os.Exit(3)
	}
	var p concChildParams
	if err := json.Unmarshal(raw, &p); err != nil {
		fmt.Println("ERR", err)
		os.Exit(3)
	}
	out := bufio.NewWriter(os.Stdout)
	start := time.Now()
	done := 0
	pcore.Do(func(c px.Context) {
		for i := p.From; i < len(p.Trials); i++ {
			if p.Deadline > 0 && time.Since(start) > time.Duration(p.Deadline)*time.Second {
				break
			}
			t := p.Trials[i]
			rep := t.Repeat
			if rep < 1 {
				rep = 1
			}
			fmt.Fprintf(out, "T %d\n", i)
			out.Flush()
			for k := 0; k < rep; k++ {
				bad, texts := runConcTrial(c, t)
				if len(bad) > 0 {
					js, _ := json.Marshal(map[string]interface{}{"bad": bad, "a": texts[0], "b": texts[1]})
					fmt.Fprintf(out, "M %d %s\n", i, js)
					out.Flush()
					break
				}
			}
			done++
		}
	})
	fmt.Fprintf(out, "DONE %d\n", done)
	out.Flush()
}

type concOutcome struct {
	trial  int
	what   string
	abort  bool
	a, b   string
	detail string
}

// runConcChild starts the child on trials[from:], returns the deviations it reported, the number of trials completed, and - when it
// died - the trial that was running.
func runConcChild(cfg *lib.Config, trials []concTrial, from, deadline int) (outs []concOutcome, completed int, next int, err error) {
	pf := cfg.Out + "/conc_params.json"
	raw, _ := json.Marshal(concChildParams{Trials: trials, From: from, Deadline: deadline})
	if err := os.WriteFile(pf, raw, 0o644); err != nil {
		return nil, 0, len(trials), err
	}
	exe, err := os.Executable()
	if err != nil {
		return nil, 0, len(trials), err
	}
	cmd := exec.Command(exe)
	cmd.Env = append(os.Environ(), "C03_CONC_CHILD="+pf)
	var so, se bytes.Buffer
	cmd.Stdout, cmd.Stderr = &so, &se
	if err := cmd.Start(); err != nil {
		return nil, 0, len(trials), err
	}
	fin := make(chan error, 1)
	go func() { fin <- cmd.Wait() }()
	var werr error
	timedOut := false
	select {
	case werr = <-fin:
	case <-time.After(time.Duration(deadline+60) * time.Second):
		_ = cmd.Process.Kill()
		werr = <-fin
		timedOut = true
	}
	last, finished := -1, false
	for _, l := range strings.Split(so.String(), "\n") {
		switch {
		case strings.HasPrefix(l, "T "):
			fmt.Sscanf(l, "T %d", &last)
		case strings.HasPrefix(l, "DONE "):
			fmt.Sscanf(l, "DONE %d", &completed)
			finished = true
		case strings.HasPrefix(l, "M "):
			var i int
			fmt.Sscanf(l, "M %d", &i)
			js := l[strings.Index(l[2:], " ")+3:]
			var m struct {
				Bad  []concAnswer `json:"bad"`
				A, B string
			}
			_ = json.Unmarshal([]byte(js), &m)
			qs := []string{"IsAssignable(A, B)", "IsAssignable(B, A)", "A.Equals(B)"}
			what := ""
			if len(m.Bad) > 0 {
				x := m.Bad[0]
				what = fmt.Sprintf("goroutine %d of %d got %s = %v", x.G, trials[i].G, qs[x.Q], x.Got)
				if x.Crash != "" {
					what += " (" + x.Crash + ")"
				}
				what += fmt.Sprintf(", a single goroutine gets %v from separately constructed copies (%d deviating answers)", x.Want, len(m.Bad))
			}
			outs = append(outs, concOutcome{trial: i, what: what, a: m.A, b: m.B})
		}
	}
	if finished {
		return outs, completed, len(trials), nil
	}
	if last < 0 {
		return outs, 0, len(trials), fmt.Errorf("the child did not start a trial: %v: %s", werr, tail(se.String(), 600))
	}
	completed = last - from
	what := "the child process ended without finishing: " + fmt.Sprint(werr)
	if timedOut {
		what = "the child process hung (killed at the deadline)"
	}
	detail := fatalSummary(se.String())
	outs = append(outs, concOutcome{trial: last, what: what, abort: true, detail: detail})
	return outs, completed, last + 1, nil
}

func tail(s string, n int) string {
	if len(s) > n {
		return s[len(s)-n:]
	}
	return s
}

// fatalSummary: the runtime's message and the first frames of the library on the stack of the goroutine that hit it
func fatalSummary(stderr string) string {
	lines := strings.Split(stderr, "\n")
	msg := ""
	var frames []string
	for i, l := range lines {
		if msg == "" && (strings.HasPrefix(l, "fatal error:") || strings.HasPrefix(l, "panic:") || strings.Contains(l, "DATA RACE")) {
			msg = strings.TrimSpace(l)
			for _, f := range lines[i+1:] {
				if strings.HasPrefix(f, "github.com/lyraproj/pcore/") && len(frames) < 4 {
					if k := strings.Index(f, "("); k > 0 {
						frames = append(frames, strings.TrimPrefix(f[:strings.LastIndex(f, "(")], "github.com/lyraproj/pcore/"))
					}
				}
				if f == "" && len(frames) > 0 {
					break
				}
			}
		}
	}
	if msg == "" {
		return tail(stderr, 300)
	}
	return msg + " in " + strings.Join(frames, " < ")
}

// startConcurrentFirstQuestions runs the family next to the caller (the child process does the work); the function it returns
// waits for the end and merges what was found into the result, violations first.
func startConcurrentFirstQuestions(cfg *lib.Config, build func(*lat.Spec) px.Type) func(res *lib.Result) {
	cres := lib.NewResult("C03")
	done := make(chan bool, 1)
	go func() {
		defer func() {
			if r := recover(); r != nil {
				cres.Violate(lib.Violation{Clause: "concurrent-first-question", What: fmt.Sprintf("the runner of the concurrent family failed: %v", r),
					Input: map[string]interface{}{"kind": "conc-setup"}, Tags: []string{"conc:setup"}})
			}
			done <- true
		}()
		concurrentFirstQuestions(cfg, cres)
	}()
	return func(res *lib.Result) {
		<-done
		res.Violations = append(append([]lib.Violation{}, cres.Violations...), res.Violations...)
		if len(res.Violations) > 300 {
			res.Violations = res.Violations[:300]
		}
		for k, v := range cres.Distribution {
			res.Distribution[k] += v
		}
		for k, v := range cres.Extra {
			res.Extra[k] = v
		}
		res.Evaluations += cres.Evaluations
	}
}

// concurrentFirstQuestions: the family, from the parent's side (no use of the library from this goroutine: the texts of the
// types come from the child, or from the recipe when the child died).
func concurrentFirstQuestions(cfg *lib.Config, res *lib.Result) {
	trials := concTrials(cfg.Seed, cfg.Thorough())
	deadline := 25
	if cfg.Thorough() {
		deadline = 240
	}
	start := time.Now()
	from, restarts, total := 0, 0, 0
	for from < len(trials) && restarts < 4 {
		left := deadline - int(time.Since(start).Seconds())
		if left < 2 {
			break
		}
		outs, completed, next, err := runConcChild(cfg, trials, from, left)
		if err != nil {
			res.Violate(lib.Violation{Clause: "concurrent-first-question", What: "the child process of the concurrent family could not be run: " + err.Error(),
				Input: map[string]interface{}{"kind": "conc-setup"}, Tags: []string{"conc:setup"}})
			return
		}
		total += completed
		for _, o := range outs {
			t := trials[o.trial]
			if o.a == "" {
				// the child died: the recipes stand for the texts
				sa, sb, pair := t.specs()
				o.a = short(sa.String())
				if !pair {
					o.b = short(sb.String())
				} else {
					o.b = "(second slot of the Tuple)"
				}
			}
			t.A, t.B = o.a, o.b
			t.Repeat = 200
			what := fmt.Sprintf("fresh types asked for the first time by %d goroutines at once (shape %s, %d members): A = %s, B = %s: %s", t.G, t.Shape, t.N, o.a, o.b, o.what)
			tag := "conc:answer:" + t.Shape
			if o.abort {
				what += ": " + o.detail
				tag = "conc:abort:" + t.Shape
			}
			res.Violate(lib.Violation{Clause: "concurrent-first-question", What: what, Input: t, Tags: []string{tag}})
		}
		if next < len(trials) {
			restarts++
		}
		from = next
	}
	res.Evaluations += total * 3
	res.Distribution["conc.trials"] += total
	for i := 0; i < total && i < len(trials); i++ {
		res.Distribution["conc.shape."+trials[i].Shape]++
	}
	res.Extra["conc-trials-completed"] = total
	res.Extra["conc-trials-planned"] = len(trials)
	res.Extra["conc-seconds"] = int(time.Since(start).Seconds())
	res.Extra["conc-cpus"] = runtime.NumCPU()
}

// replayConc: the recorded trial, repeated on fresh types in a child
func replayConc(cfg *lib.Config, res *lib.Result, in interface{}) {
	var t concTrial
	lib.Remarshal(in, &t)
	if t.Repeat < 1 {
		t.Repeat = 200
	}
	outs, _, _, err := runConcChild(cfg, []concTrial{t}, 0, 120)
	if err != nil {
		fmt.Println("could not run the child:", err)
		return
	}
	fmt.Printf("shape %s, %d members, %d goroutines, %d repetitions on fresh types: %d deviation(s)\n", t.Shape, t.N, t.G, t.Repeat, len(outs))
	for _, o := range outs {
		what := o.what
		if o.abort {
			what += ": " + o.detail
		}
		fmt.Println("FAILS: " + what)
		res.Violate(lib.Violation{Clause: "concurrent-first-question", What: what, Input: in})
	}
}
