// Histories in which OTHER public operations touch the cached types of a value between the inference and the
// question of the property.
//
// "Whenever a type T accepts the detailed type inferred for a value, the value is an instance of T, and conversely
// for values that contain no undef-valued hash entry" is a statement about px.IsAssignable(T, DetailedValueType(v))
// and px.IsInstance(T, v) at every moment.  The detailed type of an Array / Hash is an object cached in the value
// (and the detailed types of its elements are parts of the detailed type of every collection that holds it), and
// that object is handed to every operation that describes or compares types: a failed px.AssertInstance builds its
// message from DetailedValueType(v) (px.MismatchError -> px.DescribeMismatch), px.AssertType / px.DescribeMismatch
// get it as the actual type, String / ToKey / Equals / CommonType / Generalize read it.  The family `ask` puts the
// question (operation `accepts`: both directions of the clause, hist.go relationC), lets one of those operations
// touch the value, a collection that holds it, or its detailed type, and the question of EVERY earlier `accepts`
// is put again after every operation (tag history-changed when an answer that satisfied the clause stops doing so);
// further questions are put for the first time after the touch.
//
//	M  Model/InferAsk.v: qrun (the cache model of InferHist.v + the questions and the asserting calls, a failed
//	   px.AssertInstance fills the detailedType fields on its way) against the types held at the end and the answers
//	   as last given (cases_ask_*); by C04_history_ask_pure every answer is the pure function of value and type.
package main

import (
	"verifharness/lat"
	"verifharness/lib"
)

func askCasesFile() *lib.CasesFile {
	return &lib.CasesFile{Imports: []string{"Model.Base", "Model.Ty", "Model.Lattice", "Model.Infer", "Model.InferHist", "Model.InferAsk", "Corr.CorrC01", "Corr.CorrC04"},
		Typ: "list node * list qop * (list ty * list (bool * bool))", Obligations: map[string]string{"ask_model": "ask_mismatches orc cases"}}
}

func st(ms ...lat.Member) *lat.Spec        { return lat.Struct(ms...) }
func req(n string, t *lat.Spec) lat.Member { return lat.Member{Name: n, Kind: 0, T: t} }
func opt(n string, t *lat.Spec) lat.Member { return lat.Member{Name: n, Kind: 1, T: t} }

// askTypes: the types the question is put with and the asserting calls fail (or pass) against - Struct types that
// name all, some or none of the keys a, b, c (required / optional), Hash types, the same inside Variant / Optional /
// NotUndef, and Tuple / Array types for the arrays
func askTypes() []*lat.Spec {
	I, S, Any := lat.Int(lat.Min, lat.Max), lat.A("String"), lat.A("Any")
	return []*lat.Spec{
		st(req("a", I), req("b", S)),                                                             // 0
		st(req("a", I), opt("b", S)),                                                             // 1
		st(req("a", I), req("b", I)),                                                             // 2
		st(req("a", I)),                                                                          // 3
		st(opt("c", I)),                                                                          // 4
		st(opt("a", I), opt("c", S)),                                                             // 5
		st(req("a", lat.Int(1, 1)), req("b", S)),                                                 // 6
		st(),                                                                                     // 7
		st(req("a", Any), req("b", Any), req("c", Any)),                                          // 8
		st(opt("a", Any), opt("b", Any)),                                                         // 9
		st(req("b", S), req("a", I)),                                                             // 10
		st(req("a", I), req("b", S), opt("c", lat.A("Undef"))),                                   // 11
		st(opt("a", S), opt("b", I), opt("c", I)),                                                // 12
		lat.Hsh(S, lat.A("ScalarData"), 0, lat.Max),                                              // 13
		lat.Hsh(S, I, 0, lat.Max),                                                                // 14
		lat.Hsh(lat.Enum(false, "a", "b"), Any, 0, 2),                                            // 15
		lat.Var(st(opt("c", I)), lat.Arr(I, 0, lat.Max)),                                         // 16
		lat.W("Optional", st(req("a", I), req("b", I))),                                          // 17
		lat.W("NotUndef", st(opt("a", I), opt("c", S))),                                          // 18
		lat.Tup(I, S), lat.Tup(I, I), lat.Arr(lat.A("ScalarData"), 0, lat.Max), lat.Arr(I, 0, 1), // 19-22
		st(req("a", lat.Tup(I, S)), opt("b", st(opt("c", I)))), // 23
		st(req("a", st(req("a", I), req("b", I)))),             // 24
		lat.A("Any"),
	}
}

// askRandomTypes: for the random graphs (hash keys are the strings a..h)
func askRandomTypes() []*lat.Spec {
	Any, S, I := lat.A("Any"), lat.A("String"), lat.Int(lat.Min, lat.Max)
	out := askTypes()
	out = append(out, lat.A("Data"),
		st(opt("a", Any), opt("b", Any), opt("c", Any), opt("d", Any)),
		st(opt("e", Any), opt("f", Any), opt("g", Any), opt("h", Any)),
		st(req("a", S), opt("b", S)), st(req("b", Any)), st(req("c", Any), opt("d", I)), st(opt("h", I)),
		lat.Hsh(S, Any, 0, lat.Max), lat.Hsh(lat.A("Scalar"), Any, 1, 3),
		lat.Arr(st(opt("a", Any), opt("b", Any)), 0, lat.Max), lat.Arr(st(opt("c", I)), 0, lat.Max), lat.Arr(Any, 0, lat.Max),
		lat.Arr(lat.Arr(st(opt("d", Any)), 0, 4), 0, 4), lat.Tup(Any, Any), lat.Tup(st(opt("a", Any)), Any),
		lat.Hsh(S, st(opt("a", Any), opt("c", Any)), 0, lat.Max), lat.W("Sensitive", st(opt("a", Any))),
		lat.Var(st(req("a", Any)), st(req("b", Any)), lat.Arr(Any, 0, 2)))
	return out
}

// askValues: the values the question is about - hashes whose detailed type is a Struct (non-empty string keys), with an
// undef-valued entry (the exclusion of the converse), with nested hashes and arrays, a hash whose detailed type is a Hash
// type, the empty hash, and arrays
func askValues() []*lat.VSpec {
	I, S, A, H := lat.VI, lat.VS, lat.VA, lat.VH
	return []*lat.VSpec{
		H(S("a"), I(1), S("b"), S("x")),
		H(S("a"), I(1)),
		H(S("a"), I(1), S("b"), I(2), S("c"), I(3)),
		H(S("b"), S("x"), S("a"), I(1)),
		H(S("a"), lat.VU(), S("b"), I(1)),
		H(S("a"), A(I(1), S("x")), S("b"), H(S("c"), I(1))),
		H(S("a"), H(S("a"), I(1), S("b"), S("x"))),
		H(S("c"), I(1)),
		H(S("a"), I(1), I(1), S("x")),
		H(),
		A(I(1), S("x")),
		A(I(1)),
		A(H(S("a"), I(1), S("b"), S("x")), H(S("c"), I(2))),
		H(S("a"), S("x"), S("b"), I(1), S("c"), lat.VF(2.5)),
	}
}

// askHistories: value x (its own object), a parent that holds it (5 shapes), an optional inference first, a round of
// questions about x, one touching sequence (8 kinds) on x or the parent with a type that names some of its keys, a
// second round of questions about x and the parent.  The failing type, the sets of questions and the inference that
// comes first rotate.
func askHistories() []*history {
	ts := askTypes()
	nT := len(ts)
	var out []*history
	n := 0
	for _, xv := range askValues() {
		for w := 0; w < 5; w++ {
			for f := 0; f < 13; f++ { // the Struct types: against them the describer walks the members
				for touch := 0; touch < 8; touch++ {
					n++
					b := newHB("ask")
					x := b.val(xv)
					p := x
					wrap := func(t *lat.Spec) *lat.Spec { return t }
					switch w {
					case 1:
						p = b.arr(x, b.val(lat.VA(lat.VI(7))))
						wrap = func(t *lat.Spec) *lat.Spec { return lat.Arr(t, 0, lat.Max) }
					case 2:
						p = b.hash(b.leaf(lat.VS("p")), x)
						wrap = func(t *lat.Spec) *lat.Spec { return st(req("p", t)) }
					case 3:
						p = b.sens(x)
						wrap = func(t *lat.Spec) *lat.Spec { return lat.W("Sensitive", t) }
					case 4:
						p = b.arr(b.arr(x), x)
						wrap = func(t *lat.Spec) *lat.Spec { return lat.Tup(lat.Arr(t, 1, 1), t) }
					}
					switch n % 3 { // what was inferred before anything is asked
					case 1:
						b.detailed(x)
					case 2:
						b.ptype(p)
						b.detailed(p)
					}
					ask := func(from, count int) {
						for i := 0; i < count; i++ {
							b.accepts(b.lit(ts[(from+i*5)%nT]), x)
						}
					}
					// the types inferred for an EQUAL value that is another object: x is an instance of them and they accept the
					// detailed type of x exactly as long as nothing has written into the cached type of x
					x2 := b.val(xv)
					d2, g2 := b.detailed(x2), b.ptype(x2)
					if n%4 != 0 { // every fourth history: nothing asked before the touch
						ask(f, 5)
						b.accepts(d2, x)
						b.accepts(g2, x)
					}
					F := b.lit(wrap(ts[f]))
					switch touch {
					case 0:
						b.op(hOp{Op: "assert", A: &hRef{F}, N: p})
					case 1:
						b.op(hOp{Op: "mismatch", A: &hRef{F}, N: p})
					case 2:
						d := b.detailed(p)
						b.op(hOp{Op: "asserttype", A: &hRef{F}, B: &hRef{d}})
					case 3:
						d := b.detailed(p)
						b.op(hOp{Op: "describe", A: &hRef{F}, B: &hRef{d}})
						b.op(hOp{Op: "describe", A: &hRef{d}, B: &hRef{F}})
					case 4:
						d := b.detailed(x)
						b.op(hOp{Op: "string", A: &hRef{d}})
						b.op(hOp{Op: "tokey", A: &hRef{d}})
						b.op(hOp{Op: "equals", A: &hRef{d}, B: &hRef{b.lit(ts[f])}})
						b.op(hOp{Op: "equals", A: &hRef{b.lit(ts[f])}, B: &hRef{d}})
						b.op(hOp{Op: "generic", A: &hRef{d}})
					case 5:
						d := b.detailed(p)
						b.op(hOp{Op: "instance", A: &hRef{F}, N: p})
						b.op(hOp{Op: "assignable", A: &hRef{F}, B: &hRef{d}})
						b.op(hOp{Op: "assignable", A: &hRef{d}, B: &hRef{F}})
						b.op(hOp{Op: "vstring", N: p})
						b.op(hOp{Op: "vtokey", N: p})
						b.op(hOp{Op: "vequals", N: p, M: x})
					case 6:
						b.op(hOp{Op: "assert", A: &hRef{F}, N: p})
						b.op(hOp{Op: "assert", A: &hRef{b.lit(ts[(f+1)%13])}, N: x})
						b.op(hOp{Op: "assert", A: &hRef{b.lit(wrap(ts[(f+4)%13]))}, N: p})
					default:
						d := b.detailed(x)
						c := b.common(d, b.lit(ts[f]))
						b.common(b.lit(ts[(f+2)%13]), d)
						b.generalize(d)
						b.generalize(c)
					}
					ask(f+1+n%7, 6)
					b.accepts(d2, x)
					b.accepts(F, p)
					b.accepts(b.lit(wrap(ts[(f+3)%nT])), p)
					out = append(out, b.h)
				}
			}
		}
	}
	return out
}
