// Histories of inference on values that share parts.
//
// The inferred types of Array and Hash values are computed lazily and cached in the value, and a value that is
// an element of several collections is one Go object.  The property ("every value is an instance of its own
// inferred type", "the common type accepts both operands", "the generalisation accepts the type") speaks about
// every value and type at every moment, so it is evaluated here over HISTORIES: a graph of value objects with
// shared parts, a sequence of operations (v.PType(), DetailedValueType(v), CommonType(a, b), Generalize(a), and
// read-only calls of the public API) whose type operands are the very objects earlier operations returned, and
// after EVERY operation the stated relation of EVERY earlier operation is evaluated again on the objects it
// returned.
//
// Since round 5 also the QUESTION of the detailed clause is an operation (`accepts`), and the asserting / describing
// calls that are handed the cached detailed type are steps (ask.go).
//
//	D  the relation of operation j fails after operation k >= j   (k > j: tag history-changed)
//	M  the types held by the results at the END of the history, decoded through the hook, against
//	   `run` of coq/Model/InferHist.v (cache model; pure by C04_history_pure)
package main

import (
	"encoding/json"
	"fmt"
	"strings"
	"time"

	"github.com/lyraproj/issue/issue"
	"github.com/lyraproj/pcore/px"
	"github.com/lyraproj/pcore/types"
	"verifharness/lat"
	"verifharness/lib"
)

// hNode is one value object. Collections refer to EARLIER objects by index: the same object can be an element
// of several collections.
type hNode struct {
	K string     `json:"k"`           // leaf | arr | hash | sens
	V *lat.VSpec `json:"v,omitempty"` // leaf: a scalar or a type used as a value
	C []int      `json:"c,omitempty"` // arr: elements; hash: k0,v0,k1,v1,...; sens: the wrapped object
}

// hRef is a type operand: the object operation R returned.
type hRef struct {
	R int `json:"r"`
}

type hOp struct {
	// type (build the literal type T), ptype, detailed (of object N), common (A, B), generalize (A), and the
	// read-only calls string, tokey, generic, equals, assignable (A, B), instance (A, object N);
	// the question accepts (A, object N): IsAssignable(A, DetailedValueType(v)) against IsInstance(A, v);
	// the asserting and describing calls (ask.go): assert, mismatch (A, object N), asserttype, describe (A, B);
	// read-only calls on values: vstring, vtokey (object N), vequals (objects N, M)
	Op string    `json:"op"`
	N  int       `json:"n,omitempty"`
	M  int       `json:"m,omitempty"`
	T  *lat.Spec `json:"t,omitempty"`
	A  *hRef     `json:"a,omitempty"`
	B  *hRef     `json:"b,omitempty"`
}

type history struct {
	Kind   string  `json:"kind"` // "history"
	Family string  `json:"family"`
	Nodes  []hNode `json:"nodes"`
	Ops    []hOp   `json:"ops"`
}

// ---- building histories ----

type hb struct{ h *history }

func newHB(family string) *hb { return &hb{&history{Kind: "history", Family: family}} }

func (b *hb) node(n hNode) int      { b.h.Nodes = append(b.h.Nodes, n); return len(b.h.Nodes) - 1 }
func (b *hb) leaf(v *lat.VSpec) int { return b.node(hNode{K: "leaf", V: v}) }
func (b *hb) arr(cs ...int) int     { return b.node(hNode{K: "arr", C: append([]int{}, cs...)}) }
func (b *hb) hash(kvs ...int) int   { return b.node(hNode{K: "hash", C: append([]int{}, kvs...)}) }
func (b *hb) sens(c int) int        { return b.node(hNode{K: "sens", C: []int{c}}) }

// val turns a recipe into objects: every collection becomes an object of its own
func (b *hb) val(v *lat.VSpec) int {
	switch v.K {
	case "Arr", "Hash":
		cs := make([]int, len(v.Sub))
		for i, e := range v.Sub {
			cs[i] = b.val(e)
		}
		if v.K == "Arr" {
			return b.arr(cs...)
		}
		return b.hash(cs...)
	case "Sensitive":
		return b.sens(b.val(v.Sub[0]))
	}
	return b.leaf(v)
}

func (b *hb) op(o hOp) int        { b.h.Ops = append(b.h.Ops, o); return len(b.h.Ops) - 1 }
func (b *hb) ptype(n int) int     { return b.op(hOp{Op: "ptype", N: n}) }
func (b *hb) detailed(n int) int  { return b.op(hOp{Op: "detailed", N: n}) }
func (b *hb) lit(t *lat.Spec) int { return b.op(hOp{Op: "type", T: t}) }
func (b *hb) common(a, c int) int {
	return b.op(hOp{Op: "common", A: &hRef{a}, B: &hRef{c}})
}
func (b *hb) generalize(a int) int { return b.op(hOp{Op: "generalize", A: &hRef{a}}) }
func (b *hb) accepts(t, n int) int { return b.op(hOp{Op: "accepts", A: &hRef{t}, N: n}) }

func (h *history) clone(nOps int) *history {
	return &history{Kind: h.Kind, Family: h.Family, Nodes: h.Nodes, Ops: h.Ops[:nOps]}
}

// ---- running a history on the implementation ----

type hState struct {
	h      *history
	vals   []px.Value
	res    []px.Type // what operation k returned (nil for the read-only calls)
	held   []bool    // the stated relation of operation k held when it was made
	failed bool
	ans    [][2]bool // accepts: the answers (accepts the detailed type, is an instance) as last asked; assert / asserttype: passed
	fault  bool      // a describing call ended in a runtime fault (C19's matter: counted, the history is kept out of the model tie)
}

func (h *history) wellFormed() bool {
	for i, n := range h.Nodes {
		for _, c := range n.C {
			if c < 0 || c >= i {
				return false
			}
		}
		switch n.K {
		case "leaf":
			if n.V == nil {
				return false
			}
		case "hash":
			if len(n.C)%2 != 0 {
				return false
			}
		case "sens":
			if len(n.C) != 1 {
				return false
			}
		}
	}
	for k, o := range h.Ops {
		if usesNode(o.Op) && (o.N < 0 || o.N >= len(h.Nodes)) {
			return false
		}
		if o.Op == "vequals" && (o.M < 0 || o.M >= len(h.Nodes)) {
			return false
		}
		for _, r := range []*hRef{o.A, o.B} {
			if r != nil && (r.R < 0 || r.R >= k || !returnsType(h.Ops[r.R].Op)) {
				return false
			}
		}
		switch o.Op {
		case "type":
			if o.T == nil {
				return false
			}
		case "common", "equals", "assignable", "asserttype", "describe":
			if o.A == nil || o.B == nil {
				return false
			}
		case "generalize", "string", "tokey", "generic", "instance", "accepts", "assert", "mismatch":
			if o.A == nil {
				return false
			}
		}
	}
	return true
}

func usesNode(op string) bool {
	switch op {
	case "ptype", "detailed", "instance", "accepts", "assert", "mismatch", "vstring", "vtokey", "vequals":
		return true
	}
	return false
}

func returnsType(op string) bool {
	switch op {
	case "type", "ptype", "detailed", "common", "generalize":
		return true
	}
	return false
}

func (h *history) buildValues() (vals []px.Value) {
	vals = make([]px.Value, len(h.Nodes))
	for i, n := range h.Nodes {
		switch n.K {
		case "leaf":
			vals[i] = n.V.Build()
		case "arr":
			es := make([]px.Value, len(n.C))
			for j, c := range n.C {
				es[j] = vals[c]
			}
			vals[i] = types.WrapValues(es)
		case "hash":
			es := make([]*types.HashEntry, 0, len(n.C)/2)
			for j := 0; j+1 < len(n.C); j += 2 {
				es = append(es, types.WrapHashEntry(vals[n.C[j]], vals[n.C[j+1]]))
			}
			vals[i] = types.WrapHash(es)
		case "sens":
			vals[i] = types.WrapSensitive(vals[n.C[0]])
		default:
			panic("unknown node kind " + n.K)
		}
	}
	return
}

func clauseOf(op string) string {
	switch op {
	case "ptype":
		return "infer"
	case "detailed":
		return "detailed"
	case "common":
		return "common"
	case "generalize":
		return "generalize"
	case "accepts":
		return "accepts" // detailed_sound / detailed_complete: relation() says which
	}
	return ""
}

func (s *hState) opText(k int) string {
	o := s.h.Ops[k]
	ref := func(r *hRef) string { return fmt.Sprintf("#%d", r.R) }
	switch o.Op {
	case "type":
		return fmt.Sprintf("#%d = the type %s", k, tyText(s.res[k]))
	case "ptype":
		return fmt.Sprintf("#%d = (%s).PType()", k, lat.ValText(s.vals[o.N]))
	case "detailed":
		return fmt.Sprintf("#%d = DetailedValueType(%s)", k, lat.ValText(s.vals[o.N]))
	case "common":
		return fmt.Sprintf("#%d = CommonType(%s, %s)", k, ref(o.A), ref(o.B))
	case "generalize":
		return fmt.Sprintf("#%d = Generalize(%s)", k, ref(o.A))
	case "instance":
		return fmt.Sprintf("IsInstance(%s, %s)", ref(o.A), lat.ValText(s.vals[o.N]))
	case "accepts":
		return fmt.Sprintf("ask: IsAssignable(%s, DetailedValueType(v)) / IsInstance(%s, v) for v = %s", ref(o.A), ref(o.A), lat.ValText(s.vals[o.N]))
	case "assert":
		return fmt.Sprintf("AssertInstance(%s, %s) [%s]", ref(o.A), lat.ValText(s.vals[o.N]), passedText(s.ans[k][0]))
	case "mismatch":
		return fmt.Sprintf("MismatchError(%s, %s)", ref(o.A), lat.ValText(s.vals[o.N]))
	case "asserttype":
		return fmt.Sprintf("AssertType(%s, %s) [%s]", ref(o.A), ref(o.B), passedText(s.ans[k][0]))
	case "describe":
		return fmt.Sprintf("DescribeMismatch(%s, %s)", ref(o.A), ref(o.B))
	case "vstring", "vtokey":
		return fmt.Sprintf("%s(%s)", o.Op, lat.ValText(s.vals[o.N]))
	case "vequals":
		return fmt.Sprintf("(%s).Equals(%s)", lat.ValText(s.vals[o.N]), lat.ValText(s.vals[o.M]))
	case "equals", "assignable":
		return fmt.Sprintf("%s(%s, %s)", o.Op, ref(o.A), ref(o.B))
	}
	return fmt.Sprintf("%s(%s)", o.Op, ref(o.A))
}

// exec makes operation k
func (s *hState) exec(k int) (crash string) {
	o := s.h.Ops[k]
	var t px.Type
	arg := func(r *hRef) px.Type { return s.res[r.R] }
	_, crash = lat.Guarded(func() bool {
		switch o.Op {
		case "type":
			t = o.T.Build()
		case "ptype":
			t = s.vals[o.N].PType()
		case "detailed":
			t = px.DetailedValueType(s.vals[o.N])
		case "common":
			t = types.VerifCommonType(arg(o.A), arg(o.B))
		case "generalize":
			t = px.Generalize(arg(o.A))
		case "string":
			_ = arg(o.A).String()
		case "tokey":
			_ = px.ToKey(arg(o.A))
		case "generic":
			_ = px.GenericType(arg(o.A))
		case "equals":
			_ = arg(o.A).Equals(arg(o.B), nil)
		case "assignable":
			_ = px.IsAssignable(arg(o.A), arg(o.B))
		case "instance":
			_ = px.IsInstance(arg(o.A), s.vals[o.N])
		case "accepts":
			// the question is put by relation(k), and again after every later operation
		case "assert":
			s.ans[k][0] = passes(func() { px.AssertInstance(`h`, arg(o.A), s.vals[o.N]) })
		case "mismatch":
			_ = px.MismatchError(`h`, arg(o.A), s.vals[o.N])
		case "asserttype":
			s.ans[k][0] = passes(func() { px.AssertType(`h`, arg(o.A), arg(o.B)) })
		case "describe":
			_ = px.DescribeMismatch(`h`, arg(o.A), arg(o.B))
		case "vstring": // a reported error (a Sensitive is no hash key) is an answer of these calls, not a fault
			_ = passes(func() { _ = s.vals[o.N].String() })
		case "vtokey":
			_ = passes(func() { _ = px.ToKey(s.vals[o.N]) })
		case "vequals":
			_ = passes(func() { _ = s.vals[o.N].Equals(s.vals[o.M], nil) })
		default:
			panic("unknown operation " + o.Op)
		}
		return true
	})
	if crash == "" && returnsType(o.Op) && t == nil {
		crash = "nil type returned"
	}
	s.res[k] = t
	return
}

// passes runs an asserting call: false when it ended in the reported type mismatch (the expected way to fail), any
// other panic goes on to the caller
func passes(f func()) (ok bool) {
	defer func() {
		if r := recover(); r != nil {
			if _, rep := r.(issue.Reported); !rep {
				panic(r)
			}
			ok = false
		}
	}()
	f()
	return true
}

func passedText(ok bool) string {
	if ok {
		return "passes"
	}
	return "reports a type mismatch"
}

func describing(op string) bool {
	switch op {
	case "assert", "mismatch", "asserttype", "describe":
		return true
	}
	return false
}

// relation evaluates what the property states about operation j on the objects the operation returned
func (s *hState) relation(j int) (ok bool, what string) {
	ok, what, _, _ = s.relationC(j)
	return
}

// relationC: the same with the clause and, for a question that fails when it is first put, the tags of its input class
func (s *hState) relationC(j int) (ok bool, what string, clause string, tags func() []string) {
	o := s.h.Ops[j]
	clause = clauseOf(o.Op)
	tags = func() []string { return s.freshTags(j) }
	if o.Op == "accepts" {
		v, T := s.vals[o.N], s.res[o.A.R]
		var dt px.Type
		asg, c1 := gBool(func() bool { dt = px.DetailedValueType(v); return px.IsAssignable(T, dt) })
		ins, c2 := gBool(func() bool { return px.IsInstance(T, v) })
		if c1 != "" || c2 != "" {
			s.fault = true
			return false, fmt.Sprintf("T=%s v=%s: %s %s", tyText(T), lat.ValText(v), c1, c2), "crash", func() []string { return []string{"crash-detailed-check"} }
		}
		s.ans[j] = [2]bool{asg, ins}
		switch {
		case asg && !ins:
			return false, fmt.Sprintf("%s accepts %s, the detailed type of %s, but the value is not an instance of it", tyText(T), tyText(dt), lat.ValText(v)),
				"detailed_sound", func() []string { return soundTags(types.VerifDecodeType(T), types.VerifDecodeType(dt)) }
		case ins && !asg && !hasUndefEntry(types.VerifDecodeValue(v)):
			return false, fmt.Sprintf("%s is an instance of %s, which does not accept its detailed type %s", lat.ValText(v), tyText(T), tyText(dt)),
				"detailed_complete", func() []string {
					return completeTags(types.VerifDecodeType(T), types.VerifDecodeType(dt), types.VerifDecodeValue(v))
				}
		}
		return true, "", "detailed_sound", tags
	}
	ok, what = s.relationT(j)
	return
}

func (s *hState) relationT(j int) (ok bool, what string) {
	o := s.h.Ops[j]
	r := s.res[j]
	if r == nil {
		return true, ""
	}
	switch o.Op {
	case "ptype":
		v := s.vals[o.N]
		ok1, c1 := gBool(func() bool { return px.IsInstance(r, v) })
		ok2, c2 := gBool(func() bool { return px.IsInstance(v.PType(), v) })
		if !ok1 || !ok2 {
			cur := tyText(r)
			if ok1 {
				_, _ = lat.Guarded(func() bool { cur = tyText(v.PType()); return true })
			}
			return false, fmt.Sprintf("%s is not an instance of its inferred type %s %s%s", lat.ValText(v), cur, c1, c2)
		}
	case "detailed":
		v := s.vals[o.N]
		ok1, c1 := gBool(func() bool { return px.IsInstance(r, v) })
		ok2, c2 := gBool(func() bool { return px.IsInstance(px.DetailedValueType(v), v) })
		if !ok1 || !ok2 {
			return false, fmt.Sprintf("%s is not an instance of its detailed type %s %s%s", lat.ValText(v), tyText(r), c1, c2)
		}
	case "common":
		a, b := s.res[o.A.R], s.res[o.B.R]
		okA, c1 := gBool(func() bool { return px.IsAssignable(r, a) })
		okB, c2 := gBool(func() bool { return px.IsAssignable(r, b) })
		if !okA || !okB {
			which := "the first"
			if okA {
				which = "the second"
			}
			return false, fmt.Sprintf("CommonType(%s, %s) = %s does not accept %s operand %s%s", tyText(a), tyText(b), tyText(r), which, c1, c2)
		}
	case "generalize":
		a := s.res[o.A.R]
		okA, c1 := gBool(func() bool { return px.IsAssignable(r, a) })
		if !okA {
			return false, fmt.Sprintf("Generalize(%s) = %s does not accept it %s", tyText(a), tyText(r), c1)
		}
	}
	return true, ""
}

func (s *hState) freshTags(j int) []string {
	o := s.h.Ops[j]
	switch o.Op {
	case "ptype":
		return valueTags(types.VerifDecodeValue(s.vals[o.N]), "infer")
	case "detailed":
		return valueTags(types.VerifDecodeValue(s.vals[o.N]), "detailed")
	case "common":
		return commonTags(types.VerifDecodeType(s.res[o.A.R]), types.VerifDecodeType(s.res[o.B.R]))
	case "generalize":
		return generalizeTags(types.VerifDecodeType(s.res[o.A.R]))
	}
	return nil
}

// runHistory makes the operations in order; after each one the relations of all operations so far are evaluated.
// It stops at the first relation that held when its operation was made and does not hold any more.
func runHistory(h *history, res *lib.Result, trace func(string)) *hState {
	s := &hState{h: h, res: make([]px.Type, len(h.Ops)), held: make([]bool, len(h.Ops)), ans: make([][2]bool, len(h.Ops))}
	_, crash := lat.Guarded(func() bool { s.vals = h.buildValues(); return true })
	if crash != "" {
		return nil
	}
	for _, v := range s.vals {
		if dupKeys(v) {
			return nil
		}
	}
	for k := range h.Ops {
		crash := s.exec(k)
		if crash != "" && describing(h.Ops[k].Op) {
			// what a describing call does with its arguments is C19's property; here it is a step of the history only
			res.Count("history.describer-fault")
			s.fault = true
			crash = ""
		}
		if crash != "" {
			res.Violate(lib.Violation{Clause: "crash", What: fmt.Sprintf("history, operation %d (%s): %s", k, h.Ops[k].Op, crash),
				Input: h.clone(k + 1), Tags: []string{"crash-history-" + h.Ops[k].Op}})
			s.failed = true
			return s
		}
		if trace != nil {
			if s.res[k] != nil {
				trace(fmt.Sprintf("%s  ->  %s", s.opText(k), tyText(s.res[k])))
			} else {
				trace(s.opText(k))
			}
		}
		for j := 0; j <= k; j++ {
			if clauseOf(h.Ops[j].Op) == "" || (j < k && !s.held[j]) {
				continue
			}
			res.Evaluations++
			ok, what, cl, tags := s.relationC(j)
			if j == k {
				s.held[k] = ok
				if !ok {
					// as for a single operation (the classes of the open findings keep their tags)
					res.Violate(lib.Violation{Clause: cl, What: what, Input: h.clone(k + 1), Tags: tags()})
					if trace != nil {
						trace("FAILS: " + what)
					}
				}
				continue
			}
			if !ok {
				msg := fmt.Sprintf("after %s: %s (the relation held when operation #%d returned)", s.opText(k), what, j)
				res.Violate(lib.Violation{Clause: cl, What: msg, Input: h.clone(k + 1), Tags: []string{"history-changed"}})
				if trace != nil {
					trace("FAILS: " + msg)
				}
				s.failed = true
				return s
			}
		}
	}
	return s
}

// ---- families ----

func strsArr(names ...string) *lat.VSpec {
	vs := make([]*lat.VSpec, len(names))
	for i, n := range names {
		vs[i] = lat.VS(n)
	}
	return lat.VA(vs...)
}

var alphabet = []string{"a", "b", "c", "d", "e", "f", "g", "h", "i", "j", "k", "l", "m", "n", "o", "p", "q", "r", "s", "t"}

func firstStrs(k int) []string { return alphabet[:k] }

// sharedInner: the values put into several collections. Sizes around the points where a Go slice grows
// (1, 2, 3, 4, 5, 8, 9, 16, 17), duplicates (a dedup leaves spare capacity), every member-wise mergeable kind.
func sharedInner() []*lat.VSpec {
	I, S, A, H, T := lat.VI, lat.VS, lat.VA, lat.VH, lat.VT
	var out []*lat.VSpec
	for _, k := range []int{1, 2, 3, 4, 5, 6, 7, 8, 9, 12, 16, 17} {
		out = append(out, strsArr(firstStrs(k)...))
	}
	out = append(out,
		strsArr("a", "b", "a"), strsArr("a", "b", "c", "a", "b"), strsArr("a", "a"), strsArr("A", "b", "c"),
		A(I(1), I(2)), A(I(1), S("a")), A(), A(lat.VF(2.5), I(1)), A(lat.VB(true), lat.VB(false)), A(lat.VU(), S("a")),
		A(strsArr("a", "b", "c")), A(strsArr("a", "b", "c"), strsArr("a")), A(A(strsArr("a", "b", "c"))),
		H(S("a"), I(1), S("b"), I(2), S("c"), I(3)), H(S("x"), S("a"), S("y"), S("b"), S("z"), S("c")),
		H(I(1), S("a"), I(2), S("b"), I(3), S("c")), H(), H(S("k"), strsArr("a", "b", "c")),
		A(T(lat.Pat("a")), T(lat.Pat("b")), T(lat.Pat("c"))), A(T(lat.Enum(false, "a")), T(lat.Enum(false, "b")), T(lat.Enum(false, "c"))),
		A(T(lat.Enum(true, "a")), T(lat.Enum(false, "b")), T(lat.Enum(false, "c"))),
		A(T(lat.Var(lat.Int(0, 5), lat.StrVal("a"))), T(lat.Var(lat.Flt(0, 1), lat.Bln(1))), T(lat.Var(lat.A("Binary"), lat.A("Undef")))),
		A(T(lat.StrVal("a")), T(lat.StrVal("b")), T(lat.StrVal("c"))),
		A(T(lat.Tup(lat.StrVal("a"), lat.StrVal("b"), lat.StrVal("c"))), T(lat.Tup(lat.StrVal("a")))),
		sens(strsArr("a", "b", "c")), S("a"), I(1),
	)
	return out
}

// siblings: what a shared value is combined with in a parent
func siblings() []*lat.VSpec {
	I, S, A, H, T := lat.VI, lat.VS, lat.VA, lat.VH, lat.VT
	return []*lat.VSpec{
		strsArr("d"), strsArr("e"), strsArr("a"), strsArr("d", "e"), strsArr("a", "d"), S("d"), S("e"), A(I(7)), A(), I(7),
		A(strsArr("d")), A(strsArr("e")), A(A(strsArr("d"))), A(A(strsArr("e"))),
		H(S("d"), I(4)), H(S("w"), S("d")), H(S("w"), S("e")), H(S("k"), strsArr("d")), H(S("k"), strsArr("e")),
		A(T(lat.Pat("d"))), A(T(lat.Pat("e"))), A(T(lat.Enum(false, "d"))), A(T(lat.Enum(false, "e"))), A(T(lat.StrVal("d"))), A(T(lat.StrVal("e"))),
		A(T(lat.Var(lat.A("Default"), lat.Rx("a")))), A(T(lat.Tup(lat.StrVal("d")))), A(T(lat.Tup(lat.StrVal("e")))),
		sens(strsArr("d")), sens(strsArr("e")),
	}
}

// parentsHistory: x shared by two parents that combine it with s1 / s2, in one of six shapes; the inferences in one
// of four orders
func parentsHistory(family string, in, s1, s2 *lat.VSpec, shape, order int) *history {
	b := newHB(family)
	x := b.val(in)
	a1, a2 := b.val(s1), b.val(s2)
	var p1, p2 int
	switch shape {
	case 0:
		p1, p2 = b.arr(x, a1), b.arr(x, a2)
	case 1:
		p1, p2 = b.arr(a1, x), b.arr(a2, x)
	case 2:
		k1, k2 := b.leaf(lat.VS("p")), b.leaf(lat.VS("q"))
		p1, p2 = b.hash(k1, x, k2, a1), b.hash(k1, x, k2, a2)
	case 3:
		k1, k2 := b.leaf(lat.VS("p")), b.leaf(lat.VI(2))
		p1, p2 = b.hash(k2, a1, k1, x), b.hash(k1, a2, k2, x)
	case 4:
		w := b.arr(x)
		p1, p2 = b.arr(w, b.arr(a1)), b.arr(w, b.arr(a2))
	default:
		p1, p2 = b.sens(b.arr(x, a1)), b.arr(x, a2, x)
	}
	switch order {
	case 0:
		b.ptype(p1)
		b.ptype(p2)
	case 1:
		b.ptype(x)
		b.ptype(p1)
		b.detailed(p1)
		b.ptype(p2)
	case 2:
		b.detailed(p1)
		b.ptype(p2)
		b.ptype(p1)
		b.detailed(p2)
	default:
		r1 := b.ptype(p1)
		r2 := b.ptype(p2)
		c := b.common(r1, r2)
		b.generalize(c)
		b.ptype(x)
	}
	return b.h
}

// twoParentsHetero: the heterogeneous pools, every fourth combination
func twoParentsHetero() []*history {
	var out []*history
	inn, sib := sharedInner(), siblings()
	n := 0
	for _, in := range inn {
		for i1, s1 := range sib {
			for i2, s2 := range sib {
				if i1 == i2 {
					continue
				}
				n++
				if n%4 != 0 {
					continue
				}
				for d := 0; d < 2; d++ {
					out = append(out, parentsHistory("two-parents-mixed", in, s1, s2, (n/4+3*d)%6, (n/24+d)%4))
				}
			}
		}
	}
	return out
}

// elemKinds: families of pairwise unrelated elements of one member-wise mergeable kind; elem(i) for i < 20
func elemKinds() []func(i int) *lat.VSpec {
	T := lat.VT
	return []func(i int) *lat.VSpec{
		func(i int) *lat.VSpec { return lat.VS(alphabet[i]) },
		func(i int) *lat.VSpec { return T(lat.Enum(false, alphabet[i])) },
		func(i int) *lat.VSpec { return T(lat.Enum(i%3 == 0, alphabet[i], alphabet[i]+"x")) },
		func(i int) *lat.VSpec { return T(lat.StrVal(alphabet[i])) },
		func(i int) *lat.VSpec { return T(lat.Pat(alphabet[i])) },
		func(i int) *lat.VSpec { return T(lat.Pat(alphabet[i], alphabet[i]+"+")) },
		func(i int) *lat.VSpec {
			return T(lat.Var(lat.Int(int64(2*i), int64(2*i)), lat.Flt(float64(100+i), float64(100+i))))
		},
		func(i int) *lat.VSpec {
			return T(lat.Var(lat.StrVal(alphabet[i]), lat.Int(int64(2*i), int64(2*i)), lat.Rx(alphabet[i])))
		},
		func(i int) *lat.VSpec { return T(lat.Tup(lat.StrVal(alphabet[i]))) },
		func(i int) *lat.VSpec { return T(lat.Arr(lat.StrVal(alphabet[i]), 1, 1)) },
		func(i int) *lat.VSpec { return T(lat.W("NotUndef", lat.Enum(false, alphabet[i]))) },
		func(i int) *lat.VSpec { return lat.VI(int64(3 * i)) },
	}
}

// twoParents: per kind, a shared array of k elements (k around the points where a Go slice grows; with and without
// duplicates), two parents that add one or two further elements of the kind, at three nesting depths
func twoParents() []*history {
	var out []*history
	n := 0
	for _, elem := range elemKinds() {
		var inners []*lat.VSpec
		var sizes []int
		for _, k := range []int{1, 2, 3, 4, 5, 6, 7, 8, 9, 12, 16, 17} {
			es := make([]*lat.VSpec, k)
			for i := range es {
				es[i] = elem(i)
			}
			inners, sizes = append(inners, lat.VA(es...)), append(sizes, k)
		}
		inners, sizes = append(inners, lat.VA(elem(0), elem(1), elem(0)), lat.VA(elem(0), elem(1), elem(2), elem(0), elem(1)),
			lat.VA(elem(0), elem(1), elem(2), elem(3), elem(1), elem(4))), append(sizes, 2, 3, 5)
		for ii, in := range inners {
			k := sizes[ii]
			sibs := []*lat.VSpec{lat.VA(elem(k)), lat.VA(elem(k + 1)), lat.VA(elem(0)), lat.VA(elem(k), elem(k+1)), lat.VA(elem(k+2), elem(k)), lat.VA()}
			for i1, s1 := range sibs {
				for i2, s2 := range sibs {
					if i1 == i2 {
						continue
					}
					for nest := 0; nest < 3; nest++ {
						n++
						x, y1, y2 := in, s1, s2
						switch nest {
						case 1:
							x, y1, y2 = lat.VA(in), lat.VA(s1), lat.VA(s2)
						case 2:
							x, y1, y2 = lat.VA(lat.VA(in), lat.VA()), lat.VA(lat.VA(s1)), lat.VA(lat.VA(), lat.VA(s2))
						}
						out = append(out, parentsHistory("two-parents", x, y1, y2, n%6, (n/6)%4), parentsHistory("two-parents", x, y1, y2, (n+3)%6, (n/6+1)%4))
					}
				}
			}
		}
	}
	return out
}

// typeKinds: the same kinds as literal types for direct CommonType calls; atom(i) for i < 20
func typeKinds() []func(i int) *lat.Spec {
	return []func(i int) *lat.Spec{
		func(i int) *lat.Spec { return lat.StrVal(alphabet[i]) },
		func(i int) *lat.Spec { return lat.Enum(false, alphabet[i]) },
		func(i int) *lat.Spec { return lat.Enum(i%3 == 0, alphabet[i], alphabet[i]+"x") },
		func(i int) *lat.Spec { return lat.Pat(alphabet[i]) },
		func(i int) *lat.Spec { return lat.Pat(alphabet[i], alphabet[i]+"+") },
		func(i int) *lat.Spec {
			return lat.Var(lat.Int(int64(2*i), int64(2*i)), lat.Flt(float64(100+i), float64(100+i)))
		},
		func(i int) *lat.Spec {
			return lat.Var(lat.StrVal(alphabet[i]), lat.Int(int64(2*i), int64(2*i)), lat.Rx(alphabet[i]))
		},
		func(i int) *lat.Spec { return lat.Tup(lat.StrVal(alphabet[i])) },
		func(i int) *lat.Spec { return lat.Int(int64(3*i), int64(3*i)) },
	}
}

// mergeTrees: a chain r0 = atom0, r(i+1) = CommonType(r(i), atom(i+1)) up to depth 8, and at one level of the chain
// two (or three) further merges of the SAME object with different atoms, before or after the chain goes on; every
// kind, bare and wrapped
func mergeTrees() []*history {
	var out []*history
	for _, atom := range typeKinds() {
		for w := 0; w < 5; w++ {
			for depth := 1; depth <= 8; depth++ {
				for level := 0; level <= depth; level++ {
					for variant := 0; variant < 3; variant++ {
						if w > 0 && (depth+level+variant+w)%2 != 0 { // the wrapped forms: half of the combinations
							continue
						}
						b := newHB("merge-tree")
						lit := func(i int) int { return b.lit(wrapSpec(w, atom(i))) }
						chain := []int{lit(0)}
						grow := func(to int) {
							for len(chain) <= to {
								i := len(chain)
								if variant == 2 && i%2 == 0 {
									chain = append(chain, b.common(lit(i), chain[i-1])) // the receiver on the right
								} else {
									chain = append(chain, b.common(chain[i-1], lit(i)))
								}
							}
						}
						fan := func() {
							r := chain[level]
							f1 := b.common(r, lit(depth+1))
							f2 := b.common(r, lit(depth+2))
							if variant == 1 {
								b.common(lit(depth+3), r)
								b.common(f1, f2)
							}
						}
						if variant == 0 {
							grow(depth)
							fan()
						} else {
							grow(level)
							fan()
							grow(depth)
						}
						out = append(out, b.h)
					}
				}
			}
		}
	}
	return out
}

// receivers: types that commonType merges member-wise, built by several routes
func receiverBases() [][]*lat.Spec {
	// each entry: the literal types to build, the LAST one (or the merge of all, see commonChains) is the receiver
	var out [][]*lat.Spec
	for _, k := range []int{1, 2, 3, 4, 5, 7, 8, 9} {
		out = append(out, []*lat.Spec{lat.Enum(false, firstStrs(k)...)})
	}
	out = append(out,
		[]*lat.Spec{lat.Enum(true, "a", "b", "c")},
		[]*lat.Spec{lat.Enum(false, "a", "b"), lat.Enum(false, "b", "c")}, // merged: the dedup leaves spare capacity
		[]*lat.Spec{lat.Enum(false, "a", "b"), lat.StrVal("c")},
		[]*lat.Spec{lat.StrVal("a"), lat.StrVal("b"), lat.StrVal("c")},
		[]*lat.Spec{lat.StrVal("a"), lat.StrVal("b"), lat.StrVal("a"), lat.StrVal("c")},
		[]*lat.Spec{lat.Enum(false, "a", "b", "c", "d", "e"), lat.Enum(false, "c", "d", "e", "f")},
		[]*lat.Spec{lat.Pat("a")}, []*lat.Spec{lat.Pat("a", "b", "c")}, []*lat.Spec{lat.Pat("a", "b"), lat.Pat("b", "c")},
		[]*lat.Spec{lat.Var(lat.Int(0, 5), lat.StrVal("a"))}, []*lat.Spec{lat.Var(lat.Int(0, 5), lat.StrVal("a"), lat.A("Binary"))},
		[]*lat.Spec{lat.Var(lat.Int(0, 5), lat.A("Binary")), lat.Var(lat.A("Binary"), lat.Flt(0, 1))},
		[]*lat.Spec{lat.Int(0, 5)}, []*lat.Spec{lat.Flt(0, 1)}, []*lat.Spec{lat.StrSz(1, 2)},
		[]*lat.Spec{lat.Tup(lat.StrVal("a"), lat.StrVal("b"), lat.StrVal("c"))},
	)
	return out
}

func operandBases() []*lat.Spec {
	return []*lat.Spec{
		lat.StrVal("d"), lat.StrVal("e"), lat.Enum(false, "d", "e"), lat.Enum(false, "a", "d"), lat.Enum(true, "E"), lat.StrVal("a"),
		lat.Pat("d"), lat.Pat("e"), lat.Pat("a", "d"),
		lat.Var(lat.A("Default"), lat.Rx("a")), lat.Var(lat.A("Undef"), lat.A("Default")), lat.Var(lat.Int(0, 5), lat.A("Default")),
		lat.Int(7, 9), lat.Flt(2, 3), lat.StrSz(4, 5), lat.Tup(lat.StrVal("d")), lat.Tup(lat.StrVal("e"), lat.StrVal("a")),
	}
}

func wrapSpec(w int, t *lat.Spec) *lat.Spec {
	switch w {
	case 1:
		return lat.W("Type", t)
	case 2:
		return lat.W("NotUndef", t)
	case 3:
		return lat.Arr(t, 0, 5)
	case 4:
		return lat.W("Type", lat.Arr(t, 1, 2))
	}
	return t
}

// commonChains: one receiver object merged several times with different operands; the results merged again
func commonChains() []*history {
	var out []*history
	ops := operandBases()
	n := 0
	for _, base := range receiverBases() {
		for w := 0; w < 5; w++ {
			for i1, x1 := range ops {
				for i2, x2 := range ops {
					if i1 == i2 {
						continue
					}
					n++
					if w > 0 && (n+w)%3 != 0 { // the wrapped forms: every third combination
						continue
					}
					b := newHB("common-chain")
					e := b.lit(wrapSpec(w, base[0]))
					for _, m := range base[1:] {
						e = b.common(e, b.lit(wrapSpec(w, m)))
					}
					l1, l2 := b.lit(wrapSpec(w, x1)), b.lit(wrapSpec(w, x2))
					switch n % 4 {
					case 0:
						b.common(e, l1)
						b.common(e, l2)
					case 1:
						r1 := b.common(e, l1)
						b.common(l2, e)
						b.common(r1, l2)
					case 2:
						r1 := b.common(l1, e)
						r2 := b.common(e, l2)
						b.common(r1, r2)
						b.generalize(r1)
					default:
						r1 := b.common(e, l1)
						r2 := b.common(r1, l2)
						b.common(r1, b.lit(wrapSpec(w, ops[(i1+i2)%len(ops)])))
						b.generalize(r2)
						b.common(e, l2)
					}
					out = append(out, b.h)
				}
			}
		}
	}
	return out
}

// randomHistory: a random graph over a small alphabet (so that string types merge) and random operations
func randomHistory(r *lib.Rng) *history {
	b := newHB("random")
	leaves := []*lat.VSpec{
		lat.VS("a"), lat.VS("b"), lat.VS("c"), lat.VS("d"), lat.VS("e"), lat.VS("f"), lat.VS("g"), lat.VS("h"), lat.VS("a"), lat.VS("b"),
		lat.VI(1), lat.VI(6), lat.VF(2.5), lat.VB(true), lat.VU(), lat.VS(""), lat.VS("A"),
		lat.VT(lat.Enum(false, "a")), lat.VT(lat.Enum(false, "b", "c")), lat.VT(lat.StrVal("d")), lat.VT(lat.Pat("a")), lat.VT(lat.Pat("b")),
		lat.VT(lat.Int(0, 5)), lat.VT(lat.Var(lat.Int(0, 5), lat.StrVal("a"))), lat.VT(lat.Var(lat.A("Binary"), lat.Flt(0, 1))),
	}
	litTypes := append(operandBases(), lat.Enum(false, "a", "b", "c"), lat.Enum(false, "b", "c"), lat.Arr(lat.Enum(false, "a", "b", "c"), 0, 3),
		lat.Arr(lat.StrVal("d"), 1, 1), lat.A("String"), lat.A("Any"))
	askLits := askRandomTypes()
	nLeaves := 2 + r.Intn(5)
	for i := 0; i < nLeaves; i++ {
		k := r.Intn(len(leaves))
		if r.Chance(2, 3) {
			k = r.Intn(10) // strings of the alphabet
		}
		b.leaf(leaves[k])
	}
	nColl := 2 + r.Intn(6)
	for i := 0; i < nColl; i++ {
		n := len(b.h.Nodes)
		pick := func() int {
			if r.Chance(1, 2) && n > nLeaves { // prefer collections built so far: sharing at depth
				return nLeaves + r.Intn(n-nLeaves)
			}
			return r.Intn(n)
		}
		switch r.Intn(8) {
		case 0, 1, 2, 3, 4:
			m := r.Intn(5)
			cs := make([]int, m)
			for j := range cs {
				cs[j] = pick()
			}
			b.arr(cs...)
		case 5, 6:
			m := 1 + r.Intn(3)
			var cs []int
			used := map[int]bool{}
			for j := 0; j < m; j++ {
				k := r.Intn(nLeaves) // keys: leaves
				if used[k] {
					continue
				}
				used[k] = true
				cs = append(cs, k, pick())
			}
			b.hash(cs...)
		default:
			b.sens(pick())
		}
	}
	nOps := 3 + r.Intn(9)
	var typed []int // operations that returned a type
	for i := 0; i < nOps; i++ {
		n := len(b.h.Nodes)
		node := func() int {
			if r.Chance(3, 4) {
				return nLeaves + r.Intn(n-nLeaves)
			}
			return r.Intn(n)
		}
		ref := func() int {
			if len(typed) == 0 || r.Chance(1, 4) {
				k := b.lit(litTypes[r.Intn(len(litTypes))])
				typed = append(typed, k)
				return k
			}
			return typed[r.Intn(len(typed))]
		}
		askRef := func() int { // a Struct / Hash / Tuple type over the alphabet of the graph, or any type so far
			if r.Chance(1, 4) {
				return ref()
			}
			k := b.lit(askLits[r.Intn(len(askLits))])
			typed = append(typed, k)
			return k
		}
		switch c := r.Intn(28); {
		case c >= 20 && c < 23:
			b.accepts(askRef(), node())
		case c == 23:
			b.op(hOp{Op: []string{"assert", "mismatch"}[r.Intn(2)], A: &hRef{askRef()}, N: node()})
		case c == 24:
			x, y := askRef(), ref()
			b.op(hOp{Op: []string{"asserttype", "describe"}[r.Intn(2)], A: &hRef{x}, B: &hRef{y}})
		case c == 25:
			// the detailed type of an object, described against a type
			d := b.detailed(node())
			typed = append(typed, d)
			b.op(hOp{Op: []string{"asserttype", "describe"}[r.Intn(2)], A: &hRef{askRef()}, B: &hRef{d}})
		case c == 26:
			b.op(hOp{Op: []string{"vstring", "vtokey"}[r.Intn(2)], N: node()})
		case c == 27:
			b.op(hOp{Op: "vequals", N: node(), M: node()})
		case c < 8:
			typed = append(typed, b.ptype(node()))
		case c < 11:
			typed = append(typed, b.detailed(node()))
		case c < 15:
			x, y := ref(), ref()
			typed = append(typed, b.common(x, y))
		case c < 16:
			typed = append(typed, b.generalize(ref()))
		case c < 17:
			b.op(hOp{Op: []string{"string", "tokey", "generic"}[r.Intn(3)], A: &hRef{ref()}})
		case c < 18:
			x, y := ref(), ref()
			b.op(hOp{Op: []string{"equals", "assignable"}[r.Intn(2)], A: &hRef{x}, B: &hRef{y}})
		default:
			x := ref()
			b.op(hOp{Op: "instance", A: &hRef{x}, N: node()})
		}
	}
	return b.h
}

// nontrivialHistory: some object is an element of two collections, or some returned type is an operand twice
func nontrivialHistory(h *history) bool {
	used := map[int]int{}
	for _, n := range h.Nodes {
		if n.K == "leaf" {
			continue
		}
		seen := map[int]bool{}
		for _, c := range n.C {
			if !seen[c] {
				seen[c] = true
				used[c]++
			}
		}
	}
	for c, k := range used {
		if k >= 2 && h.Nodes[c].K != "leaf" {
			return true
		}
	}
	refs := map[int]int{}
	for _, o := range h.Ops {
		for _, r := range []*hRef{o.A, o.B} {
			if r != nil {
				refs[r.R]++
			}
		}
	}
	for _, k := range refs {
		if k >= 2 {
			return true
		}
	}
	return false
}

// ---- the model tie ----

func tyInModel(d *types.VerifTy) bool { return outInModel(d) && allASCII(d, nil) && !aliasNested(d) }

// gHistory prints the history as (list node * list op * list ty): the modelled operations only (a literal type is
// an operand RTy, the read-only calls are left out), and the types the returned objects hold NOW.
func gHistory(s *hState, pats, strs map[string]bool) (term string, ok bool) {
	return gHistoryQ(s, pats, strs, false)
}

// hasAsk: the history puts the question or makes an asserting / describing call (Model/InferAsk.v, cases_ask_*)
func hasAsk(h *history) bool {
	for _, o := range h.Ops {
		if o.Op == "accepts" || describing(o.Op) {
			return true
		}
	}
	return false
}

// gHistoryQ with ask: (list node * list qop * (list ty * list (bool * bool))) - the operations of InferHist.v wrapped in
// QOp, the questions (QAccepts: the two answers as they were when last asked, i.e. at the end of the history), the
// asserting calls (QAssert, QAssertType: passed or reported a mismatch; QMismatch: no observable); DescribeMismatch on
// two types and the read-only calls are left out.
func gHistoryQ(s *hState, pats, strs map[string]bool, ask bool) (term string, ok bool) {
	h := s.h
	if s.fault || (hasAsk(h) != ask) {
		return "", false
	}
	var answers []string
	pair := func(a, b bool) string { return "(" + lib.GBool(a) + ", " + lib.GBool(b) + ")" }
	nodes := make([]string, len(h.Nodes))
	for i, n := range h.Nodes {
		cs := make([]string, len(n.C))
		for j, c := range n.C {
			cs[j] = lib.GNat(c)
		}
		switch n.K {
		case "leaf":
			d := types.VerifDecodeValue(s.vals[i])
			if d.K == "Arr" || d.K == "Hash" || d.K == "Sensitive" || !lat.ValInModel(d) || !allASCII(nil, d) {
				return "", false
			}
			lat.ValStrings(d, pats, strs)
			nodes[i] = "NLeaf " + lat.GVal(d)
		case "arr":
			nodes[i] = "NArr " + lib.GList(cs, "nat")
		case "hash":
			ps := make([]string, 0, len(cs)/2)
			for j := 0; j+1 < len(cs); j += 2 {
				ps = append(ps, "("+cs[j]+", "+cs[j+1]+")")
			}
			nodes[i] = "NHash " + lib.GList(ps, "nat * nat")
		case "sens":
			nodes[i] = "NSens " + cs[0]
		}
	}
	// a value whose inference goes through a nested alias is outside the lattice model (see operandAliasNested)
	isChild := map[int]bool{}
	for _, n := range h.Nodes {
		for _, c := range n.C {
			isChild[c] = true
		}
	}
	for i, n := range h.Nodes {
		if n.K == "leaf" {
			continue
		}
		if (isChild[i] && operandAliasNested(s.vals[i])) || (!isChild[i] && childAliasNested(s.vals[i])) {
			return "", false
		}
	}
	index := map[int]int{}           // operation -> index among the modelled operations
	lits := map[int]*types.VerifTy{} // literal types
	var ops, obs []string
	ref := func(r *hRef) (string, *types.VerifTy, bool) {
		if d, isLit := lits[r.R]; isLit {
			return "RTy " + lat.GTy(d), d, true
		}
		k, found := index[r.R]
		if !found {
			return "", nil, false
		}
		return "RRes " + lib.GNat(k), types.VerifDecodeType(s.res[r.R]), true
	}
	for k, o := range h.Ops {
		if s.res[k] == nil {
			if !ask {
				continue
			}
			switch o.Op {
			case "accepts", "assert", "mismatch":
				gt, dT, ok1 := ref(o.A)
				if !ok1 || !lat.InModel(dT) || !allASCII(dT, nil) {
					return "", false
				}
				switch o.Op {
				case "accepts":
					ops = append(ops, fmt.Sprintf("QAccepts (%s) %s", gt, lib.GNat(o.N)))
					answers = append(answers, pair(s.ans[k][0], s.ans[k][1]))
				case "assert":
					ops = append(ops, fmt.Sprintf("QAssert (%s) %s", gt, lib.GNat(o.N)))
					answers = append(answers, pair(s.ans[k][0], s.ans[k][0]))
				default:
					ops = append(ops, fmt.Sprintf("QMismatch (%s) %s", gt, lib.GNat(o.N)))
				}
			case "asserttype":
				gt, dT, ok1 := ref(o.A)
				ga, dA, ok2 := ref(o.B)
				if !ok1 || !ok2 || !lat.InModel(dT) || !lat.InModel(dA) || !allASCII(dT, nil) || !allASCII(dA, nil) {
					return "", false
				}
				ops = append(ops, fmt.Sprintf("QAssertType (%s) (%s)", gt, ga))
				answers = append(answers, pair(s.ans[k][0], s.ans[k][0]))
			}
			continue
		}
		d := types.VerifDecodeType(s.res[k])
		if (o.Op == "type" && !tyInModel(d)) || !outInModel(d) || !allASCII(d, nil) {
			return "", false
		}
		lat.TyStrings(d, pats, strs)
		var g string
		switch o.Op {
		case "type":
			lits[k] = d
			continue
		case "ptype":
			g = "OPType " + lib.GNat(o.N)
		case "detailed":
			g = "ODetailed " + lib.GNat(o.N)
		case "common":
			ga, da, ok1 := ref(o.A)
			gb, db, ok2 := ref(o.B)
			if !ok1 || !ok2 || !tyInModel(da) || !tyInModel(db) {
				return "", false
			}
			if (da.K == "Alias" && lat.Contains(db, "NotUndef")) || (db.K == "Alias" && lat.Contains(da, "NotUndef")) {
				return "", false
			}
			g = "OCommon (" + ga + ") (" + gb + ")"
		case "generalize":
			ga, da, ok1 := ref(o.A)
			if !ok1 || !tyInModel(da) {
				return "", false
			}
			g = "OGeneralize (" + ga + ")"
		}
		index[k] = len(obs)
		if ask {
			g = "QOp (" + g + ")"
		}
		ops = append(ops, g)
		obs = append(obs, lat.GTy(d))
	}
	if len(ops) == 0 {
		return "", false
	}
	for i := range nodes {
		nodes[i] = "(" + nodes[i] + ")"
	}
	for i := range ops {
		ops[i] = "(" + ops[i] + ")"
	}
	if ask {
		return fmt.Sprintf("(%s, %s, (%s, %s))", lib.GList(nodes, "node"), lib.GList(ops, "qop"), lib.GList(obs, "ty"), lib.GList(answers, "bool * bool")), true
	}
	return fmt.Sprintf("(%s, %s, %s)", lib.GList(nodes, "node"), lib.GList(ops, "op"), lib.GList(obs, "ty")), true
}

// ---- the phase ----

func runHistories(cfg *lib.Config, res *lib.Result, rng *lib.Rng) {
	nRandom, nCoq := 4000, 700
	if cfg.Thorough() {
		nRandom, nCoq = 60000, 4000
	}
	t0 := time.Now()
	var hs []*history
	hs = append(hs, twoParents()...)
	hs = append(hs, twoParentsHetero()...)
	hs = append(hs, commonChains()...)
	hs = append(hs, mergeTrees()...)
	hs = append(hs, askHistories()...)
	for i := 0; i < nRandom; i++ {
		hs = append(hs, randomHistory(rng))
	}
	type kept struct {
		s      *hState
		family string
	}
	var ran []kept
	var failedIdx []int
	for _, h := range hs {
		if !h.wellFormed() {
			panic("generator produced an ill-formed history: " + fmt.Sprint(h))
		}
		s := runHistory(h, res, nil)
		if s == nil {
			res.Count("history.skipped-not-a-value")
			continue
		}
		res.Count("history." + h.Family)
		if nontrivialHistory(h) {
			b, _ := jsonText(h)
			res.Nontrivial("h:" + b)
			res.Count("history.shared")
		}
		if s.failed {
			failedIdx = append(failedIdx, len(ran))
		}
		ran = append(ran, kept{s, h.Family})
	}
	nMut := 600
	if cfg.Thorough() {
		nMut = 10000
	}
	mhs := mutableHistories(rng, nMut)
	for _, mh := range mhs {
		runMutable(mh, res, nil)
		res.Count("history.mutable-hash")
	}
	res.Extra["histories"] = len(ran) + len(mhs)
	res.Extra["histories_d_s"] = time.Since(t0).Seconds()
	for k := 0; k < 2 && len(ran) > 0; k++ {
		s := ran[(k*7919+13)%len(ran)].s
		var lines []string
		for j := range s.h.Ops {
			if s.res[j] != nil {
				lines = append(lines, s.opText(j)+" -> "+tyText(s.res[j]))
			}
		}
		res.Sample(map[string]interface{}{"history": strings.Join(lines, "; ")})
	}

	// M: the histories D failed on first (cap 20), then the families in rotation
	shards := 2
	files := make([]*lib.CasesFile, 2*shards) // cases_history_*, then cases_ask_*
	pats, strs := make([]map[string]bool, 2*shards), make([]map[string]bool, 2*shards)
	for i := range files {
		files[i] = &lib.CasesFile{Imports: []string{"Model.Base", "Model.Ty", "Model.Lattice", "Model.Infer", "Model.InferHist", "Corr.CorrC01", "Corr.CorrC04"},
			Typ: "list node * list op * list ty", Obligations: map[string]string{"history_model": "hist_mismatches orc cases"}}
		if i >= shards {
			files[i] = askCasesFile()
		}
		pats[i], strs[i] = map[string]bool{}, map[string]bool{}
	}
	added, inModel, addedAsk := 0, 0, 0
	nAsk := nCoq * 5 / 7
	add := func(s *hState) bool {
		if hasAsk(s.h) {
			i := shards + addedAsk%shards
			if addedAsk >= nAsk+20 {
				return false
			}
			g, ok := gHistoryQ(s, pats[i], strs[i], true)
			if !ok {
				return false
			}
			files[i].Add(g, s.h)
			addedAsk++
			return true
		}
		i := added % shards
		g, ok := gHistory(s, pats[i], strs[i])
		if !ok {
			return false
		}
		files[i].Add(g, s.h)
		added++
		return true
	}
	for k, i := range failedIdx {
		if k < 20 {
			add(ran[i].s)
		}
	}
	byFamily := map[string][]int{}
	var fams []string
	for i, x := range ran {
		if _, ok := byFamily[x.family]; !ok {
			fams = append(fams, x.family)
		}
		byFamily[x.family] = append(byFamily[x.family], i)
	}
	for tries := 0; added < nCoq && tries < 6*nCoq && len(ran) > 0; tries++ {
		f := byFamily[fams[tries%len(fams)]]
		if add(ran[f[rng.Intn(len(f))]].s) {
			inModel++
		}
	}
	// the histories with questions and asserting calls: the family `ask` and the random ones that have them
	var askIdx []int
	for i, x := range ran {
		if hasAsk(x.s.h) {
			askIdx = append(askIdx, i)
		}
	}
	for tries := 0; addedAsk < nAsk && tries < 6*nAsk && len(askIdx) > 0; tries++ {
		add(ran[askIdx[rng.Intn(len(askIdx))]].s)
	}
	res.Extra["histories_to_model"] = added
	res.Extra["ask_histories_to_model"] = addedAsk
	for i, cf := range files {
		cf.Prelude = lat.Oracle(pats[i], strs[i])
		name := fmt.Sprintf("cases_history_%d", i)
		if i >= shards {
			name = fmt.Sprintf("cases_ask_%d", i-shards)
		}
		res.CorrFiles = append(res.CorrFiles, cf.WriteTo(cfg.Out, name))
	}
}

func jsonText(v interface{}) (string, error) {
	b, err := json.Marshal(v)
	return string(b), err
}

func replayHistory(in interface{}, res *lib.Result, cfg *lib.Config) {
	var h history
	remarshal(in, &h)
	if !h.wellFormed() {
		fmt.Println("ill-formed history")
		return
	}
	s := runHistory(&h, res, func(line string) { fmt.Println(line) })
	if s == nil {
		fmt.Println("the graph is not a value (a hash with two equal keys)")
		return
	}
	for i, v := range s.vals {
		if h.Nodes[i].K != "leaf" {
			fmt.Printf("object %d = %s\n", i, lat.ValText(v))
		}
	}
	cf := &lib.CasesFile{Imports: []string{"Model.Base", "Model.Ty", "Model.Lattice", "Model.Infer", "Model.InferHist", "Corr.CorrC01", "Corr.CorrC04"},
		Typ: "list node * list op * list ty", Obligations: map[string]string{"history_model": "hist_mismatches orc cases"}}
	pats, strs := map[string]bool{}, map[string]bool{}
	if hasAsk(&h) {
		cf = askCasesFile()
	}
	if g, ok := gHistoryQ(s, pats, strs, hasAsk(&h)); ok {
		cf.Add(g, &h)
	}
	cf.Prelude = lat.Oracle(pats, strs)
	res.CorrFiles = append(res.CorrFiles, cf.WriteTo(cfg.Out, "cases_history_replay"))
}

// ---- mutable hashes: histories with Put ----
//
// types.NewMutableHash() is a value whose entries change; its inferred types are cached like those of a Hash.
// Direct check only (the Rocq model has no mutable value). After every step, for the hash h as it is NOW:
//   infer / detailed, tag mutable-hash-not-instance   IsInstance(h.PType(), h), IsInstance(DetailedValueType(h), h)
//   infer / detailed, tag mutable-hash-stale-type     the same with the immutable hash of the same entries in the
//                                                     place of h (so that a stale cached type shows independently
//                                                     of the first relation)

type mStep struct {
	Op string     `json:"op"` // put | ptype | detailed
	K  *lat.VSpec `json:"key,omitempty"`
	V  *lat.VSpec `json:"value,omitempty"`
}

type mHistory struct {
	Kind  string  `json:"kind"` // "mutable-hash"
	Steps []mStep `json:"steps"`
}

func runMutable(h *mHistory, res *lib.Result, trace func(string)) {
	var m *types.MutableHashValue
	_, crash := lat.Guarded(func() bool { m = types.NewMutableHash(); return true })
	if crash != "" || m == nil {
		return
	}
	for k, st := range h.Steps {
		in := &mHistory{Kind: h.Kind, Steps: h.Steps[:k+1]}
		_, crash := lat.Guarded(func() bool {
			switch st.Op {
			case "put":
				m.Put(st.K.Build(), st.V.Build())
			case "ptype":
				_ = m.PType()
			case "detailed":
				_ = px.DetailedValueType(m)
			}
			return true
		})
		if crash != "" {
			res.Violate(lib.Violation{Clause: "crash", What: fmt.Sprintf("mutable hash, step %d (%s): %s", k, st.Op, crash), Input: in, Tags: []string{"crash-mutable-hash"}})
			return
		}
		var frozen px.Value
		_, _ = lat.Guarded(func() bool { frozen = types.WrapHash(m.AppendEntriesTo(nil)); return true })
		if frozen == nil || dupKeys(frozen) {
			return
		}
		if trace != nil {
			trace(fmt.Sprintf("step %d %s: h = %s, h.PType() = %s, DetailedValueType(h) = %s", k, st.Op, lat.ValText(frozen), tyText(m.PType()), tyText(px.DetailedValueType(m))))
		}
		for _, c := range []struct {
			clause string
			ty     func() px.Type
		}{{"infer", func() px.Type { return m.PType() }}, {"detailed", func() px.Type { return px.DetailedValueType(m) }}} {
			for _, who := range []struct {
				tag string
				v   px.Value
			}{{"mutable-hash-stale-type", frozen}, {"mutable-hash-not-instance", m}} {
				res.Evaluations++
				var t px.Type
				ok, crash := gBool(func() bool { t = c.ty(); return px.IsInstance(t, who.v) })
				if ok {
					continue
				}
				what := fmt.Sprintf("the mutable hash %s is not an instance of its %s type %s %s", lat.ValText(frozen), map[string]string{"infer": "inferred", "detailed": "detailed"}[c.clause], tyText(t), crash)
				if who.tag == "mutable-hash-stale-type" {
					what = fmt.Sprintf("after step %d (%s) the %s type of the mutable hash is still %s, which does not contain {its entries} = %s %s", k, st.Op,
						map[string]string{"infer": "inferred", "detailed": "detailed"}[c.clause], tyText(t), lat.ValText(frozen), crash)
				}
				tags := []string{who.tag}
				res.Violate(lib.Violation{Clause: c.clause, What: what, Input: in, Tags: tags})
				if trace != nil {
					trace("FAILS: " + what)
				}
			}
		}
	}
}

func mutableHistories(r *lib.Rng, nRandom int) []*mHistory {
	keys := []*lat.VSpec{lat.VS("a"), lat.VS("b"), lat.VS("c"), lat.VS(""), lat.VI(1), lat.VI(2), lat.VF(2.5), lat.VB(true), lat.VU()}
	vals := []*lat.VSpec{lat.VI(1), lat.VS("x"), lat.VS("y"), lat.VU(), lat.VF(2.5), lat.VA(), lat.VA(lat.VI(1)), lat.VH(lat.VS("a"), lat.VI(1)), lat.VB(false),
		lat.VT(lat.Int(0, 5)), strsArr("a", "b", "c")}
	put := func(k, v *lat.VSpec) mStep { return mStep{Op: "put", K: k, V: v} }
	ask := []mStep{{Op: "ptype"}, {Op: "detailed"}}
	var out []*mHistory
	// bounded: put, ask, put (a new key, or the same key with another value), ask — every order of the two questions
	for i1, k1 := range keys {
		for _, v1 := range vals[:6] {
			for i2, k2 := range keys {
				for _, v2 := range vals[:6] {
					if (i1+i2)%2 == 1 && i1 != i2 {
						continue
					}
					for _, q := range [][]mStep{{ask[0]}, {ask[1]}, {ask[0], ask[1]}, {ask[1], ask[0]}, {}} {
						steps := append([]mStep{put(k1, v1)}, q...)
						steps = append(steps, put(k2, v2), ask[0], ask[1])
						out = append(out, &mHistory{Kind: "mutable-hash", Steps: steps})
					}
				}
			}
		}
	}
	for i := 0; i < nRandom; i++ {
		n := 2 + r.Intn(7)
		var steps []mStep
		for j := 0; j < n; j++ {
			if j == 0 || r.Chance(1, 2) {
				steps = append(steps, put(keys[r.Intn(len(keys))], vals[r.Intn(len(vals))]))
			} else {
				steps = append(steps, ask[r.Intn(2)])
			}
		}
		out = append(out, &mHistory{Kind: "mutable-hash", Steps: steps})
	}
	return out
}

func replayMutable(in interface{}, res *lib.Result) {
	var h mHistory
	remarshal(in, &h)
	runMutable(&h, res, func(line string) { fmt.Println(line) })
}
