// c04: inferred types contain their values; common type and generalisation are bounds.
//
//	D  (direct, on the implementation):
//	     infer     IsInstance(v.PType(), v)
//	     detailed  IsInstance(DetailedValueType(v), v)
//	     sound     IsAssignable(T, DetailedValueType(v))  =>  IsInstance(T, v)
//	     complete  IsInstance(T, v)  =>  IsAssignable(T, DetailedValueType(v))     (v without undef-valued hash entry)
//	     common    IsAssignable(c, a) and IsAssignable(c, b)  for  c = CommonType(a, b)
//	     general   IsAssignable(Generalize(t), t)
//	M  (model tie): v.PType(), DetailedValueType(v), CommonType(a,b), Generalize(t), IsAssignable(Data|RichData, t)
//	     decoded structurally through the hook and compared with infer / infer_detailed / common / generalize /
//	     data_asg / rich_asg of coq/Model/Infer.v by vm_compute.
package main

import (
	"encoding/json"
	"fmt"
	"math"
	"os"
	"sort"

	"github.com/lyraproj/pcore/pcore"
	"github.com/lyraproj/pcore/px"
	"github.com/lyraproj/pcore/types"
	"verifharness/lat"
	"verifharness/lib"
)

func main() {
	cfg := lib.ParseFlags()
	res := lib.NewResult("C04")
	res.Rule = "values: generic pool + boundary witnesses of every pool type + ALL ordered pairs and triples of a heterogeneous element pool " +
		"(scalars of every kind, undef, empty and non-empty arrays and hashes, types, sensitive) as arrays, 2-entry hashes in both orders over a key pool " +
		"(strings incl. the empty one, numbers, arrays, undef), collections nested to depth 3, arrays of types with one strictly wider than the other in both orders, " +
		"seeded random values; types: the C01 pool (atoms, every constructor over an element sub-pool, random depth 2-3) plus the inferred, detailed and generalised " +
		"types of the values. A value case is non-trivial when the value is a collection with at least two elements of different inferred types; a common-type " +
		"case is non-trivial when neither operand accepts the other; distinct = distinct recipes"
	pcore.Do(func(c px.Context) {
		theCtx = c
		if cfg.Replay != "" {
			replay(cfg, res)
		} else {
			run(cfg, res)
		}
	})
	res.Write(cfg)
}

// theCtx: the context of the run (px.Wrap of Go values, the loader of the Object types of runtime.go)
var theCtx px.Context

// ---------------------------------------------------------------------------------------------
// guarded calls on the implementation

func gType(f func() px.Type) (t px.Type, crash string) {
	_, crash = lat.Guarded(func() bool { t = f(); return true })
	if crash == "" && t == nil {
		crash = "nil type returned"
	}
	return
}

func gBool(f func() bool) (bool, string) { return lat.Guarded(f) }

func tyText(t px.Type) (s string) {
	defer func() {
		if r := recover(); r != nil {
			s = fmt.Sprintf("<unprintable %T>", t)
		}
	}()
	s = t.String()
	if len(s) > 160 {
		s = s[:160] + "..."
	}
	return
}

// hasUndefEntry: the value contains (at any depth) a hash entry whose value is undef — the exclusion the
// property names for the converse direction.
func hasUndefEntry(v *types.VerifVal) bool {
	if v.K == "Hash" {
		for i := 1; i < len(v.Vs); i += 2 {
			if v.Vs[i].K == "Undef" {
				return true
			}
		}
	}
	for _, e := range v.Vs {
		if hasUndefEntry(e) {
			return true
		}
	}
	return false
}

// outInModel: a result type is comparable with the model when it lies in the model fragment or is
// one of the two aliases the fallback ladder of commonType returns (printed as TOther "Alias:Data").
func outInModel(t *types.VerifTy) bool {
	switch t.K {
	case "Alias":
		return t.S == "Data" || t.S == "RichData"
	case "Other", "Iterable", "Nil":
		return false
	case "Float":
		if t.NaN {
			return false
		}
	}
	for _, e := range t.Ts {
		if !outInModel(e) {
			return false
		}
	}
	for _, e := range t.Keys {
		if !outInModel(e) {
			return false
		}
	}
	return true
}

// aliasNested: an alias occurs below the top level of the type. The lattice model has no alias constructor, so a
// nested alias cannot act as a receiver inside asg (Array[Data] accepts Array[Data] in the code through the
// pointer shortcut / the alias' own IsAssignable): such operands of commonType are outside the model.
func aliasNested(t *types.VerifTy) bool {
	for _, e := range t.Ts {
		if lat.Contains(e, "Alias") {
			return true
		}
	}
	for _, e := range t.Keys {
		if lat.Contains(e, "Alias") {
			return true
		}
	}
	return false
}

// operandAliasNested: some collection inside v (or v itself) has an inferred type with a nested alias; that type
// is an operand of commonType when the inferred type of the enclosing collection is folded
func operandAliasNested(v px.Value) (nested bool) {
	defer func() {
		if r := recover(); r != nil {
			nested = true
		}
	}()
	switch v := v.(type) {
	case *types.Array:
		if aliasNested(types.VerifDecodeType(v.PType())) {
			return true
		}
		v.Each(func(x px.Value) {
			if operandAliasNested(x) {
				nested = true
			}
		})
	case *types.Hash:
		if aliasNested(types.VerifDecodeType(v.PType())) {
			return true
		}
		v.EachPair(func(k, x px.Value) {
			if operandAliasNested(k) || operandAliasNested(x) {
				nested = true
			}
		})
	case *types.Sensitive:
		return operandAliasNested(v.Unwrap())
	}
	return
}

// childAliasNested: operandAliasNested for the elements of v (the type of v itself is a result, not an operand)
func childAliasNested(v px.Value) (nested bool) {
	defer func() {
		if r := recover(); r != nil {
			nested = true
		}
	}()
	switch v := v.(type) {
	case *types.Array:
		v.Each(func(x px.Value) {
			if operandAliasNested(x) {
				nested = true
			}
		})
	case *types.Hash:
		v.EachPair(func(k, x px.Value) {
			if operandAliasNested(k) || operandAliasNested(x) {
				nested = true
			}
		})
	case *types.Sensitive:
		return childAliasNested(v.Unwrap())
	}
	return
}

func allASCII(t *types.VerifTy, v *types.VerifVal) bool {
	pats, strs := map[string]bool{}, map[string]bool{}
	if t != nil {
		lat.TyStrings(t, pats, strs)
	}
	if v != nil {
		lat.ValStrings(v, pats, strs)
	}
	for s := range strs {
		if !lat.IsASCII(s) {
			return false
		}
	}
	return true
}

// ---------------------------------------------------------------------------------------------
// value generators

func sens(v *lat.VSpec) *lat.VSpec { return &lat.VSpec{K: "Sensitive", Sub: []*lat.VSpec{v}} }

// elems: the heterogeneous element pool (order matters for inference, so every order is generated)
func elems() []*lat.VSpec {
	I, S, A, H, T := lat.VI, lat.VS, lat.VA, lat.VH, lat.VT
	return []*lat.VSpec{
		lat.VU(), {K: "Default"}, lat.VB(true), lat.VB(false),
		I(1), I(6), I(-3), lat.VF(1), lat.VF(2.5),
		S("a"), S("b"), S("ab"), S(""), S("A"),
		{K: "Regexp", S: "a"}, {K: "Regexp", S: "b"}, {K: "Binary", S: "ab"},
		A(), A(I(1)), A(S("a")), A(I(1), S("a")), A(A()), A(lat.VU()),
		H(), H(S("a"), I(1)), H(S("a"), lat.VU()), H(I(1), S("a")), H(S(""), I(1)), H(S("b"), S("x")),
		T(lat.Int(lat.Min, lat.Max)), T(lat.Int(0, 5)), T(lat.A("String")), T(lat.A("Numeric")), T(lat.StrVal("a")),
		sens(I(1)), sens(S("a")),
	}
}

func keyPool() []*lat.VSpec {
	return []*lat.VSpec{lat.VS("a"), lat.VS("b"), lat.VS(""), lat.VS("A"), lat.VI(1), lat.VI(2), lat.VF(2.5), lat.VB(true),
		lat.VA(lat.VI(1)), lat.VU(), lat.VT(lat.Int(0, 5))}
}

// widerPairs: types used as values, one strictly wider than the other
func widerPairs() [][2]*lat.Spec {
	I, A := lat.Int, lat.A
	return [][2]*lat.Spec{
		{I(0, 5), I(lat.Min, lat.Max)}, {I(1, 1), I(0, 5)}, {lat.StrVal("a"), A("String")}, {lat.StrSz(1, 2), A("String")},
		{lat.Enum(false, "a"), lat.Enum(false, "a", "b")}, {I(0, 5), A("Numeric")}, {A("Numeric"), A("Scalar")}, {A("String"), A("ScalarData")},
		{lat.Arr(I(0, 5), 1, 2), lat.Arr(I(lat.Min, lat.Max), 0, lat.Max)}, {lat.W("Optional", I(0, 5)), lat.W("Optional", I(lat.Min, lat.Max))},
		{I(0, 5), lat.Var(I(lat.Min, lat.Max), A("String"))}, {lat.Tup(I(0, 5)), lat.Arr(I(lat.Min, lat.Max), 0, lat.Max)},
		{lat.W("Type", I(0, 5)), lat.W("Type", I(lat.Min, lat.Max))}, {A("Undef"), lat.W("Optional", A("String"))},
		{lat.Struct(lat.Member{Name: "a", Kind: 0, T: I(0, 5)}), lat.Hsh(A("String"), I(lat.Min, lat.Max), 0, lat.Max)},
		{lat.Hsh(A("String"), I(0, 5), 0, 1), lat.Coll(0, lat.Max)}, {I(0, 5), A("Any")}, {A("Data"), A("RichData")}, {I(0, 5), A("Data")},
		{lat.Pat("^a+$"), A("String")}, {lat.Rx("a"), lat.Rx("")}, {lat.Bln(1), lat.Bln(-1)}, {lat.Flt(0, 5.5), A("FloatDefault")},
	}
}

// floatEdgeTypes: Float types with infinite bounds and with the largest finite floats as bounds, alone and as members
func floatEdgeTypes() []*lat.Spec {
	inf, mx := math.Inf(1), math.MaxFloat64
	var out []*lat.Spec
	for _, b := range [][2]float64{{-inf, inf}, {-inf, -inf}, {inf, inf}, {-inf, 1.5}, {0, inf}, {-inf, -mx}, {mx, inf}, {-mx, mx}, {mx, mx}, {-mx, -mx}, {-mx, inf}, {-inf, mx}, {0, mx}} {
		f := lat.FltB(b[0], b[1])
		out = append(out, f, lat.Arr(f, 0, lat.Max), lat.W("Optional", f), lat.Var(f, lat.A("String")), lat.Tup(f, lat.Int(0, 5)), lat.W("Type", f),
			lat.Hsh(lat.A("String"), f, 0, lat.Max), lat.Struct(lat.Member{Name: "a", Kind: 0, T: f}))
	}
	return out
}

func randomValue(r *lib.Rng, es []*lat.VSpec, depth int) *lat.VSpec {
	if depth <= 0 || r.Chance(1, 3) {
		return es[r.Intn(len(es))]
	}
	switch r.Intn(5) {
	case 0, 1, 2:
		n := r.Intn(4)
		sub := make([]*lat.VSpec, n)
		for i := range sub {
			sub[i] = randomValue(r, es, depth-1)
		}
		return lat.VA(sub...)
	case 3:
		n := r.Intn(3) + 1
		ks := keyPool()
		var sub []*lat.VSpec
		used := map[string]bool{}
		for i := 0; i < n; i++ {
			k := ks[r.Intn(len(ks))]
			if used[k.String()] {
				continue
			}
			used[k.String()] = true
			sub = append(sub, k, randomValue(r, es, depth-1))
		}
		return lat.VH(sub...)
	default:
		return sens(randomValue(r, es, depth-1))
	}
}

// dupKeys: some hash inside v has two equal keys
func dupKeys(v px.Value) (dup bool) {
	defer func() {
		if r := recover(); r != nil {
			dup = true
		}
	}()
	switch v := v.(type) {
	case *types.Hash:
		seen := map[px.HashKey]bool{}
		v.EachPair(func(k, x px.Value) {
			hk := px.ToKey(k)
			if seen[hk] {
				dup = true
			}
			seen[hk] = true
			if dupKeys(k) || dupKeys(x) {
				dup = true
			}
		})
	case *types.Array:
		v.Each(func(x px.Value) {
			if dupKeys(x) {
				dup = true
			}
		})
	case *types.Sensitive:
		return dupKeys(v.Unwrap())
	}
	return
}

type val struct {
	spec *lat.VSpec
	v    px.Value
	dec  *types.VerifVal
	kind string
}

func buildValues(u *lat.Universe, r *lib.Rng, thorough bool) []*val {
	var specs []*lat.VSpec
	var kinds []string
	add := func(kind string, vs ...*lat.VSpec) {
		for _, v := range vs {
			specs = append(specs, v)
			kinds = append(kinds, kind)
		}
	}
	add("pool", u.VSpec...)
	es := elems()
	add("elem", es...)
	for _, a := range es {
		for _, b := range es {
			add("pair", lat.VA(a, b))
		}
	}
	// triples: all orders over a sub-pool (every kind once), plus random triples of the full pool
	sub := []*lat.VSpec{es[0], es[2], es[4], es[5], es[7], es[9], es[10], es[12], es[14], es[17], es[18], es[19], es[23], es[24], es[26], es[29], es[30], es[34]}
	for _, a := range sub {
		for _, b := range sub {
			for _, c := range sub {
				add("triple", lat.VA(a, b, c))
			}
		}
	}
	// hashes: two entries in both orders
	ks := keyPool()
	hv := []*lat.VSpec{es[0], es[2], es[4], es[5], es[7], es[9], es[10], es[17], es[18], es[20], es[23], es[24], es[26], es[29], es[34]}
	for i, k1 := range ks {
		for _, v1 := range hv {
			add("hash1", lat.VH(k1, v1))
		}
		for j, k2 := range ks {
			if i == j {
				continue
			}
			for a, v1 := range hv {
				for b, v2 := range hv {
					if (a+b)%3 == 0 || a == b {
						add("hash2", lat.VH(k1, v1, k2, v2))
					}
				}
			}
		}
	}
	add("hash3", lat.VH(lat.VS("a"), lat.VI(1), lat.VS("b"), lat.VS("x"), lat.VS("c"), lat.VU()),
		lat.VH(lat.VS("a"), lat.VI(1), lat.VI(2), lat.VS("x"), lat.VS(""), lat.VF(2.5)),
		lat.VH(lat.VS("a"), lat.VI(1), lat.VS("b"), lat.VI(2), lat.VS("c"), lat.VI(3)))
	// nested collections
	nest := []*lat.VSpec{lat.VA(), lat.VA(lat.VI(1)), lat.VA(lat.VS("a")), lat.VA(lat.VI(1), lat.VS("a")), lat.VA(lat.VU()), lat.VH(), lat.VH(lat.VS("a"), lat.VI(1)),
		lat.VH(lat.VI(1), lat.VS("a")), lat.VA(lat.VA()), lat.VA(lat.VA(lat.VI(1))), lat.VA(lat.VF(2.5)), lat.VH(lat.VS("a"), lat.VA()), lat.VH(lat.VS("a"), lat.VS("x"))}
	for _, a := range nest {
		for _, b := range nest {
			add("nested2", lat.VA(lat.VA(a, b)), lat.VA(lat.VA(a), lat.VA(b)), lat.VH(lat.VS("a"), a, lat.VS("b"), b), lat.VH(lat.VI(1), a, lat.VS(""), b))
			for _, c := range nest[:6] {
				add("nested3", lat.VA(lat.VA(a, b), lat.VA(c)), lat.VA(lat.VA(c, a), lat.VA(b, c)))
			}
		}
	}
	// the non-finite floats (NaN infers the unbounded Float type, the infinities the point types at the ends of it), the
	// edges of the finite floats and the negative zero: alone, inside collections, next to every kind of element (both
	// orders), as hash values and keys, and the Float types with infinite bounds as values
	add("nonfinite", lat.NonFiniteValues()...)
	inf := math.Inf(1)
	nf := []*lat.VSpec{{K: "Float", F: "NaN"}, {K: "Float", F: "+Inf"}, {K: "Float", F: "-Inf"}, lat.VF(math.MaxFloat64), lat.VF(-math.MaxFloat64), lat.VF(math.Copysign(0, -1))}
	for i, a := range nf {
		for _, b := range sub {
			add("nonfinite", lat.VA(a, b), lat.VA(b, a), lat.VH(lat.VS("a"), a, lat.VS("b"), b), lat.VH(lat.VS("a"), b, lat.VS("b"), a))
		}
		for j, b := range nf {
			add("nonfinite", lat.VA(a, b), lat.VA(lat.VA(a), lat.VA(b)), lat.VH(lat.VS("a"), a, lat.VI(1), b))
			if i != j && i != 0 && j != 0 {
				add("nonfinite", lat.VH(a, lat.VI(1), b, lat.VI(2))) // distinct non-NaN float keys
			}
		}
	}
	for _, p := range [][2]*lat.Spec{{lat.FltB(inf, inf), lat.A("FloatDefault")}, {lat.FltB(0, inf), lat.FltB(-inf, inf)}, {lat.FltB(-inf, -inf), lat.FltB(-inf, 1.5)},
		{lat.FltB(math.MaxFloat64, math.MaxFloat64), lat.FltB(0, inf)}, {lat.FltB(-math.MaxFloat64, math.MaxFloat64), lat.A("FloatDefault")}} {
		n, w := lat.VT(p[0]), lat.VT(p[1])
		add("nonfinite", n, w, lat.VA(n, w), lat.VA(w, n), lat.VH(lat.VS("a"), n, lat.VS("b"), w))
	}
	// types as values
	for _, p := range widerPairs() {
		n, w := lat.VT(p[0]), lat.VT(p[1])
		add("types", lat.VA(n, w), lat.VA(w, n), lat.VA(n, w, n), lat.VA(w, n, w), lat.VA(n, lat.VT(lat.A("String")), w),
			lat.VH(n, w), lat.VH(lat.VS("a"), n, lat.VS("b"), w), lat.VH(lat.VS("a"), w, lat.VS("b"), n), lat.VA(lat.VA(n), lat.VA(w)))
	}
	// types as values whose fold of commonType goes through the by-specification Struct<-Hash rule: Struct[{a=>Integer}]
	// accepts Hash[String,Integer,1,1] (by the rule) and is accepted by Hash[Enum[a],Integer,0,5], which does not accept
	// the Hash type (open finding byspec-struct-accepts-hash-infer; the guard tvals_ok of C04_infer_inst_partial), in
	// several orders and nestings; and Tuple / Variant types as values (Tuple/Tuple and Variant/Variant common types)
	{
		I := lat.Int(lat.Min, lat.Max)
		sa := lat.VT(lat.Struct(lat.Member{Name: "a", Kind: 0, T: I}))
		h1 := lat.VT(lat.Hsh(lat.A("String"), I, 1, 1))
		h2 := lat.VT(lat.Hsh(lat.Enum(false, "a"), I, 0, 5))
		add("types", lat.VA(sa, h1, h2), lat.VA(h1, sa, h2), lat.VA(h2, sa, h1), lat.VA(lat.VA(sa, h1), lat.VA(h2)),
			lat.VH(lat.VS("a"), sa, lat.VS("b"), h1, lat.VS("c"), h2))
		t1 := lat.VT(lat.Tup(lat.Int(0, 5), lat.Int(7, 9)))
		t2 := lat.VT(lat.Tup(lat.Flt(0, 1)))
		t3 := lat.VT(lat.Arr(lat.StrVal("a"), 0, 3))
		v1 := lat.VT(lat.Var(lat.Enum(false, "a", "b"), lat.Int(0, 1)))
		v2 := lat.VT(lat.Var(lat.Flt(0, 1), lat.Enum(false, "b", "a")))
		add("types", lat.VA(t1, t2), lat.VA(t2, t1, t3), lat.VA(lat.VA(t1, t2), lat.VA(t3), lat.VA()), lat.VA(v1, v2), lat.VA(v2, v1),
			lat.VH(v1, t1, v2, t2), lat.VH(lat.VS("a"), lat.VA(t1, t2), lat.VS("b"), lat.VA(t3)))
	}
	nr := 1500
	if thorough {
		nr = 20000
	}
	for i := 0; i < nr; i++ {
		add("random", randomValue(r, es, 3))
	}
	seen := map[string]bool{}
	var out []*val
	for i, s := range specs {
		k := s.String()
		if seen[k] {
			continue
		}
		seen[k] = true
		var pv px.Value
		_, crash := lat.Guarded(func() bool { pv = s.Build(); return true })
		if crash != "" || pv == nil {
			continue
		}
		if dupKeys(pv) {
			// WrapHash does not reject duplicate keys; such a hash is not a value (C09's invariant)
			continue
		}
		out = append(out, &val{spec: s, v: pv, dec: types.VerifDecodeValue(pv), kind: kinds[i]})
	}
	return out
}

// ---------------------------------------------------------------------------------------------

type tyEntry struct {
	spec *lat.Spec // nil for derived types (replayed through the value they derive from)
	from *lat.VSpec
	how  string
	t    px.Type
	dec  *types.VerifTy
	text string
}

func (e *tyEntry) input() map[string]interface{} {
	if e.spec != nil {
		return map[string]interface{}{"t": e.spec}
	}
	return map[string]interface{}{"from": e.from, "how": e.how}
}

func derive(v px.Value, how string) px.Type {
	switch how {
	case "ptype":
		return v.PType()
	case "detailed":
		return px.DetailedValueType(v)
	case "generic-ptype":
		return px.Generalize(v.PType())
	case "generic-detailed":
		return px.Generalize(px.DetailedValueType(v))
	}
	panic("unknown derivation " + how)
}

func hetero(v *types.VerifVal) bool {
	if (v.K != "Arr" && v.K != "Hash") || len(v.Vs) < 2 {
		return false
	}
	k := lat.GVal(v.Vs[0])
	for _, e := range v.Vs[1:] {
		if lat.GVal(e) != k {
			return true
		}
	}
	return false
}

func run(cfg *lib.Config, res *lib.Result) {
	rng := lib.NewRng(cfg.Seed)
	nRandom, nCoqVal, nCoqCommon, nCoqGen := 150, 2400, 3000, 1200
	if cfg.Thorough() {
		nRandom, nCoqVal, nCoqCommon, nCoqGen = 800, 12000, 16000, 4000
	}
	// the pool of the lattice + Float types whose bounds are infinite or the largest finite floats (constructor route)
	u := lat.NewUniverseWith(rng, nRandom, 0, floatEdgeTypes(), nil)
	vals := buildValues(u, rng, cfg.Thorough())
	res.Extra["pool_types"] = len(u.L)
	res.Extra["values"] = len(vals)

	// ---- the type pool: the universe + types derived from values
	var tys []*tyEntry
	for i := range u.L {
		tys = append(tys, &tyEntry{spec: u.Specs[i], t: u.L[i], dec: u.Dec[i], text: u.Text[i]})
	}
	nPool := len(tys)
	seenTy := map[string]bool{}
	for _, e := range tys {
		seenTy[lat.GTy(e.dec)] = true
	}
	type vobs struct {
		pt, dt     px.Type
		pdec, ddec *types.VerifTy
		crash      bool
	}
	obs := make([]vobs, len(vals))
	// ---- D on values: infer / detailed
	for i, x := range vals {
		res.Evaluations++
		res.Count("value." + x.kind)
		in := map[string]interface{}{"kind": "value", "v": x.spec}
		pt, crash := gType(func() px.Type { return x.v.PType() })
		if crash != "" {
			res.Violate(lib.Violation{Clause: "crash", What: fmt.Sprintf("(%s).PType(): %s", lat.ValText(x.v), crash), Input: in, Tags: []string{"crash-ptype"}})
			obs[i].crash = true
			continue
		}
		dt, crash := gType(func() px.Type { return px.DetailedValueType(x.v) })
		if crash != "" {
			res.Violate(lib.Violation{Clause: "crash", What: fmt.Sprintf("DetailedValueType(%s): %s", lat.ValText(x.v), crash), Input: in, Tags: []string{"crash-detailed"}})
			obs[i].crash = true
			continue
		}
		obs[i] = vobs{pt: pt, dt: dt, pdec: types.VerifDecodeType(pt), ddec: types.VerifDecodeType(dt)}
		if hetero(x.dec) {
			res.Nontrivial("v:" + x.spec.String())
		}
		ok, crash := gBool(func() bool { return px.IsInstance(pt, x.v) })
		if crash != "" || !ok {
			res.Violate(lib.Violation{Clause: "infer", What: fmt.Sprintf("%s is not an instance of its inferred type %s %s", lat.ValText(x.v), tyText(pt), crash),
				Input: in, Tags: valueTags(x.dec, "infer")})
		}
		ok, crash = gBool(func() bool { return px.IsInstance(dt, x.v) })
		if crash != "" || !ok {
			res.Violate(lib.Violation{Clause: "detailed", What: fmt.Sprintf("%s is not an instance of its detailed type %s %s", lat.ValText(x.v), tyText(dt), crash),
				Input: in, Tags: valueTags(x.dec, "detailed")})
		}
		// derived types join the pool (first 4000 distinct)
		if len(tys) < nPool+4000 {
			for _, how := range []string{"ptype", "detailed", "generic-ptype", "generic-detailed"} {
				t, crash := gType(func() px.Type { return derive(x.v, how) })
				if crash != "" {
					res.Violate(lib.Violation{Clause: "crash", What: fmt.Sprintf("%s of %s: %s", how, lat.ValText(x.v), crash), Input: in, Tags: []string{"crash-derive"}})
					continue
				}
				d := types.VerifDecodeType(t)
				g := lat.GTy(d)
				if !seenTy[g] {
					seenTy[g] = true
					tys = append(tys, &tyEntry{from: x.spec, how: how, t: t, dec: d, text: tyText(t)})
				}
			}
		}
	}
	res.Extra["types"] = len(tys)

	// ---- D: detailed_sound / detailed_complete — every value against a slice of the type pool:
	// the universe in rotation + the types derived from the value itself and from its neighbours
	perValue := 160
	if cfg.Thorough() {
		perValue = 600
	}
	for i, x := range vals {
		if obs[i].crash {
			continue
		}
		undefEntry := hasUndefEntry(x.dec)
		check := func(te *tyEntry) {
			res.Evaluations++
			asg, c1 := gBool(func() bool { return px.IsAssignable(te.t, obs[i].dt) })
			ins, c2 := gBool(func() bool { return px.IsInstance(te.t, x.v) })
			in := map[string]interface{}{"kind": "detailed", "v": x.spec, "T": te.input()}
			if c1 != "" || c2 != "" {
				res.Violate(lib.Violation{Clause: "crash", What: fmt.Sprintf("T=%s v=%s: %s %s", te.text, lat.ValText(x.v), c1, c2), Input: in, Tags: []string{"crash-detailed-check"}})
				return
			}
			switch {
			case asg && ins:
				res.Count("detailed.both")
			case !asg && !ins:
				res.Count("detailed.neither")
			case asg && !ins:
				res.Violate(lib.Violation{Clause: "detailed_sound",
					What:  fmt.Sprintf("%s accepts %s, the detailed type of %s, but the value is not an instance of it", te.text, tyText(obs[i].dt), lat.ValText(x.v)),
					Input: in, Tags: soundTags(te.dec, obs[i].ddec)})
			case ins && !asg:
				if undefEntry {
					res.Count("detailed.complete.excluded-undef-entry")
				} else {
					res.Violate(lib.Violation{Clause: "detailed_complete",
						What:  fmt.Sprintf("%s is an instance of %s, which does not accept its detailed type %s", lat.ValText(x.v), te.text, tyText(obs[i].dt)),
						Input: in, Tags: completeTags(te.dec, obs[i].ddec, x.dec)})
				}
			}
		}
		for k := 0; k < perValue; k++ {
			check(tys[(i*perValue+k*7)%nPool])
		}
		for k := 0; k < 24 && nPool+k < len(tys); k++ {
			check(tys[nPool+(i*4+k)%(len(tys)-nPool)])
		}
	}

	// ---- D: generalize
	type gobs struct {
		g    px.Type
		gdec *types.VerifTy
	}
	gen := make([]gobs, len(tys))
	for i, te := range tys {
		res.Evaluations++
		in := map[string]interface{}{"kind": "generalize", "T": te.input()}
		g, crash := gType(func() px.Type { return px.Generalize(te.t) })
		if crash != "" {
			res.Violate(lib.Violation{Clause: "crash", What: fmt.Sprintf("Generalize(%s): %s", te.text, crash), Input: in, Tags: []string{"crash-generalize"}})
			continue
		}
		gen[i] = gobs{g, types.VerifDecodeType(g)}
		ok, crash := gBool(func() bool { return px.IsAssignable(g, te.t) })
		if crash != "" || !ok {
			res.Violate(lib.Violation{Clause: "generalize", What: fmt.Sprintf("Generalize(%s) = %s does not accept it %s", te.text, tyText(g), crash),
				Input: in, Tags: generalizeTags(te.dec)})
		} else {
			res.Count("generalize.ok")
		}
	}

	// ---- D: common type — all ordered pairs of the universe (second copy on the right), and pairs among derived types
	type cobs struct {
		a, b int
		c    *types.VerifTy
	}
	var commons []cobs
	commonCheck := func(ia, ib int, ta, tb px.Type, keep bool) {
		res.Evaluations++
		ea, eb := tys[ia], tys[ib]
		in := map[string]interface{}{"kind": "common", "a": ea.input(), "b": eb.input()}
		c, crash := gType(func() px.Type { return types.VerifCommonType(ta, tb) })
		if crash != "" {
			res.Violate(lib.Violation{Clause: "crash", What: fmt.Sprintf("CommonType(%s, %s): %s", ea.text, eb.text, crash), Input: in, Tags: []string{"crash-common"}})
			return
		}
		okA, c1 := gBool(func() bool { return px.IsAssignable(c, ta) })
		okB, c2 := gBool(func() bool { return px.IsAssignable(c, tb) })
		if c1 != "" || c2 != "" || !okA || !okB {
			which := "the first"
			if okA {
				which = "the second"
			}
			res.Violate(lib.Violation{Clause: "common", What: fmt.Sprintf("CommonType(%s, %s) = %s does not accept %s operand %s%s", ea.text, eb.text, tyText(c), which, c1, c2),
				Input: in, Tags: commonTags(ea.dec, eb.dec)})
		}
		cd := types.VerifDecodeType(c)
		if cd.K != ea.dec.K && cd.K != eb.dec.K || (c != ta && c != tb) {
			res.Nontrivial(fmt.Sprintf("c:%d/%d", ia, ib))
			res.Count("common.merged")
		} else {
			res.Count("common.operand")
		}
		if keep {
			commons = append(commons, cobs{ia, ib, cd})
		}
	}
	for a := 0; a < nPool; a++ {
		for b := 0; b < nPool; b++ {
			commonCheck(a, b, u.L[a], u.R[b], true)
		}
	}
	nd := len(tys) - nPool
	pairsDerived := 60000
	if cfg.Thorough() {
		pairsDerived = 600000
	}
	for k := 0; k < pairsDerived && nd > 0; k++ {
		a, b := nPool+rng.Intn(nd), rng.Intn(len(tys))
		if k%2 == 1 {
			a, b = b, a
		}
		commonCheck(a, b, tys[a].t, tys[b].t, k < nCoqCommon)
	}

	// ---- samples
	for k := 0; k < 3; k++ {
		i := (k*7919 + 4001) % len(vals)
		if !obs[i].crash {
			res.Sample(map[string]interface{}{"value": lat.ValText(vals[i].v), "inferred": tyText(obs[i].pt), "detailed": tyText(obs[i].dt)})
		}
	}
	for k := 0; k < 3 && len(commons) > 0; k++ {
		c := commons[(k*104729+77)%len(commons)]
		res.Sample(map[string]interface{}{"a": tys[c.a].text, "b": tys[c.b].text, "common": lat.TyText(c.c)})
	}

	// ---- M: value cases (infer, infer_detailed)
	imports := []string{"Model.Base", "Model.Ty", "Model.Lattice", "Model.Infer", "Corr.CorrC01", "Corr.CorrC04"}
	var vidx []int
	for i, x := range vals {
		if !obs[i].crash && lat.ValInModel(x.dec) && outInModel(obs[i].pdec) && outInModel(obs[i].ddec) && allASCII(nil, x.dec) &&
			!childAliasNested(x.v) {
			vidx = append(vidx, i)
		}
	}
	res.Extra["values_in_model"] = len(vidx)
	shardsV := 2
	for s := 0; s < shardsV; s++ {
		cf := &lib.CasesFile{Imports: imports, Typ: "value * ty * ty",
			Obligations: map[string]string{"infer_model": "infer_mismatches orc cases", "detailed_model": "detailed_mismatches orc cases"}}
		pats, strs := map[string]bool{}, map[string]bool{}
		// every heterogeneous pair/hash2/types case first (they are what the property is about), then a sample
		var pick []int
		for k, i := range vidx {
			if k%shardsV != s {
				continue
			}
			pick = append(pick, i)
		}
		if len(pick) > nCoqVal/shardsV {
			rest := pick
			pick = nil
			for _, i := range rest {
				if vals[i].kind == "types" || vals[i].kind == "hash3" || nonFiniteVal(vals[i].dec) {
					pick = append(pick, i)
				}
			}
			for len(pick) < nCoqVal/shardsV {
				pick = append(pick, rest[rng.Intn(len(rest))])
			}
		}
		for _, i := range pick {
			lat.ValStrings(vals[i].dec, pats, strs)
			lat.TyStrings(obs[i].pdec, pats, strs)
			lat.TyStrings(obs[i].ddec, pats, strs)
			cf.Add(fmt.Sprintf("(%s, %s, %s)", lat.GVal(vals[i].dec), lat.GTy(obs[i].pdec), lat.GTy(obs[i].ddec)),
				map[string]interface{}{"kind": "value", "v": vals[i].spec})
		}
		cf.Prelude = lat.Oracle(pats, strs)
		res.CorrFiles = append(res.CorrFiles, cf.WriteTo(cfg.Out, fmt.Sprintf("cases_value_%d", s)))
	}

	// ---- M: common cases: merged results first, then operands; and data/rich assignability
	modelTy := func(e *tyEntry) bool { return outInModel(e.dec) && allASCII(e.dec, nil) && !aliasNested(e.dec) }
	var cm, co []cobs
	for _, c := range commons {
		if !modelTy(tys[c.a]) || !modelTy(tys[c.b]) || !outInModel(c.c) {
			continue
		}
		// an alias operand is opaque to the lattice model (TOther: accepts nothing, accepted by Any only); that is
		// what the code answers too, except under a negation: NotUndef[T] asks whether the OTHER type accepts Undef,
		// which Data and RichData do.  Alias against a type with a NotUndef inside is outside the model (D covers it).
		if (tys[c.a].dec.K == "Alias" && lat.Contains(tys[c.b].dec, "NotUndef")) || (tys[c.b].dec.K == "Alias" && lat.Contains(tys[c.a].dec, "NotUndef")) {
			continue
		}
		g := lat.GTy(c.c)
		if g == lat.GTy(tys[c.a].dec) || g == lat.GTy(tys[c.b].dec) {
			co = append(co, c)
		} else {
			cm = append(cm, c)
		}
	}
	// every pair with an infinite Float bound on either side goes to the model (the first cases of the two files)
	var cinf []cobs
	for _, c := range append(append([]cobs{}, cm...), co...) {
		if infFloatTy(tys[c.a].dec) || infFloatTy(tys[c.b].dec) {
			cinf = append(cinf, c)
		}
	}
	res.Extra["common_in_model_infinite_float"] = len(cinf)
	res.Extra["common_in_model_merged"] = len(cm)
	res.Extra["common_in_model_operand"] = len(co)
	shardsC := 2
	for s := 0; s < shardsC; s++ {
		cf := &lib.CasesFile{Imports: imports, Typ: "ty * ty * ty", Obligations: map[string]string{"common_model": "common_mismatches orc cases"}}
		pats, strs := map[string]bool{}, map[string]bool{}
		n := nCoqCommon / shardsC
		for k := 0; k < n; k++ {
			var c cobs
			if j := k*shardsC + s; j < len(cinf) && k < n/2 {
				c = cinf[j]
			} else if k%3 != 2 && len(cm) > 0 {
				c = cm[rng.Intn(len(cm))]
			} else if len(co) > 0 {
				c = co[rng.Intn(len(co))]
			} else {
				break
			}
			for _, d := range []*types.VerifTy{tys[c.a].dec, tys[c.b].dec, c.c} {
				lat.TyStrings(d, pats, strs)
			}
			cf.Add(fmt.Sprintf("(%s, %s, %s)", lat.GTy(tys[c.a].dec), lat.GTy(tys[c.b].dec), lat.GTy(c.c)),
				map[string]interface{}{"kind": "common", "a": tys[c.a].input(), "b": tys[c.b].input()})
		}
		cf.Prelude = lat.Oracle(pats, strs)
		res.CorrFiles = append(res.CorrFiles, cf.WriteTo(cfg.Out, fmt.Sprintf("cases_common_%d", s)))
	}

	// ---- M: generalize + Data / RichData assignability
	{
		cf := &lib.CasesFile{Imports: imports, Typ: "ty * ty * (bool * bool)",
			Obligations: map[string]string{"generalize_model": "generalize_mismatches cases", "alias_model": "alias_mismatches orc cases"}}
		pats, strs := map[string]bool{}, map[string]bool{}
		var idx []int
		for i, te := range tys {
			if gen[i].g != nil && modelTy(te) && outInModel(gen[i].gdec) {
				idx = append(idx, i)
			}
		}
		sort.Ints(idx)
		// the types with an infinite Float bound first
		sort.SliceStable(idx, func(x, y int) bool { return infFloatTy(tys[idx[x]].dec) && !infFloatTy(tys[idx[y]].dec) })
		data, rich := types.DefaultDataType(), types.DefaultRichDataType()
		for k := 0; k < nCoqGen && len(idx) > 0; k++ {
			i := idx[k%len(idx)]
			if k >= len(idx) {
				break
			}
			te := tys[i]
			d, _ := gBool(func() bool { return px.IsAssignable(data, te.t) })
			r, _ := gBool(func() bool { return px.IsAssignable(rich, te.t) })
			lat.TyStrings(te.dec, pats, strs)
			cf.Add(fmt.Sprintf("(%s, %s, (%s, %s))", lat.GTy(te.dec), lat.GTy(gen[i].gdec), lib.GBool(d), lib.GBool(r)),
				map[string]interface{}{"kind": "generalize", "T": te.input()})
		}
		cf.Prelude = lat.Oracle(pats, strs)
		res.CorrFiles = append(res.CorrFiles, cf.WriteTo(cfg.Out, "cases_generalize"))
	}

	// ---- D + M: histories of inference on values that share parts (hist.go)
	runHistories(cfg, res, rng.Fork())

	// ---- D + M: leaf types with a second identity behind the printed form (runtime.go)
	runRuntime(cfg, res, theCtx)
}

// ---------------------------------------------------------------------------------------------
// input classes of the open findings (known_findings/C04.json); each tag names exactly one class

// (the class nonfinite-float - NaN / infinite Float bounds and values - is closed: the unbounded Float type reaches from
// -Inf to +Inf and is the type of NaN; those inputs stay in the pools, are ordinary direct checks now and ALL of them that
// lie in the model fragment go to the model)

// infFloatTy: the type has a Float member with an infinite bound (the unbounded Float type included)
func infFloatTy(t *types.VerifTy) bool {
	if t.K == "Float" && (t.Lo <= -lat.FloatKeyInf || t.Hi >= lat.FloatKeyInf) {
		return true
	}
	for _, e := range t.Ts {
		if infFloatTy(e) {
			return true
		}
	}
	for _, e := range t.Keys {
		if infFloatTy(e) {
			return true
		}
	}
	return false
}

// nonFiniteVal: the value holds NaN, +Inf or -Inf (or a type with an infinite Float bound)
func nonFiniteVal(v *types.VerifVal) bool {
	if v.K == "Float" && (v.NaN || v.I <= -lat.FloatKeyInf || v.I >= lat.FloatKeyInf) {
		return true
	}
	if v.K == "Type" && v.T != nil && infFloatTy(v.T) {
		return true
	}
	for _, e := range v.Vs {
		if nonFiniteVal(e) {
			return true
		}
	}
	return false
}

// looseTuple: the type contains a Tuple with more element types than its minimum size (instances shorter
// than the list of element types exist)
func looseTuple(t *types.VerifTy) bool {
	if t.K == "Tuple" && int64(len(t.Ts)) > t.Lo {
		return true
	}
	for _, e := range t.Ts {
		if looseTuple(e) {
			return true
		}
	}
	for _, e := range t.Keys {
		if looseTuple(e) {
			return true
		}
	}
	return false
}

func soundTags(T, D *types.VerifTy) []string {
	switch {
	case lat.Contains(T, "Struct") && lat.Contains(D, "Hash"):
		// the by-specification rule, also below an Iterable (Iterable[Struct[..]] accepts Tuple[Hash[..], ..])
		return []string{"byspec-struct-accepts-hash"}
	case lat.Contains(T, "Iterable"):
		return []string{"iterable"}
	}
	return []string{"sound:" + T.K + "<-" + D.K}
}

func completeTags(T, D *types.VerifTy, v *types.VerifVal) []string {
	switch {
	case lat.Contains(T, "Iterable"):
		return []string{"iterable"}
	case looseTuple(T):
		return []string{"tuple-slots-beyond-size"}
	}
	return []string{"complete:" + T.K + "<-" + D.K}
}

// strayUnit: Unit occurs somewhere else than as the element type of a collection type that admits only the
// empty collection (Array[Unit,0,0], Hash[Unit,Unit,0,0] — the inferred types of [] and {}), e.g. in
// Generalize(Array[Unit,0,0]) = Array[Unit]
func strayUnit(t *types.VerifTy) bool {
	if t.K == "Unit" {
		return true
	}
	if (t.K == "Array" || t.K == "Hash") && t.Hi == 0 {
		for _, e := range t.Ts {
			if e.K != "Unit" && strayUnit(e) {
				return true
			}
		}
		return false
	}
	for _, e := range t.Ts {
		if strayUnit(e) {
			return true
		}
	}
	for _, e := range t.Keys {
		if strayUnit(e) {
			return true
		}
	}
	return false
}

func commonTags(a, b *types.VerifTy) []string {
	if (lat.Contains(a, "Struct") || lat.Contains(b, "Struct")) && (lat.Contains(a, "Hash") || lat.Contains(b, "Hash")) {
		return []string{"byspec-struct-accepts-hash"}
	}
	if strayUnit(a) || strayUnit(b) {
		return []string{"unit-outside-empty-collection"}
	}
	return []string{"common:" + a.K + "+" + b.K}
}

func generalizeTags(t *types.VerifTy) []string {
	return []string{"generalize:" + t.K}
}

// valueTags: narrow tags for known-finding matchers
func valueTags(v *types.VerifVal, clause string) []string {
	if clause == "infer" && typeInside(v, "Struct") && typeInside(v, "Hash") {
		// the inferred element type of a collection of types is a fold of commonType, which is no upper bound where the
		// by-specification rule (a Struct accepts a Hash type) makes assignability non-transitive
		return []string{"byspec-struct-accepts-hash"}
	}
	return []string{clause + ":" + v.K}
}

// typeInside: some type used as a value inside v contains a type of the given kind
func typeInside(v *types.VerifVal, kind string) bool {
	if v == nil {
		return false
	}
	if v.T != nil && lat.Contains(v.T, kind) {
		return true
	}
	for _, e := range v.Vs {
		if typeInside(e, kind) {
			return true
		}
	}
	return false
}

// ---------------------------------------------------------------------------------------------

type tyIn struct {
	T    *lat.Spec  `json:"t"`
	From *lat.VSpec `json:"from"`
	How  string     `json:"how"`
}

func (x *tyIn) build() px.Type {
	if x.T != nil {
		return x.T.Build()
	}
	return derive(x.From.Build(), x.How)
}

// replayInputs reads the `input` of a replay file keeping integers exact (int64 bounds do not survive float64).
func replayInputs(path string) []interface{} {
	f, err := os.Open(path)
	if err != nil {
		panic(err)
	}
	defer f.Close()
	d := json.NewDecoder(f)
	d.UseNumber()
	var body map[string]interface{}
	if err := d.Decode(&body); err != nil {
		panic(err)
	}
	switch in := body["input"].(type) {
	case []interface{}:
		return in
	case nil:
		return nil
	default:
		return []interface{}{in}
	}
}

func remarshal(in interface{}, out interface{}) {
	b, err := json.Marshal(in)
	if err != nil {
		panic(err)
	}
	if err := json.Unmarshal(b, out); err != nil {
		panic(err)
	}
}

func replay(cfg *lib.Config, res *lib.Result) {
	for _, in := range replayInputs(cfg.Replay) {
		var x struct {
			Kind string     `json:"kind"`
			V    *lat.VSpec `json:"v"`
			T    *tyIn      `json:"T"`
			A    *tyIn      `json:"a"`
			B    *tyIn      `json:"b"`
		}
		remarshal(in, &x)
		res.Evaluations++
		switch x.Kind {
		case "history":
			replayHistory(in, res, cfg)
		case "mutable-hash":
			replayMutable(in, res)
		case "runtime":
			replayRuntime(in, res, theCtx)
		case "value":
			v := x.V.Build()
			pt, dt := v.PType(), px.DetailedValueType(v)
			i1, i2 := px.IsInstance(pt, v), px.IsInstance(dt, v)
			fmt.Printf("v = %s\nv.PType() = %s\nDetailedValueType(v) = %s\nIsInstance(PType, v) = %v, IsInstance(Detailed, v) = %v\n", lat.ValText(v), pt, dt, i1, i2)
			if !i1 {
				fmt.Println("FAILS: the value is not an instance of its inferred type")
				res.Violate(lib.Violation{Clause: "infer", What: fmt.Sprintf("%s is not an instance of %s", lat.ValText(v), pt), Input: in})
			}
			if !i2 {
				fmt.Println("FAILS: the value is not an instance of its detailed type")
				res.Violate(lib.Violation{Clause: "detailed", What: fmt.Sprintf("%s is not an instance of %s", lat.ValText(v), dt), Input: in})
			}
		case "detailed":
			v, t := x.V.Build(), x.T.build()
			dt := px.DetailedValueType(v)
			asg, ins := px.IsAssignable(t, dt), px.IsInstance(t, v)
			fmt.Printf("v = %s\nT = %s\nDetailedValueType(v) = %s\nIsAssignable(T, Detailed) = %v, IsInstance(T, v) = %v\n", lat.ValText(v), t, dt, asg, ins)
			if asg && !ins {
				fmt.Println("FAILS: T accepts the detailed type but not the value")
				res.Violate(lib.Violation{Clause: "detailed_sound", What: fmt.Sprintf("%s accepts %s but not %s", t, dt, lat.ValText(v)), Input: in})
			}
			if ins && !asg && !hasUndefEntry(types.VerifDecodeValue(v)) {
				fmt.Println("FAILS: the value is an instance of T but T does not accept the detailed type")
				res.Violate(lib.Violation{Clause: "detailed_complete", What: fmt.Sprintf("%s is an instance of %s which does not accept %s", lat.ValText(v), t, dt), Input: in})
			}
		case "common":
			a, b := x.A.build(), x.B.build()
			c := types.VerifCommonType(a, b)
			okA, okB := px.IsAssignable(c, a), px.IsAssignable(c, b)
			fmt.Printf("a = %s\nb = %s\nCommonType(a, b) = %s\nIsAssignable(c, a) = %v, IsAssignable(c, b) = %v\n", a, b, c, okA, okB)
			if !okA || !okB {
				fmt.Println("FAILS: the common type does not accept both operands")
				res.Violate(lib.Violation{Clause: "common", What: fmt.Sprintf("CommonType(%s, %s) = %s", a, b, c), Input: in})
			}
		case "generalize":
			t := x.T.build()
			g := px.Generalize(t)
			ok := px.IsAssignable(g, t)
			fmt.Printf("t = %s\nGeneralize(t) = %s\nIsAssignable(Generalize(t), t) = %v\n", t, g, ok)
			if !ok {
				fmt.Println("FAILS: the generalisation does not accept the type")
				res.Violate(lib.Violation{Clause: "generalize", What: fmt.Sprintf("Generalize(%s) = %s", t, g), Input: in})
			}
		}
	}
}
