// runtime.go: leaf types with a SECOND IDENTITY behind their printed form.
//
// A Runtime type of the 'go' runtime (types.NewGoRuntimeType, the type of types.WrapRuntime(x) / px.Wrap of a func or chan)
// carries a reflect.Type next to its name, and the name is reflect.Type.String(), which is not unique among types:
// rta/v1.Event and rtb/v1.Event are both "v1.Event", two function-local declarations are both "main.Event".
// The relations of the property are decided by the reflect.Type (IsInstance, IsAssignable when both sides have one), the
// printed form, Equals and the hash key by the name. This family puts pairs of such types - and their values - through
// every clause of the property, alone and below Array / Hash / Tuple / Struct / Variant / Optional / NotUndef / Type /
// Sensitive, next to differently named Go types, interface types, pointer types, Runtime types with a name or a pattern
// (no reflect.Type) and Object types of one name from two loaders.
//
//	D  the six relations of main.go on the implementation (same clauses, same wording)
//	M  Model/InferRuntime.v: rt_asg / rt_inst / rt_of / rt_common / rt_fold against IsAssignable / IsInstance / PType /
//	   CommonType / the element type of WrapValues(vs).PType(), with reflect's AssignableTo and String() as oracle tables
package main

import (
	"fmt"
	"reflect"
	"sort"
	"strings"
	"time"

	"github.com/lyraproj/pcore/pcore"
	"github.com/lyraproj/pcore/px"
	"github.com/lyraproj/pcore/types"
	av1 "verifharness/cmd/c04/rta/v1"
	bv1 "verifharness/cmd/c04/rtb/v1"
	"verifharness/lat"
	"verifharness/lib"
)

// ---------------------------------------------------------------------------------------------
// the Go types

type rtOther struct{ X int }

func (o rtOther) Label() string { return "o" }

type rtChanNamed chan int
type rtChanRecv <-chan int

func localEventA() interface{} {
	type Event struct{ A string }
	return Event{"a"}
}

func localEventB() interface{} {
	type Event struct{ B int }
	return Event{2}
}

type goEntry struct {
	name   string      // stable name used in replay inputs
	sample interface{} // a value of the type; for interface types a nil pointer to the interface
	iface  bool
	pxwrap bool // px.Wrap turns the sample into a Runtime value by itself (func, chan)
}

var goReg []goEntry

func goRegistry() []goEntry {
	if goReg == nil {
		ch := make(chan int)
		goReg = []goEntry{
			{name: "a/v1.Event", sample: av1.Event{Reason: "x"}},
			{name: "b/v1.Event", sample: bv1.Event{Count: 3}},
			{name: "*a/v1.Event", sample: &av1.Event{Reason: "y"}},
			{name: "*b/v1.Event", sample: &bv1.Event{Count: 4}},
			{name: "a/v1.Callback", sample: av1.Callback(func() string { return "a" }), pxwrap: true},
			{name: "b/v1.Callback", sample: bv1.Callback(func(int) {}), pxwrap: true},
			{name: "local-a.Event", sample: localEventA()},
			{name: "local-b.Event", sample: localEventB()},
			{name: "other", sample: rtOther{1}},
			{name: "a/v1.Namer", sample: (*av1.Namer)(nil), iface: true},
			{name: "b/v1.Namer", sample: (*bv1.Namer)(nil), iface: true},
			{name: "a/v1.List", sample: av1.List{1}},
			{name: "b/v1.List", sample: bv1.List{2}},
			{name: "[]int", sample: []int{3}},
			{name: "a/v1.Pipe", sample: make(av1.Pipe), pxwrap: true},
			{name: "b/v1.Pipe", sample: make(bv1.Pipe), pxwrap: true},
			{name: "chan int", sample: ch, pxwrap: true},
			{name: "named chan int", sample: rtChanNamed(ch), pxwrap: true},
			{name: "named <-chan int", sample: rtChanRecv(ch), pxwrap: true},
		}
	}
	return goReg
}

func goIndex(name string) int {
	for i, e := range goRegistry() {
		if e.name == name {
			return i
		}
	}
	panic("unknown Go type " + name)
}

func goTypeOf(i int) reflect.Type {
	e := goRegistry()[i]
	t := reflect.TypeOf(e.sample)
	if e.iface {
		t = t.Elem()
	}
	return t
}

// goID: the index of a reflect.Type in the registry (-1: not there)
func goID(t reflect.Type) int {
	for i := range goRegistry() {
		if goTypeOf(i) == t {
			return i
		}
	}
	return -1
}

// ---------------------------------------------------------------------------------------------
// specs (JSON, replayable)

type rtSpec struct {
	K     string    `json:"k"`               // go | of | rt | obj | Any | Integer | String | Undef | Array | Hash | HashI | Tuple | Struct | Variant | Optional | NotUndef | Type | Sensitive
	Go    string    `json:"go,omitempty"`    // go / of: the Go type
	Route string    `json:"route,omitempty"` // of: wrapruntime | pxwrap
	R     string    `json:"r,omitempty"`     // rt: runtime
	N     string    `json:"n,omitempty"`     // rt: name; obj: which of the two
	P     *string   `json:"p,omitempty"`     // rt: pattern
	Sub   []*rtSpec `json:"sub,omitempty"`
}

type rvSpec struct {
	K     string    `json:"k"` // go | int | str | undef | arr | hash | sens | type | obj
	Go    string    `json:"go,omitempty"`
	Route string    `json:"route,omitempty"`
	I     int64     `json:"i,omitempty"`
	S     string    `json:"s,omitempty"`
	Sub   []*rvSpec `json:"sub,omitempty"` // hash: key, value, key, value, …
	T     *rtSpec   `json:"t,omitempty"`
}

func (s *rtSpec) String() string {
	var b strings.Builder
	b.WriteString(s.K)
	switch s.K {
	case "go", "of":
		b.WriteString("<" + s.Go + "/" + s.Route + ">")
	case "rt":
		b.WriteString("<" + s.R + "," + s.N)
		if s.P != nil {
			b.WriteString(",/" + *s.P + "/")
		}
		b.WriteString(">")
	case "obj":
		b.WriteString("<" + s.N + ">")
	}
	if len(s.Sub) > 0 {
		b.WriteString("[")
		for i, e := range s.Sub {
			if i > 0 {
				b.WriteString(",")
			}
			b.WriteString(e.String())
		}
		b.WriteString("]")
	}
	return b.String()
}

func (s *rvSpec) String() string {
	var b strings.Builder
	b.WriteString(s.K)
	switch s.K {
	case "go":
		b.WriteString("<" + s.Go + "/" + s.Route + ">")
	case "int":
		fmt.Fprintf(&b, "<%d>", s.I)
	case "str", "obj":
		b.WriteString("<" + s.S + ">")
	case "type":
		b.WriteString("<" + s.T.String() + ">")
	}
	if len(s.Sub) > 0 {
		b.WriteString("[")
		for i, e := range s.Sub {
			if i > 0 {
				b.WriteString(",")
			}
			b.WriteString(e.String())
		}
		b.WriteString("]")
	}
	return b.String()
}

// the two Object types of one name: declared by two contexts (two loaders), different attributes
var rtObjTypes [2]px.Type
var rtObjVals [2]px.Value

func rtObjects() {
	if rtObjTypes[0] != nil {
		return
	}
	for i, attr := range []string{"Integer", "String"} {
		i, attr := i, attr
		pcore.Do(func(c px.Context) {
			t := c.ParseType("Object[{name => 'Verif::Thing', attributes => {a => " + attr + "}}]")
			px.AddTypes(c, t)
			rtObjTypes[i] = t
			var arg px.Value = types.WrapInteger(1)
			if i == 1 {
				arg = types.WrapString("x")
			}
			rtObjVals[i] = px.New(c, t, arg)
		})
	}
}

func (s *rtSpec) Build(c px.Context) px.Type {
	sub := func(i int) px.Type { return s.Sub[i].Build(c) }
	switch s.K {
	case "go":
		return types.NewGoRuntimeType(goRegistry()[goIndex(s.Go)].sample)
	case "of":
		return (&rvSpec{K: "go", Go: s.Go, Route: s.Route}).Build(c).PType()
	case "rt":
		var p *types.RegexpType
		if s.P != nil {
			p = types.NewRegexpType(*s.P)
		}
		return types.NewRuntimeType(s.R, s.N, p)
	case "obj":
		rtObjects()
		if s.N == "1" {
			return rtObjTypes[1]
		}
		return rtObjTypes[0]
	case "Any":
		return types.DefaultAnyType()
	case "Integer":
		return types.DefaultIntegerType()
	case "String":
		return types.DefaultStringType()
	case "Undef":
		return types.DefaultUndefType()
	case "Array":
		return types.NewArrayType(sub(0), nil)
	case "Hash":
		return types.NewHashType(types.DefaultStringType(), sub(0), nil)
	case "HashI":
		return types.NewHashType(types.DefaultIntegerType(), sub(0), nil)
	case "Tuple":
		ts := make([]px.Type, len(s.Sub))
		for i := range ts {
			ts[i] = sub(i)
		}
		return types.NewTupleType(ts, nil)
	case "Struct":
		es := make([]*types.StructElement, len(s.Sub))
		for i := range es {
			es[i] = types.NewStructElement(types.WrapString(string(rune('a'+i))), sub(i))
		}
		return types.NewStructType(es)
	case "Variant":
		ts := make([]px.Type, len(s.Sub))
		for i := range ts {
			ts[i] = sub(i)
		}
		return types.NewVariantType(ts...)
	case "Optional":
		return types.NewOptionalType(sub(0))
	case "NotUndef":
		return types.NewNotUndefType(sub(0))
	case "Type":
		return types.NewTypeType(sub(0))
	case "Sensitive":
		return types.NewSensitiveType(sub(0))
	}
	panic("unknown type spec " + s.K)
}

func (s *rvSpec) Build(c px.Context) px.Value {
	switch s.K {
	case "go":
		e := goRegistry()[goIndex(s.Go)]
		if s.Route == "pxwrap" {
			return px.Wrap(c, e.sample)
		}
		return types.WrapRuntime(e.sample)
	case "int":
		return types.WrapInteger(s.I)
	case "str":
		return types.WrapString(s.S)
	case "undef":
		return px.Undef
	case "arr":
		vs := make([]px.Value, len(s.Sub))
		for i, e := range s.Sub {
			vs[i] = e.Build(c)
		}
		return types.WrapValues(vs)
	case "hash":
		var es []*types.HashEntry
		for i := 0; i+1 < len(s.Sub); i += 2 {
			es = append(es, types.WrapHashEntry(s.Sub[i].Build(c), s.Sub[i+1].Build(c)))
		}
		return types.WrapHash(es)
	case "sens":
		return types.WrapSensitive(s.Sub[0].Build(c))
	case "type":
		return s.T.Build(c)
	case "obj":
		rtObjects()
		if s.S == "1" {
			return rtObjVals[1]
		}
		return rtObjVals[0]
	}
	panic("unknown value spec " + s.K)
}

// goTypesIn: the registry indices of the Go types of the Runtime values inside v
func (s *rvSpec) goTypesIn(into map[int]bool) {
	if s.K == "go" {
		into[goIndex(s.Go)] = true
	}
	if s.T != nil {
		s.T.goTypesIn(into)
	}
	for _, e := range s.Sub {
		e.goTypesIn(into)
	}
}

// nonTransitive: among the Go types of the Runtime values inside v there are x, y, z with x assignable to y and y to z but
// not x to z (Go's assignability is not transitive where channel directions or unnamed types are involved; the fold of
// commonType that infers an element type relies on it) - the class of the open finding go-assignability-not-transitive
func nonTransitive(s *rvSpec) bool {
	m := map[int]bool{}
	s.goTypesIn(m)
	return nonTransitiveIDs(m)
}

func (s *rtSpec) goTypesIn(into map[int]bool) {
	if s.K == "go" || s.K == "of" {
		into[goIndex(s.Go)] = true
	}
	for _, e := range s.Sub {
		e.goTypesIn(into)
	}
}

func nonTransitiveIDs(m map[int]bool) bool {
	var ids []int
	for i := range m {
		ids = append(ids, i)
	}
	sort.Ints(ids)
	for _, x := range ids {
		for _, y := range ids {
			for _, z := range ids {
				tx, ty, tz := goTypeOf(x), goTypeOf(y), goTypeOf(z)
				if tx.AssignableTo(ty) && ty.AssignableTo(tz) && !tx.AssignableTo(tz) {
					return true
				}
			}
		}
	}
	return false
}

// hasTypeValue: a type is used as a value somewhere inside v
func hasTypeValue(s *rvSpec) bool {
	if s.K == "type" {
		return true
	}
	for _, e := range s.Sub {
		if hasTypeValue(e) {
			return true
		}
	}
	return false
}

// hasObjectType: an Object type occurs in t
func hasObjectType(t px.Type) (found bool) {
	defer func() {
		if r := recover(); r != nil {
			found = false
		}
	}()
	t.Accept(func(x px.Type) {
		if _, ok := x.(px.ObjectType); ok {
			found = true
		}
	}, nil)
	return
}

// ---------------------------------------------------------------------------------------------
// pools

func rtLeafValues() []*rvSpec {
	var out []*rvSpec
	for _, e := range goRegistry() {
		if e.iface {
			continue
		}
		out = append(out, &rvSpec{K: "go", Go: e.name, Route: "wrapruntime"})
		if e.pxwrap {
			out = append(out, &rvSpec{K: "go", Go: e.name, Route: "pxwrap"})
		}
	}
	return out
}

func rtLeafTypes() []*rtSpec {
	var out []*rtSpec
	for _, e := range goRegistry() {
		out = append(out, &rtSpec{K: "go", Go: e.name})
		if !e.iface {
			out = append(out, &rtSpec{K: "of", Go: e.name, Route: "wrapruntime"})
		}
	}
	x, y := "x", "y"
	out = append(out,
		&rtSpec{K: "rt"}, &rtSpec{K: "rt", R: "go"}, &rtSpec{K: "rt", R: "ruby"}, &rtSpec{K: "rt", R: "ruby", N: "Foo"}, &rtSpec{K: "rt", R: "ruby", N: "Bar"},
		&rtSpec{K: "rt", R: "ruby", N: "Foo", P: &x}, &rtSpec{K: "rt", R: "ruby", N: "Foo", P: &y}, &rtSpec{K: "rt", R: "ruby", N: "Bar", P: &x},
		&rtSpec{K: "rt", R: "go", P: &x}, &rtSpec{K: "rt", R: "ruby", P: &x}, &rtSpec{K: "rt", R: "java", N: "v1.Event"},
		&rtSpec{K: "obj", N: "0"}, &rtSpec{K: "obj", N: "1"},
		&rtSpec{K: "Any"}, &rtSpec{K: "Integer"}, &rtSpec{K: "Undef"})
	return out
}

func w1(k string, s ...*rtSpec) *rtSpec { return &rtSpec{K: k, Sub: s} }

func rtTypePool() []*rtSpec {
	leaves := rtLeafTypes()
	out := append([]*rtSpec{}, leaves...)
	for _, l := range leaves {
		out = append(out, w1("Array", l), w1("Hash", l), w1("HashI", l), w1("Tuple", l), w1("Struct", l), w1("Variant", l, &rtSpec{K: "Integer"}),
			w1("Optional", l), w1("NotUndef", l), w1("Type", l), w1("Sensitive", l), w1("Array", w1("Array", l)), w1("Array", w1("Variant", l, &rtSpec{K: "Undef"})))
	}
	// pairs: the constructor route of every Go type (interfaces included) x itself
	var pl []*rtSpec
	for _, l := range leaves {
		if l.K == "go" || (l.K == "rt" && l.R == "go") || l.K == "obj" {
			pl = append(pl, l)
		}
	}
	for _, a := range pl {
		for _, b := range pl {
			out = append(out, w1("Tuple", a, b), w1("Struct", a, b), w1("Variant", a, b))
		}
	}
	return out
}

func rtValuePool() []*rvSpec {
	leaves := rtLeafValues()
	sc := []*rvSpec{{K: "int", I: 1}, {K: "str", S: "a"}, {K: "undef"}, {K: "obj", S: "0"}, {K: "obj", S: "1"}}
	el := append(append([]*rvSpec{}, leaves...), sc...)
	arr := func(s ...*rvSpec) *rvSpec { return &rvSpec{K: "arr", Sub: s} }
	hsh := func(s ...*rvSpec) *rvSpec { return &rvSpec{K: "hash", Sub: s} }
	S := func(s string) *rvSpec { return &rvSpec{K: "str", S: s} }
	I := func(i int64) *rvSpec { return &rvSpec{K: "int", I: i} }
	out := append([]*rvSpec{}, el...)
	for ia, a := range el {
		out = append(out, arr(a), hsh(S("a"), a), hsh(I(1), a), &rvSpec{K: "sens", Sub: []*rvSpec{a}}, arr(arr(a)))
		for ib, b := range el {
			if a.K != "go" && b.K != "go" {
				continue
			}
			out = append(out, arr(a, b), hsh(I(1), a, I(2), b), arr(arr(a), arr(b)))
			// all shapes for two Go types that print alike, and for every third other pair
			if (a.K == "go" && b.K == "go" && goTypeOf(goIndex(a.Go)).String() == goTypeOf(goIndex(b.Go)).String()) || (ia+ib)%3 == 0 {
				out = append(out, hsh(S("a"), a, S("b"), b), hsh(I(1), a, S(""), b), arr(arr(a, b)),
					arr(&rvSpec{K: "sens", Sub: []*rvSpec{a}}, &rvSpec{K: "sens", Sub: []*rvSpec{b}}), hsh(S("a"), arr(a), S("b"), arr(b)))
			}
		}
	}
	// ordered triples over the Go values reached by WrapRuntime (every Go type once) + an integer
	var tr []*rvSpec
	for _, n := range []string{"a/v1.Event", "b/v1.Event", "*a/v1.Event", "local-a.Event", "local-b.Event", "other", "a/v1.List", "b/v1.List", "[]int",
		"chan int", "named chan int", "named <-chan int"} {
		tr = append(tr, &rvSpec{K: "go", Go: n, Route: "wrapruntime"})
	}
	tr = append(tr, I(1))
	for _, a := range tr {
		for _, b := range tr {
			for _, c := range tr {
				if a == b || b == c || a == c {
					continue
				}
				out = append(out, arr(a, b, c))
			}
		}
	}
	// the types themselves as values (Type[Runtime[…]]: the common type of the contained types)
	lt := rtLeafTypes()
	for i, a := range lt {
		ta := &rvSpec{K: "type", T: a}
		out = append(out, ta)
		for j, b := range lt {
			if (a.K == "go" || a.K == "of" || a.K == "obj") && (b.K == "go" || b.K == "of" || b.K == "obj" || (i+j)%5 == 0) {
				out = append(out, arr(ta, &rvSpec{K: "type", T: b}))
			}
		}
	}
	return out
}

// ---------------------------------------------------------------------------------------------
// decoding a Runtime type for the model: (runtime, name, pattern, index of the reflect.Type)

type rtDec struct {
	runtime, name string
	pat           *string
	g             int // -1: no reflect.Type
	ok            bool
}

func decodeRT(t px.Type) rtDec {
	r, ok := t.(*types.RuntimeType)
	if !ok {
		return rtDec{}
	}
	d := rtDec{g: -1, ok: true}
	if v, _ := r.Get("runtime"); v != nil {
		if s, ok := v.(px.StringValue); ok {
			d.runtime = s.String()
		}
	}
	// Get(`name_or_pattern`) hides the name when there is a pattern: read both from Parameters()
	for i, p := range r.Parameters() {
		if i == 0 {
			continue
		}
		switch p := p.(type) {
		case px.StringValue:
			d.name = p.String()
		case *types.RegexpType:
			s := p.PatternString()
			d.pat = &s
		}
	}
	if gt, ok := r.ReflectType(nil); ok {
		d.g = goID(gt)
		if d.g < 0 {
			d.ok = false
		}
	}
	return d
}

// rtNames: every distinct decoded type is defined once in the prelude of the cases file (the cases refer to it by name)
var rtNames = map[string]string{}
var rtDefs []string

func (d rtDec) gallina() string {
	g := d.term()
	n, ok := rtNames[g]
	if !ok {
		n = fmt.Sprintf("rt%d", len(rtNames))
		rtNames[g] = n
		rtDefs = append(rtDefs, "Definition "+n+" : rty := "+g+".\n")
	}
	return n
}

func (d rtDec) term() string {
	pat := "(@None str)"
	if d.pat != nil {
		pat = "(Some " + lib.GStr(*d.pat) + ")"
	}
	g := "(@None N)"
	if d.g >= 0 {
		g = "(Some " + lib.GN(uint64(d.g)) + ")"
	}
	return fmt.Sprintf("(mkR %s %s %s %s)", lib.GStr(d.runtime), lib.GStr(d.name), pat, g)
}

func (d rtDec) ascii() bool {
	return lat.IsASCII(d.runtime) && lat.IsASCII(d.name) && (d.pat == nil || lat.IsASCII(*d.pat))
}

// ---------------------------------------------------------------------------------------------
// the run

type rtVal struct {
	spec  *rvSpec
	v     px.Value
	pt    px.Type
	dt    px.Type
	text  string
	undef bool
	nt    bool
}

type rtTy struct {
	spec *rtSpec // nil: derived
	from *rvSpec
	how  string
	t    px.Type
	text string
}

func (e *rtTy) goTypesIn(into map[int]bool) {
	if e.spec != nil {
		e.spec.goTypesIn(into)
	} else {
		e.from.goTypesIn(into)
	}
}

func (e *rtTy) input() map[string]interface{} {
	if e.spec != nil {
		return map[string]interface{}{"t": e.spec}
	}
	return map[string]interface{}{"from": e.from, "how": e.how}
}

func rvHasUndefEntry(s *rvSpec) bool {
	if s.K == "hash" {
		for i := 1; i < len(s.Sub); i += 2 {
			if s.Sub[i].K == "undef" {
				return true
			}
		}
	}
	for _, e := range s.Sub {
		if rvHasUndefEntry(e) {
			return true
		}
	}
	return false
}

func rvText(v px.Value) (s string) {
	defer func() {
		if r := recover(); r != nil {
			s = fmt.Sprintf("<unprintable %T>", v)
		}
	}()
	s = v.String()
	if len(s) > 120 {
		s = s[:120] + "..."
	}
	return
}

func rtValueTags(x *rtVal, clause string) []string {
	if clause == "infer" && x.nt {
		return []string{"go-assignability-not-transitive"}
	}
	return []string{"runtime", clause + ":" + x.spec.K}
}

func rtSoundTags(T, D px.Type) []string {
	tags := soundTags(types.VerifDecodeType(T), types.VerifDecodeType(D))
	if strings.HasPrefix(tags[0], "sound:") {
		return append([]string{"runtime"}, tags...)
	}
	return tags
}

// rtCompleteTags: a type used as a value is an instance of the Object types its meta type descends from (Object,
// Pcore::AnyType, …), none of which accepts a Type[..] - open finding object-type-accepts-type-value
func rtCompleteTags(T px.Type, x *rtVal) []string {
	if hasObjectType(T) && hasTypeValue(x.spec) {
		return []string{"object-type-accepts-type-value"}
	}
	return []string{"runtime", "complete"}
}

func rtCommonTags(a, b *rtTy) []string {
	m := map[int]bool{}
	a.goTypesIn(m)
	b.goTypesIn(m)
	if nonTransitiveIDs(m) {
		return []string{"go-assignability-not-transitive"}
	}
	return []string{"runtime", "common"}
}

func runRuntime(cfg *lib.Config, res *lib.Result, c px.Context) {
	t0 := time.Now()
	defer func() { res.Extra["runtime_s"] = time.Since(t0).Seconds() }()
	var vals []*rtVal
	seen := map[string]bool{}
	for _, s := range rtValuePool() {
		k := s.String()
		if seen[k] {
			continue
		}
		seen[k] = true
		var v px.Value
		_, crash := lat.Guarded(func() bool { v = s.Build(c); return true })
		if crash != "" || v == nil {
			res.Count("runtime.value.not-built")
			continue
		}
		vals = append(vals, &rtVal{spec: s, v: v, text: rvText(v), undef: rvHasUndefEntry(s), nt: nonTransitive(s)})
	}
	var tys []*rtTy
	seenT := map[string]bool{}
	for _, s := range rtTypePool() {
		k := s.String()
		if seenT[k] {
			continue
		}
		seenT[k] = true
		var t px.Type
		_, crash := lat.Guarded(func() bool { t = s.Build(c); return true })
		if crash != "" || t == nil {
			res.Count("runtime.type.not-built")
			continue
		}
		tys = append(tys, &rtTy{spec: s, t: t, text: tyText(t)})
	}
	nPool := len(tys)

	// ---- D on values: infer / detailed; derived types join the pool
	for _, x := range vals {
		res.Evaluations++
		res.Count("runtime.value." + x.spec.K)
		in := map[string]interface{}{"kind": "runtime", "what": "value", "v": x.spec}
		pt, crash := gType(func() px.Type { return x.v.PType() })
		if crash != "" {
			res.Violate(lib.Violation{Clause: "crash", What: fmt.Sprintf("(%s).PType(): %s", x.text, crash), Input: in, Tags: []string{"runtime", "crash-ptype"}})
			continue
		}
		dt, crash := gType(func() px.Type { return px.DetailedValueType(x.v) })
		if crash != "" {
			res.Violate(lib.Violation{Clause: "crash", What: fmt.Sprintf("DetailedValueType(%s): %s", x.text, crash), Input: in, Tags: []string{"runtime", "crash-detailed"}})
			continue
		}
		x.pt, x.dt = pt, dt
		if len(x.spec.Sub) >= 2 {
			res.Nontrivial("rv:" + x.spec.String())
		}
		ok, crash := gBool(func() bool { return px.IsInstance(pt, x.v) })
		if crash != "" || !ok {
			res.Violate(lib.Violation{Clause: "infer", What: fmt.Sprintf("%s is not an instance of its inferred type %s %s", x.text, tyText(pt), crash),
				Input: in, Tags: rtValueTags(x, "infer")})
		}
		ok, crash = gBool(func() bool { return px.IsInstance(dt, x.v) })
		if crash != "" || !ok {
			res.Violate(lib.Violation{Clause: "detailed", What: fmt.Sprintf("%s is not an instance of its detailed type %s %s", x.text, tyText(dt), crash),
				Input: in, Tags: rtValueTags(x, "detailed")})
		}
		if len(tys) < nPool+1500 {
			for _, how := range []string{"ptype", "detailed", "generic-ptype"} {
				t, crash := gType(func() px.Type { return derive(x.v, how) })
				if crash != "" {
					res.Violate(lib.Violation{Clause: "crash", What: fmt.Sprintf("%s of %s: %s", how, x.text, crash), Input: in, Tags: []string{"runtime", "crash-derive"}})
					continue
				}
				// printed forms coincide where identities differ: derived types are told apart by origin, capped per text
				k := how + ":" + tyText(t)
				if n := seenT[k]; !n || len(x.spec.Sub) <= 2 && !seenT[k+"#2"] {
					if seenT[k] {
						seenT[k+"#2"] = true
					}
					seenT[k] = true
					tys = append(tys, &rtTy{from: x.spec, how: how, t: t, text: tyText(t)})
				}
			}
		}
	}
	res.Extra["runtime_values"] = len(vals)
	res.Extra["runtime_types"] = len(tys)

	// ---- D: T accepts the detailed type  <=>  instance (converse without undef-valued entry)
	for i, x := range vals {
		if x.dt == nil {
			continue
		}
		check := func(te *rtTy) {
			res.Evaluations++
			asg, c1 := gBool(func() bool { return px.IsAssignable(te.t, x.dt) })
			ins, c2 := gBool(func() bool { return px.IsInstance(te.t, x.v) })
			in := map[string]interface{}{"kind": "runtime", "what": "detailed", "v": x.spec, "T": te.input()}
			if c1 != "" || c2 != "" {
				res.Violate(lib.Violation{Clause: "crash", What: fmt.Sprintf("T=%s v=%s: %s %s", te.text, x.text, c1, c2), Input: in, Tags: []string{"runtime", "crash-detailed-check"}})
				return
			}
			switch {
			case asg && ins:
				res.Count("runtime.detailed.both")
			case !asg && !ins:
				res.Count("runtime.detailed.neither")
			case asg && !ins:
				res.Violate(lib.Violation{Clause: "detailed_sound",
					What:  fmt.Sprintf("%s accepts %s, the detailed type of %s, but the value is not an instance of it", te.text, tyText(x.dt), x.text),
					Input: in, Tags: rtSoundTags(te.t, x.dt)})
			case ins && !asg:
				if x.undef {
					res.Count("runtime.detailed.complete.excluded-undef-entry")
				} else {
					res.Violate(lib.Violation{Clause: "detailed_complete",
						What:  fmt.Sprintf("%s is an instance of %s, which does not accept its detailed type %s", x.text, te.text, tyText(x.dt)),
						Input: in, Tags: rtCompleteTags(te.t, x)})
				}
			}
		}
		// small values meet the whole pool, the others a rotating slice of it + derived neighbours
		if len(x.spec.Sub) <= 1 && (x.spec.K == "go" || len(x.spec.Sub) == 0 || x.spec.Sub[0].K == "go") {
			for _, te := range tys {
				check(te)
			}
		} else {
			for k := 0; k < 220; k++ {
				check(tys[(i*220+k*7)%nPool])
			}
			for k := 0; k < 40 && nPool+k < len(tys); k++ {
				check(tys[nPool+(i*5+k)%(len(tys)-nPool)])
			}
		}
	}

	// ---- D: generalize, common
	for _, te := range tys {
		res.Evaluations++
		in := map[string]interface{}{"kind": "runtime", "what": "generalize", "T": te.input()}
		g, crash := gType(func() px.Type { return px.Generalize(te.t) })
		if crash != "" {
			res.Violate(lib.Violation{Clause: "crash", What: fmt.Sprintf("Generalize(%s): %s", te.text, crash), Input: in, Tags: []string{"runtime", "crash-generalize"}})
			continue
		}
		if ok, crash := gBool(func() bool { return px.IsAssignable(g, te.t) }); crash != "" || !ok {
			res.Violate(lib.Violation{Clause: "generalize", What: fmt.Sprintf("Generalize(%s) = %s does not accept it %s", te.text, tyText(g), crash), Input: in, Tags: []string{"runtime", "generalize"}})
		}
	}
	type rcommon struct {
		a, b int
		c    px.Type
	}
	var commons []rcommon
	commonCheck := func(ia, ib int) {
		res.Evaluations++
		ea, eb := tys[ia], tys[ib]
		in := map[string]interface{}{"kind": "runtime", "what": "common", "a": ea.input(), "b": eb.input()}
		cm, crash := gType(func() px.Type { return types.VerifCommonType(ea.t, eb.t) })
		if crash != "" {
			res.Violate(lib.Violation{Clause: "crash", What: fmt.Sprintf("CommonType(%s, %s): %s", ea.text, eb.text, crash), Input: in, Tags: []string{"runtime", "crash-common"}})
			return
		}
		okA, c1 := gBool(func() bool { return px.IsAssignable(cm, ea.t) })
		okB, c2 := gBool(func() bool { return px.IsAssignable(cm, eb.t) })
		if c1 != "" || c2 != "" || !okA || !okB {
			which := "the first"
			if okA {
				which = "the second"
			}
			res.Violate(lib.Violation{Clause: "common", What: fmt.Sprintf("CommonType(%s, %s) = %s does not accept %s operand %s%s", ea.text, eb.text, tyText(cm), which, c1, c2),
				Input: in, Tags: rtCommonTags(ea, eb)})
		}
		res.Count("runtime.common")
		if _, ok := ea.t.(*types.RuntimeType); ok {
			if _, ok := eb.t.(*types.RuntimeType); ok {
				commons = append(commons, rcommon{ia, ib, cm})
			}
		}
	}
	nLeaf := len(rtLeafTypes())
	for a := 0; a < len(tys); a++ {
		for b := 0; b < len(tys); b++ {
			// every pair with a leaf on one side; wrapper x wrapper in rotation
			if a < nLeaf || b < nLeaf || (a*31+b)%97 == 0 {
				commonCheck(a, b)
			}
		}
	}

	// ---- M: the Runtime model (Model/InferRuntime.v)
	reg := goRegistry()
	var gt, gn []string
	for i := range reg {
		gn = append(gn, fmt.Sprintf("(%s, %s)", lib.GN(uint64(i)), lib.GStr(goTypeOf(i).String())))
		for j := range reg {
			if goTypeOf(i).AssignableTo(goTypeOf(j)) {
				gt = append(gt, fmt.Sprintf("(%s, %s)", lib.GN(uint64(i)), lib.GN(uint64(j))))
			}
		}
	}
	cf := &lib.CasesFile{Imports: []string{"Model.Base", "Model.InferRuntime", "Corr.CorrC04"}, Typ: "rcase",
		Obligations: map[string]string{"runtime_model": "runtime_mismatches gtab gnames cases"}}
	tables := "Definition gtab : list (N * N) := " + lib.GList(gt, "N * N") + ".\nDefinition gnames : list (N * str) := " + lib.GList(gn, "N * str") + ".\n"
	cf.Prelude = tables
	var leafT []*rtTy
	var leafD []rtDec
	for _, te := range tys[:nPool] {
		if d := decodeRT(te.t); d.ok && d.ascii() {
			leafT = append(leafT, te)
			leafD = append(leafD, d)
		}
	}
	for i, a := range leafT {
		for j, b := range leafT {
			if leafD[i].g < 0 && leafD[j].g < 0 && leafD[i].runtime != leafD[j].runtime && (i+j)%2 == 1 {
				continue
			}
			asg, crash := gBool(func() bool { return px.IsAssignable(a.t, b.t) })
			if crash != "" {
				continue
			}
			cf.Add(fmt.Sprintf("(RAsg %s %s %s)", leafD[i].gallina(), leafD[j].gallina(), lib.GBool(asg)),
				map[string]interface{}{"kind": "runtime", "what": "asg", "a": a.input(), "b": b.input()})
		}
	}
	for _, x := range vals {
		if x.spec.K != "go" || x.pt == nil {
			continue
		}
		g := goIndex(x.spec.Go)
		if d := decodeRT(x.pt); d.ok && d.ascii() {
			cf.Add(fmt.Sprintf("(ROf %s %s)", lib.GN(uint64(g)), d.gallina()), map[string]interface{}{"kind": "runtime", "what": "value", "v": x.spec})
		}
		for i, a := range leafT {
			ins, crash := gBool(func() bool { return px.IsInstance(a.t, x.v) })
			if crash != "" {
				continue
			}
			cf.Add(fmt.Sprintf("(RInst %s %s %s)", leafD[i].gallina(), lib.GN(uint64(g)), lib.GBool(ins)),
				map[string]interface{}{"kind": "runtime", "what": "detailed", "v": x.spec, "T": a.input()})
		}
	}
	for k, cm := range commons {
		if k%3 != 0 && tyText(tys[cm.a].t) != tyText(tys[cm.b].t) {
			continue
		}
		da, db, dc := decodeRT(tys[cm.a].t), decodeRT(tys[cm.b].t), decodeRT(cm.c)
		if cm.a >= nPool || cm.b >= nPool || !da.ok || !db.ok || !dc.ok || !da.ascii() || !db.ascii() {
			continue
		}
		cf.Add(fmt.Sprintf("(RCommon %s %s %s)", da.gallina(), db.gallina(), dc.gallina()),
			map[string]interface{}{"kind": "runtime", "what": "common", "a": tys[cm.a].input(), "b": tys[cm.b].input()})
	}
	// the element type inferred for an array of Runtime values = the fold of commonType over their types
	for _, x := range vals {
		if x.spec.K != "arr" || x.pt == nil || len(x.spec.Sub) == 0 {
			continue
		}
		var ids []string
		all := true
		for _, e := range x.spec.Sub {
			if e.K != "go" {
				all = false
				break
			}
			ids = append(ids, lib.GN(uint64(goIndex(e.Go))))
		}
		at, ok := x.pt.(*types.ArrayType)
		if !all || !ok || (len(ids) == 3 && !x.nt && (goIndex(x.spec.Sub[0].Go)+2*goIndex(x.spec.Sub[1].Go)+3*goIndex(x.spec.Sub[2].Go))%3 != 0) {
			continue
		}
		if d := decodeRT(at.ElementType()); d.ok && d.ascii() {
			cf.Add(fmt.Sprintf("(RFold %s %s)", lib.GList(ids, "N"), d.gallina()), map[string]interface{}{"kind": "runtime", "what": "value", "v": x.spec})
		}
	}
	cf.Prelude += strings.Join(rtDefs, "")
	res.Extra["runtime_model_cases"] = len(cf.Cases)
	res.CorrFiles = append(res.CorrFiles, cf.WriteTo(cfg.Out, "cases_runtime"))
	// ---- M: the container layer over the Runtime leaves (Model/InferRuntimeColl.v), rtcoll.go
	runRtColl(cfg, res, vals, tys, tables)
}

// ---------------------------------------------------------------------------------------------

type rtTyIn struct {
	T    *rtSpec `json:"t"`
	From *rvSpec `json:"from"`
	How  string  `json:"how"`
}

func (x *rtTyIn) build(c px.Context) px.Type {
	if x.T != nil {
		return x.T.Build(c)
	}
	return derive(x.From.Build(c), x.How)
}

func replayRuntime(in interface{}, res *lib.Result, c px.Context) {
	var x struct {
		What string  `json:"what"`
		V    *rvSpec `json:"v"`
		T    *rtTyIn `json:"T"`
		A    *rtTyIn `json:"a"`
		B    *rtTyIn `json:"b"`
	}
	remarshal(in, &x)
	goTypes := func(v *rvSpec) {
		m := map[int]bool{}
		v.goTypesIn(m)
		var ids []int
		for i := range m {
			ids = append(ids, i)
		}
		sort.Ints(ids)
		for _, i := range ids {
			t := goTypeOf(i)
			fmt.Printf("  Go type %q: reflect.Type.String() = %s, PkgPath = %q\n", goRegistry()[i].name, t.String(), t.PkgPath())
		}
	}
	switch x.What {
	case "value":
		v := x.V.Build(c)
		goTypes(x.V)
		pt, dt := v.PType(), px.DetailedValueType(v)
		i1, i2 := px.IsInstance(pt, v), px.IsInstance(dt, v)
		fmt.Printf("v = %s   (spec %s)\nv.PType() = %s\nDetailedValueType(v) = %s\nIsInstance(PType, v) = %v, IsInstance(Detailed, v) = %v\n", rvText(v), x.V, pt, dt, i1, i2)
		if !i1 {
			fmt.Println("FAILS: the value is not an instance of its inferred type")
			res.Violate(lib.Violation{Clause: "infer", What: fmt.Sprintf("%s is not an instance of %s", rvText(v), pt), Input: in})
		}
		if !i2 {
			fmt.Println("FAILS: the value is not an instance of its detailed type")
			res.Violate(lib.Violation{Clause: "detailed", What: fmt.Sprintf("%s is not an instance of %s", rvText(v), dt), Input: in})
		}
	case "detailed":
		v, t := x.V.Build(c), x.T.build(c)
		goTypes(x.V)
		dt := px.DetailedValueType(v)
		asg, ins := px.IsAssignable(t, dt), px.IsInstance(t, v)
		fmt.Printf("v = %s   (spec %s)\nT = %s   (%+v)\nDetailedValueType(v) = %s\nIsAssignable(T, Detailed) = %v, IsInstance(T, v) = %v\n", rvText(v), x.V, t, describeIn(x.T), dt, asg, ins)
		if asg && !ins {
			fmt.Println("FAILS: T accepts the detailed type but not the value")
			res.Violate(lib.Violation{Clause: "detailed_sound", What: fmt.Sprintf("%s accepts %s but not %s", t, dt, rvText(v)), Input: in})
		}
		if ins && !asg && !rvHasUndefEntry(x.V) {
			fmt.Println("FAILS: the value is an instance of T but T does not accept the detailed type")
			res.Violate(lib.Violation{Clause: "detailed_complete", What: fmt.Sprintf("%s is an instance of %s which does not accept %s", rvText(v), t, dt), Input: in})
		}
	case "common":
		a, b := x.A.build(c), x.B.build(c)
		cm := types.VerifCommonType(a, b)
		okA, okB := px.IsAssignable(cm, a), px.IsAssignable(cm, b)
		fmt.Printf("a = %s   (%s)\nb = %s   (%s)\nCommonType(a, b) = %s\nIsAssignable(c, a) = %v, IsAssignable(c, b) = %v\n", a, describeIn(x.A), b, describeIn(x.B), cm, okA, okB)
		if !okA || !okB {
			fmt.Println("FAILS: the common type does not accept both operands")
			res.Violate(lib.Violation{Clause: "common", What: fmt.Sprintf("CommonType(%s, %s) = %s", a, b, cm), Input: in})
		}
	case "generalize":
		t := x.T.build(c)
		g := px.Generalize(t)
		ok := px.IsAssignable(g, t)
		fmt.Printf("t = %s   (%s)\nGeneralize(t) = %s\nIsAssignable(Generalize(t), t) = %v\n", t, describeIn(x.T), g, ok)
		if !ok {
			fmt.Println("FAILS: the generalisation does not accept the type")
			res.Violate(lib.Violation{Clause: "generalize", What: fmt.Sprintf("Generalize(%s) = %s", t, g), Input: in})
		}
	case "asg":
		a, b := x.A.build(c), x.B.build(c)
		fmt.Printf("a = %s   (%s)\nb = %s   (%s)\nIsAssignable(a, b) = %v\n", a, describeIn(x.A), b, describeIn(x.B), px.IsAssignable(a, b))
	}
}

func describeIn(x *rtTyIn) string {
	if x == nil {
		return ""
	}
	if x.T != nil {
		return x.T.String()
	}
	return x.How + " of " + x.From.String()
}
