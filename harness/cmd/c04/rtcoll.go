package main

// The model tie of Model/InferRuntimeColl.v (Array / Hash / Tuple / Variant / Optional over Runtime, Integer, String and
// Undef leaves): px.DetailedValueType, px.IsInstance and px.IsAssignable of the runtime family (runtime.go) as cases of
// cases_runtime_coll.v, compared with rc_detailed / rc_inst / rc_asg by vm_compute.

import (
	"fmt"
	"strings"

	"github.com/lyraproj/pcore/px"
	"github.com/lyraproj/pcore/types"
	"verifharness/lat"
	"verifharness/lib"
)

// encCT: a type of the layer as a term of `ct`; false when a constructor outside the layer occurs in it
func encCT(t px.Type) (string, bool) {
	list := func(ts []px.Type) (string, bool) {
		out := make([]string, len(ts))
		for i, e := range ts {
			s, ok := encCT(e)
			if !ok {
				return "", false
			}
			out[i] = s
		}
		return lib.GList(out, "ct"), true
	}
	switch t := t.(type) {
	case *types.RuntimeType:
		d := decodeRT(t)
		if !d.ok || !d.ascii() {
			return "", false
		}
		return "(CRt " + d.gallina() + ")", true
	case *types.ArrayType:
		e, ok := encCT(t.ElementType())
		if !ok {
			return "", false
		}
		return fmt.Sprintf("(CArr %s %s %s)", e, lib.GZ(t.Size().Min()), lib.GZ(t.Size().Max())), true
	case *types.HashType:
		k, ok1 := encCT(t.KeyType())
		v, ok2 := encCT(t.ValueType())
		if !ok1 || !ok2 {
			return "", false
		}
		return fmt.Sprintf("(CHash %s %s %s %s)", k, v, lib.GZ(t.Size().Min()), lib.GZ(t.Size().Max())), true
	case *types.TupleType:
		l, ok := list(t.Types())
		if !ok {
			return "", false
		}
		d := types.VerifDecodeType(t) // givenOrActualSize
		return fmt.Sprintf("(CTuple %s %s %s)", l, lib.GZ(d.Lo), lib.GZ(d.Hi)), true
	case *types.VariantType:
		l, ok := list(t.Types())
		if !ok {
			return "", false
		}
		return "(CVariant " + l + ")", true
	case *types.OptionalType:
		e, ok := encCT(t.ContainedType())
		if !ok {
			return "", false
		}
		return "(COptional " + e + ")", true
	}
	d := types.VerifDecodeType(t)
	switch d.K {
	case "Any":
		return "CAny", true
	case "Unit":
		return "CUnit", true
	case "Undef":
		return "CUndef", true
	case "String":
		return "CString", true
	case "Integer":
		return fmt.Sprintf("(CInt %s %s)", lib.GZ(d.Lo), lib.GZ(d.Hi)), true
	case "StringVal":
		if !lat.IsASCII(d.S) {
			return "", false
		}
		return "(CStrVal " + lib.GStr(d.S) + ")", true
	}
	return "", false
}

// encRV: a value of the layer as a term of `rv`
func encRV(s *rvSpec) (string, bool) {
	switch s.K {
	case "go":
		return "(RVGo " + lib.GN(uint64(goIndex(s.Go))) + ")", true
	case "int":
		return "(RVInt " + lib.GZ(s.I) + ")", true
	case "str":
		if !lat.IsASCII(s.S) {
			return "", false
		}
		return "(RVStr " + lib.GStr(s.S) + ")", true
	case "undef":
		return "RVUndef", true
	case "arr":
		out := make([]string, len(s.Sub))
		for i, e := range s.Sub {
			x, ok := encRV(e)
			if !ok {
				return "", false
			}
			out[i] = x
		}
		return "(RVArr " + lib.GList(out, "rv") + ")", true
	case "hash":
		var out []string
		for i := 0; i+1 < len(s.Sub); i += 2 {
			k, ok1 := encRV(s.Sub[i])
			v, ok2 := encRV(s.Sub[i+1])
			if !ok1 || !ok2 {
				return "", false
			}
			out = append(out, lib.GPair(k, v))
		}
		return "(RVHash " + lib.GList(out, "rv * rv") + ")", true
	}
	return "", false
}

func runRtColl(cfg *lib.Config, res *lib.Result, vals []*rtVal, tys []*rtTy, tables string) {
	cf := &lib.CasesFile{Imports: []string{"Model.Base", "Model.InferRuntime", "Model.InferRuntimeColl", "Corr.CorrC04", "Corr.CorrC04Coll"}, Typ: "ccase",
		Obligations: map[string]string{"runtime_coll_model": "coll_mismatches gtab gnames cases"}}
	type ev struct {
		x    *rtVal
		term string
	}
	type et struct {
		t    *rtTy
		term string
		leaf bool
	}
	var evs []ev
	var ets []et
	for _, x := range vals {
		if x.dt == nil {
			continue
		}
		if s, ok := encRV(x.spec); ok {
			evs = append(evs, ev{x, s})
		}
	}
	for _, te := range tys {
		if s, ok := encCT(te.t); ok {
			_, leaf := te.t.(*types.RuntimeType)
			ets = append(ets, et{te, s, leaf})
		}
	}
	off := int(cfg.Seed % 7)
	// the detailed type of every container value of the layer (leaves: cases_runtime.v)
	stride := len(evs)/1200 + 1
	for i, e := range evs {
		if len(e.x.spec.Sub) == 0 || ((i+off)%stride != 0 && !e.x.nt) {
			continue
		}
		if d, ok := encCT(e.x.dt); ok {
			cf.Add(fmt.Sprintf("(CDet %s %s)", e.term, d), map[string]interface{}{"kind": "runtime", "what": "value", "v": e.x.spec})
			res.Count("runtime.coll.detailed")
		}
	}
	// IsInstance / IsAssignable: every selected value against its own inferred and detailed type and those of its neighbour
	// (mostly accepted), and against pool types in rotation (mostly rejected); the leaf x leaf questions: cases_runtime.v
	type tt struct {
		t    px.Type
		term string
		in   map[string]interface{}
	}
	own := func(e ev) []tt {
		var out []tt
		for _, how := range []string{"ptype", "detailed", "generic-ptype"} {
			t := e.x.pt
			if how == "detailed" {
				t = e.x.dt
			} else if how == "generic-ptype" {
				g, crash := gType(func() px.Type { return derive(e.x.v, how) })
				if crash != "" {
					continue
				}
				t = g
			}
			if s, ok := encCT(t); ok {
				out = append(out, tt{t, s, map[string]interface{}{"from": e.x.spec, "how": how}})
			}
		}
		return out
	}
	inst := func(T tt, e ev) {
		ins, crash := gBool(func() bool { return px.IsInstance(T.t, e.x.v) })
		if crash != "" {
			return
		}
		cf.Add(fmt.Sprintf("(CInst %s %s %s)", T.term, e.term, lib.GBool(ins)),
			map[string]interface{}{"kind": "runtime", "what": "detailed", "v": e.x.spec, "T": T.in})
		res.Count("runtime.coll.inst." + lib.GBool(ins))
	}
	asgn := func(a, b tt) {
		asg, crash := gBool(func() bool { return px.IsAssignable(a.t, b.t) })
		if crash != "" {
			return
		}
		cf.Add(fmt.Sprintf("(CAsg %s %s %s)", a.term, b.term, lib.GBool(asg)),
			map[string]interface{}{"kind": "runtime", "what": "asg", "a": a.in, "b": b.in})
		res.Count("runtime.coll.asg." + lib.GBool(asg))
	}
	pool := func(i int) tt { T := ets[i%len(ets)]; return tt{T.t.t, T.term, T.t.input()} }
	stride = len(evs)/170 + 1
	for i, e := range evs {
		if len(e.x.spec.Sub) == 0 || (i+off)%stride != 0 {
			continue
		}
		mine := own(e)
		theirs := own(evs[(i+stride)%len(evs)])
		for _, T := range mine {
			inst(T, e)
		}
		for _, T := range theirs {
			inst(T, e)
		}
		inst(pool(i*13+off), e)
		inst(pool(i*29+off+5), e)
		for _, a := range mine {
			for _, b := range mine {
				if a.term != b.term {
					asgn(a, b)
				}
			}
			for _, b := range theirs {
				asgn(a, b)
			}
			asgn(pool(i*17+off), a)
		}
	}
	// IsAssignable between pool types (wrappers of the leaf types)
	n := 0
	for i := range ets {
		for k := 0; k < 2 && n < 400; k++ {
			a, b := ets[i], ets[(i*7+k*211+off+1)%len(ets)]
			if a.leaf && b.leaf {
				continue
			}
			asgn(tt{a.t.t, a.term, a.t.input()}, tt{b.t.t, b.term, b.t.input()})
			n++
		}
	}
	cf.Prelude = tables + strings.Join(rtDefs, "")
	res.Extra["runtime_coll_model_cases"] = len(cf.Cases)
	res.CorrFiles = append(res.CorrFiles, cf.WriteTo(cfg.Out, "cases_runtime_coll"))
}
