// Package v1 (…/rtb/v1): see …/rta/v1. Same type names, different types.
package v1

type Event struct{ Count int }

func (e Event) Size() int { return e.Count }

type Callback func(int)

type Pipe chan string

type Namer interface{ Size() int }

type List []int
