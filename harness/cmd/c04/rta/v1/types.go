// Package v1 (…/rta/v1): Go types whose reflect.Type.String() coincides with that of DIFFERENT types declared in
// …/rtb/v1 (reflect prints the last path element of the package only: both are "v1.Event", "v1.Callback", …).
package v1

type Event struct{ Reason string }

func (e Event) Label() string { return e.Reason }

type Callback func() string

type Pipe chan int

type Namer interface{ Label() string }

type List []int
