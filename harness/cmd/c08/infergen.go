package main

// Generators of type histories (see infer.go).
//
// The class covered: TWO operations that infer a type (PType, DetailedValueType, CommonType, generalisation)
// whose operands SHARE A PART - the same collection object nested in two other collections (its cached type is
// reused by both inferences), or the same type object given to two CommonType calls - for every size 0..10 of the
// shared part, every way of nesting it (array, hash, built with the List operations, two levels deep), every kind
// of neighbour (other strings, the same strings, integers, the part itself) and types that come from the parser
// with and without spare capacity.

import (
	"fmt"

	"verifharness/collh"
	"verifharness/lib"
)

type tb struct{ ops []TOp }

func (b *tb) push(o TOp) int {
	b.ops = append(b.ops, o)
	return len(b.ops) - 1
}
func (b *tb) lit(p *collh.PV) int       { return b.push(TOp{Kind: "Lit", P: p}) }
func (b *tb) arr(rs ...int) int         { return b.push(TOp{Kind: "Arr", Rs: rs}) }
func (b *tb) add(r, x int) int          { return b.push(TOp{Kind: "Add", R: r, X: x}) }
func (b *tb) at(r, i int) int           { return b.push(TOp{Kind: "At", R: r, I: i}) }
func (b *tb) sub(r, i int) int          { return b.push(TOp{Kind: "Sub", R: r, I: i}) }
func (b *tb) un(kind string, r int) int { return b.push(TOp{Kind: kind, R: r}) }
func (b *tb) common(r, x int) int       { return b.push(TOp{Kind: "Common", R: r, X: x}) }
func (b *tb) val(o collh.Op) int        { return b.push(TOp{Kind: "Val", V: &o}) }
func (b *tb) hash(ks []string, rs ...int) int {
	return b.push(TOp{Kind: "Hash", Ks: ks, Rs: rs})
}
func (b *tb) enum(ci bool, spare int, ss ...string) int {
	return b.push(TOp{Kind: "EnumLit", S: ss, CI: ci, I: spare})
}

var abc = []string{"a", "b", "c", "d", "e", "f", "g", "h", "i", "j", "k", "l"}

func strArr(ss ...string) *collh.PV {
	a := &collh.PV{K: "a"}
	for _, s := range ss {
		a.L = append(a.L, collh.St(s))
	}
	return a
}

type maker func(b *tb) int

// the shared parts
func parts() []maker {
	var ps []maker
	for n := 0; n <= 10; n++ {
		n := n
		ps = append(ps, func(b *tb) int { return b.lit(strArr(abc[:n]...)) })
	}
	I, S, A, E, H := collh.In, collh.St, collh.Ar, collh.En, collh.Ha
	ps = append(ps,
		func(b *tb) int { return b.lit(strArr("a", "b", "a", "c", "b")) },
		func(b *tb) int { return b.lit(A(strArr("a", "b", "c"))) },
		func(b *tb) int { return b.lit(H(E(S("k"), S("a")), E(S("l"), S("b")), E(S("m"), S("c")))) },
		func(b *tb) int { return b.lit(H(E(S("k"), strArr("a", "b", "c")), E(I(1), strArr("d")))) },
		func(b *tb) int { return b.lit(A(I(1), I(2), I(3))) },
		func(b *tb) int { return b.lit(A(S("a"), I(1), S("b"), S("c"))) },
		func(b *tb) int { x := b.lit(strArr("a", "b")); return b.add(x, b.lit(S("c"))) },
		func(b *tb) int { return b.at(b.lit(A(strArr("a", "b", "c", "d", "e"), strArr("q"))), 0) },
		func(b *tb) int { return b.val(collh.Op{Kind: "Build", I: 6, P: strArr("a", "b", "c")}) },
		func(b *tb) int { return b.val(collh.Op{Kind: "Parse", P: strArr("a", "b", "c", "d", "e")}) },
	)
	return ps
}

// the neighbours of the shared part in the two containers
func siblingPairs() [][2]maker {
	y := func(b *tb) int { return b.lit(strArr("y")) }
	z := func(b *tb) int { return b.lit(strArr("z")) }
	yz := func(b *tb) int { return b.lit(strArr("y", "z")) }
	a := func(b *tb) int { return b.lit(strArr("a", "y")) }
	sc := func(b *tb) int { return b.lit(collh.St("y")) }
	in := func(b *tb) int { return b.lit(collh.Ar(collh.In(7))) }
	return [][2]maker{{y, z}, {y, nil}, {a, yz}, {sc, z}, {in, y}}
}

// the ways of nesting the part p next to s
func shapes() []func(b *tb, p, s int) int {
	return []func(b *tb, p, s int) int{
		func(b *tb, p, s int) int { return b.arr(p, s) },
		func(b *tb, p, s int) int { return b.arr(s, p) },
		func(b *tb, p, s int) int { return b.hash([]string{"first", "second"}, p, s) },
		func(b *tb, p, s int) int { return b.add(b.arr(p), s) },
		func(b *tb, p, s int) int { return b.arr(b.arr(p), b.arr(s)) },
		func(b *tb, p, s int) int { return b.hash([]string{"k"}, b.arr(p, s)) },
	}
}

// exhaustiveT: every (part, neighbours, nesting 1, nesting 2): build the first container, infer its type, build the
// second container around the same part, infer its type; then the same on the types themselves.
func exhaustiveT(r *trunner) {
	ps, sps, shs := parts(), siblingPairs(), shapes()
	idx := 0
	budget := 260
	total := len(ps) * (len(shs)*len(shs) + (len(sps)-1)*2*len(shs) + len(sps)*3)
	stride := total/budget + 1
	run := func(b *tb) {
		idx++
		r.check(b.ops, idx%3 == 0, idx%stride == 0, "share-a-part")
	}
	for _, p := range ps {
		for si, sp := range sps {
			for i1, sh1 := range shs {
				for i2, sh2 := range shs {
					// all 36 pairs of nestings with the first pair of neighbours, the same nesting twice and
					// each nesting followed by the next one with the others
					if si > 0 && i2 != i1 && i2 != (i1+1)%len(shs) {
						continue
					}
					b := &tb{}
					x := p(b)
					s1 := sp[0](b)
					s2 := s1
					if sp[1] != nil {
						s2 = sp[1](b)
					}
					c1 := sh1(b, x, s1)
					first := "PType"
					if (i1+i2)%5 == 4 {
						first = "Detailed"
					}
					b.un(first, c1)
					c2 := sh2(b, x, s2)
					b.un("PType", c2)
					run(b)
				}
			}
			// on the types: the type of the part is an operand of several CommonType calls
			for variant := 0; variant < 3; variant++ {
				b := &tb{}
				x := p(b)
				s1 := sp[0](b)
				s2 := s1
				if sp[1] != nil {
					s2 = sp[1](b)
				}
				t, u1, u2 := b.un("PType", x), b.un("PType", s1), b.un("PType", s2)
				switch variant {
				case 0:
					c1 := b.common(t, u1)
					b.common(t, u2)
					b.common(c1, u2)
					b.common(c1, u1)
				case 1:
					b.common(u1, t)
					c2 := b.common(u2, t)
					b.common(c2, u1)
					b.common(t, c2)
				case 2:
					e, f1, f2 := b.sub(t, 0), b.sub(u1, 0), b.sub(u2, 0)
					c1 := b.common(e, f1)
					b.common(e, f2)
					b.common(f1, e)
					b.common(c1, f2)
					b.common(c1, f2)
				}
				run(b)
			}
		}
	}
	// types from the parser: with the trailing flag the members have one spare cell
	for n := 0; n <= 6; n++ {
		for spare := 0; spare <= 1; spare++ {
			for _, ci := range []bool{false, true} {
				for variant := 0; variant < 3; variant++ {
					b := &tb{}
					e := b.enum(ci, spare, abc[:n]...)
					ty, tz := b.un("PType", b.lit(collh.St("y"))), b.un("PType", b.lit(collh.St("Z")))
					switch variant {
					case 0:
						c1 := b.common(e, ty)
						b.common(e, tz)
						b.common(c1, tz)
						b.common(c1, tz)
					case 1:
						c1 := b.common(ty, e)
						b.common(tz, e)
						b.common(tz, c1)
						b.common(c1, ty)
					case 2:
						e2 := b.enum(false, 1, "y", "z")
						c1 := b.common(e, e2)
						b.common(e, b.enum(ci, spare, "Z", "w"))
						b.common(c1, ty)
						b.common(c1, tz)
						b.common(e2, e)
					}
					idx++
					r.check(b.ops, idx%2 == 0, true, "parsed-enum")
				}
			}
		}
	}
	// every kind of type whose members are a slice that commonType extends (Enum: strings, Pattern: regexps,
	// Variant: types), bare and nested in Type / Array: A merged with B1 and with B2, and the merged type (whose
	// members have spare capacity when B1 overlaps A) merged with B2 and with D
	for _, grp := range mergeGroups {
		for _, wrap := range []string{"%s", "Type[%s]", "Array[%s]"} {
			for _, a := range grp {
				for _, b1 := range grp {
					for _, b2 := range grp[2:5] {
						b := &tb{}
						pt := func(text string) int { return b.push(TOp{Kind: "ParseType", Text: fmt.Sprintf(wrap, text)}) }
						ta, t1, t2, td := pt(a), pt(b1), pt(b2), pt(grp[len(grp)-1])
						c1 := b.common(ta, t1)
						b.common(ta, t2)
						b.common(c1, t2)
						b.common(c1, td)
						b.common(t2, c1)
						idx++
						r.check(b.ops, idx%2 == 0, false, "merge-twice")
					}
				}
			}
		}
	}
	r.res.Extra["exhaustive_type_histories"] = idx
}

// per kind: A (three members), B (three members, two of them in A: the merged members have two spare cells), two
// disjoint two-member types, a one-member type, a type written with spare capacity; the last one is D
var mergeGroups = [][]string{
	{"Enum['a', 'b', 'c']", "Enum['a', 'b', 'd']", "Enum['e', 'f']", "Enum['e']", "Enum['a', 'e', false]", "Enum['g', 'h']"},
	{"Pattern[/a/, /b/, /c/]", "Pattern[/a/, /b/, /d/]", "Pattern[/e/, /f/]", "Pattern[/e/]", "Pattern[/a/, /e/]", "Pattern[/g/, /h/]"},
	{"Variant[Integer[1, 2], Enum['a'], Float[1.0, 2.0]]", "Variant[Integer[1, 2], Enum['a'], Regexp[/x/]]", "Variant[Boolean, Binary]",
		"Variant[Binary, Enum['a']]", "Variant[Integer[1, 2], Binary]", "Variant[Undef, Default]"},
}

// types of every kind whose parts are slices (members, patterns, variants, tuple and struct elements)
var typeTexts = []string{
	"Enum['a', 'b', 'c']", "Enum['a', 'b', false]", "Enum['A', 'b', true]", "Enum[[], false]", "Enum",
	"Pattern[/a/, /b/]", "Pattern[/c/]", "Variant[Integer[1, 2], Enum['a', 'b']]", "Variant[Enum['c'], Undef]",
	"Tuple[Enum['a', 'b'], Integer]", "Tuple[Enum['c'], Integer, 1, 5]", "Struct[{a => Enum['x', 'y']}]", "Struct[{a => Enum['z'], b => Integer}]",
	"Type[Enum['a', 'b', false]]", "Type[Enum['c']]", "Optional[Enum['a', 'b', false]]", "Optional[Enum['c']]", "NotUndef[Enum['a', 'b']]", "NotUndef[Enum['c']]",
	"Array[Enum['a', 'b', false], 1, 2]", "Array[Enum['c']]", "Hash[Enum['a', 'b', false], Enum['k', false]]", "Hash[Enum['c'], Enum['l']]",
	"String", "String[1, 3]", "Integer[1, 3]", "Integer[5, 9]", "Float[1.0, 2.0]", "Iterable[Enum['a', 'b', false]]", "Iterable[Enum['c']]",
	"Type[Variant[Enum['a', 'b'], Integer]]", "Type[Variant[Enum['c'], Float]]", "Type[Pattern[/a/]]", "Type[Pattern[/b/]]",
}

type tgen struct {
	r     *lib.Rng
	b     *tb
	kinds []string // static guess of the kind of every entry: "arr" | "hash" | "scalar" | "type" | "?"
	frag  bool     // only operations of the model
}

func (g *tgen) push(o TOp, kind string) int {
	g.kinds = append(g.kinds, kind)
	return g.b.push(o)
}

func (g *tgen) pick(f func(k string) bool) int {
	var c []int
	for i, k := range g.kinds {
		if f(k) {
			c = append(c, i)
		}
	}
	if len(c) == 0 {
		return -1
	}
	if g.r.Chance(1, 3) {
		return c[len(c)-1]
	}
	return c[g.r.Intn(len(c))]
}

func isTypeK(k string) bool  { return k == "type" }
func isValueK(k string) bool { return k != "type" }
func isArrK(k string) bool   { return k == "arr" }
func isCollK(k string) bool  { return k == "arr" || k == "hash" }

func (g *tgen) randStrArr() *collh.PV {
	n := g.r.Intn(9)
	off := g.r.Intn(4)
	ss := make([]string, n)
	for i := range ss {
		ss[i] = abc[(off+i*(1+g.r.Intn(2)))%len(abc)]
	}
	return strArr(ss...)
}

func (g *tgen) randLit() (*collh.PV, string) {
	switch x := g.r.Intn(10); {
	case x < 5:
		return g.randStrArr(), "arr"
	case x < 6:
		return collh.St(abc[g.r.Intn(len(abc))]), "scalar"
	case x < 7:
		return collh.In(int64(g.r.Intn(5))), "scalar"
	case x < 8:
		h := &collh.PV{K: "h"}
		for i, n := 0, g.r.Intn(4); i < n; i++ {
			h.L = append(h.L, collh.En(collh.St(abc[i+g.r.Intn(2)*4]), g.randStrArr()))
		}
		if h.HasRepeatedKey() {
			return g.randStrArr(), "arr"
		}
		return h, "hash"
	}
	cg := collh.NewGen(g.r)
	p := cg.RandPV(2)
	if hasEntry(p) {
		return g.randStrArr(), "arr"
	}
	switch p.K {
	case "a":
		return p, "arr"
	case "h":
		return p, "hash"
	}
	return p, "scalar"
}

func (g *tgen) step() {
	lit := func() int {
		p, k := g.randLit()
		return g.push(TOp{Kind: "Lit", P: p}, k)
	}
	if len(g.kinds) == 0 {
		lit()
		return
	}
	value := func() int {
		if i := g.pick(isValueK); i >= 0 && !g.r.Chance(1, 6) {
			return i
		}
		return lit()
	}
	typ := func() int {
		if i := g.pick(isTypeK); i >= 0 && !g.r.Chance(1, 8) {
			return i
		}
		return g.push(TOp{Kind: "PType", R: value()}, "type")
	}
	n := 16
	if g.frag {
		n = 10
	}
	switch x := g.r.Intn(n); x {
	case 0:
		lit()
	case 1, 2:
		k := 1 + g.r.Intn(3)
		rs := make([]int, k)
		for i := range rs {
			rs[i] = value()
		}
		if g.r.Bool() {
			g.push(TOp{Kind: "Arr", Rs: rs}, "arr")
		} else {
			g.push(TOp{Kind: "Hash", Ks: []string{"first", "second", "third"}[:k], Rs: rs}, "hash")
		}
	case 3:
		if r := g.pick(isArrK); r >= 0 {
			g.push(TOp{Kind: "Add", R: r, X: value()}, "arr")
		}
	case 4:
		if r := g.pick(isArrK); r >= 0 {
			g.push(TOp{Kind: "At", R: r, I: g.r.Intn(3)}, "?")
		}
	case 5, 6:
		g.push(TOp{Kind: "PType", R: value()}, "type")
	case 7, 8:
		a, b := typ(), typ()
		g.push(TOp{Kind: "Common", R: a, X: b}, "type")
	case 9:
		if g.r.Bool() {
			g.push(TOp{Kind: "Sub", R: typ(), I: g.r.Intn(2)}, "type")
		} else {
			n := g.r.Intn(5)
			off := g.r.Intn(3)
			g.push(TOp{Kind: "EnumLit", S: abc[off : off+n], CI: g.r.Chance(1, 4), I: g.r.Intn(2)}, "type")
		}
	case 10:
		g.push(TOp{Kind: []string{"Detailed", "Generic", "Generalize"}[g.r.Intn(3)], R: g.r.Intn(len(g.kinds))}, "type")
	case 11:
		g.push(TOp{Kind: "ParseType", Text: typeTexts[g.r.Intn(len(typeTexts))]}, "type")
	case 12:
		// a List/OrderedMap operation on pool values
		if r := g.pick(isCollK); r >= 0 {
			var o collh.Op
			switch g.r.Intn(7) {
			case 0:
				o = collh.Op{Kind: "AddAll", R: r, X: value()}
			case 1:
				o = collh.Op{Kind: "Slice", R: r, I: 0, J: 1 + g.r.Intn(2)}
			case 2:
				o = collh.Op{Kind: "Flatten", R: r}
			case 3:
				o = collh.Op{Kind: "Unique", R: r}
			case 4:
				o = collh.Op{Kind: "Merge", R: r, X: value()}
			case 5:
				o = collh.Op{Kind: "Values", R: r}
			case 6:
				o = collh.Op{Kind: "Map", R: r, Mp: &collh.Mapper{Kind: "wrap"}}
			}
			k := "arr"
			if o.Kind == "Merge" || (g.kinds[r] == "hash" && (o.Kind == "Slice" || o.Kind == "Unique")) {
				k = "hash"
			}
			g.push(TOp{Kind: "Val", V: &o}, k)
		}
	case 13:
		g.push(TOp{Kind: []string{"Instance", "Assignable", "Equals"}[g.r.Intn(3)], R: typ(), X: g.r.Intn(len(g.kinds))}, "scalar")
	case 14:
		g.push(TOp{Kind: "Touch", R: g.r.Intn(len(g.kinds))}, "scalar")
	case 15:
		// an array of types: its element type is Type[common type of the types]
		a, b := typ(), typ()
		g.push(TOp{Kind: "Arr", Rs: []int{a, b}}, "arr")
	}
}

func randomTHistory(r *lib.Rng, n int, frag bool) []TOp {
	g := &tgen{r: r, b: &tb{}, frag: frag}
	for len(g.b.ops) < n {
		g.step()
	}
	return g.b.ops
}

func randomT(r *trunner, rng *lib.Rng) {
	n, coq := 1000, 240
	if r.cfg.Thorough() {
		n, coq = 60000, 3000
	}
	for i := 0; i < n; i++ {
		g := rng.Fork()
		frag := i%2 == 0
		ops := randomTHistory(g, 5+g.Intn(20), frag)
		r.check(ops, g.Bool(), frag && i/2 < coq, fmt.Sprintf("random-types(model fragment: %v)", frag))
	}
}

// regression corpus of type histories
func corpusT() [][]TOp {
	var hs [][]TOp
	// the type of [x, ['y']] keeps its members when the type of {first => x, second => ['z']} is inferred
	for _, n := range []int{3, 5, 2, 4, 9} {
		b := &tb{}
		x := b.lit(strArr(abc[:n]...))
		y1 := b.add(b.arr(x), b.lit(strArr("y")))
		b.un("PType", y1)
		y2 := b.hash([]string{"first", "second"}, x, b.lit(strArr("z")))
		b.un("PType", y2)
		b.un("PType", y1)
		hs = append(hs, b.ops)
	}
	return hs
}
