package main

// Results that are TYPES.  The property lists "inferring its type" among the operations and demands that "results
// returned by earlier operations" stay as they were: the type object handed out by PType() / DetailedValueType() /
// CommonType() is such a result (and it is the type the value reports from then on: Array and Hash cache it).
//
// A type history ("thistory") is a pool of values AND types; a step builds a value (literal, wrapping of pool
// values, any List/OrderedMap operation of collh), obtains a type (inference of a pool value, the common type of
// two pool types, a parsed type, a component of a pool type, generalisation) or runs a read-only query.
// D: after every step every pool entry - value or type - is observed again (deep walk, program text, hash key)
//    and compared with its observation from before the step.
// M: the slice-level model of inference (coq/Model/InferHeap.v: the members of an Enum are a Go slice over a
//    store of string arrays, commonType appends to the members of its first operand) is run on the histories
//    that stay inside its fragment; every result and the final observation of every entry are compared.

import (
	"fmt"
	"strings"

	"github.com/lyraproj/pcore/pcore"
	"github.com/lyraproj/pcore/px"
	"github.com/lyraproj/pcore/types"

	"verifharness/collh"
	"verifharness/lat"
	"verifharness/lib"
)

// TOp is one step of a type history; the result of step n is pool entry n (undef when the step failed).
//
//	Lit P                 a fresh literal value (exactly sized slices)
//	Arr Rs                types.WrapValues of the pool entries Rs (the SAME objects: their cached types are shared)
//	Hash Ks Rs            types.WrapHash of entries Ks[i] => pool[Rs[i]]
//	Add R X, At R I       Array.Add / Array.At
//	Val V                 any collh operation (Build, Parse, AddAll, Merge, Slice, Flatten, ...) on pool entries
//	EnumLit S CI I        the parsed type Enum[S...] (I = 1: written with the trailing flag, which leaves one spare cell)
//	ParseType Text        any parsed type
//	PType R, Detailed R, Generic R, Generalize R     inference on entry R
//	Common R X            px.CommonType of two pool types
//	Sub R I               the I-th component type of a pool type
//	Instance R X, Assignable R X, Equals R X         queries (boolean result)
//	Touch R               the read-only operations on entry R
type TOp struct {
	Kind string    `json:"op"`
	V    *collh.Op `json:"v,omitempty"`
	R    int       `json:"r,omitempty"`
	X    int       `json:"x,omitempty"`
	I    int       `json:"i,omitempty"`
	Rs   []int     `json:"rs,omitempty"`
	Ks   []string  `json:"ks,omitempty"`
	P    *collh.PV `json:"p,omitempty"`
	S    []string  `json:"s,omitempty"`
	CI   bool      `json:"ci,omitempty"`
	Text string    `json:"text,omitempty"`
}

func (o TOp) String() string {
	refs := func(rs []int) string {
		ss := make([]string, len(rs))
		for i, r := range rs {
			ss[i] = fmt.Sprintf("v%d", r)
		}
		return strings.Join(ss, ", ")
	}
	switch o.Kind {
	case "Lit":
		return "Lit " + o.P.String()
	case "Arr":
		return "[" + refs(o.Rs) + "]"
	case "Hash":
		ss := make([]string, len(o.Rs))
		for i, r := range o.Rs {
			ss[i] = fmt.Sprintf("%q => v%d", o.Ks[i], r)
		}
		return "{" + strings.Join(ss, ", ") + "}"
	case "Add", "Common", "Instance", "Assignable", "Equals":
		return fmt.Sprintf("v%d.%s(v%d)", o.R, o.Kind, o.X)
	case "At", "Sub":
		return fmt.Sprintf("v%d.%s(%d)", o.R, o.Kind, o.I)
	case "Val":
		return o.V.String()
	case "EnumLit", "ParseType":
		return "ParseType " + o.typeText()
	}
	return fmt.Sprintf("v%d.%s()", o.R, o.Kind)
}

func (o TOp) typeText() string {
	if o.Kind == "ParseType" {
		return o.Text
	}
	ps := make([]string, 0, len(o.S)+1)
	for _, s := range o.S {
		ps = append(ps, "'"+s+"'")
	}
	if o.CI {
		ps = append(ps, "true")
	} else if o.I == 1 {
		ps = append(ps, "false")
	}
	if len(ps) == 0 {
		return "Enum"
	}
	return "Enum[" + strings.Join(ps, ", ") + "]"
}

func topsText(ops []TOp) []string {
	r := make([]string, len(ops))
	for i, o := range ops {
		r[i] = fmt.Sprintf("v%d := %s", i, o.String())
	}
	return r
}

// ---- the model's term language (coq/Model/InferHeap.v) ----

func gnats(rs []int) string {
	ss := make([]string, len(rs))
	for i, r := range rs {
		ss[i] = lib.GNat(r)
	}
	return lib.GList(ss, "nat")
}

func (o TOp) gallina() string {
	switch o.Kind {
	case "Lit":
		return "ILit " + o.P.Gallina()
	case "Arr":
		return "IWrapArr " + gnats(o.Rs)
	case "Hash":
		ss := make([]string, len(o.Rs))
		for i, r := range o.Rs {
			ss[i] = lib.GPair(lib.GStr(o.Ks[i]), lib.GNat(r))
		}
		return "IWrapHash " + lib.GList(ss, "str * nat")
	case "Add":
		return fmt.Sprintf("IAdd %d %d", o.R, o.X)
	case "At":
		return fmt.Sprintf("IAt %d %d", o.R, o.I)
	case "Sub":
		return fmt.Sprintf("ISub %d %d", o.R, o.I)
	case "EnumLit":
		ss := make([]string, len(o.S))
		for i, s := range o.S {
			ss[i] = lib.GStr(s)
		}
		// enumtype.go:85-98: the flag is an argument of its own and is cut off the members afterwards
		spare := o.I
		if o.CI {
			spare = 1
		}
		if len(o.S) == 0 {
			spare = 0 // Enum[flag]: enumtype.go:69, an empty literal
		}
		return fmt.Sprintf("IEnumLit %s %s %d", lib.GBool(o.CI), lib.GList(ss, "str"), spare)
	case "PType":
		return fmt.Sprintf("IPType %d", o.R)
	case "Common":
		return fmt.Sprintf("ICommon %d %d", o.R, o.X)
	}
	panic("not in the model: " + o.Kind)
}

var modelled = map[string]bool{"Lit": true, "Arr": true, "Hash": true, "Add": true, "At": true, "Sub": true, "EnumLit": true,
	"PType": true, "Common": true}

// ---- observation of a pool entry ----

// TObs: the three observables of the property (deep walk, program text, hash key) of a value or a type
type TObs struct {
	Walk    string
	Program string
	Key     string
	Clean   bool
	G       string // the walk as a term of the model (`OV pv` / `OT ty`), "" when outside the model's universe
}

func isASCII(s string) bool {
	for i := 0; i < len(s); i++ {
		if s[i] >= 0x80 {
			return false
		}
	}
	return true
}

// tyInModel: the type lies in the fragment of the model.  The aliases Data and RichData (results of the fallback
// ladder of commonType) are outside: the model of assignability (Model/Lattice.v, property C04) knows them only as
// results, not as operands of a later inference.
func tyInModel(t *types.VerifTy) bool {
	switch t.K {
	case "Other", "Alias", "Iterable", "Nil", "Float", "Pattern", "Regexp":
		return false
	}
	for _, s := range t.Strs {
		if !isASCII(s) {
			return false
		}
	}
	for _, c := range t.Ts {
		if !tyInModel(c) {
			return false
		}
	}
	for _, c := range t.Keys {
		if !tyInModel(c) {
			return false
		}
	}
	return true
}

// walk: arrays and hashes through Len/At (as collh.Snapshot), a type through the structural decoding of the hook
func walk(v px.Value, fuel int, b *strings.Builder) bool {
	if v == nil {
		b.WriteString("<nil>")
		return false
	}
	if fuel == 0 {
		b.WriteString("<cut>")
		return false
	}
	ok := true
	switch x := v.(type) {
	case px.Type:
		b.WriteString("type ")
		b.WriteString(lat.GTy(types.VerifDecodeType(x)))
	case *types.HashEntry:
		if x == nil {
			b.WriteString("<nil>")
			return false
		}
		b.WriteString("(")
		ok = walk(x.Key(), fuel-1, b) && ok
		b.WriteString(" => ")
		ok = walk(x.Value(), fuel-1, b) && ok
		b.WriteString(")")
	case *types.Array, *types.Hash:
		l := x.(px.List)
		_, isHash := x.(*types.Hash)
		if isHash {
			b.WriteString("{")
		} else {
			b.WriteString("[")
		}
		n := l.Len()
		for i := 0; i < n; i++ {
			if i > 0 {
				b.WriteString(", ")
			}
			ok = walk(elemAt(l, i), fuel-1, b) && ok
		}
		if isHash {
			b.WriteString("}")
		} else {
			b.WriteString("]")
		}
	default:
		p := collh.Snapshot(v)
		b.WriteString(p.String())
		ok = p.Clean()
	}
	return ok
}

func elemAt(l px.List, i int) (v px.Value) {
	defer func() {
		if r := recover(); r != nil {
			v = nil
		}
	}()
	v = l.At(i)
	if he, ok := v.(*types.HashEntry); ok && he == nil {
		return nil
	}
	return v
}

func observeT(v px.Value) (o TObs) {
	var b strings.Builder
	o.Clean = walk(v, collh.MaxDepth, &b)
	o.Walk = b.String()
	if !o.Clean {
		return
	}
	defer func() {
		if r := recover(); r != nil {
			o.Program += " panic: " + fmt.Sprint(r)
		}
	}()
	o.Program = px.ToString2(v, types.Program)
	o.Key = string(px.ToKey(v))
	return
}

// gObs: the observation as a term of the model, "" when the entry is outside its universe
func gObs(v px.Value) string {
	if t, ok := v.(px.Type); ok {
		d := types.VerifDecodeType(t)
		if !tyInModel(d) {
			return ""
		}
		return "(OT " + lat.GTy(d) + ")"
	}
	p := collh.Snapshot(v)
	if !p.Clean() || hasEntry(p) {
		return ""
	}
	return "(OV " + p.Gallina() + ")"
}

func hasEntry(p *collh.PV) bool {
	if p.K == "e" {
		return true
	}
	for _, c := range p.L {
		if p.K == "h" && c.K == "e" {
			if hasEntry(c.L[0]) || hasEntry(c.L[1]) {
				return true
			}
		} else if hasEntry(c) {
			return true
		}
	}
	return false
}

func (a TObs) diff(b TObs) (what, before, after string) {
	switch {
	case a.Walk != b.Walk:
		return "walk", a.Walk, b.Walk
	case a.Program != b.Program:
		return "program-text", a.Program, b.Program
	case a.Key != b.Key:
		return "hash-key", fmt.Sprintf("%q", a.Key), fmt.Sprintf("%q", b.Key)
	}
	return "", "", ""
}

// ---- running a type history on the implementation ----

type THistory struct {
	Ops    []TOp
	Touch  bool
	Errs   []string // error class of every step ("" = a result)
	Kinds  []string // "value" | "type" of every pool entry
	OutG   []string // the result of every step as a term of the model ("" = outside its universe)
	FinalG []string
	Final  []string
	Change *collh.Change
	Tie    bool // every step is an operation of the model on entries of its universe
}

func asType(v px.Value) px.Type {
	if t, ok := v.(px.Type); ok {
		return t
	}
	panic(badArg{})
}

type badArg struct{}

func applyT(pool []px.Value, o TOp) (res px.Value, errClass string) {
	defer func() {
		if r := recover(); r != nil {
			res = px.Undef
			if _, ok := r.(badArg); ok {
				errClass = "badtype"
			} else {
				errClass = fmt.Sprintf("panic:%T", r)
			}
		}
	}()
	switch o.Kind {
	case "Lit":
		return collh.Lit(o.P), ""
	case "Arr":
		els := make([]px.Value, len(o.Rs))
		for i, r := range o.Rs {
			els[i] = pool[r]
		}
		return types.WrapValues(els), ""
	case "Hash":
		es := make([]*types.HashEntry, len(o.Rs))
		for i, r := range o.Rs {
			es[i] = types.WrapHashEntry(types.WrapString(o.Ks[i]), pool[r])
		}
		return types.WrapHash(es), ""
	case "Add":
		if a, ok := pool[o.R].(*types.Array); ok {
			return a.Add(pool[o.X]), ""
		}
		panic(badArg{})
	case "At":
		if a, ok := pool[o.R].(*types.Array); ok {
			return a.At(o.I), ""
		}
		panic(badArg{})
	case "Val":
		return collh.ApplyImpl(pool, *o.V)
	case "EnumLit", "ParseType":
		return pcore.RootContext().ParseType(o.typeText()), ""
	case "PType":
		return pool[o.R].PType(), ""
	case "Detailed":
		return px.DetailedValueType(pool[o.R]), ""
	case "Generic":
		if t, ok := pool[o.R].(px.Type); ok {
			return px.GenericType(t), ""
		}
		return px.GenericValueType(pool[o.R]), ""
	case "Generalize":
		if t, ok := pool[o.R].(px.Type); ok {
			return px.Generalize(t), ""
		}
		return px.Generalize(pool[o.R].PType()), ""
	case "Common":
		return px.CommonType(asType(pool[o.R]), asType(pool[o.X])), ""
	case "Sub":
		subs := types.VerifSubTypes(asType(pool[o.R]))
		if o.I < 0 || o.I >= len(subs) {
			panic(badArg{})
		}
		return subs[o.I], ""
	case "Instance":
		return types.WrapBoolean(px.IsInstance(asType(pool[o.R]), pool[o.X])), ""
	case "Assignable":
		return types.WrapBoolean(px.IsAssignable(asType(pool[o.R]), asType(pool[o.X]))), ""
	case "Equals":
		return types.WrapBoolean(pool[o.R].Equals(pool[o.X], nil)), ""
	case "Touch":
		collh.Touch(pool[o.R])
		return px.Undef, ""
	}
	panic("bad type-history op " + o.Kind)
}

func entryKind(v px.Value) string {
	if _, ok := v.(px.Type); ok {
		return "type"
	}
	return "value"
}

func runT(ops []TOp, touch bool) *THistory {
	h := &THistory{Ops: ops, Touch: touch, Tie: true}
	pool := make([]px.Value, 0, len(ops))
	obs := make([]TObs, 0, len(ops))
	compare := func(step int) bool {
		for j, v := range pool {
			now := observeT(v)
			if what, before, after := obs[j].diff(now); what != "" {
				h.Change = &collh.Change{Step: step, Value: j, What: what, Before: before, After: after}
				return false
			}
		}
		return true
	}
	for i, o := range ops {
		res, errClass := applyT(pool, o)
		if errClass != "" {
			res = px.Undef
		}
		h.Errs = append(h.Errs, errClass)
		if !modelled[o.Kind] || errClass != "" {
			h.Tie = false
		}
		switch o.Kind {
		case "Arr", "Hash":
			for _, r := range o.Rs {
				if h.Kinds[r] != "value" {
					h.Tie = false
				}
			}
		case "Add":
			if h.Kinds[o.X] != "value" {
				h.Tie = false
			}
		}
		ro := observeT(res)
		g := gObs(res)
		if g == "" {
			h.Tie = false
		}
		h.OutG = append(h.OutG, g)
		pool = append(pool, res)
		obs = append(obs, ro)
		h.Kinds = append(h.Kinds, entryKind(res))
		if touch && ro.Clean {
			// the read-only operations (type inference, printing, hashing, serializing) on the new entry
			collh.Touch(res)
		}
		// every entry obtained before this step - and the result itself, as first observed - looks exactly as it did
		// before the step (a Lit step without the read-only operations only runs the harness's own construction of a
		// fresh literal)
		ok := (o.Kind == "Lit" && !touch) || compare(i)
		if !ok || !ro.Clean {
			h.Ops = ops[:i+1]
			h.Tie = h.Tie && ro.Clean
			break
		}
	}
	for _, v := range pool {
		h.Final = append(h.Final, observeT(v).Walk)
		g := gObs(v)
		if g == "" {
			h.Tie = false
		}
		h.FinalG = append(h.FinalG, g)
	}
	return h
}

// ---- the cases of the model tie ----

const tcasesTyp = "list iop * (list iout * list iobs)"

func newTCases() *lib.CasesFile {
	return &lib.CasesFile{Imports: []string{"Model.Base", "Model.Heap", "Model.Coll", "Model.Ty", "Model.InferHeap", "Corr.CorrC08"}, Typ: tcasesTyp,
		Obligations: map[string]string{"infer_heap_model": "c08_infer_mismatches cases"}}
}

func gallinaTCase(h *THistory) string {
	ops := make([]string, len(h.Ops))
	for i, o := range h.Ops {
		ops[i] = o.gallina()
	}
	outs := make([]string, len(h.OutG))
	for i, g := range h.OutG {
		outs[i] = "IVal " + g
	}
	return "(" + lib.GList(ops, "iop") + ",\n    (" + lib.GList(outs, "iout") + ",\n     " + lib.GList(h.FinalG, "iobs") + "))"
}

func tinput(ops []TOp, touch bool) map[string]interface{} {
	return map[string]interface{}{"kind": "thistory", "ops": ops, "touch": touch}
}

func tviolation(h *THistory) lib.Violation {
	c := h.Change
	return lib.Violation{Clause: "immutability",
		What: fmt.Sprintf("step %d (%s; then its result is walked, printed, hashed"+map[bool]string{true: " and given to the read-only operations", false: ""}[h.Touch]+") changed the %s of the %s v%d (obtained by %s): before %s, after %s", c.Step, h.Ops[c.Step].String(),
			c.What, h.Kinds[c.Value], c.Value, h.Ops[c.Value].String(), c.Before, c.After),
		Input: tinput(h.Ops[:c.Step+1], h.Touch),
		// one group per (offending operation, kind of the changed entry, operation that had returned it)
		Tags: []string{h.Ops[c.Step].Kind + " changes " + h.Kinds[c.Value] + " from " + h.Ops[c.Value].Kind}}
}

func tnontrivial(ops []TOp) bool {
	// two inferences (or common types) whose operands share a part: some entry is used by two steps
	used := map[int]int{}
	for _, o := range ops {
		rs := append([]int{}, o.Rs...)
		switch o.Kind {
		case "Lit", "EnumLit", "ParseType":
			continue
		case "Add", "Common", "Instance", "Assignable", "Equals":
			rs = append(rs, o.R, o.X)
		case "Val":
			rs = append(rs, o.V.R)
		case "Arr", "Hash":
		default:
			rs = append(rs, o.R)
		}
		for _, r := range rs {
			used[r]++
			if used[r] >= 2 {
				return true
			}
		}
	}
	return false
}

type trunner struct {
	*runner
	tcf  *lib.CasesFile
	n    int
	dcoq int
}

func (r *trunner) check(ops []TOp, touch bool, toCoq bool, family string) *THistory {
	h := runT(ops, touch)
	r.n++
	r.res.Evaluations++
	r.res.Count("family." + family)
	for _, o := range ops {
		k := o.Kind
		if k == "Val" {
			k = "Val." + o.V.Kind
		}
		r.res.Count("top." + k)
	}
	if tnontrivial(ops) {
		r.res.Nontrivial("T " + strings.Join(topsText(ops), "; "))
		r.res.Count("nontrivial")
	}
	bad := h.Change != nil
	if bad {
		r.res.Violate(tviolation(h))
	}
	if h.Tie && (toCoq || (bad && r.dcoq < 20)) {
		if bad {
			r.dcoq++
		}
		r.tcf.Add(gallinaTCase(h), tinput(ops, touch))
	}
	if r.n%1999 == 1 {
		r.res.Sample(map[string]interface{}{"ops": topsText(ops), "final": h.Final})
	}
	return h
}

func replayT(r *trunner, in interface{}) {
	var x struct {
		Ops   []TOp `json:"ops"`
		Touch bool  `json:"touch"`
	}
	lib.Remarshal(in, &x)
	h := runT(x.Ops, x.Touch)
	r.res.Evaluations++
	for i := range h.Ops {
		out := "error(" + h.Errs[i] + ")"
		if h.Errs[i] == "" {
			out = "ok"
		}
		fmt.Printf("  v%-2d := %-44s => %s\n", i, h.Ops[i].String(), out)
	}
	for i, f := range h.Final {
		fmt.Printf("  finally v%-2d = %s\n", i, f)
	}
	if h.Change != nil {
		v := tviolation(h)
		fmt.Println("FAILS: " + v.What)
		r.res.Violate(v)
	} else {
		fmt.Println("no earlier value or type changed in this history")
	}
	if h.Tie {
		r.tcf.Add(gallinaTCase(h), in)
	}
}
