package main

// Read accessors that hand out GO SLICES / MAPS, the writes of the CALLER into what came back, and the library's own
// writers (the creators that splice their first list argument with what follows).
//
//   access    histories with the step `Access` (collh/aops.go; model: coq/Model/CollHeapA.v; cases: cases_heapa.v, obligation
//             heapa_model): receivers (literal, parsed - growth leaves spare capacity -, built with a capacity, the result of
//             Add / Flatten, hashes the same, a hash entry) seen through views (itself, Slice(0,k), Slice(1,n), Slice(1,2),
//             EachSlice chunks) x destinations (nil, make(0,0), make(0,1), make(0,n), make(0,n+2), make(0,64), make(1,1),
//             make(1,n+3), make(2,2)) x what the caller writes (every cell of res[:cap(res)], the spare cells only, cell 0,
//             nothing) x AppendTo / AppendEntriesTo, followed by an Add on the view and a second accessor call; every
//             earlier value - receiver, view, the array the view was taken from, earlier results - is re-observed after
//             every step (D) and the result + the final observation of every pool value go to the model (M).
//   access-random   random histories (collh.RandomHistory) with accessor steps on random pool values in between
//   creators  D only: px.New of Enum / Tuple / Callable / Struct / Variant / Array / Tuple values with a list first argument
//             and trailing arguments, on arrays of strings and arrays of types seen through the same views; Go callers
//             that write into AppendTo(nil) / AppendEntriesTo(nil) / ToStringMap() / Keys().AppendTo(..) results.
import (
	"fmt"
	"math"

	"github.com/lyraproj/pcore/pcore"
	"github.com/lyraproj/pcore/px"
	"github.com/lyraproj/pcore/types"

	"verifharness/collh"
	"verifharness/lib"
)

const casesATyp = "list aop * (list out * list pv)"

func newACases() *lib.CasesFile {
	return &lib.CasesFile{Imports: []string{"Model.Base", "Model.Heap", "Model.Coll", "Model.CollHeap", "Model.CollHeapX", "Model.CollHeapA", "Corr.CorrC08"}, Typ: casesATyp,
		Obligations: map[string]string{"heapa_model": "c08_a_mismatches cases"}}
}

func ainput(ops []collh.Op) map[string]interface{} {
	return map[string]interface{}{"kind": "ahistory", "ops": ops}
}

func gallinaACase(h *collh.History) string {
	fin := make([]string, len(h.Final))
	for i, p := range h.Final {
		fin[i] = p.Gallina()
	}
	gs := make([]string, len(h.Ops))
	for i, o := range h.Ops {
		gs[i] = o.AGallina()
	}
	return "(" + lib.GList(gs, "aop") + ",\n    (" + collh.GallinaOuts(h.Outs) + ",\n     " + lib.GList(fin, "pv") + "))"
}

type arunner struct {
	*runner
	acf  *lib.CasesFile
	n    int
	acoq int
}

func aviolation(h *collh.History) lib.Violation {
	v := violation(h)
	v.Input = ainput(h.Ops[:h.Change.Step+1])
	return v
}

func (r *arunner) check(ops []collh.Op, toCoq bool, family string) *collh.History {
	h := collh.Run(ops, runOptsX)
	r.n++
	r.res.Evaluations++
	r.res.Count("family." + family)
	for _, o := range ops {
		r.res.Count("op." + o.Kind)
	}
	r.res.Nontrivial(collh.OpsCanon(ops))
	r.res.Count("nontrivial")
	bad := h.Change != nil
	if bad {
		r.res.Violate(aviolation(h))
	}
	tie := !h.Unclean
	for _, o := range h.Outs {
		if len(o.Err) > 5 && o.Err[:5] == "other" {
			tie = false
		}
	}
	if (toCoq && tie) || (bad && r.acoq < 20) {
		if bad {
			r.acoq++
		}
		r.acf.Add(gallinaACase(h), ainput(ops))
	}
	if r.n%1499 == 1 {
		outs := make([]string, len(h.Outs))
		for i, o := range h.Outs {
			outs[i] = o.String()
		}
		r.res.Sample(map[string]interface{}{"ops": collh.OpsText(ops), "results": outs})
	}
	return h
}

func replayA(r *arunner, in interface{}) {
	var x struct {
		Ops []collh.Op `json:"ops"`
	}
	lib.Remarshal(in, &x)
	h := collh.Run(x.Ops, runOptsX)
	r.res.Evaluations++
	for i, o := range h.Ops {
		fmt.Printf("  v%-2d := %-44s => %s\n", i, o.String(), h.Outs[i])
	}
	for i, p := range h.Final {
		fmt.Printf("  finally v%-2d = %s\n", i, p)
	}
	if h.Change != nil {
		v := aviolation(h)
		fmt.Println("FAILS: " + v.What)
		r.res.Violate(v)
	} else {
		fmt.Println("no earlier value changed in this history")
	}
	r.acf.Add(gallinaACase(h), in)
}

// ---------------------------------------------------------------------------------------------------------------
// access

// prelude: 0 'W' (what the caller writes)  1 true  2 ('!w' => 0) (an entry, for []*HashEntry)  3 7
func accessPrelude() []collh.Op {
	I, S, E := collh.In, collh.St, collh.En
	lit := func(p *collh.PV) collh.Op { return collh.Op{Kind: "Lit", P: p} }
	return []collh.Op{lit(S("W")), lit(collh.Bo(true)), lit(E(S("!w"), I(0))), lit(I(7))}
}

type aroute struct {
	ops  []collh.Op // appended to the prelude; R / X relative to the start of the route when rel is set
	n    int        // the length of the receiver
	hash bool
}

func accessRoutes() []aroute {
	I, S, A, E, H := collh.In, collh.St, collh.Ar, collh.En, collh.Ha
	abcd := A(S("a"), S("b"), S("c"), S("d"))
	abc := H(E(S("a"), I(1)), E(S("b"), I(2)), E(S("c"), I(3)))
	return []aroute{
		{ops: []collh.Op{{Kind: "Lit", P: abcd}}, n: 4},
		{ops: []collh.Op{{Kind: "Parse", P: A(S("a"), S("b"), S("c"), S("d"), S("e"))}}, n: 5},
		{ops: []collh.Op{{Kind: "Build", I: 7, P: A(S("a"), S("b"), S("c"))}}, n: 3},
		{ops: []collh.Op{{Kind: "Lit", P: A(S("a"), S("b"), S("c"))}, {Kind: "Add", R: -1, X: 0}}, n: 4},       // R < 0: the previous step
		{ops: []collh.Op{{Kind: "Lit", P: A(A(I(1), I(2)), A(I(3)), I(4))}, {Kind: "Flatten", R: -1}}, n: 4}, // make(0, 2n) + appends
		{ops: []collh.Op{{Kind: "Lit", P: abc}}, n: 3, hash: true},
		{ops: []collh.Op{{Kind: "Build", I: 6, P: abc}}, n: 3, hash: true},
		{ops: []collh.Op{{Kind: "Parse", P: H(E(S("a"), I(1)), E(S("b"), I(2)), E(S("c"), I(3)), E(S("d"), I(4)), E(S("e"), I(5)))}}, n: 5, hash: true},
	}
}

func accessDsts(n int) [][2]int {
	return [][2]int{{0, -1}, {0, 0}, {0, 1}, {0, n}, {0, n + 2}, {0, 64}, {1, 1}, {1, n + 3}, {2, 2}}
}

// what the caller writes into res[:cap(res)] (len = the length of res): pairs (cell, pool index)
func accessWrites(kind, length, w int) [][2]int {
	var ws [][2]int
	switch kind {
	case 0: // every cell (those beyond the capacity are skipped by the step)
		for i := 0; i < length+10; i++ {
			ws = append(ws, [2]int{i, w})
		}
	case 1: // the spare cells only: what `append(res, more...)` within the capacity does
		for i := length; i < length+3; i++ {
			ws = append(ws, [2]int{i, w})
		}
	case 2:
		ws = append(ws, [2]int{0, w})
	}
	return ws
}

func access(r *arunner) {
	pre := accessPrelude()
	idx := 0
	for _, rt := range accessRoutes() {
		base := append([]collh.Op{}, pre...)
		for _, o := range rt.ops {
			if o.R < 0 {
				o.R = len(base) - 1
			}
			base = append(base, o)
		}
		x := len(base) - 1
		n := rt.n
		type view struct {
			ops []collh.Op
			n   int
		}
		views := []view{{nil, n}, {[]collh.Op{{Kind: "Slice", R: x, I: 0, J: 0}}, 0}, {[]collh.Op{{Kind: "Slice", R: x, I: 0, J: 1}}, 1},
			{[]collh.Op{{Kind: "Slice", R: x, I: 0, J: 2}}, 2}, {[]collh.Op{{Kind: "Slice", R: x, I: 0, J: n - 1}}, n - 1},
			{[]collh.Op{{Kind: "Slice", R: x, I: 1, J: n}}, n - 1}, {[]collh.Op{{Kind: "Slice", R: x, I: 1, J: 2}}, 1},
			{[]collh.Op{{Kind: "EachSlice", R: x, I: 2, J: 0}}, 2}, {[]collh.Op{{Kind: "EachSlice", R: x, I: 2, J: 1}}, 2},
			// a view of a view; the entry objects of a hash / an element
			{[]collh.Op{{Kind: "Slice", R: x, I: 0, J: n - 1}, {Kind: "Slice", R: x + 1, I: 1, J: 2}}, 1},
			{[]collh.Op{{Kind: "At", R: x, I: 0}}, 2}}
		for vi, vw := range views {
			if !rt.hash && vi == len(views)-1 {
				continue // At(0) of an array of strings is no list
			}
			b := append(append([]collh.Op{}, base...), vw.ops...)
			v := len(b) - 1
			for _, entries := range []bool{false, true} {
				if entries && (!rt.hash || vi >= 7) {
					continue // AppendEntriesTo: hashes only (EachSlice of a hash yields arrays, At an entry)
				}
				w := 0
				if entries {
					w = 2
				}
				for _, d := range accessDsts(vw.n) {
					for wk := 0; wk < 4; wk++ {
						idx++
						ops := append(append([]collh.Op{}, b...), collh.AccessOp(entries, v, d[0], d[1], w, accessWrites(wk, d[0]+vw.n, w)))
						res := len(ops) - 1
						switch idx % 4 {
						case 1: // the view and the original go on being used
							ops = append(ops, collh.Op{Kind: "Add", R: v, X: 3}, collh.Op{Kind: "Add", R: x, X: 3})
						case 2: // a second accessor call on the same receiver, then one on the first result
							ops = append(ops, collh.AccessOp(entries, v, 0, vw.n+1, w, accessWrites(1, vw.n, w)),
								collh.AccessOp(entries, res, 0, -1, w, accessWrites(0, vw.n+d[0], w)))
						case 3: // the result is a value like any other
							ops = append(ops, collh.Op{Kind: "Add", R: res, X: 3}, collh.Op{Kind: "Slice", R: res, I: 0, J: 1},
								collh.AccessOp(false, len(ops)+1, 0, 0, w, accessWrites(1, 1, 0)))
						}
						r.check(ops, idx%9 == 0, "access")
					}
				}
			}
		}
	}
}

// random histories with accessor steps on random pool values in between (a receiver that is no list is a badtype step)
func accessRandom(r *arunner, rng *lib.Rng) {
	n, coq := 700, 120
	if r.cfg.Thorough() {
		n, coq = 40000, 1500
	}
	for i := 0; i < n; i++ {
		g := rng.Fork()
		ops := collh.RandomHistory(g, 5+g.Intn(14), collh.AliasWeights)
		nr := len(ops)
		ops = append(ops, accessPrelude()...) // nr: 'W', nr+1: true, nr+2: an entry, nr+3: 7
		k := 1 + g.Intn(4)
		for j := 0; j < k; j++ {
			recv := g.Intn(len(ops))
			entries := g.Chance(1, 5)
			w := nr
			if entries {
				w = nr + 2
			}
			dl := g.Intn(3)
			dc := g.Intn(9) - 1
			var ws [][2]int
			for c := 0; c < 14; c++ {
				if g.Chance(2, 3) {
					ws = append(ws, [2]int{c, w})
				}
			}
			ops = append(ops, collh.AccessOp(entries, recv, dl, dc, w, ws))
			if g.Bool() {
				ops = append(ops, collh.Op{Kind: "Add", R: recv, X: nr + 3})
			}
		}
		r.check(ops, i < coq, "access-random")
	}
}

// ---------------------------------------------------------------------------------------------------------------
// creators (direct check only)

type watched struct {
	name   string
	v      px.Value
	before string
}

// what a value observably contains: program text, hash key, element walk (elements may be types here)
func obsText(v px.Value) (s string) {
	defer func() {
		if r := recover(); r != nil {
			s += fmt.Sprintf(" PANIC %v", r)
		}
	}()
	s = px.ToString2(v, types.Program) + " | key " + fmt.Sprintf("%q", string(px.ToKey(v)))
	if l, ok := v.(px.List); ok {
		s += " | walk"
		for i := 0; i < l.Len(); i++ {
			e := l.At(i)
			if e == nil {
				s += " <nil>"
			} else {
				s += " <" + px.ToString2(e, types.Program) + ">"
			}
		}
	}
	return s
}

type creatorCase struct {
	Base    int `json:"base"`
	View    int `json:"view"`
	Creator int `json:"creator"`
}

var creatorBases = []string{"strings literal", "strings parsed", "strings built cap 8", "strings Add result", "types literal", "types built cap 8",
	"hash literal", "hash built cap 6", "types Add result", "strings Select result"}

func creatorBase(i int) px.Value {
	strs := []string{"a", "b", "c", "d"}
	tps := []px.Value{types.DefaultStringType(), types.DefaultIntegerType(), types.DefaultFloatType(), types.DefaultBooleanType()}
	he := func() []*types.HashEntry {
		return []*types.HashEntry{types.WrapHashEntry2("a", types.DefaultStringType()), types.WrapHashEntry2("b", types.DefaultIntegerType()),
			types.WrapHashEntry2("c", types.DefaultFloatType())}
	}
	switch i {
	case 0:
		return types.WrapStrings(strs)
	case 1:
		return types.Parse("['a', 'b', 'c', 'd', 'e']")
	case 2:
		return types.BuildArray(8, func(ar *types.Array, els []px.Value) []px.Value {
			for _, s := range strs {
				els = append(els, types.WrapString(s))
			}
			return els
		})
	case 3:
		return types.WrapStrings(strs[:3]).Add(types.WrapString("d"))
	case 4:
		return types.WrapValues(append([]px.Value{}, tps...))
	case 5:
		return types.BuildArray(8, func(ar *types.Array, els []px.Value) []px.Value { return append(els, tps...) })
	case 6:
		return types.WrapHash(he())
	case 7:
		return types.BuildHash(6, func(h *types.Hash, es []*types.HashEntry) []*types.HashEntry { return append(es, he()...) })
	case 8:
		return types.WrapValues(append([]px.Value{}, tps[:3]...)).Add(tps[3])
	default:
		return types.WrapStrings(append(append([]string{}, strs...), "e")).Select(func(px.Value) bool { return true })
	}
}

var creatorViews = []string{"itself", "Slice(0,0)", "Slice(0,1)", "Slice(0,2)", "Slice(0,n-1)", "Slice(1,n)", "Slice(1,2)", "EachSlice(2) chunks", "Slice(0,n-1).Slice(1,2)",
	"EachSlice(3) chunks"}

// the views of x: the values the creator is called on (several for EachSlice), all of them watched
func creatorView(x px.List, i int) []px.Value {
	n := x.Len()
	switch i {
	case 0:
		return []px.Value{x}
	case 1:
		return []px.Value{x.Slice(0, 0)}
	case 2:
		return []px.Value{x.Slice(0, 1)}
	case 3:
		return []px.Value{x.Slice(0, 2)}
	case 4:
		return []px.Value{x.Slice(0, n-1)}
	case 5:
		return []px.Value{x.Slice(1, n)}
	case 6:
		return []px.Value{x.Slice(1, 2)}
	case 8:
		return []px.Value{x.Slice(0, n-1).Slice(1, 2)}
	}
	sz := 2
	if i == 9 {
		sz = 3
	}
	var chunks []px.Value
	x.EachSlice(sz, func(c px.List) { chunks = append(chunks, c) })
	return chunks
}

var creatorNames = []string{"Enum.new(v, true)", "Enum.new(v, 'x', false)", "Enum.new(v, 'z')", "Tuple.new-type(v, Integer[1,5])", "Tuple.new-type(v, Integer[2])",
	"Callable.new([v, Integer[1,5]])", "Callable.new([v, Integer[1,5]], String)", "Struct.new(v)", "Variant.new(v)", "Array.new(v)", "Array.new(v, true)",
	"Go: res := v.AppendTo(nil); write every cell of res[:cap(res)]", "Go: res := v.AppendTo(make(0, n)); res = append(res, 'W'); res[0] = 'W'",
	"Go: m := v.ToStringMap(); write and delete keys", "Go: res := v.AppendEntriesTo(nil); write every cell of res[:cap(res)]",
	"Go: res := v.Keys().AppendTo(nil), v.Values().AppendTo(nil); write every cell", "Tuple-value.new(v, true)", "Init[Array, v..] / Type.new on the elements: v.AppendTo(non-empty)",
	"Go: res := v.AppendTo(make(0, n+3)); append thrice", "Enum.new(v, true) twice"}

func pokeAll(res []px.Value, w px.Value) {
	full := res[:cap(res)]
	for i := range full {
		full[i] = w
	}
}

func runCreator(c px.Context, v px.Value, k int) {
	defer func() { _ = recover() }() // an ill-typed argument list is a reported error; what counts is what happened to the values
	W := types.WrapString("W")
	switch k {
	case 0:
		px.New(c, types.EnumMetaType, v, types.BooleanTrue)
	case 1:
		px.New(c, types.EnumMetaType, v, types.WrapString("x"), types.BooleanFalse)
	case 2:
		px.New(c, types.EnumMetaType, v, types.WrapString("z"))
	case 3:
		px.New(c, types.TupleMetaType, v, types.NewIntegerType(1, 5))
	case 4:
		px.New(c, types.TupleMetaType, v, types.NewIntegerType(2, math.MaxInt64))
	case 5:
		px.New(c, types.CallableMetaType, types.WrapValues([]px.Value{v, types.NewIntegerType(1, 5)}))
	case 6:
		px.New(c, types.CallableMetaType, types.WrapValues([]px.Value{v, types.NewIntegerType(1, 5)}), types.DefaultStringType())
	case 7:
		px.New(c, types.StructMetaType, v)
	case 8:
		px.New(c, types.VariantMetaType, v)
	case 9:
		px.New(c, types.DefaultArrayType(), v)
	case 10:
		px.New(c, types.DefaultArrayType(), v, types.BooleanTrue)
	case 11:
		pokeAll(v.(px.List).AppendTo(nil), W)
	case 12:
		l := v.(px.List)
		res := l.AppendTo(make([]px.Value, 0, l.Len()))
		res = append(res, W)
		res[0] = W
	case 13:
		if h, ok := v.(*types.Hash); ok {
			m := h.ToStringMap()
			for _, k := range []string{"a", "b", "zz"} {
				m[k] = W
			}
			delete(m, "c")
		}
	case 14:
		if h, ok := v.(*types.Hash); ok {
			res := h.AppendEntriesTo(nil)
			full := res[:cap(res)]
			for i := range full {
				full[i] = types.WrapHashEntry2("!w", W)
			}
		}
	case 15:
		if h, ok := v.(*types.Hash); ok {
			pokeAll(h.Keys().AppendTo(nil), W)
			pokeAll(h.Values().AppendTo(make([]px.Value, 0, 1)), W)
		}
	case 16:
		px.New(c, types.DefaultTupleType(), v, types.BooleanTrue)
	case 17:
		l := v.(px.List)
		res := l.AppendTo(append(make([]px.Value, 0, l.Len()+1), W))
		pokeAll(res, W)
	case 18:
		l := v.(px.List)
		res := l.AppendTo(make([]px.Value, 0, l.Len()+3))
		res = append(res, W)
		res = append(res, W)
		res = append(res, W)
		_ = res
	case 19:
		px.New(c, types.EnumMetaType, v, types.BooleanTrue)
		px.New(c, types.EnumMetaType, v, types.BooleanFalse)
	}
}

func creatorInput(cc creatorCase) map[string]interface{} {
	return map[string]interface{}{"kind": "creator", "base": cc.Base, "view": cc.View, "creator": cc.Creator,
		"text": fmt.Sprintf("x := %s; v := x.%s; %s", creatorBases[cc.Base], creatorViews[cc.View], creatorNames[cc.Creator])}
}

// runs one case; returns the description of the first change (or "")
func creatorRun(cc creatorCase, verbose bool) string {
	x := creatorBase(cc.Base).(px.List)
	views := creatorView(x, cc.View)
	ws := []*watched{{name: "x", v: x}}
	for i, v := range views {
		ws = append(ws, &watched{name: fmt.Sprintf("view %d of x (%s)", i, creatorViews[cc.View]), v: v})
	}
	// values derived from x before the call: they share its elements / entry objects
	if h, ok := x.(*types.Hash); ok {
		ws = append(ws, &watched{name: "x.Keys()", v: h.Keys()}, &watched{name: "x.Values()", v: h.Values()}, &watched{name: "x.At(0)", v: h.At(0)})
	} else {
		ws = append(ws, &watched{name: "x.Add('q')", v: x.Add(types.WrapString("q"))})
	}
	for _, w := range ws {
		w.before = obsText(w.v)
		if verbose {
			fmt.Printf("  %-40s = %s\n", w.name, w.before)
		}
	}
	c := pcore.RootContext()
	for i, v := range views {
		runCreator(c, v, cc.Creator)
		for _, w := range ws {
			if now := obsText(w.v); now != w.before {
				return fmt.Sprintf("%s on view %d changed %s: before %s, after %s", creatorNames[cc.Creator], i, w.name, w.before, now)
			}
		}
	}
	return ""
}

func creators(r *arunner) {
	for b := range creatorBases {
		isHash := b == 6 || b == 7
		for v := range creatorViews {
			for k := range creatorNames {
				if !isHash && (k == 13 || k == 14 || k == 15) {
					continue
				}
				cc := creatorCase{b, v, k}
				r.res.Evaluations++
				r.res.Count("family.creators")
				r.res.Nontrivial(fmt.Sprintf("creator %d %d %d", b, v, k))
				r.res.Count("nontrivial")
				if msg := creatorRun(cc, false); msg != "" {
					kind := "library"
					if len(creatorNames[k]) > 3 && creatorNames[k][:3] == "Go:" {
						kind = "caller"
					}
					r.res.Violate(lib.Violation{Clause: "immutability", What: "x := " + creatorBases[b] + ": " + msg, Input: creatorInput(cc),
						Tags: []string{"accessor-result-written-by-" + kind + "@" + fmt.Sprint(k)}})
				}
			}
		}
	}
}

func replayCreator(r *arunner, in interface{}) {
	var cc creatorCase
	lib.Remarshal(in, &cc)
	r.res.Evaluations++
	fmt.Printf("  x := %s; v := x.%s; %s\n", creatorBases[cc.Base], creatorViews[cc.View], creatorNames[cc.Creator])
	if msg := creatorRun(cc, true); msg != "" {
		fmt.Println("FAILS: " + msg)
		r.res.Violate(lib.Violation{Clause: "immutability", What: msg, Input: creatorInput(cc), Tags: []string{"accessor-result-written@" + fmt.Sprint(cc.Creator)}})
	} else {
		fmt.Println("no earlier value changed")
	}
}
