// c08: values are immutable - no operation disturbs a value obtained earlier.
//
// G: histories over a pool of values; each step applies a List/OrderedMap operation (or one of the read-only
//    operations: type inference, printing, hashing, serializing) to any earlier value or result.
// D: after every step every live value is snapshot again (element walk + program-format text + hash key)
//    and compared with its snapshot from before the step.
// M: the projected result of every step and the final observation of every pool value are compared with
//    the slice-level model (coq/Model/Heap.v, Coll.v) by vm_compute.
// Results that are TYPES (the type returned by an inference is a value obtained earlier): infer.go, infergen.go;
// their model is coq/Model/InferHeap.v, their cases go to cases_infer.v.
package main

import (
	"fmt"
	"os"
	"time"

	"verifharness/collh"
	"verifharness/lib"
)

const casesTyp = "list op * (list out * list pv)"

func newCases() *lib.CasesFile {
	return &lib.CasesFile{Imports: []string{"Model.Base", "Model.Heap", "Model.Coll", "Corr.CorrC08"}, Typ: casesTyp,
		Obligations: map[string]string{"heap_model": "c08_mismatches cases"}}
}

func gallinaCase(h *collh.History) string {
	fin := make([]string, len(h.Final))
	for i, p := range h.Final {
		fin[i] = p.Gallina()
	}
	return "(" + collh.GallinaOps(h.Ops) + ",\n    (" + collh.GallinaOuts(h.Outs) + ",\n     " + lib.GList(fin, "pv") + "))"
}

func input(ops []collh.Op) map[string]interface{} {
	return map[string]interface{}{"kind": "history", "ops": ops}
}

var runOpts = collh.RunOpts{Immutability: true, Reference: true, TouchAll: true}

func violation(h *collh.History) lib.Violation {
	c := h.Change
	return lib.Violation{Clause: "immutability",
		What: fmt.Sprintf("step %d (%s) changed the %s of v%d (obtained by %s): before %s, after %s", c.Step, h.Ops[c.Step].String(),
			c.What, c.Value, h.Ops[c.Value].String(), c.Before, c.After),
		Input: input(h.Ops[:c.Step+1]),
		// one group per (offending operation, kind of its receiver), so that each defect keeps its examples
		Tags: []string{h.Ops[c.Step].Kind + "@" + recvKind(h, c.Step)}}
}

func recvKind(h *collh.History, step int) string {
	o := h.Ops[step]
	if o.R < len(h.Outs) && h.Outs[o.R].V != nil {
		switch h.Outs[o.R].V.K {
		case "a":
			return "array"
		case "h":
			return "hash"
		case "e":
			return "entry"
		}
	}
	return "value"
}

// usable for the model tie: the model compares keys structurally (see ref.go on Ambiguous), and knows
// the four error classes only
func tieable(h *collh.History) bool {
	if h.Ambiguous || h.Unclean {
		return false
	}
	for _, o := range h.Outs {
		if len(o.Err) > 5 && o.Err[:5] == "other" {
			return false
		}
	}
	return true
}

func nontrivial(ops []collh.Op) bool {
	// some receiver is used by two steps, or a step works on the result of an earlier non-literal step
	used := map[int]int{}
	for _, o := range ops {
		switch o.Kind {
		case "Lit", "Build", "Parse":
			continue
		}
		used[o.R]++
		if used[o.R] >= 2 {
			return true
		}
		switch ops[o.R].Kind {
		case "Lit":
		default:
			return true
		}
	}
	return false
}

type runner struct {
	cfg   *lib.Config
	res   *lib.Result
	cf    *lib.CasesFile
	total int
	dcoq  int
}

func (r *runner) check(ops []collh.Op, toCoq bool, family string) *collh.History {
	h := collh.Run(ops, runOpts)
	r.total++
	r.res.Evaluations++
	r.res.Count("family." + family)
	for _, o := range ops {
		r.res.Count("op." + o.Kind)
	}
	if nontrivial(ops) {
		r.res.Nontrivial(collh.OpsCanon(ops))
		r.res.Count("nontrivial")
	}
	if h.Ambiguous {
		r.res.Count("ambiguous-equality(not tied)")
	}
	bad := h.Change != nil
	if bad {
		r.res.Violate(violation(h))
	}
	if (toCoq && tieable(h)) || (bad && r.dcoq < 20) {
		if bad {
			r.dcoq++
		}
		r.cf.Add(gallinaCase(h), input(ops))
	}
	if r.total%1499 == 1 {
		outs := make([]string, len(h.Outs))
		for i, o := range h.Outs {
			outs[i] = o.String()
		}
		r.res.Sample(map[string]interface{}{"ops": collh.OpsText(ops), "results": outs})
	}
	return h
}

func main() {
	cfg := lib.ParseFlags()
	res := lib.NewResult("C08")
	res.Rule = "a history (pool of values, each step applies a List/OrderedMap operation to any earlier value or result; every live " +
		"value is re-observed after every step) is non-trivial when some receiver is used by two steps or a step works on the " +
		"result of an earlier operation; a type history (pool of values and types; steps build values, infer types, take common types) is " +
		"non-trivial when some entry is used by two steps; distinct = distinct operation sequences"
	r := &runner{cfg: cfg, res: res, cf: newCases()}
	tr := &trunner{runner: r, tcf: newTCases()}
	xr := &xrunner{runner: r, xcf: newXCases()}
	ar := &arunner{runner: r, acf: newACases()}
	if cfg.Replay != "" {
		replay(r, tr, xr, ar)
	} else {
		rng := lib.NewRng(cfg.Seed)
		for _, ops := range corpus() {
			r.check(ops, true, "corpus")
		}
		exhaustive(r)
		random(r, rng)
		// routes that share entry objects / store an equal key twice (xfam.go)
		dupkeys(xr)
		tree(xr)
		// read accessors that hand out Go slices / maps, the caller's writes into them, the library's own writers (afam.go)
		t0 := time.Now()
		access(ar)
		accessRandom(ar, lib.NewRng(cfg.Seed^0xA11CE5))
		creators(ar)
		if os.Getenv("VERIF_TIMING") != "" {
			fmt.Fprintf(os.Stderr, "accessor families: %v\n", time.Since(t0))
		}
		// results that are types (infer.go, infergen.go)
		for _, ops := range corpusT() {
			tr.check(ops, true, true, "corpus-types")
		}
		exhaustiveT(tr)
		randomT(tr, rng)
	}
	res.CorrFiles = append(res.CorrFiles, r.cf.WriteTo(cfg.Out, "cases_heap"))
	res.CorrFiles = append(res.CorrFiles, tr.tcf.WriteTo(cfg.Out, "cases_infer"))
	res.CorrFiles = append(res.CorrFiles, xr.xcf.WriteTo(cfg.Out, "cases_heapx"))
	res.CorrFiles = append(res.CorrFiles, ar.acf.WriteTo(cfg.Out, "cases_heapa"))
	res.Write(cfg)
}

func replay(r *runner, tr *trunner, xr *xrunner, ar *arunner) {
	for _, in := range lib.ReplayInputs(r.cfg.Replay) {
		var k struct {
			Kind string `json:"kind"`
		}
		lib.Remarshal(in, &k)
		if k.Kind == "thistory" {
			replayT(tr, in)
			continue
		}
		if k.Kind == "xhistory" {
			replayX(xr, in)
			continue
		}
		if k.Kind == "ahistory" {
			replayA(ar, in)
			continue
		}
		if k.Kind == "creator" {
			replayCreator(ar, in)
			continue
		}
		var x struct {
			Kind string     `json:"kind"`
			Ops  []collh.Op `json:"ops"`
		}
		lib.Remarshal(in, &x)
		if x.Kind != "history" {
			continue
		}
		h := collh.Run(x.Ops, runOpts)
		r.res.Evaluations++
		for i, o := range x.Ops {
			fmt.Printf("  v%-2d := %-40s => %s\n", i, o.String(), h.Outs[i])
		}
		for i, p := range h.Final {
			fmt.Printf("  finally v%-2d = %s\n", i, p)
		}
		if h.Change != nil {
			v := violation(h)
			fmt.Println("FAILS: " + v.What)
			r.res.Violate(v)
		} else {
			fmt.Println("no earlier value changed in this history")
		}
		r.cf.Add(gallinaCase(h), in)
	}
}

// corpus: the histories that failed on the pinned tree (regressions), always run first
func corpus() [][]collh.Op {
	I, S, A, E, H := collh.In, collh.St, collh.Ar, collh.En, collh.Ha
	lit := func(p *collh.PV) collh.Op { return collh.Op{Kind: "Lit", P: p} }
	abc := H(E(S("a"), I(1)), E(S("b"), I(2)), E(S("c"), I(3)))
	return [][]collh.Op{
		// Add twice on one receiver with spare capacity
		{{Kind: "Build", I: 4, P: A(I(1))}, lit(I(2)), lit(I(3)), {Kind: "Add", R: 0, X: 1}, {Kind: "Add", R: 0, X: 2}},
		// the same through the parser (growth leaves spare capacity)
		{{Kind: "Parse", P: A(I(1), I(2), I(3))}, lit(I(4)), lit(I(5)), {Kind: "Add", R: 0, X: 1}, {Kind: "Add", R: 0, X: 2}},
		// AddAll
		{{Kind: "Build", I: 8, P: A(I(1))}, lit(A(I(2), I(3))), lit(A(I(4))), {Kind: "AddAll", R: 0, X: 1}, {Kind: "AddAll", R: 0, X: 2}},
		// slice then add: the addition lands in the sliced receiver
		{lit(A(I(1), I(2), I(3))), lit(I(9)), {Kind: "Slice", R: 0, I: 0, J: 1}, {Kind: "Add", R: 2, X: 1}},
		{lit(A(I(1), I(2), I(3))), lit(I(9)), {Kind: "EachSlice", R: 0, I: 2, J: 0}, {Kind: "Add", R: 2, X: 1}},
		// results of Select/Reject/Delete/Flatten/Unique have spare capacity
		{lit(A(I(1), S("a"))), lit(I(2)), lit(I(3)), {Kind: "Select", R: 0, Pd: &collh.Pred{Kind: "int"}}, {Kind: "Add", R: 3, X: 1}, {Kind: "Add", R: 3, X: 2}},
		{lit(A(A(I(1)), I(2))), lit(I(2)), lit(I(3)), {Kind: "Flatten", R: 0}, {Kind: "Add", R: 3, X: 1}, {Kind: "Add", R: 3, X: 2}},
		{lit(A(I(1), I(1), I(2))), lit(I(2)), lit(I(3)), {Kind: "Unique", R: 0}, {Kind: "Add", R: 3, X: 1}, {Kind: "Add", R: 3, X: 2}},
		// Hash.Delete / DeleteAll write into the receiver
		{lit(abc), lit(S("a")), {Kind: "Delete", R: 0, X: 1}},
		{{Kind: "Parse", P: abc}, lit(S("b")), {Kind: "Delete", R: 0, X: 1}, {Kind: "Get", R: 0, X: 1}},
		{lit(abc), lit(A(S("a"), S("b"))), {Kind: "DeleteAll", R: 0, X: 1}},
		// a slice of a hash, then delete in the slice: the original changes
		{lit(abc), lit(S("a")), {Kind: "Slice", R: 0, I: 0, J: 2}, {Kind: "Delete", R: 2, X: 1}},
		// nested: the changed array is an element of another value
		{{Kind: "Build", I: 4, P: A(I(1))}, lit(I(2)), lit(I(3)), {Kind: "Add", R: 0, X: 1}, {Kind: "Lit", P: A()}, {Kind: "Add", R: 4, X: 3}, {Kind: "Add", R: 0, X: 2}},
	}
}

func random(r *runner, rng *lib.Rng) {
	n, coq := 6000, 500
	if r.cfg.Thorough() {
		n, coq = 200000, 6000
	}
	for i := 0; i < n; i++ {
		g := rng.Fork()
		ops := collh.RandomHistory(g, 6+g.Intn(34), collh.AliasWeights)
		r.check(ops, i < coq, "random")
	}
}
