// c08: values are immutable - no operation disturbs a value obtained earlier.
//
// G: histories over a pool of values; each step applies a List/OrderedMap operation (or one of the read-only
//    operations: type inference, printing, hashing, serializing) to any earlier value or result.
// D: after every step every live value is snapshot again (element walk + program-format text + hash key)
//    and compared with its snapshot from before the step.
// M: the projected result of every step and the final observation of every pool value are compared with
//    the slice-level model (coq/Model/Heap.v, Coll.v) by vm_compute.
package main

import (
	"fmt"

	"verifharness/collh"
	"verifharness/lib"
)

const casesTyp = "list op * (list out * list pv)"

func newCases() *lib.CasesFile {
	return &lib.CasesFile{Imports: []string{"Model.Base", "Model.Heap", "Model.Coll", "Corr.CorrC08"}, Typ: casesTyp,
		Obligations: map[string]string{"heap_model": "c08_mismatches cases"}}
}

func gallinaCase(h *collh.History) string {
	fin := make([]string, len(h.Final))
	for i, p := range h.Final {
		fin[i] = p.Gallina()
	}
	return "(" + collh.GallinaOps(h.Ops) + ",\n    (" + collh.GallinaOuts(h.Outs) + ",\n     " + lib.GList(fin, "pv") + "))"
}

func input(ops []collh.Op) map[string]interface{} {
	return map[string]interface{}{"kind": "history", "ops": ops}
}

var runOpts = collh.RunOpts{Immutability: true, Reference: true, TouchAll: true}

func violation(h *collh.History) lib.Violation {
	c := h.Change
	return lib.Violation{Clause: "immutability",
		What: fmt.Sprintf("step %d (%s) changed the %s of v%d (obtained by %s): before %s, after %s", c.Step, h.Ops[c.Step].String(),
			c.What, c.Value, h.Ops[c.Value].String(), c.Before, c.After),
		Input: input(h.Ops[:c.Step+1])}
}

// usable for the model tie: the model compares keys structurally (see ref.go on Ambiguous), and knows
// the four error classes only
func tieable(h *collh.History) bool {
	if h.Ambiguous || h.Unclean {
		return false
	}
	for _, o := range h.Outs {
		if len(o.Err) > 5 && o.Err[:5] == "other" {
			return false
		}
	}
	return true
}

func nontrivial(ops []collh.Op) bool {
	// some receiver is used by two steps, or a step works on the result of an earlier non-literal step
	used := map[int]int{}
	for _, o := range ops {
		switch o.Kind {
		case "Lit", "Build", "Parse":
			continue
		}
		used[o.R]++
		if used[o.R] >= 2 {
			return true
		}
		switch ops[o.R].Kind {
		case "Lit":
		default:
			return true
		}
	}
	return false
}

type runner struct {
	cfg   *lib.Config
	res   *lib.Result
	cf    *lib.CasesFile
	total int
	dcoq  int
}

func (r *runner) check(ops []collh.Op, toCoq bool, family string) *collh.History {
	h := collh.Run(ops, runOpts)
	r.total++
	r.res.Evaluations++
	r.res.Count("family." + family)
	for _, o := range ops {
		r.res.Count("op." + o.Kind)
	}
	if nontrivial(ops) {
		r.res.Nontrivial(collh.OpsCanon(ops))
		r.res.Count("nontrivial")
	}
	if h.Ambiguous {
		r.res.Count("ambiguous-equality(not tied)")
	}
	bad := h.Change != nil
	if bad {
		r.res.Violate(violation(h))
	}
	if (toCoq && tieable(h)) || (bad && r.dcoq < 20) {
		if bad {
			r.dcoq++
		}
		r.cf.Add(gallinaCase(h), input(ops))
	}
	if r.total%1499 == 1 {
		outs := make([]string, len(h.Outs))
		for i, o := range h.Outs {
			outs[i] = o.String()
		}
		r.res.Sample(map[string]interface{}{"ops": collh.OpsText(ops), "results": outs})
	}
	return h
}

func main() {
	cfg := lib.ParseFlags()
	res := lib.NewResult("C08")
	res.Rule = "a history (pool of values, each step applies a List/OrderedMap operation to any earlier value or result; every live " +
		"value is re-observed after every step) is non-trivial when some receiver is used by two steps or a step works on the " +
		"result of an earlier operation; distinct = distinct operation sequences"
	r := &runner{cfg: cfg, res: res, cf: newCases()}
	if cfg.Replay != "" {
		replay(r)
	} else {
		rng := lib.NewRng(cfg.Seed)
		for _, ops := range corpus() {
			r.check(ops, true, "corpus")
		}
		exhaustive(r)
		random(r, rng)
	}
	res.CorrFiles = append(res.CorrFiles, r.cf.WriteTo(cfg.Out, "cases_heap"))
	res.Write(cfg)
}

func replay(r *runner) {
	for _, in := range lib.ReplayInputs(r.cfg.Replay) {
		var x struct {
			Kind string     `json:"kind"`
			Ops  []collh.Op `json:"ops"`
		}
		lib.Remarshal(in, &x)
		if x.Kind != "history" {
			continue
		}
		h := collh.Run(x.Ops, runOpts)
		r.res.Evaluations++
		for i, o := range x.Ops {
			fmt.Printf("  v%-2d := %-40s => %s\n", i, o.String(), h.Outs[i])
		}
		for i, p := range h.Final {
			fmt.Printf("  finally v%-2d = %s\n", i, p)
		}
		if h.Change != nil {
			v := violation(h)
			fmt.Println("FAILS: " + v.What)
			r.res.Violate(v)
		} else {
			fmt.Println("no earlier value changed in this history")
		}
		r.cf.Add(gallinaCase(h), in)
	}
}

// corpus: the histories that failed on the pinned tree (regressions), always run first
func corpus() [][]collh.Op {
	I, S, A, E, H := collh.In, collh.St, collh.Ar, collh.En, collh.Ha
	lit := func(p *collh.PV) collh.Op { return collh.Op{Kind: "Lit", P: p} }
	abc := H(E(S("a"), I(1)), E(S("b"), I(2)), E(S("c"), I(3)))
	return [][]collh.Op{
		// Add twice on one receiver with spare capacity
		{{Kind: "Build", I: 4, P: A(I(1))}, lit(I(2)), lit(I(3)), {Kind: "Add", R: 0, X: 1}, {Kind: "Add", R: 0, X: 2}},
		// the same through the parser (growth leaves spare capacity)
		{{Kind: "Parse", P: A(I(1), I(2), I(3))}, lit(I(4)), lit(I(5)), {Kind: "Add", R: 0, X: 1}, {Kind: "Add", R: 0, X: 2}},
		// AddAll
		{{Kind: "Build", I: 8, P: A(I(1))}, lit(A(I(2), I(3))), lit(A(I(4))), {Kind: "AddAll", R: 0, X: 1}, {Kind: "AddAll", R: 0, X: 2}},
		// slice then add: the addition lands in the sliced receiver
		{lit(A(I(1), I(2), I(3))), lit(I(9)), {Kind: "Slice", R: 0, I: 0, J: 1}, {Kind: "Add", R: 2, X: 1}},
		{lit(A(I(1), I(2), I(3))), lit(I(9)), {Kind: "EachSlice", R: 0, I: 2, J: 0}, {Kind: "Add", R: 2, X: 1}},
		// results of Select/Reject/Delete/Flatten/Unique have spare capacity
		{lit(A(I(1), S("a"))), lit(I(2)), lit(I(3)), {Kind: "Select", R: 0, Pd: &collh.Pred{Kind: "int"}}, {Kind: "Add", R: 3, X: 1}, {Kind: "Add", R: 3, X: 2}},
		{lit(A(A(I(1)), I(2))), lit(I(2)), lit(I(3)), {Kind: "Flatten", R: 0}, {Kind: "Add", R: 3, X: 1}, {Kind: "Add", R: 3, X: 2}},
		{lit(A(I(1), I(1), I(2))), lit(I(2)), lit(I(3)), {Kind: "Unique", R: 0}, {Kind: "Add", R: 3, X: 1}, {Kind: "Add", R: 3, X: 2}},
		// Hash.Delete / DeleteAll write into the receiver
		{lit(abc), lit(S("a")), {Kind: "Delete", R: 0, X: 1}},
		{{Kind: "Parse", P: abc}, lit(S("b")), {Kind: "Delete", R: 0, X: 1}, {Kind: "Get", R: 0, X: 1}},
		{lit(abc), lit(A(S("a"), S("b"))), {Kind: "DeleteAll", R: 0, X: 1}},
		// a slice of a hash, then delete in the slice: the original changes
		{lit(abc), lit(S("a")), {Kind: "Slice", R: 0, I: 0, J: 2}, {Kind: "Delete", R: 2, X: 1}},
		// nested: the changed array is an element of another value
		{{Kind: "Build", I: 4, P: A(I(1))}, lit(I(2)), lit(I(3)), {Kind: "Add", R: 0, X: 1}, {Kind: "Lit", P: A()}, {Kind: "Add", R: 4, X: 3}, {Kind: "Add", R: 0, X: 2}},
	}
}

// exhaustive: all histories of `depth` operations over the letters below, on three seed preludes.  The
// receiver of a letter is the seed collection or the most recent result of the same kind.
func exhaustive(r *runner) {
	I, S, A, E, H := collh.In, collh.St, collh.Ar, collh.En, collh.Ha
	abc := H(E(S("a"), I(1)), E(S("b"), I(2)), E(S("c"), I(3)))
	type prelude struct {
		ops  []collh.Op
		arr  int
		hash int
	}
	// pool: 0 array, 1 hash, 2 scalar 7, 3 scalar 8, 4 array [7,8], 5 key "a", 6 key list [a c], 7 hash {b=>9,d=>4}, 8 entry (a=>5)
	common := []collh.Op{{Kind: "Lit", P: I(7)}, {Kind: "Lit", P: I(8)}, {Kind: "Lit", P: A(I(7), I(8))}, {Kind: "Lit", P: S("a")},
		{Kind: "Lit", P: A(S("a"), S("c"))}, {Kind: "Lit", P: H(E(S("b"), I(9)), E(S("d"), I(4)))}, {Kind: "Lit", P: E(S("a"), I(5))}}
	pre := []prelude{
		{ops: append([]collh.Op{{Kind: "Build", I: 6, P: A(I(1), A(I(2)), I(1))}, {Kind: "Build", I: 6, P: abc}}, common...)},
		{ops: append([]collh.Op{{Kind: "Parse", P: A(I(1), A(I(2)), I(1))}, {Kind: "Parse", P: abc}}, common...)},
		{ops: append([]collh.Op{{Kind: "Lit", P: A(I(1), A(I(2)), I(1))}, {Kind: "Lit", P: abc}}, common...)},
	}
	depth := 3
	budget := 500
	if r.cfg.Thorough() {
		depth = 4
		budget = 4000
	}
	type letter struct {
		op   collh.Op
		hash bool
	}
	letters := []letter{
		{op: collh.Op{Kind: "Add", X: 2}}, {op: collh.Op{Kind: "Add", X: 3}}, {op: collh.Op{Kind: "AddAll", X: 4}},
		{op: collh.Op{Kind: "Slice", I: 0, J: 1}}, {op: collh.Op{Kind: "Slice", I: 1, J: 2}}, {op: collh.Op{Kind: "EachSlice", I: 2, J: 0}},
		{op: collh.Op{Kind: "Delete", X: 2}}, {op: collh.Op{Kind: "Select", Pd: &collh.Pred{Kind: "int"}}},
		{op: collh.Op{Kind: "Reject", Pd: &collh.Pred{Kind: "eq", X: 2}}}, {op: collh.Op{Kind: "Flatten"}}, {op: collh.Op{Kind: "Unique"}},
		{op: collh.Op{Kind: "Map", Mp: &collh.Mapper{Kind: "id"}}}, {op: collh.Op{Kind: "At", I: 1}},
		{op: collh.Op{Kind: "Delete", X: 5}, hash: true}, {op: collh.Op{Kind: "DeleteAll", X: 6}, hash: true},
		{op: collh.Op{Kind: "Merge", X: 7}, hash: true}, {op: collh.Op{Kind: "Slice", I: 0, J: 2}, hash: true},
		{op: collh.Op{Kind: "Add", X: 8}, hash: true}, {op: collh.Op{Kind: "Get", X: 5}, hash: true},
		{op: collh.Op{Kind: "Keys"}, hash: true}, {op: collh.Op{Kind: "SelectPairs", Pd: &collh.Pred{Kind: "eq", X: 5}}, hash: true},
	}
	// number of leaves, to sample evenly into the Coq file
	n := 0
	for d, p := 1, 1; d <= depth; d++ {
		p *= len(letters) * 2
		n += p
	}
	n *= len(pre)
	stride := n/budget + 1
	idx := 0
	for _, p := range pre {
		var rec func(ops []collh.Op, lastArr, lastHash, d int)
		rec = func(ops []collh.Op, lastArr, lastHash, d int) {
			if d > 0 {
				idx++
				r.check(ops, idx%stride == 0, "exhaustive")
			}
			if d == depth {
				return
			}
			for _, l := range letters {
				for _, recent := range []bool{false, true} {
					o := l.op
					if l.hash {
						o.R = 1
						if recent {
							o.R = lastHash
						}
					} else {
						o.R = 0
						if recent {
							o.R = lastArr
						}
					}
					if recent && d == 0 {
						continue
					}
					next := append(append([]collh.Op{}, ops...), o)
					la, lh := lastArr, lastHash
					// kind of the result (statically known for these letters)
					switch {
					case o.Kind == "At" || o.Kind == "Get":
					case l.hash && o.Kind != "Keys":
						lh = len(ops)
					default:
						la = len(ops)
					}
					rec(next, la, lh, d+1)
				}
			}
		}
		rec(p.ops, 0, 1, 0)
	}
	r.res.Extra["exhaustive_histories"] = idx
	r.res.Extra["exhaustive_depth"] = depth
	r.res.Extra["exhaustive_letters"] = len(letters)
}

func random(r *runner, rng *lib.Rng) {
	n, coq := 6000, 500
	if r.cfg.Thorough() {
		n, coq = 200000, 6000
	}
	for i := 0; i < n; i++ {
		g := rng.Fork()
		ops := collh.RandomHistory(g, 6+g.Intn(34), collh.AliasWeights)
		r.check(ops, i < coq, "random")
	}
}
