package main

import (
	"verifharness/collh"
)

type letter struct {
	op   collh.Op
	hash bool // the receiver is the hash (else the array)
	more bool // only in the larger alphabet
}

// pool of every prelude: 0 array, 1 hash, 2 scalar 7, 3 scalar 8, 4 array [8,7], 5 key "a", 6 key list [a c],
// 7 hash {b=>9,d=>4}, 8 entry (a=>5)
func preludes() [][]collh.Op {
	I, S, A, E, H := collh.In, collh.St, collh.Ar, collh.En, collh.Ha
	abc := H(E(S("a"), I(1)), E(S("b"), I(2)), E(S("c"), I(3)))
	arr := A(I(1), A(I(2)), I(1))
	common := []collh.Op{{Kind: "Lit", P: I(7)}, {Kind: "Lit", P: I(8)}, {Kind: "Lit", P: A(I(8), I(7))}, {Kind: "Lit", P: S("a")},
		{Kind: "Lit", P: A(S("a"), S("c"))}, {Kind: "Lit", P: H(E(S("b"), I(9)), E(S("d"), I(4)))}, {Kind: "Lit", P: E(S("a"), I(5))}}
	return [][]collh.Op{
		append([]collh.Op{{Kind: "Build", I: 6, P: arr}, {Kind: "Build", I: 6, P: abc}}, common...),
		append([]collh.Op{{Kind: "Parse", P: arr}, {Kind: "Parse", P: abc}}, common...),
		append([]collh.Op{{Kind: "Lit", P: arr}, {Kind: "Lit", P: abc}}, common...),
	}
}

func letters(all bool) []letter {
	ls := []letter{
		{op: collh.Op{Kind: "Add", X: 2}}, {op: collh.Op{Kind: "Add", X: 3}, more: true}, {op: collh.Op{Kind: "AddAll", X: 4}},
		{op: collh.Op{Kind: "Slice", I: 0, J: 1}}, {op: collh.Op{Kind: "Slice", I: 1, J: 2}, more: true}, {op: collh.Op{Kind: "EachSlice", I: 2, J: 0}},
		{op: collh.Op{Kind: "Delete", X: 2}}, {op: collh.Op{Kind: "Select", Pd: &collh.Pred{Kind: "int"}}},
		{op: collh.Op{Kind: "Reject", Pd: &collh.Pred{Kind: "eq", X: 2}}, more: true}, {op: collh.Op{Kind: "Flatten"}}, {op: collh.Op{Kind: "Unique"}},
		{op: collh.Op{Kind: "Map", Mp: &collh.Mapper{Kind: "id"}}, more: true}, {op: collh.Op{Kind: "At", I: 1}},
		{op: collh.Op{Kind: "Delete", X: 5}, hash: true}, {op: collh.Op{Kind: "DeleteAll", X: 6}, hash: true},
		{op: collh.Op{Kind: "Merge", X: 7}, hash: true}, {op: collh.Op{Kind: "Slice", I: 0, J: 2}, hash: true},
		{op: collh.Op{Kind: "Add", X: 8}, hash: true}, {op: collh.Op{Kind: "Get", X: 5}, hash: true},
		{op: collh.Op{Kind: "Keys"}, hash: true, more: true}, {op: collh.Op{Kind: "SelectPairs", Pd: &collh.Pred{Kind: "eq", X: 5}}, hash: true, more: true},
	}
	if all {
		return ls
	}
	var small []letter
	for _, l := range ls {
		if !l.more {
			small = append(small, l)
		}
	}
	return small
}

// exhaustive: every sequence of `depth` letters on each prelude, where the receiver of a letter is the seed
// collection or the most recent result of the same kind.  Only complete sequences are run (a prefix is
// checked step by step inside every sequence that extends it).
//   quick:    depth 3 over the 15-letter alphabet on the three preludes
//   thorough: depth 3 over all 21 letters on the three preludes + depth 4 over 15 letters on the first
func exhaustive(r *runner) {
	type family struct {
		letters []letter
		depth   int
		pre     [][]collh.Op
	}
	pre := preludes()
	fams := []family{{letters(false), 3, pre}}
	budget := 500
	if r.cfg.Thorough() {
		fams = []family{{letters(true), 3, pre}, {letters(false), 4, pre[:1]}}
		budget = 4000
	}
	idx := 0
	for _, f := range fams {
		// number of complete sequences, to sample evenly into the Coq file
		n := len(f.letters)
		for d := 1; d < f.depth; d++ {
			n *= 2 * len(f.letters)
		}
		n *= len(f.pre)
		stride := n/(budget/len(fams)) + 1
		for _, p := range f.pre {
			var rec func(ops []collh.Op, lastArr, lastHash, d int)
			rec = func(ops []collh.Op, lastArr, lastHash, d int) {
				if d == f.depth {
					idx++
					r.check(ops, idx%stride == 0, "exhaustive")
					return
				}
				for _, l := range f.letters {
					for _, recent := range []bool{false, true} {
						o := l.op
						if l.hash {
							o.R = 1
							if recent {
								o.R = lastHash
							}
						} else {
							o.R = 0
							if recent {
								o.R = lastArr
							}
						}
						if recent && d == 0 {
							continue
						}
						next := append(append([]collh.Op{}, ops...), o)
						la, lh := lastArr, lastHash
						// kind of the result (statically known for these letters)
						switch {
						case o.Kind == "At" || o.Kind == "Get":
						case l.hash && o.Kind != "Keys":
							lh = len(ops)
						default:
							la = len(ops)
						}
						rec(next, la, lh, d+1)
					}
				}
			}
			rec(p, 0, 1, 0)
		}
	}
	r.res.Extra["exhaustive_histories"] = idx
}
