package main

// Histories with the construction routes that SHARE ENTRY OBJECTS or store an equal key twice (collh/xops.go; model:
// coq/Model/CollHeapX.v; cases: cases_heapx.v, obligation heapx_model):
//
//   dupkeys  receivers whose entries storage holds an equal key twice - a parsed literal that repeats a key, the result
//            of MapEntries with a many-to-one mapper, MapEntries with the identity (shares the entry objects) and a
//            control with distinct keys - seen through four views (itself, Slice(0,n), Slice(0,n-1), Slice(1,n)); every
//            operation of the alphabet with EMPTY arguments (Lit / Parse / Build-with-capacity / Slice(i,i) empties of
//            both kinds, the absent key, the predicate nothing satisfies) and with small non-empty ones on the view,
//            followed by a second operation on the view, on the original or on the first result.
//   tree     Hash.new(tree, 'tree' | 'hash_tree'): every tree of up to three elements over an alphabet of root elements
//            ([[], h] for a hash h, a Merge result that shares entries with h, a nested hash, an array) and path elements
//            (one and two segments, present and absent keys, integer segments into foreign values, hash / array
//            values), on a pool that also holds values derived from h earlier (Merge, Slice, the entry object At(0));
//            two calls on the same root (also a root built with spare capacity) and on the result of the first call;
//            and second calls whose tree holds hashes nested in the result of the first call (under a path, as root).
import (
	"fmt"

	"verifharness/collh"
	"verifharness/lib"
)

const casesXTyp = "list xop * (list out * list pv)"

func newXCases() *lib.CasesFile {
	return &lib.CasesFile{Imports: []string{"Model.Base", "Model.Heap", "Model.Coll", "Model.CollHeap", "Model.CollHeapX", "Corr.CorrC08"}, Typ: casesXTyp,
		Obligations: map[string]string{"heapx_model": "c08_x_mismatches cases"}}
}

// no reference run: the abstract sequence / map of C09 does not know the two routes
var runOptsX = collh.RunOpts{Immutability: true, TouchAll: true}

func xinput(ops []collh.Op) map[string]interface{} {
	return map[string]interface{}{"kind": "xhistory", "ops": ops}
}

func gallinaXCase(h *collh.History) string {
	fin := make([]string, len(h.Final))
	for i, p := range h.Final {
		fin[i] = p.Gallina()
	}
	gs := make([]string, len(h.Ops))
	for i, o := range h.Ops {
		gs[i] = o.XGallina()
	}
	return "(" + lib.GList(gs, "xop") + ",\n    (" + collh.GallinaOuts(h.Outs) + ",\n     " + lib.GList(fin, "pv") + "))"
}

type xrunner struct {
	*runner
	xcf  *lib.CasesFile
	n    int
	xcoq int
}

func xviolation(h *collh.History) lib.Violation {
	v := violation(h)
	v.Input = xinput(h.Ops[:h.Change.Step+1])
	return v
}

func (r *xrunner) check(ops []collh.Op, toCoq bool, family string) *collh.History {
	h := collh.Run(ops, runOptsX)
	r.n++
	r.res.Evaluations++
	r.res.Count("family." + family)
	for _, o := range ops {
		r.res.Count("op." + o.Kind)
	}
	r.res.Nontrivial(collh.OpsCanon(ops))
	r.res.Count("nontrivial")
	bad := h.Change != nil
	if bad {
		r.res.Violate(xviolation(h))
	}
	tie := !h.Unclean
	for _, o := range h.Outs {
		if len(o.Err) > 5 && o.Err[:5] == "other" {
			tie = false
		}
	}
	if (toCoq && tie) || (bad && r.xcoq < 20) {
		if bad {
			r.xcoq++
		}
		r.xcf.Add(gallinaXCase(h), xinput(ops))
	}
	if r.n%997 == 1 {
		outs := make([]string, len(h.Outs))
		for i, o := range h.Outs {
			outs[i] = o.String()
		}
		r.res.Sample(map[string]interface{}{"ops": collh.OpsText(ops), "results": outs})
	}
	return h
}

func replayX(r *xrunner, in interface{}) {
	var x struct {
		Ops []collh.Op `json:"ops"`
	}
	lib.Remarshal(in, &x)
	h := collh.Run(x.Ops, runOptsX)
	r.res.Evaluations++
	for i, o := range h.Ops {
		fmt.Printf("  v%-2d := %-44s => %s\n", i, o.String(), h.Outs[i])
	}
	for i, p := range h.Final {
		fmt.Printf("  finally v%-2d = %s\n", i, p)
	}
	if h.Change != nil {
		v := xviolation(h)
		fmt.Println("FAILS: " + v.What)
		r.res.Violate(v)
	} else {
		fmt.Println("no earlier value changed in this history")
	}
	r.xcf.Add(gallinaXCase(h), in)
}

// ---------------------------------------------------------------------------------------------------------------
// dupkeys

type xletter struct {
	op   collh.Op // R is filled in; X refers to the prelude
	hash bool     // the result is a hash (a candidate receiver of the second letter)
}

// prelude of every dupkeys history; the receiver x is pushed after it
//  0 []  1 parsed []  2 built [] (cap 4)  3 [7,8]  4 v3.Slice(1,1)  5 {}  6 parsed {}  7 {p=>1}  8 v7.Slice(1,1)
//  9 'k'  10 'zz' (absent)  11 [['z',26]]  12 ['k',9]  13 {k=>7}  14 ['k']  15 (k=>5)
func dupPrelude() []collh.Op {
	I, S, A, E, H := collh.In, collh.St, collh.Ar, collh.En, collh.Ha
	lit := func(p *collh.PV) collh.Op { return collh.Op{Kind: "Lit", P: p} }
	return []collh.Op{lit(A()), {Kind: "Parse", P: A()}, {Kind: "Build", I: 4, P: A()}, lit(A(I(7), I(8))), {Kind: "Slice", R: 3, I: 1, J: 1},
		lit(H()), {Kind: "Parse", P: H()}, lit(H(E(S("p"), I(1)))), {Kind: "Slice", R: 7, I: 1, J: 1},
		lit(S("k")), lit(S("zz")), lit(A(A(S("z"), I(26)))), lit(A(S("k"), I(9))), lit(H(E(S("k"), I(7)))), lit(A(S("k"))), lit(E(S("k"), I(5)))}
}

func dupLetters() []xletter {
	id := &collh.Mapper{Kind: "id"}
	never := &collh.Pred{Kind: "eq", X: 10}
	isK := &collh.Pred{Kind: "eq", X: 9}
	var ls []xletter
	for _, x := range []int{0, 1, 2, 4, 5, 6, 8, 11, 12, 13} { // AddAll: every empty, then non-empty
		ls = append(ls, xletter{collh.Op{Kind: "AddAll", X: x}, true})
	}
	for _, x := range []int{5, 6, 8, 13} {
		ls = append(ls, xletter{collh.Op{Kind: "Merge", X: x}, true})
	}
	for _, x := range []int{0, 1, 2, 4, 14} {
		ls = append(ls, xletter{collh.Op{Kind: "DeleteAll", X: x}, true})
	}
	ls = append(ls,
		xletter{collh.Op{Kind: "Delete", X: 10}, true}, xletter{collh.Op{Kind: "Delete", X: 9}, true},
		xletter{collh.Op{Kind: "Add", X: 15}, true}, xletter{collh.Op{Kind: "Add", X: 12}, true},
		xletter{collh.Op{Kind: "Select", Pd: never}, true}, xletter{collh.Op{Kind: "Reject", Pd: never}, true},
		xletter{collh.Op{Kind: "SelectPairs", Pd: never}, true}, xletter{collh.Op{Kind: "RejectPairs", Pd: never}, true},
		xletter{collh.Op{Kind: "SelectPairs", Pd: isK}, true}, xletter{collh.Op{Kind: "RejectPairs", Pd: isK}, true},
		xletter{collh.Op{Kind: "Slice", I: 0, J: 0}, true}, xletter{collh.Op{Kind: "Slice", I: 1, J: 1}, true}, xletter{collh.Op{Kind: "Slice", I: 0, J: 2}, true},
		xletter{collh.Op{Kind: "Unique"}, true}, xletter{collh.Op{Kind: "MapValues", Mp: id}, true},
		xletter{collh.Op{Kind: "MapEntries", I: 1}, true}, xletter{collh.Op{Kind: "MapEntries", X: 9}, true},
		xletter{collh.Op{Kind: "Flatten"}, false}, xletter{collh.Op{Kind: "Map", Mp: id}, false}, xletter{collh.Op{Kind: "Keys"}, false},
		xletter{collh.Op{Kind: "Values"}, false}, xletter{collh.Op{Kind: "AsArray"}, false}, xletter{collh.Op{Kind: "EachSlice", I: 2, J: 1}, false},
		xletter{collh.Op{Kind: "Get", X: 9}, false}, xletter{collh.Op{Kind: "At", I: 0}, false})
	return ls
}

func dupkeys(r *xrunner) {
	I, S, E, H := collh.In, collh.St, collh.En, collh.Ha
	pre := dupPrelude()
	x0 := len(pre)
	kbk := H(E(S("k"), I(1)), E(S("b"), I(2)), E(S("k"), I(3)))
	abc := H(E(S("a"), I(1)), E(S("b"), I(2)), E(S("c"), I(3)))
	// the receiver x (its pool index is the last of the route)
	routes := [][]collh.Op{
		{{Kind: "Parse", P: kbk}}, // a literal that repeats a key
		{{Kind: "Lit", P: abc}, {Kind: "MapEntries", R: x0, X: 9}},                                   // many-to-one mapper: k three times
		{{Kind: "Lit", P: abc}, {Kind: "MapEntries", R: x0, I: 1}},                                   // shares the entry objects of v(x0)
		{{Kind: "Parse", P: H(E(S("a"), I(1)), E(S("k"), I(2)), E(S("b"), I(3)), E(S("k"), I(4)))}}, // the pair is not at the ends
		{{Kind: "Build", I: 6, P: abc}}, // control: distinct keys, spare capacity
	}
	ls := dupLetters()
	second := []int{0, 2, 4, 5, 10, 14, 16, 7, 13, 20, 21, 31}
	idx := 0
	for _, rt := range routes {
		base := append(append([]collh.Op{}, pre...), rt...)
		x := len(base) - 1
		n := len(rt[0].P.L)
		views := [][]collh.Op{nil, {{Kind: "Slice", R: x, I: 0, J: n}}, {{Kind: "Slice", R: x, I: 0, J: n - 1}}, {{Kind: "Slice", R: x, I: 1, J: n}}}
		for vi, vw := range views {
			b := append(append([]collh.Op{}, base...), vw...)
			v := len(b) - 1
			for _, l1 := range ls {
				o1 := l1.op
				o1.R = v
				h1 := append(append([]collh.Op{}, b...), o1)
				idx++
				r.check(h1, idx%7 == 0, "dupkeys")
				// the second letter: on the view, on the original (when the view is another value), on the first result
				recvs := []int{v}
				if v != x {
					recvs = append(recvs, x)
				}
				if l1.hash {
					recvs = append(recvs, len(h1)-1)
				}
				// second letters: the additions / merges / deletions with an empty argument and some with a non-empty one,
				// on the first two views, thinned out to a sixth (the choice rotates with the index, so every pair occurs for some route / view)
				for si, li := range second {
					if vi > 1 || (si+idx)%6 != 0 {
						continue
					}
					for _, rv := range recvs {
						o2 := ls[li].op
						o2.R = rv
						idx++
						r.check(append(append([]collh.Op{}, h1...), o2), idx%23 == 0, "dupkeys")
					}
				}
			}
		}
	}
}

// ---------------------------------------------------------------------------------------------------------------
// tree

type treeEl struct {
	path *collh.PV // the path literal
	lit  *collh.PV // the value as a literal, or
	ref  int       // the pool index of the value
}

// pushTree appends the steps that build the tree (an array of [path, value] pairs) and returns its pool index
func pushTree(ops []collh.Op, els []treeEl) ([]collh.Op, int) {
	A := collh.Ar
	ops = append(ops, collh.Op{Kind: "Lit", P: A()})
	tree := len(ops) - 1
	for _, e := range els {
		if e.lit != nil {
			ops = append(ops, collh.Op{Kind: "Lit", P: A(e.path, e.lit)})
		} else {
			ops = append(ops, collh.Op{Kind: "Lit", P: A(e.path)}, collh.Op{Kind: "Add", R: len(ops), X: e.ref})
		}
		ops = append(ops, collh.Op{Kind: "Add", R: tree, X: len(ops) - 1})
		tree = len(ops) - 1
	}
	return ops, tree
}

// pool of every tree history: 0 h  1 {z=>26}  2 h.Merge(v1)  3 h.Slice(0,1)  4 h.At(0)  5 hh  6 arr
func treePrelude(route int) []collh.Op {
	I, S, A, E, H := collh.In, collh.St, collh.Ar, collh.En, collh.Ha
	h := H(E(S("a"), I(1)), E(S("b"), I(2)))
	var first collh.Op
	switch route {
	case 0:
		first = collh.Op{Kind: "Parse", P: h}
	case 1:
		first = collh.Op{Kind: "Lit", P: h}
	default:
		first = collh.Op{Kind: "Build", I: 5, P: h}
	}
	return []collh.Op{first, {Kind: "Lit", P: H(E(S("z"), I(26)))}, {Kind: "Merge", R: 0, X: 1}, {Kind: "Slice", R: 0, I: 0, J: 1}, {Kind: "At", R: 0, I: 0},
		{Kind: "Lit", P: H(E(S("a"), H(E(S("x"), I(1)))), E(S("b"), A(I(5), I(6))))}, {Kind: "Lit", P: A(S("x"), S("y"))}}
}

func treeAlphabet() []treeEl {
	I, S, A := collh.In, collh.St, collh.Ar
	return []treeEl{
		{path: A(), ref: 0}, {path: A(), ref: 5}, {path: A(), ref: 6}, {path: A(), ref: 2},
		{path: A(S("a")), lit: I(99)}, {path: A(S("a"), S("x")), lit: I(7)}, {path: A(S("c")), lit: I(5)}, {path: A(S("c"), S("d")), lit: I(6)},
		{path: A(S("b"), I(0)), lit: I(8)}, {path: A(S("a")), ref: 5}, {path: A(S("q")), ref: 6}, {path: A(S("c"), S("d"), S("e")), lit: A(I(3), I(4))},
		{path: A(I(0)), lit: S("w")},
	}
}

func tree(r *xrunner) {
	I, S, A := collh.In, collh.St, collh.Ar
	al := treeAlphabet()
	idx := 0
	run := func(route int, els []treeEl, mode int, follow bool) {
		ops, t := pushTree(treePrelude(route), els)
		ops = append(ops, collh.Op{Kind: "HashNew", R: t, I: mode})
		res := len(ops) - 1
		if follow {
			// operations on the result and on the hash it shares entries with
			ops = append(ops, collh.Op{Kind: "Lit", P: S("a")}, collh.Op{Kind: "Delete", R: res, X: res + 1}, collh.Op{Kind: "Merge", R: res, X: 1},
				collh.Op{Kind: "Delete", R: 0, X: res + 1})
		}
		idx++
		r.check(ops, idx%7 == 0, "tree")
	}
	for route := 0; route < 3; route++ {
		for mode := 1; mode <= 2; mode++ {
			for _, a := range al {
				run(route, []treeEl{a}, mode, false)
				for _, b := range al {
					if route == 0 || mode == 1 {
						run(route, []treeEl{a, b}, mode, route == 0)
					}
				}
			}
		}
	}
	for i, a := range al {
		for j, b := range al {
			for k, c := range al {
				// a third of the triples; every triple that starts with a root element of a hash
				if i == 0 || i == 3 || (i+j+k)%3 == 0 {
					run(0, []treeEl{a, b, c}, 1+(i+j+k)%2, false)
				}
			}
		}
	}
	// two calls on the same root (a result that kept the root's backing array - with spare capacity when the root was
	// built with a capacity - would be written to by the second call), and a call on the result of the first
	for _, route := range []int{2, 0} {
		for i, p1 := range al[4:] {
			for j, p2 := range al[4:] {
				if route == 0 && (i+j)%2 == 1 {
					continue
				}
				ops, t1 := pushTree(treePrelude(route), []treeEl{{path: A(), ref: 0}, p1})
				ops = append(ops, collh.Op{Kind: "HashNew", R: t1, I: 1})
				r1 := len(ops) - 1
				root := 0
				if (i+j)%3 == 2 {
					root = r1
				}
				var t2 int
				ops, t2 = pushTree(ops, []treeEl{{path: A(), ref: root}, p2})
				ops = append(ops, collh.Op{Kind: "HashNew", R: t2, I: 1})
				idx++
				r.check(ops, idx%7 == 0, "tree-two-calls")
			}
		}
	}
	// ill-typed trees (the constructor reports an issue): empty, an element that is no pair, a path that is no array
	for _, p := range []*collh.PV{A(), A(I(1)), A(A(S("a"), I(1))), A(A(A(), I(1), I(2))), I(3)} {
		ops := append(treePrelude(1), collh.Op{Kind: "Lit", P: p})
		ops = append(ops, collh.Op{Kind: "HashNew", R: len(ops) - 1, I: 1})
		r.check(ops, true, "tree-illtyped")
	}
	// second calls: a hash nested in the result of a first call arrives as a value in the tree of the second
	firsts := [][]treeEl{
		{{path: A(S("a"), S("b")), lit: I(1)}},
		{{path: A(S("a"), S("b")), lit: I(1)}, {path: A(S("a"), S("c"), S("d")), lit: I(2)}},
		{{path: A(), ref: 0}, {path: A(S("n"), S("m")), lit: I(1)}, {path: A(S("a")), lit: I(9)}},
		{{path: A(S("a"), S("b")), lit: A(I(1), I(2))}},
	}
	for _, f := range firsts {
		for mode := 1; mode <= 2; mode++ {
			for shape := 0; shape < 5; shape++ {
				ops, t := pushTree(treePrelude(0), f)
				ops = append(ops, collh.Op{Kind: "HashNew", R: t, I: mode})
				r1 := len(ops) - 1
				ops = append(ops, collh.Op{Kind: "Lit", P: S("a")}, collh.Op{Kind: "Get", R: r1, X: r1 + 1})
				inner := len(ops) - 1 // r1['a']: a hash the first call has made
				var second []treeEl
				switch shape {
				case 0: // under a path, then a path through it
					second = []treeEl{{path: A(S("x")), ref: inner}, {path: A(S("x"), S("c")), lit: I(2)}}
				case 1: // the first result as root, then a path into its nested hash
					second = []treeEl{{path: A(), ref: r1}, {path: A(S("a"), S("z")), lit: I(3)}}
				case 2: // the nested hash as root
					second = []treeEl{{path: A(), ref: inner}, {path: A(S("b")), lit: I(4)}, {path: A(S("c"), S("d")), lit: I(5)}}
				case 3: // under a path, replaced, put again
					second = []treeEl{{path: A(S("x")), ref: inner}, {path: A(S("x")), lit: I(0)}, {path: A(S("x"), S("b")), lit: I(6)}}
				default: // two levels down
					second = []treeEl{{path: A(S("p"), S("q")), ref: inner}, {path: A(S("p"), S("q"), S("b")), lit: I(7)}, {path: A(S("p"), S("q"), S("r"), S("s")), lit: I(8)}}
				}
				var t2 int
				ops, t2 = pushTree(ops, second)
				ops = append(ops, collh.Op{Kind: "HashNew", R: t2, I: mode})
				r.check(ops, true, "tree-second-call")
			}
		}
	}
}
