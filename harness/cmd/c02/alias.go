// c02, alias family: types with non-recursive user aliases in member positions (coq/Model/Alias.v).
//
//	D: px.IsInstance(T, v) against the set denotation of the RESOLVED type (every alias replaced by its body: RefDen on the
//	   decoded structure of the real sub-types, TypeAliasType.ResolvedType());
//	M: the observed answers through `instA` on the term with the aliases in place AND through `inst` on the resolved type
//	   (cases_alias).
package main

import (
	"fmt"

	"github.com/lyraproj/pcore/px"
	"github.com/lyraproj/pcore/types"
	"verifharness/lat"
	"verifharness/lib"
)

func aliasTypes() []*lat.Spec {
	I05, S, Any := lat.Int(0, 5), lat.A("String"), lat.A("Any")
	small, str12, anyA := lat.UAlias(I05), lat.UAlias(lat.StrSz(1, 2)), lat.UAlias(Any)
	en := lat.UAlias(lat.Enum(true, "a", "b"))
	opt := lat.UAlias(lat.W("Optional", I05))
	arr := lat.UAlias(lat.Arr(I05, 0, 2))
	vr := lat.UAlias(lat.Var(I05, S))
	st := lat.UAlias(lat.Struct(lat.Member{Name: "a", Kind: 1, T: I05}, lat.Member{Name: "b", Kind: 0, T: S}))
	two := lat.UAlias(small)
	und := lat.UAlias(lat.A("Undef"))
	leaves := []*lat.Spec{small, str12, anyA, en, opt, arr, vr, st, two, und}
	out := append([]*lat.Spec{}, leaves...)
	for _, x := range leaves {
		out = append(out,
			lat.Arr(x, 0, lat.Max), lat.Arr(x, 1, 2), lat.Hsh(S, x, 0, lat.Max), lat.Hsh(x, I05, 0, 2), lat.Hsh(x, x, 1, lat.Max),
			lat.Tup(x, S), lat.Tup(S, x), lat.TupSz(1, 4, x, S), lat.TupSz(0, 3, S, x), lat.Tup(x),
			lat.Struct(lat.Member{Name: "a", Kind: 0, T: x}), lat.Struct(lat.Member{Name: "a", Kind: 1, T: x}, lat.Member{Name: "b", Kind: 1, T: I05}),
			lat.Struct(lat.Member{Name: "a", Kind: 0, T: I05}, lat.Member{Name: "b", Kind: 0, T: x}),
			lat.Var(x, S), lat.Var(lat.A("Undef"), x), lat.Var(x, lat.Arr(x, 0, 2)),
			lat.W("Optional", x), lat.W("NotUndef", x), lat.W("Sensitive", x), lat.W("NotUndef", lat.W("Optional", x)),
			lat.UAlias(lat.Arr(x, 0, 3)), lat.Arr(lat.UAlias(lat.Tup(x, x)), 0, 2), lat.Hsh(S, lat.Arr(x, 0, 2), 0, 2),
			// the same alias meets the same value in two alternatives (the guard of TypeAliasType.IsInstance must forget the pair)
			lat.Var(lat.Tup(x, S), lat.Tup(x, lat.Int(lat.Min, lat.Max))), lat.Var(lat.Tup(x, lat.Int(lat.Min, lat.Max)), lat.Tup(x, S)),
			lat.Var(lat.Arr(x, 2, 2), lat.Tup(x, Any)), lat.Tup(x, x, x),
		)
	}
	return out
}

// sharedAliasTypes: types in which ONE alias object occurs several times under an outer alias (as with named, loaded
// aliases): the outer alias creates the guard, the inner alias meets the same value again under it.
func sharedAliasTypes() []px.Type {
	var out []px.Type
	I, S := types.NewIntegerType(lat.Min, lat.Max), types.DefaultStringType()
	bodies := []px.Type{types.NewIntegerType(0, 5), types.NewStringType(types.NewIntegerType(1, 2), ""), types.NewEnumType([]string{"a", "b"}, true),
		types.NewOptionalType(types.NewIntegerType(0, 5)), types.NewArrayType(types.NewIntegerType(0, 5), types.NewIntegerType(0, 2))}
	for i, b := range bodies {
		in := types.NewTypeAliasType(fmt.Sprintf("Inner%d", i), nil, b)
		tup := func(ts ...px.Type) px.Type { return types.NewTupleType(ts, nil) }
		for j, body := range []px.Type{
			types.NewVariantType(tup(in, S), tup(in, I)), types.NewVariantType(tup(in, I), tup(in, S)),
			types.NewVariantType(types.NewArrayType(in, types.NewIntegerType(2, 2)), tup(in, types.DefaultAnyType())),
			tup(in, in, in), types.NewArrayType(in, types.NewIntegerType(0, 4)),
			types.NewHashType(in, in, types.NewIntegerType(0, 4)),
			types.NewVariantType(types.NewNotUndefType(in), types.NewOptionalType(in), S),
		} {
			out = append(out, types.NewTypeAliasType(fmt.Sprintf("Outer%d_%d", i, j), nil, body))
		}
	}
	return out
}

func stripAlias(s *lat.Spec) *lat.Spec {
	if s.K == "Alias" {
		return stripAlias(s.Sub[0])
	}
	c := *s
	c.Sub = make([]*lat.Spec, len(s.Sub))
	for i, e := range s.Sub {
		c.Sub[i] = stripAlias(e)
	}
	return &c
}

// resolveD: the decoded structure of the real type with every alias node replaced by the decoded resolved type.
func resolveD(t px.Type) *types.VerifTy {
	if a, ok := t.(*types.TypeAliasType); ok {
		return resolveD(a.ResolvedType())
	}
	d := types.VerifDecodeType(t)
	subs := types.VerifSubTypes(t)
	if len(subs) != len(d.Keys)+len(d.Ts) {
		return d
	}
	c := *d
	c.Keys = make([]*types.VerifTy, len(d.Keys))
	c.Ts = make([]*types.VerifTy, len(d.Ts))
	for i := range d.Keys {
		c.Keys[i] = resolveD(subs[i])
	}
	for i := range d.Ts {
		c.Ts[i] = resolveD(subs[len(d.Keys)+i])
	}
	return &c
}

func hasAliasD(d *types.VerifTy) bool {
	if d.K == "Alias" {
		return true
	}
	for _, e := range d.Ts {
		if hasAliasD(e) {
			return true
		}
	}
	for _, e := range d.Keys {
		if hasAliasD(e) {
			return true
		}
	}
	return false
}

// gATy prints the real type as a term of `aty` (ok=false: an alias in a position the model does not have).
func gATy(t px.Type) (string, bool) {
	d := types.VerifDecodeType(t)
	if !hasAliasD(d) {
		return "(AT " + lat.GTy(d) + ")", lat.InModel(d)
	}
	if a, ok := t.(*types.TypeAliasType); ok {
		b, ok := gATy(a.ResolvedType())
		return fmt.Sprintf("(AAlias %s %s)", lib.GStr(a.Name()), b), ok
	}
	subs := types.VerifSubTypes(t)
	if len(subs) != len(d.Keys)+len(d.Ts) {
		return "", false
	}
	ok := true
	sub := func(i int) string {
		g, o := gATy(subs[i])
		ok = ok && o
		return g
	}
	list := func() string {
		gs := make([]string, len(subs))
		for i := range subs {
			gs[i] = sub(i)
		}
		return lib.GList(gs, "aty")
	}
	switch d.K {
	case "Array":
		return fmt.Sprintf("(AArray %s %s %s)", sub(0), lib.GZ(d.Lo), lib.GZ(d.Hi)), ok
	case "Hash":
		return fmt.Sprintf("(AHash %s %s %s %s)", sub(0), sub(1), lib.GZ(d.Lo), lib.GZ(d.Hi)), ok
	case "Tuple":
		return fmt.Sprintf("(ATuple %s %s %s %s)", list(), lib.GBool(d.HasSize), lib.GZ(d.Lo), lib.GZ(d.Hi)), ok
	case "Struct":
		ms := make([]string, len(d.Ts))
		for i := range d.Ts {
			if hasAliasD(d.Keys[i]) {
				return "", false
			}
			ms[i] = fmt.Sprintf("(%s, (%s, %s))", lib.GStr(d.Names[i]), lat.GTy(d.Keys[i]), sub(len(d.Keys)+i))
		}
		return fmt.Sprintf("(AStruct %s)", lib.GList(ms, "str * (ty * aty)")), ok
	case "Variant":
		return fmt.Sprintf("(AVariant %s)", list()), ok
	case "Optional":
		return fmt.Sprintf("(AOptional %s)", sub(0)), ok
	case "NotUndef":
		return fmt.Sprintf("(ANotUndef %s)", sub(0)), ok
	case "Sensitive":
		return fmt.Sprintf("(ASensitive %s)", sub(0)), ok
	}
	return "", false
}

func runAlias(cfg *lib.Config, res *lib.Result, rng *lib.Rng) {
	per := 1500
	if cfg.Thorough() {
		per = 12000
	}
	specs := aliasTypes()
	// values: the generic pool + boundary witnesses of the resolved types
	var vspecs []*lat.VSpec
	seenV := map[string]bool{}
	addV := func(v *lat.VSpec) {
		k := v.String()
		if !seenV[k] {
			seenV[k] = true
			vspecs = append(vspecs, v)
		}
	}
	for _, v := range lat.GlobalValues() {
		addV(v)
	}
	for _, v := range []*lat.VSpec{lat.VA(lat.VI(6), lat.VI(1)), lat.VA(lat.VI(7), lat.VS("a")), lat.VA(lat.VS("abc"), lat.VI(1)), lat.VA(lat.VS("abc"), lat.VS("abc")),
		lat.VA(lat.VI(6), lat.VI(6)), lat.VA(lat.VI(6), lat.VI(6), lat.VI(6)), lat.VA(lat.VU(), lat.VI(1)), lat.VA(lat.VA(lat.VI(9)), lat.VI(1)), lat.VA(lat.VS("c"), lat.VI(1)),
		lat.VA(lat.VH(lat.VS("b"), lat.VI(1)), lat.VI(1)), lat.VA(lat.VI(1), lat.VI(1)), lat.VA(lat.VS("a"), lat.VS("a"))} {
		addV(v)
	}
	for _, s := range specs {
		for _, w := range lat.Witnesses(stripAlias(s), 2) {
			addV(w)
		}
	}
	type av struct {
		spec *lat.VSpec
		v    px.Value
		d    *types.VerifVal
	}
	var vals []av
	for _, vs := range vspecs {
		v := vs.Build()
		d := types.VerifDecodeValue(v)
		if !lat.ValInModel(d) || lat.IllFormedValue(v) {
			continue
		}
		vals = append(vals, av{vs, v, d})
	}
	res.Extra["alias_types"], res.Extra["alias_values"] = len(specs)+len(sharedAliasTypes()), len(vals)
	noAsg := func(a, b *types.VerifTy) (bool, bool) { return false, false }
	type pair struct {
		term string
		in   map[string]interface{}
		rd   *types.VerifTy
		vd   *types.VerifVal
	}
	var pairs, hits []pair
	type at struct {
		t   px.Type
		in  func(v *lat.VSpec) map[string]interface{}
		key string
	}
	var ats []at
	for _, sp := range specs {
		sp := sp
		ats = append(ats, at{sp.Build(), func(v *lat.VSpec) map[string]interface{} { return map[string]interface{}{"kind": "alias", "t": sp, "v": v} }, sp.String()})
	}
	for i, t := range sharedAliasTypes() {
		i := i
		ats = append(ats, at{t, func(v *lat.VSpec) map[string]interface{} { return map[string]interface{}{"kind": "alias", "shared": i, "v": v} }, fmt.Sprintf("shared%d", i)})
	}
	for _, a := range ats {
		t := a.t
		rd := resolveD(t)
		g, inM := gATy(t)
		for _, x := range vals {
			res.Evaluations++
			in := a.in(x.spec)
			got, crash := lat.Guarded(func() bool { return px.IsInstance(t, x.v) })
			if crash != "" {
				res.Violate(lib.Violation{Clause: "crash", What: fmt.Sprintf("IsInstance(%s, %s) panics: %s", t, lat.ValText(x.v), crash), Input: in, Tags: []string{"alias:" + rd.K}})
				continue
			}
			want, ok := lat.RefDen(rd, x.d, noAsg)
			if !ok {
				res.Count("alias.reference-undefined")
				continue
			}
			if got {
				res.Count("alias.instance.true")
			} else {
				res.Count("alias.instance.false")
			}
			if kindMatches(rd, x.d) {
				res.Nontrivial("alias/" + a.key + "/" + x.spec.String())
			}
			if got != want {
				res.Violate(lib.Violation{Clause: "denotation",
					What:  fmt.Sprintf("IsInstance(%s, %s) = %v but the set denotation of the resolved type says %v", t, lat.ValText(x.v), got, want),
					Input: in, Tags: []string{"den:Alias/" + rd.K + "/" + x.d.K}})
			}
			if inM && lat.InModel(rd) {
				p := pair{fmt.Sprintf("(%s, %s, %s, %s)", g, lat.GTy(rd), lat.GVal(x.d), lib.GBool(got)), in, rd, x.d}
				pairs = append(pairs, p)
				if got || kindMatches(rd, x.d) {
					hits = append(hits, p)
				}
			}
		}
	}
	cf := &lib.CasesFile{Imports: []string{"Model.Base", "Model.Ty", "Model.Lattice", "Model.Alias", "Corr.CorrC01", "Corr.CorrC02"}, Typ: "aty * ty * value * bool",
		Obligations: map[string]string{"instA_model": "instA_mismatches orc cases"}}
	pats, strs := map[string]bool{}, map[string]bool{}
	for i := 0; i < per && len(pairs) > 0; i++ {
		p := pairs[rng.Intn(len(pairs))]
		if i%2 == 0 && len(hits) > 0 {
			p = hits[rng.Intn(len(hits))]
		}
		lat.TyStrings(p.rd, pats, strs)
		lat.ValStrings(p.vd, pats, strs)
		cf.Add(p.term, p.in)
	}
	cf.Prelude = lat.Oracle(pats, strs)
	res.CorrFiles = append(res.CorrFiles, cf.WriteTo(cfg.Out, "cases_alias"))
}

// replayAlias re-runs one recorded (alias type, value) pair; false when the input is not of this family.
func replayAlias(in interface{}, res *lib.Result) bool {
	var x struct {
		Kind   string     `json:"kind"`
		T      *lat.Spec  `json:"t"`
		Shared *int       `json:"shared"`
		V      *lat.VSpec `json:"v"`
	}
	lib.Remarshal(in, &x)
	if x.Kind != "alias" {
		return false
	}
	res.Evaluations++
	var t px.Type
	if x.Shared != nil {
		t = sharedAliasTypes()[*x.Shared]
	} else {
		t = x.T.Build()
	}
	v := x.V.Build()
	rd := resolveD(t)
	got := px.IsInstance(t, v)
	want, ok := lat.RefDen(rd, types.VerifDecodeValue(v), func(a, b *types.VerifTy) (bool, bool) { return false, false })
	fmt.Printf("T = %s\nresolved: %s\nv = %s\nIsInstance(T,v) = %v, set denotation of the resolved type = %v (defined: %v)\n", t, lat.GTy(rd), lat.ValText(v), got, want, ok)
	if ok && got != want {
		fmt.Println("FAILS: IsInstance deviates from the set denotation of the resolved type")
		res.Violate(lib.Violation{Clause: "denotation", What: fmt.Sprintf("IsInstance(%s, %s) = %v but the set denotation of the resolved type says %v", t, lat.ValText(v), got, want), Input: in})
	}
	return true
}
