// c02: instance-of follows the set denotation of every type constructor.
package main

import (
	"math"
	"fmt"
	"strings"

	"github.com/lyraproj/pcore/pcore"
	"github.com/lyraproj/pcore/px"
	"github.com/lyraproj/pcore/types"
	"verifharness/lat"
	"verifharness/lib"
)

func main() {
	cfg := lib.ParseFlags()
	res := lib.NewResult("C02")
	res.Rule = "types: the lattice pool (atoms with boundary ranges + every constructor over an element sub-pool + seeded random types of depth " +
		"2-3) + targeted boundary families (string sizes in characters, Enum with trailing Boolean flag, Pattern vs the empty string, " +
		"case-insensitive Enum); values: generic pool + boundary witnesses of every pool type (both ends of every range/size, one outside, " +
		"multi-byte strings, hashes with absent optional members, nested collections, types as values). IsInstance is evaluated on ALL " +
		"(type, value) pairs and compared with the set denotation (Go transcription of coq/Model/Spec.v). A pair is non-trivial when the type " +
		"is not Any/Unit and the value's kind matches the type's top constructor (so the answer depends on the parameters); distinct = distinct recipes"
	pcore.Do(func(c px.Context) {
		if cfg.Replay != "" {
			replay(c, cfg, res)
		} else {
			run(c, cfg, res)
		}
	})
	res.Write(cfg)
}

// extra types and values for the families named in the property's why_tests_cant
func extraTypes() []*lat.Spec {
	inf, mx := math.Inf(1), math.MaxFloat64
	return []*lat.Spec{
		lat.StrSz(1, 1), lat.StrSz(2, 2), lat.StrSz(0, 3), lat.StrSz(4, 4),
		lat.Enum(false, "a", "b", "true"), lat.Enum(true, "abc", "é"), lat.Enum(true, "a", "b"), lat.Enum(false, ""),
		lat.Pat(".*"), lat.Pat("^$"), lat.Pat("^a*$"), lat.Pat("b+"),
		// several expressions, one of them with an inline flag at its top level, in every position: the flag belongs to
		// that expression only (Pattern is the union of the languages of its expressions, each compiled by itself)
		lat.Pat("(?i)^yes$", "^no$"), lat.Pat("^no$", "(?i)^yes$"), lat.Pat("(?i)^y", "n$", "^maybe$"), lat.Pat("^maybe$", "(?i)^y", "n$"),
		lat.Pat("(?s)^a.b$", "^c.d$"), lat.Pat("^c.d$", "(?s)^a.b$"), lat.Pat("(?i:^yes$)", "^no$"), lat.Pat("(?m)^a$", "^b$"), lat.Pat("(?U)^a+", "^b+$"),
		lat.Pat("^yes$|^no$"), lat.Pat("^(yes", "no)$"),
		// sizes count characters: characters of 1, 2, 3 and 4 bytes around every bound
		lat.StrSz(0, 3), lat.StrSz(0, 5), lat.StrSz(3, 3), lat.StrSz(1, 2), lat.StrSz(4, 6), lat.StrSz(0, 1),
		// Enums longer than any small-size fast path (9..14 values), with and without the case-insensitivity flag,
		// declared in lower case, with capitals, and mixed
		lat.Enum(true, "present", "Absent", "latest", "installed", "purged", "held", "true", "false", "running"),
		lat.Enum(false, "present", "Absent", "latest", "installed", "purged", "held", "true", "false", "running"),
		lat.Enum(true, "a", "b", "c", "d", "e", "f", "g", "h", "i", "j", "k", "l", "m", "n"),
		lat.Enum(true, "A", "B", "C", "D", "E", "F", "G", "H", "I", "J"), lat.Enum(false, "A", "B", "C", "D", "E", "F", "G", "H", "I", "J"),
		lat.Enum(true, "One", "Two", "Three", "Four", "Five", "Six", "Seven", "Eight"), lat.Enum(true, "One", "Two", "Three", "Four", "Five", "Six", "Seven", "Eight", "Nine"),
		lat.Tup(lat.Int(0, 5), lat.A("String")), lat.TupSz(1, 4, lat.Int(0, 5), lat.A("String")), lat.TupSz(0, 1, lat.Int(0, 5), lat.A("String")),
		lat.Struct(lat.Member{Name: "a", Kind: 0, T: lat.Int(0, 5)}, lat.Member{Name: "b", Kind: 1, T: lat.A("String")}),
		lat.Struct(lat.Member{Name: "a", Kind: 0, T: lat.W("Optional", lat.Int(0, 5))}),
		lat.Struct(lat.Member{Name: "a", Kind: 2, T: lat.W("Optional", lat.Int(0, 5))}),
		lat.W("Type", lat.Int(0, 5)), lat.W("Type", lat.A("Numeric")), lat.W("Type", lat.Var(lat.Int(0, 5), lat.A("String"))),
		lat.W("NotUndef", lat.W("Optional", lat.Int(0, 5))), lat.W("Optional", lat.W("NotUndef", lat.A("Any"))),
		lat.Coll(0, 0), lat.Coll(2, 2),
		// Float ranges with infinite bounds and with the largest finite floats as bounds (constructor route; Float[-Inf, +Inf]
		// is the unbounded type, the only one that holds NaN), alone and in member positions
		lat.FltB(-inf, inf), lat.FltB(-inf, -inf), lat.FltB(inf, inf), lat.FltB(-inf, 1.5), lat.FltB(0, inf), lat.FltB(-mx, mx), lat.FltB(mx, mx), lat.FltB(mx, inf),
		lat.FltB(-inf, -mx), lat.FltB(-inf, mx), lat.Arr(lat.FltB(0, inf), 0, lat.Max), lat.Arr(lat.A("FloatDefault"), 0, lat.Max), lat.W("Optional", lat.FltB(-inf, 1.5)),
		lat.Var(lat.FltB(inf, inf), lat.A("String")), lat.Hsh(lat.A("String"), lat.A("FloatDefault"), 0, lat.Max), lat.Tup(lat.A("FloatDefault"), lat.FltB(-mx, mx)),
		lat.Struct(lat.Member{Name: "a", Kind: 0, T: lat.A("FloatDefault")}), lat.W("NotUndef", lat.A("FloatDefault")),
		// Hash whose key type accepts more strings than it lists (case-insensitive Enum, Pattern with an inline flag, Variant
		// of them): the number of entries a hash may hold is bounded by its size parameters only, never by the key type
		lat.Hsh(lat.Enum(true, "a"), lat.A("Integer"), 0, lat.Max), lat.Hsh(lat.Enum(true, "a", "b"), lat.A("Integer"), 0, lat.Max),
		lat.Hsh(lat.Enum(false, "a", "b"), lat.A("Integer"), 0, lat.Max), lat.Hsh(lat.Enum(true, "present", "absent", "latest"), lat.A("Integer"), 0, lat.Max),
		lat.Hsh(lat.Enum(true, "a", "b"), lat.A("Integer"), 3, 4), lat.Hsh(lat.Enum(true, "a", "b"), lat.A("Integer"), 0, 2),
		lat.Hsh(lat.Pat("(?i)^a$"), lat.A("Integer"), 0, lat.Max), lat.Hsh(lat.Var(lat.Enum(true, "a"), lat.Enum(false, "b")), lat.A("Integer"), 0, lat.Max),
		lat.Hsh(lat.W("Optional", lat.Enum(true, "a")), lat.A("Integer"), 0, lat.Max), lat.Hsh(lat.Enum(true, "a", "b"), lat.Enum(true, "x"), 0, lat.Max),
		lat.Arr(lat.Enum(true, "a"), 0, lat.Max), lat.Arr(lat.Enum(false, "a", "b"), 0, lat.Max), lat.Arr(lat.Enum(true, "a", "b"), 3, 3),
	}
}

func extraValues() []*lat.VSpec {
	return append([]*lat.VSpec{
		lat.VS(""), lat.VS("é"), lat.VS("éé"), lat.VS("aé€"), lat.VS("A"), lat.VS("ABC"), lat.VS("É"), lat.VS("true"), lat.VS("aaa"), lat.VS("bb"),
		lat.VS("yes"), lat.VS("YES"), lat.VS("no"), lat.VS("NO"), lat.VS("maybe"), lat.VS("MAYBE"), lat.VS("yN"), lat.VS("Yn"), lat.VS("a\nb"), lat.VS("c\nd"), lat.VS("cxd"),
		lat.VS("x\na"), lat.VS("x\nb"), lat.VS("aab"), lat.VS("(yes"), lat.VS("no)"),
		lat.VS("\U0001F600"), lat.VS("\U0001F600\U0001F600"), lat.VS("\U0001F600\U0001F600\U0001F600"), lat.VS("a\U0001F600\U0001F600\U0001F600"),
		lat.VS("\u00e9\U0001F600\U0001F600\U0001F600\U0001F600"), lat.VS("\U0001F600\U0001F600\U0001F600\U0001F600"), lat.VS("\u20ac\u20ac\u20ac"), lat.VS("\u20ac\u20ac\u20ac\u20ac"),
		lat.VS("\U00010000\U00010000\U00010000\U00010000\U00010000\U00010000"), lat.VS("\U00010000\U00010000\U00010000\U00010000\U00010000\U00010000\U00010000"),
		lat.VS("Absent"), lat.VS("absent"), lat.VS("ABSENT"), lat.VS("Running"), lat.VS("running"), lat.VS("nine"), lat.VS("Nine"), lat.VS("NINE"), lat.VS("eight"), lat.VS("j"), lat.VS("J"), lat.VS("n"), lat.VS("N"), lat.VS("o"),
		lat.VA(lat.VI(0), lat.VS("x")), lat.VA(lat.VI(0), lat.VS("x"), lat.VS("y")), lat.VA(lat.VI(0), lat.VS("x"), lat.VI(1)), lat.VA(lat.VI(0)), lat.VA(lat.VI(9)), lat.VA(),
		lat.VH(lat.VS("a"), lat.VI(1)), lat.VH(lat.VS("a"), lat.VI(1), lat.VS("b"), lat.VS("x")), lat.VH(lat.VS("b"), lat.VS("x")), lat.VH(lat.VS("a"), lat.VU()),
		lat.VH(lat.VS("a"), lat.VI(1), lat.VS("c"), lat.VI(1)), lat.VH(), lat.VH(lat.VI(1), lat.VI(1)), lat.VH(lat.VS("a"), lat.VI(7)),
		// more entries / elements than the key or element Enum has values: keys that differ in case only, repeated elements
		lat.VH(lat.VS("a"), lat.VI(0), lat.VS("A"), lat.VI(1)), lat.VH(lat.VS("a"), lat.VI(0), lat.VS("b"), lat.VI(1), lat.VS("A"), lat.VI(2)),
		lat.VH(lat.VS("a"), lat.VI(0), lat.VS("b"), lat.VI(1), lat.VS("A"), lat.VI(2), lat.VS("B"), lat.VI(3)), lat.VH(lat.VS("a"), lat.VI(0), lat.VS("b"), lat.VI(1)),
		lat.VH(lat.VS("a"), lat.VI(0), lat.VS("b"), lat.VI(1), lat.VS("c"), lat.VI(2)), lat.VH(lat.VS("a"), lat.VI(0), lat.VS("A"), lat.VI(1), lat.VU(), lat.VI(2)),
		lat.VH(lat.VS("present"), lat.VI(0), lat.VS("Present"), lat.VI(1), lat.VS("PRESENT"), lat.VI(2), lat.VS("absent"), lat.VI(3)),
		lat.VH(lat.VS("a"), lat.VS("x"), lat.VS("A"), lat.VS("X"), lat.VS("B"), lat.VS("x")),
		lat.VA(lat.VS("a"), lat.VS("a")), lat.VA(lat.VS("a"), lat.VS("A"), lat.VS("a")), lat.VA(lat.VS("a"), lat.VS("b"), lat.VS("a"), lat.VS("b")),
		lat.VT(lat.Int(1, 2)), lat.VT(lat.Int(0, 9)), lat.VT(lat.A("String")), lat.VT(lat.Flt(0, 1)), lat.VT(lat.Var(lat.Int(1, 2), lat.A("String"))),
	}, lat.NonFiniteValues()...) // NaN, +Inf, -Inf, the largest finite floats, -0.0: alone and inside collections
}

func kindMatches(t *types.VerifTy, v *types.VerifVal) bool {
	switch t.K {
	case "Integer":
		return v.K == "Int"
	case "Float":
		return v.K == "Float"
	case "StringSz", "StringVal", "Enum", "Pattern":
		return v.K == "Str"
	case "Array", "Tuple":
		return v.K == "Arr"
	case "Hash", "Struct":
		return v.K == "Hash"
	case "Collection":
		return v.K == "Arr" || v.K == "Hash"
	case "Type":
		return v.K == "Type"
	case "Sensitive":
		return v.K == "Sensitive"
	case "Variant", "Optional", "NotUndef":
		return true
	}
	return false
}

func run(c px.Context, cfg *lib.Config, res *lib.Result) {
	rng := lib.NewRng(cfg.Seed)
	nRandom, coqN, shards := 200, 6000, 4
	if cfg.Thorough() {
		nRandom, coqN, shards = 1200, 48000, 16
	}
	u := lat.NewUniverseWith(rng, nRandom, 0, extraTypes(), extraValues())
	u.FillInst()
	for _, cr := range u.Crashes {
		res.Violate(cr)
	}
	nT, nV := len(u.L), len(u.V)
	res.Extra["types"], res.Extra["values"] = nT, nV
	// Type[T]: "exactly the types assignable to T" — assignability is asked from the implementation on the real objects
	typeOf := map[*types.VerifTy]px.Type{}
	for t := 0; t < nT; t++ {
		registerTypes(typeOf, u.Dec[t], u.L[t])
	}
	for v := 0; v < nV; v++ {
		registerValueTypes(typeOf, u.VDec[v], u.V[v])
	}
	asgCache := map[[2]*types.VerifTy][2]bool{}
	asgImpl := func(td, ud *types.VerifTy) (bool, bool) {
		k := [2]*types.VerifTy{td, ud}
		if r, ok := asgCache[k]; ok {
			return r[0], r[1]
		}
		tt, ok1 := typeOf[td]
		ut, ok2 := typeOf[ud]
		if !ok1 || !ok2 {
			return false, false
		}
		r, crash := lat.Guarded(func() bool { return px.IsAssignable(tt, ut) })
		asgCache[k] = [2]bool{r, crash == ""}
		return r, crash == ""
	}
	type tv struct{ t, v int }
	var inModel []tv
	ciEnumIn := make([]bool, nT)
	for t := 0; t < nT; t++ {
		ciEnumIn[t] = hasCiEnum(u.Dec[t])
	}
	nonASCIIIn := make([]bool, nV)
	for v := 0; v < nV; v++ {
		nonASCIIIn[v] = valNonASCII(u.VDec[v])
	}
	for t := 0; t < nT; t++ {
		for v := 0; v < nV; v++ {
			res.Evaluations++
			if !u.InM[t] || !u.VInM[v] {
				res.Count("outside-model")
				continue
			}
			// the model folds case for ASCII only (Model/Base.v lower_ascii; Go's strings.ToLower is an oracle beyond it):
			// a case-insensitive Enum against a value with a non-ASCII string stays with the direct check
			if !(ciEnumIn[t] && nonASCIIIn[v]) {
				inModel = append(inModel, tv{t, v})
			}
			want, ok := lat.RefDen(u.Dec[t], u.VDec[v], asgImpl)
			if !ok {
				res.Count("reference-undefined")
				continue
			}
			got := u.Inst[t][v]
			if got {
				res.Count("instance.true")
			} else {
				res.Count("instance.false")
			}
			if kindMatches(u.Dec[t], u.VDec[v]) {
				res.Nontrivial(fmt.Sprintf("%d/%d", t, v))
			}
			if got != want {
				res.Violate(lib.Violation{Clause: "denotation",
					What:  fmt.Sprintf("IsInstance(%s, %s) = %v but the set denotation says %v", u.Text[t], lat.ValText(u.V[v]), got, want),
					Input: map[string]interface{}{"kind": "inst", "t": u.Specs[t], "v": u.VSpec[v]},
					Tags:  []string{"den:" + u.Dec[t].K + "/" + u.VDec[v].K}})
			}
		}
	}
	for i := 0; i < 5 && len(inModel) > 0; i++ {
		x := inModel[(i*7919+11)%len(inModel)]
		res.Sample(map[string]interface{}{"T": u.Text[x.t], "v": lat.ValText(u.V[x.v]), "IsInstance": u.Inst[x.t][x.v]})
	}
	// ---- M: the model's inst on sampled pairs (half of the budget biased to kind-matching pairs and to instances)
	var matching []tv
	for _, x := range inModel {
		if kindMatches(u.Dec[x.t], u.VDec[x.v]) {
			matching = append(matching, x)
		}
	}
	per := coqN / shards
	for s := 0; s < shards; s++ {
		cf := &lib.CasesFile{Imports: []string{"Model.Base", "Model.Ty", "Model.Lattice", "Corr.CorrC01"}, Typ: "ty * value * bool",
			Obligations: map[string]string{"inst_model": "inst_mismatches orc cases"}}
		pats, strs := map[string]bool{}, map[string]bool{}
		for i := 0; i < per; i++ {
			var x tv
			if i%2 == 0 && len(matching) > 0 {
				x = matching[rng.Intn(len(matching))]
				if i%4 == 0 {
					for k := 0; k < 10 && !u.Inst[x.t][x.v]; k++ {
						x = matching[rng.Intn(len(matching))]
					}
				}
			} else {
				x = inModel[rng.Intn(len(inModel))]
			}
			lat.TyStrings(u.Dec[x.t], pats, strs)
			lat.ValStrings(u.VDec[x.v], pats, strs)
			cf.Add(fmt.Sprintf("(%s, %s, %s)", lat.GTy(u.Dec[x.t]), lat.GVal(u.VDec[x.v]), lib.GBool(u.Inst[x.t][x.v])),
				map[string]interface{}{"kind": "inst", "t": u.Specs[x.t], "v": u.VSpec[x.v]})
		}
		cf.Prelude = lat.Oracle(pats, strs)
		res.CorrFiles = append(res.CorrFiles, cf.WriteTo(cfg.Out, fmt.Sprintf("cases_inst_%d", s)))
	}
	// ---- strings as bytes (bytes.go): after everything else, so that the families above draw the same numbers as before
	runBytes(cfg, res, rng.Fork())
	// ---- non-recursive aliases in member positions (alias.go)
	runAlias(cfg, res, rng.Fork())
}

// registerTypes maps every decoded node of a type to the real sub-type (same traversal as VerifDecodeType).
func registerTypes(m map[*types.VerifTy]px.Type, d *types.VerifTy, t px.Type) {
	if _, ok := m[d]; ok {
		return
	}
	m[d] = t
	// sub-terms are reached through the decoded structure of the real parameters
	subs := types.VerifSubTypes(t)
	all := append(append([]*types.VerifTy{}, d.Keys...), d.Ts...)
	if len(subs) == len(all) {
		for i := range all {
			registerTypes(m, all[i], subs[i])
		}
	}
}

func registerValueTypes(m map[*types.VerifTy]px.Type, d *types.VerifVal, v px.Value) {
	if d.K == "Type" {
		if t, ok := v.(px.Type); ok {
			registerTypes(m, d.T, t)
		}
		return
	}
	subs := types.VerifSubValues(v)
	if len(subs) == len(d.Vs) {
		for i := range subs {
			registerValueTypes(m, d.Vs[i], subs[i])
		}
	}
}

func replay(c px.Context, cfg *lib.Config, res *lib.Result) {
	for _, in := range lib.ReplayInputs(cfg.Replay) {
		if replayBytes(in, res) || replayAlias(in, res) {
			continue
		}
		var x struct {
			Kind string     `json:"kind"`
			T    *lat.Spec  `json:"t"`
			V    *lat.VSpec `json:"v"`
		}
		lib.Remarshal(in, &x)
		res.Evaluations++
		t, v := x.T.Build(), x.V.Build()
		td, vd := types.VerifDecodeType(t), types.VerifDecodeValue(v)
		typeOf := map[*types.VerifTy]px.Type{}
		registerTypes(typeOf, td, t)
		registerValueTypes(typeOf, vd, v)
		want, ok := lat.RefDen(td, vd, func(a, b *types.VerifTy) (bool, bool) {
			at, ok1 := typeOf[a]
			bt, ok2 := typeOf[b]
			if !ok1 || !ok2 {
				return false, false
			}
			return px.IsAssignable(at, bt), true
		})
		got := px.IsInstance(t, v)
		fmt.Printf("T = %s\nv = %s\nIsInstance(T,v) = %v, set denotation = %v (defined: %v)\n", t, lat.ValText(v), got, want, ok)
		if ok && got != want {
			fmt.Println("FAILS: " + strings.TrimSpace("IsInstance deviates from the set denotation"))
			res.Violate(lib.Violation{Clause: "denotation", What: fmt.Sprintf("IsInstance(%s, %s) = %v but the set denotation says %v", t, lat.ValText(v), got, want), Input: in})
		}
	}
}

func hasCiEnum(t *types.VerifTy) bool {
	if t == nil {
		return false
	}
	if t.K == "Enum" && t.CI {
		return true
	}
	for _, e := range t.Ts {
		if hasCiEnum(e) {
			return true
		}
	}
	for _, e := range t.Keys {
		if hasCiEnum(e) {
			return true
		}
	}
	return false
}

func valNonASCII(v *types.VerifVal) bool {
	if v == nil {
		return false
	}
	for i := 0; i < len(v.S); i++ {
		if v.S[i] >= 0x80 {
			return true
		}
	}
	if v.K == "Type" && v.T != nil {
		return false
	}
	for _, e := range v.Vs {
		if valNonASCII(e) {
			return true
		}
	}
	return false
}
