// c02, byte-level family: strings as BYTES (coq/Model/StrBytes.v).
//
// The pool holds byte strings of every shape the UTF-8 decoder distinguishes: characters of 1 to 4 bytes at the
// ends of every range, invalid lead bytes, stray continuation bytes, truncated sequences (alone, before ASCII,
// before another lead), overlong encodings (C0 80, E0 80 80, F0 80 80 80), lone and paired surrogates
// (ED A0..BF ..), values above U+10FFFF (F4 90.., F5..), U+FFFD itself, capitals next to invalid bytes; all
// strings of length <= 2 over a boundary alphabet; seeded random strings over it.
//
//	D: px.IsInstance(T, string) for ALL (type, string) pairs against a reference written on the decoded text
//	   (size = len([]rune(s)), the language's own conversion; Enum's flag = every code point through unicode.ToLower);
//	M: the observed answers through `instB` (cases_bytes_*), and for every pool string []rune(s),
//	   utf8.RuneCountInString, utf8.ValidString and strings.ToLower through decode / utf8_rune_count / valid_utf8 /
//	   to_lower_b (cases_utf8).
package main

import (
	"encoding/hex"
	"fmt"
	"sort"
	"strings"
	"unicode"
	"unicode/utf8"

	"github.com/lyraproj/pcore/px"
	"github.com/lyraproj/pcore/types"
	"verifharness/lat"
	"verifharness/lib"
)

// strings of the Specs below are hex (so that a recipe survives JSON whatever its bytes)
func hx(s string) string { return hex.EncodeToString([]byte(s)) }

func unhex(s string) string {
	b, err := hex.DecodeString(s)
	if err != nil {
		panic(err)
	}
	return string(b)
}

// unhexSpec: the recipe with the strings of StringVal / Enum decoded from hex (Pattern sources stay as written).
func unhexSpec(s *lat.Spec) *lat.Spec {
	c := *s
	switch s.K {
	case "StringVal":
		c.S = unhex(s.S)
	case "Enum":
		c.Strs = make([]string, len(s.Strs))
		for i, v := range s.Strs {
			c.Strs[i] = unhex(v)
		}
	}
	c.Sub = make([]*lat.Spec, len(s.Sub))
	for i, e := range s.Sub {
		c.Sub[i] = unhexSpec(e)
	}
	return &c
}

func hEnum(ci bool, vs ...string) *lat.Spec {
	hs := make([]string, len(vs))
	for i, v := range vs {
		hs[i] = hx(v)
	}
	return lat.Enum(ci, hs...)
}
func hVal(s string) *lat.Spec { return lat.StrVal(hx(s)) }

func byteTypes() []*lat.Spec {
	ts := []*lat.Spec{lat.A("String"), lat.A("Scalar"), lat.A("Any"), lat.Int(0, 5)}
	for _, b := range [][2]int64{{0, 0}, {1, 1}, {2, 2}, {3, 3}, {4, 4}, {5, 5}, {6, 6}, {0, 1}, {0, 2}, {0, 3}, {1, 2}, {1, 3}, {2, 3}, {2, 4}, {3, 4}, {3, 6},
		{4, 8}, {1, lat.Max}, {2, lat.Max}, {3, lat.Max}, {4, lat.Max}, {5, lat.Max}, {0, lat.Max}} {
		ts = append(ts, lat.StrSz(b[0], b[1]))
	}
	ts = append(ts,
		hVal("\xff"), hVal("\xef\xbf\xbd"), hVal("é"), hVal("\xc3"), hVal(""),
		hEnum(false, "\xff", "\xc3\xa9", "a"), hEnum(false, "\xef\xbf\xbd", "\xed\xa0\x80"), hEnum(false, "ABC", "abc"),
		hEnum(true, "abc", "é", "z"), hEnum(true, "ABC\xff", "Éa", "\xffq"), hEnum(true, "i", "k", "ß", "ω", "ss", "�", "a�", "��", "s", "σ", "i�", "�k"),
		hEnum(true, "i̇", "ǆ", "ⓐ", "\U00010428", "\U00010400"), hEnum(true, "a", "b", "c", "d", "e", "f", "g", "h", "�", "é"),
		lat.Pat("^.$"), lat.Pat("^..$"), lat.Pat(`^\x{FFFD}+$`), lat.Pat("(?i)^é$", "^a"), lat.Pat(`^[^\x00-\x7f]*$`),
		lat.Var(lat.StrSz(1, 1), hEnum(true, "abc")), lat.Var(hEnum(true, "abc�"), lat.StrSz(3, 3), hVal("\xff\xff")),
		lat.W("Optional", lat.StrSz(2, 2)), lat.W("NotUndef", lat.StrSz(0, 1)), lat.W("Optional", hEnum(true, "é")),
		lat.Var(lat.W("Optional", lat.StrSz(3, 3)), lat.Pat("^a")), lat.W("NotUndef", lat.Var(lat.StrSz(4, 4), lat.A("Undef"))),
		lat.Var(), lat.Arr(lat.StrSz(1, 1), 0, lat.Max),
	)
	return ts
}

var byteAlphabet = []byte{0x00, 0x41, 0x5a, 0x61, 0x7f, 0x80, 0x8f, 0x90, 0x9f, 0xa0, 0xbf, 0xc0, 0xc1, 0xc2, 0xc3, 0xdf, 0xe0, 0xe1, 0xec, 0xed, 0xee, 0xef,
	0xf0, 0xf1, 0xf3, 0xf4, 0xf5, 0xff}

func byteCorpus() []string {
	return []string{"", "a", "A", "Z", "@", "[", "`", "{", "abc", "ABC", "AbC", "a1!", "é", "É", "éa", "Éa", "ÉA", "€", "😀", "aé€😀", "éé", "€€€", "😀😀", "abcd", "abcde", "abcdef",
		// invalid single bytes
		"\xff", "\xff\xff", "\xff\xff\xff", "\x80", "\xbf", "\x80\x80", "\xc0", "\xc1", "\xf5", "\xfe", "a\xffb", "\xffab", "ab\xff", "é\xff", "\xffé", "ABC\xff", "\xffQ", "\xffq",
		// overlong
		"\xc0\x80", "\xc1\xbf", "\xe0\x80\x80", "\xe0\x9f\xbf", "\xf0\x80\x80\x80", "\xf0\x8f\xbf\xbf", "\xc0\xaf",
		// surrogates, CESU-8 pair
		"\xed\xa0\x80", "\xed\xbf\xbf", "\xed\xa0\x80\xed\xb0\x80", "\xed\x9f\xbf", "\xee\x80\x80",
		// above U+10FFFF
		"\xf4\x90\x80\x80", "\xf4\x8f\xbf\xbf", "\xf5\x80\x80\x80", "\xf7\xbf\xbf\xbf",
		// truncated
		"\xc3", "\xe2\x82", "\xf0\x9f\x98", "\xf0\x9f", "\xf0", "a\xc3", "\xc3a", "\xe2\x82a", "\xe2a\x82", "\xf0\x9f\x98a", "\xf0\x9fa\x98", "\xf0a\x9f\x98", "\xc3\xc3\xa9", "\xe2\x82\xc3\xa9",
		"\xe2\xe2\x82\xac", "\xf0\x9f\x98\xf0\x9f\x98\x80", "\xe2\x82\xe2\x82", "\xc3\xa9\xa9",
		// range ends
		"\xc2\x80", "\xdf\xbf", "\xe0\xa0\x80", "\xef\xbf\xbf", "\xf0\x90\x80\x80", "\xe1\x80\x80", "\xec\xbf\xbf", "\xf1\x80\x80\x80", "\xf3\xbf\xbf\xbf", "\x7f", "\x00", "a\x00b",
		// U+FFFD itself, next to invalid bytes
		"\xef\xbf\xbd", "\xef\xbf\xbd\xff", "\xff\xef\xbf\xbd", "a\xef\xbf\xbd", "A\xef\xbf\xbd", "A\xff", "\xef\xbf\xbd\xef\xbf\xbd",
		// letters whose lower case has another length or lies outside the BMP
		"İ", "K", "ẞ", "Ω", "ω", "ß", "SS", "ss", "Ǆ", "ǅ", "ǆ", "Ⓐ", "\U00010400", "\U00010428", "I", "i", "k", "Å", "ſ",
		"\u0130", "\u212a", "\u1e9e", "\u017f", "\u017f\u017f", "\u03a3", "\u03c2", "\u03c3", "\u0130\xff", "\xff\u212a",
	}
}

type byteCase struct {
	T   *lat.Spec `json:"t"`
	Hex string    `json:"hex"`
}

func refBytes(td *types.VerifTy, s string) (bool, bool) {
	switch td.K {
	case "StringSz":
		n := int64(len([]rune(s)))
		return td.Lo <= n && n <= td.Hi, true
	case "Enum":
		if len(td.Strs) == 0 {
			return true, true
		}
		if td.CI {
			rs := []rune(s)
			for i, r := range rs {
				rs[i] = unicode.ToLower(r)
			}
			s = string(rs)
		}
		for _, v := range td.Strs {
			if v == s {
				return true, true
			}
		}
		return false, true
	case "Variant":
		for _, e := range td.Ts {
			r, ok := refBytes(e, s)
			if !ok {
				return false, false
			}
			if r {
				return true, true
			}
		}
		return false, true
	case "Optional", "NotUndef":
		return refBytes(td.Ts[0], s)
	}
	return lat.RefDen(td, &types.VerifVal{K: "Str", S: s}, func(a, b *types.VerifTy) (bool, bool) { return false, false })
}

func gRunes(rs []rune) string {
	if len(rs) == 0 {
		return "(@nil N)"
	}
	gs := make([]string, len(rs))
	for i, r := range rs {
		gs[i] = fmt.Sprintf("%d", r)
	}
	return "[" + strings.Join(gs, ";") + "]%N"
}

// lcTable: unicode.ToLower on the code points of the given strings (only those it changes).
func lcTable(strs map[string]bool) string {
	m := map[rune]rune{}
	for s := range strs {
		for _, r := range s {
			if l := unicode.ToLower(r); l != r {
				m[r] = l
			}
		}
	}
	keys := make([]int, 0, len(m))
	for r := range m {
		keys = append(keys, int(r))
	}
	sort.Ints(keys)
	rows := make([]string, len(keys))
	for i, k := range keys {
		rows[i] = fmt.Sprintf("(%d%%N, %d%%N)", k, m[rune(k)])
	}
	return "Definition lct : lc_table := " + lib.GList(rows, "N * N") + ".\n"
}

func bytePool(rng *lib.Rng, nRandom int) []string {
	seen := map[string]bool{}
	var pool []string
	add := func(s string) {
		if !seen[s] {
			seen[s] = true
			pool = append(pool, s)
		}
	}
	for _, s := range byteCorpus() {
		add(s)
	}
	for _, a := range byteAlphabet {
		add(string([]byte{a}))
		for _, b := range byteAlphabet {
			add(string([]byte{a, b}))
		}
	}
	for i := 0; i < nRandom; i++ {
		n := 3 + rng.Intn(4)
		b := make([]byte, n)
		for j := range b {
			b[j] = byteAlphabet[rng.Intn(len(byteAlphabet))]
		}
		// half of them: glue well-formed characters and fragments
		if i%2 == 0 {
			frag := []string{"é", "€", "😀", "a", "Z", "\xe2\x82", "\xf0\x9f\x98", "\xc3", "\xff", "\xed\xa0\x80", "\xef\xbf\xbd", "É"}
			var sb strings.Builder
			for k := 0; k < 2+rng.Intn(3); k++ {
				sb.WriteString(frag[rng.Intn(len(frag))])
			}
			add(sb.String())
			continue
		}
		add(string(b))
	}
	return pool
}

func runBytes(cfg *lib.Config, res *lib.Result, rng *lib.Rng) {
	nRandom, perFile := 300, 1500
	if cfg.Thorough() {
		nRandom, perFile = 3000, 12000
	}
	specs := byteTypes()
	pool := bytePool(rng, nRandom)
	nCorpus := len(byteCorpus())
	type bt struct {
		spec *lat.Spec
		t    px.Type
		d    *types.VerifTy
	}
	var ts []bt
	for _, sp := range specs {
		t := unhexSpec(sp).Build()
		ts = append(ts, bt{sp, t, types.VerifDecodeType(t)})
	}
	res.Extra["byte_types"], res.Extra["byte_strings"] = len(ts), len(pool)
	inst := make([][]bool, len(ts))
	for i, t := range ts {
		inst[i] = make([]bool, len(pool))
		for j, s := range pool {
			res.Evaluations++
			in := byteCase{T: t.spec, Hex: hx(s)}
			got, crash := lat.Guarded(func() bool { return px.IsInstance(t.t, types.WrapString(s)) })
			if crash != "" {
				res.Violate(lib.Violation{Clause: "crash", What: fmt.Sprintf("IsInstance(%s, %q) panics: %s", t.t, s, crash),
					Input: map[string]interface{}{"kind": "bytes", "t": in.T, "hex": in.Hex}, Tags: []string{"bytes:" + t.d.K}})
				continue
			}
			inst[i][j] = got
			want, ok := refBytes(t.d, s)
			if !ok {
				res.Count("bytes.reference-undefined")
				continue
			}
			if utf8.ValidString(s) {
				res.Count("bytes.valid")
			} else {
				res.Count("bytes.invalid")
			}
			if t.d.K == "StringSz" || t.d.K == "Enum" || t.d.K == "Variant" || t.d.K == "Pattern" {
				res.Nontrivial(fmt.Sprintf("bytes/%d/%d", i, j))
			}
			if got != want {
				res.Violate(lib.Violation{Clause: "denotation",
					What:  fmt.Sprintf("IsInstance(%s, %q) = %v but the set denotation on the decoded text (%d code points) says %v", t.t, s, got, len([]rune(s)), want),
					Input: map[string]interface{}{"kind": "bytes", "t": in.T, "hex": in.Hex}, Tags: []string{"den:" + t.d.K + "/Bytes"}})
			}
		}
	}
	// ---- M: instB on (type, bytes): file 0 = every type against the corpus, file 1 = a seeded sample of the rest
	emit := func(name string, pairs [][2]int) {
		cf := &lib.CasesFile{Imports: []string{"Model.Base", "Model.Ty", "Model.Lattice", "Model.StrBytes", "Corr.CorrC01", "Corr.CorrC02"}, Typ: "ty * str * bool",
			Obligations: map[string]string{"instB_model": "instB_mismatches orc lct cases"}}
		pats, strs := map[string]bool{}, map[string]bool{}
		for _, p := range pairs {
			t, s := ts[p[0]], pool[p[1]]
			if !lat.InModel(t.d) {
				continue
			}
			lat.TyStrings(t.d, pats, strs)
			strs[s] = true
			cf.Add(fmt.Sprintf("(%s, %s, %s)", lat.GTy(t.d), lib.GStr(s), lib.GBool(inst[p[0]][p[1]])),
				map[string]interface{}{"kind": "bytes", "t": t.spec, "hex": hx(s)})
		}
		cf.Prelude = lat.Oracle(pats, strs) + lcTable(strs)
		res.CorrFiles = append(res.CorrFiles, cf.WriteTo(cfg.Out, name))
	}
	var corpusPairs, restPairs [][2]int
	for i := range ts {
		for j := 0; j < nCorpus && j < len(pool); j++ {
			corpusPairs = append(corpusPairs, [2]int{i, j})
		}
	}
	for k := 0; k < perFile; k++ {
		restPairs = append(restPairs, [2]int{rng.Intn(len(ts)), nCorpus + rng.Intn(len(pool)-nCorpus)})
	}
	emit("cases_bytes_0", corpusPairs)
	emit("cases_bytes_1", restPairs)
	// ---- M: the decoder itself against Go's utf8 / strings packages, every pool string
	cf := &lib.CasesFile{Imports: []string{"Model.Base", "Model.Ty", "Model.StrBytes", "Corr.CorrC02"}, Typ: "str * (list N * (Z * (bool * str)))",
		Obligations: map[string]string{"utf8_model": "utf8_mismatches lct cases"}}
	all := map[string]bool{}
	for _, s := range pool {
		all[s] = true
		cf.Add(fmt.Sprintf("(%s, (%s, (%s, (%s, %s))))", lib.GStr(s), gRunes([]rune(s)), lib.GZ(int64(utf8.RuneCountInString(s))),
			lib.GBool(utf8.ValidString(s)), lib.GStr(strings.ToLower(s))), map[string]interface{}{"kind": "utf8", "hex": hx(s)})
	}
	cf.Prelude = lcTable(all)
	res.CorrFiles = append(res.CorrFiles, cf.WriteTo(cfg.Out, "cases_utf8"))
}

// replayBytes re-runs one recorded (type, bytes) pair; false when the input is not of this family.
func replayBytes(in interface{}, res *lib.Result) bool {
	var x struct {
		Kind string    `json:"kind"`
		T    *lat.Spec `json:"t"`
		Hex  string    `json:"hex"`
	}
	lib.Remarshal(in, &x)
	if x.Kind != "bytes" && x.Kind != "utf8" {
		return false
	}
	res.Evaluations++
	s := unhex(x.Hex)
	fmt.Printf("s = %q (bytes %s)\n[]rune(s) = %v, RuneCountInString = %d, ValidString = %v, ToLower = %q\n", s, x.Hex, []rune(s), utf8.RuneCountInString(s), utf8.ValidString(s), strings.ToLower(s))
	if x.Kind == "utf8" {
		return true
	}
	t := unhexSpec(x.T).Build()
	td := types.VerifDecodeType(t)
	got := px.IsInstance(t, types.WrapString(s))
	want, ok := refBytes(td, s)
	fmt.Printf("T = %s\nIsInstance(T, s) = %v, set denotation on the decoded text = %v (defined: %v)\n", t, got, want, ok)
	if ok && got != want {
		fmt.Println("FAILS: IsInstance deviates from the set denotation")
		res.Violate(lib.Violation{Clause: "denotation", What: fmt.Sprintf("IsInstance(%s, %q) = %v but the set denotation on the decoded text says %v", t, s, got, want), Input: in})
	}
	return true
}
