// c13race: the free-running stress program of property C13.  It is built by harness/cmd/c13 with `go build -race`
// (no `verif` tag: the production configuration) and run; every report of the race detector is a violation, and so
// is every functional failure that the program itself notices (a panic, two different values for one name, a file
// parsed twice, a declaration that the function of the following Do does not find usable).  A part whose goroutines
// block each other never prints DONE: the caller kills it after its time limit and reports that.  Output protocol (stdout): lines `FUNCTIONAL <part> <text>` and `DONE <part> <operations>`.
package main

import (
	"flag"
	"fmt"
	"os"
	"path/filepath"
	"reflect"
	"strings"
	"sync"
	"sync/atomic"

	"github.com/lyraproj/issue/issue"
	"github.com/lyraproj/pcore/loader"
	"github.com/lyraproj/pcore/pcore"
	"github.com/lyraproj/pcore/px"
	"github.com/lyraproj/pcore/types"
)

type rng struct{ s uint64 }

func (r *rng) next() uint64 {
	r.s += 0x9E3779B97F4A7C15
	z := r.s
	z = (z ^ (z >> 30)) * 0xBF58476D1CE4E5B9
	z = (z ^ (z >> 27)) * 0x94D049BB133111EB
	return z ^ (z >> 31)
}
func (r *rng) intn(n int) int { return int(r.next() % uint64(n)) }

var (
	outLock sync.Mutex
	ops     int64
)

func functional(part, format string, args ...interface{}) {
	outLock.Lock()
	fmt.Printf("FUNCTIONAL %s %s\n", part, strings.ReplaceAll(fmt.Sprintf(format, args...), "\n", " "))
	outLock.Unlock()
}

// guard runs f and reports a panic that is not one of the allowed issue codes
func guard(part, what string, f func()) {
	defer func() {
		if r := recover(); r != nil {
			functional(part, "%s panicked: %v", what, r)
		}
	}()
	f()
	atomic.AddInt64(&ops, 1)
}

func parallel(n int, f func(g int, r *rng)) {
	var wg sync.WaitGroup
	start := make(chan struct{})
	for g := 0; g < n; g++ {
		wg.Add(1)
		go func(g int) {
			defer wg.Done()
			r := &rng{s: uint64(g)*7919 + seed}
			<-start
			f(g, r)
		}(g)
	}
	close(start)
	wg.Wait()
}

var seed uint64

func main() {
	part := flag.String("part", "loader", "loader|files|values|types|declare|firstdo")
	dir := flag.String("dir", "", "scratch directory")
	n := flag.Int("n", 8, "goroutines")
	iters := flag.Int("iters", 300, "iterations per goroutine")
	rounds := flag.Int("rounds", 5, "fresh worlds")
	flag.Uint64Var(&seed, "seed", 1, "seed")
	flag.Parse()
	if *part == "firstdo" {
		// the first use of the runtime by n goroutines at once: once per process, no warm-up
		stressFirstDo(*n)
		fmt.Printf("DONE %s %d\n", *part, ops)
		return
	}
	pcore.Do(func(c px.Context) {})
	for round := 0; round < *rounds; round++ {
		switch *part {
		case "loader":
			stressLoader(*n, *iters)
		case "files":
			stressFiles(*dir, *n, *iters)
		case "values":
			stressValues(*n, *iters)
		case "types":
			stressTypes(*n, *iters)
		case "declare":
			stressDeclare(round, *n, *iters)
		default:
			fmt.Println("unknown part")
			os.Exit(2)
		}
		seed += 1000003
	}
	fmt.Printf("DONE %s %d\n", *part, ops)
}

type thing struct{ id int }

// ---- the first initialization of the runtime, entered by n goroutines at once (a fresh process per run) ------

type earlyThing struct {
	A int
	B string
}

func stressFirstDo(n int) {
	// what the init() functions of a program do: declarations made before anybody has called the runtime
	px.NewObjectType("C13race::Early", `{attributes => {a => Integer}}`)
	want := []string{"{'a' => 1}", "['x', 'y']", "{'a' => 3, 'b' => 'b'}", "Pcore::MemberName true false", "C13race::Early('a' => 3) static=true"}
	uses := func(c px.Context) {
		got := []string{
			px.Wrap(c, map[string]int{"a": 1}).String(),
			px.Wrap(c, []string{"x", "y"}).String(),
			px.Wrap(c, &earlyThing{3, "b"}).String(),
		}
		if v, ok := px.Load(c, tn("Pcore::MemberName")); !ok {
			got = append(got, "Pcore::MemberName absent")
		} else {
			got = append(got, fmt.Sprintf("%s %v %v", v.(px.Type).String(), px.IsInstance(c.ParseType("Pcore::QRef"), types.WrapString("Ab::Cd")), px.IsInstance(v.(px.Type), types.WrapString("9x"))))
		}
		if v, ok := px.Load(c, tn("C13race::Early")); !ok {
			got = append(got, "absent")
		} else if ot, isObj := v.(px.ObjectType); !isObj || ot.AttributesInfo() == nil {
			got = append(got, fmt.Sprintf("unresolved %T", v))
		} else {
			got = append(got, fmt.Sprintf("%s static=%v", px.New(c, ot, types.WrapInteger(3)).String(), px.StaticLoader().HasEntry(tn("C13race::Early"))))
		}
		for i := range want {
			if got[i] != want[i] {
				functional("firstdo", "a goroutine whose first use of the runtime raced with the first use by others got %q, sequentially it gets %q", got[i], want[i])
			}
		}
	}
	parallel(n, func(g int, r *rng) {
		guard("firstdo", "the first use of the runtime", func() {
			switch (g + int(seed)) % 3 {
			case 0:
				pcore.Do(uses)
			case 1:
				uses(pcore.RootContext())
			default:
				if err := pcore.Try(func(c px.Context) error { uses(c); return nil }); err != nil {
					panic(err)
				}
			}
		})
	})
}

func newCtx() px.Context { return pcore.NewContext(px.StaticLoader(), pcore.Logger()) }

func tn(name string) px.TypedName { return px.NewTypedName(px.NsType, name) }

// ---- shared parented loaders: load, define, has, discover --------------------------------------------------

func stressLoader(n, iters int) {
	a := px.NewParentedLoader(px.StaticLoader())
	b := px.NewParentedLoader(a)
	sib := px.NewParentedLoader(a)
	loaders := []px.DefiningLoader{a, b, sib}
	names := []string{"Sa", "Sb", "Sc", "Sd", "Se", "Sf"}
	// each name has one value and one defining loader, so that every interleaving has the same answers
	vals := make([]*thing, len(names))
	home := make([]int, len(names))
	for i := range names {
		vals[i] = &thing{i}
		home[i] = i % len(loaders)
	}
	var seen sync.Map
	parallel(n, func(g int, r *rng) {
		c := newCtx()
		for i := 0; i < iters; i++ {
			k := r.intn(len(names))
			l := loaders[r.intn(len(loaders))]
			switch r.intn(6) {
			case 0:
				guard("loader", "SetEntry", func() {
					e := loaders[home[k]].SetEntry(tn(names[k]), px.NewLoaderEntry(vals[k], nil))
					if e.Value() != vals[k] {
						functional("loader", "SetEntry(%s) returned an entry with another value", names[k])
					}
				})
			case 1, 2:
				guard("loader", "Load", func() {
					var v interface{}
					var ok bool
					c.DoWithLoader(l, func() { v, ok = px.Load(c, tn(names[k])) })
					if ok {
						if v != vals[k] {
							functional("loader", "Load(%s) returned a value that was never bound to it", names[k])
						}
						if old, dup := seen.LoadOrStore(names[k], v); dup && old != v {
							functional("loader", "two loads of %s returned different values", names[k])
						}
					}
				})
			case 3:
				guard("loader", "HasEntry", func() { l.HasEntry(tn(names[k])) })
			case 4:
				guard("loader", "Discover", func() {
					found := l.Discover(c, func(t px.TypedName) bool { return strings.HasPrefix(t.Name(), "s") })
					for _, f := range found {
						if !l.HasEntry(f) {
							functional("loader", "Discover listed %s, HasEntry denies it", f.Name())
						}
					}
				})
			case 5:
				guard("loader", "GetEntry", func() {
					if e := l.GetEntry(tn(names[k])); e != nil {
						if v := e.Value(); v != nil && v != vals[k] {
							functional("loader", "GetEntry(%s) has a value that was never bound to it", names[k])
						}
					}
				})
			}
		}
	})
}

// ---- file based loaders (also below a dependency loader): lazy instantiation -----------------------------------

var parses sync.Map // path -> *int64

func countingInstantiator(ctx px.Context, l loader.ContentProvidingLoader, t px.TypedName, sources []string) {
	c, _ := parses.LoadOrStore(sources[0], new(int64))
	atomic.AddInt64(c.(*int64), 1)
	loader.InstantiatePuppetType(ctx, l, t, sources)
}

var fileNames = []string{"Fa", "Fb", "Fc", "Fd"}

func makeFiles(dir string) {
	if err := os.MkdirAll(filepath.Join(dir, "types"), 0o755); err != nil {
		panic(err)
	}
	for i, nm := range fileNames {
		p := filepath.Join(dir, "types", strings.ToLower(nm)+".pp")
		if err := os.WriteFile(p, []byte(fmt.Sprintf("type %s = Integer[%d,%d]\n", nm, i, i+10)), 0o644); err != nil {
			panic(err)
		}
	}
}

// a file that cannot be instantiated: the first load of its name escapes with the parser's error, every other one
// answers "not found" - and returns (the goroutines that queue on the name lock meanwhile must be released)
const brokenName = "Fx"

func loadBroken(c px.Context, l px.Loader) {
	defer func() {
		if r := recover(); r != nil {
			if rep, ok := r.(issue.Reported); ok && (rep.Code() == types.ParseError || rep.Code() == px.ParseError) {
				return
			}
			functional("files", "Load(%s) panicked: %v", brokenName, r)
		}
	}()
	var v interface{}
	var ok bool
	c.DoWithLoader(l, func() { v, ok = px.Load(c, tn(brokenName)) })
	if ok {
		functional("files", "Load(%s) found %v in a file that cannot be parsed", brokenName, v)
	}
	atomic.AddInt64(&ops, 1)
}

func stressFiles(dir string, n, iters int) {
	makeFiles(dir)
	if err := os.WriteFile(filepath.Join(dir, "types", strings.ToLower(brokenName)+".pp"),
		[]byte("type "+brokenName+" = Object[{\n  attributes => {\n    first => String\n    second => Integer\n  }\n}]\n"), 0o644); err != nil {
		panic(err)
	}
	loader.SmartPathFactories[px.PuppetDataTypePath] = func(l px.ModuleLoader, rel bool) loader.SmartPath {
		return loader.NewSmartPath(`types`, `.pp`, l, []px.Namespace{px.NsType}, rel, false, countingInstantiator)
	}
	parses = sync.Map{}
	fl := px.NewFileBasedLoader(px.StaticLoader(), dir, ``, px.PuppetDataTypePath)
	child := px.NewParentedLoader(fl)
	dep := px.NewDependencyLoader([]px.ModuleLoader{px.NewFileBasedLoader(px.StaticLoader(), dir, ``, px.PuppetDataTypePath)})
	loaders := []px.Loader{fl, child, dep}
	// fresh file based loaders whose FIRST operations come from several goroutines at once: HasEntry, Load and Discover
	// of names that have a file, while the path index has not been built yet (it is built on demand by whoever comes first)
	for k := 0; k < 12; k++ {
		fresh := px.NewFileBasedLoader(px.StaticLoader(), dir, ``, px.PuppetDataTypePath)
		parallel(n, func(g int, r *rng) {
			c := newCtx()
			nm := fileNames[(g+k)%len(fileNames)]
			switch (g + k) % 4 {
			case 0, 1:
				guard("files", "first HasEntry", func() {
					if !fresh.HasEntry(tn(nm)) {
						functional("files", "HasEntry(%s) of a fresh loader is false for a name that has a file", nm)
					}
				})
			case 2:
				guard("files", "first Load", func() {
					var ok bool
					c.DoWithLoader(fresh, func() { _, ok = px.Load(c, tn(nm)) })
					if !ok && !fresh.HasEntry(tn(nm)) {
						functional("files", "first Load(%s) of a fresh loader: not found, and HasEntry is false", nm)
					}
				})
			default:
				guard("files", "first Discover", func() {
					found := fresh.Discover(c, func(t px.TypedName) bool { return strings.EqualFold(t.Name(), nm) })
					if len(found) != 1 {
						functional("files", "first Discover of a fresh loader returned %d names for %s", len(found), nm)
					}
				})
			}
		})
	}
	parses = sync.Map{} // (each fresh loader has read the files for itself: the count below is about fl and dep)
	var seen sync.Map
	parallel(n, func(g int, r *rng) {
		c := newCtx()
		for i := 0; i < iters; i++ {
			li := r.intn(len(loaders))
			l := loaders[li]
			nm := fileNames[r.intn(len(fileNames))]
			if i < 3 || r.intn(16) == 0 {
				// everybody asks for the broken name first: one goroutine instantiates, the others queue on the name lock
				loadBroken(c, l)
				continue
			}
			switch r.intn(4) {
			case 0, 1:
				guard("files", "Load", func() {
					var v interface{}
					var ok bool
					c.DoWithLoader(l, func() { v, ok = px.Load(c, tn(nm)) })
					if ok {
						key := fmt.Sprintf("%d/%s", li&2, nm) // fl and child share the definitions, dep has its own
						if old, dup := seen.LoadOrStore(key, v); dup && old != v {
							functional("files", "two loads of %s returned different values", nm)
						}
						if t, isType := v.(px.Type); !isType || !strings.EqualFold(t.Name(), nm) {
							functional("files", "Load(%s) returned %v", nm, v)
						}
					}
					// (a load that answers "not found" while another goroutine instantiates the file is the known finding
					// load-during-instantiate; the schedule-controlled part reports it)
				})
			case 2:
				guard("files", "HasEntry", func() {
					if !l.HasEntry(tn(nm)) && li < 2 {
						functional("files", "HasEntry(%s) is false for a name that has a file", nm)
					}
				})
			case 3:
				guard("files", "Discover", func() {
					l.Discover(c, func(t px.TypedName) bool { return strings.HasPrefix(t.Name(), "f") })
				})
			}
		}
	})
	parses.Range(func(k, v interface{}) bool {
		if cnt := atomic.LoadInt64(v.(*int64)); cnt > 2 {
			// two file based loaders read the directory: at most once each
			functional("files", "%s was parsed %d times by two loaders", filepath.Base(k.(string)), cnt)
		}
		return true
	})
}

// ---- shared values: inferred types, printing, hashing, type checks ------------------------------------------

func stressValues(n, iters int) {
	c0 := newCtx()
	mk := func() []px.Value {
		return []px.Value{
			px.Wrap(c0, []interface{}{1, "a", []interface{}{2, 3}, map[string]interface{}{"k": 1.5}}),
			px.Wrap(c0, map[string]interface{}{"a": 1, "b": []interface{}{"x", "y"}, "c": map[string]interface{}{"d": true}}),
			px.Wrap(c0, []interface{}{[]interface{}{1, 2}, []interface{}{3, 4}}),
			px.Wrap(c0, map[string]interface{}{"x": 1, "y": 2}),
		}
	}
	shared := mk()
	ref := mk() // same values, examined by one goroutine only: what every observation must be equal to
	refType := make([]string, len(ref))
	refDetailed := make([]string, len(ref))
	refKey := make([]px.HashKey, len(ref))
	refStr := make([]string, len(ref))
	for i, v := range ref {
		refType[i] = v.PType().String()
		refDetailed[i] = px.DetailedValueType(v).String()
		refKey[i] = px.ToKey(v)
		refStr[i] = v.String()
	}
	parallel(n, func(g int, r *rng) {
		for i := 0; i < iters; i++ {
			k := r.intn(len(shared))
			v := shared[k]
			switch r.intn(7) {
			case 0:
				guard("values", "PType", func() {
					if s := v.PType().String(); s != refType[k] {
						functional("values", "PType of shared value %d observed as %s, it is %s", k, s, refType[k])
					}
				})
			case 1:
				guard("values", "DetailedValueType", func() {
					if s := px.DetailedValueType(v).String(); s != refDetailed[k] {
						functional("values", "detailed type of shared value %d observed as %s, it is %s", k, s, refDetailed[k])
					}
				})
			case 2:
				guard("values", "ToKey", func() {
					if px.ToKey(v) != refKey[k] {
						functional("values", "hash key of shared value %d differs", k)
					}
				})
			case 3:
				guard("values", "String", func() {
					if v.String() != refStr[k] {
						functional("values", "String of shared value %d differs", k)
					}
				})
			case 4:
				guard("values", "IsInstance", func() {
					if !px.IsInstance(ref[k].PType(), v) {
						functional("values", "shared value %d is not an instance of its inferred type", k)
					}
				})
			case 5:
				guard("values", "Equals", func() {
					if !v.Equals(ref[k], nil) {
						functional("values", "shared value %d is not equal to its copy", k)
					}
				})
			case 6:
				guard("values", "Get", func() {
					if h, ok := v.(px.OrderedMap); ok {
						h.Get4(`a`)
						h.Get4(`x`)
						h.IncludesKey2(`b`)
					}
				})
			}
		}
	})
}

// ---- shared types and typed names --------------------------------------------------------------------------

func stressTypes(n, iters int) {
	c0 := newCtx()
	var ot px.ObjectType
	var alias px.Type
	c0.DoWithLoader(px.NewParentedLoader(px.StaticLoader()), func() {
		t := c0.ParseType(`Object[{name => 'Stress::Pt', attributes => {x => Integer, y => {type => Integer, value => 3}}}]`)
		px.AddTypes(c0, t)
		ot = t.(px.ObjectType)
		alias = c0.ParseType(`Variant[Array[Integer[1,5]], Hash[String, Struct[{a => Optional[Integer]}]], Tuple[String, Integer]]`)
	})
	// fresh types whose FIRST questions come from several goroutines at once (lazily built parts of a type: the member
	// map of a Struct, the detailed forms): two separately built equal Structs accept each other, whoever asks first
	var sb strings.Builder
	for m := 0; m < 300; m++ {
		fmt.Fprintf(&sb, "m%d => Integer[0,%d], ", m, m)
	}
	for k := 0; k < 8; k++ {
		text := fmt.Sprintf("Struct[{%sk => Integer[%d,%d]}]", sb.String(), k, k+int(seed%1000))
		sa, sb2 := c0.ParseType(text), c0.ParseType(text)
		opt := c0.ParseType(fmt.Sprintf("Struct[{%sk => Integer[%d,%d], Optional[extra] => String}]", sb.String(), k, k+int(seed%1000)))
		parallel(n, func(g int, r *rng) {
			guard("types", "first IsAssignable of fresh Structs", func() {
				switch g % 3 {
				case 0:
					if !px.IsAssignable(sa, sb2) {
						functional("types", "a fresh Struct does not accept a separately built equal Struct (first question, several goroutines)")
					}
				case 1:
					if !px.IsAssignable(opt, sb2) || px.IsAssignable(sb2, opt) {
						functional("types", "fresh Structs: optional extra member judged wrongly (first question, several goroutines)")
					}
				default:
					if !sb2.Equals(sa, nil) || !px.IsAssignable(sb2, sa) {
						functional("types", "fresh equal Structs are not equal / not assignable (first question, several goroutines)")
					}
				}
			})
		})
	}
	name := px.NewTypedName(px.NsType, `Stress::Shared::Name`)
	other := c0.ParseType(`Array[Integer[2,3]]`)
	refStr := alias.String()
	parallel(n, func(g int, r *rng) {
		c := newCtx()
		for i := 0; i < iters; i++ {
			switch r.intn(6) {
			case 0:
				guard("types", "MapKey/Parts", func() {
					if name.MapKey() != strings.ToLower(string(px.RuntimeNameAuthority)+"/type/stress::shared::name") {
						functional("types", "MapKey observed as %q", name.MapKey())
					}
					if p := name.Parts(); len(p) != 3 || p[2] != "name" {
						functional("types", "Parts observed as %v", p)
					}
					name.IsQualified()
				})
			case 1:
				guard("types", "Constructor", func() {
					if ot.Constructor(c) == nil {
						functional("types", "Constructor is nil")
					}
				})
			case 2:
				guard("types", "String", func() {
					if alias.String() != refStr {
						functional("types", "String of a shared type differs")
					}
				})
			case 3:
				guard("types", "IsAssignable", func() {
					if !px.IsAssignable(alias, other) {
						functional("types", "Variant[Array[Integer[1,5]],...] does not accept Array[Integer[2,3]]")
					}
				})
			case 4:
				guard("types", "ToKey", func() { px.ToKey(alias) })
			case 5:
				guard("types", "new", func() {
					v := ot.Constructor(c).Call(c, nil, types.WrapInteger(1))
					if !px.IsInstance(ot, v) {
						functional("types", "a new instance is not an instance of its type")
					}
				})
			}
		}
	})
}

// ---- declarations at run time and pcore.Do / RootContext -------------------------------------------------------
// (the lists of pending declarations of types/types.go and internal/context.go: every goroutine declares types,
// mappings, constructors and functions of its own and then enters a Do, whose function must find all of them usable)

type countingType struct {
	name     string
	resolves int32
}

func (p *countingType) Name() string { return p.name }
func (p *countingType) Resolve(c px.Context) px.Type {
	atomic.AddInt32(&p.resolves, 1)
	return types.DefaultAnyType()
}

func stressDeclare(round, n, iters int) {
	var all sync.Map // type name -> *countingType (nil for an object type)
	identity := func(d px.Dispatch) {
		d.Param(`Integer`)
		d.Function(func(c px.Context, args []px.Value) px.Value { return args[0] })
	}
	checkType := func(c px.Context, name string) {
		v, ok := px.Load(c, tn(name))
		if !ok {
			functional("declare", "%s was declared before the Do but is not bound inside it", name)
			return
		}
		ot, isObj := v.(px.ObjectType)
		if !isObj {
			functional("declare", "%s is bound to a %T", name, v)
			return
		}
		if ot.AttributesInfo() == nil {
			functional("declare", "%s was declared before the Do but is unresolved inside it", name)
			return
		}
		if o := px.New(c, ot, types.WrapInteger(3)); o.String() != name+"('x' => 3)" {
			functional("declare", "an instance of %s is %s", name, o.String())
		}
	}
	parallel(n, func(g int, r *rng) {
		for i := 0; i < iters; i++ {
			base := fmt.Sprintf("C13race::R%d::G%d::I%d", round, g, i)
			var tnames, cnames, fnames []string
			var probes []*countingType
			var gname string
			var gtype reflect.Type
			guard("declare", "declaring", func() {
				for k := 0; k < 1+r.intn(3); k++ {
					nm := fmt.Sprintf("%s::K%d", base, k)
					switch r.intn(6) {
					case 0, 1:
						px.NewObjectType(nm, `{attributes => {x => Integer}}`)
						tnames = append(tnames, nm)
						all.Store(nm, (*countingType)(nil))
					case 2:
						p := &countingType{name: nm}
						px.RegisterResolvableType(p)
						probes = append(probes, p)
						all.Store(nm, p)
					case 3:
						px.NewGoConstructor(nm, identity)
						cnames = append(cnames, nm)
					case 4:
						px.NewGoFunction(strings.ToLower(nm), identity)
						fnames = append(fnames, strings.ToLower(nm))
					case 5:
						if gname == "" {
							gname = nm
							gtype = reflect.StructOf([]reflect.StructField{{Name: fmt.Sprintf("R%dG%dI%d", round, g, i), Type: reflect.TypeOf(0)}})
							px.NewGoObjectType(nm, gtype, `{attributes => {x => Integer}}`)
							all.Store(nm, (*countingType)(nil))
						}
					}
				}
			})
			look := func(c px.Context) {
				for _, nm := range tnames {
					checkType(c, nm)
				}
				if gname != "" {
					checkType(c, gname)
					// (the mapping is registered in the context of whichever Do took it: if it is here, it is the right one)
					if t, ok := c.ImplementationRegistry().ReflectedToType(gtype); ok && t.Name() != gname {
						functional("declare", "the reflected type of %s is mapped to %s", gname, t.Name())
					}
				}
				for _, p := range probes {
					if k := atomic.LoadInt32(&p.resolves); k != 1 {
						functional("declare", "%s was declared before the Do and has been resolved %d times inside it", p.name, k)
					}
				}
				for _, nm := range cnames {
					if _, ok := px.Load(c, px.NewTypedName(px.NsConstructor, nm)); !ok {
						functional("declare", "the constructor %s was declared before the Do but is not bound inside it", nm)
					}
				}
				for _, nm := range fnames {
					if f, ok := px.Load(c, px.NewTypedName(px.NsFunction, nm)); !ok {
						functional("declare", "the function %s was declared before the Do but is not bound inside it", nm)
					} else if v := f.(px.Function).Call(c, nil, types.WrapInteger(7)); !v.Equals(types.WrapInteger(7), nil) {
						functional("declare", "the function %s answers %s", nm, v)
					}
				}
			}
			if r.intn(4) == 0 {
				guard("declare", "RootContext", func() { look(pcore.RootContext()) })
			} else {
				guard("declare", "Do", func() { pcore.Do(look) })
			}
		}
	})
	// afterwards: everything that was declared is resolved, once
	guard("declare", "Do", func() {
		pcore.Do(func(c px.Context) {
			all.Range(func(k, v interface{}) bool {
				if p := v.(*countingType); p != nil {
					if n := atomic.LoadInt32(&p.resolves); n != 1 {
						functional("declare", "%s has been resolved %d times in the end", p.name, n)
					}
				} else {
					checkType(c, k.(string))
				}
				return true
			})
		})
	})
}
