package main

import (
	"encoding/hex"
	"fmt"
	"math"
	"strings"

	"github.com/lyraproj/pcore/px"
	"github.com/lyraproj/pcore/types"
	"verifharness/lib"
)

// ---- values (mirrors `value` of coq/Model/Format.v) ----

// Val is a pcore value of one of the kinds the property quantifies over. Byte strings are carried
// hex-encoded (X) because JSON cannot carry arbitrary bytes; T is an informative %q text.
type Val struct {
	K  string `json:"k"`           // int float str bool undef default bin re arr hash
	I  int64  `json:"i,omitempty"` // int
	F  string `json:"f,omitempty"` // float: IEEE-754 bits, hex
	X  string `json:"x,omitempty"` // str / bin / re: bytes, hex
	T  string `json:"t,omitempty"` // informative only
	B  bool   `json:"b,omitempty"` // bool
	Es []Val  `json:"es,omitempty"`
	Ks []Val  `json:"ks,omitempty"` // hash keys (same length as Es)
	// ID is the identity of a container instance: containers carrying the same ID > 0 inside one value are
	// ONE implementation object occurring at several positions (aliasing); 0 = an object of its own;
	// idEmptyArray / idEmptyMap = the package-level singletons px.EmptyArray / px.EmptyMap.
	ID int `json:"id,omitempty"`
}

const (
	idEmptyArray = -1
	idEmptyMap   = -2
)

// shared marks a container as the instance `id`.
func (v Val) shared(id int) Val { v.ID = id; return v }

var vEmptyArray = Val{K: "arr", ID: idEmptyArray}
var vEmptyMap = Val{K: "hash", ID: idEmptyMap}

func vInt(i int64) Val { return Val{K: "int", I: i} }
func vFloat(f float64) Val {
	return Val{K: "float", F: fmt.Sprintf("%016x", math.Float64bits(f)), T: fmt.Sprint(f)}
}
func vStr(s string) Val   { return Val{K: "str", X: hex.EncodeToString([]byte(s)), T: fmt.Sprintf("%q", s)} }
func vBin(s string) Val   { return Val{K: "bin", X: hex.EncodeToString([]byte(s)), T: fmt.Sprintf("%q", s)} }
func vRe(s string) Val    { return Val{K: "re", X: hex.EncodeToString([]byte(s)), T: fmt.Sprintf("%q", s)} }
func vBool(b bool) Val    { return Val{K: "bool", B: b} }
func vArr(es ...Val) Val  { return Val{K: "arr", Es: es} }
func vHash(kv ...Val) Val {
	h := Val{K: "hash"}
	for i := 0; i+1 < len(kv); i += 2 {
		h.Ks = append(h.Ks, kv[i])
		h.Es = append(h.Es, kv[i+1])
	}
	return h
}

var vUndef = Val{K: "undef"}
var vDefault = Val{K: "default"}

func (v Val) bytes() string {
	b, err := hex.DecodeString(v.X)
	if err != nil {
		panic(err)
	}
	return string(b)
}

func (v Val) float() float64 {
	var bits uint64
	if _, err := fmt.Sscanf(v.F, "%x", &bits); err != nil {
		panic(err)
	}
	return math.Float64frombits(bits)
}

func (v Val) isContainer() bool { return v.K == "arr" || v.K == "hash" }

// px builds the implementation's value; containers with the same ID are built once (one instance).
func (v Val) px() px.Value { return v.pxm(map[int]px.Value{}) }

func (v Val) pxm(memo map[int]px.Value) px.Value {
	if v.isContainer() && v.ID != 0 {
		if pv, ok := memo[v.ID]; ok {
			return pv
		}
		var pv px.Value
		switch {
		case v.ID == idEmptyArray:
			pv = px.EmptyArray
		case v.ID == idEmptyMap:
			pv = px.EmptyMap
		default:
			w := v
			w.ID = 0
			pv = w.pxm(memo)
		}
		memo[v.ID] = pv
		return pv
	}
	switch v.K {
	case "int":
		return types.WrapInteger(v.I)
	case "float":
		return types.WrapFloat(v.float())
	case "str":
		return types.WrapString(v.bytes())
	case "bin":
		return types.WrapBinary([]byte(v.bytes()))
	case "re":
		return types.WrapRegexp(v.bytes())
	case "bool":
		return types.WrapBoolean(v.B)
	case "undef":
		return px.Undef
	case "default":
		return types.WrapDefault()
	case "arr":
		es := make([]px.Value, len(v.Es))
		for i, e := range v.Es {
			es[i] = e.pxm(memo)
		}
		return types.WrapValues(es)
	case "hash":
		es := make([]*types.HashEntry, len(v.Es))
		for i, e := range v.Es {
			es[i] = types.WrapHashEntry(v.Ks[i].pxm(memo), e.pxm(memo))
		}
		return types.WrapHash(es)
	}
	panic("bad value kind " + v.K)
}

// kindName is the name the implementation reports in the unsupported-format error (Type.Name()).
func (v Val) kindName() string {
	switch v.K {
	case "int":
		return "Integer"
	case "float":
		return "Float"
	case "str":
		return "String"
	case "bin":
		return "Binary"
	case "re":
		return "Regexp"
	case "bool":
		return "Boolean"
	case "undef":
		return "Undef"
	case "default":
		return "Default"
	case "arr":
		return "Array"
	case "hash":
		return "Hash"
	}
	panic("bad value kind " + v.K)
}

func (v Val) idMark() string {
	switch {
	case v.ID == idEmptyArray:
		return "@EmptyArray"
	case v.ID == idEmptyMap:
		return "@EmptyMap"
	case v.ID != 0:
		return fmt.Sprintf("@%d", v.ID)
	}
	return ""
}

// hasSharing: some container instance occurs at more than one position.
func (v Val) hasSharing() bool {
	seen := map[int]bool{}
	dup := false
	v.walk(func(x Val) {
		if x.isContainer() && x.ID != 0 {
			if seen[x.ID] {
				dup = true
			}
			seen[x.ID] = true
		}
	})
	return dup
}

func (v Val) String() string {
	switch v.K {
	case "int":
		return fmt.Sprint(v.I)
	case "float":
		return "float(" + v.T + ")"
	case "str":
		return v.T
	case "bin":
		return "Binary(" + v.T + ")"
	case "re":
		return "/" + v.T + "/"
	case "bool":
		return fmt.Sprint(v.B)
	case "undef", "default":
		return v.K
	case "arr":
		ss := make([]string, len(v.Es))
		for i, e := range v.Es {
			ss[i] = e.String()
		}
		return v.idMark() + "[" + strings.Join(ss, ", ") + "]"
	case "hash":
		ss := make([]string, len(v.Es))
		for i, e := range v.Es {
			ss[i] = v.Ks[i].String() + " => " + e.String()
		}
		return v.idMark() + "{" + strings.Join(ss, ", ") + "}"
	}
	return "?"
}

// lgallina: the value with its container identities (`lvalue` of coq/Model/FormatShare.v).
func (v Val) lgallina() string {
	id := "None"
	switch {
	case v.ID == idEmptyArray:
		id = "(Some 4000000001%N)"
	case v.ID == idEmptyMap:
		id = "(Some 4000000002%N)"
	case v.ID != 0:
		id = fmt.Sprintf("(Some %d%%N)", v.ID)
	}
	switch v.K {
	case "arr":
		es := make([]string, len(v.Es))
		for i, e := range v.Es {
			es[i] = "(" + e.lgallina() + ")"
		}
		return "LArr " + id + " " + lib.GList(es, "lvalue")
	case "hash":
		es := make([]string, len(v.Es))
		for i, e := range v.Es {
			es[i] = "((" + v.Ks[i].lgallina() + "), (" + e.lgallina() + "))"
		}
		return "LHash " + id + " " + lib.GList(es, "lvalue * lvalue")
	}
	return "LTree (" + v.gallina() + ")"
}

func (v Val) gallina() string {
	switch v.K {
	case "int":
		return "VInt " + lib.GZ(v.I)
	case "float":
		var bits uint64
		_, _ = fmt.Sscanf(v.F, "%x", &bits)
		return fmt.Sprintf("VFloat (%d)%%Z", bits)
	case "str":
		return "VStr " + lib.GStr(v.bytes())
	case "bin":
		return "VBinary " + lib.GStr(v.bytes())
	case "re":
		return "VRegexp " + lib.GStr(v.bytes())
	case "bool":
		return "VBool " + lib.GBool(v.B)
	case "undef":
		return "VUndef"
	case "default":
		return "VDefault"
	case "arr":
		es := make([]string, len(v.Es))
		for i, e := range v.Es {
			es[i] = "(" + e.gallina() + ")"
		}
		return "VArr " + lib.GList(es, "value")
	case "hash":
		es := make([]string, len(v.Es))
		for i, e := range v.Es {
			es[i] = "((" + v.Ks[i].gallina() + "), (" + e.gallina() + "))"
		}
		return "VHash " + lib.GList(es, "value * value")
	}
	panic("bad value kind " + v.K)
}

// walk visits v and all nested values.
func (v Val) walk(f func(Val)) {
	f(v)
	for _, k := range v.Ks {
		k.walk(f)
	}
	for _, e := range v.Es {
		e.walk(f)
	}
}

// ---- format specifications (mirrors `fspec`) ----

// MapEnt is one entry of a per-type format map: key type name => directive string or format hash.
type MapEnt struct {
	Key  string   `json:"key"`
	Str  *string  `json:"str,omitempty"`  // hex of the directive
	Hash *FmtHash `json:"hash,omitempty"` // {format, separator, separator2, string_formats}
}

type FmtHash struct {
	Format string   `json:"format"` // hex
	Sep    *string  `json:"sep,omitempty"`
	Sep2   *string  `json:"sep2,omitempty"`
	SF     []MapEnt `json:"sf,omitempty"`
	HasSF  bool     `json:"has_sf,omitempty"`
}

// Spec is the second argument of px.NewFormatContext3 / String.new.
type Spec struct {
	Kind string   `json:"kind"`          // default | str | map
	Str  string   `json:"str,omitempty"` // hex of the directive
	T    string   `json:"t,omitempty"`   // informative
	Map  []MapEnt `json:"map,omitempty"`
}

func sStr(d string) Spec { return Spec{Kind: "str", Str: hex.EncodeToString([]byte(d)), T: fmt.Sprintf("%q", d)} }

func unhex(s string) string {
	b, err := hex.DecodeString(s)
	if err != nil {
		panic(err)
	}
	return string(b)
}

func hx(s string) string { return hex.EncodeToString([]byte(s)) }

func (s Spec) directive() string { return unhex(s.Str) }

// key type names usable in per-type format maps, in the order of `tkey` in Format.v
var keyTypes = []string{"Any", "Scalar", "ScalarData", "Numeric", "Integer", "Float", "String", "Boolean", "Undef", "Default",
	"Regexp", "Binary", "Collection", "Array", "Hash", "Object", "Type"}

func keyType(name string) px.Type {
	switch name {
	case "Any":
		return types.DefaultAnyType()
	case "Scalar":
		return types.DefaultScalarType()
	case "ScalarData":
		return types.DefaultScalarDataType()
	case "Numeric":
		return types.DefaultNumericType()
	case "Integer":
		return types.DefaultIntegerType()
	case "Float":
		return types.DefaultFloatType()
	case "String":
		return types.DefaultStringType()
	case "Boolean":
		return types.DefaultBooleanType()
	case "Undef":
		return types.DefaultUndefType()
	case "Default":
		return types.DefaultDefaultType()
	case "Regexp":
		return types.DefaultRegexpType()
	case "Binary":
		return types.DefaultBinaryType()
	case "Collection":
		return types.DefaultCollectionType()
	case "Array":
		return types.DefaultArrayType()
	case "Hash":
		return types.DefaultHashType()
	case "Object":
		return types.DefaultObjectType()
	case "Type":
		return types.DefaultTypeType()
	}
	panic("bad key type " + name)
}

func mapPx(m []MapEnt) px.Value {
	es := make([]*types.HashEntry, len(m))
	for i, e := range m {
		var v px.Value
		if e.Str != nil {
			v = types.WrapString(unhex(*e.Str))
		} else {
			hs := []*types.HashEntry{types.WrapHashEntry2("format", types.WrapString(unhex(e.Hash.Format)))}
			if e.Hash.Sep != nil {
				hs = append(hs, types.WrapHashEntry2("separator", types.WrapString(unhex(*e.Hash.Sep))))
			}
			if e.Hash.Sep2 != nil {
				hs = append(hs, types.WrapHashEntry2("separator2", types.WrapString(unhex(*e.Hash.Sep2))))
			}
			if e.Hash.HasSF {
				hs = append(hs, types.WrapHashEntry2("string_formats", mapPx(e.Hash.SF)))
			}
			v = types.WrapHash(hs)
		}
		es[i] = types.WrapHashEntry(keyType(e.Key), v)
	}
	return types.WrapHash(es)
}

func (s Spec) px() px.Value {
	switch s.Kind {
	case "default":
		return types.WrapDefault()
	case "str":
		return types.WrapString(s.directive())
	case "map":
		return mapPx(s.Map)
	}
	panic("bad spec kind " + s.Kind)
}

func gOptStr(p *string) string {
	if p == nil {
		return "(@None str)"
	}
	return "(Some " + lib.GStr(unhex(*p)) + ")"
}

func mapGallina(m []MapEnt) string {
	es := make([]string, len(m))
	for i, e := range m {
		var v string
		if e.Str != nil {
			v = "FEStr " + lib.GStr(unhex(*e.Str))
		} else {
			sf := "(@None (list (tkey * fent)))"
			if e.Hash.HasSF {
				sf = "(Some " + mapGallina(e.Hash.SF) + ")"
			}
			v = "FEHash " + lib.GStr(unhex(e.Hash.Format)) + " " + gOptStr(e.Hash.Sep) + " " + gOptStr(e.Hash.Sep2) + " " + sf
		}
		es[i] = "(K" + e.Key + ", " + v + ")"
	}
	return lib.GList(es, "tkey * fent")
}

func (s Spec) gallina() string {
	switch s.Kind {
	case "default":
		return "FDefault"
	case "str":
		return "FStr " + lib.GStr(s.directive())
	case "map":
		return "FMap " + mapGallina(s.Map)
	}
	panic("bad spec kind " + s.Kind)
}

func (s Spec) String() string {
	switch s.Kind {
	case "default":
		return "default"
	case "str":
		return fmt.Sprintf("%q", s.directive())
	}
	var b strings.Builder
	var wr func(m []MapEnt)
	wr = func(m []MapEnt) {
		b.WriteString("{")
		for i, e := range m {
			if i > 0 {
				b.WriteString(", ")
			}
			b.WriteString(e.Key + " => ")
			if e.Str != nil {
				fmt.Fprintf(&b, "%q", unhex(*e.Str))
			} else {
				fmt.Fprintf(&b, "{format => %q", unhex(e.Hash.Format))
				if e.Hash.Sep != nil {
					fmt.Fprintf(&b, ", separator => %q", unhex(*e.Hash.Sep))
				}
				if e.Hash.Sep2 != nil {
					fmt.Fprintf(&b, ", separator2 => %q", unhex(*e.Hash.Sep2))
				}
				if e.Hash.HasSF {
					b.WriteString(", string_formats => ")
					wr(e.Hash.SF)
				}
				b.WriteString("}")
			}
		}
		b.WriteString("}")
	}
	wr(s.Map)
	return b.String()
}
