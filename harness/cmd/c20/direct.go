package main

import (
	"encoding/base64"
	"errors"
	"fmt"
	"math"
	"strconv"
	"strings"
	"unicode/utf8"

	"github.com/lyraproj/pcore/px"
	"github.com/lyraproj/pcore/types"
)

// The direct check D: the property evaluated as stated on the implementation's observed outputs.
// Clauses (Violation.Clause):
//   grammar          a directive of the documented grammar is accepted, anything else is rejected
//                    with the documented error class
//   total            formatting returns text or a reported error; no runtime fault, no foreign panic
//   unsupported-iff  the unsupported-format error is raised exactly when the letter is outside the
//                    documented set of the value's kind (and names that letter, kind and set)
//   numeric          d x X o b B / e E f (a A) agree with the reference rendering = Go's fmt given
//                    the same C-printf flags, width and precision; g/G: sign, value, padding shape
//   width            text is at least as wide as requested, padding on the side the '-' flag names
//   radix            the rendering in radix 2/8/10/16 converts back through Integer.new(s, radix)
//   container        delimiters, separators and the elements' renderings (each under the element
//                    format the container format supplies), recursively

type finding struct {
	clause string
	what   string
	tags   []string
}

func runeLen(s string) int { return utf8.RuneCountInString(s) }

// intOf is the integer the numeric directives d x X o b B render for this value, ok=false when the
// conversion is not defined by the language (NaN, infinities, out of the int64 range).
func intOf(v Val) (int64, bool) {
	switch v.K {
	case "int":
		return v.I, true
	case "bool":
		if v.B {
			return 1, true
		}
		return 0, true
	case "float":
		f := v.float()
		if math.IsNaN(f) || math.IsInf(f, 0) || f >= 9.3e18 || f <= -9.3e18 {
			return 0, false
		}
		return int64(f), true
	}
	return 0, false
}

func floatOf(v Val) (float64, bool) {
	switch v.K {
	case "int":
		return float64(v.I), true
	case "bool":
		if v.B {
			return 1, true
		}
		return 0, true
	case "float":
		return v.float(), true
	}
	return 0, false
}

// refNumeric: the reference rendering of a numeric directive (ok=false: no exact reference).
// conv supplies the integer of a float whose conversion the language does not define (NaN, infinities,
// magnitudes outside int64): the integer the implementation itself shows for the value under plain %d.
// The reference is then Go's fmt applied to THAT integer: sign, prefix, zero and space padding, width
// and precision are demanded exactly as for every other integer (fmt does not count the '#' prefix in
// a zero-padded width: "%0#30x" of MinInt64 is "-0x" + 29 digits, 32 wide).
func refNumeric(v Val, d Directive, conv func() (int64, bool)) (string, bool) {
	intOfV := func() (int64, bool) {
		if n, ok := intOf(v); ok {
			return n, true
		}
		if v.K == "float" && conv != nil {
			return conv()
		}
		return 0, false
	}
	switch d.Letter {
	case 'd', 'x', 'X', 'o', 'b':
		n, ok := intOfV()
		if !ok {
			return "", false
		}
		return fmt.Sprintf(d.goDirective(d.Letter), n), true
	case 'B':
		n, ok := intOfV()
		if !ok {
			return "", false
		}
		s := fmt.Sprintf(d.goDirective('b'), n)
		if d.has('#') {
			s = strings.Replace(s, "0b", "0B", 1)
		}
		return s, true
	case 'e', 'E', 'f':
		f, ok := floatOf(v)
		if !ok {
			return "", false
		}
		return fmt.Sprintf(d.goDirective(d.Letter), f), true
	case 'a', 'A':
		// C's %a is Go's %x on a float (hexadecimal mantissa, binary exponent)
		f, ok := floatOf(v)
		if !ok {
			return "", false
		}
		verb := byte('x')
		if d.Letter == 'A' {
			verb = 'X'
		}
		return fmt.Sprintf(d.goDirective(verb), f), true
	}
	return "", false
}

func numericKind(v Val) bool { return v.K == "int" || v.K == "float" || v.K == "bool" }

// checkG: shape of a %g / %G rendering: no fmt garbage, the sign the flags ask for, zero padding
// after the sign only, and the digits denote the value at the requested precision.
func checkG(v Val, d Directive, out string) string {
	f, _ := floatOf(v)
	body := strings.Trim(out, " ")
	if strings.Contains(out, "%!") {
		return "rendering contains fmt's bad-directive marker"
	}
	if math.IsNaN(f) || math.IsInf(f, 0) {
		if !strings.Contains(body, "NaN") && !strings.Contains(body, "Inf") {
			return "NaN/Inf not rendered as such"
		}
		return ""
	}
	neg := math.Signbit(f)
	switch {
	case neg && !strings.HasPrefix(body, "-"):
		return "negative value rendered without leading '-'"
	case !neg && d.has('+') && !strings.HasPrefix(body, "+"):
		return "'+' flag: non-negative value rendered without leading '+'"
	case !neg && !d.has('+') && d.has(' ') && !strings.HasPrefix(out, " "):
		return "' ' flag: non-negative value rendered without leading space"
	case !neg && !d.has('+') && (strings.HasPrefix(body, "+") || strings.HasPrefix(body, "-")):
		return "sign not asked for"
	}
	got, err := strconv.ParseFloat(body, 64)
	if err != nil && !errors.Is(err, strconv.ErrRange) { // "2e+308" (MaxFloat64 at one digit) reads back as +Inf, like the reference
		return "rendering does not read back as a number (" + err.Error() + ")"
	}
	ok := false
	precs := []int{-1, 6}
	if d.Prec >= 0 {
		p := d.Prec
		if p == 0 {
			p = 1
		}
		precs = []int{p}
	}
	for _, p := range precs {
		want, _ := strconv.ParseFloat(strconv.FormatFloat(f, 'g', p, 64), 64)
		if want == got {
			ok = true
		}
	}
	if !ok {
		return fmt.Sprintf("digits denote %v, not the value at the requested precision", got)
	}
	return ""
}

// checkWidth: rendering with width W = rendering without width, padded to W runes on the side named
// by the '-' flag (natural is the implementation's own rendering of the directive without width).
func checkWidth(d Directive, out, natural string, padChars string) string {
	if d.Width < 0 {
		return ""
	}
	if runeLen(out) < d.Width {
		return fmt.Sprintf("text is %d wide, narrower than the requested %d", runeLen(out), d.Width)
	}
	if runeLen(natural) >= d.Width {
		if out != natural {
			return "text already as wide as requested is changed by the width"
		}
		return ""
	}
	if runeLen(out) != d.Width {
		return fmt.Sprintf("text padded to %d, not to the requested %d", runeLen(out), d.Width)
	}
	n := d.Width - runeLen(natural)
	if d.has('-') {
		if out != natural+strings.Repeat(" ", n) {
			return "'-' flag: padding is not on the right"
		}
		return ""
	}
	for _, pc := range padChars {
		if out == strings.Repeat(string(pc), n)+natural {
			return ""
		}
		// zero padding of a number goes between the sign and the digits, as in C printf
		if pc == '0' && natural != "" && strings.IndexByte("+- ", natural[0]) >= 0 && out == natural[:1]+strings.Repeat("0", n)+natural[1:] {
			return ""
		}
	}
	return "padding is not on the left"
}

func withoutWidth(d Directive) Directive {
	d2 := d
	d2.Width = -1
	return d2
}

// checkScalar evaluates the clauses on one scalar value rendered under one directive string.
// render re-runs the implementation on the same value with another directive (metamorphic part).
func checkScalar(v Val, ds string, o Obs, render func(ds string) Obs) []finding {
	var renderNeg func(ds string) Obs
	if v.K == "float" {
		renderNeg = func(ds2 string) Obs { return formatCase(vFloat(-v.float()), sStr(ds2)) }
	}
	var fs []finding
	add := func(clause, what string, tags ...string) {
		fs = append(fs, finding{clause, what, tags})
	}
	d, cls := refParse(ds)
	if cls != "" {
		if !classMatches(cls, o.Err) {
			add("grammar", fmt.Sprintf("directive %q is outside the grammar (%s) but formatting gives %s", ds, cls, o), "grammar-"+cls)
		}
		return fs
	}
	if o.Err == "invalid-spec" || o.Err == "repeated-flag" || o.Err == "delimiter" {
		add("grammar", fmt.Sprintf("directive %q of the documented grammar is rejected: %s", ds, o), "grammar-rejected")
		return fs
	}
	kind := v.kindName()
	// total
	if o.Err == "fault" || o.Err == "other" {
		add("total", fmt.Sprintf("%s under %q: %s", v, ds, o), "fault")
		return fs
	}
	if o.Err == "failure" {
		if !(v.K == "bin" && d.Letter == 's' && !utf8.ValidString(v.bytes())) {
			add("total", fmt.Sprintf("%s under %q: %s", v, ds, o), "failure")
		}
		return fs
	}
	// unsupported-iff
	want := !inDocSet(kind, d.Letter)
	if (o.Err == "unsupported") != want {
		tags := []string{"unsupported-" + kind + "-" + string(d.Letter)}
		if want {
			add("unsupported-iff", fmt.Sprintf("%q is outside the documented set %q of %s but %s formats as %s", d.Letter, docSet[kind], kind, v, o), tags...)
		} else {
			add("unsupported-iff", fmt.Sprintf("%q is in the documented set %q of %s but %s under %q gives %s", d.Letter, docSet[kind], kind, v, ds, o), tags...)
		}
		return fs
	}
	if o.Err == "unsupported" {
		if o.Letter != d.Letter || o.Type != kind || o.Set != docSet[kind] {
			add("unsupported-iff", fmt.Sprintf("%s under %q: the error names (%q, %s, %q), expected (%q, %s, %q)", v, ds, o.Letter, o.Type, o.Set,
				d.Letter, kind, docSet[kind]), "unsupported-report")
		}
		return fs
	}
	out := o.Text
	// numeric
	if numericKind(v) {
		conv := func() (int64, bool) {
			if render == nil {
				return 0, false
			}
			o2 := render("%d")
			if o2.Err != "" {
				return 0, false
			}
			n, err := strconv.ParseInt(o2.Text, 10, 64)
			return n, err == nil
		}
		if want, ok := refNumeric(v, d, conv); ok {
			if out != want {
				add("numeric", fmt.Sprintf("%s under %q renders %q, the reference rendering (fmt %q) is %q", v, ds, out, d.goDirective(d.Letter), want),
					"numeric-"+string(d.Letter), numericTag(v, d, out, want))
			}
			return fs
		}
		if d.Letter == 'g' || d.Letter == 'G' {
			if msg := checkG(v, d, out); msg != "" {
				add("numeric", fmt.Sprintf("%s under %q renders %q: %s", v, ds, out, msg), "numeric-g")
				return fs
			}
			// sign symmetry: without width and sign flags, -x renders as "-" followed by the rendering of x
			if f, _ := floatOf(v); v.K == "float" && f > 0 && !math.IsInf(f, 0) && d.Width < 0 && !d.has('+') && !d.has(' ') && renderNeg != nil {
				if neg := renderNeg(ds); neg.Err != "" || neg.Text != "-"+out {
					add("numeric", fmt.Sprintf("%s under %q renders %q but its negation renders %s: the sign changes the digits", v, ds, out, neg), "numeric-g-sign")
					return fs
				}
			}
		}
	}
	// Binary: the text chosen by the letter (Puppet specification: b = base64 with a trailing line feed, B = strict
	// base64, u = url-safe base64, s = the bytes, p = Binary('base64'), t/T = the type name), unquoted and unpadded
	if v.K == "bin" && d.Width < 0 && d.Prec < 0 && !d.has('#') {
		raw := []byte(v.bytes())
		std := base64.StdEncoding.EncodeToString(raw)
		want := map[byte]string{'b': std + "\n", 'B': std, 'u': base64.URLEncoding.EncodeToString(raw), 's': string(raw),
			'p': "Binary('" + std + "')", 't': "Binary", 'T': "BINARY"}[d.Letter]
		if out != want {
			add("numeric", fmt.Sprintf("%s under %q renders %q, the reference text is %q", v, ds, out, want), "binary-"+string(d.Letter))
			return fs
		}
	}
	if strings.Contains(out, "%!") && !strings.Contains(v.String(), "%!") {
		add("numeric", fmt.Sprintf("%s under %q renders %q: fmt's bad-directive marker", v, ds, out), "fmt-garbage")
		return fs
	}
	// width and padding side (text)
	if d.Width >= 0 {
		nat := render(withoutWidth(d).String())
		if nat.Err != "" {
			add("width", fmt.Sprintf("%s under %q renders but without the width gives %s", v, ds, nat), "width-natural")
			return fs
		}
		pads := " "
		if d.has('0') && !d.has('-') {
			pads = " 0"
		}
		if msg := checkWidth(d, out, nat.Text, pads); msg != "" {
			add("width", fmt.Sprintf("%s under %q renders %q (without width: %q): %s", v, ds, out, nat.Text, msg), "width-"+kind+"-"+string(d.Letter))
		}
	}
	return fs
}

// numericTag classifies a numeric disagreement (used by known-finding matchers only).
func numericTag(v Val, d Directive, out, want string) string {
	switch {
	case strings.Contains(out, "%!"):
		return "numeric-fmt-garbage"
	case strings.TrimSpace(out) == strings.TrimSpace(want):
		return "numeric-padding"
	}
	return "numeric-digits"
}

// ---- containers ----

var delimPairs = map[byte][2]string{'[': {"[", "]"}, '{': {"{", "}"}, '(': {"(", ")"}, '<': {"<", ">"}, '|': {"|", "|"}, ' ': {"", ""}}

func stripWS(s string) string {
	return strings.Map(func(r rune) rune {
		if r == ' ' || r == '\n' {
			return -1
		}
		return r
	}, s)
}

func isContainerPx(v px.Value) bool {
	switch v.(type) {
	case *types.Array, *types.Hash:
		return true
	}
	return false
}

// renderPx runs the implementation's ToString under a context, classifying panics.
func renderPx(v px.Value, ctx px.FormatContext) (o Obs) {
	defer func() {
		if r := recover(); r != nil {
			o = classify(r)
		}
	}()
	return Obs{Text: px.ToString2(v, ctx)}
}

// checkEntries: a Hash under %a. The text must be what the array of the hash's entries renders to:
// delimiters and separator of the format the context holds for that array, and each entry rendered
// (as the array [key, value]) under the element formats - an entry is not a container of its own
// (arraytype.go:756), so it never takes the context's own map.
func checkEntries(v Val, hv *types.Hash, ctx px.FormatContext, o Obs, depth int, fs *[]finding) {
	add := func(clause, what string, tags ...string) {
		*fs = append(*fs, finding{clause, what, tags})
	}
	var entries []px.Value
	hv.EachPair(func(k, e px.Value) { entries = append(entries, types.WrapValues([]px.Value{k, e})) })
	av := types.WrapValues(entries)
	f := px.GetFormat(ctx.FormatMap(), av.PType())
	c := f.FormatChar()
	if !inDocSet("Array", c) {
		if o.Err != "unsupported" || o.Letter != c || o.Type != "Array" {
			add("unsupported-iff", fmt.Sprintf("%s as the array of its entries: %q is outside the documented set of Array but it formats as %s", v, c, o), "unsupported-Array-"+string(c))
		}
		return
	}
	cf := f.ContainerFormats()
	if cf == nil {
		cf = types.DefaultContainerFormats
	}
	ind := ctx.Indentation()
	ind = ind.Indenting(f.IsAlt() || ind.IsIndenting())
	childInd := ind.Increase(f.IsAlt()).Subsequent()
	cc := px.NewFormatContext2(childInd, cf, ctx.Properties())
	texts := make([]string, len(entries))
	childErr := false
	for i, e := range entries {
		co := renderPx(e, cc)
		if depth < 6 {
			checkTree(v.Es[i], e, cc, co, depth+1, fs)
		}
		if co.Err != "" {
			childErr = true
		}
		texts[i] = co.Text
	}
	if childErr {
		if o.Err == "" {
			add("container", fmt.Sprintf("%s (hash under %%a) renders as %s although an entry cannot be formatted", v, o), "container-child-error")
		}
		return
	}
	if o.Err != "" {
		add("unsupported-iff", fmt.Sprintf("%s (hash under %%a): %s although every entry formats", v, o), "unsupported-Hash-a")
		return
	}
	ld := f.LeftDelimiter()
	if ld == 0 {
		ld = '['
	}
	dp, ok := delimPairs[ld]
	if !ok {
		add("container", fmt.Sprintf("unknown delimiter %q", ld), "container-delimiter")
		return
	}
	flat := dp[0] + strings.Join(texts, f.Separator(",")+" ") + dp[1]
	if !f.IsAlt() && !ctx.Indentation().IsIndenting() {
		if o.Text != flat {
			add("container", fmt.Sprintf("%s (hash under %%a) renders %q, expected %q (the array of its entries: delimiters %q %q, entries %q)", v, o.Text, flat, dp[0], dp[1], texts),
				"container-flat", "container-hash-a")
		}
	} else if stripWS(o.Text) != stripWS(flat) {
		add("container", fmt.Sprintf("%s (hash under %%a) renders %q, which is not %q up to layout white space", v, o.Text, flat), "container-indented", "container-hash-a")
	}
}

// checkTree evaluates the container clause on value v rendered as `out` under ctx, recursively:
// the text must be left delimiter, the elements' own renderings (under the context the container
// format supplies) joined by the separator, right delimiter; exactly for flat formats, modulo
// layout white space for the alternate (indented) ones. Scalars met on the way are checked with
// checkScalar under the directive text of the format chosen for them.
func checkTree(v Val, pv px.Value, ctx px.FormatContext, o Obs, depth int, fs *[]finding) {
	add := func(clause, what string, tags ...string) {
		*fs = append(*fs, finding{clause, what, tags})
	}
	f := px.GetFormat(ctx.FormatMap(), pv.PType())
	if !v.isContainer() {
		ds := f.OrigFormat()
		sub := checkScalar(v, ds, o, func(ds2 string) (o2 Obs) {
			defer func() {
				if r := recover(); r != nil {
					o2 = classify(r)
				}
			}()
			// keyed by Any: the re-rendering must apply ds2 whatever the value's own type accepts
			return renderPx(pv, px.NewFormatContext(types.DefaultAnyType(), px.NewFormat(ds2), ctx.Indentation()))
		})
		*fs = append(*fs, sub...)
		return
	}
	kind := v.kindName()
	c := f.FormatChar()
	if o.Err == "fault" || o.Err == "other" {
		add("total", fmt.Sprintf("%s: %s", v, o), "fault")
		return
	}
	wantErr := !inDocSet(kind, c)
	if wantErr {
		if o.Err != "unsupported" {
			add("unsupported-iff", fmt.Sprintf("%q is outside the documented set %q of %s but %s formats as %s", c, docSet[kind], kind, v, o),
				"unsupported-"+kind+"-"+string(c))
		} else if o.Letter != c || o.Type != kind || o.Set != docSet[kind] {
			add("unsupported-iff", fmt.Sprintf("%s: the error names (%q, %s, %q), expected (%q, %s, %q)", v, o.Letter, o.Type, o.Set, c, kind, docSet[kind]),
				"unsupported-report")
		}
		return
	}
	if v.K == "hash" && c == 'a' {
		// rendered as the array of its entries, each entry the array [key, value] (hashtype.go:1271, :593):
		// the text must be the rendering of that array under the same context; its elements, the entries,
		// are rendered under the element formats, and what they hold recursively
		es := make([]Val, len(v.Es))
		for i := range v.Es {
			es[i] = vArr(v.Ks[i], v.Es[i])
		}
		checkEntries(vArr(es...), pv.(*types.Hash), ctx, o, depth, fs)
		return
	}
	// children
	cf := f.ContainerFormats()
	if cf == nil {
		cf = types.DefaultContainerFormats
	}
	ind := ctx.Indentation()
	ind = ind.Indenting(f.IsAlt() || ind.IsIndenting())
	childInd := ind.Increase(f.IsAlt())
	if v.K == "arr" {
		childInd = childInd.Subsequent()
	}
	childCtx := func(child px.Value) px.FormatContext {
		if isContainerPx(child) {
			return px.NewFormatContext2(childInd, ctx.FormatMap(), ctx.Properties())
		}
		return px.NewFormatContext2(childInd, cf, ctx.Properties())
	}
	var kids []Val
	var pkids []px.Value
	if v.K == "arr" {
		kids = v.Es
		pv.(*types.Array).Each(func(e px.Value) { pkids = append(pkids, e) })
	} else {
		pv.(*types.Hash).EachPair(func(k, e px.Value) { pkids = append(pkids, k, e) })
		for i := range v.Es {
			kids = append(kids, v.Ks[i], v.Es[i])
		}
	}
	texts := make([]string, len(kids))
	childErr := false
	for i := range kids {
		cc := childCtx(pkids[i])
		co := renderPx(pkids[i], cc)
		if depth < 6 {
			checkTree(kids[i], pkids[i], cc, co, depth+1, fs)
		}
		if co.Err != "" {
			childErr = true
		}
		texts[i] = co.Text
	}
	if childErr {
		if o.Err == "" {
			add("container", fmt.Sprintf("%s renders as %s although an element cannot be formatted", v, o), "container-child-error")
		}
		return
	}
	if o.Err != "" {
		add("unsupported-iff", fmt.Sprintf("%s: %s although %q is in the documented set of %s and every element formats", v, o, c, kind),
			"unsupported-"+kind+"-"+string(c))
		return
	}
	// expected text
	ld := f.LeftDelimiter()
	dflt := byte('[')
	if v.K == "hash" {
		dflt = '{'
	}
	if ld == 0 {
		ld = dflt
	}
	dp, ok := delimPairs[ld]
	if !ok {
		add("container", fmt.Sprintf("unknown delimiter %q", ld), "container-delimiter")
		return
	}
	sep := f.Separator(",")
	var parts []string
	if v.K == "arr" {
		parts = texts
	} else {
		sep2 := f.Separator2(" => ")
		for i := 0; i+1 < len(texts); i += 2 {
			parts = append(parts, texts[i]+sep2+texts[i+1])
		}
	}
	flat := dp[0] + strings.Join(parts, sep+" ") + dp[1]
	layoutFree := !f.IsAlt() && !ctx.Indentation().IsIndenting()
	if layoutFree {
		if o.Text != flat {
			add("container", fmt.Sprintf("%s renders %q, expected %q (delimiters %q %q, separator %q, elements %q)", v, o.Text, flat, dp[0], dp[1], sep, texts),
				"container-flat")
		}
	} else if stripWS(o.Text) != stripWS(flat) {
		add("container", fmt.Sprintf("%s renders %q, which is not %q up to layout white space", v, o.Text, flat), "container-indented")
	}
}
