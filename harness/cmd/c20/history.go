package main

import (
	"fmt"
	"math"

	"github.com/lyraproj/pcore/px"
	"verifharness/lib"
)

func lib_Violation(clause, what string, in interface{}, tag string) lib.Violation {
	return lib.Violation{Clause: clause, What: what, Input: in, Tags: []string{tag}}
}

// The history check (clause "history"): the text of a value under a format is determined by the
// value and the format - "for every value and every directive ... agrees with the reference
// rendering" leaves no room for what was rendered before. A session builds ONE context from a
// specification and reuses it: every value is rendered in order, then every value once more; each
// second text must equal the first (a rendering in between - of another value, with the same format
// objects - must not change it), and must equal the text under a context built afresh from the same
// specification. Sessions run before every other family, so the package-level format objects
// (DefaultFormats, DefaultContainerFormats, the %p / %s formats of floats) are as the library made them.
//
// Only "default" and "map" specifications are used: their context does not depend on the value
// (types/format.go:199-206); a directive ds for one kind is given as the map {Kind => ds}.

type hcase struct {
	Kind string `json:"kind"` // "history"
	S    Spec   `json:"spec"`
	Vs   []Val  `json:"values"`
}

func obsEq(a, b Obs) bool {
	return a.Err == b.Err && a.Text == b.Text && a.Letter == b.Letter && a.Type == b.Type
}

// session runs one history case; returns the first and second round observations.
func (r *runner) session(c hcase, family string, toCoq bool) (first, second []Obs) {
	r.res.Count("family." + family)
	ps := c.S.px()
	pvs := make([]px.Value, len(c.Vs))
	for i, v := range c.Vs {
		pvs[i] = v.px()
	}
	ctx, err := safeContext(pvs[0], ps)
	if err != nil {
		// a specification outside the grammar: the grammar clause of the other families judges it
		r.res.Count("history.no-context")
		return nil, nil
	}
	first = make([]Obs, len(pvs))
	second = make([]Obs, len(pvs))
	for i, pv := range pvs {
		first[i] = renderPx(pv, ctx)
	}
	for i, pv := range pvs {
		second[i] = renderPx(pv, ctx)
	}
	r.res.Evaluations += 3 * len(pvs)
	r.res.Nontrivial("history " + c.S.String() + " @ " + fmt.Sprint(c.Vs))
	fresh, _ := safeContext(pvs[0], ps)
	for i, pv := range pvs {
		third := second[i]
		if fresh != nil {
			third = renderPx(pv, fresh)
		}
		var what, tag string
		switch {
		case !obsEq(first[i], second[i]):
			tag = "history-same-context"
			what = fmt.Sprintf("%s under %s renders %s, and %s after %s were rendered with the same context", c.Vs[i], c.S, first[i], second[i], c.Vs)
		case !obsEq(first[i], third):
			tag = "history-fresh-context"
			what = fmt.Sprintf("%s under %s renders %s with a context that has rendered %s, and %s with a context built afresh from the same specification",
				c.Vs[i], c.S, first[i], c.Vs, third)
		default:
			continue
		}
		// a two-value session that shows the same (context-level state; state in package-level objects
		// cannot be re-run in this process, the whole session is the input then)
		in := c
		for j := range pvs {
			if j == i {
				continue
			}
			if ctx2, err := safeContext(pvs[0], ps); err == nil {
				a := renderPx(pvs[i], ctx2)
				renderPx(pvs[j], ctx2)
				if b := renderPx(pvs[i], ctx2); !obsEq(a, b) {
					in = hcase{Kind: "history", S: c.S, Vs: []Val{c.Vs[i], c.Vs[j]}}
					what = fmt.Sprintf("%s under %s renders %s, and %s after %s was rendered with the same context", c.Vs[i], c.S, a, b, c.Vs[j])
					break
				}
			}
		}
		r.tagCount["history/"+tag]++
		if verbose && r.tagCount["history/"+tag] <= 2 {
			fmt.Printf("[history/%s] %s\n", tag, what)
		}
		r.res.Violate(lib_Violation("history", what, in, tag))
		toCoq = true
		break
	}
	if toCoq {
		// the model is a function of (value, specification): the texts after the history are tied to it
		for i, v := range c.Vs {
			r.em.add(v, c.S, second[i])
		}
	}
	return first, second
}

func kindSpec(kind, ds string) Spec {
	d := hx(ds)
	return Spec{Kind: "map", Map: []MapEnt{{Key: kind, Str: &d}}}
}

// historyFamilies: bounded-exhaustive part - per kind, every letter of the documented set x flags x
// precisions, with sessions (B, A, B') where A runs through the values that take the special paths of
// their ToString (integral floats of every digit count: the forced scientific form of %g) - and a
// seeded random part over per-type maps and nested values.
func (r *runner) historyFamilies() {
	thorough := r.cfg.Thorough()
	floatsA := []float64{1, 12, 123, 1234, 12345, 123456, 1234567, 12345678, 100000, 999999, 1e6, 1e15, 1e21, -5, 255, 0, 0.5, 1e-7,
		math.Inf(1), math.NaN(), math.MaxFloat64, -123456, 3}
	intsA := []int64{0, 5, -5, 123, 123456, 1234567, math.MinInt64, math.MaxInt64, 255, 0x1F600}
	n := 0
	coq := func() bool { n++; return n%797 == 0 }
	// numbers under numeric directives keyed by Float / Integer / Numeric / Any
	for _, key := range []string{"Float", "Integer", "Numeric", "Any"} {
		for _, l := range "gGeEfspdxaob" {
			for _, fl := range []string{"", "#", "+", "0", "-", "#0"} {
				for _, w := range []int{-1, 12} {
					for _, p := range []int{-1, 0, 1, 2, 3, 4, 5, 6, 7, 8} {
						if !thorough && (fl != "" && fl != "#") && p > 3 {
							continue
						}
						ds := Directive{Flags: fl, Width: w, Prec: p, Letter: byte(l)}.String()
						s := kindSpec(key, ds)
						if key != "Integer" {
							for ai, a := range floatsA {
								if !thorough && (ai+n)%3 != 0 {
									n++
									continue
								}
								r.session(hcase{Kind: "history", S: s, Vs: []Val{vFloat(1.5), vFloat(a), vFloat(-0.00225)}}, "history", coq())
							}
						}
						if key != "Float" {
							for ai, a := range intsA {
								if !thorough && (ai+n)%3 != 0 {
									n++
									continue
								}
								r.session(hcase{Kind: "history", S: s, Vs: []Val{vInt(42), vInt(a), vInt(-7)}}, "history", coq())
							}
						}
					}
				}
			}
		}
	}
	// the default context and containers (the package-level formats): B, [A], B, {k => A}
	dflt := Spec{Kind: "default"}
	for _, a := range floatsA {
		r.session(hcase{Kind: "history", S: dflt, Vs: []Val{vArr(vFloat(1.5)), vFloat(2.5), vArr(vFloat(a)), vHash(vStr("k"), vFloat(a)), vFloat(a), vHash(vStr("k"), vFloat(-0.25))}},
			"history", coq())
	}
	for _, a := range intsA {
		r.session(hcase{Kind: "history", S: dflt, Vs: []Val{vArr(vInt(7), vStr("x")), vInt(a), vArr(vInt(a)), vHash(vInt(a), vInt(a))}}, "history", coq())
	}
	// every kind: each letter of its documented set, sessions of pool values of that kind
	byKind := map[string][]Val{}
	for _, v := range scalarPool() {
		byKind[v.kindName()] = append(byKind[v.kindName()], v)
	}
	for _, kind := range []string{"Integer", "Float", "String", "Boolean", "Binary", "Default", "Undef", "Regexp"} {
		vs := byKind[kind]
		set, ok := docSet[kind]
		if !ok {
			set = "sp"
		}
		for i := 0; i < len(set); i++ {
			for _, fl := range []string{"", "#", "-", "0"} {
				for _, wp := range [][2]int{{-1, -1}, {9, -1}, {-1, 3}, {9, 2}} {
					ds := Directive{Flags: fl, Width: wp[0], Prec: wp[1], Letter: set[i]}.String()
					k := len(vs)
					for j := 0; j < k; j += 2 {
						g := r.rng.Fork()
						r.session(hcase{Kind: "history", S: kindSpec(kind, ds), Vs: []Val{vs[j], vs[g.Intn(k)], vs[(j+1)%k], vs[g.Intn(k)]}}, "history", coq())
					}
				}
			}
		}
	}
	// containers (with aliasing) under container formats
	conts := append(containerPool(), sharedPool()...)
	for _, l := range "ahsp" {
		for _, fl := range []string{"", "#", "(", "#<"} {
			for _, w := range []int{-1, 5} {
				ds := Directive{Flags: fl, Width: w, Prec: -1, Letter: byte(l)}.String()
				d := hx(ds)
				s := Spec{Kind: "map", Map: []MapEnt{{Key: "Array", Str: &d}, {Key: "Hash", Str: &d}}}
				for j := range conts {
					g := r.rng.Fork()
					r.session(hcase{Kind: "history", S: s, Vs: []Val{conts[j], conts[g.Intn(len(conts))], conts[g.Intn(len(conts))]}}, "history", coq())
				}
			}
		}
	}
	// seeded random: per-type maps x nested values
	nRand := 4000
	if thorough {
		nRand = 60000
	}
	for i := 0; i < nRand; i++ {
		g := r.rng.Fork()
		s := Spec{Kind: "map", Map: randomMap(g, 2)}
		if g.Chance(1, 8) {
			s = dflt
		}
		k := 2 + g.Intn(3)
		vs := make([]Val, k)
		for j := range vs {
			if g.Chance(1, 3) {
				vs[j] = vFloat(floatsA[g.Intn(len(floatsA))])
			} else {
				vs[j] = randomValue(g, 2)
			}
		}
		r.session(hcase{Kind: "history", S: s, Vs: vs}, "history-random", i%100 == 0)
	}
}
