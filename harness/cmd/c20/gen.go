package main

import (
	"fmt"
	"math"
	"strings"
	"time"

	"verifharness/lib"
)

// ---- value pools ----

func scalarPool() []Val {
	vs := []Val{
		vInt(0), vInt(1), vInt(-1), vInt(5), vInt(-5), vInt(10), vInt(42), vInt(65), vInt(255), vInt(-255), vInt(4095), vInt(-4096),
		vInt(0x1F600), vInt(0xD800), vInt(0x110000), vInt(1 << 31), vInt(-(1 << 31)), vInt(1 << 32), vInt(999999), vInt(1000000),
		vInt(math.MaxInt64), vInt(math.MinInt64), vInt(math.MinInt64 + 1), vInt(123456789012345678),
		vFloat(0), vFloat(math.Copysign(0, -1)), vFloat(1), vFloat(-1), vFloat(3.5), vFloat(-3.5), vFloat(0.1), vFloat(5), vFloat(-5),
		vFloat(0.5), vFloat(1e21), vFloat(1e-7), vFloat(123456789.125), vFloat(999999.5), vFloat(1e6), vFloat(100000), vFloat(0.0001),
		vFloat(0.00001234), vFloat(-2.5e-10), vFloat(math.MaxFloat64), vFloat(math.SmallestNonzeroFloat64), vFloat(math.NaN()),
		vFloat(math.Inf(1)), vFloat(math.Inf(-1)), vFloat(255.75), vFloat(-9.3e18), vFloat(1234567),
		vStr(""), vStr("a"), vStr("hello"), vStr("Hello World"), vStr("héllo"), vStr("日本語"), vStr("ab::cd::ef"), vStr("  padded  "),
		vStr("it's"), vStr(`a\b`), vStr("tab\there"), vStr("new\nline"), vStr(`q"uote`), vStr("$var"), vStr("a\x00nul"),
		vStr("\xff\xfe"), vStr("a\xc3"), vStr("%!s(x)"), vStr("%d"), vStr("abcdefghijklmnopqrstuvwxyz0123"), vStr("ÄÖ::üß"), vStr("MiXeD cAsE"),
		vStr("\t x \n"), vStr("😀 smile"),
		vBool(true), vBool(false), vUndef, vDefault,
		vBin(""), vBin("a"), vBin("hello"), vBin("\xff\xfe\x00"), vBin("any carnal pleas"), vBin("\xfb\xff\xbe>>>???"),
		vRe(""), vRe("a.*b"), vRe("a/b"), vRe(`\t\d+`), vRe("[a-z]+"), vRe("é+"), vRe("a\tb"),
	}
	return vs
}

func containerPool() []Val {
	return []Val{
		vArr(), vHash(),
		vArr(vInt(1)), vArr(vInt(1), vInt(2), vInt(3)), vArr(vStr("a"), vStr("b")), vArr(vInt(1), vStr("a"), vFloat(2.5), vBool(true), vUndef, vDefault),
		vArr(vArr(vInt(1), vInt(2)), vArr(vStr("x"))), vArr(vInt(1), vArr(vInt(2), vArr(vInt(3))), vInt(4)), vArr(vArr(), vHash()),
		vArr(vHash(vStr("a"), vInt(1)), vInt(2)), vArr(vInt(-17), vInt(255), vFloat(-0.5)),
		vArr(vStr("long string one"), vStr("long string two"), vStr("three")), vArr(vBin("hi"), vRe("a+")),
		vHash(vStr("a"), vInt(1)), vHash(vStr("a"), vInt(1), vStr("b"), vInt(2)), vHash(vInt(1), vStr("one"), vInt(2), vStr("two")),
		vHash(vStr("k"), vArr(vInt(1), vInt(2))), vHash(vStr("k"), vHash(vStr("n"), vFloat(1.5))), vHash(vArr(vInt(1)), vStr("v")),
		vHash(vStr("a"), vUndef, vStr("b"), vDefault, vStr("c"), vBool(false)),
		vHash(vStr("x"), vArr(vHash(vStr("y"), vArr(vInt(1))))),
	}
}

// sharedPool: values in which ONE container instance occurs at several positions (aliasing, never a
// cycle): the package-level singletons px.EmptyArray / px.EmptyMap, a hash / an array under two
// indexes or keys, as key and as value, at different depths, a diamond, shared instances inside a
// shared instance.
func sharedPool() []Val {
	e, em := vEmptyArray, vEmptyMap
	h := vHash(vStr("a"), vInt(1)).shared(1)
	a := vArr(vInt(1), vStr("a")).shared(2)
	f := vArr(vFloat(1.5), vInt(255)).shared(3)
	inner := vArr(a).shared(4)
	d := vArr(vInt(1)).shared(5)
	m := vArr(d, d).shared(6)
	hh := vHash(vStr("k"), h, vStr("l"), h).shared(7)
	return []Val{
		vArr(e, e), vArr(e, vArr(e), e), vHash(vStr("x"), e, vStr("y"), e), vArr(em, em), vHash(vStr("x"), em, vStr("y"), vArr(em)),
		vArr(e, em, e, em), vHash(e, em),
		vArr(h, h), vArr(h, vArr(h)), vArr(vArr(h), h, vInt(3)), vHash(vStr("x"), h, vStr("y"), h), vHash(h, h), vHash(vStr("x"), h, h, vInt(2)),
		vArr(a, a, a), vHash(a, a), vArr(inner, inner), vArr(a, inner), vHash(vStr("p"), a, vStr("q"), vArr(a, vInt(7))),
		vArr(f, vInt(-5), f), vHash(vInt(1), f, vInt(2), f),
		vArr(m, m, d), vHash(vStr("m"), m, vStr("d"), d), vArr(d, m),
		vArr(hh, hh), vHash(vStr("u"), hh, vStr("v"), h), vArr(h, hh, a, vHash(vStr("z"), a)),
		vArr(vArr(vArr(h), vArr(h)), vHash(vStr("deep"), vArr(vHash(vStr("er"), h)))),
	}
}

// ---- directive families ----

func subsets(chars string) []string {
	out := []string{}
	for m := 0; m < 1<<uint(len(chars)); m++ {
		var b strings.Builder
		for i := 0; i < len(chars); i++ {
			if m&(1<<uint(i)) != 0 {
				b.WriteByte(chars[i])
			}
		}
		out = append(out, b.String())
	}
	return out
}

const letters = "abcdefghijklmnopqrstuvwxyzABCDEFGHIJKLMNOPQRSTUVWXYZ"

var widths = []int{-1, 1, 5, 12}
var precs = []int{-1, 0, 2, 8}

// grammarDirectives: every directive with flags ⊆ {space + - # 0} ∪ at most one delimiter, in
// canonical order, width ∈ {∅,1,5,12}, precision ∈ {∅,0,2,8}, all 52 letters.
func grammarDirectives(withDelims bool, f func(d Directive)) {
	flagSets := subsets(" +-#0")
	if withDelims {
		base := flagSets
		for i := 0; i < len(delimChars); i++ {
			for _, fs := range base {
				flagSets = append(flagSets, fs+string(delimChars[i]))
			}
		}
	}
	for _, fl := range flagSets {
		for _, w := range widths {
			for _, p := range precs {
				for i := 0; i < len(letters); i++ {
					f(Directive{Flags: fl, Width: w, Prec: p, Letter: letters[i]})
				}
			}
		}
	}
}

func shuffle(r *lib.Rng, s string) string {
	b := []byte(s)
	for i := len(b) - 1; i > 0; i-- {
		j := r.Intn(i + 1)
		b[i], b[j] = b[j], b[i]
	}
	return string(b)
}

// randomDirectiveText: a string near the grammar (valid most of the time; sometimes repeated flags,
// several delimiters, other white space, missing letter, junk).
func randomDirectiveText(r *lib.Rng) string {
	var b strings.Builder
	b.WriteByte('%')
	nf := r.Intn(5)
	for i := 0; i < nf; i++ {
		if r.Chance(1, 30) {
			b.WriteByte("\t\n\f\r\v"[r.Intn(5)])
		} else {
			b.WriteByte(flagChars[r.Intn(len(flagChars))])
		}
	}
	if r.Chance(1, 2) {
		ws := []string{"1", "3", "5", "8", "10", "12", "20", "07", "0", "100"}
		b.WriteString(ws[r.Intn(len(ws))])
	}
	if r.Chance(1, 3) {
		ps := []string{".0", ".1", ".2", ".3", ".8", ".10", ".", ".03"}
		b.WriteString(ps[r.Intn(len(ps))])
	}
	switch {
	case r.Chance(1, 40):
	case r.Chance(1, 40):
		b.WriteString("dd")
	case r.Chance(1, 40):
		b.WriteString("d\n")
	case r.Chance(1, 40):
		b.WriteByte("1_%é"[r.Intn(4)])
	default:
		b.WriteByte(letters[r.Intn(len(letters))])
	}
	s := b.String()
	if r.Chance(1, 60) {
		s = s[1:]
	}
	return s
}

func randomInt(r *lib.Rng) int64 {
	switch r.Intn(6) {
	case 0:
		return int64(r.Intn(20)) - 10
	case 1:
		return int64(r.Intn(100000)) - 50000
	case 2:
		return int64(r.Next())
	case 3:
		return int64(r.Next() >> uint(r.Intn(64)))
	case 4:
		return -int64(r.Next() >> uint(1+r.Intn(63)))
	}
	edges := []int64{math.MaxInt64, math.MinInt64, math.MinInt64 + 1, math.MaxInt32, math.MinInt32, 1 << 62, -(1 << 62), 255, 256, -256, 7, 8, 15, 16}
	return edges[r.Intn(len(edges))]
}

func randomFloat(r *lib.Rng) float64 {
	switch r.Intn(6) {
	case 0:
		return float64(r.Intn(2000)-1000) / 8
	case 1:
		return math.Float64frombits(r.Next())
	case 2:
		return float64(randomInt(r))
	case 3:
		return (float64(r.Intn(1000000)) / 1000000) * math.Pow(10, float64(r.Intn(40)-20))
	case 4:
		return -float64(r.Intn(1000000)) / 997
	}
	edges := []float64{0, math.Copysign(0, -1), math.NaN(), math.Inf(1), math.Inf(-1), 0.5, 1.5, 2.5, 9.5, 99.5, 0.05, 999999.5, 1e15, 1e16, 1e-5, 1e-4}
	return edges[r.Intn(len(edges))]
}

func randomString(r *lib.Rng) string {
	alphabet := []string{"a", "b", "Z", "x", " ", "::", "'", `\`, `"`, "$", "é", "ß", "日", "😀", "\t", "\n", "\x00", "\xff", "\xc3", "%", "0", "9", "_", "-", "A", "q"}
	n := r.Intn(9)
	if r.Chance(1, 10) {
		n = 10 + r.Intn(30)
	}
	var b strings.Builder
	for i := 0; i < n; i++ {
		b.WriteString(alphabet[r.Intn(len(alphabet))])
	}
	return b.String()
}

func randomScalar(r *lib.Rng) Val {
	switch r.Intn(12) {
	case 0, 1, 2:
		return vInt(randomInt(r))
	case 3, 4:
		return vFloat(randomFloat(r))
	case 5, 6, 7:
		return vStr(randomString(r))
	case 8:
		return vBool(r.Bool())
	case 9:
		if r.Bool() {
			return vUndef
		}
		return vDefault
	case 10:
		return vBin(randomString(r))
	}
	res := []string{"", "a.*b", "a/b", `\d+`, "[a-z]+", "é+", "a\tb", `x\\y`}
	return vRe(res[r.Intn(len(res))])
}

// valGen generates nested values; with `share` set a finished container is now and then used again
// at a later position (one instance at several positions: a DAG, never a cycle) and empty containers
// are the package-level singletons.
type valGen struct {
	r     *lib.Rng
	share bool
	done  []Val
	next  int
}

func height(v Val) int {
	h := 0
	for _, k := range v.Ks {
		if x := height(k); x > h {
			h = x
		}
	}
	for _, e := range v.Es {
		if x := height(e); x > h {
			h = x
		}
	}
	if v.isContainer() {
		h++
	}
	return h
}

func (g *valGen) gen(depth int) Val {
	r := g.r
	if depth <= 0 || r.Chance(1, 2) {
		return randomScalar(r)
	}
	if g.share && len(g.done) > 0 && r.Chance(1, 2) {
		if c := g.done[r.Intn(len(g.done))]; height(c) <= depth {
			return c
		}
	}
	n := r.Intn(4)
	isArr := r.Bool()
	if g.share && n == 0 && r.Bool() {
		if isArr {
			return vEmptyArray
		}
		return vEmptyMap
	}
	g.next++
	id := g.next
	var v Val
	if isArr {
		es := make([]Val, n)
		for i := range es {
			es[i] = g.gen(depth - 1)
		}
		v = vArr(es...)
	} else {
		v = Val{K: "hash"}
		seen := map[string]bool{}
		for i := 0; i < n; i++ {
			var k Val
			if r.Chance(1, 6) {
				k = g.gen(depth - 1)
			} else {
				k = randomScalar(r)
			}
			if k.K == "float" || seen[k.gallina()] {
				continue // NaN keys and duplicate keys are not this property's subject
			}
			seen[k.gallina()] = true
			v.Ks = append(v.Ks, k)
			v.Es = append(v.Es, g.gen(depth-1))
		}
	}
	if g.share {
		v.ID = id
		g.done = append(g.done, v)
	}
	return v
}

// dropSingleIDs clears the identity of the instances that occur once (they are objects of their own).
func dropSingleIDs(v Val) Val {
	count := map[int]int{}
	v.walk(func(x Val) {
		if x.isContainer() && x.ID > 0 {
			count[x.ID]++
		}
	})
	var fix func(x Val) Val
	fix = func(x Val) Val {
		if x.isContainer() && x.ID > 0 && count[x.ID] < 2 {
			x.ID = 0
		}
		if len(x.Ks) > 0 {
			ks := make([]Val, len(x.Ks))
			for i, k := range x.Ks {
				ks[i] = fix(k)
			}
			x.Ks = ks
		}
		if len(x.Es) > 0 {
			es := make([]Val, len(x.Es))
			for i, e := range x.Es {
				es[i] = fix(e)
			}
			x.Es = es
		}
		return x
	}
	return fix(v)
}

// randomValue: a random nested value; every second one is generated with aliasing.
func randomValue(r *lib.Rng, depth int) Val {
	g := &valGen{r: r, share: r.Chance(1, 2)}
	v := g.gen(depth)
	if g.share {
		v = dropSingleIDs(v)
	}
	return v
}

// plausible letters per key type, so that random maps mostly format (errors are still frequent)
var keyLetters = map[string]string{"Any": "sp", "Scalar": "sp", "ScalarData": "sp", "Numeric": "dxobefgsp", "Integer": "dxXobBeEfgGspc", "Float": "dxefgGEsp",
	"String": "cCudspt", "Boolean": "tTyYdsp", "Undef": "sp", "Default": "dDsp", "Regexp": "sp", "Binary": "bButTsp", "Collection": "asp",
	"Array": "asp", "Hash": "hasp", "Object": "p", "Type": "p"}

func randomDirective(r *lib.Rng, lettersOf string, container bool) string {
	d := Directive{Width: -1, Prec: -1}
	fl := " +-#0"
	for i := 0; i < len(fl); i++ {
		if r.Chance(1, 5) {
			d.Flags += string(fl[i])
		}
	}
	if container && r.Chance(1, 2) || r.Chance(1, 12) {
		d.Flags += string(delimChars[r.Intn(len(delimChars))])
	}
	if r.Chance(1, 8) {
		d.Flags = shuffle(r, d.Flags)
	}
	if r.Chance(1, 3) {
		d.Width = []int{1, 3, 6, 10, 15, 30}[r.Intn(6)]
	}
	if r.Chance(1, 4) {
		d.Prec = []int{0, 1, 2, 3, 5, 8}[r.Intn(6)]
	}
	if r.Chance(1, 12) {
		d.Letter = letters[r.Intn(len(letters))]
	} else {
		d.Letter = lettersOf[r.Intn(len(lettersOf))]
	}
	s := d.String()
	if r.Chance(1, 60) {
		s = randomDirectiveText(r)
	}
	return s
}

func randomMap(r *lib.Rng, depth int) []MapEnt {
	n := 1 + r.Intn(4)
	var m []MapEnt
	used := map[string]bool{}
	for i := 0; i < n; i++ {
		key := keyTypes[r.Intn(len(keyTypes))]
		if used[key] {
			continue
		}
		used[key] = true
		container := key == "Array" || key == "Hash" || key == "Collection" || key == "Any"
		ds := hx(randomDirective(r, keyLetters[key], container))
		if container && depth > 0 && r.Chance(1, 2) || r.Chance(1, 10) {
			h := &FmtHash{Format: ds}
			seps := []string{",", ";", " |", "", ", ", ":"}
			if r.Chance(1, 2) {
				s := hx(seps[r.Intn(len(seps))])
				h.Sep = &s
			}
			if r.Chance(1, 2) {
				s := hx([]string{" => ", ":", "=", " -> ", ""}[r.Intn(5)])
				h.Sep2 = &s
			}
			if r.Chance(1, 2) {
				h.HasSF = true
				if depth > 0 {
					h.SF = randomMap(r, depth-1)
				}
			}
			m = append(m, MapEnt{Key: key, Hash: h})
		} else {
			m = append(m, MapEnt{Key: key, Str: &ds})
		}
	}
	return m
}

// ---- the run ----

func (r *runner) runAll() {
	thorough := r.cfg.Thorough()
	scalars := scalarPool()
	containers := containerPool()

	// F0: histories - one context reused over a sequence of renderings (first, while the package-level
	// format objects are untouched)
	r.historyFamilies()

	// F1: directive grammar x scalar pool (bounded-exhaustive); delimiters on a sub-pool
	// quick tier: every value meets every third directive of the grammar (the residue moves with the
	// seed and the value), thorough: all of them
	coqBudget := 800
	step := 3
	if thorough {
		coqBudget = 12000
		step = 1
	}
	total := 0
	grammarDirectives(false, func(Directive) { total++ })
	total *= len(scalars)
	stride := total/step/coqBudget + 1
	idx := 0
	for vi, v := range scalars {
		di := 0
		grammarDirectives(false, func(d Directive) {
			di++
			if (di+vi+int(r.cfg.Seed))%step != 0 {
				return
			}
			idx++
			r.one(v, sStr(d.String()), "grammar", idx%stride == 0)
		})
	}
	r.res.Extra["grammar_directives_per_value"] = total / len(scalars)
	sub := []Val{vInt(42), vInt(-5), vFloat(3.5), vStr("héllo"), vBool(true), vDefault, vBin("hello"), vUndef}
	if thorough {
		sub = scalars
	}
	idx = 0
	sel := 0
	for _, v := range sub {
		grammarDirectives(true, func(d Directive) {
			if !strings.ContainsAny(d.Flags, delimChars) {
				return
			}
			idx++
			if !thorough && (idx+int(r.cfg.Seed))%6 != 0 {
				return
			}
			sel++
			r.one(v, sStr(d.String()), "grammar-delims", sel%(stride*4) == 0)
		})
	}

	// F1b: every pool value x every letter of its documented set x {plain, alternate}: the arms of each
	// ToString switch, always part of the model tie
	idx = 0
	for _, v := range scalars {
		set, ok := docSet[v.kindName()]
		if !ok {
			set = "sp"
		}
		for i := 0; i < len(set); i++ {
			for _, fl := range []string{"", "#", "-#"} {
				idx++
				d := Directive{Flags: fl, Width: -1, Prec: -1, Letter: set[i]}
				if fl == "-#" {
					d.Width, d.Prec = 9, 3
				}
				r.one(v, sStr(d.String()), "letters", thorough || (idx+int(r.cfg.Seed))%6 == 0)
			}
		}
	}

	// F2: flag order, repetition, several delimiters, junk
	nJunk := 30000
	if thorough {
		nJunk = 400000
	}
	for i := 0; i < nJunk; i++ {
		g := r.rng.Fork()
		v := scalars[g.Intn(len(scalars))]
		if g.Chance(1, 5) {
			v = containers[g.Intn(len(containers))]
		}
		r.one(v, sStr(randomDirectiveText(g)), "near-grammar", i < 300)
	}
	// permutations of the flag sets with the same meaning
	for i := 0; i < nJunk/3; i++ {
		g := r.rng.Fork()
		v := scalars[g.Intn(len(scalars))]
		d := Directive{Flags: shuffle(g, subsets(" +-#0")[g.Intn(32)]), Width: widths[g.Intn(4)], Prec: precs[g.Intn(4)], Letter: "dxobBpsgef"[g.Intn(10)]}
		if g.Chance(1, 3) {
			d.Flags = shuffle(g, d.Flags+string(delimChars[g.Intn(5)]))
		}
		r.one(v, sStr(d.String()), "flag-order", i < 300)
	}

	// F3: containers x container directives
	idx = 0
	for _, v := range containers {
		for _, fl := range []string{"", "#", "-", " ", "+", "0", "[", "{", "(", "<", "|", "#[", "#<", " #", "#-", "(#"} {
			for _, w := range []int{-1, 1, 5, 12, 40} {
				for _, p := range []int{-1, 2} {
					for _, l := range "ahspdxq" {
						idx++
						r.one(v, sStr(Directive{Flags: fl, Width: w, Prec: p, Letter: byte(l)}.String()), "container", idx%31 == 0)
					}
				}
			}
		}
		r.one(v, Spec{Kind: "default"}, "container", true)
	}
	for _, v := range scalars {
		r.one(v, Spec{Kind: "default"}, "default", true)
	}

	// F3r: the alternate Array layout where the size rule's RUNS matter (arraytype.go:678-692: the running width is reset
	// by a container child): scalar runs on both sides of a container child, widths below a run, between the longest run
	// and the total, and above the total; all of them go to the model and to the closed formula (arr_closed_check)
	runsPool := []Val{
		vArr(vInt(1000), vInt(2000), vArr(vInt(1)), vInt(3000), vInt(4000)),
		vArr(vInt(10), vArr(vInt(1), vInt(2)), vInt(20), vHash(vStr("a"), vInt(1)), vInt(30)),
		vArr(vArr(), vInt(12345), vInt(6), vArr(vInt(7)), vInt(8)),
		vArr(vInt(1), vInt(22), vInt(333), vHash(), vInt(4444)),
	}
	for _, v := range runsPool {
		for _, fl := range []string{"#", "#(", "#-"} {
			for _, w := range []int{0, 1, 2, 3, 5, 6, 7, 8, 12, 16, 40} {
				r.one(v, sStr(Directive{Flags: fl, Width: w, Prec: -1, Letter: 'a'}.String()), "array-runs", fl == "#" || w == 7)
			}
		}
	}

	// F3s: values with aliasing (one container instance at several positions) under every container
	// format letter of Array and Hash x plain / alternate / delimiter / width, as a top-level directive
	// and through the per-type map; all of them go to the model of the recursion guard (share_model)
	shared := sharedPool()
	contLetters := "ahspd"
	flagsS := []string{"", "#", "(", "#|", "-"}
	idx = 0
	for _, v := range shared {
		r.one(v, Spec{Kind: "default"}, "shared", true)
		for _, fl := range flagsS {
			for _, w := range []int{-1, 3, 30} {
				for i := 0; i < len(contLetters); i++ {
					ds := Directive{Flags: fl, Width: w, Prec: -1, Letter: contLetters[i]}.String()
					idx++
					if w < 0 || (idx+int(r.cfg.Seed))%3 == 0 {
						r.one(v, sStr(ds), "shared", (idx+int(r.cfg.Seed))%17 == 0)
					}
					for j := 0; j < len(contLetters); j++ {
						if !thorough && w >= 0 && (idx+j+int(r.cfg.Seed))%4 != 0 {
							continue
						}
						// Array => letter i, Hash => letter j
						da, dh := hx(ds), hx(Directive{Flags: fl, Width: w, Prec: -1, Letter: contLetters[j]}.String())
						m := []MapEnt{{Key: "Array", Str: &da}, {Key: "Hash", Str: &dh}}
						if (i+j)%2 == 1 {
							sep := hx(";")
							m[1] = MapEnt{Key: "Hash", Hash: &FmtHash{Format: dh, Sep: &sep}}
						}
						idx++
						r.one(v, Spec{Kind: "map", Map: m}, "shared", (idx+int(r.cfg.Seed))%17 == 0)
					}
				}
			}
		}
	}

	// F3w: the numeric directives at the edge of the integer range - MinInt64, MaxInt64, floats whose
	// magnitude is outside int64 (the conversion the language leaves open), NaN, infinities - x the
	// radix and decimal letters x every set of the flags 0 # + space - x widths around the length of
	// the unpadded text (where sign, prefix and zero padding share the width)
	edge := []Val{vInt(math.MinInt64), vInt(math.MinInt64 + 1), vInt(math.MaxInt64), vInt(-1), vInt(0),
		vFloat(-1.2686729980246931e+305), vFloat(1.2686729980246931e+305), vFloat(-9.3e18), vFloat(9.3e18), vFloat(-9223372036854775808.0),
		vFloat(9223372036854775808.0), vFloat(1e19), vFloat(-1e19), vFloat(math.MaxFloat64), vFloat(-math.MaxFloat64), vFloat(math.Inf(1)),
		vFloat(math.Inf(-1)), vFloat(math.NaN()), vFloat(-4.5e15), vFloat(-255.75)}
	idx = 0
	for _, v := range edge {
		// finite floats keyed by Any; NaN and the infinities keyed by Float: the default Float key type is the unbounded
		// Float type, which accepts the types of the infinities and is the type of NaN, so they meet the directive too
		key := v.kindName()
		if f, ok := floatOf(v); v.K == "float" && ok && !math.IsNaN(f) && !math.IsInf(f, 0) {
			key = "Any"
		}
		for _, l := range "dxXobB" {
			for _, fl := range subsets("0#+ -") {
				natural := formatCase(v, kindSpec(key, Directive{Flags: fl, Width: -1, Prec: -1, Letter: byte(l)}.String()))
				if natural.Err != "" {
					continue
				}
				nl := runeLen(natural.Text)
				for _, dw := range []int{-1, 0, 1, 2, 3, 4, 11} {
					if nl+dw < 1 {
						continue
					}
					idx++
					r.one(v, kindSpec(key, Directive{Flags: fl, Width: nl + dw, Prec: -1, Letter: byte(l)}.String()), "edge-width", (idx+int(r.cfg.Seed))%71 == 0)
				}
			}
		}
	}

	// F3b: the float verbs - the shape built around strconv's digit string (sign, '#', zeros between sign and digits, left
	// alignment, width): Boolean / Integer / Float x e E f g G a A x every flag set x precisions x widths around the
	// unpadded length; a sample of ~250 goes to the model tie (float_shape_check: observed text = go_fmt_float_spec)
	shapeVals := []Val{vFloat(-1.5), vFloat(1.5), vFloat(0), vFloat(math.Copysign(0, -1)), vFloat(123456.789), vFloat(-1e-7), vFloat(1e21),
		vFloat(math.Inf(1)), vFloat(math.Inf(-1)), vFloat(math.NaN()), vInt(0), vInt(-7), vInt(42), vBool(true)}
	shapeStride := 151
	if thorough {
		shapeStride = 13
	}
	idx = 0
	for _, v := range shapeVals {
		for _, l := range "eEfgGaA" {
			for _, fl := range subsets("0#+ -") {
				for _, p := range []int{-1, 0, 3} {
					natural := formatCase(v, sStr(Directive{Flags: fl, Width: -1, Prec: p, Letter: byte(l)}.String()))
					if natural.Err != "" {
						continue
					}
					nl := runeLen(natural.Text)
					for _, dw := range []int{-1, 1, 2, 5} {
						if nl+dw < 1 {
							continue
						}
						idx++
						r.one(v, sStr(Directive{Flags: fl, Width: nl + dw, Prec: p, Letter: byte(l)}.String()), "float-shape", (idx+int(r.cfg.Seed))%shapeStride == 0)
					}
				}
			}
		}
	}

	// F4: per-type format maps x random values
	nMaps := 20000
	mapsCoq := 400
	if thorough {
		nMaps = 300000
		mapsCoq = 4000
	}
	for i := 0; i < nMaps; i++ {
		g := r.rng.Fork()
		v := randomValue(g, 3)
		r.one(v, Spec{Kind: "map", Map: randomMap(g, 2)}, "format-map", i < mapsCoq)
	}

	// F5: seeded random scalars x random directives
	nRand := 60000
	randCoq := 450
	if thorough {
		nRand = 1500000
		randCoq = 5000
	}
	for i := 0; i < nRand; i++ {
		g := r.rng.Fork()
		v := randomScalar(g)
		r.one(v, sStr(randomDirective(g, keyLetters[map[string]string{"int": "Integer", "float": "Float", "str": "String", "bool": "Boolean",
			"undef": "Undef", "default": "Default", "bin": "Binary", "re": "Regexp"}[v.K]], false)), "random", i < randCoq)
	}

	// F6: radix round trips
	ints := []int64{0, 1, -1, 2, 7, 8, 9, 10, 15, 16, 17, 255, -255, 256, 4095, 65535, -65536, math.MaxInt32, math.MinInt32, math.MaxInt64,
		math.MinInt64, math.MinInt64 + 1, 1 << 62, 0xabcdef, -0xabcdef, 0x7edcba9876543210}
	nr := 3000
	if thorough {
		nr = 100000
	}
	for i := 0; i < nr; i++ {
		ints = append(ints, randomInt(r.rng))
	}
	for _, n := range ints {
		for _, l := range "dxXobB" {
			for _, fl := range []string{"", "#", "+", "#+"} {
				r.radixOne(radixCase{Kind: "radix", N: n, D: "%" + fl + string(l), Radix: radixOf(byte(l))})
			}
		}
	}
	// F6b: radix round trips of zero filled, precision filled and space padded renderings, both dispatches
	t0 := time.Now()
	r.radixPadFamily(thorough)
	if verbose {
		fmt.Printf("radix-pad family: %v\n", time.Since(t0))
	}
	// F7: the sprintf style entry points - several directives in one format text
	t0 = time.Now()
	r.sprintfFamily(thorough)
	if verbose {
		fmt.Printf("sprintf family: %v\n", time.Since(t0))
	}
	r.res.Exhaustive = false
}
