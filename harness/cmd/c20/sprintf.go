package main

// The sprintf style entry points of the formatter (family "sprintf"): types.PuppetSprintf(format, args...) and
// types.PuppetFprintf(writer, format, args...) with SEVERAL directives in one format text - positional
// (`%05d|%x`) and keyed (`%<key>05d`, `%{key}`) forms, the same directive text applied to different values of
// different exact types, different directives, literal text between them, `%%`.
//
// Direct check (clause "sprintf"): the text is the literal text, '%' for `%%`, and for EVERY directive the text
// that directive ALONE renders for its value through px.NewFormatContext3(value, directive) + px.ToString2 (the
// reference the other families judge against Go's fmt, the documented sets, widths, containers ...); when a
// directive alone raises an error the call raises (the unsupported-format error with the same letter and type
// when that is the error of the first failing directive); PuppetFprintf writes what PuppetSprintf returns.
// What the format text grammar itself rejects (a lone '%' at the end, an unterminated key, a missing argument,
// mixed forms, an unknown key, an invalid rune) is outside the property text: the direct check only demands that
// no runtime fault escapes; the outcome class is tied to the model (Model/FormatSprintf.v) by the correspondence.

import (
	"bytes"
	"fmt"
	"regexp"
	"strings"

	"github.com/lyraproj/issue/issue"
	"github.com/lyraproj/pcore/px"
	"github.com/lyraproj/pcore/types"
	"verifharness/lib"
)

type spSeg struct {
	K   string `json:"k"`             // lit | pct | dir | key | brace
	Lit string `json:"lit,omitempty"` // hex: literal text (lit), key (key, brace)
	D   string `json:"d,omitempty"`   // hex: directive text with its '%' (dir, key)
	V   *Val   `json:"v,omitempty"`   // the value the directive is applied to (dir, key, brace)
}

// spApp is one application of a directive, in the order of the call (the oracle tables of the model)
type spApp struct {
	V Val  `json:"v"`
	S Spec `json:"s"`
}

type spCase struct {
	Kind string  `json:"kind"` // "sprintf"
	Fmt  string  `json:"fmt"`  // hex: the format text
	T    string  `json:"t"`    // informative
	Args []Val   `json:"args"`
	Segs []spSeg `json:"segs,omitempty"` // the segments the text was built from; absent when the text carries a defect
	Apps []spApp `json:"apps"`
	Note string  `json:"note,omitempty"` // the defect put into the format text / arguments, "" = none
	Form string  `json:"form"`           // positional | keyed
}

type spObs struct {
	Text   string
	Err    string // "" | unsupported | illegal-argument | illegal-arguments | string-panic | failure | fault | other
	Letter byte
	Type   string
	Detail string
}

func (o spObs) String() string {
	switch o.Err {
	case "":
		return fmt.Sprintf("%q", o.Text)
	case "unsupported":
		return fmt.Sprintf("error unsupported-format(%q for %s)", o.Letter, o.Type)
	}
	return "error " + o.Err + " (" + o.Detail + ")"
}

func (o spObs) gallina() string {
	switch o.Err {
	case "":
		return "SpText " + lib.GStr(o.Text)
	case "unsupported":
		return fmt.Sprintf("SpErr (SpFormat (EUnsupported %d%%N Kd%s))", o.Letter, o.Type)
	case "illegal-argument":
		return "SpErr SpIllegalArgument"
	case "illegal-arguments":
		return "SpErr SpIllegalArguments"
	case "string-panic":
		return "SpErr SpBadRune"
	case "failure":
		return "SpErr (SpFormat EFailure)"
	case "fault":
		return "SpErr (SpFormat EFault)"
	}
	return "SpErr (SpFormat EOther)"
}

func classifySp(r interface{}) spObs {
	if s, ok := r.(string); ok {
		// the reader's panic on utf8.RuneError carries a plain string (types/format.go:728)
		return spObs{Err: "string-panic", Detail: s}
	}
	if rep, ok := r.(issue.Reported); ok {
		detail := strings.SplitN(rep.Error(), " (file:", 2)[0]
		switch rep.Code() {
		case px.IllegalArgument:
			return spObs{Err: "illegal-argument", Detail: detail}
		case px.IllegalArguments:
			return spObs{Err: "illegal-arguments", Detail: detail}
		}
	}
	o := classify(r)
	switch o.Err {
	case "unsupported", "failure", "fault":
		return spObs{Err: o.Err, Letter: o.Letter, Type: o.Type, Detail: o.Detail}
	}
	return spObs{Err: "other", Detail: o.Err + ": " + o.Detail}
}

func sprintfCall(viaWriter bool, f string, args []px.Value) (o spObs) {
	defer func() {
		if r := recover(); r != nil {
			o = classifySp(r)
		}
	}()
	if viaWriter {
		var b bytes.Buffer
		types.PuppetFprintf(&b, f, args...)
		return spObs{Text: b.String()}
	}
	return spObs{Text: types.PuppetSprintf(f, args...)}
}

func spObsEq(a, b spObs) bool {
	return a.Err == b.Err && a.Text == b.Text && a.Letter == b.Letter && a.Type == b.Type
}

var spDirectiveShape = regexp.MustCompile(`^%[^A-Za-z%]*[A-Za-z]$`)

// build assembles the format text, the arguments and the applications from the segments.
func spBuild(form string, segs []spSeg) spCase {
	c := spCase{Kind: "sprintf", Form: form, Segs: segs}
	var b strings.Builder
	hash := Val{K: "hash"}
	seen := map[string]bool{}
	for _, s := range segs {
		switch s.K {
		case "lit":
			b.WriteString(unhex(s.Lit))
		case "pct":
			b.WriteString("%%")
		case "dir":
			b.WriteString(unhex(s.D))
			c.Args = append(c.Args, *s.V)
			c.Apps = append(c.Apps, spApp{V: *s.V, S: sStr(unhex(s.D))})
		case "key", "brace":
			key := unhex(s.Lit)
			if !seen[key] {
				seen[key] = true
				hash.Ks = append(hash.Ks, vStr(key))
				hash.Es = append(hash.Es, *s.V)
			}
			if s.K == "key" {
				b.WriteString("%<" + key + ">" + unhex(s.D)[1:])
				c.Apps = append(c.Apps, spApp{V: *s.V, S: sStr(unhex(s.D))})
			} else {
				b.WriteString("%{" + key + "}")
				c.Apps = append(c.Apps, spApp{V: *s.V, S: Spec{Kind: "default"}})
			}
		}
	}
	if form == "keyed" {
		c.Args = []Val{hash}
	}
	c.Fmt = hx(b.String())
	c.T = fmt.Sprintf("%q", b.String())
	return c
}

func (c spCase) describe() string {
	as := make([]string, len(c.Args))
	for i, a := range c.Args {
		as[i] = a.String()
	}
	return fmt.Sprintf("sprintf(%s, %s)", c.T, strings.Join(as, ", "))
}

// sprintfOne runs one case on both entry points, evaluates the direct check, hands it to the emitter.
func (r *runner) sprintfOne(c spCase, toCoq bool) spObs {
	f := unhex(c.Fmt)
	args := make([]px.Value, len(c.Args))
	for i, a := range c.Args {
		args[i] = a.px()
	}
	o := sprintfCall(false, f, args)
	ow := sprintfCall(true, f, args)
	r.res.Evaluations += 2
	r.res.Count("family.sprintf")
	r.res.Count("sprintf.form." + c.Form)
	if c.Note != "" {
		r.res.Count("sprintf.defect." + c.Note)
	}
	if o.Err != "" {
		r.res.Count("sprintf.outcome." + o.Err)
	} else {
		r.res.Count("sprintf.outcome.text")
	}
	r.res.Count(fmt.Sprintf("sprintf.directives.%d", len(c.Apps)))
	r.res.Nontrivial("sprintf " + c.T + " @ " + fmt.Sprint(c.Args))
	failed := false
	violate := func(tag, what string) {
		failed = true
		r.tagCount["sprintf/"+tag]++
		if verbose && r.tagCount["sprintf/"+tag] <= 2 {
			fmt.Printf("[sprintf/%s] %s\n", tag, what)
		}
		r.res.Violate(lib.Violation{Clause: "sprintf", What: what, Input: c, Tags: []string{tag}})
	}
	if !spObsEq(o, ow) && o.Err != "fault" {
		violate("sprintf-writer-differs", fmt.Sprintf("%s gives %s, PuppetFprintf with the same arguments gives %s", c.describe(), o, ow))
	}
	if o.Err == "fault" {
		violate("sprintf-fault", fmt.Sprintf("%s: a runtime fault escapes: %s", c.describe(), o.Detail))
	} else if c.Note == "" && len(c.Segs) > 0 {
		// every directive as it alone renders its value
		var exp strings.Builder
		var firstErr *Obs
		errAt := ""
		type piece struct {
			end  int
			what string
		}
		var pieces []piece
		for _, s := range c.Segs {
			switch s.K {
			case "lit":
				exp.WriteString(unhex(s.Lit))
			case "pct":
				exp.WriteByte('%')
			default:
				spec := Spec{Kind: "default"}
				name := "%{" + unhex(s.Lit) + "}"
				if s.K != "brace" {
					spec = sStr(unhex(s.D))
					name = unhex(s.D)
				}
				single := format(s.V.px(), spec.px())
				if single.Err != "" {
					if firstErr == nil {
						e := single
						firstErr = &e
						errAt = fmt.Sprintf("%q of %s", name, s.V)
					}
				} else if firstErr == nil {
					exp.WriteString(single.Text)
					pieces = append(pieces, piece{exp.Len(), fmt.Sprintf("%q of %s alone renders %q", name, s.V, single.Text)})
				}
			}
			if firstErr != nil {
				break
			}
		}
		switch {
		case firstErr == nil && o.Err != "":
			violate("sprintf-raises", fmt.Sprintf("%s raises %s; every directive alone renders its value, together %q", c.describe(), o, exp.String()))
		case firstErr == nil && o.Text != exp.String():
			// the first directive whose text is not where it belongs
			where := ""
			for i, p := range pieces {
				if len(o.Text) < p.end || o.Text[:p.end] != exp.String()[:p.end] {
					where = fmt.Sprintf("; directive %d: %s", i+1, p.what)
					break
				}
			}
			tag := "sprintf-directive-differs"
			violate(tag, fmt.Sprintf("%s gives %q; the directives alone give %q%s", c.describe(), o.Text, exp.String(), where))
		case firstErr != nil && o.Err == "":
			violate("sprintf-error-lost", fmt.Sprintf("%s gives %q although %s alone raises %s", c.describe(), o.Text, errAt, *firstErr))
		case firstErr != nil && firstErr.Err == "unsupported" && (o.Err != "unsupported" || o.Letter != firstErr.Letter || o.Type != firstErr.Type):
			violate("sprintf-error-differs", fmt.Sprintf("%s raises %s; %s alone raises %s", c.describe(), o, errAt, *firstErr))
		}
	}
	if toCoq || (failed && r.em.failing < 20) {
		if failed {
			r.em.failing++
		}
		r.em.addSprintf(c, o)
	}
	return o
}

func (e *emitter) addSprintf(c spCase, o spObs) {
	limit := 440
	if e.cfg.Thorough() {
		limit = 6000
	}
	if e.nSprintf >= limit {
		return
	}
	if len(e.sprintf) == 0 || len(e.sprintf[len(e.sprintf)-1].Cases) >= 220 {
		e.sprintf = append(e.sprintf, &lib.CasesFile{Imports: []string{"Model.Base", "Model.Format", "Model.FormatSprintf", "Corr.CorrC20"}, Typ: "spcase",
			Obligations: map[string]string{"sprintf_model": "sprintf_mismatches cases"}})
	}
	e.nSprintf++
	args := make([]string, len(c.Args))
	for i, a := range c.Args {
		args[i] = "(" + a.gallina() + ")"
	}
	os := make([]string, 0, len(c.Apps)+1)
	for _, a := range c.Apps {
		os = append(os, buildOracle(a.V, a.S).gallina())
	}
	os = append(os, "no_oracle") // a defective tail may apply one more (failing) directive
	term := fmt.Sprintf("mkSpCase %s %s %s (%s)", lib.GStr(unhex(c.Fmt)), lib.GList(args, "value"), lib.GList(os, "oracle"), o.gallina())
	e.sprintf[len(e.sprintf)-1].Add(term, c)
}

// ---- generators ----

func lit(s string) spSeg              { return spSeg{K: "lit", Lit: hx(s)} }
func dirSeg(d string, v Val) spSeg    { return spSeg{K: "dir", D: hx(d), V: &v} }
func keySeg(k, d string, v Val) spSeg { return spSeg{K: "key", Lit: hx(k), D: hx(d), V: &v} }
func braceSeg(k string, v Val) spSeg  { return spSeg{K: "brace", Lit: hx(k), V: &v} }

// positional directives cannot start with the key openers (they are read as %<key> / %{key}) nor with '%'
func positionalOK(d string) bool {
	return spDirectiveShape.MatchString(d) && d[1] != '<' && d[1] != '{'
}

// joined builds "d|d|d" (or keyed "%<k0>d|%<k1>d") over the values
func spJoined(form string, ds []string, vs []Val, sep string) spCase {
	var segs []spSeg
	for i, v := range vs {
		if i > 0 && sep != "" {
			segs = append(segs, lit(sep))
		}
		d := ds[i%len(ds)]
		if form == "keyed" {
			segs = append(segs, keySeg(fmt.Sprintf("k%d", i), d, v))
		} else {
			segs = append(segs, dirSeg(d, v))
		}
	}
	return spBuild(form, segs)
}

var spKindPools = map[string][]Val{
	"int":   {vInt(42), vInt(7), vInt(-31), vInt(0), vInt(255), vInt(4096), vInt(-9223372036854775808)},
	"float": {vFloat(1.5), vFloat(2.25), vFloat(-1.5), vFloat(0), vFloat(123456.789), vFloat(1e21)},
	"str":   {vStr("ab"), vStr("c"), vStr("héllo"), vStr(""), vStr("it's"), vStr("ab::cd")},
	"bool":  {vBool(true), vBool(false), vBool(true)},
	"arr":   {vArr(vInt(1), vInt(2)), vArr(vStr("x")), vArr(), vArr(vArr(vInt(1)), vInt(2)), vArr(vFloat(2.5), vStr("a"))},
	"hash":  {vHash(vStr("a"), vInt(1)), vHash(vStr("b"), vStr("x"), vStr("c"), vInt(3)), vHash(), vHash(vInt(1), vArr(vInt(2)))},
	"other": {vUndef, vDefault, vBin("hello"), vRe("a.*b"), vBin("a"), vRe("[a-z]+")},
	"mixed": {vInt(42), vStr("ab"), vFloat(1.5), vBool(true), vArr(vInt(1), vInt(2)), vUndef, vHash(vStr("a"), vInt(1)), vInt(7), vStr("c")},
}
var spKindOrder = []string{"int", "float", "str", "bool", "arr", "hash", "other", "mixed"}

func (r *runner) sprintfFamily(thorough bool) {
	idx := 0
	emit := func(every int) bool {
		idx++
		return (idx+int(r.cfg.Seed))%every == 0
	}
	single := func(c spCase) {
		// the reference renderings are themselves under the direct check of the other clauses
		for _, a := range c.Apps {
			r.one(a.V, a.S, "sprintf-single", false)
		}
	}

	// S1 (bounded-exhaustive): one directive text repeated over 2..4 different values of one kind, of mixed kinds
	flagSets := []string{"", "#", "0", "-", "+", " ", "#0", "-#", "(", "#|"}
	for _, kind := range spKindOrder {
		pool := spKindPools[kind]
		lettersOf := docSet[pool[0].kindName()]
		if kind == "mixed" || kind == "other" {
			lettersOf = "spdxa"
		}
		lettersOf += "q" // a letter outside every set: the error of the first failing directive
		for li := 0; li < len(lettersOf); li++ {
			for _, fl := range flagSets {
				for _, w := range []int{-1, 6} {
					for _, p := range []int{-1, 2} {
						d := Directive{Flags: fl, Width: w, Prec: p, Letter: lettersOf[li]}.String()
						if !positionalOK(d) {
							continue
						}
						for n := 2; n <= 4; n++ {
							if !thorough && (idx+n+int(r.cfg.Seed))%2 == 0 {
								idx++
								continue
							}
							off := (li + n + w + p + len(fl)) % len(pool)
							if off < 0 {
								off = -off
							}
							vs := make([]Val, n)
							for i := range vs {
								vs[i] = pool[(off+i)%len(pool)]
							}
							form := "positional"
							if (idx+li)%3 == 0 {
								form = "keyed"
							}
							c := spJoined(form, []string{d}, vs, []string{"|", "", " ", ", "}[n%4])
							r.sprintfOne(c, emit(37))
							if thorough {
								single(c)
							}
						}
					}
				}
			}
		}
	}

	// S2 (bounded-exhaustive): two different directives in the patterns A B A, A A B, A B B over value triples
	// (a cache keyed by the directive text or by the value shows in one of them), literal text and %% around them
	ds2 := []string{"%d", "%05d", "%x", "%#x", "%#o", "%-6d", "%+d", "%s", "%p", "%6s", "%-4s", "%.2f", "%08.3f", "%e", "%g", "%#b", "%B", "%c", "%u", "%t", "%y",
		"%a", "%(a", "%#a", "%h", "%<h", "%10p", "%.3s", "% d", "%X", "%q"}
	triples := [][]Val{
		{vInt(42), vInt(7), vInt(42)}, {vInt(255), vInt(16), vInt(-1)}, {vFloat(1.5), vFloat(2.25), vFloat(-1.5)}, {vStr("ab"), vStr("c"), vStr("ab")},
		{vInt(42), vStr("ab"), vFloat(2.5)}, {vArr(vInt(1), vInt(2)), vArr(vStr("x")), vArr(vInt(1), vInt(2))}, {vBool(true), vBool(false), vInt(1)},
		{vHash(vStr("a"), vInt(1)), vHash(vStr("b"), vInt(2)), vArr(vInt(3))}, {vInt(7), vInt(7), vInt(8)}, {vStr("x"), vInt(5), vStr("y")},
	}
	pats := [][3]int{{0, 1, 0}, {0, 0, 1}, {0, 1, 1}}
	for i, da := range ds2 {
		for j, db := range ds2 {
			if i == j {
				continue
			}
			if !thorough && (i+2*j+int(r.cfg.Seed))%3 != 0 {
				continue
			}
			for ti, tr := range triples {
				if !thorough && (i+j+ti)%2 != 0 {
					continue
				}
				pat := pats[(i+j+ti)%3]
				two := []string{da, db}
				var segs []spSeg
				keyed := (i+ti)%4 == 0
				if ti%3 == 0 {
					segs = append(segs, lit("v: "))
				}
				for k := 0; k < 3; k++ {
					d := two[pat[k]]
					if keyed {
						if k == 1 && ti%2 == 0 {
							segs = append(segs, braceSeg(fmt.Sprintf("key %d", k), tr[k]))
						} else {
							segs = append(segs, keySeg(fmt.Sprintf("key %d", k), d, tr[k]))
						}
					} else {
						if !positionalOK(d) {
							d = "%#" + d[1:]
						}
						segs = append(segs, dirSeg(d, tr[k]))
					}
					switch (k + ti) % 4 {
					case 0:
						segs = append(segs, spSeg{K: "pct"})
					case 1:
						segs = append(segs, lit(" - "))
					case 2:
						segs = append(segs, lit("é日 "))
					}
				}
				form := "positional"
				if keyed {
					form = "keyed"
				}
				c := spBuild(form, segs)
				r.sprintfOne(c, emit(41))
			}
		}
	}

	// S3 (seeded random): 2..6 directives, literal text, %%, earlier directive texts and earlier values used again;
	// every sixth case carries a defect of the format text / the arguments (outcome class tied by the model)
	n := 14000
	if thorough {
		n = 300000
	}
	kindKey := map[string]string{"int": "Integer", "float": "Float", "str": "String", "bool": "Boolean",
		"undef": "Undef", "default": "Default", "bin": "Binary", "re": "Regexp", "arr": "Array", "hash": "Hash"}
	lits := []string{" ", "|", ", ", "=", "abc", "x: ", "é", "日本", "😀", "\t", "\n", "[", "]", "<k>", "{k}", "5", ".", "#", "-", "d", "€ "}
	for i := 0; i < n; i++ {
		g := r.rng.Fork()
		keyed := g.Chance(1, 3)
		nd := 2 + g.Intn(5)
		var segs []spSeg
		var usedD []string
		var usedV []Val
		for k := 0; k < nd; k++ {
			if g.Chance(1, 2) {
				segs = append(segs, lit(lits[g.Intn(len(lits))]))
			}
			if g.Chance(1, 10) {
				segs = append(segs, spSeg{K: "pct"})
				if g.Chance(1, 2) {
					segs = append(segs, lit(lits[g.Intn(len(lits))]))
				}
			}
			var v Val
			switch {
			case len(usedV) > 0 && g.Chance(1, 6):
				v = usedV[g.Intn(len(usedV))]
			case g.Chance(1, 4):
				// instance identities are per value (aliasing has its own family): several values share one call here
				v = stripIDs(randomValue(g, 2))
			default:
				v = randomScalar(g)
			}
			var d string
			if len(usedD) > 0 && g.Chance(1, 2) {
				d = usedD[g.Intn(len(usedD))]
			} else {
				d = randomDirective(g, keyLetters[kindKey[v.K]], v.isContainer())
			}
			if !spDirectiveShape.MatchString(d) || !keyed && !positionalOK(d) {
				d = "%s"
			}
			usedD = append(usedD, d)
			usedV = append(usedV, v)
			switch {
			case keyed && g.Chance(1, 5):
				segs = append(segs, braceSeg(fmt.Sprintf("k%d", k), v))
			case keyed:
				key := []string{"k", "key ", "é", "a.b", "K<", "{x"}[g.Intn(6)] + fmt.Sprint(k)
				segs = append(segs, keySeg(key, d, v))
			default:
				segs = append(segs, dirSeg(d, v))
			}
		}
		if g.Chance(1, 3) {
			segs = append(segs, lit(lits[g.Intn(len(lits))]))
		}
		form := "positional"
		if keyed {
			form = "keyed"
		}
		c := spBuild(form, segs)
		if g.Chance(1, 6) {
			c = spDefect(g, c)
		}
		r.sprintfOne(c, emit(61))
		if c.Note == "" && (thorough || i%4 == 0) {
			single(c)
		}
	}
}

// stripIDs clears the identities of container instances (every container an object of its own; the
// package-level singletons stay what they are).
func stripIDs(v Val) Val {
	if v.ID > 0 {
		v.ID = 0
	}
	if len(v.Ks) > 0 {
		ks := make([]Val, len(v.Ks))
		for i, k := range v.Ks {
			ks[i] = stripIDs(k)
		}
		v.Ks = ks
	}
	if len(v.Es) > 0 {
		es := make([]Val, len(v.Es))
		for i, e := range v.Es {
			es[i] = stripIDs(e)
		}
		v.Es = es
	}
	return v
}

// spDefect puts one defect into the case: the format text grammar rejects it (or an argument is missing).
// The segments are dropped: the direct check only asks for no runtime fault, the model gives the outcome class.
func spDefect(g *lib.Rng, c spCase) spCase {
	f := unhex(c.Fmt)
	c.Segs = nil
	switch g.Intn(9) {
	case 0:
		c.Note = "percent-at-end"
		f += "%"
	case 1:
		c.Note = "unterminated-key"
		f += []string{"%<abc", "%{abc", "%<", "%{k0"}[g.Intn(4)]
	case 2:
		c.Note = "missing-argument"
		if c.Form == "positional" && len(c.Args) > 0 {
			c.Args = c.Args[:len(c.Args)-1]
		} else {
			c.Args = nil
		}
	case 3:
		c.Note = "mixed-forms"
		if c.Form == "positional" {
			f += "%<k0>d"
		} else {
			f += "%d"
		}
	case 4:
		c.Note = "unknown-key"
		f += []string{"%<nokey>s", "%{nokey}"}[g.Intn(2)]
	case 5:
		c.Note = "invalid-rune"
		bad := []string{"\xff", "\xc3", "\xef\xbf\xbd", "\xe2\x82", "\xed\xa0\x80"}[g.Intn(5)]
		at := g.Intn(len(f) + 1)
		f = f[:at] + bad + f[at:]
	case 6:
		c.Note = "not-one-hash"
		if c.Form == "keyed" {
			c.Args = append(c.Args, vInt(1))
		} else {
			f = "%<k>s" + f
		}
	case 7:
		c.Note = "no-letter-at-end"
		f += []string{"%5", "%#", "%-08.3", "%."}[g.Intn(4)]
	default:
		c.Note = "letter-missing-inside"
		f = "%5 " + f
	}
	c.Fmt = hx(f)
	c.T = fmt.Sprintf("%q", f)
	return c
}
