// c20: string formatting is total and faithful to the format directive.
package main

import (
	"fmt"
	"os"
	"sort"
	"strings"

	"github.com/lyraproj/pcore/pcore"
	"github.com/lyraproj/pcore/px"
	"verifharness/lib"
)

var verbose = os.Getenv("C20_VERBOSE") != ""

type runner struct {
	cfg *lib.Config
	res *lib.Result
	rng *lib.Rng
	ctx px.Context
	// tag histogram of the direct check (diagnostics, written to Extra)
	tagCount map[string]int
	em       *emitter
	n        int
}

// fcase is one formatting case: value, format specification.
type fcase struct {
	Kind string `json:"kind"` // "format"
	V    Val    `json:"value"`
	S    Spec   `json:"spec"`
}

func main() {
	cfg := lib.ParseFlags()
	res := lib.NewResult("C20")
	res.Rule = "a case is (value, format specification); non-trivial when the directive carries at least one flag, width or precision, " +
		"or the specification is a per-type map, or the value is a container, or the outcome is an error; distinct = distinct " +
		"(value, specification) texts. Families: bounded-exhaustive directive grammar per scalar value (flags x width x precision x 52 letters; quick tier: every third directive), " +
		"every value x every letter of its documented set x {plain, alternate, alternate with width and precision}, " +
		"flag order / repetition / delimiter grammar, containers x container directives, values with one container instance at several positions " +
		"(aliasing) x container letters, arrays with scalar runs around container children x alternate layout x widths (array-runs), integer-range edge values x radix letters x flags x widths around the unpadded length, numeric values x the float " +
		"verbs e E f g G a A x every flag set x precisions x widths around the unpadded length (float-shape), histories (one context " +
		"reused over a sequence of values; a history counts once), per-type format maps, radix round trips (plain, and zero / precision / space padded " +
		"around and beyond the digit count of a 64 bit number, through both dispatches of Integer.new), PuppetSprintf / PuppetFprintf calls with " +
		"several directives in one format text (one directive text over different values, different directives, literal text, %%, positional and keyed forms; " +
		"a call counts once), seeded random"
	r := &runner{cfg: cfg, res: res, rng: lib.NewRng(cfg.Seed), tagCount: map[string]int{}}
	r.em = newEmitter(cfg)
	pcore.Do(func(c px.Context) {
		r.ctx = c
		if cfg.Replay != "" {
			r.replay()
		} else {
			r.runAll()
		}
	})
	r.em.flush(res)
	tags := make([]string, 0, len(r.tagCount))
	for t := range r.tagCount {
		tags = append(tags, t)
	}
	sort.Strings(tags)
	hist := map[string]int{}
	for _, t := range tags {
		hist[t] = r.tagCount[t]
	}
	res.Extra["direct_check_tags"] = hist
	res.Write(cfg)
	if os.Getenv("C20_VERBOSE") != "" {
		for _, t := range tags {
			fmt.Printf("%8d  %s\n", r.tagCount[t], t)
		}
	}
}

// one runs one case on the implementation, evaluates the direct check, and hands it to the emitter.
func (r *runner) one(v Val, s Spec, family string, toCoq bool) Obs {
	pv, ps := v.px(), s.px()
	o := format(pv, ps)
	r.n++
	r.res.Evaluations++
	r.res.Count("family." + family)
	r.res.Count("kind." + v.K)
	if o.Err != "" {
		r.res.Count("outcome." + o.Err)
	} else {
		r.res.Count("outcome.text")
	}
	nontrivial := s.Kind == "map" || v.isContainer() || o.Err != ""
	if s.Kind == "str" {
		if d, cls := refParse(s.directive()); cls != "" || d.Flags != "" || d.Width >= 0 || d.Prec >= 0 {
			nontrivial = true
		}
	}
	if nontrivial {
		r.res.Nontrivial(v.String() + " @ " + s.String())
	}
	fs := r.direct(v, pv, s, ps, o)
	for _, f := range fs {
		for _, t := range f.tags {
			r.tagCount[f.clause+"/"+t]++
			if verbose && r.tagCount[f.clause+"/"+t] <= 2 {
				fmt.Printf("[%s/%s] %s\n", f.clause, t, f.what)
			}
		}
		r.res.Violate(lib.Violation{Clause: f.clause, What: f.what, Tags: f.tags,
			Input: fcase{Kind: "format", V: v, S: s}})
	}
	if toCoq || (len(fs) > 0 && r.em.failing < 20) {
		if len(fs) > 0 {
			r.em.failing++
		}
		r.em.add(v, s, o)
	}
	if v.hasSharing() {
		r.res.Count("shared-instance")
		if toCoq || len(fs) > 0 || family != "shared" {
			r.em.addShared(v, s, o)
		}
	}
	if r.n%7919 == 1 {
		r.res.Sample(map[string]interface{}{"value": v.String(), "spec": s.String(), "observed": o.String()})
	}
	return o
}

func (r *runner) direct(v Val, pv px.Value, s Spec, ps px.Value, o Obs) []finding {
	var fs []finding
	switch s.Kind {
	case "str":
		ds := s.directive()
		if _, cls := refParse(ds); cls != "" || o.Err == "invalid-spec" || o.Err == "repeated-flag" || o.Err == "delimiter" {
			// grammar clause only
			return checkScalar(v, ds, o, nil)
		}
	case "map":
		if o.Err == "invalid-spec" || o.Err == "repeated-flag" || o.Err == "delimiter" {
			// a map entry carries a directive outside the grammar: expected iff one of them is
			if cls := mapGrammarClass(s.Map); cls == "" {
				fs = append(fs, finding{"grammar", fmt.Sprintf("format map %s holds only directives of the grammar but gives %s", s, o), []string{"grammar-rejected"}})
			}
			return fs
		}
		if cls := mapGrammarClass(s.Map); cls != "" {
			fs = append(fs, finding{"grammar", fmt.Sprintf("format map %s holds a directive outside the grammar (%s) but gives %s", s, cls, o), []string{"grammar-" + cls}})
			return fs
		}
	}
	ctx, err := safeContext(pv, ps)
	if err != nil {
		fs = append(fs, finding{"total", fmt.Sprintf("no format context for %s: %v", s, err), []string{"fault"}})
		return fs
	}
	if s.Kind == "str" {
		// the directive given for the value is the format the value is rendered under
		if f := px.GetFormat(ctx.FormatMap(), pv.PType()); f.OrigFormat() != s.directive() {
			// (the inferred type of every value accepts itself: NaN, and a container that holds NaN, infer types built on the
			// unbounded Float type - the former finding nan-directive-ignored is an ordinary direct check)
			tag := "directive-ignored"
			fs = append(fs, finding{"directive", fmt.Sprintf("%s under %q: the format selected for the value is %q, the directive is ignored (rendering %s)",
				v, s.directive(), f.OrigFormat(), o), []string{tag}})
			return fs
		}
	}
	checkTree(v, pv, ctx, o, 0, &fs)
	return fs
}

func safeContext(pv, ps px.Value) (ctx px.FormatContext, err error) {
	defer func() {
		if r := recover(); r != nil {
			err = fmt.Errorf("%v", r)
		}
	}()
	return px.NewFormatContext3(pv, ps)
}

// mapGrammarClass: the error class of the first directive of the map (depth first) that is outside
// the grammar, "" when all are inside.
func mapGrammarClass(m []MapEnt) string {
	for _, e := range m {
		if e.Str != nil {
			if _, cls := refParse(unhex(*e.Str)); cls != "" {
				return cls
			}
		} else {
			if e.Hash.HasSF {
				if cls := mapGrammarClass(e.Hash.SF); cls != "" {
					return cls
				}
			}
			if _, cls := refParse(unhex(e.Hash.Format)); cls != "" {
				return cls
			}
		}
	}
	return ""
}

// ---- replay ----

func (r *runner) replay() {
	for _, in := range lib.ReplayInputs(r.cfg.Replay) {
		var k struct {
			Kind string `json:"kind"`
		}
		lib.Remarshal(in, &k)
		switch k.Kind {
		case "format":
			var c fcase
			lib.Remarshal(in, &c)
			fmt.Printf("value %s   format %s\n", c.V, c.S)
			before := len(r.res.Violations)
			o := r.one(c.V, c.S, "replay", true)
			fmt.Printf("  implementation => %s\n", o)
			for _, v := range r.res.Violations[before:] {
				fmt.Printf("  FAILS [%s] %s\n", v.Clause, v.What)
			}
			if len(r.res.Violations) == before {
				fmt.Println("  the direct check accepts this case")
			}
		case "history":
			var c hcase
			lib.Remarshal(in, &c)
			fmt.Printf("one context from %s, rendering in order %s, then each once more\n", c.S, c.Vs)
			before := len(r.res.Violations)
			first, second := r.session(c, "replay", true)
			for i := range first {
				fmt.Printf("  %s => first %s, again %s\n", c.Vs[i], first[i], second[i])
			}
			for _, v := range r.res.Violations[before:] {
				fmt.Printf("  FAILS [%s] %s\n", v.Clause, v.What)
			}
			if len(r.res.Violations) == before {
				fmt.Println("  the direct check accepts this case")
			}
		case "radix-pad":
			var c radixPadCase
			lib.Remarshal(in, &c)
			before := len(r.res.Violations)
			text, got := r.radixPadOne(c, true)
			fmt.Printf("integer %d under %q => %q; padding spaces trimmed: Integer.new(text, %d) => %s; Integer.new({from => text, radix => %d}) => %s (abs argument: %d)\n",
				c.N, c.D, text, c.Radix, got[0], c.Radix, got[1], c.Abs)
			for _, v := range r.res.Violations[before:] {
				fmt.Printf("  FAILS [%s] %s\n", v.Clause, v.What)
			}
			if len(r.res.Violations) == before {
				fmt.Println("  the direct check accepts this case")
			}
		case "sprintf":
			var c spCase
			lib.Remarshal(in, &c)
			before := len(r.res.Violations)
			o := r.sprintfOne(c, true)
			fmt.Printf("%s\n  PuppetSprintf => %s\n", c.describe(), o)
			for _, a := range c.Apps {
				fmt.Printf("  %s under %s alone => %s\n", a.V, a.S, formatCase(a.V, a.S))
			}
			for _, v := range r.res.Violations[before:] {
				fmt.Printf("  FAILS [%s] %s\n", v.Clause, v.What)
			}
			if len(r.res.Violations) == before {
				fmt.Println("  the direct check accepts this case")
			}
		case "radix":
			var c radixCase
			lib.Remarshal(in, &c)
			before := len(r.res.Violations)
			text, back, errText := r.radixOne(c)
			fmt.Printf("integer %d under %q => %q; Integer.new(%q, %d) => %d %s\n", c.N, c.D, text, text, c.Radix, back, errText)
			for _, v := range r.res.Violations[before:] {
				fmt.Printf("  FAILS [%s] %s\n", v.Clause, v.What)
			}
			if len(r.res.Violations) == before {
				fmt.Println("  the direct check accepts this case")
			}
		}
	}
}

// ---- radix round trip ----

type radixCase struct {
	Kind  string `json:"kind"` // "radix"
	N     int64  `json:"n"`
	D     string `json:"directive"`
	Radix int64  `json:"radix"`
}

func radixOf(letter byte) int64 {
	switch letter {
	case 'b', 'B':
		return 2
	case 'o':
		return 8
	case 'x', 'X':
		return 16
	}
	return 10
}

func (r *runner) radixOne(c radixCase) (text string, back int64, errText string) {
	r.res.Evaluations++
	r.res.Count("family.radix")
	o := formatCase(vInt(c.N), sStr(c.D))
	if o.Err != "" {
		r.res.Violate(lib.Violation{Clause: "radix", What: fmt.Sprintf("%d under %q: %s", c.N, c.D, o), Input: c, Tags: []string{"radix-render"}})
		return "", 0, o.String()
	}
	text = o.Text
	back, errText = intNew(r.ctx, text, c.Radix)
	if errText != "" || back != c.N {
		d, _ := refParse(c.D)
		tag := "radix-" + string(d.Letter)
		if d.has('#') {
			tag += "-alt"
		}
		what := fmt.Sprintf("%d renders under %q as %q, Integer.new(%q, %d) gives ", c.N, c.D, text, text, c.Radix)
		if errText != "" {
			what += "an error: " + errText
		} else {
			what += fmt.Sprint(back)
		}
		r.tagCount["radix/"+tag]++
		r.res.Violate(lib.Violation{Clause: "radix", What: what, Input: c, Tags: []string{tag}})
	}
	r.em.addRadix(c, text, back, errText)
	return
}

func quoteAll(ss []string) string {
	qs := make([]string, len(ss))
	for i, s := range ss {
		qs[i] = fmt.Sprintf("%q", s)
	}
	return strings.Join(qs, " ")
}
