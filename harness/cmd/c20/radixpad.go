package main

// Radix round trips of padded renderings (family "radix-pad"): an integer rendered under d x X o b B with
// any flags, width and precision - zero filled beyond the digits a 64 bit number needs (16 / 22 / 64 / 19),
// filled by a precision, space padded on either side - converts back to the same integer through both
// dispatches of the Integer constructor: Integer.new(text, radix) and Integer.new({from => text, radix => radix}).
// Padding spaces are not part of the numeral: they are trimmed before the text is handed to the constructor
// (a rendering without spaces - zero fill, precision fill, no width - is handed over as it is).
// The one rendering without a digit (precision 0 of the integer 0, fmt's and C's rule) has nothing to convert.

import (
	"fmt"
	"math"
	"strings"

	"github.com/lyraproj/pcore/px"
	"github.com/lyraproj/pcore/types"
	"verifharness/lib"
)

type radixPadCase struct {
	Kind  string `json:"kind"` // "radix-pad"
	N     int64  `json:"n"`
	D     string `json:"directive"`
	Radix int64  `json:"radix"`
	Abs   int    `json:"abs"` // 0: argument not given, 1: false, 2: true
}

// intCtor observes the Integer constructor on a string: positional Integer.new(s, radix [, abs]) or
// named Integer.new({from => s, radix => radix [, abs => abs]})
func intCtor(c px.Context, named bool, s string, radix int64, abs int) (n int64, errText string) {
	defer func() {
		if r := recover(); r != nil {
			errText = strings.SplitN(fmt.Sprint(r), "\n", 2)[0]
			if len(errText) > 160 {
				errText = errText[:160]
			}
			if errText == "" {
				errText = "error"
			}
		}
	}()
	var r px.Value
	if named {
		es := []*types.HashEntry{types.WrapHashEntry2("from", types.WrapString(s)), types.WrapHashEntry2("radix", types.WrapInteger(radix))}
		if abs > 0 {
			es = append(es, types.WrapHashEntry2("abs", types.WrapBoolean(abs == 2)))
		}
		r = px.New(c, types.DefaultIntegerType(), types.WrapHash(es))
	} else {
		args := []px.Value{types.WrapString(s), types.WrapInteger(radix)}
		if abs > 0 {
			args = append(args, types.WrapBoolean(abs == 2))
		}
		r = px.New(c, types.DefaultIntegerType(), args...)
	}
	if i, ok := r.(px.Integer); ok {
		return i.Int(), ""
	}
	return 0, "not an Integer: " + r.String()
}

func hasDigit(s string) bool {
	for i := 0; i < len(s); i++ {
		if s[i] >= '0' && s[i] <= '9' || s[i] >= 'a' && s[i] <= 'f' || s[i] >= 'A' && s[i] <= 'F' {
			return true
		}
	}
	return false
}

// radixPadOne renders, trims the padding spaces, converts back in both forms, evaluates the clause,
// and hands the case to the emitter.
func (r *runner) radixPadOne(c radixPadCase, toCoq bool) (text string, res [2]string) {
	r.res.Evaluations++
	r.res.Count("family.radix-pad")
	d, cls := refParse(c.D)
	o := formatCase(vInt(c.N), sStr(c.D))
	if cls != "" || o.Err != "" {
		r.res.Violate(lib.Violation{Clause: "radix", What: fmt.Sprintf("%d under %q: %s", c.N, c.D, o), Input: c, Tags: []string{"radix-render"}})
		return "", [2]string{o.String(), o.String()}
	}
	text = o.Text
	core := strings.TrimSpace(text)
	r.res.Nontrivial(fmt.Sprintf("radix-pad %d @ %s @ %d @ %d", c.N, c.D, c.Radix, c.Abs))
	failed := false
	var back [2]int64
	var errs [2]string
	for form := 0; form < 2; form++ {
		back[form], errs[form] = intCtor(r.ctx, form == 1, core, c.Radix, c.Abs)
		if errs[form] == "" {
			res[form] = fmt.Sprint(back[form])
		} else {
			res[form] = "error: " + errs[form]
		}
	}
	demand := c.Radix == radixOf(d.Letter) && c.Abs != 2 // abs => true is the constructor's own subject, tied by the model only
	if demand && !hasDigit(core) {
		// fmt's rule: precision 0 of the integer 0 renders no digit
		if !(d.Prec == 0 && c.N == 0) {
			failed = true
			r.tagCount["radix/radix-pad-empty"]++
			r.res.Violate(lib.Violation{Clause: "radix", What: fmt.Sprintf("%d renders under %q as %q, which holds no digit", c.N, c.D, text), Input: c, Tags: []string{"radix-pad-empty"}})
		}
		r.res.Count("radix-pad.no-digit")
		demand = false
	}
	if demand {
		for form, name := range []string{"positional", "named"} {
			if errs[form] == "" && back[form] == c.N {
				continue
			}
			failed = true
			tag := "radix-pad-" + string(d.Letter)
			if d.has('#') {
				tag += "-alt"
			}
			tag += "-" + name
			call := fmt.Sprintf("Integer.new(%q, %d)", core, c.Radix)
			if form == 1 {
				call = fmt.Sprintf("Integer.new({from => %q, radix => %d})", core, c.Radix)
			}
			r.tagCount["radix/"+tag]++
			r.res.Violate(lib.Violation{Clause: "radix", What: fmt.Sprintf("%d renders under %q as %q; %s gives %s", c.N, c.D, text, call, res[form]),
				Input: c, Tags: []string{tag}})
		}
	}
	if toCoq || (failed && r.em.failing < 20) {
		if failed {
			r.em.failing++
		}
		r.em.addRadixPad(c, text, back, errs)
	}
	return
}

var radixPadHand = []int64{0, 1, -1, 7, 8, 9, 10, 15, 16, 255, -255, 0xb1, 4096, 0xabcdef, -0xabcdef, math.MaxInt32, math.MaxInt64,
	math.MinInt64, math.MinInt64 + 1, 1 << 62, 0x7edcba9876543210, 1234567890123}

// digits a 64 bit number needs at most, per letter
func maxDigits(l byte) int {
	switch l {
	case 'b', 'B':
		return 64
	case 'o':
		return 22
	case 'd':
		return 19
	}
	return 16
}

func boundarySizes(l byte) []int {
	D := maxDigits(l)
	return []int{1, 2, D - 1, D, D + 1, D + 2, D + 3, D + 8, 2 * D, 2*D + 1, 3*D + 5}
}

var (
	padZeroFlags  = []string{"0", "#0", "+0", "#+0", " 0", "-0"}
	padSpaceFlags = []string{"", "-", "#", " ", "+-", "#-"}
	padPrecFlags  = []string{"", "#", "+", "#+", " ", "-", "0"}
	padBothFlags  = []string{"", "0", "-", "#"}
)

func (r *runner) radixPadFamily(thorough bool) {
	idx := 0
	emitNow := func() bool {
		idx++
		return (idx+int(r.cfg.Seed))%60 == 0
	}
	absOf := func() int {
		if idx%9 == 4 {
			return 1 + (idx/9)%2
		}
		return 0
	}
	run := func(n int64, fl string, w, p int, l byte) {
		c := radixPadCase{Kind: "radix-pad", N: n, D: Directive{Flags: fl, Width: w, Prec: p, Letter: l}.String(), Radix: radixOf(l)}
		e := emitNow()
		c.Abs = absOf()
		r.radixPadOne(c, e)
	}
	// bounded-exhaustive: hand-made integers x letters x sizes around the digit count of a 64 bit number x fill forms
	for _, l := range []byte("dxXobB") {
		sizes := boundarySizes(l)
		D := maxDigits(l)
		for _, n := range radixPadHand {
			for _, sz := range sizes {
				for _, fl := range padZeroFlags {
					run(n, fl, sz, -1, l)
				}
				for _, fl := range padPrecFlags {
					run(n, fl, -1, sz, l)
				}
			}
			for _, sz := range []int{D + 1, 2*D + 1} {
				for _, fl := range padSpaceFlags {
					run(n, fl, sz, -1, l)
				}
			}
			for _, sz := range []int{D, D + 1} {
				for _, fl := range padBothFlags {
					run(n, fl, sz+5, sz, l)
				}
			}
			run(n, "", -1, 0, l)
			run(n, "#", 6, 0, l)
		}
	}
	// seeded random: integers x random fill form x boundary or uniform size
	nr := 1500
	if thorough {
		nr = 60000
	}
	ls := []byte("dxXobB")
	for i := 0; i < nr; i++ {
		g := r.rng.Fork()
		n := randomInt(g)
		for k := 0; k < 6; k++ {
			l := ls[g.Intn(len(ls))]
			sz := 1 + g.Intn(140)
			if g.Intn(2) == 0 {
				bs := boundarySizes(l)
				sz = bs[g.Intn(len(bs))]
			}
			switch g.Intn(4) {
			case 0:
				run(n, padZeroFlags[g.Intn(len(padZeroFlags))], sz, -1, l)
			case 1:
				run(n, padPrecFlags[g.Intn(len(padPrecFlags))], -1, sz, l)
			case 2:
				run(n, padSpaceFlags[g.Intn(len(padSpaceFlags))], sz, -1, l)
			default:
				run(n, padBothFlags[g.Intn(len(padBothFlags))], sz+g.Intn(8), sz, l)
			}
		}
	}
	// the Radix parameter of both dispatches: a radix outside {2, 8, 10, 16} is no call of the constructor (model tie only)
	for i, rx := range []int64{0, 1, 3, 7, 9, 12, 32, 36, -16, 64} {
		for j, l := range []byte("dxob") {
			c := radixPadCase{Kind: "radix-pad", N: radixPadHand[(3*i+j)%len(radixPadHand)], D: Directive{Flags: "0", Width: 12, Prec: -1, Letter: l}.String(), Radix: rx}
			r.radixPadOne(c, true)
		}
	}
}
