package main

import (
	"fmt"
	"strconv"
	"strings"
)

// Directive is a format directive of the documented grammar
//   %<flags><width>.<precision><letter>      flags ⊆ { space + - # 0 [ { < ( | }   (px/format.go:54)
// written independently of the implementation's parser (reference for the direct check).
type Directive struct {
	Flags  string // in the order written
	Width  int    // -1: none
	Prec   int    // -1: none
	Letter byte
}

func (d Directive) String() string {
	var b strings.Builder
	b.WriteByte('%')
	b.WriteString(d.Flags)
	if d.Width >= 0 {
		b.WriteString(strconv.Itoa(d.Width))
	}
	if d.Prec >= 0 {
		b.WriteByte('.')
		b.WriteString(strconv.Itoa(d.Prec))
	}
	b.WriteByte(d.Letter)
	return b.String()
}

func (d Directive) has(c byte) bool { return strings.IndexByte(d.Flags, c) >= 0 }

const delimChars = "[{(<|"
const flagChars = " +-#0[{<(|"

// refParse is the reference reading of the directive grammar. class is "" for a valid directive,
// otherwise the error the documentation names: invalid-spec, repeated-flag, delimiter.
// Whitespace other than ' ' is admitted by the pattern's \s among the flags and carries no meaning.
func refParse(s string) (d Directive, class string) {
	d.Width, d.Prec = -1, -1
	if len(s) < 2 || s[0] != '%' {
		return d, "invalid-spec"
	}
	i := 1
	for i < len(s) && (strings.IndexByte(flagChars, s[i]) >= 0 || strings.IndexByte("\t\n\f\r", s[i]) >= 0) {
		i++
	}
	d.Flags = s[1:i]
	if i < len(s) && s[i] >= '1' && s[i] <= '9' {
		j := i
		for j < len(s) && s[j] >= '0' && s[j] <= '9' {
			j++
		}
		w, err := strconv.Atoi(s[i:j])
		if err != nil {
			return d, "invalid-spec" // does not fit an int
		}
		d.Width = w
		i = j
	}
	if i < len(s) && s[i] == '.' {
		j := i + 1
		for j < len(s) && s[j] >= '0' && s[j] <= '9' {
			j++
		}
		if j == i+1 {
			return d, "invalid-spec"
		}
		p, err := strconv.Atoi(s[i+1 : j])
		if err != nil {
			return d, "invalid-spec"
		}
		d.Prec = p
		i = j
	}
	if i != len(s)-1 || !(s[i] >= 'a' && s[i] <= 'z' || s[i] >= 'A' && s[i] <= 'Z') {
		return d, "invalid-spec"
	}
	d.Letter = s[i]
	// the same flag may be used once only; at most one delimiter
	seen := map[byte]bool{}
	repeated := false
	for k := 0; k < len(d.Flags); k++ {
		if strings.IndexByte(flagChars, d.Flags[k]) < 0 {
			continue // white space other than ' ' is not a documented flag: nothing is demanded of it
		}
		if seen[d.Flags[k]] {
			repeated = true
		}
		seen[d.Flags[k]] = true
	}
	nd := 0
	for k := 0; k < len(delimChars); k++ {
		if seen[delimChars[k]] {
			nd++
		}
	}
	switch {
	case repeated && nd > 1:
		return d, "repeated-flag|delimiter" // the documentation does not rank the two errors
	case repeated:
		return d, "repeated-flag"
	case nd > 1:
		return d, "delimiter"
	}
	return d, ""
}

// classMatches: does the observed error class satisfy the expected one ("a|b" admits either)
func classMatches(expected, got string) bool {
	for _, e := range strings.Split(expected, "|") {
		if e == got {
			return true
		}
	}
	return false
}

// goDirective is the directive for Go's fmt that carries the same C-printf meaning: only the flags
// fmt knows (+ - # 0 space), in canonical order, then width, precision and the verb.
func (d Directive) goDirective(verb byte) string {
	var b strings.Builder
	b.WriteByte('%')
	for _, c := range []byte("+-# 0") {
		if d.has(c) {
			b.WriteByte(c)
		}
	}
	if d.Width >= 0 {
		b.WriteString(strconv.Itoa(d.Width))
	}
	if d.Prec >= 0 {
		b.WriteByte('.')
		b.WriteString(strconv.Itoa(d.Prec))
	}
	b.WriteByte(verb)
	return b.String()
}

// documented sets of format characters per value kind (Puppet language specification, section
// "String.new"; they are also the sets the implementation names in its error message).
var docSet = map[string]string{
	"Integer": "dxXobBeEfgGaAspc",
	"Float":   "dxXobBeEfgGaAsp",
	"String":  "cCudspt",
	"Boolean": "tTyYdxXobBeEfgGaAsp",
	"Array":   "asp",
	"Hash":    "hasp",
	"Binary":  "bButTsp",
	"Default": "dDsp",
	// Undef and Regexp: the implementation documents no set and never raises the error
}

func inDocSet(kind string, c byte) bool {
	set, ok := docSet[kind]
	if !ok {
		return true
	}
	return strings.IndexByte(set, c) >= 0
}

func fmtQ(s string) string { return fmt.Sprintf("%q", s) }
