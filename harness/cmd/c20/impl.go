package main

import (
	"fmt"
	"runtime"
	"strings"

	"github.com/lyraproj/issue/issue"
	"github.com/lyraproj/pcore/px"
	"github.com/lyraproj/pcore/types"
	"verifharness/lib"
)

// Obs is the projected observable of one formatting call: the produced text, or an error class.
type Obs struct {
	Text string // valid when Err == ""
	Err  string // "" | unsupported | invalid-spec | repeated-flag | delimiter | failure | fault | other
	// for Err == unsupported: the reported format character, type name and supported set
	Letter byte
	Type   string
	Set    string
	Detail string // human readable (never compared)
}

func (o Obs) String() string {
	if o.Err == "" {
		return fmt.Sprintf("%q", o.Text)
	}
	if o.Err == "unsupported" {
		return fmt.Sprintf("error unsupported-format(%q for %s, supported %q)", o.Letter, o.Type, o.Set)
	}
	return "error " + o.Err + " (" + o.Detail + ")"
}

func (o Obs) gallina() string {
	switch o.Err {
	case "":
		return "OText " + lib.GStr(o.Text)
	case "unsupported":
		return fmt.Sprintf("OErr (EUnsupported %d%%N Kd%s)", o.Letter, o.Type)
	case "invalid-spec":
		return "OErr EInvalidSpec"
	case "repeated-flag":
		return "OErr ERepeatedFlag"
	case "delimiter":
		return "OErr EDelimiter"
	case "failure":
		return "OErr EFailure"
	case "fault":
		return "OErr EFault"
	}
	return "OErr EOther"
}

func classify(r interface{}) Obs {
	if _, ok := r.(runtime.Error); ok {
		return Obs{Err: "fault", Detail: fmt.Sprint(r)}
	}
	if rep, ok := r.(issue.Reported); ok {
		// String.new wraps the error of NewFormatContext3 in an illegal-argument issue; the
		// harness calls NewFormatContext3 itself, so the codes are seen directly.
		o := Obs{Detail: strings.SplitN(rep.Error(), " (file:", 2)[0]}
		switch rep.Code() {
		case px.UnsupportedStringFormat:
			o.Err = "unsupported"
			if c, ok := rep.Argument("format").(byte); ok {
				o.Letter = c
			}
			o.Type, _ = rep.Argument("type").(string)
			o.Set, _ = rep.Argument("supported_formats").(string)
		case px.InvalidStringFormatSpec:
			o.Err = "invalid-spec"
		case px.InvalidStringFormatRepeatedFlag:
			o.Err = "repeated-flag"
		case px.InvalidStringFormatDelimiter:
			o.Err = "delimiter"
		case px.Failure:
			o.Err = "failure"
		default:
			o.Err = "other"
			o.Detail = string(rep.Code()) + ": " + o.Detail
		}
		return o
	}
	// any other panic value (a string, a plain error) is an escaped fault of the formatter
	return Obs{Err: "fault", Detail: fmt.Sprintf("panic(%T): %.200v", r, r)}
}

// format runs the implementation: px.NewFormatContext3(value, spec) then px.ToString2.
func format(v px.Value, spec px.Value) (o Obs) {
	defer func() {
		if r := recover(); r != nil {
			o = classify(r)
		}
	}()
	ctx, err := px.NewFormatContext3(v, spec)
	if err != nil {
		return classify(err)
	}
	return Obs{Text: px.ToString2(v, ctx)}
}

func formatCase(v Val, s Spec) Obs { return format(v.px(), s.px()) }

// formatNew observes through the String constructor: px.New(c, String, v, spec)
func formatNew(c px.Context, v px.Value, spec px.Value) (text string, failed bool) {
	defer func() {
		if r := recover(); r != nil {
			failed = true
		}
	}()
	return px.New(c, types.DefaultStringType(), v, spec).String(), false
}

// intNew observes the Integer constructor with radix: px.New(c, Integer, s, radix)
func intNew(c px.Context, s string, radix int64) (n int64, errText string) {
	defer func() {
		if r := recover(); r != nil {
			errText = strings.SplitN(fmt.Sprint(r), "\n", 2)[0]
			if len(errText) > 160 {
				errText = errText[:160]
			}
			if errText == "" {
				errText = "error"
			}
		}
	}()
	r := px.New(c, types.DefaultIntegerType(), types.WrapString(s), types.WrapInteger(radix))
	if i, ok := r.(px.Integer); ok {
		return i.Int(), ""
	}
	return 0, "not an Integer: " + r.String()
}
