package main

import (
	"bytes"
	"encoding/base64"
	"fmt"
	"math"
	"sort"
	"strconv"
	"strings"

	"github.com/lyraproj/pcore/px"
	"github.com/lyraproj/pcore/types"
	"github.com/lyraproj/pcore/utils"
	"verifharness/lib"
)

func safeAssignable(a, b px.Type) (r bool) {
	defer func() {
		if recover() != nil {
			r = false
		}
	}()
	return px.IsAssignable(a, b)
}

// The emitter writes the cases for the model (M): value, specification, oracle tables, observed
// outcome. Oracle tables carry the results of library code that is modelled rather than verified:
// PuppetQuote/RegexpQuote (property C05), Unicode case mapping beyond ASCII, strconv float digits,
// the int64<->float64 conversions of the platform.

type emitter struct {
	cfg      *lib.Config
	files    []*lib.CasesFile
	radix    *lib.CasesFile
	rpad     *lib.CasesFile
	share    []*lib.CasesFile // values with aliasing: lvalue terms, format_value_g
	nShare   int
	sprintf  []*lib.CasesFile // PuppetSprintf / PuppetFprintf calls: sprintf_model
	nSprintf int
	failing  int
	perFile  int
}

func newCases() *lib.CasesFile {
	return &lib.CasesFile{Imports: []string{"Model.Base", "Model.Format", "Corr.CorrC20"}, Typ: "fcase",
		Obligations: map[string]string{"format_model": "format_mismatches cases"}}
}

func newEmitter(cfg *lib.Config) *emitter {
	e := &emitter{cfg: cfg, perFile: 400}
	e.radix = &lib.CasesFile{Imports: []string{"Model.Base", "Model.Format", "Corr.CorrC20"}, Typ: "rcase",
		Obligations: map[string]string{"radix_model": "radix_mismatches cases"}}
	e.rpad = &lib.CasesFile{Imports: []string{"Model.Base", "Model.Format", "Corr.CorrC20"}, Typ: "pcase",
		Obligations: map[string]string{"radix_pad_model": "radix_pad_mismatches cases"}}
	return e
}

func isASCII(s string) bool {
	for i := 0; i < len(s); i++ {
		if s[i] >= 0x80 {
			return false
		}
	}
	return true
}

// plain: printable ASCII without ' and \ — PuppetQuote(s) = 's' (modelled exactly)
func isPlain(s string) bool {
	for i := 0; i < len(s); i++ {
		if s[i] < 0x20 || s[i] > 0x7e || s[i] == '\'' || s[i] == '\\' {
			return false
		}
	}
	return true
}

func puppetQuote(s string) string {
	b := bytes.NewBufferString("")
	utils.PuppetQuote(b, s)
	return b.String()
}

func regexpQuote(s string) string {
	b := bytes.NewBufferString("")
	utils.RegexpQuote(b, s)
	return b.String()
}

type oracle struct {
	quote  map[string]string
	rquote map[string]string
	cases  map[string]string // key: op byte + string
	fdig   map[string]string // key: bits/verb/prec
	i2f    map[int64]uint64
	f2i    map[uint64]int64
	self   map[string]bool // key: Gallina text of a nested container value (directive-string specs only)
}

func specPrecs(s Spec) []int {
	ps := map[int]bool{-1: true, 6: true}
	var walk func(m []MapEnt)
	addD := func(ds string) {
		if d, cls := refParse(ds); cls == "" && d.Prec >= 0 {
			ps[d.Prec] = true
		}
	}
	walk = func(m []MapEnt) {
		for _, e := range m {
			if e.Str != nil {
				addD(unhex(*e.Str))
			} else {
				addD(unhex(e.Hash.Format))
				walk(e.Hash.SF)
			}
		}
	}
	if s.Kind == "str" {
		addD(s.directive())
	}
	walk(s.Map)
	out := []int{}
	for p := range ps {
		out = append(out, p)
		if p > 0 && !ps[p-1] {
			out = append(out, p-1) // %g forced into scientific notation uses %e with one digit less (floattype.go:359)
		}
	}
	sort.Ints(out)
	return out
}

func specHasFloatLetter(s Spec) bool {
	has := false
	chk := func(ds string) {
		if d, cls := refParse(ds); cls == "" && strings.IndexByte("eEfgGaA", d.Letter) >= 0 {
			has = true
		}
	}
	var walk func(m []MapEnt)
	walk = func(m []MapEnt) {
		for _, e := range m {
			if e.Str != nil {
				chk(unhex(*e.Str))
			} else {
				chk(unhex(e.Hash.Format))
				walk(e.Hash.SF)
			}
		}
	}
	if s.Kind == "str" {
		chk(s.directive())
	}
	walk(s.Map)
	return has
}

func buildOracle(v Val, s Spec) *oracle {
	o := &oracle{quote: map[string]string{}, rquote: map[string]string{}, cases: map[string]string{}, fdig: map[string]string{},
		i2f: map[int64]uint64{}, f2i: map[uint64]int64{}, self: map[string]bool{}}
	precs := specPrecs(s)
	if s.Kind == "str" && v.isContainer() {
		// the context of a directive string has one key, the inferred type of the top value; which nested
		// containers that type accepts is type inference + assignability (properties C01/C04): oracle
		topT := v.px().PType()
		v.walk(func(x Val) {
			if !x.isContainer() {
				return
			}
			o.self[x.gallina()] = safeAssignable(topT, x.px().PType())
			if x.K == "hash" {
				// Hash under %a renders as the array of its entries (hashtype.go:1271)
				es := make([]string, len(x.Es))
				for i := range x.Es {
					es[i] = "(VArr [(" + x.Ks[i].gallina() + "); (" + x.Es[i].gallina() + ")])"
				}
				o.self["VArr "+lib.GList(es, "value")] = safeAssignable(topT, types.WrapArray3(x.px().(*types.Hash)).PType())
			}
		})
	}
	floatLetters := specHasFloatLetter(s)
	addQ := func(x string) {
		if !isPlain(x) {
			o.quote[x] = puppetQuote(x)
		}
	}
	addFloat := func(f float64) {
		bits := math.Float64bits(f)
		for _, verb := range []byte("eEfgGxX") {
			for _, p := range precs {
				if p > 40 {
					continue
				}
				o.fdig[fmt.Sprintf("%d/%d/%d", bits, verb, p)] = strconv.FormatFloat(math.Abs(f), verb, p, 64)
			}
		}
	}
	v.walk(func(x Val) {
		switch x.K {
		case "str":
			str := x.bytes()
			vars := []string{str}
			if !isASCII(str) {
				o.cases["u"+str] = strings.ToUpper(str)
				o.cases["d"+str] = strings.ToLower(str)
				o.cases["c"+str] = utils.CapitalizeSegment(str)
				o.cases["C"+str] = utils.CapitalizeSegments(str)
				o.cases["t"+str] = strings.TrimSpace(str)
			}
			vars = append(vars, strings.ToUpper(str), strings.ToLower(str), utils.CapitalizeSegment(str), utils.CapitalizeSegments(str), strings.TrimSpace(str))
			for _, y := range vars {
				addQ(y)
			}
		case "int":
			var b bytes.Buffer
			b.WriteRune(rune(x.I))
			addQ(b.String())
			if floatLetters {
				f := float64(x.I)
				o.i2f[x.I] = math.Float64bits(f)
				addFloat(f)
			}
		case "bool":
			if floatLetters {
				addFloat(0)
				addFloat(1)
			}
		case "float":
			f := x.float()
			o.f2i[math.Float64bits(f)] = int64(f)
			addFloat(f)
		case "bin":
			// with '#' the text chosen by the format character is quoted (binarytype.go:295)
			raw := []byte(x.bytes())
			addQ(x.bytes())
			std := base64.StdEncoding.EncodeToString(raw)
			for _, y := range []string{"Binary('" + std + "')", std + "\n", std, base64.URLEncoding.EncodeToString(raw), "Binary", "BINARY"} {
				addQ(y)
			}
		case "re":
			o.rquote[x.bytes()] = regexpQuote(x.bytes())
		}
	})
	return o
}

func sortedKeys(m map[string]string) []string {
	ks := make([]string, 0, len(m))
	for k := range m {
		ks = append(ks, k)
	}
	sort.Strings(ks)
	return ks
}

func (o *oracle) gallina() string {
	var q, rq, cs, fd, i2f, f2i []string
	for _, k := range sortedKeys(o.quote) {
		q = append(q, lib.GPair(lib.GStr(k), lib.GStr(o.quote[k])))
	}
	for _, k := range sortedKeys(o.rquote) {
		rq = append(rq, lib.GPair(lib.GStr(k), lib.GStr(o.rquote[k])))
	}
	for _, k := range sortedKeys(o.cases) {
		cs = append(cs, lib.GPair(lib.GPair(fmt.Sprintf("%d%%N", k[0]), lib.GStr(k[1:])), lib.GStr(o.cases[k])))
	}
	for _, k := range sortedKeys(o.fdig) {
		var bits uint64
		var verb, prec int
		_, _ = fmt.Sscanf(k, "%d/%d/%d", &bits, &verb, &prec)
		fd = append(fd, lib.GPair(fmt.Sprintf("((%d)%%Z, %d%%N, (%d)%%Z)", bits, verb, prec), lib.GStr(o.fdig[k])))
	}
	ik := make([]int64, 0, len(o.i2f))
	for k := range o.i2f {
		ik = append(ik, k)
	}
	sort.Slice(ik, func(a, b int) bool { return ik[a] < ik[b] })
	for _, k := range ik {
		i2f = append(i2f, lib.GPair(lib.GZ(k), fmt.Sprintf("(%d)%%Z", o.i2f[k])))
	}
	fk := make([]uint64, 0, len(o.f2i))
	for k := range o.f2i {
		fk = append(fk, k)
	}
	sort.Slice(fk, func(a, b int) bool { return fk[a] < fk[b] })
	for _, k := range fk {
		f2i = append(f2i, lib.GPair(fmt.Sprintf("(%d)%%Z", k), lib.GZ(o.f2i[k])))
	}
	var self []string
	sk := make([]string, 0, len(o.self))
	for k := range o.self {
		sk = append(sk, k)
	}
	sort.Strings(sk)
	for _, k := range sk {
		self = append(self, lib.GPair("("+k+")", lib.GBool(o.self[k])))
	}
	return fmt.Sprintf("(mkOracle %s %s %s %s %s %s %s)", lib.GList(q, "str * str"), lib.GList(rq, "str * str"), lib.GList(cs, "(N * str) * str"),
		lib.GList(fd, "(Z * N * Z) * str"), lib.GList(i2f, "Z * Z"), lib.GList(f2i, "Z * Z"), lib.GList(self, "value * bool"))
}

func (e *emitter) add(v Val, s Spec, o Obs) {
	if len(e.files) == 0 || len(e.files[len(e.files)-1].Cases) >= e.perFile {
		e.files = append(e.files, newCases())
	}
	cf := e.files[len(e.files)-1]
	term := fmt.Sprintf("mkCase (%s) (%s) %s (%s)", v.gallina(), s.gallina(), buildOracle(v, s).gallina(), o.gallina())
	cf.Add(term, fcase{Kind: "format", V: v, S: s})
}

// addShared: a value in which an instance occurs at several positions, with the identities, for the
// model of the recursion guard (format_value_g); capped.
func (e *emitter) addShared(v Val, s Spec, o Obs) {
	limit := 450
	if e.cfg.Thorough() {
		limit = 3000
	}
	if e.nShare >= limit {
		return
	}
	if len(e.share) == 0 || len(e.share[len(e.share)-1].Cases) >= 150 {
		e.share = append(e.share, &lib.CasesFile{Imports: []string{"Model.Base", "Model.Format", "Model.FormatShare", "Corr.CorrC20"}, Typ: "scase",
			Obligations: map[string]string{"share_model": "share_mismatches cases"}})
	}
	e.nShare++
	term := fmt.Sprintf("mkSCase (%s) (%s) %s (%s)", v.lgallina(), s.gallina(), buildOracle(v, s).gallina(), o.gallina())
	e.share[len(e.share)-1].Add(term, fcase{Kind: "format", V: v, S: s})
}

func (e *emitter) addRadix(c radixCase, text string, back int64, errText string) {
	if len(e.radix.Cases) >= 1000 && !e.cfg.Thorough() || len(e.radix.Cases) >= 8000 {
		return
	}
	res := "(@None Z)"
	if errText == "" {
		res = "(Some " + lib.GZ(back) + ")"
	}
	e.radix.Add(fmt.Sprintf("mkRCase %s %s %s %s %s", lib.GZ(c.N), lib.GStr(c.D), lib.GZ(c.Radix), lib.GStr(text), res), c)
}

// addRadixPad: a padded rendering, trimmed, through both dispatches of the Integer constructor
func (e *emitter) addRadixPad(c radixPadCase, text string, back [2]int64, errs [2]string) {
	if len(e.rpad.Cases) >= 1200 && !e.cfg.Thorough() || len(e.rpad.Cases) >= 8000 {
		return
	}
	res := [2]string{}
	for i := range res {
		res[i] = "(@None Z)"
		if errs[i] == "" {
			res[i] = "(Some " + lib.GZ(back[i]) + ")"
		}
	}
	abs := "(@None bool)"
	if c.Abs > 0 {
		abs = "(Some " + lib.GBool(c.Abs == 2) + ")"
	}
	e.rpad.Add(fmt.Sprintf("mkPCase %s %s %s %s %s %s %s", lib.GZ(c.N), lib.GStr(c.D), lib.GZ(c.Radix), abs, lib.GStr(text), res[0], res[1]), c)
}

// keysFile ties the model's key tables (key_sub, key_accepts) to px.IsAssignable on every run.
func keysFile(vals []Val) *lib.CasesFile {
	cf := &lib.CasesFile{Imports: []string{"Model.Base", "Model.Format", "Corr.CorrC20"}, Typ: "kcase",
		Obligations: map[string]string{"keys_model": "keys_mismatches cases"}}
	for _, a := range keyTypes {
		for _, b := range keyTypes {
			cf.Add(fmt.Sprintf("KSub K%s K%s %s", a, b, lib.GBool(safeAssignable(keyType(a), keyType(b)))),
				map[string]string{"kind": "key-sub", "a": a, "b": b})
		}
	}
	for _, v := range vals {
		pt := v.px().PType()
		for _, k := range keyTypes {
			cf.Add(fmt.Sprintf("KAcc K%s (%s) %s", k, v.gallina(), lib.GBool(safeAssignable(keyType(k), pt))),
				map[string]interface{}{"kind": "key-accepts", "key": k, "value": v})
		}
	}
	return cf
}

func (e *emitter) flush(res *lib.Result) {
	if emitDisabled {
		return
	}
	if e.cfg.Replay == "" {
		vals := append(scalarPool(), containerPool()...)
		res.CorrFiles = append(res.CorrFiles, keysFile(vals).WriteTo(e.cfg.Out, "cases_keys"))
	}
	for i, cf := range e.files {
		res.CorrFiles = append(res.CorrFiles, cf.WriteTo(e.cfg.Out, fmt.Sprintf("cases_format_%d", i)))
	}
	if len(e.radix.Cases) > 0 {
		res.CorrFiles = append(res.CorrFiles, e.radix.WriteTo(e.cfg.Out, "cases_radix"))
	}
	if len(e.rpad.Cases) > 0 {
		res.CorrFiles = append(res.CorrFiles, e.rpad.WriteTo(e.cfg.Out, "cases_radixpad"))
	}
	for i, cf := range e.share {
		res.CorrFiles = append(res.CorrFiles, cf.WriteTo(e.cfg.Out, fmt.Sprintf("cases_share_%d", i)))
	}
	for i, cf := range e.sprintf {
		res.CorrFiles = append(res.CorrFiles, cf.WriteTo(e.cfg.Out, fmt.Sprintf("cases_sprintf_%d", i)))
	}
}

// emitDisabled is set while the model is not yet written (development only)
var emitDisabled = false
