package main

// Family dwcraw (model: coq/Model/CtxRoot.v): px.DoWithContext and the public entry points composed of it - pcore.Do,
// pcore.Try, pcore.DoWithParent(Background | context), pcore.TryWithParent(Background | context) - called with EVERY
// kind of argument (the context that is current already, a new one, the one of an enclosing scope) and with bodies
// that do NOT nest properly: pcore.RootContext() (replaces the goroutine-local table and leaves its context current),
// threadlocal.Init / Set / Delete, and such scopes nested in each other, ended by return or by panic.
// One goroutine per case (confinement to the goroutine is the business of the other families), started by every
// route: plain go, threadlocal.Go, px.Fork, px.Go, and the body of a pcore.Do.
// D: at the first statement of a scope body px.CurrentContext() is the context handed to the body, which for
// DoWithContext is the argument (current-is-established); when a scope call is left - by return or by panic - the
// goroutine-local entry (table exists?, current context) is identical to the one found before the call
// (restored-after); the number of tables after the case is the one before (tls-released).
// M: start entry, program, events and final entry go to cases_root*.v (root_machine / root_spec of CorrC14.v).

import (
	"context"
	"errors"
	"fmt"
	"runtime"
	"strings"
	"sync"
	"time"

	"github.com/lyraproj/pcore/pcore"
	"github.com/lyraproj/pcore/px"
	"github.com/lyraproj/pcore/threadlocal"
	"verifharness/lib"
)

type ROp struct {
	// root | init | delete | setnew | obs | panic | gotry | dwc (Arg cur|new|outer K) | do | try |
	// dopar (Arg bg|cur) | trypar (Arg bg|cur)
	Op   string `json:"op"`
	Arg  string `json:"arg,omitempty"`
	K    int    `json:"k,omitempty"`
	Body []ROp  `json:"body,omitempty"`
}

type RCase struct {
	Start string `json:"start"` // plain | tlgo | fork | go | do
	Prog  []ROp  `json:"prog"`
}

func rBodyText(ps []ROp) string {
	s := make([]string, len(ps))
	for i := range ps {
		s[i] = ps[i].String()
	}
	return strings.Join(s, "; ")
}

func (p *ROp) String() string {
	b := "{" + rBodyText(p.Body) + "}"
	switch p.Op {
	case "root":
		return "RootContext()"
	case "init":
		return "threadlocal.Init()"
	case "delete":
		return "threadlocal.Delete(key)"
	case "setnew":
		return "threadlocal.Set(key,new)"
	case "obs":
		return "Observe"
	case "panic":
		return "Panic"
	case "gotry":
		return "recover" + b
	case "dwc":
		a := p.Arg
		if a == "outer" {
			a = fmt.Sprintf("outer%d", p.K)
		}
		return "DoWithContext(" + a + ")" + b
	case "do":
		return "pcore.Do" + b
	case "try":
		return "pcore.Try" + b
	case "dopar":
		return "pcore.DoWithParent(" + p.Arg + ")" + b
	case "trypar":
		return "pcore.TryWithParent(" + p.Arg + ")" + b
	}
	return p.Op
}

func (c *RCase) text() string { return "start=" + c.Start + " {" + rBodyText(c.Prog) + "}" }

// ---- model terms ------------------------------------------------------------------------------------------------------

// vis: the contexts established by the enclosing scopes, innermost first; false = not handed to the program (the root
// context of pcore.Do / pcore.Try)
func rGallinaBody(ps []ROp, vis []bool) string {
	el := make([]string, len(ps))
	for i := range ps {
		el[i] = ps[i].gallina(vis)
	}
	return lib.GList(el, "rop")
}

func visPush(vis []bool, b ...bool) []bool {
	n := make([]bool, 0, len(vis)+len(b))
	n = append(n, b...)
	return append(n, vis...)
}

// outerIndex: the index in the model's environment of the k-th context the program can name
func outerIndex(vis []bool, k int) int {
	for i, v := range vis {
		if v {
			if k == 0 {
				return i
			}
			k--
		}
	}
	return len(vis)
}

func (p *ROp) gallina(vis []bool) string {
	switch p.Op {
	case "root":
		return "RRoot"
	case "init":
		return "RInit"
	case "delete":
		return "RDelete"
	case "setnew":
		return "RSetNew"
	case "obs":
		return "RObs"
	case "panic":
		return "RPanic"
	case "gotry":
		return "RTry " + rGallinaBody(p.Body, vis)
	case "dwc":
		a := "ANew"
		switch p.Arg {
		case "cur":
			a = "ACur"
		case "outer":
			a = "(AOuter " + lib.GNat(outerIndex(vis, p.K)) + ")"
		}
		return "RDwc " + a + " " + rGallinaBody(p.Body, visPush(vis, true))
	case "do":
		return "RDwc ANew [RDwc ANew " + rGallinaBody(p.Body, visPush(vis, true, false)) + "]"
	case "try":
		return "RTry [RDwc ANew [RDwc ANew " + rGallinaBody(p.Body, visPush(vis, true, false)) + "]]"
	case "dopar":
		return "RDwc ANew " + rGallinaBody(p.Body, visPush(vis, true))
	case "trypar":
		return "RTry [RDwc ANew " + rGallinaBody(p.Body, visPush(vis, true)) + "]"
	}
	panic("bad root op " + p.Op)
}

type rEntry struct {
	Init bool
	Has  bool
	ID   int
}

func (e rEntry) gallina() string {
	switch {
	case !e.Init:
		return "(@None table)"
	case !e.Has:
		return "(Some (@None addr))"
	}
	return "(Some (Some " + lib.GNat(e.ID) + "))"
}

func (e rEntry) String() string {
	switch {
	case !e.Init:
		return "no table"
	case !e.Has:
		return "table without a current context"
	}
	return fmt.Sprintf("context %d", e.ID)
}

type rEvent struct {
	Obs     bool
	E       rEntry
	NoTable bool
}

func (e rEvent) gallina() string {
	if e.Obs {
		return "REObs " + e.E.gallina()
	}
	return "REPanic " + lib.GBool(e.NoTable)
}

func (e rEvent) String() string {
	if e.Obs {
		return "observe: " + e.E.String()
	}
	if e.NoTable {
		return "panic: threadlocal.Set without a table"
	}
	return "panic (program)"
}

// ---- the interpreter ----------------------------------------------------------------------------------------------------

var errRootUser = errors.New("c14 dwcraw: panic of the program")

type rRun struct {
	ids    map[px.Context]int
	next   int
	trace  []rEvent
	final  rEntry
	found  []finding
	tables [2]int
}

func (r *rRun) idOf(c px.Context) int {
	if id, ok := r.ids[c]; ok {
		return id
	}
	return unknownLabel
}

func (r *rRun) entry() (e rEntry, cur px.Context) {
	e.Init = threadlocal.Initialized()
	if v, ok := threadlocal.Get(px.PuppetContextKey); ok {
		e.Has = true
		cur, _ = v.(px.Context)
		e.ID = r.idOf(cur)
	}
	return
}

func (r *rRun) newCtx() px.Context {
	c := pcore.NewContext(px.NewParentedLoader(pcore.EnvironmentLoader()), pcore.Logger())
	r.ids[c] = r.next
	r.next++
	return c
}

func (r *rRun) violate(clause, what string) {
	if len(r.found) < 8 {
		r.found = append(r.found, finding{clause: clause, what: what})
	}
}

// scope runs one scope call; D: the entry after the call - however it ends - is the entry before
func (r *rRun) scope(p *ROp, call func()) {
	before, beforeCtx := r.entry()
	returned := false
	defer func() {
		after, afterCtx := r.entry()
		if after.Init != before.Init || after.Has != before.Has || afterCtx != beforeCtx {
			how := "returned"
			if !returned {
				how = "panicked"
			}
			r.violate("restored-after", fmt.Sprintf("before %s: %s; after it %s: %s", p.String(), before, how, after))
		}
	}()
	call()
	returned = true
}

// body: the first statement of a scope body; D: the context handed to the body is the current one
func (r *rRun) enter(p *ROp, c px.Context, want px.Context) {
	_, cur := r.entry()
	if cur != c {
		r.violate("current-is-established", fmt.Sprintf("at the start of the body of %s px.CurrentContext() is %s, the body was handed context %d",
			p.String(), func() string { e, _ := r.entry(); return e.String() }(), r.idOf(c)))
	}
	if want != nil && c != want {
		r.violate("current-is-established", fmt.Sprintf("the body of %s was handed context %d, the argument was context %d", p.String(), r.idOf(c), r.idOf(want)))
	}
}

func (r *rRun) run(ps []ROp, env []px.Context) {
	for i := range ps {
		r.exec(&ps[i], env)
	}
}

// env: the contexts the program can name (handed to the enclosing bodies), innermost first
func (r *rRun) exec(p *ROp, env []px.Context) {
	with := func(c px.Context) []px.Context { return append([]px.Context{c}, env...) }
	switch p.Op {
	case "root":
		id := r.next
		r.next++
		c := pcore.RootContext()
		r.ids[c] = id
	case "init":
		threadlocal.Init()
	case "delete":
		threadlocal.Delete(px.PuppetContextKey)
	case "setnew":
		c := r.newCtx()
		func() {
			defer func() {
				if rec := recover(); rec != nil {
					r.trace = append(r.trace, rEvent{NoTable: true})
					panic(rec)
				}
			}()
			threadlocal.Set(px.PuppetContextKey, c)
		}()
	case "obs":
		e, _ := r.entry()
		r.trace = append(r.trace, rEvent{Obs: true, E: e})
	case "panic":
		r.trace = append(r.trace, rEvent{})
		panic(errRootUser)
	case "gotry":
		func() {
			defer func() { _ = recover() }()
			r.run(p.Body, env)
		}()
	case "dwc":
		var arg px.Context
		switch p.Arg {
		case "cur":
			if _, cur := r.entry(); cur != nil {
				arg = cur
			}
		case "outer":
			if p.K < len(env) {
				arg = env[p.K]
			}
		}
		if arg == nil {
			arg = r.newCtx()
		}
		r.scope(p, func() {
			px.DoWithContext(arg, func(c px.Context) {
				r.enter(p, c, arg)
				r.run(p.Body, with(c))
			})
		})
	case "do", "try":
		inner := r.next + 1 // the root context of Do is the first of the two
		r.next += 2
		body := func(c px.Context) {
			r.ids[c] = inner
			r.enter(p, c, nil)
			r.run(p.Body, with(c))
		}
		r.scope(p, func() {
			if p.Op == "do" {
				pcore.Do(body)
			} else {
				_ = pcore.Try(func(c px.Context) error { body(c); return nil })
			}
		})
	case "dopar", "trypar":
		var parent context.Context = context.Background()
		if p.Arg == "cur" {
			if _, cur := r.entry(); cur != nil {
				parent = cur
			}
		}
		id := r.next
		r.next++
		body := func(c px.Context) {
			r.ids[c] = id
			r.enter(p, c, nil)
			r.run(p.Body, with(c))
		}
		r.scope(p, func() {
			if p.Op == "dopar" {
				pcore.DoWithParent(parent, body)
			} else {
				_ = pcore.TryWithParent(parent, func(c px.Context) error { body(c); return nil })
			}
		})
	default:
		panic("bad root op " + p.Op)
	}
}

func runRootCase(cs *RCase) *rRun {
	r := &rRun{ids: map[px.Context]int{}, next: 1}
	r.tables[0] = threadlocal.LiveTables()
	var done sync.WaitGroup
	done.Add(1)
	// the program proper; c0: the context that is current at the start (identity 0)
	prog := func(c0 px.Context) {
		defer func() {
			_ = recover()
			r.final, _ = r.entry()
		}()
		var env []px.Context
		if c0 != nil {
			r.ids[c0] = 0
		}
		r.run(cs.Prog, env)
	}
	switch cs.Start {
	case "plain":
		go func() {
			defer done.Done()
			defer threadlocal.Cleanup() // RootContext()/Init() at top level leave a table by design: the harness releases it
			prog(nil)
		}()
	case "tlgo":
		threadlocal.Go(func() {
			defer done.Done()
			prog(nil)
		})
	case "fork", "go":
		go func() {
			started := false
			defer func() {
				_ = recover()
				if !started {
					done.Done()
				}
			}()
			pcore.Do(func(c px.Context) {
				f := func(cf px.Context) {
					defer done.Done()
					prog(cf)
				}
				if cs.Start == "fork" {
					px.Fork(c, f)
				} else {
					px.Go(f)
				}
				started = true
			})
		}()
	case "do":
		go func() {
			defer done.Done()
			defer func() { _ = recover() }()
			pcore.Do(func(c px.Context) { prog(c) })
		}()
	default:
		panic("bad start " + cs.Start)
	}
	done.Wait()
	// the goroutines have passed their last statement; their deferred Cleanup may still be running
	for i := 0; i < 2000; i++ {
		if r.tables[1] = threadlocal.LiveTables(); r.tables[1] == r.tables[0] {
			break
		}
		runtime.Gosched()
		time.Sleep(50 * time.Microsecond)
	}
	if r.tables[1] != r.tables[0] {
		r.violate("tls-released", fmt.Sprintf("goroutine-local tables: %d before the case, %d after its goroutine has ended", r.tables[0], r.tables[1]))
	}
	return r
}

func rStartGallina(start string) string {
	switch start {
	case "plain":
		return "(@None table)"
	case "tlgo":
		return "(Some (@None addr))"
	}
	return "(Some (Some 0%nat))"
}

func (r *rRun) gallina(cs *RCase) string {
	ev := make([]string, len(r.trace))
	for i, e := range r.trace {
		ev[i] = e.gallina()
	}
	return "(" + rStartGallina(cs.Start) + ", " + rGallinaBody(cs.Prog, nil) + ", " + lib.GList(ev, "revent") + ", " + r.final.gallina() + ")"
}

func rootFile() *lib.CasesFile {
	return &lib.CasesFile{Imports: []string{"Model.Base", "Model.Ctx", "Model.CtxRoot", "Corr.CorrC14"},
		Typ:         "root_case",
		Obligations: map[string]string{"root_machine": "root_mismatches cases", "root_spec": "root_spec_violations cases"}}
}

func (r *runner) rootCheck(cs *RCase, family string, file string) *rRun {
	out := runRootCase(cs)
	res := r.res
	res.Evaluations++
	res.Count("family." + family)
	res.Count("dwcraw.start." + cs.Start)
	effect := false
	var visit func(ps []ROp, depth int)
	visit = func(ps []ROp, depth int) {
		for i := range ps {
			switch ps[i].Op {
			case "root", "init", "delete", "setnew":
				if depth > 0 {
					effect = true
				}
			case "dwc":
				res.Count("dwcraw.dwc." + ps[i].Arg)
			case "do", "try":
				res.Count("dwcraw." + ps[i].Op)
			case "dopar", "trypar":
				res.Count("dwcraw." + ps[i].Op + "." + ps[i].Arg)
			}
			d := depth
			if ps[i].Op != "gotry" {
				d++
			}
			visit(ps[i].Body, d)
		}
	}
	visit(cs.Prog, 0)
	if effect {
		// a scope whose body changes the goroutine-local entry by other means than a nested scope
		res.Nontrivial("dwcraw|" + cs.text())
		res.Count("nontrivial")
	}
	in := map[string]interface{}{"kind": "c14-root", "case": cs, "text": cs.text()}
	for _, f := range out.found {
		r.nviol++
		res.Violate(lib.Violation{Clause: f.clause, What: f.what + "   in: " + cs.text(), Input: in, Tags: f.tags})
	}
	if file == "" && len(out.found) > 0 && len(res.Violations) <= 20 {
		file = "cases_failing_root"
	}
	if file != "" {
		if r.files[file] == nil {
			r.files[file] = rootFile()
		}
		r.files[file].Add(out.gallina(cs), in)
	}
	return out
}

func (r *runner) replayRoot(in interface{}) {
	var x struct {
		Case RCase `json:"case"`
	}
	lib.Remarshal(in, &x)
	fmt.Printf("one goroutine, %s\n", x.Case.text())
	out := r.rootCheck(&x.Case, "replay", "cases_replay_root")
	for _, e := range out.trace {
		fmt.Printf("  %s\n", e.String())
	}
	fmt.Printf("  at the end: %s; goroutine-local tables before/after: %d/%d\n", out.final.String(), out.tables[0], out.tables[1])
	if len(out.found) == 0 {
		fmt.Println("the implementation satisfies the property on this case")
	}
	for _, f := range out.found {
		fmt.Printf("FAILS [%s] %s\n", f.clause, f.what)
	}
}

// ---- generators ------------------------------------------------------------------------------------------------------------

func rop(op string, body ...ROp) ROp { return ROp{Op: op, Body: body} }
func ropA(op, arg string, body ...ROp) ROp {
	return ROp{Op: op, Arg: arg, Body: body}
}

var rStarts = []string{"plain", "tlgo", "fork", "go", "do"}

// the scope constructs under test
func rScopes() []ROp {
	return []ROp{ropA("dwc", "cur"), ropA("dwc", "new"), ropA("dwc", "outer"), rop("do"), rop("try"),
		ropA("dopar", "bg"), ropA("dopar", "cur"), ropA("trypar", "bg"), ropA("trypar", "cur")}
}

// what a body does to the goroutine-local entry
func rEffects() [][]ROp {
	o := rop("obs")
	return [][]ROp{
		{},
		{rop("root"), o},
		{rop("init"), o},
		{rop("delete"), o},
		{rop("setnew"), o},
		{rop("init"), rop("setnew"), o},
		{rop("root"), rop("root"), o},
		{rop("root"), rop("delete"), o},
		{ropA("dwc", "new", rop("root"), o), o},
		{ropA("dwc", "cur", rop("root"), o), o},
		{rop("do", rop("root"), o), o},
		{rop("gotry", rop("root"), o, rop("panic")), o},
		{rop("try", rop("init"), rop("panic")), o},
		{ropA("dopar", "bg", rop("root"), o), o},
		{ropA("trypar", "cur", rop("delete"), rop("panic")), o},
		{rop("root"), ropA("dwc", "cur", rop("root"), o), o},
	}
}

func withBody(s ROp, body []ROp) ROp {
	s.Body = append([]ROp{}, body...)
	return s
}

func (r *runner) rootFamily(rng *lib.Rng) {
	o := rop("obs")
	// level 1: start x scope x effect x end of the body
	for _, start := range rStarts {
		for _, s := range rScopes() {
			for _, e := range rEffects() {
				for _, pan := range []bool{false, true} {
					body := append([]ROp{o}, e...)
					var stmt ROp
					if pan {
						stmt = rop("gotry", withBody(s, append(body, rop("panic"))))
					} else {
						stmt = withBody(s, body)
					}
					r.rootCheck(&RCase{Start: start, Prog: []ROp{o, stmt, o}}, "dwcraw", "cases_root0")
				}
			}
		}
	}
	// level 2: scope in scope, the inner body changes the entry; the outer body goes on afterwards
	starts2 := []string{"plain", "fork", "do"}
	if r.cfg.Thorough() {
		starts2 = rStarts
	}
	eff2 := [][]ROp{{rop("root"), o}, {rop("init"), o}, {rop("delete"), o}, {rop("root"), rop("panic")}}
	for _, start := range starts2 {
		for _, s1 := range rScopes() {
			for _, s2 := range rScopes() {
				for i, e := range eff2 {
					inner := withBody(s2, e)
					if i == 3 {
						inner = rop("gotry", inner)
					}
					r.rootCheck(&RCase{Start: start, Prog: []ROp{o, withBody(s1, []ROp{o, inner, o, rop("root"), o}), o}}, "dwcraw", "cases_root1")
				}
			}
		}
	}
	// random trees
	n := 600
	if r.cfg.Thorough() {
		n = 6000
	}
	for i := 0; i < n; i++ {
		cs := &RCase{Start: rStarts[rng.Intn(len(rStarts))], Prog: randomRootBody(rng, 0, 2+rng.Intn(4))}
		cs.Prog = append(cs.Prog, o)
		r.rootCheck(cs, "dwcraw-random", "cases_root2")
	}
}

func randomRootBody(rng *lib.Rng, depth, n int) []ROp {
	var ps []ROp
	scopes := rScopes()
	for i := 0; i < n; i++ {
		k := rng.Intn(20)
		switch {
		case k < 7 && depth < 4:
			s := scopes[rng.Intn(len(scopes))]
			if s.Arg == "outer" {
				s.K = rng.Intn(3)
			}
			s.Body = randomRootBody(rng, depth+1, 1+rng.Intn(4))
			ps = append(ps, s)
		case k < 9 && depth < 4:
			ps = append(ps, rop("gotry", randomRootBody(rng, depth+1, 1+rng.Intn(3))...))
		case k < 11:
			ps = append(ps, rop("root"))
		case k < 12:
			ps = append(ps, rop("init"))
		case k < 13:
			ps = append(ps, rop("delete"))
		case k < 14:
			ps = append(ps, rop("setnew"))
		case k < 15 && depth > 0:
			ps = append(ps, rop("panic"))
		default:
			ps = append(ps, rop("obs"))
		}
	}
	return ps
}
