package main

import (
	"fmt"

	"verifharness/lib"
)

// ---- small constructors ----------------------------------------------------------------------------

func obs() Prog                       { return Prog{Op: "Observe"} }
func set(k, v int) Prog               { return Prog{Op: "Set", K: k, V: v} }
func del(k int) Prog                  { return Prog{Op: "Del", K: k} }
func push(l int) Prog                 { return Prog{Op: "Push", K: l} }
func pop() Prog                       { return Prog{Op: "Pop"} }
func define(n, v int) Prog            { return Prog{Op: "Define", K: n, V: v} }
func setLoader(le string) Prog        { return Prog{Op: "SetLoader", LE: le} }
func pnc() Prog                       { return Prog{Op: "Panic"} }
func gexit() Prog                     { return Prog{Op: "Goexit"} }
func do(b ...Prog) Prog               { return Prog{Op: "Do", Body: b} }
func tryDo(b ...Prog) Prog            { return Prog{Op: "Do", Try: true, Body: b} }
func doCtx(ce string, b ...Prog) Prog { return Prog{Op: "DoCtx", CE: ce, Body: b} }
func doUp(k int, b ...Prog) Prog      { return Prog{Op: "DoCtx", CE: "up", K: k, Body: b} }
func doLoader(le string, b ...Prog) Prog {
	return Prog{Op: "DoLoader", LE: le, Body: b}
}
func doParent(b ...Prog) Prog { return Prog{Op: "DoParent", Body: b} }
func fork(b ...Prog) Prog     { return Prog{Op: "Fork", Body: b} }
func pgo(b ...Prog) Prog      { return Prog{Op: "Go", Body: b} }
func tlgo(b ...Prog) Prog     { return Prog{Op: "TlGo", Body: b} }
func try(b ...Prog) Prog      { return Prog{Op: "Try", Body: b} }

func copyProgs(ps []Prog) []Prog {
	out := make([]Prog, len(ps))
	for i, p := range ps {
		out[i] = p
		out[i].Body = copyProgs(p.Body)
	}
	return out
}

func copyRoots(rs [][]Prog) [][]Prog {
	out := make([][]Prog, len(rs))
	for i, r := range rs {
		out[i] = copyProgs(r)
	}
	return out
}

// ---- corpus: regressions and hand-written scenarios, always run first ----------------------------------

func corpusRoots() [][][]Prog {
	return [][][]Prog{
		// DoWithContext on a goroutine without a table (fixed defect: Init without Cleanup, context left current)
		{{obs(), doCtx("new", obs(), set(0, 1), obs()), obs()}},
		// pcore.Do on a goroutine without a table, and nested (fixed defect: RootContext replaced the table)
		{{obs(), do(obs(), set(0, 1), do(obs(), set(0, 2), obs()), obs()), obs()}},
		{{tryDo(obs(), do(set(1, 5), pnc()), obs()), obs()}},
		{{do(set(0, 1), try(do(set(0, 2), obs(), pnc())), obs(), try(doCtx("fork", set(0, 3), pnc())), obs())}},
		// px.Fork: the parent's changes after the call are invisible to the child (fixed defect: the fork was taken
		// concurrently in the child)
		{{do(set(0, 1), push(7), define(0, 10), fork(obs(), set(0, 2), push(8), define(1, 20), obs()), set(0, 3), set(1, 4), push(9), obs(), del(0), pop(), pop(), obs())}},
		{{do(set(0, 1), pgo(obs(), set(0, 2), obs(), pgo(obs(), set(1, 7), obs()), obs()), set(0, 3), obs())}},
		// siblings
		{{do(set(2, 9), fork(set(0, 1), define(0, 1), obs()), fork(set(0, 2), define(0, 2), obs()), fork(obs(), pnc()), obs(), define(0, 3), obs())}},
		// DoWithLoader: restored on return and on panic; definitions through a child loader
		{{do(define(0, 1), doLoader("child", define(1, 2), obs()), obs(), try(doLoader("child", define(2, 3), obs(), pnc())), obs(), doLoader("parent", obs(), define(2, 5)), obs())}},
		{{do(setLoader("child"), define(0, 1), obs(), setLoader("parent"), obs(), define(0, 2), obs(), define(0, 3), obs())}},
		// threadlocal.Go: a table without a context
		{{tlgo(obs(), doCtx("new", obs(), pgo(obs())), obs(), pgo(obs())), obs()}},
		{{do(tlgo(obs(), do(obs(), set(0, 1), obs()), obs()), obs())}},
		// re-establishing an outer context inside an inner scope
		{{do(set(0, 1), doCtx("fork", set(0, 2), doUp(1, obs(), set(1, 3)), obs(), doUp(0, obs())), obs())}},
		// panics through several scopes, recovered at different levels
		{{do(doCtx("fork", doLoader("child", doCtx("new", push(1), pop(), pop()))), obs()), obs()}},
		{{do(try(doCtx("fork", doLoader("child", doCtx("new", obs(), pnc()), obs()), obs()), obs()), obs()), obs()}},
		// several root goroutines at once
		{{do(set(0, 1), obs(), fork(obs()), obs())}, {obs(), doCtx("new", set(0, 2), obs()), obs()}, {do(set(0, 3), obs())}, {obs()}},
		// no context at all
		{{set(0, 1)}, {pgo(obs())}, {fork(obs())}, {doUp(0, obs())}, {doLoader("child", obs())}, {obs(), pop()}},
		// goroutines that end by runtime.Goexit (t.FailNow-style): forked by every route, directly and from inside
		// nested scopes and recover points; the storage must be released and every scope on the way restored
		{{do(set(0, 1), fork(obs(), gexit(), obs()), pgo(obs(), gexit()), tlgo(obs(), gexit()), obs())}},
		{{do(fork(try(doCtx("fork", set(0, 2), obs(), gexit()), obs()), obs()), pgo(doLoader("child", define(0, 1), try(gexit())), obs()), obs()), obs()}},
		{{do(fork(tryDo(obs(), gexit()), obs()), fork(do(doCtx("new", gexit()))), obs())}},
		// a plain goroutine: the table created by DoWithContext / Do is released by their deferred functions
		{{obs(), doCtx("new", set(0, 1), obs(), try(gexit()), obs()), obs()}, {do(doLoader("child", gexit())), obs()}, {tlgo(doCtx("new", pgo(gexit()), gexit())), gexit(), obs()}},
	}
}

func (r *runner) corpus() {
	rng := lib.NewRng(12345)
	for i, roots := range corpusRoots() {
		relabel(roots)
		r.schedules(roots, "corpus", rng, 4, true, func(int) string { return "cases_corpus" })
		_ = i
	}
}

// ---- bounded-exhaustive family: every chain of <= L nested scope constructs ------------------------------

var chainCtors = []string{"Do", "TryDo", "CtxFork", "CtxNew", "CtxUp0", "CtxUp1", "Parent", "LdrChild", "LdrParent", "Fork", "Go", "TlGo"}

func mkScope(ctor string, body []Prog) Prog {
	switch ctor {
	case "Do":
		return do(body...)
	case "TryDo":
		return tryDo(body...)
	case "CtxFork":
		return doCtx("fork", body...)
	case "CtxNew":
		return doCtx("new", body...)
	case "CtxUp0":
		return doUp(0, body...)
	case "CtxUp1":
		return doUp(1, body...)
	case "Parent":
		return doParent(body...)
	case "LdrChild":
		return doLoader("child", body...)
	case "LdrParent":
		return doLoader("parent", body...)
	case "Fork":
		return fork(body...)
	case "Go":
		return pgo(body...)
	case "TlGo":
		return tlgo(body...)
	}
	panic("bad ctor")
}

// chainProgram builds the program of one chain.  variant 0: no panic; 1: the innermost body panics, nothing
// recovers; 2: the innermost body panics, the outermost scope is inside a Try; 3: the innermost scope is inside a Try;
// 4: the innermost body calls runtime.Goexit; 5: the same with the outermost scope inside a Try (which must not see it).
func chainProgram(chain []string, variant int) []Prog {
	var level func(i int, inCtx bool) []Prog
	level = func(i int, inCtx bool) []Prog {
		b := []Prog{}
		if inCtx {
			b = append(b, set(i%nKeys, 10+i), push(i), define(i%nNames, 20+i))
		}
		b = append(b, obs())
		if i < len(chain) {
			ctor := chain[i]
			inner := inCtx
			switch ctor {
			case "Do", "TryDo", "CtxNew":
				inner = true
			case "TlGo":
				inner = false
			}
			sc := mkScope(ctor, level(i+1, inner))
			if ((variant == 2 || variant == 5) && i == 0) || (variant == 3 && i == len(chain)-1) {
				sc = try(sc)
			}
			b = append(b, sc, obs())
			if inCtx {
				b = append(b, set((i+1)%nKeys, 30+i), obs())
			}
		} else if variant >= 4 {
			b = append(b, gexit())
		} else if variant > 0 {
			b = append(b, pnc())
		}
		return b
	}
	return level(0, false)
}

func (r *runner) chains() {
	maxLen, variants, nRandom := 2, []int{0, 1, 2, 3, 4, 5}, 1
	coqStride := 9
	if r.cfg.Thorough() {
		maxLen, nRandom, coqStride = 3, 2, 60
	}
	rng := lib.NewRng(lib.NewRng(r.cfg.Seed ^ 0xC14).Next())
	n := 0
	var rec func(chain []string, l int)
	rec = func(chain []string, l int) {
		if len(chain) == l {
			for _, v := range variants {
				if l >= 3 && v == 5 {
					continue // thorough tier, nesting 3: Goexit below a Try is covered at nesting <= 2
				}
				roots := [][]Prog{chainProgram(chain, v)}
				relabel(roots)
				n++
				k := n
				r.schedules(roots, "chains", rng, nRandom, k%4 == 0, func(i int) string {
					if (k+i)%coqStride == 0 {
						return fmt.Sprintf("cases_chains%d", (k/coqStride)%2)
					}
					return ""
				})
			}
			return
		}
		for _, c := range chainCtors {
			rec(append(append([]string{}, chain...), c), l)
		}
	}
	for l := 1; l <= maxLen; l++ {
		rec(nil, l)
	}
	r.res.Extra["chains_max_nesting"] = maxLen
	r.res.Extra["chains_programs"] = n
}

// ---- bounded-exhaustive family: the state of the parent's containers at the time of a fork -------------------
//
// Every history of the variable table (never used / deleted from while nil / one or more entries / emptied again in
// several ways) x every history of the stack (fresh / pushed / pushed and popped back to empty / spare capacity)
// x every way the parent context itself came about (Do, NewContext, a fork with or without a history of its own)
// x every route that forks (px.Fork, px.Go, DoWithContext(c.Fork()), pcore.DoWithParent(c, ..)).  The child changes
// variables and stack, the parent changes them afterwards, a sibling is forked after that: each must see its own.

var fsVars = [][]Prog{
	{},                                     // nil table
	{del(0)},                               // Delete while the table is nil
	{set(0, 1)},                            // one entry
	{set(0, 1), del(0)},                    // allocated, emptied
	{set(0, 1), del(1)},                    // Delete of an absent key
	{set(0, 1), set(1, 2), del(0)},         // one of two left
	{set(0, 1), set(1, 2), del(0), del(1)}, // emptied from two
	{set(0, 1), del(0), set(0, 2), del(0)}, // emptied twice
	{set(0, 1), set(1, 2), set(2, 3)},      // full
}

var fsStack = [][]Prog{
	{},
	{push(1)},
	{push(1), pop()},                   // emptied, capacity left
	{push(1), push(2), push(3), pop()}, // spare capacity behind the top
}

var fsKinds = []string{"Do", "New", "ForkOf", "ForkOfPlain"}
var fsRoutes = []string{"Fork", "Go", "CtxFork", "Parent"}

func cat(bs ...[]Prog) []Prog {
	out := []Prog{}
	for _, b := range bs {
		out = append(out, copyProgs(b)...)
	}
	return out
}

func forkStateProgram(kind, route string, vh, sh []Prog, variant int) [][]Prog {
	child := []Prog{obs(), set(2, 7), del(0), set(0, 9), push(8), obs()}
	switch variant {
	case 1:
		child = []Prog{obs(), set(1, 7), obs()}
	case 2:
		child = []Prog{obs(), del(0), del(1), del(2), push(8), push(7), obs()}
	}
	parentAfter := []Prog{set(1, 5), push(9), obs(), del(1), obs()}
	sibling := []Prog{obs(), set(2, 6), obs()}
	inner := cat(vh, sh, []Prog{obs(), mkScope(route, child)}, parentAfter, []Prog{mkScope(route, sibling), obs(), set(0, 4), obs()})
	switch kind {
	case "Do":
		return [][]Prog{{obs(), do(inner...), obs()}}
	case "New":
		return [][]Prog{{obs(), doCtx("new", inner...), obs()}}
	case "ForkOf":
		return [][]Prog{{do(cat(vh, sh, []Prog{doCtx("fork", inner...), obs()})...), obs()}}
	case "ForkOfPlain":
		plain := cat([]Prog{obs(), mkScope(route, child)}, parentAfter, []Prog{mkScope(route, sibling), obs(), set(0, 4), obs()})
		return [][]Prog{{do(cat(vh, sh, []Prog{doCtx("fork", plain...), obs()})...), obs()}}
	}
	panic("bad kind")
}

func (r *runner) forkStates(family string, minGid int64, routes []string, stride int, file string) {
	variants := []int{0}
	if r.cfg.Thorough() {
		variants = []int{0, 1, 2}
	}
	rng := lib.NewRng(lib.NewRng(r.cfg.Seed ^ 0xF0C14).Next())
	n := 0
	for _, kind := range fsKinds {
		for _, route := range routes {
			for _, vh := range fsVars {
				for _, sh := range fsStack {
					for _, v := range variants {
						roots := forkStateProgram(kind, route, vh, sh, v)
						relabel(roots)
						n++
						k := n
						r.schedulesG(roots, family, rng, 1, k%8 == 0, minGid, func(i int) string {
							if (k+i)%stride == 0 {
								return fmt.Sprintf("%s%d", file, (k/stride)%2)
							}
							return ""
						})
					}
				}
			}
		}
	}
	r.res.Extra[family+"_programs"] = n
}

// ---- bounded-exhaustive family: stack frames on both sides of a fork ------------------------------------------
//
// "Stack frames made in a forked context are invisible to its parent and siblings", and the parent's later frames
// are invisible to the fork.  A push on either side alone never writes a slot that existed at fork time; what does
// is a pop followed by a push below the depth at the fork - in the fork (parent and siblings must keep their
// frames) or in the parent while the fork is alive (the fork must keep its frames).  So: every push/pop history of
// the parent before the fork (all pop-safe sequences of <= 3 operations: depth 0..3, with and without spare capacity
// behind the top) x what the fork does (nothing / push / pop / pop, push / pop, pop, push, push - never popping more
// than it inherited) x what the parent does after the fork while the fork is alive (the same five) x the four fork
// routes, with an Observe (every frame of Stack(), and StackTop()) after every step on both sides, in a sibling forked
// while the first fork is alive and afterwards.  Goroutine routes: the interleaving is the scheduler's (parent first,
// child first, alternating, random).  Scope routes: the parent's steps happen inside the fork's scope, with the
// parent's context re-established (DoWithContext(up 1)).

var fkHist = [][]Prog{
	{},
	{push(1)},
	{push(1), pop()},
	{push(1), push(2)},
	{push(1), push(2), pop()},
	{push(1), pop(), push(2)},
	{push(1), push(2), push(3)},
}

// pops, pushes
var fkOps = [][2]int{{0, 0}, {0, 1}, {1, 0}, {1, 1}, {2, 2}}

func histDepth(h []Prog) int {
	d := 0
	for _, p := range h {
		if p.Op == "Push" {
			d++
		} else {
			d--
		}
	}
	return d
}

// stackSteps: pops (at most `depth`) then pushes of base+1.., an Observe after each
func stackSteps(op [2]int, depth, base int) []Prog {
	b := []Prog{}
	for i := 0; i < op[0] && i < depth; i++ {
		b = append(b, pop(), obs())
	}
	for i := 0; i < op[1]; i++ {
		b = append(b, push(base+1+i), obs())
	}
	return b
}

func forkStackProgram(kind, route string, hist []Prog, fop, pop2 [2]int) [][]Prog {
	d := histDepth(hist)
	childOps := stackSteps(fop, d, 10)
	parentOps := stackSteps(pop2, d, 20)
	sibling := []Prog{obs(), push(30), obs(), pop(), obs()}
	var inner []Prog
	switch route {
	case "Fork", "Go":
		child := cat([]Prog{obs()}, childOps, []Prog{obs(), obs()})
		inner = cat(hist, []Prog{obs(), mkScope(route, child)}, parentOps,
			[]Prog{mkScope(route, sibling), obs(), push(40), obs(), mkScope(route, []Prog{obs()}), obs()})
	default:
		// inside the fork's scope the parent context is env[1]
		up := cat(parentOps, []Prog{mkScope(route, sibling), obs()})
		child := cat([]Prog{obs()}, childOps, []Prog{doUp(1, up...), obs()})
		inner = cat(hist, []Prog{obs(), mkScope(route, child), obs(), mkScope(route, sibling), obs(), push(40), obs()})
	}
	switch kind {
	case "Do":
		return [][]Prog{{do(inner...), obs()}}
	case "ForkOf":
		// the parent is itself a fork and inherited its frames
		return [][]Prog{{do(cat(hist, []Prog{doCtx("fork", inner[len(hist):]...), obs()})...), obs()}}
	}
	panic("bad kind")
}

func (r *runner) forkStacks() {
	kinds, nRandom, stride := []string{"Do"}, 1, 7
	if r.cfg.Thorough() {
		kinds, nRandom, stride = []string{"Do", "ForkOf"}, 3, 9
	}
	rng := lib.NewRng(lib.NewRng(r.cfg.Seed ^ 0x57C14).Next())
	seen := map[string]bool{}
	n := 0
	for _, kind := range kinds {
		for _, route := range fsRoutes {
			for _, h := range fkHist {
				for _, fop := range fkOps {
					for _, pop2 := range fkOps {
						roots := forkStackProgram(kind, route, h, fop, pop2)
						relabel(roots)
						t := (&Case{Roots: roots}).text()
						if seen[t] {
							continue // the pops were capped by the depth: same program as an earlier one
						}
						seen[t] = true
						n++
						k := n
						r.schedules(roots, "forkstack", rng, nRandom, k%8 == 0, func(i int) string {
							if (k+i)%stride == 0 {
								return fmt.Sprintf("cases_forkstack%d", (k/stride)%2)
							}
							return ""
						})
					}
				}
			}
		}
	}
	r.res.Extra["forkstack_programs"] = n
}

// ---- seeded random programs ---------------------------------------------------------------------------

func randomBody(r *lib.Rng, depth int, inCtx bool) []Prog {
	n := 1 + r.Intn(5)
	b := make([]Prog, 0, n)
	for i := 0; i < n; i++ {
		x := r.Intn(100)
		if depth <= 0 && x >= 62 {
			x = r.Intn(62)
		}
		if !inCtx && x < 62 && r.Chance(2, 3) {
			// without a lexical context most leaf operations only raise "no context": prefer Observe and scopes
			if depth > 0 {
				x = 62 + r.Intn(38)
			} else {
				x = 0
			}
		}
		switch {
		case x < 16:
			b = append(b, obs())
		case x < 26:
			b = append(b, set(r.Intn(nKeys), r.Intn(4)))
		case x < 31:
			b = append(b, del(r.Intn(nKeys)))
		case x < 38:
			b = append(b, push(r.Intn(5)))
		case x < 43:
			b = append(b, pop())
		case x < 53:
			b = append(b, define(r.Intn(nNames), r.Intn(3)))
		case x < 58:
			b = append(b, setLoader([]string{"child", "child", "parent", "base"}[r.Intn(4)]))
		case x < 62:
			// how a body ends abnormally: panic, or runtime.Goexit
			if r.Chance(1, 3) {
				b = append(b, gexit())
			} else {
				b = append(b, pnc())
			}
		case x < 68:
			b = append(b, Prog{Op: "Do", Try: r.Chance(1, 3), Body: randomBody(r, depth-1, true)})
		case x < 76:
			ce := []string{"fork", "fork", "new", "up", "parent"}[r.Intn(5)]
			if ce == "fork" || ce == "parent" {
				b = append(b, emptied(r, inCtx)...)
			}
			if ce == "parent" {
				b = append(b, Prog{Op: "DoParent", Body: randomBody(r, depth-1, inCtx)})
			} else {
				b = append(b, Prog{Op: "DoCtx", CE: ce, K: r.Intn(3), Body: randomBody(r, depth-1, inCtx || ce == "new")})
			}
		case x < 82:
			b = append(b, Prog{Op: "DoLoader", LE: []string{"child", "child", "parent", "base"}[r.Intn(4)], Body: randomBody(r, depth-1, inCtx)})
		case x < 88:
			b = append(b, emptied(r, inCtx)...)
			b = append(b, Prog{Op: "Fork", Body: randomBody(r, depth-1, inCtx)})
		case x < 92:
			b = append(b, emptied(r, inCtx)...)
			b = append(b, Prog{Op: "Go", Body: randomBody(r, depth-1, inCtx)})
		case x < 94:
			b = append(b, Prog{Op: "TlGo", Body: randomBody(r, depth-1, false)})
		default:
			b = append(b, Prog{Op: "Try", Body: randomBody(r, depth-1, inCtx)})
		}
		if inCtx && r.Chance(1, 3) {
			b = append(b, obs())
		}
	}
	return b
}

// emptied: now and then the context is forked right after its variable table (and sometimes its stack) has been
// emptied again - containers that exist but hold nothing are a state of their own for the copying code of Fork
func emptied(r *lib.Rng, inCtx bool) []Prog {
	if !inCtx || !r.Chance(1, 4) {
		return nil
	}
	b := []Prog{}
	if r.Chance(1, 2) {
		b = append(b, set(r.Intn(nKeys), r.Intn(4)))
	}
	for k := 0; k < nKeys; k++ {
		b = append(b, del(k))
	}
	if r.Chance(1, 3) {
		b = append(b, push(r.Intn(5)), pop())
	}
	return b
}

func randomRoots(r *lib.Rng) [][]Prog {
	nr := 1
	switch x := r.Intn(100); {
	case x < 40:
		nr = 1
	case x < 65:
		nr = 2
	case x < 85:
		nr = 3 + r.Intn(2)
	default:
		nr = 5 + r.Intn(4)
	}
	roots := make([][]Prog, nr)
	for i := range roots {
		depth := 2 + r.Intn(2) // scope nesting below the root body: total tree depth <= 4
		var b []Prog
		if r.Chance(4, 5) {
			// the usual shape: the whole root program inside an entry point
			inner := randomBody(r, depth-1, true)
			if r.Chance(3, 4) {
				b = []Prog{obs(), {Op: "Do", Try: r.Chance(1, 4), Body: inner}, obs()}
			} else {
				b = []Prog{obs(), doCtx("new", inner...), obs()}
			}
		} else {
			b = randomBody(r, depth, false)
		}
		roots[i] = b
	}
	relabel(roots)
	return roots
}

func (r *runner) random(rng *lib.Rng) {
	n, coq := 700, 500
	if r.cfg.Thorough() {
		n, coq = 20000, 3000
	}
	emitted := 0
	for i := 0; i < n; i++ {
		cr := rng.Fork()
		roots := randomRoots(cr)
		r.schedules(roots, "random", cr, 2, i%3 == 0, func(j int) string {
			if emitted < coq && (j == 0 || j == 3) {
				emitted++
				return fmt.Sprintf("cases_random%d", emitted%2)
			}
			return ""
		})
	}
	r.res.Extra["random_programs"] = n
}
