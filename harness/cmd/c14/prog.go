package main

import (
	"fmt"
	"strings"

	"verifharness/lib"
)

// The program language of property C14, mirrored by `prog` in coq/Model/Ctx.v.
//
//	Do        pcore.Do(func(c){body})               (Try=true: pcore.Try)
//	DoCtx     px.DoWithContext(<ce>, func(c){body})  ce: fork = lexical.Fork(), new = pcore.NewContext(child of the
//	                                                 base loader), up = the K-th enclosing lexical context
//	DoLoader  lexical.DoWithLoader(<le>, func(){body}) le: child = NewParentedLoader(lexical.Loader()), parent = its
//	                                                 parent, base = the base loader
//	DoParent  pcore.DoWithParent(lexical, func(c){body}) = lexical.Fork() made current (internal/runtime.go:251-253);
//	                                                 the model term is the one of DoCtx(fork)
//	Fork      px.Fork(lexical, func(cf){body})       new goroutine
//	Go        px.Go(func(cf){body})                  new goroutine, forks px.CurrentContext()
//	TlGo      threadlocal.Go(func(){body})           new goroutine with a table and no context
//	Try       func(){ defer recover(); body }()      harness-level recover
//	Set/Del/Push/Pop/SetLoader/Define                on the lexical context (the one handed to the enclosing body)
//	Observe   record px.CurrentContext() and the state of the lexical context
//	Panic     panic(user error)
//	Goexit    runtime.Goexit(): the goroutine runs its deferred functions and ends (what t.FailNow / t.SkipNow do);
//	          no recover point sees it
//
// L is the unique label of a node that creates a context/loader or observes.
type Prog struct {
	Op   string `json:"op"`
	L    int    `json:"l,omitempty"`
	CE   string `json:"ce,omitempty"`
	LE   string `json:"le,omitempty"`
	K    int    `json:"k,omitempty"`
	V    int    `json:"v,omitempty"`
	Try  bool   `json:"try,omitempty"`
	Body []Prog `json:"body,omitempty"`
}

const (
	nKeys        = 3 // context variable keys 0..2
	nNames       = 3 // loader names 0..2
	unknownLabel = 999999
)

func gLabel(l int) string { return lib.GN(uint64(l)) }

func gBody(ps []Prog) string {
	el := make([]string, len(ps))
	for i := range ps {
		el[i] = ps[i].gallina()
	}
	return lib.GList(el, "prog")
}

func gLE(le string) string {
	switch le {
	case "child":
		return "LChild"
	case "parent":
		return "LParent"
	case "base":
		return "LBase"
	}
	panic("bad loader expression " + le)
}

func (p *Prog) gallina() string {
	switch p.Op {
	case "Do":
		return fmt.Sprintf("PDo %s %s %s", gLabel(p.L), lib.GBool(p.Try), gBody(p.Body))
	case "DoCtx":
		ce := ""
		switch p.CE {
		case "fork":
			ce = "CFork"
		case "new":
			ce = "CNew"
		case "up":
			ce = fmt.Sprintf("(CUp %s)", lib.GNat(p.K))
		default:
			panic("bad context expression " + p.CE)
		}
		return fmt.Sprintf("PDoCtx %s %s %s", gLabel(p.L), ce, gBody(p.Body))
	case "DoParent":
		return fmt.Sprintf("PDoCtx %s CFork %s", gLabel(p.L), gBody(p.Body))
	case "DoLoader":
		return fmt.Sprintf("PDoLoader %s %s %s", gLabel(p.L), gLE(p.LE), gBody(p.Body))
	case "Fork":
		return fmt.Sprintf("PFork %s %s", gLabel(p.L), gBody(p.Body))
	case "Go":
		return fmt.Sprintf("PGo %s %s", gLabel(p.L), gBody(p.Body))
	case "TlGo":
		return "PTlGo " + gBody(p.Body)
	case "Try":
		return "PTry " + gBody(p.Body)
	case "Set":
		return fmt.Sprintf("PSet %s %s", lib.GN(uint64(p.K)), lib.GZ(int64(p.V)))
	case "Del":
		return fmt.Sprintf("PDel %s", lib.GN(uint64(p.K)))
	case "Push":
		return fmt.Sprintf("PPush %s", lib.GN(uint64(p.K)))
	case "Pop":
		return "PPop"
	case "SetLoader":
		return fmt.Sprintf("PSetLoader %s %s", gLabel(p.L), gLE(p.LE))
	case "Define":
		return fmt.Sprintf("PDefine %s %s", lib.GN(uint64(p.K)), lib.GZ(int64(p.V)))
	case "Observe":
		return fmt.Sprintf("PObserve %s", gLabel(p.L))
	case "Panic":
		return "PPanic"
	case "Goexit":
		return "PGoexit"
	}
	panic("bad op " + p.Op)
}

func (p *Prog) String() string {
	b := ""
	if len(p.Body) > 0 || isScope(p.Op) {
		b = "{" + bodyText(p.Body) + "}"
	}
	switch p.Op {
	case "Do":
		if p.Try {
			return fmt.Sprintf("TryDo#%d%s", p.L, b)
		}
		return fmt.Sprintf("Do#%d%s", p.L, b)
	case "DoCtx":
		ce := p.CE
		if ce == "up" {
			ce = fmt.Sprintf("up%d", p.K)
		}
		return fmt.Sprintf("DoWithContext#%d(%s)%s", p.L, ce, b)
	case "DoParent":
		return fmt.Sprintf("DoWithParent#%d(lexical)%s", p.L, b)
	case "DoLoader":
		return fmt.Sprintf("DoWithLoader#%d(%s)%s", p.L, p.LE, b)
	case "Fork", "Go":
		return fmt.Sprintf("%s#%d%s", p.Op, p.L, b)
	case "TlGo", "Try":
		return p.Op + b
	case "Set", "Define":
		return fmt.Sprintf("%s(%d,%d)", p.Op, p.K, p.V)
	case "Del", "Push":
		return fmt.Sprintf("%s(%d)", p.Op, p.K)
	case "SetLoader":
		return fmt.Sprintf("SetLoader#%d(%s)", p.L, p.LE)
	case "Observe":
		return fmt.Sprintf("Observe#%d", p.L)
	}
	return p.Op
}

func bodyText(ps []Prog) string {
	s := make([]string, len(ps))
	for i := range ps {
		s[i] = ps[i].String()
	}
	return strings.Join(s, "; ")
}

func isScope(op string) bool {
	switch op {
	case "Do", "DoCtx", "DoParent", "DoLoader", "Fork", "Go", "TlGo", "Try":
		return true
	}
	return false
}

// Case is one input of the check: the programs of the root goroutines (plain `go`, no table, no context)
// and how the goroutines are interleaved.
type Case struct {
	Roots [][]Prog `json:"roots"`
	// Mode "sched": a deterministic scheduler in the harness grants one step (one statement, one scope entry, one
	// scope exit, one goroutine prologue/epilogue) at a time; the order is recorded and replayed in the model.
	// Mode "free": the goroutines run freely on all processors (direct check only).
	Mode string `json:"mode"`
	// Policy of the deterministic scheduler: random | lifo (newest goroutine first = child first) |
	// fifo (oldest first = parent first) | rr (round robin) | fixed (follow Sched)
	Policy    string `json:"policy,omitempty"`
	SchedSeed uint64 `json:"sched_seed,omitempty"`
	Sched     []int  `json:"sched,omitempty"`
	// MinGid > 0: the case runs in a process that has already started at least that many goroutines (the ids that
	// threadlocal.getg reads from the stack header then have at least as many digits as MinGid); family "highgid".
	MinGid int64 `json:"min_gid,omitempty"`
}

func (c *Case) text() string {
	rs := make([]string, len(c.Roots))
	for i, r := range c.Roots {
		rs[i] = fmt.Sprintf("g%d{%s}", i, bodyText(r))
	}
	return strings.Join(rs, " || ")
}

func (c *Case) gallinaRoots() string {
	rs := make([]string, len(c.Roots))
	for i, r := range c.Roots {
		rs[i] = gBody(r)
	}
	return lib.GList(rs, "list prog")
}

// walk visits every node
func walk(ps []Prog, f func(p *Prog, depth int), depth int) {
	for i := range ps {
		f(&ps[i], depth)
		walk(ps[i].Body, f, depth+1)
	}
}

// relabel gives every node a fresh label (1,2,3,... in pre-order over all roots)
func relabel(roots [][]Prog) {
	n := 0
	for _, r := range roots {
		walk(r, func(p *Prog, _ int) { n++; p.L = n }, 0)
	}
}

func caseStats(c *Case) (nodes, depth, spawns, scopes, panics int) {
	for _, r := range c.Roots {
		walk(r, func(p *Prog, d int) {
			nodes++
			if d+1 > depth {
				depth = d + 1
			}
			switch p.Op {
			case "Fork", "Go", "TlGo":
				spawns++
			case "Do", "DoCtx", "DoParent", "DoLoader":
				scopes++
			case "Panic", "Pop", "Goexit":
				panics++
			}
		}, 0)
	}
	return
}
