// c14: contexts are confined to their goroutine and dynamic scope.
//
// G: program trees over Do/DoWithContext/DoWithLoader/Fork/Go/threadlocal.Go/Try/Set/Delete/Push/Pop/SetLoader/
// Define/Observe/Panic/Goexit (prog.go), run by 1-8 real root goroutines plus the goroutines they fork, on the real
// implementation (run.go).  In mode "sched" a deterministic scheduler grants one step at a time, so that the
// interleaving is known and can be replayed in the model; in mode "free" the goroutines run in parallel.
// D: at every Observe px.CurrentContext() must be the context handed to the enclosing body, the state of that
// context must be what its own goroutine's operations (plus the parent's before the fork) made it, and after the
// case the number of goroutine-local tables must be what it was before.  Families: corpus, chains (all nestings of
// scope constructs), forkstate (all container histories of the parent x all fork routes), forkstack (all push/pop
// histories of the parent x pop/push in the fork x pop/push in the parent while the fork lives x all fork routes), random, and highgid
// (gid.go: the same programs and a direct check of threadlocal in a process whose goroutine ids have 6 -> 7 digits).
// M: program, recorded schedule and per-goroutine traces go to cases_*.v; CorrC14.v runs the machine of
// coq/Model/Ctx.v on the same schedule and compares the traces (ctx_machine), and evaluates the trace-level
// statements of Properties/C14.v on the observed traces alone (ctx_spec).  The goroutine ids of sampled goroutines,
// the first line of their runtime.Stack and what threadlocal.Getg() returned go to cases_gid.v (gid_machine /
// gid_spec: Model/CtxGid.v computes the same line and the same key).
package main

import (
	"fmt"
	"runtime"

	"github.com/lyraproj/pcore/pcore"
	"github.com/lyraproj/pcore/px"
	"verifharness/lib"
)

type runner struct {
	cfg   *lib.Config
	res   *lib.Result
	files map[string]*lib.CasesFile
	total int
	nviol int
}

func newCasesFile() *lib.CasesFile {
	return &lib.CasesFile{Imports: []string{"Model.Base", "Model.Ctx", "Corr.CorrC14"},
		Typ:         "ctx_case",
		Obligations: map[string]string{"ctx_machine": "ctx_mismatches cases", "ctx_spec": "ctx_spec_violations cases"}}
}

func (r *runner) file(name string) *lib.CasesFile {
	if r.files[name] == nil {
		r.files[name] = newCasesFile()
	}
	return r.files[name]
}

func caseInput(cs *Case, out *outcome) map[string]interface{} {
	c := *cs
	if cs.Mode == "sched" {
		c.Policy = "fixed"
		c.Sched = out.sched
	}
	return map[string]interface{}{"kind": "c14", "case": c, "text": cs.text()}
}

// check runs one case on the implementation, evaluates D, and (toCoq) adds it to a cases file
func (r *runner) check(cs *Case, family string, toCoq string) *outcome {
	if r.nviol >= 200 && family != "replay" {
		// enough counter-examples: do not run the remaining cases
		r.res.Count("skipped.after-200-violations")
		return &outcome{}
	}
	out := runCase(cs)
	res := r.res
	r.total++
	res.Evaluations++
	res.Count("family." + family)
	res.Count("mode." + cs.Mode)
	if cs.Mode == "sched" {
		res.Count("policy." + cs.Policy)
	}
	nodes, depth, spawns, _, _ := caseStats(cs)
	res.Count(fmt.Sprintf("roots.%d", len(cs.Roots)))
	res.Count(fmt.Sprintf("depth.%d", depth))
	res.Count(fmt.Sprintf("goroutines.%d", len(out.traces)))
	switch {
	case nodes <= 5:
		res.Count("nodes.1-5")
	case nodes <= 15:
		res.Count("nodes.6-15")
	case nodes <= 40:
		res.Count("nodes.16-40")
	default:
		res.Count("nodes.41+")
	}
	unwound := false
	for _, t := range out.traces {
		for i, e := range t {
			if e.Kind == "panic" {
				res.Count("panic." + e.Cls)
				// something was observed after the panic by the same goroutine: it was recovered inside the program
				for _, e2 := range t[i+1:] {
					if e2.Kind == "obs" {
						unwound = true
					}
				}
			}
		}
	}
	if (spawns > 0 && len(out.traces) > len(cs.Roots)) || len(cs.Roots) > 1 || unwound {
		res.Nontrivial(cs.text() + "|" + cs.Mode + fmt.Sprint(out.sched))
		res.Count("nontrivial")
	}
	in := caseInput(cs, out)
	for _, f := range out.found {
		r.nviol++
		res.Violate(lib.Violation{Clause: f.clause, What: f.what + "   in: " + cs.text(), Input: in, Tags: f.tags})
	}
	if cs.Mode == "sched" && !out.hung && (toCoq != "" || (len(out.found) > 0 && len(res.Violations) <= 20)) {
		name := toCoq
		if name == "" {
			name = "cases_failing"
		}
		r.file(name).Add(out.gallina(cs), in)
	}
	if r.total%1499 == 7 {
		tr := map[string][]string{}
		for i, t := range out.traces {
			for _, e := range t {
				tr[fmt.Sprintf("g%d", i)] = append(tr[fmt.Sprintf("g%d", i)], e.String())
			}
		}
		res.Sample(map[string]interface{}{"program": cs.text(), "mode": cs.Mode, "schedule": out.sched, "traces": tr})
	}
	return out
}

func main() {
	cfg := lib.ParseFlags()
	res := lib.NewResult("C14")
	res.Rule = "a case = programs of 1-8 root goroutines (trees over Do/Try/DoWithContext/DoWithLoader/Fork/Go/threadlocal.Go/" +
		"Set/Delete/Push/Pop/SetLoader/Define/Observe/Panic/Goexit, depth<=4) + a schedule; non-trivial when at least two goroutines " +
		"ran (a fork took place or several roots) or a panic was recovered inside the program and followed by an observation; " +
		"distinct = distinct (program text, mode, recorded schedule)"
	runtime.GOMAXPROCS(8)
	// initialise the pcore runtime once, outside the cases
	func() {
		defer func() { _ = recover() }()
		pcore.Do(func(px.Context) {})
	}()
	r := &runner{cfg: cfg, res: res, files: map[string]*lib.CasesFile{}}
	if cfg.Replay != "" {
		r.replay()
	} else {
		r.startResidents(16)
		r.gidSamples(24, "start")
		r.corpus()
		r.gidSamples(8, "after-corpus")
		r.checkResidents("after-corpus")
		r.chains()
		// lib.NewRng(seed) starts the splitmix sequence at seed*gamma: the streams of seeds k and k+1 are the same
		// stream shifted by one draw.  Hash the seed first so that different seeds give unrelated programs.
		r.gidSamples(24, "after-chains")
		r.forkStates("forkstate", 0, fsRoutes, 5, "cases_forkstate")
		r.forkStacks()
		r.rootFamily(lib.NewRng(lib.NewRng(cfg.Seed ^ 0x726f6f74).Next()))
		r.regFamily(lib.NewRng(lib.NewRng(cfg.Seed ^ 0x72656773).Next()))
		r.gidSamples(24, "after-forkstate")
		r.random(lib.NewRng(lib.NewRng(cfg.Seed).Next()))
		r.gidSamples(24, "after-random")
		r.checkResidents("after-random")
		// last, because it needs a process that has started a million goroutines
		r.highGids()
		r.stopResidents()
	}
	for name, cf := range r.files {
		res.CorrFiles = append(res.CorrFiles, cf.WriteTo(cfg.Out, name))
	}
	res.Write(cfg)
}

// replay re-runs exactly the recorded case(s) (same programs, same schedule), prints what happens and emits the case
func (r *runner) replay() {
	for _, in := range lib.ReplayInputs(r.cfg.Replay) {
		var x struct {
			Kind string `json:"kind"`
			Case Case   `json:"case"`
		}
		lib.Remarshal(in, &x)
		if x.Kind == "c14-tls" {
			r.replayTLS(in)
			continue
		}
		if x.Kind == "c14-root" {
			r.replayRoot(in)
			continue
		}
		if x.Kind == "c14-reg" {
			r.replayReg(in)
			continue
		}
		if x.Kind == "c14-resident" {
			r.replayResidents(in)
			continue
		}
		if x.Kind != "c14" {
			continue
		}
		cs := x.Case
		fmt.Printf("program: %s\nmode %s, schedule %v\n", cs.text(), cs.Mode, cs.Sched)
		out := r.check(&cs, "replay", "cases_replay")
		for i, t := range out.traces {
			for _, e := range t {
				fmt.Printf("  g%d  %s\n", i, e.String())
			}
		}
		fmt.Printf("goroutine-local tables before/after: %d/%d; schedule taken: %v\n", out.tables[0], out.tables[1], out.sched)
		if len(out.found) == 0 {
			fmt.Println("the implementation satisfies the property on this case")
		}
		for _, f := range out.found {
			fmt.Printf("FAILS [%s] %s\n", f.clause, f.what)
		}
	}
}

var policies = []string{"lifo", "fifo", "rr", "random", "sticky"}

// schedules runs one program under the deterministic policies (+ random ones) and once freely
func (r *runner) schedules(roots [][]Prog, family string, rng *lib.Rng, nRandom int, free bool, toCoq func(i int) string) {
	r.schedulesG(roots, family, rng, nRandom, free, 0, toCoq)
}

// schedulesG: the same in a process that has started at least minGid goroutines (Case.MinGid)
func (r *runner) schedulesG(roots [][]Prog, family string, rng *lib.Rng, nRandom int, free bool, minGid int64, toCoq func(i int) string) {
	i := 0
	run := func(cs *Case) {
		cs.MinGid = minGid
		r.check(cs, family, toCoq(i))
		i++
	}
	_, _, spawns, _, _ := caseStats(&Case{Roots: roots})
	if spawns == 0 && len(roots) == 1 {
		// a single goroutine: every policy gives the same schedule
		run(&Case{Roots: roots, Mode: "sched", Policy: "fifo"})
	} else {
		for _, p := range []string{"lifo", "fifo", "rr"} {
			run(&Case{Roots: roots, Mode: "sched", Policy: p})
		}
		for k := 0; k < nRandom; k++ {
			p := "random"
			if k%2 == 1 {
				p = "sticky"
			}
			run(&Case{Roots: roots, Mode: "sched", Policy: p, SchedSeed: rng.Next()})
		}
	}
	if free {
		run(&Case{Roots: roots, Mode: "free"})
	}
}
