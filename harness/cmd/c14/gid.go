package main

// Goroutine ids (threadlocal/gid.go:14 getg): the key of the goroutine-local table is read from the first line
// of runtime.Stack.  This file
//   - samples real goroutines: (goid by the harness' own reader, first line of runtime.Stack, threadlocal.Getg())
//     -> cases_gid*.v, tied to Model/CtxGid.v (gid_machine) and to C14_getg_exact (gid_spec);
//   - D, clause goroutine-local: n goroutines that are alive at the same time each Init, Set, (all wait), Get their
//     own value back, Cleanup - directly on package threadlocal;
//   - brings the process to goroutine ids of 7 digits (8 in the thorough tier) by starting and ending goroutines,
//     crossing the boundary while sampling, and runs the ordinary program families there (family highgid).
import (
	"fmt"
	"runtime"
	"strconv"
	"strings"
	"sync"
	"sync/atomic"
	"time"

	"github.com/lyraproj/pcore/pcore"
	"github.com/lyraproj/pcore/px"
	"github.com/lyraproj/pcore/threadlocal"
	"verifharness/lib"
)

// stackLine is the harness' own reading of the calling goroutine's id: the first line of runtime.Stack through a
// buffer that holds every numeral, parsed by strconv
func stackLine() (id uint64, line string) {
	var buf [160]byte
	l := runtime.Stack(buf[:], false)
	s := string(buf[:l])
	if i := strings.IndexByte(s, '\n'); i >= 0 {
		s = s[:i+1]
	}
	rest := strings.TrimPrefix(s, "goroutine ")
	j := strings.IndexByte(rest, ' ')
	if j < 0 {
		return 0, s
	}
	id, _ = strconv.ParseUint(rest[:j], 10, 64)
	for {
		m := atomic.LoadUint64(&maxGoid)
		if id <= m || atomic.CompareAndSwapUint64(&maxGoid, m, id) {
			break
		}
	}
	return id, s
}

// the highest goroutine id the harness has seen.  (A single probe is no measure of how far the runtime's counter
// is: every P hands out ids from its own batch of 16, and the batch of a P that has not started a goroutine for a
// while is old.)
var maxGoid uint64

func probeGoid() uint64 {
	ch := make(chan uint64)
	go func() { id, _ := stackLine(); ch <- id }()
	<-ch
	return atomic.LoadUint64(&maxGoid)
}

// burnTo starts and ends goroutines until the runtime's id counter has reached target (about 0.8 s per million).
// The last goroutines of every batch read their id, so that the estimate follows the counter closely; near the
// target the batches shrink (a batch of n uses a few more than n ids: every P that takes part takes ids by 16).
func burnTo(target uint64) uint64 {
	for {
		id := probeGoid()
		if id >= target {
			return id
		}
		n := target - id
		if n > 20000 {
			n = 20000
		} else if n > 256 {
			n -= n / 8
		}
		var wg sync.WaitGroup
		wg.Add(int(n))
		for i := uint64(0); i < n; i++ {
			if i+200 >= n {
				go func() { stackLine(); wg.Done() }()
			} else {
				go wg.Done()
			}
		}
		wg.Wait()
	}
}

type gidObs struct {
	ID       uint64 `json:"id"`
	Line     string `json:"line"`
	Key      int64  `json:"key"`
	KeyPanic bool   `json:"key_panic,omitempty"`
	Got      int    `json:"got"` // what Get returned after everyone's Set (-1: nothing)
}

// tlsBatch runs n goroutines that are alive at the same time; each records its id and key, creates its local
// storage, stores its own number, and - after all others have done so - reads the number back; then each releases
// its storage.  The goroutines act one after the other (a token is passed): they are alive together, but no two
// calls into threadlocal overlap - an implementation that confuses goroutines must show as a wrong value, not as
// a fatal "concurrent map writes" of the Go runtime that would end the harness.
func tlsBatch(n int) (obs []gidObs, tablesBefore, tablesDuring, tablesAfter int) {
	obs = make([]gidObs, n)
	tablesBefore = threadlocal.LiveTables()
	turn := make([]chan struct{}, n)
	ack := make(chan struct{})
	var done sync.WaitGroup
	done.Add(n)
	for i := 0; i < n; i++ {
		i := i
		turn[i] = make(chan struct{})
		go func() {
			defer done.Done()
			o := &obs[i]
			o.Got = -1
			phase := func(f func()) {
				<-turn[i]
				func() {
					defer func() { _ = recover() }()
					f()
				}()
				ack <- struct{}{}
			}
			phase(func() {
				o.ID, o.Line = stackLine()
				o.KeyPanic = true
				o.Key = threadlocal.Getg()
				o.KeyPanic = false
			})
			phase(func() {
				threadlocal.Init()
				threadlocal.Set("c14.who", i)
			})
			phase(func() {
				if v, ok := threadlocal.Get("c14.who"); ok {
					o.Got = v.(int)
				}
			})
			phase(func() { threadlocal.Cleanup() })
		}()
	}
	round := func() {
		for i := 0; i < n; i++ {
			turn[i] <- struct{}{}
			<-ack
		}
	}
	round() // ids and keys
	round() // Init, Set
	round() // Get
	tablesDuring = threadlocal.LiveTables()
	round() // Cleanup
	done.Wait()
	tablesAfter = threadlocal.LiveTables()
	return
}

func gidFile() *lib.CasesFile {
	return &lib.CasesFile{Imports: []string{"Model.Base", "Model.Ctx", "Model.CtxGid", "Corr.CorrC14"},
		Typ:         "gid_case",
		Obligations: map[string]string{"gid_machine": "gid_mismatches cases", "gid_spec": "gid_spec_violations cases"}}
}

func (o *gidObs) gallina() string {
	tail := ""
	rest := strings.TrimPrefix(o.Line, "goroutine ")
	if j := strings.IndexByte(rest, ' '); j >= 0 {
		tail = rest[j+1:]
	}
	key := "(@None Z)"
	if !o.KeyPanic {
		key = "(Some " + lib.GZ(o.Key) + ")"
	}
	return "(" + lib.GN(o.ID) + ", " + lib.GStr(tail) + ", " + lib.GStr(o.Line) + ", " + key + ")"
}

// tlsCheck: one batch; D (clause goroutine-local) and the gid cases for M
func (r *runner) tlsCheck(n int, minGid int64, where string, file string) []gidObs {
	if minGid > 0 {
		burnTo(uint64(minGid))
	}
	obs, before, during, after := tlsBatch(n)
	res := r.res
	res.Evaluations++
	res.Count("family.tls-batch")
	in := map[string]interface{}{"kind": "c14-tls", "n": n, "min_gid": minGid, "where": where}
	bad := false
	violate := func(what string) {
		bad = true
		r.nviol++
		res.Violate(lib.Violation{Clause: "goroutine-local", What: what, Input: in})
	}
	lo, hi := obs[0].ID, obs[0].ID
	for i := range obs {
		o := &obs[i]
		if o.ID < lo {
			lo = o.ID
		}
		if o.ID > hi {
			hi = o.ID
		}
		res.Count(fmt.Sprintf("goid.digits.%d", len(strconv.FormatUint(o.ID, 10))))
		if o.Got != i {
			got := "nothing"
			if o.Got >= 0 {
				got = fmt.Sprintf("%d, the value stored by the goroutine with id %d (key %d)", o.Got, obs[o.Got].ID, obs[o.Got].Key)
			}
			violate(fmt.Sprintf("of %d goroutines alive at the same time, the one with id %d (threadlocal key %d) stored %d in its goroutine-local storage and reads back %s",
				n, o.ID, o.Key, i, got))
		}
	}
	if during != before+n {
		violate(fmt.Sprintf("%d goroutines alive at the same time (ids %d..%d) each called threadlocal.Init: %d tables exist (%d before)", n, lo, hi, during, before))
	}
	if after != before {
		violate(fmt.Sprintf("goroutine-local tables: %d before, %d after all %d goroutines called Cleanup", before, after, n))
	}
	if n > 1 {
		res.Nontrivial(fmt.Sprintf("tls-batch|%d|%d|%d", n, lo, hi))
		res.Count("nontrivial")
	}
	cf := r.files[file]
	if cf == nil {
		cf = gidFile()
		r.files[file] = cf
	}
	for i := range obs {
		if bad || i%2 == 0 || len(strconv.FormatUint(obs[i].ID, 10)) >= 7 {
			cf.Add(obs[i].gallina(), in)
		}
	}
	return obs
}

func (r *runner) gidSamples(n int, where string) {
	r.tlsCheck(n, 0, where, "cases_gid")
}

func (r *runner) replayTLS(in interface{}) {
	var x struct {
		N      int   `json:"n"`
		MinGid int64 `json:"min_gid"`
	}
	lib.Remarshal(in, &x)
	if x.N <= 0 {
		x.N = 64
	}
	fmt.Printf("threadlocal batch: %d goroutines alive at the same time, in a process that has started >= %d goroutines\n", x.N, x.MinGid)
	before := len(r.res.Violations)
	obs := r.tlsCheck(x.N, x.MinGid, "replay", "cases_replay_gid")
	for i, o := range obs {
		key := fmt.Sprint(o.Key)
		if o.KeyPanic {
			key = "panic"
		}
		if i < 8 || o.Got != i {
			fmt.Printf("  goroutine id %d  key %s  stored %d  read %d\n", o.ID, key, i, o.Got)
		}
	}
	if len(r.res.Violations) == before {
		fmt.Println("the implementation satisfies the property on this case")
	}
	for _, v := range r.res.Violations[before:] {
		fmt.Printf("FAILS [%s] %s\n", v.Clause, v.What)
	}
}

// highGids: the boundaries 999999 -> 1000000 and 9999999 -> 10000000 of the id numeral and the binary boundaries
// 2^20 and 2^23.  Field `decimal`: run the full program families there (else corpus and a few random programs).
func (r *runner) highGids() {
	type bound struct {
		at      uint64
		decimal bool
	}
	// the last one takes about 8 s: its programs are run in the thorough tier only
	bounds := []bound{{1000000, true}, {1 << 20, false}, {1 << 23, false}, {10000000, false}}
	if r.cfg.Thorough() {
		bounds[3].decimal = true
	}
	secs := map[string]float64{}
	for _, b := range bounds {
		t0 := time.Now()
		// cross the boundary while sampling: goroutines alive at the same time on both sides of it
		r.tlsCheck(96, int64(b.at-64), fmt.Sprintf("across-%d", b.at), "cases_gid_high")
		r.tlsCheck(64, int64(b.at), fmt.Sprintf("above-%d", b.at), "cases_gid_high")
		r.highGidPrograms(int64(b.at), b.decimal)
		r.tlsCheck(64, int64(b.at), fmt.Sprintf("end-%d", b.at), "cases_gid_high")
		r.checkResidents(fmt.Sprintf("after-%d", b.at))
		secs[fmt.Sprint(b.at)] = float64(time.Since(t0).Milliseconds()) / 1000
	}
	r.res.Extra["highgid_seconds"] = secs
	r.res.Extra["highest_goid"] = probeGoid()
}

// ---- residents: goroutines that establish a context at the start of the run and stay inside it to its end ------
//
// (a server's long-lived goroutines while a million short-lived ones come and go): whenever asked, each must
// find the context it established as its current one.

type resident struct {
	no   int
	id   uint64
	ctx  px.Context
	turn chan func()
	ack  chan struct{}
}

var residents []*resident
var residentsBase int  // LiveTables before the residents started
var residentsAt uint64 // highest goroutine id at the last check that found every resident in order

func (r *runner) startResidents(n int) {
	residentsBase = threadlocal.LiveTables()
	for i := 0; i < n; i++ {
		rs := &resident{no: i, turn: make(chan func()), ack: make(chan struct{})}
		rs.ctx = pcore.NewContext(px.NewParentedLoader(pcore.EnvironmentLoader()), pcore.Logger())
		rs.ctx.Set("resident", i)
		started := make(chan struct{})
		var once sync.Once
		go func() {
			defer func() {
				_ = recover()
				once.Do(func() { close(started) })
			}()
			rs.id, _ = stackLine()
			serve := func() {
				once.Do(func() { close(started) })
				for f := range rs.turn {
					func() {
						defer func() { _ = recover() }()
						f()
					}()
					rs.ack <- struct{}{}
				}
			}
			if i%2 == 0 {
				px.DoWithContext(rs.ctx, func(px.Context) { serve() })
			} else {
				// a goroutine that has a table already
				threadlocal.Init()
				defer threadlocal.Cleanup()
				px.DoWithContext(rs.ctx, func(px.Context) { serve() })
			}
		}()
		<-started
		residents = append(residents, rs)
	}
	residentsAt = probeGoid()
}

func (r *runner) checkResidents(where string) {
	if len(residents) == 0 {
		return
	}
	res := r.res
	res.Evaluations++
	res.Count("family.residents")
	now := probeGoid()
	in := map[string]interface{}{"kind": "c14-resident", "n": len(residents), "from_gid": residentsAt, "to_gid": now, "where": where}
	bad := false
	for _, rs := range residents {
		rs := rs
		what := ""
		rs.turn <- func() {
			what = "the call panicked"
			cur := currentOrNil()
			switch {
			case cur == nil:
				what = "there is no current context"
			case cur != rs.ctx:
				what = "px.CurrentContext() returns another context"
				for _, o := range residents {
					if o.ctx == cur {
						what = fmt.Sprintf("px.CurrentContext() returns the context established by the resident goroutine with id %d", o.id)
					}
				}
			default:
				what = ""
			}
		}
		<-rs.ack
		if what != "" {
			bad = true
			r.nviol++
			res.Violate(lib.Violation{Clause: "never-observed-elsewhere", What: fmt.Sprintf(
				"goroutine with id %d has been inside px.DoWithContext(its own context) since the start of the run; after the goroutines with ids up to %d have come and gone (%s): %s",
				rs.id, now, where, what), Input: in})
		}
	}
	if !bad {
		residentsAt = now
		res.Nontrivial(fmt.Sprintf("residents|%s|%d", where, now))
		res.Count("nontrivial")
	}
}

func (r *runner) stopResidents() {
	if len(residents) == 0 {
		return
	}
	n := len(residents)
	during := threadlocal.LiveTables()
	for _, rs := range residents {
		close(rs.turn)
	}
	residents = nil
	after := during
	for i := 0; i < 2000; i++ {
		if after = threadlocal.LiveTables(); after == residentsBase {
			break
		}
		time.Sleep(time.Millisecond)
	}
	if after != residentsBase {
		r.nviol++
		r.res.Violate(lib.Violation{Clause: "tls-released", What: fmt.Sprintf(
			"goroutine-local tables: %d before the %d resident goroutines started, %d while they were inside DoWithContext, %d after all of them returned",
			residentsBase, n, during, after), Input: map[string]interface{}{"kind": "c14-resident", "n": n, "from_gid": 0, "to_gid": 0, "where": "stop"}})
	}
}

// replayResidents: residents, then goroutines that use goroutine-local storage with ids from from_gid to to_gid
// (at most the last 50000 of them), then the check
func (r *runner) replayResidents(in interface{}) {
	var x struct {
		N    int    `json:"n"`
		From uint64 `json:"from_gid"`
		To   uint64 `json:"to_gid"`
	}
	lib.Remarshal(in, &x)
	if x.N <= 0 {
		x.N = 16
	}
	before := len(r.res.Violations)
	r.startResidents(x.N)
	ids := make([]string, 0, x.N)
	for _, rs := range residents {
		ids = append(ids, fmt.Sprint(rs.id))
	}
	fmt.Printf("%d resident goroutines inside px.DoWithContext, ids %s\n", x.N, strings.Join(ids, " "))
	r.checkResidents("replay-start")
	from := x.From
	if x.To > 50000 && from < x.To-50000 {
		from = x.To - 50000
	}
	burnTo(from)
	for probeGoid() < x.To+128 {
		tlsBatch(128)
	}
	fmt.Printf("goroutines with ids %d..%d have used goroutine-local storage and ended\n", from, probeGoid())
	r.checkResidents("replay")
	r.stopResidents()
	if len(r.res.Violations) == before {
		fmt.Println("the implementation satisfies the property on this case")
	}
	for _, v := range r.res.Violations[before:] {
		fmt.Printf("FAILS [%s] %s\n", v.Clause, v.What)
	}
}

// highGidPrograms: the ordinary families on goroutines with long ids: corpus, fork states (goroutine routes),
// seeded random programs with several roots.  Free-running cases only when the step-scheduled ones were clean (an
// implementation that confuses goroutines can end the process from a goroutine the harness does not wrap).
func (r *runner) highGidPrograms(minGid int64, full bool) {
	burnTo(uint64(minGid))
	v0 := r.nviol
	rng := lib.NewRng(lib.NewRng(r.cfg.Seed ^ uint64(minGid)).Next())
	progs := [][][]Prog{}
	for _, roots := range corpusRoots() {
		relabel(roots)
		progs = append(progs, roots)
	}
	n := 60
	if r.cfg.Thorough() {
		n = 600
	}
	if !full {
		n /= 6
	}
	for i := 0; i < n; i++ {
		cr := rng.Fork()
		roots := randomRoots(cr)
		if len(roots) == 1 && i%3 != 0 {
			roots = append(roots, randomRoots(cr)...)
			relabel(roots)
		}
		progs = append(progs, roots)
	}
	emitted := 0
	for k, roots := range progs {
		k := k
		r.schedulesG(roots, "highgid", rng, 1, false, minGid, func(i int) string {
			if (k+i)%2 == 0 && emitted < 150 {
				emitted++
				return "cases_highgid"
			}
			return ""
		})
	}
	if full {
		r.forkStates("highgid", minGid, []string{"Fork", "Go"}, 16, "cases_highgid_fs")
	}
	if r.nviol == v0 {
		for k, roots := range progs {
			if k%2 == 0 {
				cs := &Case{Roots: roots, Mode: "free", MinGid: minGid}
				r.check(cs, "highgid", "")
			}
		}
	}
	r.res.Extra["highgid_corpus_random_programs"] = len(progs)
}
