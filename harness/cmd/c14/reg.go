package main

// Family registry (model: coq/Model/CtxReg.v): the two halves of a definition - the loader entry and the mapping
// Go type <-> type in the implementation registry of the context - made by a context BEFORE and AFTER it was forked,
// observed through forks of every depth and every route (Context.Fork, px.Fork, px.Go, pcore.DoWithParent(c, ..),
// pcore.WithParent on the registry of one and the loader of another context), with intermediate levels that hold
// nothing at fork time, from root contexts of pcore.NewContext and of pcore.Do.
// The contexts of px.Fork / px.Go / DoWithParent / Do live in goroutines of their own for the whole case; every call
// on such a context is executed by its goroutine (the turn is handed over channels: one call at a time, the order is
// the order of the history - the registry has no lock, races inside one call belong to C13).
// D (a reference in Go: own tables per context + the registry parent / loader parent of each context):
//   parent-visible-to-child  a lookup through context d (ReflectedToType, TypeToReflected, px.Wrap of the Go value,
//                            px.Load) misses or differs from what d's ancestors and d itself hold NOW, or
//                            RegisterType succeeds/fails differently from what that chain implies
//   fork-isolated            a lookup through d finds what only a context outside d's chain holds
//   tls-released             goroutine-local tables before = after the case
// M: history + results go to cases_reg*.v (reg_machine / reg_spec of CorrC14.v).

import (
	"context"
	"fmt"
	"reflect"
	"runtime"
	"strings"
	"sync"
	"time"

	"github.com/lyraproj/issue/issue"
	"github.com/lyraproj/pcore/pcore"
	"github.com/lyraproj/pcore/px"
	"github.com/lyraproj/pcore/threadlocal"
	"github.com/lyraproj/pcore/types"
	"verifharness/lib"
)

// the Go types that get registered (all of one shape, so that any type object fits any of them)
type regS0 struct{ A string }
type regS1 struct{ A string }
type regS2 struct{ A string }
type regS3 struct{ A string }

// the Go types from which the type objects of the pool are made (registered in throw-away contexts only)
type regP0 struct{ A string }
type regP1 struct{ A string }
type regP2 struct{ A string }
type regP3 struct{ A string }

const nRegGos = 4

func regSample(g int) interface{} {
	switch g {
	case 0:
		return &regS0{"x"}
	case 1:
		return &regS1{"x"}
	case 2:
		return &regS2{"x"}
	}
	return &regS3{"x"}
}

func regPoolSample(k int) interface{} {
	switch k {
	case 0:
		return &regP0{}
	case 1:
		return &regP1{}
	case 2:
		return &regP2{}
	}
	return &regP3{}
}

// names of types: index 1..3 (0 is the empty name in the model; not used)
var regNames = []string{"", "Verifc14r::A", "Verifc14r::B", "Verifc14r::C"}

// the pool of type objects: slot -> name index; identity = slot+1.  Slots 0 and 2 are two objects with one name.
var regPoolNames = []int{1, 2, 1, 3}

type HOp struct {
	// new | do | fork (Route method|pxfork|pxgo|dopar) | with (C registry, C2 loader) | reg (Route direct: T = pool
	// slot; Route reflect: T = identity >= 10, N = name index) | def (N name, V value) | obs
	Op    string `json:"op"`
	Route string `json:"route,omitempty"`
	C     int    `json:"c"`
	C2    int    `json:"c2,omitempty"`
	T     int    `json:"t,omitempty"`
	G     int    `json:"g,omitempty"`
	N     int    `json:"n,omitempty"`
	V     int    `json:"v,omitempty"`
}

type HCase struct {
	Ops []HOp `json:"ops"`
}

func (o *HOp) typeIdName() (id, name int) {
	if o.Route == "reflect" {
		return o.T, o.N
	}
	return o.T + 1, regPoolNames[o.T]
}

func (o *HOp) String() string {
	switch o.Op {
	case "new":
		return "NewContext"
	case "do":
		return "Do"
	case "fork":
		return fmt.Sprintf("c%d.Fork[%s]", o.C, o.Route)
	case "with":
		return fmt.Sprintf("WithParent(registry of c%d, loader of c%d)", o.C, o.C2)
	case "reg":
		id, name := o.typeIdName()
		if o.Route == "reflect" {
			return fmt.Sprintf("c%d.Reflector().TypeFromReflect(%s#%d, S%d)+AddTypes", o.C, regNames[name][11:], id, o.G)
		}
		return fmt.Sprintf("c%d.RegisterType(%s#%d, S%d)", o.C, regNames[name][11:], id, o.G)
	case "def":
		return fmt.Sprintf("c%d.Define(n%d,%d)", o.C, o.N, o.V)
	case "obs":
		return fmt.Sprintf("Observe(c%d)", o.C)
	}
	return o.Op
}

func (c *HCase) text() string {
	s := make([]string, len(c.Ops))
	for i := range c.Ops {
		s[i] = c.Ops[i].String()
	}
	return strings.Join(s, "; ")
}

func (o *HOp) gallina() string {
	switch o.Op {
	case "new":
		return "HNew"
	case "do":
		return "HDo"
	case "fork":
		return "HFork " + lib.GNat(o.C)
	case "with":
		return "HWith " + lib.GNat(o.C) + " " + lib.GNat(o.C2)
	case "reg":
		id, name := o.typeIdName()
		return fmt.Sprintf("HRegister %s {| t_id := %s; t_name := %s |} %s", lib.GNat(o.C), lib.GN(uint64(id)), lib.GN(uint64(name)), lib.GN(uint64(o.G)))
	case "def":
		return fmt.Sprintf("HDefine %s %s %s", lib.GNat(o.C), lib.GN(uint64(o.N)), lib.GZ(int64(o.V)))
	case "obs":
		return "HObserve " + lib.GNat(o.C)
	}
	panic("bad registry op " + o.Op)
}

// ---- results ------------------------------------------------------------------------------------------------------------

// a lookup: -1 missing, -2 the call panicked / gave something the harness does not know, >= 0 found
type hRes struct {
	Kind  string // ok | already | redefine | bad | obs | other
	R2T   []int  // per Go type: identity of the type object
	Wrap  []int  // per Go type: name index of the type of px.Wrap(c, &S{..})
	T2R   []int  // per name 1..3: Go type
	Loads []int  // per loader name: value
	Note  string
}

func gRres(v int, f func(int) string) string {
	switch {
	case v == -1:
		return "RMissing"
	case v < 0:
		return "RStuck"
	}
	return "RFound " + f(v)
}

func gRresList(vs []int, typ string) string {
	el := make([]string, len(vs))
	for i, v := range vs {
		el[i] = gRres(v, func(x int) string { return lib.GN(uint64(x)) })
	}
	return lib.GList(el, "rres "+typ)
}

func (h *hRes) gallina() string {
	switch h.Kind {
	case "ok":
		return "HOk"
	case "already":
		return "HAlready"
	case "redefine":
		return "HRedefine"
	case "obs":
		ld := make([]string, len(h.Loads))
		for i, v := range h.Loads {
			if v == -1 {
				ld[i] = "LMissing"
			} else if v < 0 {
				ld[i] = "LOutOfFuel"
			} else {
				ld[i] = "LFound " + lib.GZ(int64(v))
			}
		}
		return "HObs " + gRresList(h.R2T, "N") + " " + gRresList(h.Wrap, "N") + " " + gRresList(h.T2R, "gotype") + " " + lib.GList(ld, "lres")
	}
	return "HBad"
}

func lookText(v int) string {
	switch {
	case v == -1:
		return "-"
	case v < 0:
		return "!"
	}
	return fmt.Sprint(v)
}

func looksText(vs []int) string {
	s := make([]string, len(vs))
	for i, v := range vs {
		s[i] = lookText(v)
	}
	return "[" + strings.Join(s, " ") + "]"
}

func (h *hRes) String() string {
	if h.Kind == "obs" {
		return fmt.Sprintf("Go type -> type#: %s  Wrap -> name: %s  name -> Go type: %s  loads: %s", looksText(h.R2T), looksText(h.Wrap), looksText(h.T2R), looksText(h.Loads))
	}
	if h.Note != "" {
		return h.Kind + " (" + h.Note + ")"
	}
	return h.Kind
}

// ---- the reference --------------------------------------------------------------------------------------------------

type regShadow struct {
	regParent int // context whose registry is the parent of this one's; -1: a new root / the top registry (hold nothing)
	ldrParent int // -1: the environment loader
	r2t       map[int]int // Go type -> type identity
	r2tName   map[int]int // Go type -> name of that type
	t2r       map[int]int // name -> Go type
	ents      map[int]int
}

func (r *hRun) chainOf(c int, ldr bool) []int {
	var up []int
	for c >= 0 {
		up = append(up, c)
		if ldr {
			c = r.shadow[c].ldrParent
		} else {
			c = r.shadow[c].regParent
		}
	}
	// oldest first
	for i, j := 0, len(up)-1; i < j; i, j = i+1, j-1 {
		up[i], up[j] = up[j], up[i]
	}
	return up
}

func (r *hRun) refR2T(c, g int) (id, name, holder int) {
	for _, a := range r.chainOf(c, false) {
		if v, ok := r.shadow[a].r2t[g]; ok {
			return v, r.shadow[a].r2tName[g], a
		}
	}
	return -1, -1, -1
}

func (r *hRun) refT2R(c, n int) (g, holder int) {
	for _, a := range r.chainOf(c, false) {
		if v, ok := r.shadow[a].t2r[n]; ok {
			return v, a
		}
	}
	return -1, -1
}

func (r *hRun) refLoad(c, n int) (v, holder int) {
	for _, a := range r.chainOf(c, true) {
		if x, ok := r.shadow[a].ents[n]; ok {
			return x, a
		}
	}
	return -1, -1
}

// who else holds an entry for the key (outside the chain of c)
func (r *hRun) holdersOutside(c int, has func(s *regShadow) bool, ldr bool) []int {
	in := map[int]bool{}
	for _, a := range r.chainOf(c, ldr) {
		in[a] = true
	}
	var out []int
	for i, s := range r.shadow {
		if !in[i] && has(s) {
			out = append(out, i)
		}
	}
	return out
}

// ---- the interpreter ----------------------------------------------------------------------------------------------------

type regCtx struct {
	ctx px.Context
	ch  chan func() // nil: the context has no goroutine of its own
	ack chan struct{}
}

type hRun struct {
	caseNo  int
	ctxs    []*regCtx
	shadow  []*regShadow
	pool    []px.Type
	typeID  map[px.Type]int
	typeNm  map[int]int // identity -> name index
	goIndex map[string]int
	results []hRes
	found   []finding
	wg      sync.WaitGroup
	tables  [2]int
}

func (r *hRun) violate(clause, what string) {
	if len(r.found) < 8 {
		r.found = append(r.found, finding{clause: clause, what: what})
	}
}

// on runs f with context c current: in the goroutine of c, or here inside px.DoWithContext
func (r *hRun) on(c *regCtx, f func()) {
	if c.ch != nil {
		c.ch <- f
		<-c.ack
		return
	}
	px.DoWithContext(c.ctx, func(px.Context) { f() })
}

// worker: the body handed to px.Fork / px.Go / pcore.DoWithParent / pcore.Do
func (r *hRun) worker(started chan *regCtx) func(px.Context) {
	return func(c px.Context) {
		rc := &regCtx{ctx: c, ch: make(chan func()), ack: make(chan struct{})}
		started <- rc
		for f := range rc.ch {
			f()
			rc.ack <- struct{}{}
		}
		r.wg.Done()
	}
}

func regIssue(rec interface{}) string {
	if rp, ok := rec.(issue.Reported); ok {
		switch rp.Code() {
		case px.ImplAlreadyRegistered:
			return "already"
		case px.AttemptToRedefine, px.AttemptToRedefineType:
			return "redefine"
		}
		return "other: " + string(rp.Code())
	}
	return fmt.Sprintf("other: %v", rec)
}

func (r *hRun) tn(n int) px.TypedName {
	return px.NewTypedName(px.NsDefinition, fmt.Sprintf("verifc14r%d::n%d", r.caseNo, n))
}

func (r *hRun) newCtx(rc *regCtx, regParent, ldrParent int) {
	r.ctxs = append(r.ctxs, rc)
	r.shadow = append(r.shadow, &regShadow{regParent: regParent, ldrParent: ldrParent, r2t: map[int]int{}, r2tName: map[int]int{},
		t2r: map[int]int{}, ents: map[int]int{}})
}

func (r *hRun) exec(o *HOp) (res hRes) {
	res.Kind = "ok"
	get := func(i int) *regCtx {
		if i < 0 || i >= len(r.ctxs) {
			return nil
		}
		return r.ctxs[i]
	}
	switch o.Op {
	case "new":
		c := pcore.NewContext(px.NewParentedLoader(pcore.EnvironmentLoader()), pcore.Logger())
		r.newCtx(&regCtx{ctx: c}, -1, -1)
	case "do":
		started := make(chan *regCtx)
		r.wg.Add(1)
		go func() {
			defer func() { _ = recover() }()
			pcore.Do(r.worker(started))
		}()
		r.newCtx(<-started, -1, -1)
	case "fork":
		p := get(o.C)
		if p == nil {
			res.Kind = "bad"
			return
		}
		switch o.Route {
		case "method":
			var nc px.Context
			r.on(p, func() { nc = p.ctx.Fork() })
			r.newCtx(&regCtx{ctx: nc}, o.C, o.C)
		case "pxfork":
			started := make(chan *regCtx)
			r.wg.Add(1)
			px.Fork(p.ctx, r.worker(started))
			r.newCtx(<-started, o.C, o.C)
		case "pxgo":
			started := make(chan *regCtx)
			r.wg.Add(1)
			r.on(p, func() { px.Go(r.worker(started)) })
			r.newCtx(<-started, o.C, o.C)
		case "dopar":
			started := make(chan *regCtx)
			r.wg.Add(1)
			go func() {
				defer func() { _ = recover() }()
				pcore.DoWithParent(p.ctx, r.worker(started))
			}()
			r.newCtx(<-started, o.C, o.C)
		default:
			panic("bad fork route " + o.Route)
		}
	case "with":
		pr, pl := get(o.C), get(o.C2)
		if pr == nil || pl == nil {
			res.Kind = "bad"
			return
		}
		c := pcore.WithParent(context.Background(), px.NewParentedLoader(pl.ctx.Loader()), pcore.Logger(), pr.ctx.ImplementationRegistry())
		r.newCtx(&regCtx{ctx: c}, o.C, o.C2)
	case "reg":
		c := get(o.C)
		if c == nil {
			res.Kind = "bad"
			return
		}
		id, name := o.typeIdName()
		// the reference: what the chain of c implies (internal/implementationregistry.go:84)
		want := "ok"
		if g, _ := r.refT2R(o.C, name); g >= 0 && g != o.G {
			want = "already"
		}
		if t, _, _ := r.refR2T(o.C, o.G); t >= 0 && t != id {
			want = "already"
		}
		r.on(c, func() {
			defer func() {
				if rec := recover(); rec != nil {
					res.Kind = regIssue(rec)
					if strings.HasPrefix(res.Kind, "other") {
						res.Note, res.Kind = res.Kind, "other"
					}
				}
			}()
			if o.Route == "reflect" {
				t := c.ctx.Reflector().TypeFromReflect(regNames[name], nil, reflect.TypeOf(regSample(o.G)))
				r.typeID[t] = id
				r.typeNm[id] = name
				func() {
					defer func() {
						if rec := recover(); rec != nil {
							panic(fmt.Sprintf("AddTypes after a successful registration: %v", rec))
						}
					}()
					px.AddTypes(c.ctx, t)
				}()
			} else {
				c.ctx.ImplementationRegistry().RegisterType(r.pool[o.T], reflect.TypeOf(regSample(o.G)))
			}
		})
		if res.Kind == "ok" {
			s := r.shadow[o.C]
			s.r2t[o.G], s.r2tName[o.G], s.t2r[name] = id, name, o.G
		}
		if res.Kind != want {
			what := fmt.Sprintf("%s: %s; the registrations held now by c%d and its ancestors imply %s", o.String(), res.String(), o.C, want)
			r.violate("parent-visible-to-child", what)
		}
	case "def":
		c := get(o.C)
		if c == nil {
			res.Kind = "bad"
			return
		}
		r.on(c, func() {
			defer func() {
				if rec := recover(); rec != nil {
					res.Kind = regIssue(rec)
					if strings.HasPrefix(res.Kind, "other") {
						res.Note, res.Kind = res.Kind, "other"
					}
				}
			}()
			c.ctx.DefiningLoader().SetEntry(r.tn(o.N), px.NewLoaderEntry(types.WrapInteger(int64(o.V)), nil))
		})
		if res.Kind == "ok" {
			if _, has := r.shadow[o.C].ents[o.N]; !has {
				r.shadow[o.C].ents[o.N] = o.V
			}
		}
	case "obs":
		c := get(o.C)
		if c == nil {
			res.Kind = "bad"
			return
		}
		res.Kind = "obs"
		r.on(c, func() { r.observe(o, c, &res) })
	default:
		panic("bad registry op " + o.Op)
	}
	return
}

func (r *hRun) observe(o *HOp, c *regCtx, res *hRes) {
	ir := c.ctx.ImplementationRegistry()
	guard := func(f func() int) (v int) {
		defer func() {
			if rec := recover(); rec != nil {
				v = -2
			}
		}()
		return f()
	}
	differ := func(what string, key string, got, want, holder int, outside []int) {
		if got == want {
			return
		}
		if want >= 0 && (got == -1 || got == -2) {
			r.violate("parent-visible-to-child", fmt.Sprintf("Observe(c%d): %s of %s gives %s; c%d (an ancestor of c%d or c%d itself) holds %d now",
				o.C, what, key, lookText(got), holder, o.C, o.C, want))
			return
		}
		if want == -1 {
			r.violate("fork-isolated", fmt.Sprintf("Observe(c%d): %s of %s gives %s; neither c%d nor an ancestor holds an entry (contexts outside its chain that hold one: %v)",
				o.C, what, key, lookText(got), o.C, outside))
			return
		}
		r.violate("parent-visible-to-child", fmt.Sprintf("Observe(c%d): %s of %s gives %s; the oldest holder in its chain, c%d, holds %d now (contexts outside the chain that hold an entry: %v)",
			o.C, what, key, lookText(got), holder, want, outside))
	}
	for g := 0; g < nRegGos; g++ {
		g := g
		rt := reflect.TypeOf(regSample(g))
		got := guard(func() int {
			t, ok := ir.ReflectedToType(rt)
			if !ok {
				return -1
			}
			if id, known := r.typeID[t]; known {
				return id
			}
			return -2
		})
		res.R2T = append(res.R2T, got)
		want, wantName, holder := r.refR2T(o.C, g)
		outside := r.holdersOutside(o.C, func(s *regShadow) bool { _, ok := s.r2t[g]; return ok }, false)
		differ("ReflectedToType", fmt.Sprintf("S%d", g), got, want, holder, outside)
		// px.Wrap of a value of the Go type: an Object of the registered type, or a plain Hash
		gotW := guard(func() int {
			v := px.Wrap(c.ctx, regSample(g))
			if ot, ok := v.PType().(px.ObjectType); ok {
				for i, n := range regNames {
					if i > 0 && n == ot.Name() {
						return i
					}
				}
				return -2
			}
			return -1
		})
		res.Wrap = append(res.Wrap, gotW)
		differ("the type name of px.Wrap", fmt.Sprintf("&S%d{..}", g), gotW, wantName, holder, outside)
	}
	for n := 1; n <= 3; n++ {
		n := n
		probe := r.pool[map[int]int{1: 0, 2: 1, 3: 3}[n]]
		got := guard(func() int {
			rt, ok := ir.TypeToReflected(probe)
			if !ok {
				return -1
			}
			if g, known := r.goIndex[rt.String()]; known {
				return g
			}
			return -2
		})
		res.T2R = append(res.T2R, got)
		want, holder := r.refT2R(o.C, n)
		outside := r.holdersOutside(o.C, func(s *regShadow) bool { _, ok := s.t2r[n]; return ok }, false)
		differ("TypeToReflected", regNames[n][11:], got, want, holder, outside)
	}
	for n := 0; n < nNames; n++ {
		n := n
		got := guard(func() int {
			v, ok := px.Load(c.ctx, r.tn(n))
			if !ok {
				return -1
			}
			return int(v.(px.Integer).Int())
		})
		res.Loads = append(res.Loads, got)
		want, holder := r.refLoad(o.C, n)
		outside := r.holdersOutside(o.C, func(s *regShadow) bool { _, ok := s.ents[n]; return ok }, true)
		differ("px.Load", fmt.Sprintf("n%d", n), got, want, holder, outside)
	}
}

var regCaseCounter int

func runRegCase(cs *HCase) *hRun {
	regCaseCounter++
	r := &hRun{caseNo: regCaseCounter, typeID: map[px.Type]int{}, typeNm: map[int]int{}, goIndex: map[string]int{}}
	r.tables[0] = threadlocal.LiveTables()
	for g := 0; g < nRegGos; g++ {
		r.goIndex[types.NormalizeType(reflect.TypeOf(regSample(g))).String()] = g
	}
	// the pool of type objects: made and resolved in throw-away contexts
	for k, name := range regPoolNames {
		scratch := pcore.NewContext(px.NewParentedLoader(pcore.EnvironmentLoader()), pcore.Logger())
		t := scratch.Reflector().TypeFromReflect(regNames[name], nil, reflect.TypeOf(regPoolSample(k)))
		px.AddTypes(scratch, t)
		r.pool = append(r.pool, t)
		r.typeID[t] = k + 1
		r.typeNm[k+1] = name
	}
	for i := range cs.Ops {
		r.results = append(r.results, r.exec(&cs.Ops[i]))
	}
	for _, c := range r.ctxs {
		if c.ch != nil {
			close(c.ch)
		}
	}
	r.wg.Wait()
	for i := 0; i < 2000; i++ {
		if r.tables[1] = threadlocal.LiveTables(); r.tables[1] == r.tables[0] {
			break
		}
		runtime.Gosched()
		time.Sleep(50 * time.Microsecond)
	}
	if r.tables[1] != r.tables[0] {
		r.violate("tls-released", fmt.Sprintf("goroutine-local tables: %d before the case, %d after its goroutines have ended", r.tables[0], r.tables[1]))
	}
	return r
}

func (r *hRun) gallina(cs *HCase) string {
	ops := make([]string, len(cs.Ops))
	for i := range cs.Ops {
		ops[i] = cs.Ops[i].gallina()
	}
	rs := make([]string, len(r.results))
	for i := range r.results {
		rs[i] = r.results[i].gallina()
	}
	return "(" + lib.GList(ops, "hop") + ", " + lib.GList(rs, "hres") + ")"
}

func regFile() *lib.CasesFile {
	return &lib.CasesFile{Imports: []string{"Model.Base", "Model.Ctx", "Model.CtxReg", "Corr.CorrC14"},
		Typ:         "reg_case",
		Obligations: map[string]string{"reg_machine": "reg_mismatches cases", "reg_spec": "reg_spec_violations cases"}}
}

func (r *runner) regCheck(cs *HCase, family string, file string) *hRun {
	out := runRegCase(cs)
	res := r.res
	res.Evaluations++
	res.Count("family." + family)
	late, depth := false, 0
	level := map[int]int{}
	forkedFrom := map[int]bool{}
	n := 0
	for i := range cs.Ops {
		o := &cs.Ops[i]
		switch o.Op {
		case "new", "do":
			level[n] = 0
			n++
			res.Count("registry.root." + o.Op)
		case "fork", "with":
			level[n] = level[o.C] + 1
			if level[n] > depth {
				depth = level[n]
			}
			forkedFrom[o.C] = true
			n++
			if o.Op == "with" {
				res.Count("registry.route.withparent")
			} else {
				res.Count("registry.route." + o.Route)
			}
		case "reg", "def":
			if forkedFrom[o.C] && out.results[i].Kind == "ok" {
				late = true
			}
			if o.Op == "reg" {
				res.Count("registry.register." + o.Route + "." + out.results[i].Kind)
			}
		}
	}
	res.Count(fmt.Sprintf("registry.depth.%d", depth))
	if late {
		// a context registered or defined something after it had been forked
		res.Nontrivial("registry|" + cs.text())
		res.Count("nontrivial")
	}
	in := map[string]interface{}{"kind": "c14-reg", "case": cs, "text": cs.text()}
	for _, f := range out.found {
		r.nviol++
		res.Violate(lib.Violation{Clause: f.clause, What: f.what + "   in: " + cs.text(), Input: in, Tags: f.tags})
	}
	if file == "" && len(out.found) > 0 && len(res.Violations) <= 20 {
		file = "cases_failing_reg"
	}
	if file != "" {
		if r.files[file] == nil {
			r.files[file] = regFile()
		}
		r.files[file].Add(out.gallina(cs), in)
	}
	return out
}

func (r *runner) replayReg(in interface{}) {
	var x struct {
		Case HCase `json:"case"`
	}
	lib.Remarshal(in, &x)
	fmt.Printf("history: %s\n", x.Case.text())
	out := r.regCheck(&x.Case, "replay", "cases_replay_reg")
	for i, h := range out.results {
		fmt.Printf("  %-60s %s\n", x.Case.Ops[i].String(), h.String())
	}
	fmt.Printf("  goroutine-local tables before/after: %d/%d\n", out.tables[0], out.tables[1])
	if len(out.found) == 0 {
		fmt.Println("the implementation satisfies the property on this case")
	}
	for _, f := range out.found {
		fmt.Printf("FAILS [%s] %s\n", f.clause, f.what)
	}
}

// ---- generators ------------------------------------------------------------------------------------------------------------

var regRoutes = []string{"method", "pxfork", "pxgo", "dopar", "with"}

func hFork(c int, route string) HOp {
	if route == "with" {
		return HOp{Op: "with", C: c, C2: c}
	}
	return HOp{Op: "fork", Route: route, C: c}
}
func hReg(c, slot, g int) HOp { return HOp{Op: "reg", Route: "direct", C: c, T: slot, G: g} }
func hReflect(c, id, name, g int) HOp {
	return HOp{Op: "reg", Route: "reflect", C: c, T: id, N: name, G: g}
}
func hDef(c, n, v int) HOp { return HOp{Op: "def", C: c, N: n, V: v} }
func hObs(cs ...int) []HOp {
	var ops []HOp
	for _, c := range cs {
		ops = append(ops, HOp{Op: "obs", C: c})
	}
	return ops
}

func (r *runner) regFamily(rng *lib.Rng) {
	// bounded-exhaustive: root P (c0) -> C1 (c1) -> C2 (c2), a sibling S (c3) of C1, a grandchild C3 (c4) of C2 made late.
	// pre: P registers before any fork; mid: C1 registers before C2 is made; late: P (and C1) register when all forks
	// exist - by RegisterType or by Reflector().TypeFromReflect + AddTypes - and define a loader entry.
	for _, origin := range []string{"new", "do"} {
		for _, pre := range []bool{false, true} {
			for _, r1 := range regRoutes {
				for _, mid := range []bool{false, true} {
					for _, r2 := range regRoutes {
						for _, lateRoute := range []string{"direct", "reflect"} {
							for _, lateC1 := range []bool{false, true} {
								var ops []HOp
								ops = append(ops, HOp{Op: origin})
								if pre {
									ops = append(ops, hReg(0, 0, 0), hDef(0, 0, 10))
								}
								ops = append(ops, hFork(0, r1))
								if mid {
									ops = append(ops, hReg(1, 1, 1), hDef(1, 1, 21))
								}
								ops = append(ops, hFork(1, r2), hFork(0, "method"))
								ops = append(ops, hObs(0, 1, 2, 3)...)
								// late registrations of the ancestors
								if lateRoute == "direct" {
									ops = append(ops, hReg(0, 3, 3))
								} else {
									ops = append(ops, hReflect(0, 10, 3, 3))
								}
								ops = append(ops, hDef(0, 2, 30))
								ops = append(ops, hObs(0, 1, 2, 3)...)
								if lateC1 {
									ops = append(ops, hReflect(1, 11, 2, 2)) // name B: already held by C1 itself when mid (with S1)
									ops = append(ops, hDef(1, 0, 41))         // shadowed by P's n0 when P defined it (the parent's entry first)
									ops = append(ops, hObs(1, 2, 3)...)
								}
								// a fork made when everything is registered, three levels down
								ops = append(ops, hFork(2, r1))
								ops = append(ops, hObs(4)...)
								// the forks register: what an ancestor holds is refused (another type object for S0 / S3),
								// what a sibling or a descendant holds is not; the parent registers what a fork holds
								ops = append(ops, hReg(2, 2, 0), hReg(2, 2, 3), hReg(3, 1, 1), hReg(4, 0, 2), hReg(0, 1, 1), hDef(3, 1, 51))
								ops = append(ops, hObs(0, 1, 2, 3, 4)...)
								// M: the histories with the late registration of C1 (they extend the ones without), two files
								file := ""
								if lateC1 {
									file = "cases_reg0"
									if origin == "do" {
										file = "cases_reg2"
									}
								}
								r.regCheck(&HCase{Ops: ops}, "registry", file)
							}
						}
					}
				}
			}
		}
	}
	// random histories
	n := 500
	if r.cfg.Thorough() {
		n = 5000
	}
	for i := 0; i < n; i++ {
		file := ""
		if r.cfg.Thorough() {
			file = fmt.Sprintf("cases_reg1_%d", i/500)
		} else if i%2 == 0 {
			file = "cases_reg1"
		}
		r.regCheck(randomRegCase(rng), "registry-random", file)
	}
}

func randomRegCase(rng *lib.Rng) *HCase {
	var ops []HOp
	nctx := 0
	nextID := 10
	add := func(o HOp) { ops = append(ops, o) }
	if rng.Bool() {
		add(HOp{Op: "new"})
	} else {
		add(HOp{Op: "do"})
	}
	nctx++
	steps := 8 + rng.Intn(14)
	for i := 0; i < steps; i++ {
		k := rng.Intn(20)
		c := rng.Intn(nctx)
		// prefer old contexts for registrations (late registrations of ancestors), young ones for observations
		switch {
		case k < 5 && nctx < 7:
			// forks tend to go deep: the youngest context with probability 1/2
			if rng.Bool() {
				c = nctx - 1
			}
			route := regRoutes[rng.Intn(len(regRoutes))]
			if route == "with" && rng.Chance(1, 3) {
				add(HOp{Op: "with", C: c, C2: rng.Intn(nctx)})
			} else {
				add(hFork(c, route))
			}
			nctx++
		case k < 6 && nctx < 7:
			if rng.Bool() {
				add(HOp{Op: "new"})
			} else {
				add(HOp{Op: "do"})
			}
			nctx++
		case k < 10:
			if rng.Chance(2, 3) {
				c = rng.Intn((nctx + 1) / 2)
			}
			if rng.Chance(1, 3) {
				add(hReflect(c, nextID, 1+rng.Intn(3), rng.Intn(nRegGos)))
				nextID++
			} else {
				add(hReg(c, rng.Intn(len(regPoolNames)), rng.Intn(nRegGos)))
			}
		case k < 12:
			if rng.Chance(2, 3) {
				c = rng.Intn((nctx + 1) / 2)
			}
			add(hDef(c, rng.Intn(nNames), 1+rng.Intn(90)))
		default:
			if rng.Bool() {
				c = nctx - 1 - rng.Intn((nctx+1)/2)
			}
			add(HOp{Op: "obs", C: c})
		}
	}
	for c := 0; c < nctx; c++ {
		add(HOp{Op: "obs", C: c})
	}
	return &HCase{Ops: ops}
}
