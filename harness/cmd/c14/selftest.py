#!/usr/bin/env python3
# Self-test of the C14 check (not run by ./check): reverts of the fix commits, invented mutants, harmless rewrites.
# Usage:  git -C /repo worktree add /tmp/wt-c14 HEAD && python3 harness/cmd/c14/selftest.py [R1 M3 ...] ;
#         git -C /repo worktree remove --force /tmp/wt-c14 ; then re-run ./check C14 (the evidence file is overwritten).
# Each variant is applied to the scratch worktree /tmp/wt-c14, built, go-tested, and checked with ./check C14.
import os, subprocess, sys, json, time, re

WT = '/tmp/wt-c14'
ENV = dict(os.environ, GOFLAGS='-mod=mod', GOPROXY='off', GOSUMDB='off', GOTOOLCHAIN='local')

def sh(cmd, cwd=None, env=ENV, timeout=1800):
    p = subprocess.run(cmd, cwd=cwd, env=env, shell=True, stdout=subprocess.PIPE, stderr=subprocess.STDOUT, text=True, timeout=timeout)
    return p.returncode, p.stdout

def rd(f): return open(os.path.join(WT, f)).read()
def wr(f, s): open(os.path.join(WT, f), 'w').write(s)

def sub(f, old, new, count=1):
    s = rd(f)
    assert old in s, (f, old)
    return f, s.replace(old, new, count)

variants = []

def revert(h):
    def mk():
        rc, out = sh('git -C /repo show %s --format= | git -C %s apply -R' % (h, WT))
        assert rc == 0, out
        return None
    def undo():
        rc, out = sh('git -C /repo show %s --format= | git -C %s apply' % (h, WT))
        assert rc == 0, out
    return mk, undo

def edit(*subs):
    saved = {}
    def mk():
        for (f, old, new) in subs:
            s = rd(f)
            if f not in saved:
                saved[f] = s
            assert old in s, (f, old)
            wr(f, s.replace(old, new, 1))
    def undo():
        for f, s in saved.items():
            wr(f, s)
    return mk, undo

V = [
 ('R1 revert 68e2806 (DoWithContext leaks table/context)', 'fire') + revert('68e2806'),
 ('R2 revert 67b3430 (Fork forks in the child)', 'fire') + revert('67b3430'),
 ('R3 revert 7600e7d (Do installs RootContext)', 'fire') + revert('7600e7d'),
 ('M1 DoWithContext: saved context not restored', 'fire') + edit(
    ('px/context.go', "\t\tdefer func() {\n\t\t\tthreadlocal.Set(PuppetContextKey, saveCtx)\n\t\t}()\n", "\t\t_ = saveCtx\n")),
 ('M2 px.Fork: no deferred Cleanup', 'fire') + edit(
    ('px/context.go', "\tgo func() {\n\t\tdefer threadlocal.Cleanup()\n\t\tthreadlocal.Init()\n\t\tthreadlocal.Set(PuppetContextKey, cf)", "\tgo func() {\n\t\tthreadlocal.Init()\n\t\tthreadlocal.Set(PuppetContextKey, cf)")),
 ('M3 pxContext.Fork shares the vars map', 'fire') + edit(
    ('internal/context.go', "\t\tclone.vars = cv\n", "\t\tclone.vars = c.vars\n\t\t_ = cv\n")),
 ('M4 pxContext.Fork shares the stack slice', 'fire') + edit(
    ('internal/context.go', "\tclone.stack = s\n", "\tclone.stack = c.stack\n\t_ = s\n")),
 ('M5 DoWithLoader does not restore the loader', 'fire') + edit(
    ('internal/context.go', "\tdefer func() {\n\t\tc.loader = saveLoader\n\t}()\n\tc.loader = loader\n", "\t_ = saveLoader\n\tc.loader = loader\n")),
 ('M6 pxContext.Fork keeps the parent loader (no child loader)', 'fire') + edit(
    ('internal/context.go', "\tclone.loader = px.NewParentedLoader(clone.loader)\n", "")),
 ('M7 DoWithContext with a table and no context: context left current (Delete dropped)', 'fire') + edit(
    ('px/context.go', "\t\tdefer threadlocal.Delete(PuppetContextKey)\n", "")),
 ('M8 DoWithContext: restore runs only on normal return (no defer)', 'fire') + edit(
    ('px/context.go', "\t\tdefer func() {\n\t\t\tthreadlocal.Set(PuppetContextKey, saveCtx)\n\t\t}()\n", "\t\tdefer func() {\n\t\t\tif r := recover(); r != nil {\n\t\t\t\tpanic(r)\n\t\t\t}\n\t\t\tthreadlocal.Set(PuppetContextKey, saveCtx)\n\t\t}()\n")),
 ('M9 threadlocal.Go: no deferred Cleanup', 'fire') + edit(
    ('threadlocal/gid.go', "\tgo func() {\n\t\tdefer Cleanup()\n\t\tInit()\n\t\tf()", "\tgo func() {\n\t\tInit()\n\t\tf()")),
 ('H1 harmless: DoWithContext tests Initialized first', 'quiet') + edit(
    ('px/context.go',
     "\tif saveCtx, ok := threadlocal.Get(PuppetContextKey); ok {\n\t\tdefer func() {\n\t\t\tthreadlocal.Set(PuppetContextKey, saveCtx)\n\t\t}()\n\t} else if threadlocal.Initialized() {\n\t\t// local storage without a current context: leave it that way\n\t\tdefer threadlocal.Delete(PuppetContextKey)\n\t} else {\n\t\t// no local storage: the one created here is released when the call ends\n\t\tthreadlocal.Init()\n\t\tdefer threadlocal.Cleanup()\n\t}\n",
     "\tif !threadlocal.Initialized() {\n\t\tthreadlocal.Init()\n\t\tdefer threadlocal.Cleanup()\n\t} else if saveCtx, ok := threadlocal.Get(PuppetContextKey); ok {\n\t\tdefer func(old interface{}) { threadlocal.Set(PuppetContextKey, old) }(saveCtx)\n\t} else {\n\t\tdefer threadlocal.Delete(PuppetContextKey)\n\t}\n")),
 ('H2 harmless: px.Go inlines Fork', 'quiet') + edit(
    ('px/context.go', "func Go(f ContextDoer) {\n\tFork(CurrentContext(), f)\n}", "func Go(f ContextDoer) {\n\tcf := CurrentContext().Fork()\n\tgo func() {\n\t\tdefer threadlocal.Cleanup()\n\t\tthreadlocal.Init()\n\t\tthreadlocal.Set(PuppetContextKey, cf)\n\t\tf(cf)\n\t}()\n}")),
 ('H3 harmless: pxContext.Fork copies vars before cloning', 'quiet') + edit(
    ('internal/context.go', "\ts := make([]issue.Location, len(c.stack))\n\tcopy(s, c.stack)\n\tclone := c.clone()\n", "\tclone := c.clone()\n\ts := append([]issue.Location{}, c.stack...)\n")),
 # ---- second round (strengthening after the seeded changes C14-m1, C14-m2) ----
 ('S1 seeded C14-m1: Fork copies vars only if len > 0 (an emptied table is shared)', 'fire') + edit(
    ('internal/context.go', "\tif c.vars != nil {\n\t\tcv := make", "\tif len(c.vars) > 0 {\n\t\tcv := make")),
 ('S2 seeded C14-m2: getg reads the stack header through 16 bytes', 'fire') + edit(
    ('threadlocal/gid.go', "\tvar buf [64]byte\n\n\tl := runtime.Stack(buf[:64], false)", "\tvar buf [16]byte\n\n\tl := runtime.Stack(buf[:], false)")),
 ('V1 Fork copies the stack only if len > 0 (an emptied stack shares its backing array)', 'fire') + edit(
    ('internal/context.go', "\ts := make([]issue.Location, len(c.stack))\n\tcopy(s, c.stack)\n", "\ts := c.stack\n\tif len(c.stack) > 0 {\n\t\ts = make([]issue.Location, len(c.stack))\n\t\tcopy(s, c.stack)\n\t}\n")),
 ('V2 Fork shares the stack array with clipped capacity (pop+push in the parent shows in the child)', 'fire') + edit(
    ('internal/context.go', "\ts := make([]issue.Location, len(c.stack))\n\tcopy(s, c.stack)\n", "\ts := c.stack[:len(c.stack):len(c.stack)]\n")),
 ('V3 getg keeps the low 20 bits of the id', 'fire') + edit(
    ('threadlocal/gid.go', "\treturn n\n}", "\treturn n&0xfffff + 1\n}")),
 ('V4 DoWithParent(context) makes the parent itself current (no fork) [go test fails: not a valid mutant]', 'fire') + edit(
    ('internal/runtime.go', "\t\tctx := ec.Fork()\n\t\tpx.DoWithContext(ctx, actor)", "\t\tpx.DoWithContext(ec, actor)")),
 ('V5 getg reads the stack header through 17 bytes', 'fire') + edit(
    ('threadlocal/gid.go', "\tvar buf [64]byte\n\n\tl := runtime.Stack(buf[:64], false)", "\tvar buf [17]byte\n\n\tl := runtime.Stack(buf[:], false)")),
 ('H4 harmless: Delete drops the variable table when it becomes empty', 'quiet') + edit(
    ('internal/context.go', "\t\tdelete(c.vars, key)\n", "\t\tdelete(c.vars, key)\n\t\tif len(c.vars) == 0 {\n\t\t\tc.vars = nil\n\t\t}\n")),
 ('H5 harmless: getg reads the stack header through 32 bytes (every int64 numeral fits)', 'quiet') + edit(
    ('threadlocal/gid.go', "\tvar buf [64]byte\n\n\tl := runtime.Stack(buf[:64], false)", "\tvar buf [32]byte\n\n\tl := runtime.Stack(buf[:], false)")),
 # ---- third round (strengthening after the seeded change C14-m5: goroutines that end by runtime.Goexit) ----
 ('S5 seeded C14-m5: px.Fork releases the storage after the doer instead of in a deferred call', 'fire') + edit(
    ('px/context.go', "\t\tdefer threadlocal.Cleanup()\n\t\tthreadlocal.Init()\n\t\tthreadlocal.Set(PuppetContextKey, cf)\n\t\tdoer(cf)\n",
     "\t\tthreadlocal.Init()\n\t\tthreadlocal.Set(PuppetContextKey, cf)\n\t\tdoer(cf)\n\t\tthreadlocal.Cleanup()\n")),
 ('V6 threadlocal.Go releases the storage on return and on panic (recover, re-panic), not on Goexit', 'fire') + edit(
    ('threadlocal/gid.go', "\t\tdefer Cleanup()\n\t\tInit()\n\t\tf()\n",
     "\t\tdefer func() {\n\t\t\tif r := recover(); r != nil {\n\t\t\t\tCleanup()\n\t\t\t\tpanic(r)\n\t\t\t}\n\t\t}()\n\t\tInit()\n\t\tf()\n\t\tCleanup()\n")),
 ('V7 DoWithContext releases the storage it created on return and on panic (recover, re-panic), not on Goexit', 'fire') + edit(
    ('px/context.go', "\t\tthreadlocal.Init()\n\t\tdefer threadlocal.Cleanup()\n\t}\n\tthreadlocal.Set(PuppetContextKey, ctx)\n\tactor(ctx)\n",
     "\t\tthreadlocal.Init()\n\t\tdefer func() {\n\t\t\tif r := recover(); r != nil {\n\t\t\t\tthreadlocal.Cleanup()\n\t\t\t\tpanic(r)\n\t\t\t}\n\t\t}()\n\t\tthreadlocal.Set(PuppetContextKey, ctx)\n\t\tactor(ctx)\n\t\tthreadlocal.Cleanup()\n\t\treturn\n\t}\n\tthreadlocal.Set(PuppetContextKey, ctx)\n\tactor(ctx)\n")),
 ('H6 harmless: px.Fork registers the deferred Cleanup after Init, through a closure', 'quiet') + edit(
    ('px/context.go', "\t\tdefer threadlocal.Cleanup()\n\t\tthreadlocal.Init()\n\t\tthreadlocal.Set(PuppetContextKey, cf)\n\t\tdoer(cf)\n",
     "\t\tthreadlocal.Init()\n\t\tdefer func() { threadlocal.Cleanup() }()\n\t\tthreadlocal.Set(PuppetContextKey, cf)\n\t\tdoer(cf)\n")),
]

only = sys.argv[1:]
results = []
for name, expect, mk, undo in V:
    tag = name.split()[0]
    if only and tag not in only:
        continue
    t0 = time.time()
    try:
        mk()
    except AssertionError as e:
        results.append((name, 'PATCH-FAILED %s' % (e,)))
        print(results[-1], flush=True)
        continue
    try:
        rc, out = sh('go build ./... && go vet ./px ./internal ./threadlocal >/dev/null 2>&1; go build ./...', cwd=WT)
        if rc != 0:
            results.append((name, 'DOES-NOT-BUILD ' + out[-300:]))
            print(results[-1], flush=True)
            continue
        rc, out = sh('go test -vet=off -count=1 ./... 2>&1 | tail -30', cwd=WT)
        failed = [l for l in out.split('\n') if l.startswith('FAIL') or l.startswith('--- FAIL')]
        gotest = 'go-test-pass' if not failed else 'GO-TEST-FAILS ' + ' | '.join(failed[:3])
        rc, out = sh('./check C14 --tier quick --seed 1', cwd='/verif', env=dict(ENV, VERIF_REPO=WT))
        viol = [l for l in out.split('\n') if l.startswith('VIOLATION') or l.startswith('KNOWN-FINDING')]
        summ = [l for l in out.split('\n') if l.startswith('C14 quick')]
        clause = ''
        if viol:
            m = re.search(r'replay=(\S+)', viol[0])
            if m:
                try:
                    rp = json.load(open(os.path.join('/verif', m.group(1))))
                    clause = '%s: %s' % (rp.get('clause') or rp.get('kind'), (rp.get('what') or rp.get('obligation') or '')[:200])
                except Exception as e:
                    clause = str(e)
        verdict = 'exit %d, %d violation lines' % (rc, len(viol))
        okk = (expect == 'fire' and rc == 1 and viol) or (expect == 'quiet' and rc == 0 and not viol)
        results.append((name, ('OK ' if okk else 'UNEXPECTED ') + verdict + ' | ' + gotest + ' | ' + clause + ' | ' + ' '.join(summ) + ' | %.0fs' % (time.time() - t0)))
        print(results[-1], flush=True)
    finally:
        undo()
rc, out = sh('git -C %s status --short' % WT)
print('worktree status after undo:', out.strip() or 'clean')
