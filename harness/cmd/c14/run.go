package main

import (
	"fmt"
	"runtime"
	"sort"
	"strings"
	"sync"
	"time"

	"github.com/lyraproj/issue/issue"
	"github.com/lyraproj/pcore/pcore"
	"github.com/lyraproj/pcore/px"
	"github.com/lyraproj/pcore/threadlocal"
	"github.com/lyraproj/pcore/types"
	"verifharness/lib"
)

// ---- observations --------------------------------------------------------------------------------

// lexObs: the state of the lexical context (the one handed to the enclosing body) seen by an Observe
type lexObs struct {
	Ctx    int    `json:"ctx"`    // label of the lexical context
	Loader int    `json:"loader"` // label of its Loader()
	Vars   []*int `json:"vars"`   // Get(key 0..nKeys-1)
	Stack  []int  `json:"stack"`  // Stack() as location numbers
	Loads  []*int `json:"loads"`  // px.Load(c, name 0..nNames-1)
}

type event struct {
	Kind string  `json:"kind"` // obs | panic | end
	L    int     `json:"l,omitempty"`
	Cur  *int    `json:"cur,omitempty"` // label of px.CurrentContext(), nil: there is none
	Lex  *lexObs `json:"lex,omitempty"`
	Cls  string  `json:"cls,omitempty"` // panic class
}

func gOptLabel(p *int) string {
	if p == nil {
		return "None"
	}
	return "(Some " + gLabel(*p) + ")"
}

func gOptVals(vs []*int) string {
	el := make([]string, len(vs))
	for i, v := range vs {
		if v == nil {
			el[i] = "None"
		} else {
			el[i] = "Some " + lib.GZ(int64(*v))
		}
	}
	return lib.GList(el, "option val")
}

func gLoads(vs []*int) string {
	el := make([]string, len(vs))
	for i, v := range vs {
		if v == nil {
			el[i] = "LMissing"
		} else {
			el[i] = "LFound " + lib.GZ(int64(*v))
		}
	}
	return lib.GList(el, "lres")
}

func (e *event) gallina() string {
	switch e.Kind {
	case "obs":
		lex := "None"
		if e.Lex != nil {
			st := make([]string, len(e.Lex.Stack))
			for i, s := range e.Lex.Stack {
				st[i] = lib.GN(uint64(s))
			}
			lex = fmt.Sprintf("(Some (LO %s %s %s %s %s))", gLabel(e.Lex.Ctx), gLabel(e.Lex.Loader),
				gOptVals(e.Lex.Vars), lib.GList(st, "loc"), gLoads(e.Lex.Loads))
		}
		return fmt.Sprintf("EObs %s %s %s", gLabel(e.L), gOptLabel(e.Cur), lex)
	case "panic":
		return "EPanic " + e.Cls
	case "end":
		return "EEnd"
	}
	panic("bad event")
}

func (e *event) String() string {
	switch e.Kind {
	case "obs":
		cur := "none"
		if e.Cur != nil {
			cur = fmt.Sprintf("ctx#%d", *e.Cur)
		}
		s := fmt.Sprintf("Observe#%d: current=%s", e.L, cur)
		if e.Lex != nil {
			s += fmt.Sprintf(" lexical=ctx#%d loader#%d vars=%s stack=%v loads=%s", e.Lex.Ctx, e.Lex.Loader,
				optText(e.Lex.Vars), e.Lex.Stack, optText(e.Lex.Loads))
		}
		return s
	case "panic":
		if e.Cls == "PExit" {
			return "runtime.Goexit"
		}
		return "panic " + e.Cls
	}
	return "end"
}

func optText(vs []*int) string {
	s := make([]string, len(vs))
	for i, v := range vs {
		if v == nil {
			s[i] = "-"
		} else {
			s[i] = fmt.Sprint(*v)
		}
	}
	return "[" + strings.Join(s, " ") + "]"
}

// ---- the tiny reference: what each context/loader must contain, updated only by its own goroutine's operations ----

type shCtx struct {
	vars   map[int]int
	stack  []int
	loader int // label
}

type shLdr struct {
	parent int // label, -1: none
	ents   map[int]int
}

func (s *shCtx) fork(loader int) *shCtx {
	n := &shCtx{vars: map[int]int{}, stack: append([]int{}, s.stack...), loader: loader}
	for k, v := range s.vars {
		n.vars[k] = v
	}
	return n
}

// ---- world of one case ---------------------------------------------------------------------------

type finding struct {
	clause string
	what   string
	tags   []string
}

type world struct {
	mu        sync.Mutex
	caseNo    int
	c         *Case
	base      px.Loader
	ctxLabel  map[px.Context]int
	ldrLabel  map[px.Loader]int
	shadowCtx map[int]*shCtx
	shadowLdr map[int]*shLdr
	gs        []*G
	ctl       *controller
	found     []finding
}

type G struct {
	id     int
	w      *world
	grant  chan struct{}
	events []event
	// an inner scope of the current body has ended normally / by panic since the last Observe (message wording only)
	afterReturn, afterPanic bool
}

type recordedPanic struct {
	orig interface{}
	cls  string
}

func (r *recordedPanic) Error() string { return fmt.Sprintf("c14 harness panic %s: %v", r.cls, r.orig) }

type userPanic struct{}

func (userPanic) Error() string { return "user panic" }

type noCtxPanic struct{}

func (noCtxPanic) Error() string { return "no lexical context" }

func classify(r interface{}) string {
	switch x := r.(type) {
	case userPanic:
		return "PUser"
	case noCtxPanic:
		return "PNoCtx"
	case issue.Reported:
		switch x.Code() {
		case px.NoCurrentContext:
			return "PNoCurrent"
		case px.AttemptToRedefine, px.AttemptToRedefineType:
			return "PRedefine"
		}
		return "POther"
	case runtime.Error:
		return "PFault"
	case string:
		if strings.Contains(x, "thread local not initialized") {
			return "PNoTable"
		}
	}
	return "POther"
}

func (w *world) violate(clause, what string, tags ...string) {
	w.mu.Lock()
	if len(w.found) < 8 {
		w.found = append(w.found, finding{clause, what, tags})
	}
	w.mu.Unlock()
}

func (g *G) emit(e event) { g.events = append(g.events, e) }

// guard runs f; a panic raised by it (not one passing through from a nested body) is recorded as an event
func (g *G) guard(f func()) {
	defer func() {
		if r := recover(); r != nil {
			if rp, ok := r.(*recordedPanic); ok {
				panic(rp)
			}
			cls := classify(r)
			g.emit(event{Kind: "panic", Cls: cls})
			if cls == "POther" || cls == "PNoTable" {
				g.w.violate("no-fault", fmt.Sprintf("goroutine g%d: unexpected panic %v", g.id, r))
			}
			panic(&recordedPanic{r, cls})
		}
	}()
	f()
}

// recovered is called by the recover points (Try, goroutine top) with the recovered value
func (g *G) recovered(r interface{}) {
	if _, ok := r.(*recordedPanic); ok {
		return
	}
	cls := classify(r)
	g.emit(event{Kind: "panic", Cls: cls})
	g.w.violate("no-fault", fmt.Sprintf("goroutine g%d: unexpected panic %v", g.id, r))
}

func (g *G) lex(env []px.Context) px.Context {
	if len(env) == 0 {
		g.guard(func() { panic(noCtxPanic{}) })
	}
	return env[0]
}

func (w *world) labelOfCtx(c px.Context) int {
	w.mu.Lock()
	defer w.mu.Unlock()
	if l, ok := w.ctxLabel[c]; ok {
		return l
	}
	return unknownLabel
}

func (w *world) labelOfLoader(l px.Loader) int {
	w.mu.Lock()
	defer w.mu.Unlock()
	if x, ok := w.ldrLabel[l]; ok {
		return x
	}
	return unknownLabel
}

// register a context created at node `label` together with its (new) loader and its reference state
func (w *world) register(c px.Context, label int, sh *shCtx, ldrParent int) {
	w.mu.Lock()
	defer w.mu.Unlock()
	w.ctxLabel[c] = label
	if _, ok := w.ldrLabel[c.Loader()]; !ok {
		w.ldrLabel[c.Loader()] = label
	}
	w.shadowCtx[label] = sh
	if _, ok := w.shadowLdr[label]; !ok {
		w.shadowLdr[label] = &shLdr{parent: ldrParent, ents: map[int]int{}}
	}
}

func (w *world) sh(c px.Context) *shCtx {
	w.mu.Lock()
	defer w.mu.Unlock()
	return w.shadowCtx[w.ctxLabel[c]]
}

func (w *world) shadowLookup(loader, name int) *int {
	w.mu.Lock()
	defer w.mu.Unlock()
	// parent first (loader/loader.go:166), then own
	chain := []int{}
	for l := loader; l >= 0; {
		s, ok := w.shadowLdr[l]
		if !ok {
			break
		}
		chain = append(chain, l)
		l = s.parent
	}
	for i := len(chain) - 1; i >= 0; i-- {
		if v, ok := w.shadowLdr[chain[i]].ents[name]; ok {
			x := v
			return &x
		}
	}
	return nil
}

func (w *world) tn(n int) px.TypedName {
	return px.NewTypedName(px.NsDefinition, fmt.Sprintf("verifc14x%d::n%d", w.caseNo, n))
}

func keyName(k int) string { return fmt.Sprintf("k%d", k) }

func currentOrNil() (c px.Context) {
	defer func() {
		if r := recover(); r != nil {
			c = nil
		}
	}()
	return px.CurrentContext()
}

func prepend(c px.Context, env []px.Context) []px.Context {
	n := make([]px.Context, 0, len(env)+1)
	n = append(n, c)
	return append(n, env...)
}

// ---- interpreter on the real implementation --------------------------------------------------------

func (g *G) body(env []px.Context, ps []Prog) {
	for i := range ps {
		g.exec(env, &ps[i])
	}
}

// scopeEnd is deferred inside every actor: the scope-exit step (the implementation's deferred restore runs right
// after it), in the normal and in the panicking case.
func (g *G) scopeEnd() {
	if r := recover(); r != nil {
		g.afterPanic = true
		g.yield()
		panic(r)
	}
	g.afterReturn = true
	g.yield()
}

func (g *G) exec(env []px.Context, p *Prog) {
	g.yield()
	w := g.w
	switch p.Op {
	case "Set":
		c := g.lex(env)
		g.guard(func() { c.Set(keyName(p.K), p.V) })
		w.sh(c).vars[p.K] = p.V
	case "Del":
		c := g.lex(env)
		g.guard(func() { c.Delete(keyName(p.K)) })
		delete(w.sh(c).vars, p.K)
	case "Push":
		c := g.lex(env)
		g.guard(func() { c.StackPush(issue.NewLocation("verif", p.K, 0)) })
		s := w.sh(c)
		s.stack = append(s.stack, p.K)
	case "Pop":
		c := g.lex(env)
		g.guard(func() { c.StackPop() }) // empty stack: slice bounds fault (internal/context.go:219)
		if s := w.sh(c); len(s.stack) > 0 {
			s.stack = s.stack[:len(s.stack)-1]
		}
	case "SetLoader":
		c := g.lex(env)
		l, sl := g.evalLE(c, p)
		g.guard(func() { c.SetLoader(l) })
		w.sh(c).loader = sl
	case "Define":
		c := g.lex(env)
		g.guard(func() {
			c.DefiningLoader().SetEntry(w.tn(p.K), px.NewLoaderEntry(types.WrapInteger(int64(p.V)), nil))
		})
		w.mu.Lock()
		if s, ok := w.shadowLdr[w.shadowCtx[w.ctxLabel[c]].loader]; ok {
			if _, has := s.ents[p.K]; !has {
				s.ents[p.K] = p.V
			}
		}
		w.mu.Unlock()
	case "Panic":
		g.guard(func() { panic(userPanic{}) })
	case "Goexit":
		// not a panic: every recover() on the way (guard, scopeEnd, Try, pcore.Try, top) returns nil, the deferred
		// functions of the implementation and the harness' scope-exit steps run, the goroutine ends
		g.emit(event{Kind: "panic", Cls: "PExit"})
		runtime.Goexit()
	case "Observe":
		g.observe(env, p)
	case "Try":
		func() {
			defer func() {
				if r := recover(); r != nil {
					g.recovered(r)
					g.afterPanic = true
				}
			}()
			g.body(env, p.Body)
		}()
	case "Do":
		actor := func(c px.Context) {
			defer g.scopeEnd()
			w.register(c, p.L, &shCtx{vars: map[int]int{}, loader: p.L}, 0)
			g.body(prepend(c, env), p.Body)
		}
		g.guard(func() {
			if p.Try {
				_ = pcore.Try(func(c px.Context) error { actor(c); return nil })
			} else {
				pcore.Do(actor)
			}
		})
	case "DoCtx":
		var c px.Context
		switch p.CE {
		case "fork":
			lc := g.lex(env)
			g.guard(func() { c = lc.Fork() })
			ps := w.sh(lc)
			w.register(c, p.L, ps.fork(p.L), ps.loader)
		case "new":
			l := px.NewParentedLoader(w.base)
			w.mu.Lock()
			w.ldrLabel[l] = p.L
			w.mu.Unlock()
			c = pcore.NewContext(l, pcore.Logger())
			w.register(c, p.L, &shCtx{vars: map[int]int{}, loader: p.L}, 0)
		case "up":
			if p.K >= len(env) {
				g.guard(func() { panic(noCtxPanic{}) })
			}
			c = env[p.K]
		}
		g.guard(func() {
			px.DoWithContext(c, func(c px.Context) {
				defer g.scopeEnd()
				g.body(prepend(c, env), p.Body)
			})
		})
	case "DoParent":
		// pcore.DoWithParent(lexical, actor): the fork is taken by the entry point (internal/runtime.go:251)
		lc := g.lex(env)
		ps := w.sh(lc)
		snap := ps.fork(p.L)
		parentLoader := ps.loader
		g.guard(func() {
			pcore.DoWithParent(lc, func(c px.Context) {
				defer g.scopeEnd()
				w.register(c, p.L, snap, parentLoader)
				g.body(prepend(c, env), p.Body)
			})
		})
	case "DoLoader":
		c := g.lex(env)
		l, sl := g.evalLE(c, p)
		s := w.sh(c)
		saved := s.loader
		s.loader = sl
		func() {
			defer func() { s.loader = saved }() // the reference: "the original loader is restored before this call returns"
			g.guard(func() {
				c.DoWithLoader(l, func() {
					defer g.scopeEnd()
					g.body(env, p.Body)
				})
			})
		}()
	case "Fork":
		lc := g.lex(env)
		ps := w.sh(lc)
		snap := ps.fork(p.L) // the child starts from the parent's state at the time of the call
		parentLoader := ps.loader
		child := w.spawn()
		ok := false
		defer func() {
			if !ok {
				w.unspawn(child)
			}
		}()
		g.guard(func() {
			px.Fork(lc, func(cf px.Context) {
				w.register(cf, p.L, snap, parentLoader)
				child.top([]px.Context{cf}, p.Body, true)
			})
		})
		ok = true
	case "Go":
		// forks px.CurrentContext(); the reference is the lexical context (they must be the same)
		var snap *shCtx
		parentLoader := 0
		if len(env) > 0 {
			ps := w.sh(env[0])
			snap = ps.fork(p.L)
			parentLoader = ps.loader
		}
		child := w.spawn()
		ok := false
		defer func() {
			if !ok {
				w.unspawn(child)
			}
		}()
		g.guard(func() {
			px.Go(func(cf px.Context) {
				if snap == nil {
					// no lexical context, yet px.Go found a current one
					snap = &shCtx{vars: map[int]int{}, loader: p.L}
					w.violate("never-observed-elsewhere", fmt.Sprintf("goroutine g%d: px.Go at node %d found a current context although none was established for this goroutine", g.id, p.L))
				}
				w.register(cf, p.L, snap, parentLoader)
				child.top([]px.Context{cf}, p.Body, true)
			})
		})
		ok = true
	case "TlGo":
		child := w.spawn()
		threadlocal.Go(func() { child.top(nil, p.Body, true) })
	default:
		panic("bad op " + p.Op)
	}
}

// evalLE evaluates a loader expression for the lexical context c: the loader and its label in the reference
func (g *G) evalLE(c px.Context, p *Prog) (px.Loader, int) {
	w := g.w
	cur := c.Loader()
	s := w.sh(c)
	switch p.LE {
	case "child":
		l := px.NewParentedLoader(cur)
		w.mu.Lock()
		w.ldrLabel[l] = p.L
		w.shadowLdr[p.L] = &shLdr{parent: s.loader, ents: map[int]int{}}
		w.mu.Unlock()
		return l, p.L
	case "parent":
		w.mu.Lock()
		sp := s.loader
		if sl, ok := w.shadowLdr[s.loader]; ok && sl.parent >= 0 {
			sp = sl.parent
		}
		w.mu.Unlock()
		if cur == w.base {
			return cur, sp
		}
		if pl, ok := cur.(px.ParentedLoader); ok {
			return pl.Parent(), sp
		}
		return cur, sp
	case "base":
		return w.base, 0
	}
	panic("bad loader expression")
}

func (g *G) observe(env []px.Context, p *Prog) {
	w := g.w
	e := event{Kind: "obs", L: p.L}
	cur := currentOrNil()
	if cur != nil {
		l := w.labelOfCtx(cur)
		e.Cur = &l
	}
	sched := !w.ctl.free
	after := ""
	if g.afterPanic {
		after = " (after an inner scope of this body ended by panic)"
	} else if g.afterReturn {
		after = " (after an inner scope of this body returned)"
	}
	clause := "current-is-established"
	if g.afterPanic || g.afterReturn {
		clause = "restored-after"
	}
	g.afterPanic, g.afterReturn = false, false
	if len(env) == 0 {
		if cur != nil {
			w.violate(clause, fmt.Sprintf("goroutine g%d Observe#%d: no context is established here, yet px.CurrentContext() returns ctx#%d%s",
				g.id, p.L, *e.Cur, after))
		}
		g.emit(e)
		return
	}
	c := env[0]
	lo := &lexObs{Ctx: w.labelOfCtx(c), Loader: w.labelOfLoader(c.Loader())}
	if cur != c {
		got := "no current context"
		if cur != nil {
			got = fmt.Sprintf("ctx#%d", *e.Cur)
		}
		w.violate(clause, fmt.Sprintf("goroutine g%d Observe#%d: the context established for this body is ctx#%d, px.CurrentContext() returns %s%s",
			g.id, p.L, lo.Ctx, got, after))
	}
	s := w.sh(c)
	for k := 0; k < nKeys; k++ {
		v, ok := c.Get(keyName(k))
		var pv *int
		if ok {
			x := v.(int)
			pv = &x
		}
		lo.Vars = append(lo.Vars, pv)
		ev, eok := s.vars[k]
		if ok != eok || (ok && *pv != ev) {
			w.violate("fork-isolated", fmt.Sprintf("goroutine g%d Observe#%d: variable k%d of ctx#%d is %s, its own goroutine's operations (and the parent's before the fork) make it %s",
				g.id, p.L, k, lo.Ctx, optText([]*int{pv}), mapText(s.vars, k)))
		}
	}
	for _, l := range c.Stack() {
		lo.Stack = append(lo.Stack, l.Line())
	}
	if fmt.Sprint(lo.Stack) != fmt.Sprint(s.stack) && !(len(lo.Stack) == 0 && len(s.stack) == 0) {
		w.violate("fork-isolated", fmt.Sprintf("goroutine g%d Observe#%d: stack of ctx#%d is %v, its own goroutine's operations (and the parent's before the fork) make it %v",
			g.id, p.L, lo.Ctx, lo.Stack, s.stack))
	}
	// StackTop(): the last frame of the goroutine's own stack, a location of no frame when there is none
	if top := c.StackTop(); len(s.stack) > 0 {
		if top == nil || top.File() != "verif" || top.Line() != s.stack[len(s.stack)-1] {
			w.violate("fork-isolated", fmt.Sprintf("goroutine g%d Observe#%d: StackTop() of ctx#%d is %v, its own goroutine's operations (and the parent's before the fork) make the stack %v",
				g.id, p.L, lo.Ctx, locText(top), s.stack))
		}
	} else if top != nil && top.File() == "verif" {
		w.violate("fork-isolated", fmt.Sprintf("goroutine g%d Observe#%d: StackTop() of ctx#%d is frame %v, its own goroutine's operations (and the parent's before the fork) leave its stack empty",
			g.id, p.L, lo.Ctx, locText(top)))
	}
	if lo.Loader != s.loader {
		w.violate("loader-restored", fmt.Sprintf("goroutine g%d Observe#%d: loader of ctx#%d is loader#%d, expected loader#%d",
			g.id, p.L, lo.Ctx, lo.Loader, s.loader))
	}
	for n := 0; n < nNames; n++ {
		v, ok := px.Load(c, w.tn(n))
		var pv *int
		if ok {
			x := int(v.(px.Integer).Int())
			pv = &x
		}
		lo.Loads = append(lo.Loads, pv)
		if sched {
			// all other goroutines are parked: the reference loaders are exact
			ev := w.shadowLookup(s.loader, n)
			if (ev == nil) != (pv == nil) || (ev != nil && *ev != *pv) {
				w.violate("fork-isolated", fmt.Sprintf("goroutine g%d Observe#%d: px.Load of name n%d through ctx#%d gives %s, the definitions made through its loader chain give %s",
					g.id, p.L, n, lo.Ctx, optText([]*int{pv}), optText([]*int{ev})))
			}
		}
	}
	e.Lex = lo
	g.emit(e)
}

func locText(l issue.Location) string {
	if l == nil {
		return "nil"
	}
	return fmt.Sprintf("%s:%d", l.File(), l.Line())
}

func mapText(m map[int]int, k int) string {
	if v, ok := m[k]; ok {
		return fmt.Sprintf("[%d]", v)
	}
	return "[-]"
}

// top is the body of a goroutine: start step (forked goroutines), the program, recover, end step.
func (g *G) top(env []px.Context, ps []Prog, start bool) {
	defer g.w.ctl.finish(g)
	defer func() {
		g.yield()
		g.emit(event{Kind: "end"})
	}()
	defer func() {
		if r := recover(); r != nil {
			g.recovered(r)
		}
	}()
	if start {
		g.yield()
	}
	g.body(env, ps)
}

// ---- the deterministic scheduler -------------------------------------------------------------------

type controller struct {
	mu     sync.Mutex
	free   bool
	live   int
	parked map[int]*G
	wake   chan struct{}
	sched  []int
	policy string
	rng    *lib.Rng
	fixed  []int
	last   int
}

func (c *controller) poke() {
	select {
	case c.wake <- struct{}{}:
	default:
	}
}

func (g *G) yield() {
	c := g.w.ctl
	if c.free {
		return
	}
	c.mu.Lock()
	c.parked[g.id] = g
	c.mu.Unlock()
	c.poke()
	<-g.grant
}

func (c *controller) finish(g *G) {
	c.mu.Lock()
	c.live--
	c.mu.Unlock()
	c.poke()
}

func (w *world) spawn() *G {
	c := w.ctl
	c.mu.Lock()
	g := &G{id: len(w.gs), w: w, grant: make(chan struct{})}
	w.gs = append(w.gs, g)
	c.live++
	c.mu.Unlock()
	return g
}

func (w *world) unspawn(g *G) {
	c := w.ctl
	c.mu.Lock()
	if len(w.gs) > 0 && w.gs[len(w.gs)-1] == g {
		w.gs = w.gs[:len(w.gs)-1]
	}
	c.live--
	c.mu.Unlock()
}

func (c *controller) pick() *G {
	ids := make([]int, 0, len(c.parked))
	for id := range c.parked {
		ids = append(ids, id)
	}
	sort.Ints(ids)
	has := func(id int) bool { _, ok := c.parked[id]; return ok }
	choice := ids[0]
	switch c.policy {
	case "lifo":
		choice = ids[len(ids)-1]
	case "fifo":
	case "rr":
		for _, id := range ids {
			if id > c.last {
				choice = id
				break
			}
		}
	case "random":
		choice = ids[c.rng.Intn(len(ids))]
	case "sticky":
		if has(c.last) && c.rng.Chance(3, 4) {
			choice = c.last
		} else {
			choice = ids[c.rng.Intn(len(ids))]
		}
	case "fixed":
		if n := len(c.sched); n < len(c.fixed) && has(c.fixed[n]) {
			choice = c.fixed[n]
		}
	}
	c.last = choice
	return c.parked[choice]
}

// drive grants steps until every goroutine has ended; false: a goroutine did not come back within the deadline
func (c *controller) drive() bool {
	timer := time.NewTimer(time.Hour)
	defer timer.Stop()
	for {
		c.mu.Lock()
		if c.live == 0 {
			c.mu.Unlock()
			return true
		}
		if !c.free && len(c.parked) == c.live {
			g := c.pick()
			delete(c.parked, g.id)
			c.sched = append(c.sched, g.id)
			c.mu.Unlock()
			g.grant <- struct{}{}
			continue
		}
		c.mu.Unlock()
		if !timer.Stop() {
			select {
			case <-timer.C:
			default:
			}
		}
		timer.Reset(20 * time.Second)
		select {
		case <-c.wake:
		case <-timer.C:
			return false
		}
	}
}

// ---- running one case ------------------------------------------------------------------------------

type outcome struct {
	traces [][]event
	sched  []int
	found  []finding
	hung   bool
	tables [2]int
}

var caseCounter, leaksSeen int

func runCase(cs *Case) *outcome {
	if cs.MinGid > 0 {
		burnTo(uint64(cs.MinGid)) // family highgid: goroutine ids of at least that size
	}
	caseCounter++
	w := &world{caseNo: caseCounter, c: cs, base: pcore.EnvironmentLoader(), ctxLabel: map[px.Context]int{},
		ldrLabel: map[px.Loader]int{}, shadowCtx: map[int]*shCtx{}, shadowLdr: map[int]*shLdr{}}
	w.ldrLabel[w.base] = 0
	w.shadowLdr[0] = &shLdr{parent: -1, ents: map[int]int{}}
	w.ctl = &controller{free: cs.Mode == "free", parked: map[int]*G{}, wake: make(chan struct{}, 1), policy: cs.Policy,
		rng: lib.NewRng(cs.SchedSeed), fixed: cs.Sched, last: -1}
	if w.ctl.policy == "" {
		w.ctl.policy = "fifo"
	}
	out := &outcome{}
	out.tables[0] = threadlocal.LiveTables()
	roots := make([]*G, len(cs.Roots))
	for i := range cs.Roots {
		roots[i] = w.spawn()
	}
	for i := range cs.Roots {
		g, ps := roots[i], cs.Roots[i]
		go g.top(nil, ps, false) // a plain goroutine: no table, no context
	}
	if !w.ctl.drive() {
		out.hung = true
		w.violate("no-fault", "a goroutine did not reach its next step within 20 s")
	}
	// the deferred Cleanup of px.Fork runs after the goroutine's last step: give it time
	wait := 5 * time.Second
	if leaksSeen >= 3 {
		// the tree leaks tables anyway (already reported three times): do not spend 5 s on every further case
		wait = 2 * time.Millisecond
	}
	deadline := time.Now().Add(wait)
	for {
		out.tables[1] = threadlocal.LiveTables()
		if out.tables[1] == out.tables[0] || time.Now().After(deadline) || out.hung {
			break
		}
		runtime.Gosched()
		time.Sleep(50 * time.Microsecond)
	}
	if out.tables[1] != out.tables[0] {
		leaksSeen++
		w.violate("tls-released", fmt.Sprintf("goroutine-local tables: %d before the case, %d after every goroutine of the case has ended",
			out.tables[0], out.tables[1]))
	}
	w.mu.Lock()
	for _, g := range w.gs {
		out.traces = append(out.traces, g.events)
	}
	out.found = w.found
	w.mu.Unlock()
	out.sched = w.ctl.sched
	return out
}

func (o *outcome) gallina(cs *Case) string {
	sc := make([]string, len(o.sched))
	for i, g := range o.sched {
		sc[i] = lib.GNat(g)
	}
	trs := make([]string, len(o.traces))
	for i, t := range o.traces {
		es := make([]string, len(t))
		for j := range t {
			es[j] = t[j].gallina()
		}
		trs[i] = lib.GList(es, "event")
	}
	left := o.tables[1] - o.tables[0]
	if left < 0 {
		left = 0
	}
	return "(" + cs.gallinaRoots() + ",\n    " + lib.GList(sc, "nat") + ",\n    " + lib.GList(trs, "list event") + ",\n    " + lib.GNat(left) + ")"
}
