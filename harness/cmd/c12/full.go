package main

import (
	"fmt"
	"sort"
	"strings"

	"github.com/lyraproj/pcore/px"
)

// Direct evaluation, on the implementation's own answers, of the two clauses that Properties/C12.v proves with the guard
// `not_relative` (Model/LoaderSpecX.v) over the full history language:
//
//   discover-complete  (C12_full_discover_complete_pred)  at every Discover(l, p): every canonical name n of the name pool
//       for which the IMPLEMENTATION's l.HasEntry(n) answers true, that satisfies p and is not qualified by the name of the
//       type set of a type-set loader among l and its ancestors, is in the list the implementation's Discover returned;
//   stable-resolution  (C12_full_stable_resolution_name)  at every px.Load(l, n) that finds a value: if an earlier
//       px.Load(l, n) of the same history found a value, no proper ancestor of l has gained a binding of n's key since
//       (the bindings are those of the reference state), and n is not qualified by the name of a type set on the way,
//       the two values are the same.
//
// Neither uses the reference's resolve / discover: the first compares two answers of the implementation, the second two
// answers of the implementation at different times.

type loadRec struct {
	val   string            // the Gallina text of the value found
	bound map[*refNode]bool // the proper ancestors that had a binding of the key then
}

type fullState struct {
	pool  []poolName
	loads map[string]*loadRec // "l/key" -> the last successful px.Load
}

// a canonical name of the pool with what the check needs of it, computed once
type poolName struct {
	n     tname
	key   string       // MapKey
	gkey  string       // the Gallina text of the key as it stands in a Discover output
	parts []string     // Parts()
	impl  px.TypedName // the implementation's typed name
}

var canonPool []poolName
var nameCache = map[string]*poolName{}

func nameFor(k string) *poolName {
	if pn, ok := nameCache[k]; ok {
		return pn
	}
	n := nameOfKey(k)
	pn := &poolName{n, k, gKey(k), n.parts(), n.impl()}
	nameCache[k] = pn
	return pn
}

var tsParts = map[*tsetInfo][]string{}

func canonical(n tname) tname {
	return tname{n.Auth, strings.ToLower(n.Ns), strings.ToLower(strings.TrimPrefix(n.Name, "::"))}
}

func newFullState() *fullState {
	if canonPool == nil {
		seen := map[string]bool{}
		for _, n := range namePool() {
			c := canonical(n)
			if k := c.mapKey(); !seen[k] {
				seen[k] = true
				canonPool = append(canonPool, poolName{c, k, gKey(k), c.parts(), c.impl()})
			}
		}
	}
	return &fullState{pool: canonPool, loads: map[string]*loadRec{}}
}

// notRelative: typedName.IsParent of the typed name of every type set on the way answers false (Model/LoaderSpecX.v)
func notRelative(nd *refNode, np []string) bool {
	for ; nd != nil; nd = nd.par {
		if nd.kind != "typeset" {
			continue
		}
		tp, ok := tsParts[nd.tsi]
		if !ok {
			tp = strings.Split(strings.ToLower(nd.tsi.name), "::")
			tsParts[nd.tsi] = tp
		}
		if len(tp) < len(np) {
			pre := true
			for i := range tp {
				if tp[i] != np[i] {
					pre = false
					break
				}
			}
			if pre {
				return false
			}
		}
	}
	return true
}

func implHas(w *world, l int, n px.TypedName) (has bool, ok bool) {
	defer func() {
		if r := recover(); r != nil {
			has, ok = false, false
		}
	}()
	return w.loaders[l].HasEntry(n), true
}

// checkFull: evaluated after step o of a history whose outputs agreed with the reference so far; r is the reference state
// after the step.  Answers the clause that is violated and a description, or "", "".
func (fs *fullState) checkFull(w *world, r *refWorld, o opT, got string) (string, string) {
	if o.L < 0 || o.L >= len(r.nodes) || o.L >= len(w.loaders) {
		return "", ""
	}
	nd := r.nodes[o.L]
	switch o.Kind {
	case "Discover":
		if !strings.HasPrefix(got, "RNames ") {
			return "", ""
		}
		// the candidates: under the guard a name resolves through l only by a binding of its own key in l or an ancestor or
		// as a type of a type set on the way, so these are the names to ask the implementation about (of the static
		// loader's many names those of the name pool)
		var viol string
		ask := func(k string) {
			if viol != "" || !o.P.onKey(k) || strings.Contains(got, gKey(k)) {
				return
			}
			pn := nameFor(k)
			if !notRelative(nd, pn.parts) {
				return
			}
			if has, ok := implHas(w, o.L, pn.impl); ok && has {
				viol = fmt.Sprintf("HasEntry(l%d, %s) is true, the name satisfies the predicate and is not qualified by a type set on the way, but %s does not list it", o.L, pn.n, o)
			}
		}
		for a := nd; a != nil; a = a.par {
			if a.kind == "static" {
				for i := range fs.pool {
					if _, b := a.own[fs.pool[i].key]; b {
						ask(fs.pool[i].key)
					}
				}
				continue
			}
			ks := make([]string, 0, len(a.own))
			for k := range a.own {
				ks = append(ks, k)
			}
			sort.Strings(ks) // (a Go map has no order; the report must not depend on it)
			for _, k := range ks {
				ask(k)
			}
			if a.kind == "typeset" {
				for _, ty := range a.tsi.types {
					ask(tname{a.tsi.auth, "type", ty.name}.mapKey())
				}
			}
		}
		if viol != "" {
			return "discover-complete", viol
		}
	case "Load":
		if !strings.HasPrefix(got, "RFound (Some ") {
			return "", ""
		}
		key := o.N.mapKey()
		id := fmt.Sprintf("%d/%s", o.L, key)
		now := map[*refNode]bool{}
		for a := nd.par; a != nil; a = a.par {
			if _, b := a.own[key]; b {
				now[a] = true
			}
		}
		if old, seen := fs.loads[id]; seen && notRelative(nd, o.N.parts()) {
			gained := false
			for a := range now {
				if !old.bound[a] {
					gained = true
				}
			}
			if !gained && old.val != got {
				return "stable-resolution", fmt.Sprintf("%s found %s earlier and finds %s now although no ancestor of l%d has gained a binding of %s", o, old.val, got, o.L, key)
			}
		}
		fs.loads[id] = &loadRec{val: got, bound: now}
	}
	return "", ""
}
