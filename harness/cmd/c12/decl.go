package main

import (
	"fmt"
	"strings"

	"github.com/lyraproj/issue/issue"
	"github.com/lyraproj/pcore/pcore"
	"github.com/lyraproj/pcore/px"
	"github.com/lyraproj/pcore/types"
	"verifharness/lib"
)

// The declaration route - the second public way to define a name: a type handed to px.RegisterResolvableType (px.NewObjectType,
// px.NewGoObjectType and px.NewGoType register what they make; px.NewNamedType makes the type to register) sits in a list until
// the next pcore.Do / pcore.RootContext, whose first act is px.ResolveResolvables(c) (internal/context.go:175): SetEntry of every
// declared type under type/<name> in the loader the context holds, in the order of declaration, then resolveTypes.  On an
// initialised runtime that loader is the one all root contexts share.  The write-once clause holds for it as for SetEntry and
// px.AddTypes: a declaration of a bound name with an equal value is a no-op, with a different value it is rejected with a
// reported error, and the three routes give the same verdict for the same history.
//
// Two parts:
//   * the operation `Declare(l, [values])` of the histories (D against the reference specification, M against the model's
//     XDeclare): resolved alias types of the value table are declared and bound by px.ResolveResolvables with the lasting
//     context of loader l - exactly what pcore.RootContext does with the context it has made for the shared loader;
//   * declScenarios (D only): the public entry points themselves (pcore.Do, pcore.RootContext on a runtime that has been
//     initialised and reset, and px.ResolveResolvables on a context of a fresh loader), declarations that are not resolved
//     when they are bound (px.NewNamedType, px.NewObjectType), after every kind of earlier event for the name; the verdict is
//     compared with the property's clause and with the verdicts of SetEntry and px.AddTypes for the same history.

var declVals = []int{11, 12, 13, 14, 15, 16, 17, 18, 19, 20}

func declare(l int, vals ...int) opT {
	items := make([]int, len(vals))
	for i, v := range vals {
		items[i] = 100 + v
	}
	return opT{Kind: "Declare", L: l, A: items}
}

func valName(v int) string { return vtable[v].v.(px.Type).Name() }

func declareGallina(o opT, ml int) string {
	ms := make([]string, len(o.A))
	for i, a := range o.A {
		ms[i] = fmt.Sprintf("(MPlain %s %s)", lib.GStr(valName(a-100)), gVal(a-100))
	}
	return fmt.Sprintf("XDeclare %d %s", ml, lib.GList(ms, "mtype"))
}

// checkAliasClasses: the px.Equality classes the value table states for the alias types are those of the implementation
func checkAliasClasses() {
	for _, a := range declVals {
		for _, b := range declVals {
			va, vb := vtable[a], vtable[b]
			if goEquals(va.v, vb.v) != (va.cls == vb.cls) {
				panic(fmt.Sprintf("harness: value table: v%d.Equals(v%d) = %v, classes %d and %d", a, b, goEquals(va.v, vb.v), va.cls, vb.cls))
			}
		}
	}
}

func (w *world) applyDeclare(o opT) (res string) {
	if o.L == 0 {
		panic("generator error: declarations bound in the shared static loader")
	}
	if o.L < 0 || o.L >= len(w.loaders) {
		return "XA ABadLoader"
	}
	types.PopDeclaredTypes() // (nothing is pending; were a rejected call to leave something behind it must not reach the next history)
	defer types.PopDeclaredTypes()
	defer func() {
		if r := recover(); r != nil {
			res = addOut(classifyPanic(r))
		}
	}()
	for _, a := range o.A {
		px.RegisterResolvableType(vtable[a-100].v.(px.ResolvableType))
	}
	px.ResolveResolvables(w.ctxs[o.L])
	return "XA AOk"
}

// reference: every declared type is defined under type/<name> through L, in the order of declaration; write-once; the first
// rejected definition ends the call
func (w *refWorld) applyDeclare(o opT) string {
	if o.L < 0 || o.L >= len(w.nodes) {
		return "XA ABadLoader"
	}
	for _, a := range o.A {
		r := w.define(w.nodes[o.L], tname{0, "type", valName(a - 100)}, a-100)
		if strings.HasPrefix(r, "RErr ") {
			return "XA (AErr " + strings.TrimPrefix(r, "RErr ") + ")"
		}
	}
	return "XA AOk"
}

// ---- the public entry points ---------------------------------------------------------------------

type declScenario struct {
	Kind    string `json:"kind"`    // always "declaration"
	Binder  string `json:"binder"`  // resolve: px.ResolveResolvables(context of a fresh loader) | root: pcore.RootContext() | do: pcore.Do(f), the last two after pcore.Reset()
	Decl    string `json:"decl"`    // alias: px.RegisterResolvableType(resolved alias) | named: px.RegisterResolvableType(px.NewNamedType(name, "Integer[0,10]")) | object: px.NewObjectType(name, "{attributes => ...}")
	Prior   string `json:"prior"`   // what happened to the name before: none | miss | declared | setentry | addtypes | parent
	Variant string `json:"variant"` // same | upper: the letter case of the name in the declaration under test
	Value   string `json:"value"`   // equal | different: built like the earlier value / with another type
}

func (s declScenario) String() string {
	return fmt.Sprintf("binder=%s decl=%s prior=%s name=%s value=%s", s.Binder, s.Decl, s.Prior, s.Variant, s.Value)
}

const declName = "DeclVehicle"

func escapeOf(f func()) (e interface{}) {
	defer func() { e = recover() }()
	f()
	return nil
}

func verdictOf(e interface{}) string {
	if e == nil {
		return "accepted"
	}
	if rp, ok := e.(issue.Reported); ok {
		if rp.Code() == px.AttemptToRedefine || rp.Code() == px.AttemptToRedefineType {
			return "rejected"
		}
		return "error " + string(rp.Code())
	}
	return fmt.Sprintf("fault %T", e)
}

// makeDecl builds a value the way `decl` says; declared = it sits in the list of declarations now
func makeDecl(decl, name string, different bool) (v px.Type) {
	switch decl {
	case "alias":
		if different {
			v = types.NewTypeAliasType(name, nil, types.NewIntegerType(0, 11))
		} else {
			v = types.NewTypeAliasType(name, nil, types.NewIntegerType(0, 10))
		}
		px.RegisterResolvableType(v.(px.ResolvableType))
	case "named":
		if different {
			v = px.NewNamedType(name, `Integer[0,11]`)
		} else {
			v = px.NewNamedType(name, `Integer[0,10]`)
		}
		px.RegisterResolvableType(v.(px.ResolvableType))
	case "object":
		if different {
			v = px.NewObjectType(name, `{attributes => {a => String}}`)
		} else {
			v = px.NewObjectType(name, `{attributes => {a => Integer}}`)
		}
	default:
		panic("bad decl " + decl)
	}
	return v
}

// runDeclScenario: "" when the implementation does what the property says; route = declare | setentry | addtypes is the way
// the value under test is defined (the other two are the routes the verdict is compared with)
func runDeclScenario(base px.Context, s declScenario, route string) (verdict string, problem string) {
	types.PopDeclaredTypes()
	defer types.PopDeclaredTypes()
	var L px.DefiningLoader
	var parent px.DefiningLoader
	if s.Binder == "resolve" {
		parent = px.NewParentedLoader(px.NewDependencyLoader(nil)).(px.DefiningLoader)
		L = px.NewParentedLoader(parent).(px.DefiningLoader)
	} else {
		pcore.Reset()
		L = pcore.EnvironmentLoader().(px.DefiningLoader)
	}
	ctxL := pcore.WithParent(base, L, base.Logger(), base.ImplementationRegistry())
	bind := func() interface{} {
		switch s.Binder {
		case "resolve":
			return escapeOf(func() { px.ResolveResolvables(ctxL) })
		case "root":
			return escapeOf(func() { pcore.RootContext() })
		case "do":
			return escapeOf(func() { pcore.Do(func(px.Context) {}) })
		}
		panic("bad binder " + s.Binder)
	}
	tn := px.NewTypedName(px.NsType, declName)
	switch s.Prior {
	case "none":
	case "miss":
		if _, ok := px.Load(ctxL, tn); ok {
			return "", "harness: the name resolves in a fresh loader"
		}
	case "declared":
		v1 := makeDecl(s.Decl, declName, false)
		if e := bind(); e != nil {
			return "", fmt.Sprintf("the first declaration of %s is not accepted: %v", declName, verdictOf(e))
		}
		if e := L.GetEntry(tn); e == nil || e.Value() != v1 {
			return "", fmt.Sprintf("the first declaration of %s is accepted but the loader that the context held has no binding to the declared value", declName)
		}
	case "setentry":
		L.SetEntry(tn, px.NewLoaderEntry(types.NewTypeAliasType(declName, nil, types.NewIntegerType(0, 10)), nil))
	case "addtypes":
		if s.Decl == "object" {
			px.AddTypes(ctxL, ctxL.ParseType(`Object[{name => '`+declName+`', attributes => {a => Integer}}]`))
		} else {
			px.AddTypes(ctxL, types.NewTypeAliasType(declName, nil, types.NewIntegerType(0, 10)))
		}
	case "parent":
		parent.SetEntry(tn, px.NewLoaderEntry(types.NewTypeAliasType(declName, nil, types.NewIntegerType(0, 10)), nil))
	default:
		panic("bad prior " + s.Prior)
	}
	name := declName
	if s.Variant == "upper" {
		name = strings.ToUpper(declName)
	}
	v2 := makeDecl(s.Decl, name, s.Value == "different")
	tn2 := px.NewTypedName(px.NsType, name)
	// the state of the entry and the oracle for "equal value" (basicLoader.SetEntry: identical, or the old value's Equals)
	var old interface{}
	if e := L.GetEntry(tn2); e != nil {
		old = e.Value()
	}
	eq := old != nil && (old == interface{}(v2) || goEquals(old, v2))
	var esc interface{}
	switch route {
	case "declare":
		esc = bind()
	case "setentry":
		types.PopDeclaredTypes()
		esc = escapeOf(func() { L.SetEntry(tn2, px.NewLoaderEntry(v2, nil)) })
	case "addtypes":
		types.PopDeclaredTypes()
		esc = escapeOf(func() { px.AddTypes(ctxL, v2) })
	}
	verdict = verdictOf(esc)
	var now interface{}
	if e := L.GetEntry(tn); e != nil {
		now = e.Value()
	}
	switch {
	case old == nil:
		// not bound (never asked for, a cached miss, or bound by the parent only): the definition binds it; it resolves unless the
		// parent shadows it
		if verdict != "accepted" {
			return verdict, fmt.Sprintf("a definition of an unbound name is %s", verdict)
		}
		if now != interface{}(v2) {
			return verdict, "a definition of an unbound name is accepted but the loader has no binding to the value"
		}
		if got, ok := px.Load(ctxL, tn); s.Prior != "parent" && (!ok || got != interface{}(v2)) {
			return verdict, fmt.Sprintf("after the definition the name does not resolve to the value (found: %v)", ok)
		}
	case eq:
		if verdict != "accepted" {
			return verdict, fmt.Sprintf("a re-definition with an equal value must be a no-op, it is %s", verdict)
		}
		if now != old {
			return verdict, "a re-definition with an equal value changed the binding"
		}
	default:
		if verdict != "rejected" {
			return verdict, fmt.Sprintf("a re-definition of a bound name with a different value must be rejected with a reported AttemptToRedefine[Type] error, it is %s", verdict)
		}
		if now != old {
			return verdict, "a rejected re-definition changed the binding"
		}
	}
	return verdict, ""
}

func declScenarioList() []declScenario {
	var r []declScenario
	for _, b := range []string{"resolve", "root", "do"} {
		for _, d := range []string{"alias", "named", "object"} {
			for _, p := range []string{"none", "miss", "declared", "setentry", "addtypes", "parent"} {
				if p == "parent" && b != "resolve" {
					continue // (the parent of the shared loader is the static loader: never written to)
				}
				for _, v := range []string{"same", "upper"} {
					for _, x := range []string{"equal", "different"} {
						r = append(r, declScenario{"declaration", b, d, p, v, x})
					}
				}
			}
		}
	}
	return r
}

// checkDeclScenario runs one scenario by the three routes; violations are recorded with the scenario as replayable input
func checkDeclScenario(res *lib.Result, base px.Context, s declScenario, verbose bool) {
	res.Evaluations++
	res.Count("declaration." + s.Binder + "." + s.Decl)
	verdicts := map[string]string{}
	for _, route := range []string{"declare", "setentry", "addtypes"} {
		if route != "declare" && s.Binder != "resolve" {
			continue // the comparison routes are run once per scenario, on the fresh loader
		}
		v, problem := runDeclScenario(base, s, route)
		verdicts[route] = v
		if verbose {
			fmt.Printf("  %s route=%s => %s %s\n", s, route, v, problem)
		}
		if problem != "" && route == "declare" {
			res.Violate(lib.Violation{Clause: "write-once", What: "declaration route (" + s.String() + "): " + problem,
				Input: s, Tags: []string{"declaration-route"}})
		} else if problem != "" {
			res.Violate(lib.Violation{Clause: "write-once", What: "route " + route + " (" + s.String() + "): " + problem,
				Input: s, Tags: []string{"declaration-route-reference"}})
		}
	}
	if s.Binder == "resolve" && (verdicts["declare"] != verdicts["setentry"] || verdicts["declare"] != verdicts["addtypes"]) {
		res.Violate(lib.Violation{Clause: "write-once", What: fmt.Sprintf("the routes disagree on the same history (%s): declaration %s, SetEntry %s, px.AddTypes %s",
			s, verdicts["declare"], verdicts["setentry"], verdicts["addtypes"]), Input: s, Tags: []string{"declaration-route"}})
	}
	if verdicts["declare"] != "accepted" {
		res.Nontrivial("declaration;" + s.String())
	}
}

func declScenarios(res *lib.Result) {
	pcore.Do(func(px.Context) {}) // what is declared before the first use of the runtime goes to the static loader
	base := pcore.RootContext()
	for _, s := range declScenarioList() {
		checkDeclScenario(res, base, s, false)
	}
	pcore.Reset()
}

func replayDeclScenarios(res *lib.Result, file string) {
	pcore.Do(func(px.Context) {})
	base := pcore.RootContext()
	for _, in := range lib.ReplayInputs(file) {
		var s declScenario
		lib.Remarshal(in, &s)
		if s.Kind != "declaration" {
			continue
		}
		checkDeclScenario(res, base, s, true)
	}
	pcore.Reset()
}
