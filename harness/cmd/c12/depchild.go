package main

// depchild.go: a loader PARENTED BY the dependency loader with module loaders (px.NewParentedLoader(dep)) - part of C12.
// A history: the history of dep.go (operations `pre` on a loader tree, px.NewDependencyLoader over stub module loaders),
// then px.NewParentedLoader over the dependency loader, then operations on the tree, on the dependency loader and on the
// child.  Observed: every output and, for every operation, which module loaders had their LoadEntry called, in order.
//   D: compared with a Go reference (refChild: what the dependency loader's reference answers, else the child's own
//      write-once binding; HasEntry = bound in one of the two own maps);
//   M: cases_depchild*.v against Model/LoaderDepChild.v (child_model) and its specification (child_spec),
//      Corr/CorrC12DepChild.v; theorems C12_depchild_* in Properties/C12Dep.v.

import (
	"fmt"
	"strings"

	"github.com/lyraproj/pcore/pcore"
	"github.com/lyraproj/pcore/px"
	"verifharness/lib"
)

type copT struct {
	Kind string `json:"op"` // Dep LoadEntry Load GetEntry Has Define
	D    *dopT  `json:"d,omitempty"`
	N    tname  `json:"n,omitempty"`
	V    int    `json:"v,omitempty"`
}

func (c copT) String() string {
	switch c.Kind {
	case "Dep":
		return c.D.String()
	case "Define":
		return fmt.Sprintf("child.Define(%s,v%d)", c.N, c.V)
	}
	return fmt.Sprintf("child.%s(%s)", c.Kind, c.N)
}

func (c copT) gallina() string {
	switch c.Kind {
	case "Dep":
		return "CDep (" + c.D.gallina() + ")"
	case "LoadEntry":
		return "CLoadEntry " + c.N.gallina()
	case "Load":
		return "CLoad " + c.N.gallina()
	case "GetEntry":
		return "CGetEntry " + c.N.gallina()
	case "Has":
		return "CHas " + c.N.gallina()
	case "Define":
		return "CDefine " + c.N.gallina() + " " + gVal(c.V)
	}
	panic("bad cop " + c.Kind)
}

type childCase struct {
	Pre  []opT  `json:"pre"`
	Mods []modT `json:"mods"`
	Cs   []copT `json:"cs"`
}

func (cc childCase) text() []string {
	r := depCase{cc.Pre, cc.Mods, nil}.text()
	r = append(r, "NewParentedLoader(dep)")
	for _, c := range cc.Cs {
		r = append(r, c.String())
	}
	return r
}

func (cc childCase) input() map[string]interface{} {
	return map[string]interface{}{"kind": "depchild", "pre": cc.Pre, "mods": cc.Mods, "cs": cc.Cs}
}

// ---- the reference -----------------------------------------------------------------------------
type refChild struct {
	dep   *refDep
	binds map[string]int
}

func (r *refChild) apply(c copT) (exp, clause string) {
	k := c.N.mapKey()
	switch c.Kind {
	case "Dep":
		return r.dep.apply(*c.D)
	case "LoadEntry", "Load":
		clause = "depchild-resolution"
		if c.Kind == "Load" && c.N.Auth != 0 {
			return "DR (RFound None) " + gNats(nil), clause
		}
		v, ok, asked := r.dep.lookup(c.N) // parents first
		if !ok {
			v, ok = r.binds[k]
		}
		switch {
		case c.Kind == "Load" && ok:
			return "DR (RFound (Some " + gVal(v) + ")) " + gNats(asked), clause
		case c.Kind == "Load":
			return "DR (RFound None) " + gNats(asked), clause
		case ok:
			return "DR (REntry (EVal " + gVal(v) + ")) " + gNats(asked), clause
		}
		return "DR (REntry miss) " + gNats(asked), clause
	case "GetEntry":
		if v, ok := r.binds[k]; ok {
			return "DR (REntry (EVal " + gVal(v) + ")) " + gNats(nil), "depchild-write-once"
		}
		return "DR (REntry miss) " + gNats(nil), "depchild-write-once"
	case "Has":
		_, ok := r.dep.binds[k]
		_, ok2 := r.binds[k]
		return "DR (RBool " + lib.GBool(ok || ok2) + ") " + gNats(nil), "depchild-resolution"
	case "Define":
		old, bound := r.binds[k]
		switch {
		case !bound:
			r.binds[k] = c.V
			return "DR (RDefined " + gVal(c.V) + ") " + gNats(nil), "depchild-write-once"
		case valEqual(old, c.V):
			return "DR (RDefined " + gVal(old) + ") " + gNats(nil), "depchild-write-once"
		case infoOf(old).ty && infoOf(c.V).ty:
			return "DR (RErr ERedefineType) " + gNats(nil), "depchild-write-once"
		}
		return "DR (RErr ERedefine) " + gNats(nil), "depchild-write-once"
	}
	panic("bad cop " + c.Kind)
}

// ---- running a history on the implementation -----------------------------------------------------
func applyCop(child px.Loader, cctx px.Context, c copT, asked *[]int) (res string) {
	defer func() {
		if r := recover(); r != nil {
			res = "DR (" + classifyPanic(r) + ") " + gNats(*asked)
		}
	}()
	switch c.Kind {
	case "LoadEntry":
		return "DR (REntry " + gEntry(child.LoadEntry(cctx, c.N.impl())) + ") " + gNats(*asked)
	case "Load":
		v, ok := px.Load(cctx, c.N.impl())
		if !ok {
			return "DR (RFound None) " + gNats(*asked)
		}
		return "DR (RFound (Some " + gVal(valOf(v)) + ")) " + gNats(*asked)
	case "GetEntry":
		return "DR (REntry " + gEntry(child.GetEntry(c.N.impl())) + ") " + gNats(*asked)
	case "Has":
		return "DR (RBool " + lib.GBool(child.HasEntry(c.N.impl())) + ") " + gNats(*asked)
	case "Define":
		e := child.(px.DefiningLoader).SetEntry(c.N.impl(), px.NewLoaderEntry(vtable[c.V].v, nil))
		return "DR (RDefined " + gVal(valOf(e.Value())) + ") " + gNats(*asked)
	}
	panic("bad cop " + c.Kind)
}

func runChild(c px.Context, cc childCase) (dr depRun) {
	w := newWorld(c)
	rw := newRefWorld()
	dr.bad = -1
	for i, o := range cc.Pre {
		got := w.apply(o)
		if exp := rw.apply(o); project(got) != exp && dr.preBad == "" {
			dr.preBad = fmt.Sprintf("pre step %d %s returned %s, the specification says %s", i, o, got, exp)
		}
	}
	asked := []int{}
	mls := make([]px.ModuleLoader, len(cc.Mods))
	for i, m := range cc.Mods {
		mls[i] = &stubModule{Loader: w.loaders[m.L], name: m.Name, idx: m.L, asked: &asked}
	}
	dep := px.NewDependencyLoader(mls)
	dctx := pcore.WithParent(c, dep, c.Logger(), c.ImplementationRegistry())
	child := px.NewParentedLoader(dep)
	cctx := pcore.WithParent(c, child, c.Logger(), c.ImplementationRegistry())
	ref := &refChild{dep: &refDep{w: rw, mods: cc.Mods, binds: map[string]int{}}, binds: map[string]int{}}
	for i, op := range cc.Cs {
		asked = asked[:0]
		var got string
		if op.Kind == "Dep" {
			got = applyDop(w, dep, dctx, *op.D, &asked)
		} else {
			got = applyCop(child, cctx, op, &asked)
		}
		dr.outs = append(dr.outs, got)
		if dr.bad >= 0 {
			continue
		}
		exp, clause := ref.apply(op)
		g := dproject(got)
		if op.Kind == "Dep" && op.D.Kind == "Base" {
			g = "DB (" + project(strings.TrimSuffix(strings.TrimPrefix(got, "DB ("), ")")) + ")"
		}
		if g != exp {
			dr.bad, dr.want, dr.clause = i, exp, clause
		}
	}
	return
}

func (cc childCase) gallina(outs []string) string {
	pre := make([]string, len(cc.Pre))
	for i, o := range cc.Pre {
		pre[i] = o.gallina(o.L)
	}
	ms := make([]string, len(cc.Mods))
	for i, m := range cc.Mods {
		ms[i] = lib.GPair(lib.GStr(m.Name), fmt.Sprintf("%d%%nat", m.L))
	}
	cs := make([]string, len(cc.Cs))
	for i, c := range cc.Cs {
		cs[i] = c.gallina()
	}
	return "(" + lib.GList(pre, "op") + ",\n    " + lib.GList(ms, "str * nat") + ",\n    " + lib.GList(cs, "cop") + ",\n    " + lib.GList(outs, "dout") + ")"
}

func newChildCases() *lib.CasesFile {
	return &lib.CasesFile{Imports: []string{"Model.Base", "Model.Loader", "Model.LoaderDep", "Model.LoaderDepChild", "Corr.CorrC12DepChild"},
		Typ:         "list op * list (str * nat) * list cop * list dout",
		Prelude:     gallinaPrelude(),
		Obligations: map[string]string{"child_model": "child_mismatches cfg cases", "child_spec": "child_spec_violations cfg cases"}}
}

// non-trivial: the child answered a lookup with its own binding after the dependency loader (having asked a module) missed,
// or with a value of the module side while it has a binding of its own for the name
func childNontrivial(cc childCase, outs []string) bool {
	own := map[string]bool{}
	for i, c := range cc.Cs {
		switch c.Kind {
		case "Define":
			if strings.HasPrefix(outs[i], "DR (RDefined") {
				own[c.N.mapKey()] = true
			}
		case "LoadEntry", "Load":
			if own[c.N.mapKey()] && strings.Contains(outs[i], "Some") || strings.Contains(outs[i], "EVal") && strings.Contains(outs[i], "%nat") {
				return true
			}
		}
	}
	return false
}

func (r *runner) checkChild(cc childCase, cf *lib.CasesFile, toCoq bool, family string) {
	dr := runChild(r.c, cc)
	r.res.Evaluations++
	r.res.Count("depchild." + family)
	if childNontrivial(cc, dr.outs) {
		r.res.Nontrivial("depchild:" + strings.Join(cc.text(), ";"))
		r.res.Count("depchild.nontrivial")
	}
	if dr.preBad != "" {
		r.res.Violate(lib.Violation{Clause: "resolution", What: dr.preBad, Input: cc.input()})
	}
	if dr.bad >= 0 {
		small := childCase{cc.Pre, cc.Mods, cc.Cs[:dr.bad+1]}
		for changed := true; changed; {
			changed = false
			for i := len(small.Cs) - 2; i >= 0; i-- {
				if x := small.Cs[i]; x.Kind == "Dep" && x.D.Kind == "Base" && strings.HasPrefix(x.D.O.Kind, "New") {
					continue
				}
				cand := childCase{small.Pre, small.Mods, append(append([]copT{}, small.Cs[:i]...), small.Cs[i+1:]...)}
				if cr := runChild(r.c, cand); cr.bad == len(cand.Cs)-1 && cr.clause == dr.clause {
					small, changed = cand, true
				}
			}
		}
		sr := runChild(r.c, small)
		if sr.bad < 0 {
			small, sr = childCase{cc.Pre, cc.Mods, cc.Cs[:dr.bad+1]}, dr
		}
		r.nviol++
		r.res.Violate(lib.Violation{Clause: dr.clause,
			What: fmt.Sprintf("step %d %s returned %s, the specification says %s (history: %s)", sr.bad, small.Cs[sr.bad], sr.outs[sr.bad], sr.want,
				strings.Join(small.text(), "; ")),
			Input: small.input()})
		if r.nviol <= 20 {
			cf.Add(small.gallina(sr.outs[:len(small.Cs)]), small.input())
		}
	}
	if toCoq {
		cf.Add(cc.gallina(dr.outs), cc.input())
	}
	if r.res.Evaluations%1999 == 1 {
		r.res.Sample(map[string]interface{}{"depchild": cc.text(), "outs": dr.outs})
	}
}

// ---- generators ----------------------------------------------------------------------------------
func cDep(d dopT) copT            { return copT{Kind: "Dep", D: &d} }
func cLoadEntry(n tname) copT     { return copT{Kind: "LoadEntry", N: n} }
func cLoad(n tname) copT          { return copT{Kind: "Load", N: n} }
func cGet(n tname) copT           { return copT{Kind: "GetEntry", N: n} }
func cHas(n tname) copT           { return copT{Kind: "Has", N: n} }
func cDefine(n tname, v int) copT { return copT{Kind: "Define", N: n, V: v} }

func (r *runner) childCorpus() {
	cf := newChildCases()
	ax, AX, bx, y, cz := tn("x", "a::x"), tn("x", "A::X"), tn("x", "b::x"), tn("x", "y"), tn("x", "c::z")
	pre := seq(newDep(), newDep(), newParented(2), def(1, ax, 0), def(2, ax, 1), def(3, y, 2))
	ms := mods(mod("a", 1), mod("b", 3))
	// the history of the Rocq example C12_depchild_nonvacuous
	r.checkChild(childCase{pre, ms, []copT{cLoadEntry(bx), cLoad(bx), cGet(bx), cDefine(bx, 2), cLoadEntry(bx), cHas(bx), cDep(dBase(def(3, bx, 1))), cLoadEntry(bx), cGet(bx),
		cDep(dGet(bx)), cDefine(bx, 0), cHas(y), cLoad(y), cHas(y), cLoadEntry(ax), cDep(dLoadEntry(ax))}}, cf, true, "corpus")
	// the dependency loader's own binding shadows the child's; equal / different redefinition in the child; letter case
	r.checkChild(childCase{pre, ms, []copT{cDefine(cz, 4), cDefine(cz, 5), cDefine(cz, 6), cLoad(cz), cDep(dDefine(cz, 1)), cLoad(cz), cLoadEntry(tn("x", "C::Z")), cGet(cz), cHas(cz),
		cLoad(AX), cDep(dGet(ax)), cDefine(ax, 2), cLoadEntry(ax), cLoad(tname{1, "x", "a::x"})}}, cf, true, "corpus")
	// no module loaders; the miss px.Load caches in the child is overwritten by a definition
	r.checkChild(childCase{pre, nil, []copT{cLoad(ax), cGet(ax), cLoadEntry(ax), cDefine(ax, 0), cLoad(ax), cGet(AX), cDep(dLoad(ax)), cDep(dDefine(ax, 1)), cLoad(ax), cHas(ax)}}, cf, true, "corpus")
	// type-set loader and the static loader as modules below the child
	pre2 := seq(newDep(), newTypeSet(1, 0), newParented(0), newDep())
	car, fcar, fnope, integer := tn("type", "Car"), tn("type", "Foo::Car"), tn("type", "Foo::Nope"), tn("type", "Integer")
	r.checkChild(childCase{pre2, mods(mod("foo", 2), mod("std", 3), mod("b", 4)), []copT{cLoadEntry(fcar), cLoad(car), cLoad(fnope), cDefine(fnope, 8), cLoad(fnope),
		cDep(dBase(def(1, fnope, 10))), cLoad(fnope), cLoad(integer), cDefine(integer, 9), cHas(integer), cDep(dHas(integer)), cGet(integer)}}, cf, true, "corpus")
	r.res.CorrFiles = append(r.res.CorrFiles, cf.WriteTo(r.cfg.Out, "cases_depchild_corpus"))
}

func randomChild(g *lib.Rng) childCase {
	dc := randomDep(g)
	cc := childCase{Pre: dc.Pre, Mods: dc.Mods}
	name := func() tname { return depNames[g.Intn(len(depNames))] }
	val := func() int { return []int{0, 1, 2, 4, 5, 6, 8, 9, 10}[g.Intn(9)] }
	for _, d := range dc.Ds {
		for g.Intn(5) < 3 {
			switch g.Intn(10) {
			case 0, 1, 2:
				cc.Cs = append(cc.Cs, cLoadEntry(name()))
			case 3, 4, 5:
				cc.Cs = append(cc.Cs, cLoad(name()))
			case 6:
				cc.Cs = append(cc.Cs, cGet(name()))
			case 7:
				cc.Cs = append(cc.Cs, cHas(name()))
			default:
				cc.Cs = append(cc.Cs, cDefine(name(), val()))
			}
		}
		cc.Cs = append(cc.Cs, cDep(d))
	}
	return cc
}

func (r *runner) childRandom(rng *lib.Rng) {
	n, perFile := 1500, 60
	if r.cfg.Thorough() {
		n, perFile = 60000, 1000
	}
	cf := newChildCases()
	for i := 0; i < n; i++ {
		r.checkChild(randomChild(rng.Fork()), cf, i < perFile, "random")
	}
	r.res.CorrFiles = append(r.res.CorrFiles, cf.WriteTo(r.cfg.Out, "cases_depchild_random"))
}

func (r *runner) replayChild(in interface{}, cf *lib.CasesFile) {
	var cc childCase
	lib.Remarshal(in, &cc)
	dr := runChild(r.c, cc)
	r.res.Evaluations++
	for i, c := range cc.Cs {
		fmt.Printf("  %-40s => %s\n", c.String(), dr.outs[i])
	}
	if dr.bad >= 0 {
		fmt.Printf("FAILS at step %d: %s returned %s, the specification says %s\n", dr.bad, cc.Cs[dr.bad], dr.outs[dr.bad], dr.want)
		r.res.Violate(lib.Violation{Clause: dr.clause,
			What:  fmt.Sprintf("step %d %s returned %s, the specification says %s", dr.bad, cc.Cs[dr.bad], dr.outs[dr.bad], dr.want),
			Input: cc.input()})
	} else {
		fmt.Println("implementation agrees with the specification on this history")
	}
	cf.Add(cc.gallina(dr.outs), in)
}
