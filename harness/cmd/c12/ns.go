package main

import (
	"fmt"
	"strings"

	"github.com/lyraproj/pcore/px"
)

// Direct evaluation of the namespace clause on the implementation's own answers (Properties/C12Ns.v
// C12_namespace_noninterference, stated there for every history and every namespace): for every namespace that occurs
// in a history of constructions, definitions, lookups and discoveries, the history WITHOUT the definitions and lookups of
// names of the other namespaces is run on fresh loaders of the implementation; every definition and lookup of a name of
// the namespace must answer as it did in the full history (a cached miss and an absent entry are both a miss).
// No reference specification is involved: two runs of the implementation are compared.

// nsOfOp: the namespace (as MapKey files it: lower case) of the name a definition or lookup is about
func nsOfOp(o opT) (string, bool) {
	switch o.Kind {
	case "Define", "AddType", "Load", "LoadEntry", "GetEntry", "Has":
		return strings.ToLower(o.N.Ns), true
	}
	return "", false
}

func plainHistory(ops []opT) bool {
	for _, o := range ops {
		if o.Kind == "AddTypes" || o.Kind == "Declare" {
			return false
		}
	}
	return true
}

// checkNamespace returns "" or the description of the first difference.  outs = the outputs of the full history.
func checkNamespace(c px.Context, ops []opT, outs []string) (what string, nsCount int) {
	if !plainHistory(ops) {
		return "", 0
	}
	var nss []string
	seen := map[string]bool{}
	for _, o := range ops {
		if ns, ok := nsOfOp(o); ok && !seen[ns] {
			seen[ns] = true
			nss = append(nss, ns)
		}
	}
	if len(nss) < 2 {
		return "", 0
	}
	for _, ns := range nss {
		w := newWorld(c)
		for i, o := range ops {
			ons, named := nsOfOp(o)
			if named && ons != ns {
				continue // erased
			}
			got := w.apply(o)
			if named && project(got) != project(outs[i]) {
				return fmt.Sprintf("step %d %s returned %s in the full history and %s in the history without the operations on names of "+
					"namespaces other than %q", i, o, outs[i], got, ns), len(nss)
			}
		}
	}
	return "", len(nss)
}
