package main

import (
	"fmt"
	"sort"
	"strings"

	"verifharness/lib"
)

// The Go-side reference for the direct check D: the abstract specification of property C12, written
// from the property statement (no placeholders, no caches):
//   * every loader owns a write-once partial map from canonical (lower-cased) key to value;
//   * lookup through a loader = binding of the outermost ancestor that has one, else own, else not found;
//     a type-set loader first answers with the types of its (immutable) type set, defines into its parent,
//     and resolves names qualified with the type set's name relative to it;
//   * discover = the bound names satisfying the predicate, each once, sorted (a name bound by a loader
//     is attributed to the outermost loader resolving it).

type refNode struct {
	kind string // static | dep | parented | typeset
	par  *refNode
	tsi  *tsetInfo
	own  map[string]int
}

type refWorld struct{ nodes []*refNode }

var refStatic *refNode

func newRefWorld() *refWorld {
	if refStatic == nil {
		// shared by all histories: the static loader is never written to
		refStatic = &refNode{kind: "static", own: map[string]int{}}
		for _, e := range staticEntries {
			refStatic.own[e.key] = e.val
		}
	}
	return &refWorld{nodes: []*refNode{refStatic}}
}

func tsLookup(t *tsetInfo, n tname) (int, bool) {
	if n.Ns != "type" || n.Auth != t.auth {
		return 0, false
	}
	ps := n.parts()
	if len(ps) != 1 {
		return 0, false
	}
	for _, ty := range t.types {
		if strings.ToLower(ty.name) == ps[0] {
			return ty.val, true
		}
	}
	return 0, false
}

// relativeTo: TypedName.RelativeTo(typeSet.TypedName()) (typedname.go:216)
func relativeTo(n tname, t *tsetInfo) (tname, bool) {
	tp := strings.Split(strings.ToLower(t.name), "::")
	np := n.parts()
	if len(tp) >= len(np) {
		return n, false
	}
	for i := range tp {
		if tp[i] != np[i] {
			return n, false
		}
	}
	segs := strings.Split(strings.TrimPrefix(n.Name, "::"), "::")
	return tname{n.Auth, n.Ns, strings.Join(segs[len(tp):], "::")}, true
}

func (w *refWorld) resolve(nd *refNode, n tname) (int, bool) {
	switch nd.kind {
	case "static", "dep":
		v, ok := nd.own[n.mapKey()]
		return v, ok
	case "parented":
		if v, ok := w.resolve(nd.par, n); ok {
			return v, true
		}
		v, ok := nd.own[n.mapKey()]
		return v, ok
	case "typeset":
		t := nd.tsi
		for {
			if v, ok := tsLookup(t, n); ok {
				return v, true
			}
			if v, ok := w.resolve(nd.par, n); ok {
				return v, true
			}
			c, ok := relativeTo(n, t)
			if !ok {
				return 0, false
			}
			n = c
		}
	}
	panic("bad kind")
}

func nameOfKey(k string) tname {
	for a, u := range authorities {
		p := strings.ToLower(string(u)) + "/"
		if strings.HasPrefix(k, p) {
			rest := k[len(p):]
			i := strings.IndexByte(rest, '/')
			return tname{a, rest[:i], rest[i+1:]}
		}
	}
	panic("key with unknown authority " + k)
}

func (w *refWorld) discover(nd *refNode, p func(string) bool) []string {
	res := []string{}
	switch nd.kind {
	case "static", "dep":
		for k := range nd.own {
			if p(k) {
				res = append(res, k)
			}
		}
	case "parented":
		res = w.discover(nd.par, p)
		for k := range nd.own {
			if _, shadowed := w.resolve(nd.par, nameOfKey(k)); !shadowed && p(k) {
				res = append(res, k)
			}
		}
	case "typeset":
		t := nd.tsi
		in := map[string]bool{}
		for _, ty := range t.types {
			k := tname{t.auth, "type", ty.name}.mapKey()
			in[k] = true
			if p(k) {
				res = append(res, k)
			}
		}
		res = append(res, w.discover(nd.par, func(k string) bool { return !in[k] && p(k) })...)
	}
	sort.Strings(res)
	return res
}

func infoOf(id int) *valInfo {
	if vi, ok := vtable[id]; ok {
		return vi
	}
	return dynInfo[id]
}

func valEqual(old, nv int) bool {
	if old == nv {
		return true
	}
	o, n := infoOf(old), infoOf(nv)
	return o.cls >= 0 && n.cls == o.cls
}

// define: a definition made through loader l goes to the first loader from l upwards that is not a type-set
// loader; write-once.
func (w *refWorld) define(t *refNode, n tname, v int) string {
	for t.kind == "typeset" {
		t = t.par
	}
	if t == refStatic {
		panic("generator error: definition into the shared static loader")
	}
	own := t.own
	k := n.mapKey()
	old, bound := own[k]
	if !bound {
		own[k] = v
		return "RDefined " + gVal(v)
	}
	if valEqual(old, v) {
		return "RDefined " + gVal(old)
	}
	if infoOf(old).ty && infoOf(v).ty {
		return "RErr ERedefineType"
	}
	return "RErr ERedefine"
}

// apply returns the expected output of the operation (same text as world.apply) and updates the spec state.
func (w *refWorld) apply(o opT) string {
	if o.Kind == "NewDep" {
		w.nodes = append(w.nodes, &refNode{kind: "dep", own: map[string]int{}})
		return fmt.Sprintf("RNew %d", len(w.nodes)-1)
	}
	if o.L < 0 || o.L >= len(w.nodes) {
		return "RBadLoader"
	}
	switch o.Kind {
	case "NewParented", "Fork":
		w.nodes = append(w.nodes, &refNode{kind: "parented", par: w.nodes[o.L], own: map[string]int{}})
		return fmt.Sprintf("RNew %d", len(w.nodes)-1)
	case "NewTypeSet":
		w.nodes = append(w.nodes, &refNode{kind: "typeset", par: w.nodes[o.L], tsi: tsets[o.T], own: map[string]int{}})
		return fmt.Sprintf("RNew %d", len(w.nodes)-1)
	case "Define", "AddType":
		return w.define(w.nodes[o.L], o.N, o.V)
	case "Load":
		if o.N.Auth != 0 {
			// px.Load answers not-found for a name of a foreign name authority (loader.go:72)
			return "RFound None"
		}
		if v, ok := w.resolve(w.nodes[o.L], o.N); ok {
			return "RFound (Some " + gVal(v) + ")"
		}
		return "RFound None"
	case "LoadEntry":
		if v, ok := w.resolve(w.nodes[o.L], o.N); ok {
			return "REntry (EVal " + gVal(v) + ")"
		}
		return "REntry miss"
	case "GetEntry":
		nd := w.nodes[o.L]
		if nd.kind != "typeset" {
			if v, ok := nd.own[o.N.mapKey()]; ok {
				return "REntry (EVal " + gVal(v) + ")"
			}
		}
		return "REntry miss"
	case "Has":
		_, ok := w.resolve(w.nodes[o.L], o.N)
		return "RBool " + lib.GBool(ok)
	case "Discover":
		ks := w.discover(w.nodes[o.L], o.P.onKey)
		gs := make([]string, len(ks))
		for i, k := range ks {
			gs[i] = gKey(k)
		}
		return "RNames " + lib.GList(gs, "str")
	}
	panic("bad op " + o.Kind)
}

// project maps an implementation output to what the abstract specification can see: a cached miss
// (placeholder entry) and an absent entry are both a miss.
func project(out string) string {
	if out == "REntry ENone" || out == "REntry EPlaceholder" {
		return "REntry miss"
	}
	return out
}

func clauseOf(o opT, got string) string {
	if strings.HasPrefix(got, "RFault") || strings.HasPrefix(got, "XA AFault") {
		return "no-runtime-fault"
	}
	switch o.Kind {
	case "Define", "AddType", "AddTypes", "Declare":
		return "write-once"
	case "Discover":
		return "discover-exact"
	case "Load", "LoadEntry", "GetEntry", "Has":
		return "resolution"
	}
	return "construction"
}
