package main

import (
	"fmt"
	"reflect"
	"strings"

	"github.com/lyraproj/pcore/px"
	"verifharness/lib"
)

// px.AddTypes (px/context.go:114) with object types and type sets — the route by which whole families of names
// are defined at once, `px.AddTypes(c, c.ParseType(src)...)` with loader L as the context's loader:
//   * every type that is not a type set is bound under type/<name> (px/context.go:124);
//   * resolveTypes (internal/context.go:238): a type set is resolved now, with a type-set loader of its own on top of
//     L (one more for every nested set; they stay unreachable but the object members keep them as "their" loader);
//     an object type gets constructor/<name>, and, when its constructor is made, allocator/<name> unless its loader
//     knows one (types/objecttype.go:1138);
//   * resolveTypeSet (internal/context.go:268): the members of a type set, nested sets first, are bound under their
//     qualified names unless L already knows them (`le == nil || le.Value() == nil`), object members with
//     allocator and constructor; at last the type set itself is bound (px/context.go:132).
// The property covers it through "a failed lookup followed by a definition makes the name resolvable",
// write-once and parents-first.  Every AddTypes operation parses its declarations afresh in the context of L
// (the declarations refer to core types only: parsing leaves the loaders as they are).

type addDecl struct{ label, src string }

func tsSrc(name, version, body string) string {
	return fmt.Sprintf(`TypeSet[{name => '%s', version => '%s', pcore_version => '1.0.0', types => { %s }}]`, name, version, body)
}

const subSet = `TypeSet[{version => '1.0.0', pcore_version => '1.0.0', types => { X => Object[attributes => {b => String}], Y => Integer[7,8] }}]`

var addDecls = []addDecl{
	/* 0 */ {"Foo", tsSrc("Foo", "1.0.0", `Zed => Integer[1,2], Car => String, Bus => Object[attributes => {a => Integer}]`)},
	/* 1 */ {"Foo::Bar", tsSrc("Foo::Bar", "1.0.0", `Car => Integer[3,4], A => String[1]`)},
	/* 2 */ {"A", tsSrc("A", "1.0.0", `B => Integer[5,6], Sub => `+subSet+`, Aa => Object[attributes => {c => Integer}]`)},
	// equal to declaration 0 as far as typeSet.Equals looks (name, authority, versions), other members
	/* 3 */ {"Foo'", tsSrc("Foo", "1.0.0", `Car => Integer, Nope => Object[attributes => {n => String}]`)},
	// another version: a different type under the same name
	/* 4 */ {"Foo''", tsSrc("Foo", "2.0.0", `Zed => Integer[7,8], Other => String`)},
	/* 5 */ {"obj:Car", `Object[{name => 'Car', attributes => {a => Integer}}]`},
	/* 6 */ {"obj:Foo::Bus", `Object[{name => 'Foo::Bus', attributes => {z => String}}]`},
	/* 7 */ {"obj:Foo::Car", `Object[{name => 'Foo::Car', attributes => {a => Integer}}]`},
	// Declarations that px.AddTypes rejects with a reported error while the members of the set are being resolved (the
	// member under the key Broken): an Object that inherits a non-Object, an attribute of an unknown kind, an override
	// that is not marked, in a nested set.  Nothing of the set gets bound; the context must come out of it as it went in.
	/* 8 */ {"BadZoo", tsSrc("Zoo", "1.0.0", `Cage => Object[attributes => {size => Integer}], Keeper => Object[attributes => {name => String}], Broken => Object[parent => Integer, attributes => {a => Integer}]`)},
	/* 9 */ {"BadZoo'", tsSrc("Zoo", "1.0.0", `Cage => Integer[1,2], Sub => TypeSet[{version => '1.0.0', pcore_version => '1.0.0', types => { X => Object[attributes => {b => String}], Broken => Object[parent => Integer] }}], Keeper => String`)},
	// the same name, nothing broken
	/* 10 */ {"Zoo", tsSrc("Zoo", "1.0.0", `Cage => Object[attributes => {size => Integer}], Keeper => Object[attributes => {name => String}]`)},
	// the names of declaration 0, the broken member in the middle
	/* 11 */ {"BadFoo", tsSrc("Foo", "1.0.0", `Zed => Integer[1,2], Broken => Object[attributes => {a => {type => Integer, kind => bogus}}], Bus => Object[attributes => {a => Integer}]`)},
	/* 12 */ {"BadA", tsSrc("A", "1.0.0", `B => Object[attributes => {size => Integer}], Broken => Object[parent => B, attributes => {size => String}], Car => String`)},
}

// the key under which the declarations above hold the member whose resolution is rejected
const brokenKey = "Broken"

const (
	mPlain = iota
	mObject
	mSet
	mBroken // an object type whose Resolve is rejected
)

// what px.AddTypes can see of a type: its name, what it is, its members (with the keys of Types()); plus the
// identities involved (the type, its constructor, its allocator)
type mtypeT struct {
	kind    int
	key     string // the key in the Types() of the set that holds it
	name    string
	val     int
	ctor    int
	alloc   int
	members []*mtypeT
	node    int
	t       px.Type
}

var dynInfo = map[int]*valInfo{}
var dynIndex = map[interface{}]int{}

type protoVal struct {
	v   interface{}
	cls int
}

var protoVals []protoVal
var nextCls = 5000

// per declaration: the structure, and per node the px.Equality classes of the type, its constructor and its
// allocator (-1 = every parse yields a value equal to itself only)
var declProto []*mtypeT
var declCls [][3][]int

func goEquals(a, b interface{}) (r bool) {
	defer func() {
		if recover() != nil {
			r = false
		}
	}()
	ea, ok := a.(px.Equality)
	return ok && ea.Equals(b, nil)
}

func classOf(v interface{}) int {
	if _, ok := v.(px.Equality); !ok {
		return -1
	}
	for _, p := range protoVals {
		if goEquals(p.v, v) && goEquals(v, p.v) {
			return p.cls
		}
	}
	nextCls++
	protoVals = append(protoVals, protoVal{v, nextCls})
	return nextCls
}

func (m *mtypeT) each(f func(*mtypeT)) {
	f(m)
	for _, x := range m.members {
		x.each(f)
	}
}

func (m *mtypeT) nsets() int {
	n := 0
	m.each(func(x *mtypeT) {
		if x.kind == mSet {
			n++
		}
	})
	return n
}

func unresolvedSet(t px.Type) bool {
	f := reflect.ValueOf(t).Elem().FieldByName("deferredInit")
	return f.IsValid() && !f.IsNil()
}

func ctorMade(t px.Type) bool {
	f := reflect.ValueOf(t).Elem().FieldByName("ctor")
	return f.IsValid() && !f.IsNil()
}

// structure of a resolved type
func structureOf(t px.Type) *mtypeT {
	next := 0
	var build func(key string, t px.Type) *mtypeT
	build = func(key string, t px.Type) *mtypeT {
		m := &mtypeT{key: key, name: t.Name(), t: t, node: next, ctor: -1, alloc: -1}
		next++
		switch x := t.(type) {
		case px.TypeSet:
			m.kind = mSet
			x.Types().EachPair(func(k, v px.Value) { m.members = append(m.members, build(k.String(), v.(px.Type))) })
		case px.ObjectType:
			m.kind = mObject
			if key == brokenKey {
				m.kind = mBroken
			}
		default:
			m.kind = mPlain
		}
		return m
	}
	return build("", t)
}

func entryVal(l px.Loader, ns px.Namespace, name string) interface{} {
	if e := l.GetEntry(px.NewTypedName(ns, name)); e != nil {
		return e.Value()
	}
	return nil
}

// setupAddDecls adds every declaration twice to a loader of its own and notes the structure of the types and, by
// asking px.Equality, which values of two parses are equal: the model takes the equivalence classes as given.
func setupAddDecls(c px.Context) {
	for _, vi := range vtable {
		if vi.cls >= 0 && vi.ty {
			protoVals = append(protoVals, protoVal{vi.v, vi.cls})
		}
	}
	for d := range addDecls {
		var st [2]*mtypeT
		var vals [2][3][]interface{}
		for i := 0; i < 2; i++ {
			l := px.NewParentedLoader(px.NewDependencyLoader(nil))
			c.DoWithLoader(l, func() {
				t := c.ParseType(addDecls[d].src)
				rejected := func() (r interface{}) {
					defer func() { r = recover() }()
					px.AddTypes(c, t)
					return nil
				}()
				// (a rejected type set shows its members all the same: typeSet.Resolve has them from InitFromHash)
				st[i] = structureOf(t)
				if (rejected != nil) != (st[i].firstBroken() != nil) {
					panic(fmt.Sprintf("harness: declaration %s: rejected=%v, but broken member=%v", addDecls[d].label, rejected, st[i].firstBroken() != nil))
				}
				st[i].each(func(m *mtypeT) {
					vals[i][0] = append(vals[i][0], m.t)
					var f, a interface{}
					if m.kind == mObject {
						// (absent when the code under test fails to register them: the histories will show it)
						f, a = entryVal(l, px.NsConstructor, m.name), entryVal(l, px.NsAllocator, m.name)
					}
					vals[i][1] = append(vals[i][1], f)
					vals[i][2] = append(vals[i][2], a)
				})
			})
		}
		var cls [3][]int
		for k := 0; k < 3; k++ {
			cls[k] = make([]int, len(vals[0][k]))
			for n := range cls[k] {
				cls[k][n] = -1
				a, b := vals[0][k][n], vals[1][k][n]
				if a != nil && goEquals(a, b) && goEquals(b, a) {
					cls[k][n] = classOf(a)
				}
			}
		}
		declProto = append(declProto, st[0])
		declCls = append(declCls, cls)
	}
}

func dynID(inst, d, node, k int) int { return 100000 + inst*2000 + d*100 + node*3 + k }

func regDyn(v interface{}, id, cls int, ty bool) {
	if cls < 0 {
		cls = 1000000 + id // equal to itself only
	}
	if v != nil {
		dynIndex[v] = id
	}
	if _, ok := dynInfo[id]; !ok {
		dynInfo[id] = &valInfo{nil, id, cls, ty}
	}
}

// instance of a declaration: the structure of the prototype with this parse's identities
func instanceOf(d, inst int) *mtypeT {
	var cp func(m *mtypeT) *mtypeT
	cp = func(m *mtypeT) *mtypeT {
		x := &mtypeT{kind: m.kind, key: m.key, name: m.name, node: m.node, ctor: -1, alloc: -1}
		x.val = dynID(inst, d, m.node, 0)
		regDyn(nil, x.val, declCls[d][0][m.node], true)
		if m.kind == mObject {
			x.ctor, x.alloc = dynID(inst, d, m.node, 1), dynID(inst, d, m.node, 2)
			for k, id := range []int{x.ctor, x.alloc} {
				regDyn(nil, id, declCls[d][k+1][m.node], false)
			}
		}
		for _, y := range m.members {
			x.members = append(x.members, cp(y))
		}
		return x
	}
	return cp(declProto[d])
}

func (m *mtypeT) gallina() string {
	switch m.kind {
	case mPlain:
		return fmt.Sprintf("MPlain %s %s", lib.GStr(m.name), gVal(m.val))
	case mObject:
		return fmt.Sprintf("MObject %s %s (Some %s) (Some %s)", lib.GStr(m.name), gVal(m.val), gVal(m.alloc), gVal(m.ctor))
	case mBroken:
		return fmt.Sprintf("MBroken %s %s", lib.GStr(m.name), gVal(m.val))
	}
	ms := make([]string, len(m.members))
	for i, x := range m.members {
		ms[i] = "(" + lib.GStr(x.key) + ", " + x.gallina() + ")"
	}
	return fmt.Sprintf("MSet %s %s %s", lib.GStr(m.name), gVal(m.val), lib.GList(ms, "str * mtype"))
}

// firstBroken: the member at which the resolution of the type (set) is rejected - the first one in the order of
// typeSet.Resolve (members in the order of Types(), a nested set when its turn comes); nil: none
func (m *mtypeT) firstBroken() *mtypeT {
	if m.kind == mBroken {
		return m
	}
	for _, x := range m.members {
		if b := x.firstBroken(); b != nil {
			return b
		}
	}
	return nil
}

// loadersUntilBroken: the type-set loaders typeSet.Resolve has made when it reaches the broken member (all of them
// when there is none)
func (m *mtypeT) loadersUntilBroken() (n int, broken bool) {
	if m.kind == mBroken {
		return 0, true
	}
	if m.kind != mSet {
		return 0, false
	}
	n = 1
	for _, x := range m.members {
		k, b := x.loadersUntilBroken()
		n += k
		if b {
			return n, true
		}
	}
	return n, false
}

func addOut(r string) string {
	switch {
	case r == "RBadLoader":
		return "XA ABadLoader"
	case strings.HasPrefix(r, "RErr (EOther"):
		return "XA (AErr EOther)"
	case strings.HasPrefix(r, "RErr "):
		return "XA (AErr " + strings.TrimPrefix(r, "RErr ") + ")"
	case strings.HasPrefix(r, "RFault"):
		return "XA AFault" + strings.TrimPrefix(r, "RFault")
	}
	return "XA AFault (* " + r + " *)"
}

// the object types of the items in the order in which px.AddTypes asks for their constructors: the items that are
// object types, then the members of the type sets (nested sets first)
func objectsInOrder(items []*mtypeT) []*mtypeT {
	var r []*mtypeT
	for _, m := range items {
		if m.kind == mObject {
			r = append(r, m)
		}
	}
	var walk func(m *mtypeT)
	walk = func(m *mtypeT) {
		for _, x := range m.members {
			if x.kind == mSet {
				walk(x)
			} else if x.kind == mObject {
				r = append(r, x)
			}
		}
	}
	for _, m := range items {
		if m.kind == mSet {
			walk(m)
		}
	}
	return r
}

// applyAddTypes runs px.AddTypes(c, c.ParseType(..)...) with loader o.L; what the harness saw of the types is left
// in w.lastAdd (for the reference specification and for the model), w.lastHidden = the type-set loaders made.
func (w *world) applyAddTypes(o opT) (res string) {
	w.lastAdd, w.lastHidden = nil, 0
	if o.L < 0 || o.L >= len(w.loaders) {
		return "XA ABadLoader"
	}
	items := make([]*mtypeT, len(o.A))
	types := make([]px.Type, len(o.A))
	for i, a := range o.A {
		if a >= 100 {
			t := vtable[a-100].v.(px.Type)
			items[i] = &mtypeT{kind: mPlain, name: t.Name(), val: a - 100, t: t, ctor: -1, alloc: -1}
		} else {
			items[i] = instanceOf(a, w.ninst)
			w.ninst++
			w.with(o.L, func(c px.Context) { items[i].t = c.ParseType(addDecls[a].src) })
			dynIndex[items[i].t] = items[i].val
		}
		types[i] = items[i].t
	}
	w.lastAdd = items
	res = func() (res string) {
		defer func() {
			if r := recover(); r != nil {
				res = addOut(classifyPanic(r))
			}
		}()
		w.with(o.L, func(c px.Context) { px.AddTypes(c, types...) })
		return "XA AOk"
	}()
	// the identities of this parse: members of the sets that were resolved, constructors and allocators that were made
	for _, m := range items {
		if m.kind != mSet || unresolvedSet(m.t) {
			continue
		}
		n, _ := m.loadersUntilBroken()
		w.lastHidden += n
		var walk func(m *mtypeT)
		walk = func(m *mtypeT) {
			i := 0
			m.t.(px.TypeSet).Types().EachValue(func(v px.Value) {
				x := m.members[i]
				i++
				x.t = v.(px.Type)
				dynIndex[x.t] = x.val
				if x.kind == mSet && !unresolvedSet(x.t) {
					walk(x)
				}
			})
		}
		walk(m)
	}
	tg := o.L
	for w.typeset[tg] {
		tg = w.parent[tg]
	}
	for _, m := range objectsInOrder(items) {
		if m.t == nil || !ctorMade(m.t) {
			continue
		}
		var f px.Function
		w.with(o.L, func(c px.Context) { f = m.t.(px.ObjectType).Constructor(c) }) // made already: answered as it is
		dynIndex[f] = m.ctor
		// the allocator is registered for the first object type of that name that makes its constructor
		if a := entryVal(w.loaders[tg], px.NsAllocator, m.name); a != nil && valOf(a) < 0 {
			dynIndex[a] = m.alloc
		}
	}
	return res
}

func (w *world) lastAddGallina(ml int) string {
	ms := make([]string, len(w.lastAdd))
	for i, m := range w.lastAdd {
		ms[i] = "(" + m.gallina() + ")"
	}
	return fmt.Sprintf("XAddTypes %d %s", ml, lib.GList(ms, "mtype"))
}

// ---- reference specification ---------------------------------------------------------------------
// px.AddTypes through loader L, from the property statement and the contract of AddTypes: every type is defined
// under type/<name>, an object type also under constructor/<name> and, unless its loader resolves one, under
// allocator/<name>; of a type set the members that do not resolve yet through L (nested sets before the set that
// holds them), then the set itself.  Definitions are write-once; the first rejected one ends the call with its
// error.  The loader of an object type that is a member of a type set is the loader the set was resolved with: a
// type-set loader on top of L.

func (w *refWorld) applyAdd(o opT, items []*mtypeT) string {
	if o.L < 0 || o.L >= len(w.nodes) {
		return "XA ABadLoader"
	}
	L := w.nodes[o.L]
	failed := ""
	def := func(through *refNode, ns, name string, v int) bool {
		r := w.define(through, tname{0, ns, name}, v)
		if strings.HasPrefix(r, "RErr ") {
			failed = "XA (AErr " + strings.TrimPrefix(r, "RErr ") + ")"
			return false
		}
		return true
	}
	// the constructor of an object type whose loader is tl
	construct := func(tl *refNode, m *mtypeT) bool {
		if _, known := w.resolve(tl, tname{0, "allocator", m.name}); !known && !def(tl, "allocator", m.name, m.alloc) {
			return false
		}
		return def(L, "constructor", m.name, m.ctor)
	}
	for _, m := range items {
		if m.kind != mSet && !def(L, "type", m.name, m.val) {
			return failed
		}
	}
	owner := map[*mtypeT]*refNode{}
	for _, m := range items {
		// a type whose own resolution is rejected ends the call before any member is bound; what was bound before stays
		if m.firstBroken() != nil {
			return "XA (AErr EOther)"
		}
		switch m.kind {
		case mSet:
			var hide func(parent *refNode, m *mtypeT)
			hide = func(parent *refNode, m *mtypeT) {
				ti := &tsetInfo{auth: 0, name: m.name}
				for _, x := range m.members {
					ti.types = append(ti.types, tsType{x.key, x.val})
				}
				nd := &refNode{kind: "typeset", par: parent, tsi: ti, own: map[string]int{}}
				owner[m] = nd
				for _, x := range m.members {
					if x.kind == mSet {
						hide(nd, x)
					}
				}
			}
			hide(L, m)
		case mObject:
			if !construct(L, m) {
				return failed
			}
		}
	}
	var members func(m *mtypeT) bool
	members = func(m *mtypeT) bool {
		for _, x := range m.members {
			if x.kind == mSet && !members(x) {
				return false
			}
			if _, known := w.resolve(L, tname{0, "type", x.name}); known {
				continue
			}
			if !def(L, "type", x.name, x.val) {
				return false
			}
			if x.kind == mObject && !construct(owner[m], x) {
				return false
			}
		}
		return true
	}
	for _, m := range items {
		if m.kind == mSet && !members(m) {
			return failed
		}
	}
	for _, m := range items {
		if m.kind == mSet && !def(L, "type", m.name, m.val) {
			return failed
		}
	}
	return "XA AOk"
}
