package main

import (
	"fmt"

	"verifharness/lib"
)

func tn(ns, name string) tname { return tname{0, ns, name} }

// namePool: every typed name the generators use (all valid: segments [A-Za-z][0-9A-Za-z_]*).
func namePool() []tname {
	ns := []tname{}
	for _, s := range []string{"a", "A", "b", "a::b", "A::B", "::a", "ab", "a_1::B2"} {
		ns = append(ns, tn("x", s), tn("function", s))
	}
	for _, s := range []string{"a", "A", "b", "B", "a::b", "A::a", "a::a::b", "Integer", "integer", "INTEGER", "String", "Car", "car", "CAR", "Bus", "Zed",
		"Foo", "Foo::Car", "foo::car", "FOO::CAR", "Foo::Nope", "foo::foo::bus", "Foo::Bar", "Foo::Bar::Car", "foo::bar::a", "Foo::Bar::Nope",
		"Foo::Bar::Foo::Bar::Car", "Nope", "MyAlias", "myalias", "MYALIAS", "Late", "late", "::Car", "Foo::a", "Foo::A::B"} {
		ns = append(ns, tn("type", s))
	}
	ns = append(ns, addNames()...)
	ns = append(ns, tname{1, "type", "Car"}, tname{1, "x", "a"}, tname{1, "type", "Foo::Car"}, tname{0, "x", "Foo::a"}, tname{0, "function", "Foo::Car"},
		tname{0, "x", "Foo::Bar::a"})
	return ns
}

// addNames: the names px.AddTypes binds for the declarations of addDecls (and a few case variants)
func addNames() []tname {
	ns := []tname{}
	for _, s := range []string{"Foo::Zed", "foo::zed", "Foo::Car", "Foo::Bus", "FOO::BUS", "Foo::Bar::Car", "Foo::Bar::A", "Foo::Bar", "A", "A::B", "A::Sub", "A::Sub::X", "a::sub::x", "A::Sub::Y",
		"A::Aa", "Foo::Nope", "Foo::Other", "Foo", "Car", "Bus", "X", "Sub::X",
		"Zoo", "Zoo::Cage", "Cage", "Keeper", "zoo::keeper", "Zoo::Broken", "Broken", "Zoo::Sub::X", "Zoo::Sub", "Zed", "Foo::Broken", "B"} {
		ns = append(ns, tn("type", s))
	}
	for _, s := range []string{"Foo::Bus", "foo::bus", "A::Sub::X", "A::Aa", "Foo::Nope", "Car", "Foo::Car", "Foo::Zed", "Bus", "X", "Zoo::Cage", "Cage"} {
		ns = append(ns, tn("constructor", s))
	}
	for _, s := range []string{"Foo::Bus", "Bus", "foo::bus", "A::Sub::X", "Sub::X", "X", "A::Aa", "Car", "Foo::Car", "Zoo::Keeper", "Keeper"} {
		ns = append(ns, tn("allocator", s))
	}
	return ns
}

var predPool = []predT{{"All", ""}, {"Ns", "x"}, {"Ns", "type"}, {"Ns", "function"}, {"NameLower", "a"}, {"NameLower", "car"}, {"NameLower", "integer"},
	{"NameLower", "foo::car"}, {"Qualified", ""}}

func def(l int, n tname, v int) opT { return opT{Kind: "Define", L: l, N: n, V: v} }
func load(l int, n tname) opT       { return opT{Kind: "Load", L: l, N: n} }
func loadEntry(l int, n tname) opT  { return opT{Kind: "LoadEntry", L: l, N: n} }
func getEntry(l int, n tname) opT   { return opT{Kind: "GetEntry", L: l, N: n} }
func has(l int, n tname) opT        { return opT{Kind: "Has", L: l, N: n} }
func discover(l int, p predT) opT   { return opT{Kind: "Discover", L: l, P: p} }
func newParented(p int) opT         { return opT{Kind: "NewParented", L: p} }
func fork(p int) opT                { return opT{Kind: "Fork", L: p} }
func newTypeSet(p int, t int) opT   { return opT{Kind: "NewTypeSet", L: p, T: t} }
func newDep() opT                   { return opT{Kind: "NewDep"} }
func addType(l int, v int) opT {
	return opT{Kind: "AddType", L: l, N: tn("type", vtable[v].v.(interface{ Name() string }).Name()), V: v}
}
func addTypes(l int, items ...int) opT { return opT{Kind: "AddTypes", L: l, A: items} }
func seq(ops ...opT) []opT        { return ops }
func cat(a []opT, b ...opT) []opT { return append(append([]opT{}, a...), b...) }
func allPred() predT              { return predT{"All", ""} }
func nsPred(s string) predT       { return predT{"Ns", s} }
func nameLower(s string) predT    { return predT{"NameLower", s} }

// corpus: minimised regressions and the scenarios named in the property statement; always run first,
// always sent to the model.
func (r *runner) corpus() {
	cf := newCases()
	a, A, b := tn("x", "a"), tn("x", "A"), tn("x", "b")
	chain := seq(newDep(), newParented(1), newParented(2)) // loaders 1 <- 2 <- 3
	hs := [][]opT{
		// a failed lookup must not appear in Discover (fixed e8cb2ca); not twice either
		cat(chain, load(3, a), discover(3, allPred()), discover(1, allPred()), has(3, a)),
		cat(chain, load(2, b), def(3, tn("x", "B"), 0), discover(3, allPred()), discover(2, allPred())),
		// miss, then define: resolvable (own loader, ancestor)
		cat(chain, load(3, a), def(3, a, 0), load(3, a), has(3, a), getEntry(3, a)),
		cat(chain, load(3, a), def(1, a, 0), load(3, a), load(2, a), discover(3, allPred())),
		cat(chain, load(3, a), def(2, A, 1), load(3, a), load(1, a), getEntry(3, a)),
		// parents first: a later binding in an ancestor shadows the own one
		cat(chain, def(3, a, 0), load(3, a), def(1, a, 1), load(3, a), load(2, a), discover(3, allPred())),
		// write-once: equal redefinition is a no-op, a different value is rejected
		cat(chain, def(2, a, 0), def(2, a, 0), def(2, A, 1), load(2, a), def(2, a, 4), load(3, A)),
		cat(chain, def(2, a, 4), def(2, a, 5), load(2, a), def(2, a, 6), def(2, a, 0), load(2, a)),
		cat(chain, def(2, a, 0), def(2, a, 4), def(2, a, 8)),
		// types: AttemptToRedefineType, equal types, type then non-type (fixed 305662b)
		cat(chain, def(2, tn("type", "T"), 8), def(2, tn("type", "t"), 9), def(2, tn("type", "T"), 10), def(2, tn("type", "t"), 0), def(2, tn("type", "t"), 4),
			load(3, tn("type", "T"))),
		cat(chain, def(2, a, 0), def(2, a, 8), def(2, b, 4), def(2, b, 8)),
		// case folding
		cat(chain, def(2, tn("x", "a::B"), 0), load(3, tn("x", "A::b")), has(3, tn("x", "::A::B")), discover(3, predT{"Qualified", ""}), def(2, tn("x", "A::B"), 1)),
		// static parent: core types resolve first, a child's binding of the same name is shadowed
		seq(newParented(0), fork(1), load(2, tn("type", "Integer")), def(2, tn("type", "integer"), 8), load(2, tn("type", "INTEGER")),
			discover(2, nameLower("integer")), has(2, tn("type", "integer")), getEntry(2, tn("type", "Integer")), load(2, tn("x", "a")), discover(2, nsPred("x"))),
		// foreign name authority
		cat(chain, def(2, tname{1, "x", "a"}, 0), load(2, tname{1, "x", "a"}), loadEntry(2, tname{1, "x", "a"}), has(3, tname{1, "x", "a"}), load(3, a),
			discover(3, allPred())),
		// type-set loader: types of the set first, defines go to the parent, relative names, Discover (fixed 3bc6110)
		seq(newDep(), newParented(1), newTypeSet(2, 0), load(3, tn("type", "Car")), load(3, tn("type", "foo::CAR")), load(3, tn("type", "foo::foo::bus")),
			load(3, tn("type", "Nope")), load(3, tn("type", "Foo::Nope")), discover(3, allPred()), def(3, tn("type", "Nope"), 8), load(3, tn("type", "Foo::Nope")),
			getEntry(2, tn("type", "nope")), discover(3, allPred()), has(3, tn("type", "Foo::Car")), has(3, tn("type", "Foo::Zap")), getEntry(3, tn("type", "Car")),
			def(2, tn("type", "Car"), 9), load(3, tn("type", "Car")), load(2, tn("type", "Car")), discover(3, nsPred("type")), discover(3, nameLower("car"))),
		seq(newDep(), newTypeSet(1, 0), discover(2, allPred()), discover(2, nameLower("zed")), load(2, tn("x", "Foo::a")), def(2, tn("x", "a"), 1),
			load(2, tn("x", "Foo::a")), load(2, tname{1, "type", "Car"}), has(2, tname{1, "type", "Car"})),
		seq(newDep(), newTypeSet(1, 1), load(2, tn("type", "Foo::Bar::Car")), load(2, tn("type", "Foo::Car")), load(2, tn("type", "Foo::Bar::Foo::Bar::A")),
			def(1, tn("type", "Foo::Car"), 8), load(2, tn("type", "Foo::Car")), load(2, tn("type", "Foo::Bar::Foo::Car")), discover(2, allPred())),
		// a type-set loader inside the chain
		seq(newDep(), newTypeSet(1, 0), newParented(2), def(3, tn("type", "Foo::Car"), 8), load(3, tn("type", "Foo::Car")), discover(3, allPred()),
			def(3, tn("type", "Other"), 9), discover(3, allPred()), load(3, tn("type", "foo::other")), load(3, tn("type", "other")), load(2, tn("type", "Foo::Other")),
			def(3, tn("type", "Car"), 10), load(3, tn("type", "car")), getEntry(3, tn("type", "car")), discover(3, nameLower("car"))),
		// AddTypes
		cat(chain, addType(2, 11), load(3, tn("type", "myalias")), addType(2, 11), addType(3, 12), load(3, tn("type", "Foo::Car")), addType(2, 8), load(3, tn("type", "Integer")),
			addType(2, 10), discover(3, nsPred("type"))),
		seq(newDep(), newParented(1), newTypeSet(2, 0), addType(3, 11), load(3, tn("type", "MyAlias")), getEntry(2, tn("type", "MyAlias")), addType(3, 12), load(3, tn("type", "Foo::Car"))),
		// px.AddTypes of a type set / an object type: members, constructors, nested sets; after earlier misses (seeded change C12-m1);
		// members a parent or the loader itself already knows are not added again; the set's name is write-once
		cat(chain, addTypes(2, 0), load(3, tn("type", "Foo::Bus")), load(2, tn("constructor", "foo::bus")), load(3, tn("type", "Foo")), load(1, tn("type", "Foo::Zed")),
			discover(3, allPred()), getEntry(2, tn("type", "Foo::Car")), addTypes(2, 0), addTypes(3, 0), getEntry(3, tn("type", "Foo::Car")), getEntry(3, tn("type", "Foo")), discover(3, allPred())),
		cat(chain, load(2, tn("type", "Foo::Bus")), has(2, tn("type", "Foo::Bus")), addTypes(2, 0), load(2, tn("type", "Foo::Bus")), has(2, tn("type", "Foo::Bus")), load(2, tn("type", "foo::bus")),
			load(2, tn("constructor", "Foo::Bus")), getEntry(2, tn("type", "Foo::Bus"))),
		cat(chain, load(3, tn("type", "Foo::Zed")), load(3, tn("constructor", "Foo::Bus")), loadEntry(3, tn("type", "Foo::Car")), addTypes(3, 0), load(3, tn("type", "Foo::Zed")),
			load(3, tn("constructor", "Foo::Bus")), load(3, tn("type", "Foo::Car")), load(2, tn("type", "Foo::Zed")), discover(3, nsPred("constructor"))),
		cat(chain, load(3, tn("type", "Foo::Zed")), addTypes(2, 0), load(3, tn("type", "Foo::Zed")), getEntry(3, tn("type", "Foo::Zed")), getEntry(2, tn("type", "Foo::Zed"))),
		cat(chain, load(2, tn("type", "A::Sub::X")), load(2, tn("type", "A::Sub")), load(2, tn("constructor", "A::Sub::X")), load(2, tn("type", "A")), addTypes(2, 2), load(2, tn("type", "A::Sub::X")),
			load(2, tn("type", "A::Sub")), load(2, tn("constructor", "A::Sub::X")), load(2, tn("type", "A")), load(2, tn("type", "A::Sub::Y")), load(2, tn("constructor", "A::Aa")),
			discover(2, allPred())),
		cat(chain, def(2, tn("type", "Foo::Car"), 8), def(1, tn("type", "Foo::Zed"), 10), addTypes(3, 0), load(3, tn("type", "Foo::Car")), load(3, tn("type", "Foo::Zed")), load(3, tn("type", "Foo::Bus")),
			getEntry(3, tn("type", "Foo::Car")), getEntry(3, tn("type", "Foo::Zed")), discover(3, nsPred("type"))),
		cat(chain, addTypes(2, 0), addTypes(2, 3), load(2, tn("type", "Foo::Nope")), load(2, tn("type", "Foo::Car")), addTypes(2, 4), load(2, tn("type", "Foo::Other")), load(2, tn("type", "Foo")),
			addTypes(3, 4), load(3, tn("type", "Foo")), getEntry(3, tn("type", "Foo"))),
		cat(chain, def(2, tn("constructor", "Foo::Bus"), 0), addTypes(2, 0), load(2, tn("type", "Foo::Bus")), load(2, tn("type", "Foo::Zed")), load(2, tn("type", "Foo")), load(2, tn("constructor", "Foo::Bus"))),
		cat(chain, load(2, tn("type", "Car")), load(2, tn("constructor", "Car")), addTypes(2, 5), load(2, tn("type", "Car")), load(2, tn("constructor", "car")), addTypes(2, 5), addTypes(3, 5),
			getEntry(3, tn("constructor", "Car")), addTypes(2, 100+8, 6, 0, 100+11), load(3, tn("type", "Foo::Bus")), load(3, tn("type", "MyAlias")), load(3, tn("type", "Integer")), load(3, tn("type", "Foo::Zed"))),
		cat(chain, addTypes(2, 0), addTypes(2, 7), addTypes(2, 6), load(2, tn("type", "Foo::Car")), load(2, tn("constructor", "Foo::Car")), addTypes(1, 7), load(2, tn("type", "Foo::Car")),
			load(2, tn("constructor", "Foo::Car")), addTypes(9, 0)),
		seq(newDep(), newParented(1), newTypeSet(2, 0), load(3, tn("type", "Foo::Bus")), load(3, tn("type", "Foo::Foo::Bus")), addTypes(3, 0), load(3, tn("type", "Foo::Bus")), load(3, tn("type", "Foo::Foo::Bus")),
			getEntry(2, tn("type", "Foo::Bus")), getEntry(2, tn("type", "Foo::Zed")), addTypes(3, 1), load(3, tn("type", "Foo::Bar::Car")), load(3, tn("type", "Bar::Car")), discover(3, allPred()), discover(2, allPred())),
		seq(newParented(0), fork(1), load(2, tn("type", "Foo::Bus")), addTypes(2, 0, 5), load(2, tn("type", "Foo::Bus")), load(2, tn("type", "Car")), load(1, tn("type", "Foo::Bus")), discover(2, nameLower("foo::bus"))),
		// px.AddTypes that is rejected while the members of the type set are resolved (seeded change C12-m5: the context was left on
		// the type-set loader): the same context and forks of it afterwards; a name bound before keeps its value, the names of the
		// rejected set stay unresolvable; then the good set under the same name
		seq(newDep(), newParented(1), fork(2), def(3, tn("type", "Cage"), 11), load(3, tn("type", "Cage")), load(3, tn("type", "Keeper")), addTypes(3, 8),
			load(3, tn("type", "Cage")), load(3, tn("type", "Keeper")), has(3, tn("type", "Keeper")), load(3, tn("type", "Zoo::Keeper")), load(3, tn("type", "Zoo")),
			discover(3, allPred()), addTypes(3, 10), load(3, tn("type", "Zoo::Keeper")), load(3, tn("type", "Keeper")), load(3, tn("type", "Cage")), discover(3, allPred())),
		seq(newDep(), newParented(1), addTypes(2, 8), fork(2), load(3, tn("type", "Keeper")), load(2, tn("type", "Keeper")), newParented(2), load(4, tn("type", "Cage")),
			addTypes(3, 10), load(3, tn("type", "Zoo::Cage")), load(2, tn("type", "Zoo::Cage")), discover(3, allPred())),
		// ... in a nested set (two DoWithLoader calls running), after other types of the same call, through a type-set loader's context
		cat(chain, addTypes(3, 9), load(3, tn("type", "X")), load(3, tn("type", "Zoo::Sub::X")), load(3, tn("type", "Cage")), fork(3), load(4, tn("type", "Sub::X")), newParented(3),
			addTypes(3, 9), addTypes(3, 2), load(3, tn("type", "A::Sub::X")), discover(3, allPred()), discover(4, allPred())),
		cat(chain, addTypes(2, 5, 0, 8, 6), load(2, tn("type", "Car")), load(2, tn("constructor", "Car")), load(2, tn("type", "Foo::Bus")), load(2, tn("type", "Bus")), load(2, tn("type", "Cage")),
			load(2, tn("type", "Foo")), addTypes(2, 0), load(2, tn("type", "Foo::Bus")), load(2, tn("type", "Bus")), newParented(2), fork(2), load(5, tn("type", "Zed")), discover(2, allPred())),
		cat(chain, addTypes(2, 0), addTypes(2, 11), load(2, tn("type", "Zed")), load(2, tn("type", "Bus")), load(2, tn("type", "Foo::Bus")), has(2, tn("type", "Zed")), addTypes(2, 12),
			load(2, tn("type", "B")), load(2, tn("type", "Car")), addTypes(2, 2), load(2, tn("type", "A::B")), load(2, tn("type", "B")), fork(2), load(4, tn("type", "B"))),
		seq(newDep(), newParented(1), newTypeSet(2, 0), addTypes(3, 8), load(3, tn("type", "Keeper")), load(3, tn("type", "Car")), load(3, tn("type", "Zoo::Cage")), addTypes(3, 11),
			load(3, tn("type", "Zed")), load(3, tn("type", "Broken")), addTypes(3, 10), load(3, tn("type", "Zoo::Cage")), getEntry(2, tn("type", "Zoo::Cage")), discover(3, allPred())),
		// the declaration route (seeded change C12-m7: a declaration of a bound name was skipped): first declaration, equal value,
		// another letter case (alias types compare their names: a different value), different value; the verdicts of SetEntry and
		// px.AddTypes for the same history; several declarations at once, the rejected one in the middle; after a miss; a binding of
		// the parent / of the loader itself made by the other routes; through a type-set loader's context
		cat(chain, declare(2, 11), load(3, tn("type", "myalias")), declare(2, 13), declare(2, 11), declare(2, 14), load(3, tn("type", "MyAlias")), declare(2, 15),
			getEntry(2, tn("type", "MyAlias")), declare(3, 14), getEntry(3, tn("type", "MyAlias")), load(3, tn("type", "MyAlias")), declare(3, 15), declare(3, 14)),
		cat(chain, def(2, tn("type", "MyAlias"), 11), declare(2, 13), declare(2, 14), load(2, tn("type", "MyAlias")), addType(2, 14), def(2, tn("type", "myalias"), 14)),
		cat(chain, addType(2, 11), declare(2, 14), declare(2, 13), addType(2, 13), load(2, tn("type", "MyAlias")), discover(2, allPred())),
		cat(chain, declare(2, 11), def(2, tn("type", "MyAlias"), 14), addType(2, 14), def(2, tn("type", "MYALIAS"), 13), addType(2, 13), load(2, tn("type", "MyAlias"))),
		cat(chain, load(2, tn("type", "Late")), load(3, tn("type", "late")), declare(2, 18), load(2, tn("type", "Late")), load(3, tn("type", "late")), has(3, tn("type", "LATE")), declare(2, 19), declare(2, 20)),
		cat(chain, declare(2, 11), declare(2, 18, 14, 12), load(2, tn("type", "Late")), load(2, tn("type", "Foo::Car")), load(2, tn("type", "MyAlias")), declare(2, 12, 19, 13), load(2, tn("type", "Foo::Car")),
			declare(2, 16, 17), discover(2, nsPred("type"))),
		cat(chain, def(1, tn("type", "MyAlias"), 14), declare(2, 11), getEntry(2, tn("type", "MyAlias")), load(2, tn("type", "MyAlias")), declare(2, 14), declare(1, 11), declare(1, 14)),
		seq(newDep(), newParented(1), newTypeSet(2, 0), declare(3, 12), load(3, tn("type", "Foo::Car")), load(3, tn("type", "Car")), getEntry(2, tn("type", "Foo::Car")), declare(3, 17), declare(3, 16),
			declare(2, 17), declare(3, 11, 14), load(3, tn("type", "MyAlias")), declare(9, 11)),
		seq(newParented(0), fork(1), declare(2, 11), load(2, tn("type", "MyAlias")), declare(1, 14), load(2, tn("type", "MyAlias")), getEntry(2, tn("type", "MyAlias")), declare(2, 14), declare(1, 11)),
		// load-entry / get-entry distinguish an absent entry from a cached miss; both are misses
		cat(chain, loadEntry(3, a), getEntry(3, a), load(3, a), getEntry(3, a), loadEntry(3, a), getEntry(1, a), getEntry(2, a)),
		// the guard of C12_full_stable_resolution_name / C12_full_discover_complete is needed (C12_full_guard_needed on the real
		// loaders): Foo::Nope resolves through the type-set loader of Foo as the relative name Nope; an ancestor then gains a
		// binding of `nope` - not of `foo::nope` - and the value changes; Foo::Nope resolves and Discover does not list it
		seq(newDep(), newParented(1), newTypeSet(2, 0), def(2, tn("type", "Nope"), 0), load(3, tn("type", "Foo::Nope")), has(3, tn("type", "foo::nope")), discover(3, allPred()),
			def(1, tn("type", "Nope"), 1), load(3, tn("type", "Foo::Nope")), load(3, tn("type", "Nope")), discover(3, allPred()), discover(3, nameLower("foo::nope"))),
		// stable resolution by name across the other definition routes: Foo::Bus is found through l3, then px.AddTypes, declarations
		// and definitions of OTHER names through l3 and its ancestors, a fork and px.AddTypes through the fork; found again
		cat(chain, addTypes(2, 0), load(3, tn("type", "Foo::Bus")), load(3, tn("type", "Zed")), declare(2, 11), declare(1, 18), def(1, tn("type", "Other"), 8), addTypes(1, 5), addTypes(3, 2),
			fork(3), addTypes(4, 0), load(3, tn("type", "Foo::Bus")), load(4, tn("type", "foo::bus")), load(3, tn("type", "MyAlias")), discover(3, nsPred("type")), discover(4, nsPred("type"))),
		// the namespace clause (Properties/C12Ns.v): the history of C12_namespace_nonvacuous - `a` is looked up and bound under the
		// namespaces x, function and type through a chain and a type-set loader, every namespace keeps its own value - and of
		// C12_namespace_case_folded - MapKey folds the letter case of the namespace too: a binding under X answers a lookup under x
		seq(newDep(), newParented(1), newTypeSet(2, 0), load(2, tn("function", "A")), load(3, tn("type", "a")), def(1, tn("function", "A"), 1), load(2, a), def(2, tn("type", "a"), 2),
			def(2, a, 0), has(3, tn("function", "A")), def(2, tn("function", "A"), 2), loadEntry(3, tn("type", "a")), discover(3, allPred()), load(3, tn("x", "Foo::a")),
			load(3, tn("function", "A")), load(3, tn("type", "a")), def(3, a, 1)),
		seq(newDep(), def(1, tn("X", "a"), 0), load(1, a), has(1, a), load(1, tn("function", "a")), def(1, tn("function", "a"), 1), load(1, a), load(1, tn("function", "a")),
			discover(1, nsPred("x")), discover(1, nsPred("X"))),
	}
	for _, h := range hs {
		r.check(h, cf, true, "corpus")
	}
	r.res.CorrFiles = append(r.res.CorrFiles, cf.WriteTo(r.cfg.Out, "cases_corpus"))
}

type shape struct {
	name    string
	short   int  // the exhaustive length is reduced by this much
	deep    bool // enumerated one step longer in the thorough tier
	setup   []opT
	loaders []int
	names   []tname
	vals    []int
	preds   []predT
	adds    [][]int // AddTypes argument lists of the alphabet
	loadAll bool    // the observers load every name through every loader (not only the innermost)
	forks   []int   // the alphabet holds a Fork of these loaders followed by a Load of every name through the fork
	decls   [][]int // Declare argument lists (values of the table) of the alphabet
}

func shapes() []shape {
	return []shape{
		{"fresh-chain", 0, true, seq(newDep(), newParented(1), newParented(2)), []int{1, 2, 3}, []tname{tn("x", "a"), tn("x", "A"), tn("x", "b")}, []int{0, 1},
			[]predT{allPred()}, nil, false, nil, nil},
		{"static-chain", 1, true, seq(newParented(0), fork(1)), []int{1, 2}, []tname{tn("type", "Integer"), tn("type", "integer"), tn("x", "a")}, []int{8, 10},
			[]predT{nsPred("x"), nameLower("integer")}, nil, false, nil, nil},
		{"typeset-leaf", 0, true, seq(newDep(), newParented(1), newTypeSet(2, 0)), []int{2, 3}, []tname{tn("type", "Car"), tn("type", "foo::car"), tn("type", "Foo::Nope"), tn("type", "nope")},
			[]int{8, 10}, []predT{allPred()}, nil, false, nil, nil},
		{"typeset-inner", 0, false, seq(newDep(), newTypeSet(1, 0), newParented(2)), []int{1, 2, 3}, []tname{tn("type", "car"), tn("type", "Foo::Car"), tn("type", "b")}, []int{4, 5},
			[]predT{allPred()}, nil, false, nil, nil},
		{"eq-values", 0, false, seq(newDep(), newParented(1)), []int{1, 2}, []tname{tn("x", "a"), tn("type", "A")}, []int{4, 5, 6, 8, 9},
			[]predT{allPred()}, nil, false, nil, nil},
		// px.AddTypes of a type set (members, object member with constructor) and of an object type, between lookups and
		// definitions of the names they bind
		{"addtypes-chain", 0, false, seq(newDep(), newParented(1), newParented(2)), []int{2, 3},
			[]tname{tn("type", "Foo::Bus"), tn("constructor", "foo::bus"), tn("type", "Foo")}, []int{10}, []predT{allPred()}, [][]int{{0}, {6}, {4}}, false, nil, nil},
		{"addtypes-nested", 1, true, seq(newDep(), newParented(1), newTypeSet(2, 2)), []int{2, 3},
			[]tname{tn("type", "A::Sub::X"), tn("type", "A::Sub"), tn("constructor", "A::Sub::X"), tn("type", "A::B"), tn("type", "Sub::X")}, []int{8}, []predT{allPred()}, [][]int{{2}, {2, 5}}, false, nil, nil},
		// px.AddTypes that is rejected (a member of the set cannot be resolved; nested), the good set of the same name, lookups and
		// definitions of the members' names - unqualified too - through the same contexts and through forks made afterwards
		{"addtypes-rejected", 0, false, seq(newDep(), newParented(1), fork(2)), []int{2, 3},
			[]tname{tn("type", "Cage"), tn("type", "Zoo::Keeper")}, []int{11}, []predT{allPred()}, [][]int{{8}, {10}}, true, []int{3}, nil},
		{"addtypes-rejected-mixed", 1, true, seq(newDep(), newParented(1), newTypeSet(2, 0)), []int{2, 3},
			[]tname{tn("type", "Zed"), tn("type", "Foo::Bus"), tn("type", "Bus")}, []int{10}, []predT{allPred()}, [][]int{{11}, {0}, {5, 11}, {12}}, true, []int{2, 3}, nil},
		// the declaration route between lookups and definitions (SetEntry, px.AddTypes of the same alias types) of the names it
		// binds: equal and different values, the name in another letter case, two declarations at once
		{"declare-chain", 0, false, seq(newDep(), newParented(1), newParented(2)), []int{2, 3},
			[]tname{tn("type", "MyAlias"), tn("type", "late")}, []int{14}, []predT{allPred()}, [][]int{{100 + 13}}, true, nil,
			[][]int{{11}, {14}, {15}, {18, 14}}},
	}
}

func (s shape) alphabet() []opT {
	al := []opT{}
	for _, l := range s.loaders {
		for _, n := range s.names {
			for _, v := range s.vals {
				al = append(al, def(l, n, v))
			}
			// the side-effect free queries (has, get-entry, discover) are not part of the alphabet: the
			// observers appended to every history ask all of them, and every prefix is enumerated too
			al = append(al, load(l, n), loadEntry(l, n))
		}
		for _, a := range s.adds {
			al = append(al, addTypes(l, a...))
		}
		for _, d := range s.decls {
			al = append(al, declare(l, d...))
		}
	}
	for _, l := range s.forks {
		al = append(al, fork(l))
	}
	return al
}

// observers: side-effect free queries first, then a Load of every name through the innermost loader
func (s shape) observers() []opT {
	ops := []opT{}
	for _, l := range s.loaders {
		for _, p := range s.preds {
			ops = append(ops, discover(l, p))
		}
		for _, n := range s.names {
			ops = append(ops, has(l, n), getEntry(l, n))
		}
	}
	last := s.loaders[len(s.loaders)-1]
	if s.loadAll {
		for _, l := range s.loaders[:len(s.loaders)-1] {
			for _, n := range s.names {
				ops = append(ops, load(l, n))
			}
		}
	}
	for _, n := range s.names {
		ops = append(ops, load(last, n))
	}
	for _, p := range s.preds {
		ops = append(ops, discover(last, p))
	}
	return ops
}

func (r *runner) exhaustive() {
	cf := newCases()
	coqBudget := 230
	if r.cfg.Thorough() {
		coqBudget = 1800
	}
	lenOf := func(s shape) int {
		if r.cfg.Thorough() && s.deep {
			return 4 - s.short
		}
		return 3 - s.short
	}
	maxLen := 3
	if r.cfg.Thorough() {
		maxLen = 4
	}
	total := 0
	for _, s := range shapes() {
		n := len(s.alphabet())
		p := 1
		for l := 1; l <= lenOf(s); l++ {
			p *= n
			total += p
		}
	}
	stride := total/coqBudget + 1
	idx := 0
	for _, s := range shapes() {
		al := s.alphabet()
		obs := s.observers()
		var rec func(seqn []opT, l int)
		rec = func(seqn []opT, l int) {
			if len(seqn) == l {
				idx++
				ops := cat(s.setup, seqn...)
				// the loaders of the forks made on the way: every name through each of them
				nl := len(s.setup) + 1
				for _, o := range seqn {
					if o.Kind == "Fork" {
						for _, n := range s.names {
							ops = append(ops, load(nl, n))
						}
						nl++
					}
				}
				ops = append(ops, obs...)
				r.check(ops, cf, idx%stride == 0, "exhaustive."+s.name)
				return
			}
			for _, o := range al {
				rec(append(seqn, o), l)
			}
		}
		for l := 1; l <= lenOf(s); l++ {
			rec(nil, l)
		}
	}
	r.res.Extra["exhaustive_histories"] = idx
	r.res.Extra["exhaustive_max_len"] = maxLen
	r.res.Exhaustive = true
	r.res.CorrFiles = append(r.res.CorrFiles, cf.WriteTo(r.cfg.Out, "cases_exhaustive"))
}

func randomHistory(r *lib.Rng, n int) []opT {
	pool := namePool()
	ops := []opT{}
	nl := 1                // loader 0 = static
	target := []int{0}     // the loader that receives definitions made through loader l (type-set loaders define into their parent)
	static := []bool{true} // rooted at the static loader: Discover predicates are kept selective (167 core entries)
	// a few hot names so that histories revisit the same entries
	vals := []int{0, 1, 2, 3, 4, 5, 6, 7, 8, 9, 10, 11, 12, 14, 18}
	aliasVals := []int{8, 10, 11, 12, 13, 14, 18}
	hot := []tname{}
	// one history in three revolves around the names px.AddTypes binds
	focus := r.Chance(1, 3)
	an := addNames()
	for i := 0; i < 4; i++ {
		if focus {
			hot = append(hot, an[r.Intn(len(an))])
		} else {
			hot = append(hot, pool[r.Intn(len(pool))])
		}
	}
	addItems := func() []int {
		k := 1
		if r.Chance(1, 4) {
			k = 2 + r.Intn(2)
		}
		items := make([]int, k)
		for i := range items {
			if r.Chance(1, 5) {
				items[i] = 100 + aliasVals[r.Intn(len(aliasVals))]
			} else {
				items[i] = r.Intn(len(addDecls))
			}
		}
		return items
	}
	pick := func() tname {
		if r.Chance(3, 4) {
			return hot[r.Intn(len(hot))]
		}
		return pool[r.Intn(len(pool))]
	}
	for len(ops) < n {
		l := r.Intn(nl)
		x := r.Intn(100)
		if nl < 2 || (nl < 7 && x < 12) {
			switch y := r.Intn(10); {
			case y < 3:
				ops = append(ops, newDep())
			case y < 6:
				ops = append(ops, newParented(l))
			case y < 8:
				ops = append(ops, fork(l))
			case target[l] != 0:
				ops = append(ops, newTypeSet(l, r.Intn(len(tsets))))
			default:
				// never a type-set loader defining into the (shared) static loader
				ops = append(ops, newParented(l))
			}
			if ops[len(ops)-1].Kind == "NewTypeSet" {
				target = append(target, target[l])
			} else {
				target = append(target, nl)
			}
			static = append(static, ops[len(ops)-1].Kind != "NewDep" && static[l])
			nl++
			continue
		}
		if l == 0 {
			// the static loader is shared by all histories: never written to, never loaded through directly
			// (px.Load would cache a miss in it)
			switch {
			case x < 50:
				ops = append(ops, has(0, pick()))
			case x < 80:
				ops = append(ops, getEntry(0, pick()))
			case x < 90:
				ops = append(ops, loadEntry(0, pick()))
			default:
				ops = append(ops, discover(0, predPool[4+r.Intn(4)]))
			}
			continue
		}
		switch {
		case x < 34 && !focus, x < 26:
			ops = append(ops, def(l, pick(), vals[r.Intn(len(vals))]))
		case x < 36 && !focus, x < 29:
			ops = append(ops, addType(l, aliasVals[r.Intn(len(aliasVals))]))
		case x < 40 && !focus, x < 46:
			ops = append(ops, addTypes(l, addItems()...))
		case x < 47 && !focus, x < 50:
			// declarations: mostly one, the names of the alias values recur (MyAlias, Foo::Car, Late in two letter cases)
			k := 1
			if r.Chance(1, 4) {
				k = 2 + r.Intn(2)
			}
			ds := make([]int, k)
			for i := range ds {
				ds[i] = declVals[r.Intn(len(declVals))]
			}
			ops = append(ops, declare(l, ds...))
		case x < 62:
			ops = append(ops, load(l, pick()))
		case x < 70:
			ops = append(ops, loadEntry(l, pick()))
		case x < 76:
			ops = append(ops, getEntry(l, pick()))
		case x < 88:
			ops = append(ops, has(l, pick()))
		default:
			if static[l] {
				ops = append(ops, discover(l, append(predPool[4:8], nsPred("x"))[r.Intn(5)]))
			} else {
				ops = append(ops, discover(l, predPool[r.Intn(len(predPool))]))
			}
		}
	}
	// closing observation of every loader
	for l := 1; l < nl; l++ {
		ops = append(ops, discover(l, nsPred("x")))
		if !static[l] {
			ops = append(ops, discover(l, allPred()))
		}
		for _, h := range hot {
			ops = append(ops, has(l, h), load(l, h))
		}
	}
	return ops
}

func (r *runner) random(rng *lib.Rng) {
	// the histories sent to the model are spread over several files (evaluated in parallel by the driver)
	n, files, perFile := 12000, 2, 56
	if r.cfg.Thorough() {
		n, files, perFile = 400000, 6, 400
	}
	cfs := make([]*lib.CasesFile, files)
	for i := range cfs {
		cfs[i] = newCases()
	}
	for i := 0; i < n; i++ {
		g := rng.Fork()
		r.check(randomHistory(g, 6+g.Intn(45)), cfs[i%files], i < files*perFile, "random")
	}
	for i, cf := range cfs {
		r.res.CorrFiles = append(r.res.CorrFiles, cf.WriteTo(r.cfg.Out, fmt.Sprintf("cases_random%d", i)))
	}
}
