package main

import (
	"fmt"
	"runtime"
	"sort"
	"strings"

	"github.com/lyraproj/issue/issue"
	"github.com/lyraproj/pcore/pcore"
	"github.com/lyraproj/pcore/px"
	"github.com/lyraproj/pcore/types"
	"verifharness/lib"
)

// ---- values bound to names -------------------------------------------------------------------
// Three kinds, as basicLoader.SetEntry distinguishes them (loader.go:118): plain pointers (equal iff
// identical), px.Equality implementers (equal iff the OLD value's Equals accepts the new one) and
// px.Type values (Equality + the AttemptToRedefineType error code).

type plainThing struct{ id int }

type eqThing struct{ class, id int }

func (e *eqThing) Equals(other interface{}, g px.Guard) bool {
	o, ok := other.(*eqThing)
	return ok && o.class == e.class
}

type valInfo struct {
	v   interface{}
	id  int
	cls int // -1: no px.Equality
	ty  bool
}

var vtable = map[int]*valInfo{}
var vindex = map[interface{}]int{}

func addVal(id int, v interface{}, cls int, ty bool) int {
	if old, ok := vindex[v]; ok {
		return old
	}
	vtable[id] = &valInfo{v, id, cls, ty}
	vindex[v] = id
	return id
}

var gValCache = map[int]string{}
var gKeyCache = map[string]string{}

// gKey prints a map key as a Gallina `str` (memoised: the same few keys recur in every Discover output)
func gKey(k string) string {
	if s, ok := gKeyCache[k]; ok {
		return s
	}
	s := lib.GStr(k)
	gKeyCache[k] = s
	return s
}

// gVal prints a value of the table as a Gallina `val`.
func gVal(id int) string {
	if s, ok := gValCache[id]; ok {
		return s
	}
	s := gVal0(id)
	gValCache[id] = s
	return s
}

func gVal0(id int) string {
	vi, ok := vtable[id]
	if !ok {
		vi, ok = dynInfo[id]
	}
	if !ok {
		return fmt.Sprintf("(mkV %d None false)", 999999)
	}
	cls := "None"
	if vi.cls >= 0 {
		cls = fmt.Sprintf("(Some %d%%N)", vi.cls)
	}
	return fmt.Sprintf("(mkV %d %s %s)", vi.id, cls, lib.GBool(vi.ty))
}

// valOf maps an observed value to its table id (-1: a value the harness never created).
func valOf(v interface{}) int {
	defer func() { _ = recover() }() // unhashable dynamic type
	if id, ok := vindex[v]; ok {
		return id
	}
	if id, ok := dynIndex[v]; ok {
		return id
	}
	return -1
}

// ---- typed names -----------------------------------------------------------------------------

var authorities = []px.URI{px.RuntimeNameAuthority, px.URI(`http://example.com/other`)}

type tname struct {
	Auth int    `json:"auth,omitempty"`
	Ns   string `json:"ns"`
	Name string `json:"name"`
}

func (n tname) impl() px.TypedName {
	return px.NewTypedName2(px.Namespace(n.Ns), n.Name, authorities[n.Auth])
}

var nsSym = map[string]string{"type": "NsT", "function": "NsF", "x": "NsX", "constructor": "NsC", "allocator": "NsA"}

func (n tname) gallina() string {
	ns, ok := nsSym[n.Ns]
	if !ok {
		ns = lib.GStr(n.Ns)
	}
	return fmt.Sprintf("(mkTn A%d %s %s)", n.Auth, ns, lib.GStr(n.Name))
}

func (n tname) String() string {
	a := ""
	if n.Auth != 0 {
		a = fmt.Sprintf("auth%d/", n.Auth)
	}
	return a + n.Ns + "/" + n.Name
}

// mapKey is the harness' own statement of TypedName.MapKey (typedname.go:230) for ASCII names; it is
// cross-checked against the implementation on every name used (checkName).
func (n tname) mapKey() string {
	return strings.ToLower(string(authorities[n.Auth]) + "/" + n.Ns + "/" + strings.TrimPrefix(n.Name, "::"))
}

func (n tname) parts() []string {
	return strings.Split(strings.ToLower(strings.TrimPrefix(n.Name, "::")), "::")
}

// ---- predicates for Discover -----------------------------------------------------------------

type predT struct {
	Kind string `json:"kind"` // All | Ns | NameLower | Qualified
	S    string `json:"s,omitempty"`
}

func (p predT) impl() func(px.TypedName) bool {
	switch p.Kind {
	case "All":
		return func(px.TypedName) bool { return true }
	case "Ns":
		return func(tn px.TypedName) bool { return string(tn.Namespace()) == p.S }
	case "NameLower":
		return func(tn px.TypedName) bool { return strings.ToLower(tn.Name()) == p.S }
	case "Qualified":
		return func(tn px.TypedName) bool { return tn.IsQualified() }
	}
	panic("bad predicate")
}

// onKey evaluates the predicate on a map key (reference side).
func (p predT) onKey(k string) bool {
	i := strings.LastIndexByte(k, '/')
	name := k[i+1:]
	pfx := k[:i]
	j := strings.LastIndexByte(pfx, '/')
	ns := pfx[j+1:]
	switch p.Kind {
	case "All":
		return true
	case "Ns":
		return ns == p.S
	case "NameLower":
		return name == p.S
	case "Qualified":
		return strings.Contains(name, "::")
	}
	panic("bad predicate")
}

func (p predT) gallina() string {
	switch p.Kind {
	case "All":
		return "PAll"
	case "Ns":
		if s, ok := nsSym[p.S]; ok {
			return "(PNs " + s + ")"
		}
		return "(PNs " + lib.GStr(p.S) + ")"
	case "NameLower":
		return "(PNameLower " + lib.GStr(p.S) + ")"
	case "Qualified":
		return "PQualified"
	}
	panic("bad predicate")
}

// ---- operations ------------------------------------------------------------------------------

type opT struct {
	Kind string `json:"op"` // NewParented Fork NewTypeSet NewDep Define Load LoadEntry GetEntry Has Discover AddType AddTypes
	L    int    `json:"l"`
	A    []int  `json:"a,omitempty"` // AddTypes: the types handed to px.AddTypes (item < 100: declaration addDecls[item], parsed afresh; else the value item-100 of the table); Declare: the declared types (values item-100 of the table)
	T    int    `json:"t,omitempty"`
	N    tname  `json:"n,omitempty"`
	V    int    `json:"v,omitempty"`
	P    predT  `json:"p,omitempty"`
}

// gallina: the operation as a term of the model, l = the model's index of loader o.L
func (o opT) gallina(l int) string {
	switch o.Kind {
	case "NewParented":
		return fmt.Sprintf("ONewParented %d", l)
	case "Fork":
		return fmt.Sprintf("OFork %d", l)
	case "NewTypeSet":
		return fmt.Sprintf("ONewTypeSet %d %d", l, o.T)
	case "NewDep":
		return "ONewDep"
	case "Define", "AddType":
		return fmt.Sprintf("ODefine %d %s %s", l, o.N.gallina(), gVal(o.V))
	case "Load":
		return fmt.Sprintf("OLoad %d %s", l, o.N.gallina())
	case "LoadEntry":
		return fmt.Sprintf("OLoadEntry %d %s", l, o.N.gallina())
	case "GetEntry":
		return fmt.Sprintf("OGetEntry %d %s", l, o.N.gallina())
	case "Has":
		return fmt.Sprintf("OHas %d %s", l, o.N.gallina())
	case "Discover":
		return fmt.Sprintf("ODiscover %d %s", l, o.P.gallina())
	}
	panic("bad op " + o.Kind)
}

func (o opT) String() string {
	switch o.Kind {
	case "NewParented", "Fork":
		return fmt.Sprintf("%s(l%d)", o.Kind, o.L)
	case "NewTypeSet":
		return fmt.Sprintf("NewTypeSet(l%d,ts%d)", o.L, o.T)
	case "NewDep":
		return "NewDep()"
	case "Define", "AddType":
		return fmt.Sprintf("%s(l%d,%s,v%d)", o.Kind, o.L, o.N, o.V)
	case "Discover":
		return fmt.Sprintf("Discover(l%d,%s%s)", o.L, o.P.Kind, o.P.S)
	case "Declare":
		ns := make([]string, len(o.A))
		for i, a := range o.A {
			ns[i] = fmt.Sprintf("v%d", a-100)
		}
		return fmt.Sprintf("Declare(l%d,[%s])", o.L, strings.Join(ns, ","))
	case "AddTypes":
		ns := make([]string, len(o.A))
		for i, a := range o.A {
			if a < 100 {
				ns[i] = addDecls[a].label
			} else {
				ns[i] = fmt.Sprintf("v%d", a-100)
			}
		}
		return fmt.Sprintf("AddTypes(l%d,[%s])", o.L, strings.Join(ns, ","))
	}
	return fmt.Sprintf("%s(l%d,%s)", o.Kind, o.L, o.N)
}

func opsText(ops []opT) []string {
	r := make([]string, len(ops))
	for i, o := range ops {
		r[i] = o.String()
	}
	return r
}

// ---- the fixed universe: values, type sets, the static loader's content -----------------------

type tsetInfo struct {
	ts    px.TypeSet
	auth  int
	name  string
	types []tsType // declaration order
}
type tsType struct {
	name string
	val  int
}

var tsets []*tsetInfo

type staticEntry struct {
	key string
	val int
}

var staticEntries []staticEntry

var tsetDecls = []struct{ name, body string }{
	{"Foo", `Zed => Integer[1,2], Car => String, Bus => Object[attributes => {a => Integer}]`},
	{"Foo::Bar", `Car => Integer[3,4], A => String[1]`},
	{"A", `B => Integer[5,6], Aa => Integer[7,8]`},
}

func setupUniverse(c px.Context) {
	for i := 0; i < 4; i++ {
		addVal(i, &plainThing{i}, -1, false)
	}
	addVal(4, &eqThing{0, 4}, 0, false)
	addVal(5, &eqThing{0, 5}, 0, false)
	addVal(6, &eqThing{1, 6}, 1, false)
	addVal(7, &eqThing{1, 7}, 1, false)
	addVal(8, types.NewIntegerType(1, 2), 20, true)
	addVal(9, types.NewIntegerType(1, 2), 20, true)
	addVal(10, types.NewIntegerType(3, 4), 21, true)
	addVal(11, types.NewTypeAliasType(`MyAlias`, nil, types.NewIntegerType(1, 2)), 22, true)
	addVal(12, types.NewTypeAliasType(`Foo::Car`, nil, types.NewIntegerType(1, 3)), 23, true)
	// resolved alias types for the declaration route (px.RegisterResolvableType): an equal and a different value under the
	// names of 11 and 12, and the names in another letter case (one entry; TypeAliasType.Equals compares the name too, so
	// these are different values).  The classes are checked against px.Equality at start-up (checkAliasClasses).
	addVal(13, types.NewTypeAliasType(`MyAlias`, nil, types.NewIntegerType(1, 2)), 22, true)
	addVal(14, types.NewTypeAliasType(`MyAlias`, nil, types.DefaultStringType()), 24, true)
	addVal(15, types.NewTypeAliasType(`MYALIAS`, nil, types.NewIntegerType(1, 2)), 25, true)
	addVal(16, types.NewTypeAliasType(`Foo::Car`, nil, types.NewIntegerType(1, 3)), 23, true)
	addVal(17, types.NewTypeAliasType(`foo::car`, nil, types.DefaultStringType()), 26, true)
	addVal(18, types.NewTypeAliasType(`Late`, nil, types.NewIntegerType(1, 2)), 27, true)
	addVal(19, types.NewTypeAliasType(`Late`, nil, types.NewIntegerType(1, 2)), 27, true)
	addVal(20, types.NewTypeAliasType(`late`, nil, types.DefaultStringType()), 28, true)

	// the static loader (read only in all histories): keys and value identities
	all := func(px.TypedName) bool { return true }
	next := 1000
	for _, tn := range px.StaticLoader().Discover(c, all) {
		e := px.StaticLoader().GetEntry(tn)
		id := addVal(next, e.Value(), next, true)
		next++
		staticEntries = append(staticEntries, staticEntry{tn.MapKey(), id})
	}
	sort.Slice(staticEntries, func(i, j int) bool { return staticEntries[i].key < staticEntries[j].key })

	next = 100
	for _, d := range tsetDecls {
		t := c.ParseType(fmt.Sprintf(`TypeSet[{name => '%s', version => '1.0.0', pcore_version => '1.0.0', types => { %s }}]`, d.name, d.body))
		t = t.(px.ResolvableType).Resolve(c)
		ts := t.(px.TypeSet)
		ti := &tsetInfo{ts: ts, auth: 0, name: d.name}
		ts.Types().EachPair(func(k, v px.Value) {
			id := addVal(next, v, next, true)
			next++
			ti.types = append(ti.types, tsType{k.String(), id})
		})
		tsets = append(tsets, ti)
	}
}

// prelude of every cases file: the authorities, namespaces, the static loader's content and the type sets
func gallinaPrelude() string {
	var b strings.Builder
	for i, a := range authorities {
		fmt.Fprintf(&b, "Definition A%d : str := %s.\n", i, lib.GStr(string(a)))
	}
	for ns, sym := range nsSym {
		_ = ns
		_ = sym
	}
	b.WriteString("Definition NsT : str := " + lib.GStr("type") + ".\n")
	b.WriteString("Definition NsF : str := " + lib.GStr("function") + ".\n")
	b.WriteString("Definition NsX : str := " + lib.GStr("x") + ".\n")
	b.WriteString("Definition NsC : str := " + lib.GStr("constructor") + ".\n")
	b.WriteString("Definition NsA : str := " + lib.GStr("allocator") + ".\n")
	es := make([]string, len(staticEntries))
	for i, e := range staticEntries {
		es[i] = lib.GPair(lib.GStr(e.key), gVal(e.val))
	}
	b.WriteString("Definition static_entries : list (str * val) :=\n " + lib.GList(es, "str * val") + ".\n")
	tss := make([]string, len(tsets))
	for i, t := range tsets {
		tys := make([]string, len(t.types))
		for j, ty := range t.types {
			tys[j] = lib.GPair(lib.GStr(ty.name), gVal(ty.val))
		}
		tss[i] = fmt.Sprintf("(mkTs A%d %s %s)", t.auth, lib.GStr(t.name), lib.GList(tys, "str * val"))
	}
	b.WriteString("Definition tsets : list tset :=\n " + lib.GList(tss, "tset") + ".\n")
	b.WriteString("Definition cfg : config := mkCfg A0 static_entries tsets.\n")
	return b.String()
}

// ---- running a history on the implementation ---------------------------------------------------

type world struct {
	c       px.Context
	loaders []px.Loader
	ctxs    []px.Context
	typeset []bool
	parent  []int
	lastAdd    []*mtypeT // the types of the last AddTypes operation, as the harness saw them
	lastHidden int       // the type-set loaders it made (resolution of type sets): loaders of the model, out of reach here
	hidden     int       // ... so far
	midx       []int     // the model's index of loader l
	ninst      int       // declarations parsed so far in this history
}

// ml: the model's index of loader l at this point of the history (an index out of range stays out of range)
func (w *world) ml(l int) int {
	if l >= 0 && l < len(w.midx) {
		return w.midx[l]
	}
	return l + w.hidden
}

func newWorld(c px.Context) *world {
	dynIndex = map[interface{}]int{}
	return &world{c: c, loaders: []px.Loader{px.StaticLoader()}, ctxs: []px.Context{nil}, typeset: []bool{false}, parent: []int{-1}, midx: []int{0}}
}

// Every loader of a history but the (shared) static one has a context of its own that lives as long as the history:
// the forked context for a loader made by Fork, else a context made for the loader.  All operations "through loader l"
// (px.Load, Fork, px.AddTypes, and the context argument of LoadEntry/Discover) use that context, so what an operation
// leaves behind in the context - the loader it holds - is met by the operations that follow.
func (w *world) with(l int, f func(c px.Context)) {
	if w.ctxs[l] != nil {
		f(w.ctxs[l])
		return
	}
	w.c.DoWithLoader(w.loaders[l], func() { f(w.c) })
}

// ctxLoader: the model's number of the loader that the context of loader l holds (999999: a loader out of reach,
// e.g. a type-set loader made by the resolution of a type set)
func (w *world) ctxLoader(l int) int {
	if l < 0 || l >= len(w.loaders) || w.ctxs[l] == nil {
		return w.ml(l)
	}
	cl := w.ctxs[l].Loader()
	for j, x := range w.loaders {
		if x == cl {
			return w.midx[j]
		}
	}
	return 999999
}

func (w *world) add(l px.Loader, c px.Context, parent int, typeset bool) string {
	if c == nil {
		c = pcore.WithParent(w.c, l, w.c.Logger(), w.c.ImplementationRegistry())
	}
	w.loaders = append(w.loaders, l)
	w.ctxs = append(w.ctxs, c)
	w.parent = append(w.parent, parent)
	w.typeset = append(w.typeset, typeset)
	w.midx = append(w.midx, len(w.loaders)-1+w.hidden) // the model counts the hidden loaders too
	return fmt.Sprintf("RNew %d", len(w.loaders)-1)
}

func gEntry(e px.LoaderEntry) string {
	if e == nil {
		return "ENone"
	}
	v := e.Value()
	if v == nil {
		return "EPlaceholder"
	}
	return "(EVal " + gVal(valOf(v)) + ")"
}

func classifyPanic(r interface{}) string {
	if _, ok := r.(runtime.Error); ok {
		return "RFault"
	}
	if rep, ok := r.(issue.Reported); ok {
		switch rep.Code() {
		case px.AttemptToRedefine:
			return "RErr ERedefine"
		case px.AttemptToRedefineType:
			return "RErr ERedefineType"
		}
		return "RErr (EOther (* " + string(rep.Code()) + " *))"
	}
	return "RFault (* panic " + strings.ReplaceAll(fmt.Sprintf("%T", r), "*", "") + " *)"
}

// apply runs one operation on the real loaders; the result is the Gallina term of type `out`.
func (w *world) apply(o opT) (res string) {
	defer func() {
		if r := recover(); r != nil {
			res = classifyPanic(r)
		}
	}()
	if o.Kind == "NewDep" {
		return w.add(px.NewDependencyLoader(nil), nil, -1, false)
	}
	if o.Kind == "AddTypes" {
		return w.applyAddTypes(o)
	}
	if o.Kind == "Declare" {
		return w.applyDeclare(o)
	}
	if o.L < 0 || o.L >= len(w.loaders) {
		return "RBadLoader"
	}
	l := w.loaders[o.L]
	switch o.Kind {
	case "NewParented":
		return w.add(px.NewParentedLoader(l), nil, o.L, false)
	case "Fork":
		var cf px.Context
		w.with(o.L, func(c px.Context) { cf = c.Fork() })
		if pl, ok := cf.Loader().(px.ParentedLoader); !ok || pl.Parent() != l {
			return "RBadLoader (* Fork: the new loader is not parented by the loader of the forked context *)"
		}
		return w.add(cf.Loader(), cf, o.L, false)
	case "NewTypeSet":
		return w.add(px.NewTypeSetLoader(l, tsets[o.T].ts), nil, o.L, true)
	case "Define":
		e := l.(px.DefiningLoader).SetEntry(o.N.impl(), px.NewLoaderEntry(vtable[o.V].v, nil))
		return "RDefined " + gVal(valOf(e.Value()))
	case "AddType":
		// px.AddTypes: the type is bound under NsType/<its name> in the context's defining loader
		t := vtable[o.V].v.(px.Type)
		w.with(o.L, func(c px.Context) { px.AddTypes(c, t) })
		tg := o.L
		for w.typeset[tg] {
			tg = w.parent[tg]
		}
		return "RDefined " + gVal(valOf(w.loaders[tg].GetEntry(px.NewTypedName(px.NsType, t.Name())).Value()))
	case "Load":
		var v interface{}
		var ok bool
		w.with(o.L, func(c px.Context) { v, ok = px.Load(c, o.N.impl()) })
		if !ok {
			if v != nil {
				return "RFault (* Load: not found but a value *)"
			}
			return "RFound None"
		}
		return "RFound (Some " + gVal(valOf(v)) + ")"
	case "LoadEntry":
		var e px.LoaderEntry
		w.with(o.L, func(c px.Context) { e = l.LoadEntry(c, o.N.impl()) })
		return "REntry " + gEntry(e)
	case "GetEntry":
		return "REntry " + gEntry(l.GetEntry(o.N.impl()))
	case "Has":
		return "RBool " + lib.GBool(l.HasEntry(o.N.impl()))
	case "Discover":
		var found []px.TypedName
		w.with(o.L, func(c px.Context) { found = l.Discover(c, o.P.impl()) })
		ks := make([]string, len(found))
		for i, tn := range found {
			ks[i] = gKey(tn.MapKey())
		}
		return "RNames " + lib.GList(ks, "str")
	}
	panic("bad op " + o.Kind)
}

// checkName cross-checks the harness' notion of MapKey/Parts with the implementation's.
func checkName(n tname) string {
	tn := n.impl()
	if tn.MapKey() != n.mapKey() {
		return fmt.Sprintf("MapKey(%s) = %q, expected %q", n, tn.MapKey(), n.mapKey())
	}
	if strings.Join(tn.Parts(), "\x00") != strings.Join(n.parts(), "\x00") {
		return fmt.Sprintf("Parts(%s) = %q, expected %q", n, tn.Parts(), n.parts())
	}
	rt := px.TypedNameFromMapKey(tn.MapKey())
	if rt.MapKey() != tn.MapKey() || string(rt.Namespace()) != strings.ToLower(n.Ns) || rt.Name() != strings.ToLower(strings.TrimPrefix(n.Name, "::")) {
		return fmt.Sprintf("TypedNameFromMapKey(MapKey(%s)) = %s/%s", n, rt.Namespace(), rt.Name())
	}
	return ""
}
