package main

// dep.go: the dependency loader WITH module loaders (loader/dependency.go) - the module-qualified routing clause of C12.
// A history: operations `pre` on a loader tree, then px.NewDependencyLoader(mods) where every module loader wraps a
// loader of that tree (stubModule: ModuleName() = the given name, LoadEntry = the wrapped loader's, counted), then
// operations on the tree (the module side) and on the dependency loader.  Observed: every output AND, for every
// operation on the dependency loader, which module loaders had their LoadEntry called, in order.
//   D: compared with a Go reference (refDep: own write-once map first; a name qualified by a module's name through that
//      module's loader only; else the module loaders in order, first that resolves; a found value becomes a binding);
//   M: cases_dep*.v against Model/LoaderDep.v (dep_model) and its specification (dep_spec), Corr/CorrC12Dep.v.

import (
	"fmt"
	"strings"

	"github.com/lyraproj/pcore/pcore"
	"github.com/lyraproj/pcore/px"
	"verifharness/lib"
)

type modT struct {
	Name string `json:"name"`
	L    int    `json:"l"`
}

type dopT struct {
	Kind string `json:"op"` // Base LoadEntry Load GetEntry Has Define LoaderFor
	O    *opT   `json:"o,omitempty"`
	N    tname  `json:"n,omitempty"`
	V    int    `json:"v,omitempty"`
	M    string `json:"m,omitempty"`
}

func (d dopT) String() string {
	switch d.Kind {
	case "Base":
		return d.O.String()
	case "Define":
		return fmt.Sprintf("dep.Define(%s,v%d)", d.N, d.V)
	case "LoaderFor":
		return fmt.Sprintf("dep.LoaderFor(%q)", d.M)
	}
	return fmt.Sprintf("dep.%s(%s)", d.Kind, d.N)
}

func (d dopT) gallina() string {
	switch d.Kind {
	case "Base":
		return "DBase (" + d.O.gallina(d.O.L) + ")"
	case "LoadEntry":
		return "DLoadEntry " + d.N.gallina()
	case "Load":
		return "DLoad " + d.N.gallina()
	case "GetEntry":
		return "DGetEntry " + d.N.gallina()
	case "Has":
		return "DHas " + d.N.gallina()
	case "Define":
		return "DDefine " + d.N.gallina() + " " + gVal(d.V)
	case "LoaderFor":
		return "DLoaderFor " + lib.GStr(d.M)
	}
	panic("bad dop " + d.Kind)
}

type depCase struct {
	Pre  []opT  `json:"pre"`
	Mods []modT `json:"mods"`
	Ds   []dopT `json:"ds"`
}

func (dc depCase) text() []string {
	r := opsText(dc.Pre)
	ms := make([]string, len(dc.Mods))
	for i, m := range dc.Mods {
		ms[i] = fmt.Sprintf("%q=l%d", m.Name, m.L)
	}
	r = append(r, "NewDependencyLoader["+strings.Join(ms, ",")+"]")
	for _, d := range dc.Ds {
		r = append(r, d.String())
	}
	return r
}

func (dc depCase) input() map[string]interface{} {
	return map[string]interface{}{"kind": "dep", "pre": dc.Pre, "mods": dc.Mods, "ds": dc.Ds}
}

// stubModule: a px.ModuleLoader over a loader of the tree; dependencyLoader uses ModuleName() and LoadEntry only
type stubModule struct {
	px.Loader
	name  string
	idx   int
	asked *[]int
}

func (m *stubModule) LoadEntry(c px.Context, n px.TypedName) px.LoaderEntry {
	*m.asked = append(*m.asked, m.idx)
	return m.Loader.LoadEntry(c, n)
}
func (m *stubModule) ModuleName() string { return m.name }
func (m *stubModule) Path() string       { return "" }

func gNats(xs []int) string {
	s := make([]string, len(xs))
	for i, x := range xs {
		s[i] = fmt.Sprintf("%d%%nat", x)
	}
	return lib.GList(s, "nat")
}

// ---- the reference -----------------------------------------------------------------------------
type refDep struct {
	w     *refWorld
	mods  []modT
	binds map[string]int
}

func (r *refDep) route(n tname) (int, bool) {
	p := n.parts()
	if len(p) < 2 {
		return 0, false
	}
	return r.loaderFor(p[0])
}

func (r *refDep) loaderFor(m string) (int, bool) {
	if m == "" {
		return 0, false
	}
	for i := len(r.mods) - 1; i >= 0; i-- { // the last loader that answers to the name
		if r.mods[i].Name == m {
			return r.mods[i].L, true
		}
	}
	return 0, false
}

// lookup: the value (ok) and the module loaders asked
func (r *refDep) lookup(n tname) (int, bool, []int) {
	k := n.mapKey()
	if v, ok := r.binds[k]; ok {
		return v, true, nil
	}
	if l, ok := r.route(n); ok {
		v, found := r.w.resolve(r.w.nodes[l], n)
		if found {
			r.binds[k] = v
		}
		return v, found, []int{l}
	}
	asked := []int{}
	for _, m := range r.mods {
		asked = append(asked, m.L)
		if v, found := r.w.resolve(r.w.nodes[m.L], n); found {
			r.binds[k] = v
			return v, true, asked
		}
	}
	return 0, false, asked
}

func (r *refDep) apply(d dopT) (exp, clause string) {
	switch d.Kind {
	case "Base":
		return "DB (" + r.w.apply(*d.O) + ")", clauseOf(*d.O, "")
	case "LoadEntry", "Load":
		clause = "dep-first-in-order"
		if _, ok := r.route(d.N); ok {
			clause = "dep-routing"
		}
		if _, ok := r.binds[d.N.mapKey()]; ok {
			clause = "dep-write-once"
		}
		if d.Kind == "Load" && d.N.Auth != 0 {
			return "DR (RFound None) " + gNats(nil), clause
		}
		v, ok, asked := r.lookup(d.N)
		switch {
		case d.Kind == "Load" && ok:
			return "DR (RFound (Some " + gVal(v) + ")) " + gNats(asked), clause
		case d.Kind == "Load":
			return "DR (RFound None) " + gNats(asked), clause
		case ok:
			return "DR (REntry (EVal " + gVal(v) + ")) " + gNats(asked), clause
		}
		return "DR (REntry miss) " + gNats(asked), clause
	case "GetEntry":
		if v, ok := r.binds[d.N.mapKey()]; ok {
			return "DR (REntry (EVal " + gVal(v) + ")) " + gNats(nil), "dep-write-once"
		}
		return "DR (REntry miss) " + gNats(nil), "dep-write-once"
	case "Has":
		_, ok := r.binds[d.N.mapKey()]
		return "DR (RBool " + lib.GBool(ok) + ") " + gNats(nil), "dep-write-once"
	case "Define":
		k := d.N.mapKey()
		old, bound := r.binds[k]
		switch {
		case !bound:
			r.binds[k] = d.V
			return "DR (RDefined " + gVal(d.V) + ") " + gNats(nil), "dep-write-once"
		case valEqual(old, d.V):
			return "DR (RDefined " + gVal(old) + ") " + gNats(nil), "dep-write-once"
		case infoOf(old).ty && infoOf(d.V).ty:
			return "DR (RErr ERedefineType) " + gNats(nil), "dep-write-once"
		}
		return "DR (RErr ERedefine) " + gNats(nil), "dep-write-once"
	case "LoaderFor":
		if l, ok := r.loaderFor(d.M); ok {
			return fmt.Sprintf("DFor (Some %d%%nat)", l), "dep-index"
		}
		return "DFor None", "dep-index"
	}
	panic("bad dop " + d.Kind)
}

func dproject(out string) string {
	out = strings.Replace(out, "REntry ENone", "REntry miss", 1)
	return strings.Replace(out, "REntry EPlaceholder", "REntry miss", 1)
}

// ---- running a history on the implementation -----------------------------------------------------
type depRun struct {
	outs   []string
	bad    int
	want   string
	clause string
	preBad string
}

// applyDop runs one operation of a dependency-loader history on the implementation; *asked collects the module loaders asked
func applyDop(w *world, dep px.Loader, dctx px.Context, d dopT, asked *[]int) (res string) {
	defer func() {
		if r := recover(); r != nil {
			res = "DR (" + classifyPanic(r) + ") " + gNats(*asked)
		}
	}()
	switch d.Kind {
	case "Base":
		return "DB (" + w.apply(*d.O) + ")"
	case "LoadEntry":
		e := dep.LoadEntry(dctx, d.N.impl())
		return "DR (REntry " + gEntry(e) + ") " + gNats(*asked)
	case "Load":
		v, ok := px.Load(dctx, d.N.impl())
		if !ok {
			return "DR (RFound None) " + gNats(*asked)
		}
		return "DR (RFound (Some " + gVal(valOf(v)) + ")) " + gNats(*asked)
	case "GetEntry":
		return "DR (REntry " + gEntry(dep.GetEntry(d.N.impl())) + ") " + gNats(*asked)
	case "Has":
		return "DR (RBool " + lib.GBool(dep.HasEntry(d.N.impl())) + ") " + gNats(*asked)
	case "Define":
		e := dep.(px.DefiningLoader).SetEntry(d.N.impl(), px.NewLoaderEntry(vtable[d.V].v, nil))
		return "DR (RDefined " + gVal(valOf(e.Value())) + ") " + gNats(*asked)
	case "LoaderFor":
		ml := dep.(px.DependencyLoader).LoaderFor(d.M)
		if ml == nil {
			return "DFor None"
		}
		return fmt.Sprintf("DFor (Some %d%%nat)", ml.(*stubModule).idx)
	}
	panic("bad dop " + d.Kind)
}

func runDep(c px.Context, dc depCase) (dr depRun) {
	w := newWorld(c)
	rw := newRefWorld()
	dr.bad = -1
	for i, o := range dc.Pre {
		got := w.apply(o)
		if exp := rw.apply(o); project(got) != exp && dr.preBad == "" {
			dr.preBad = fmt.Sprintf("pre step %d %s returned %s, the specification says %s", i, o, got, exp)
		}
	}
	asked := []int{}
	mls := make([]px.ModuleLoader, len(dc.Mods))
	for i, m := range dc.Mods {
		mls[i] = &stubModule{Loader: w.loaders[m.L], name: m.Name, idx: m.L, asked: &asked}
	}
	dep := px.NewDependencyLoader(mls)
	dctx := pcore.WithParent(c, dep, c.Logger(), c.ImplementationRegistry())
	ref := &refDep{w: rw, mods: dc.Mods, binds: map[string]int{}}
	for i, d := range dc.Ds {
		asked = asked[:0]
		got := applyDop(w, dep, dctx, d, &asked)
		dr.outs = append(dr.outs, got)
		if dr.bad >= 0 {
			continue
		}
		exp, clause := ref.apply(d)
		g := got
		if d.Kind == "Base" {
			g = "DB (" + project(strings.TrimSuffix(strings.TrimPrefix(got, "DB ("), ")")) + ")"
		} else {
			g = dproject(got)
		}
		if g != exp {
			dr.bad, dr.want, dr.clause = i, exp, clause
		}
	}
	return
}

func (dc depCase) gallina(outs []string) string {
	pre := make([]string, len(dc.Pre))
	for i, o := range dc.Pre {
		pre[i] = o.gallina(o.L)
	}
	ms := make([]string, len(dc.Mods))
	for i, m := range dc.Mods {
		ms[i] = lib.GPair(lib.GStr(m.Name), fmt.Sprintf("%d%%nat", m.L))
	}
	ds := make([]string, len(dc.Ds))
	for i, d := range dc.Ds {
		ds[i] = d.gallina()
	}
	return "(" + lib.GList(pre, "op") + ",\n    " + lib.GList(ms, "str * nat") + ",\n    " + lib.GList(ds, "dop") + ",\n    " + lib.GList(outs, "dout") + ")"
}

func newDepCases() *lib.CasesFile {
	return &lib.CasesFile{Imports: []string{"Model.Base", "Model.Loader", "Model.LoaderDep", "Corr.CorrC12Dep"},
		Typ:         "list op * list (str * nat) * list dop * list dout",
		Prelude:     gallinaPrelude(),
		Obligations: map[string]string{"dep_model": "dep_mismatches cfg cases", "dep_spec": "dep_spec_violations cfg cases"}}
}

func depNontrivial(dc depCase, outs []string) bool {
	// a lookup that asked exactly one of several module loaders (routing), and a lookup answered from the loader's own map
	routed, cached := false, false
	for i, d := range dc.Ds {
		if d.Kind != "LoadEntry" && d.Kind != "Load" {
			continue
		}
		if len(dc.Mods) > 1 && strings.Count(outs[i], "%nat") == 1 && len(d.N.parts()) > 1 {
			routed = true
		}
		if strings.Contains(outs[i], "EVal") && strings.HasSuffix(outs[i], "(@nil (nat))") {
			cached = true
		}
	}
	return routed || cached
}

func (r *runner) checkDep(dc depCase, cf *lib.CasesFile, toCoq bool, family string) {
	dr := runDep(r.c, dc)
	r.res.Evaluations++
	r.res.Count("dep." + family)
	if depNontrivial(dc, dr.outs) {
		r.res.Nontrivial("dep:" + strings.Join(dc.text(), ";"))
		r.res.Count("dep.nontrivial")
	}
	if dr.preBad != "" {
		r.res.Violate(lib.Violation{Clause: "resolution", What: dr.preBad, Input: dc.input()})
	}
	if dr.bad >= 0 {
		small := depCase{dc.Pre, dc.Mods, dc.Ds[:dr.bad+1]}
		// shrink: drop single earlier operations as long as the last one still fails with the same clause
		for changed := true; changed; {
			changed = false
			for i := len(small.Ds) - 2; i >= 0; i-- {
				if small.Ds[i].Kind == "Base" && strings.HasPrefix(small.Ds[i].O.Kind, "New") {
					continue
				}
				cand := depCase{small.Pre, small.Mods, append(append([]dopT{}, small.Ds[:i]...), small.Ds[i+1:]...)}
				if cr := runDep(r.c, cand); cr.bad == len(cand.Ds)-1 && cr.clause == dr.clause {
					small, changed = cand, true
				}
			}
		}
		sr := runDep(r.c, small)
		if sr.bad < 0 {
			small, sr = depCase{dc.Pre, dc.Mods, dc.Ds[:dr.bad+1]}, dr
		}
		r.nviol++
		r.res.Violate(lib.Violation{Clause: dr.clause,
			What: fmt.Sprintf("step %d %s returned %s, the specification says %s (history: %s)", sr.bad, small.Ds[sr.bad], sr.outs[sr.bad], sr.want,
				strings.Join(small.text(), "; ")),
			Input: small.input()})
		if r.nviol <= 20 {
			cf.Add(small.gallina(sr.outs[:len(small.Ds)]), small.input())
		}
	}
	if toCoq {
		cf.Add(dc.gallina(dr.outs), dc.input())
	}
	if r.res.Evaluations%1999 == 1 {
		r.res.Sample(map[string]interface{}{"dep": dc.text(), "outs": dr.outs})
	}
}

// ---- generators ----------------------------------------------------------------------------------
func dBase(o opT) dopT            { return dopT{Kind: "Base", O: &o} }
func dLoadEntry(n tname) dopT     { return dopT{Kind: "LoadEntry", N: n} }
func dLoad(n tname) dopT          { return dopT{Kind: "Load", N: n} }
func dGet(n tname) dopT           { return dopT{Kind: "GetEntry", N: n} }
func dHas(n tname) dopT           { return dopT{Kind: "Has", N: n} }
func dDefine(n tname, v int) dopT { return dopT{Kind: "Define", N: n, V: v} }
func dFor(m string) dopT          { return dopT{Kind: "LoaderFor", M: m} }
func mods(ms ...modT) []modT      { return ms }
func mod(name string, l int) modT { return modT{name, l} }

var depNames = []tname{tn("x", "a::x"), tn("x", "A::X"), tn("x", "b::x"), tn("x", "y"), tn("x", "c::z"), tn("x", "a"), tn("x", "a::b::x"),
	tn("type", "Foo::Car"), tn("type", "foo::car"), tn("type", "Car"), tn("type", "Foo::Nope"), tn("type", "a::x"), tn("type", "Integer"),
	tn("function", "a::x"), {1, "x", "a::x"}, tn("x", "::a::x"), tn("type", "Foo::Bar::Car")}

var depModNames = []string{"a", "b", "foo", "", "A", "c"}

func (r *runner) depCorpus() {
	cf := newDepCases()
	ax, AX, bx, y, cz := tn("x", "a::x"), tn("x", "A::X"), tn("x", "b::x"), tn("x", "y"), tn("x", "c::z")
	// the history of the Rocq example C12_dep_nonvacuous
	pre := seq(newDep(), newDep(), newParented(2), def(1, ax, 0), def(2, ax, 1), def(3, y, 2))
	r.checkDep(depCase{pre, mods(mod("a", 1), mod("b", 3)), []dopT{dFor("a"), dFor("c"), dLoadEntry(bx), dGet(bx), dLoadEntry(ax), dLoadEntry(y),
		dLoadEntry(cz), dBase(def(1, bx, 0)), dLoadEntry(bx), dBase(def(2, bx, 1)), dLoadEntry(bx), dDefine(ax, 1), dLoadEntry(AX), dHas(y), dLoad(cz)}}, cf, true, "corpus")
	// two loaders answer to one name: the later one is indexed, both are asked for the other names, in order
	r.checkDep(depCase{pre, mods(mod("a", 3), mod("a", 1), mod("", 2)), []dopT{dFor("a"), dFor(""), dLoadEntry(ax), dLoadEntry(y), dLoad(bx), dLoadEntry(cz)}}, cf, true, "corpus")
	r.checkDep(depCase{pre, mods(mod("a", 1), mod("a", 3)), []dopT{dFor("a"), dLoadEntry(ax), dGet(ax), dBase(def(3, ax, 2)), dLoadEntry(ax), dLoad(AX)}}, cf, true, "corpus")
	// no module has a name: no routing at all; a module name in upper case never matches the (lower-case) first part
	r.checkDep(depCase{pre, mods(mod("", 1), mod("", 3)), []dopT{dFor("a"), dLoadEntry(ax), dLoadEntry(bx), dLoadEntry(y)}}, cf, true, "corpus")
	r.checkDep(depCase{pre, mods(mod("A", 3), mod("b", 1)), []dopT{dFor("A"), dFor("a"), dLoadEntry(ax), dLoadEntry(AX), dLoadEntry(bx)}}, cf, true, "corpus")
	// no module loaders
	r.checkDep(depCase{pre, nil, []dopT{dFor("a"), dLoadEntry(ax), dLoad(ax), dDefine(ax, 0), dLoadEntry(AX), dDefine(AX, 1), dDefine(ax, 0), dHas(ax), dGet(AX)}}, cf, true, "corpus")
	// the static loader and type-set loaders as module loaders; a name of the type namespace qualified by the set's name is
	// routed to the module `foo`, whose type-set loader resolves it relative to the set; it caches its misses
	pre2 := seq(newDep(), newTypeSet(1, 0), newParented(0), newDep())
	car, fcar, fnope, integer := tn("type", "Car"), tn("type", "Foo::Car"), tn("type", "Foo::Nope"), tn("type", "Integer")
	r.checkDep(depCase{pre2, mods(mod("foo", 2), mod("std", 3), mod("b", 4)), []dopT{dLoadEntry(fcar), dLoadEntry(car), dLoadEntry(fnope), dBase(getEntry(2, fnope)),
		dBase(getEntry(4, fnope)), dLoadEntry(integer), dLoad(tn("type", "integer")), dBase(def(4, fnope, 8)), dLoadEntry(fnope), dBase(def(1, fnope, 10)), dLoadEntry(fnope),
		dLoad(tname{1, "type", "Foo::Car"}), dDefine(car, 8)}}, cf, true, "corpus")
	r.checkDep(depCase{pre2, mods(mod("b", 4), mod("foo", 2), mod("", 3)), []dopT{dLoadEntry(tn("type", "Nope")), dBase(getEntry(2, tn("type", "Nope"))), dLoadEntry(car),
		dBase(def(4, car, 8)), dLoadEntry(car), dLoadEntry(tn("type", "CAR")), dBase(def(4, integer, 10)), dLoadEntry(integer)}}, cf, true, "corpus")
	// the miss of the dependency loader is not cached: a later definition on the module side is seen
	r.checkDep(depCase{pre, mods(mod("b", 3)), []dopT{dLoadEntry(bx), dLoad(bx), dGet(bx), dBase(def(3, bx, 4)), dLoad(bx), dGet(bx), dBase(def(3, bx, 5)), dDefine(bx, 5), dDefine(bx, 6)}}, cf, true, "corpus")
	r.res.CorrFiles = append(r.res.CorrFiles, cf.WriteTo(r.cfg.Out, "cases_dep_corpus"))
}

// bounded-exhaustive: all sequences of length <= 3 over a small alphabet, for several module sets over one tree
func (r *runner) depExhaustive() {
	cf := newDepCases()
	ax, bx, y := tn("x", "a::x"), tn("x", "b::x"), tn("x", "y")
	pre := seq(newDep(), newDep(), newParented(2), def(2, y, 2))
	sets := [][]modT{mods(mod("a", 1), mod("b", 3)), mods(mod("b", 3), mod("a", 1), mod("a", 2)), mods(mod("", 1), mod("b", 3)), mods(mod("a", 3))}
	alpha := []dopT{dLoadEntry(ax), dLoadEntry(bx), dLoadEntry(y), dLoad(tn("x", "A::X")), dGet(ax), dDefine(ax, 1), dDefine(bx, 0),
		dBase(def(1, ax, 0)), dBase(def(3, ax, 1)), dBase(def(3, bx, 0)), dBase(def(1, y, 3)), dBase(def(2, bx, 1))}
	n := 0
	var rec func(ms []modT, cur []dopT, depth int)
	rec = func(ms []modT, cur []dopT, depth int) {
		if len(cur) > 0 {
			n++
			r.checkDep(depCase{pre, ms, append([]dopT{}, cur...)}, cf, len(cur) == 3 && n%37 == 0, "exhaustive")
		}
		if depth == 0 {
			return
		}
		for _, a := range alpha {
			rec(ms, append(cur, a), depth-1)
		}
	}
	for _, ms := range sets {
		rec(ms, nil, 3)
	}
	r.res.CorrFiles = append(r.res.CorrFiles, cf.WriteTo(r.cfg.Out, "cases_dep_exh"))
}

func randomDep(g *lib.Rng) depCase {
	var dc depCase
	// the tree: target[l] = the loader that receives the definitions made through l
	target := []int{0}
	add := func(o opT, tg int) {
		dc.Pre = append(dc.Pre, o)
		if tg < 0 {
			tg = len(target)
		}
		target = append(target, tg)
	}
	add(newDep(), -1)
	for i, n := 0, 1+g.Intn(5); i < n; i++ {
		p := g.Intn(len(target))
		switch g.Intn(4) {
		case 0:
			add(newDep(), -1)
		case 1:
			add(newTypeSet(p, g.Intn(len(tsetDecls))), target[p])
		default:
			add(newParented(p), -1)
		}
	}
	definable := []int{}
	for l, t := range target {
		if t != 0 {
			definable = append(definable, l)
		}
	}
	name := func() tname { return depNames[g.Intn(len(depNames))] }
	val := func() int { return []int{0, 1, 2, 4, 5, 6, 8, 9, 10}[g.Intn(9)] }
	for i, n := 0, g.Intn(5); i < n; i++ {
		dc.Pre = append(dc.Pre, def(definable[g.Intn(len(definable))], name(), val()))
	}
	for i, n := 0, g.Intn(5); i < n; i++ {
		dc.Mods = append(dc.Mods, mod(depModNames[g.Intn(len(depModNames))], g.Intn(len(target))))
	}
	nl := len(target)
	for i, n := 0, 4+g.Intn(20); i < n; i++ {
		switch g.Intn(12) {
		case 0, 1, 2, 3:
			dc.Ds = append(dc.Ds, dLoadEntry(name()))
		case 4, 5:
			dc.Ds = append(dc.Ds, dLoad(name()))
		case 6:
			dc.Ds = append(dc.Ds, dGet(name()))
		case 7:
			if g.Bool() {
				dc.Ds = append(dc.Ds, dHas(name()))
			} else {
				dc.Ds = append(dc.Ds, dFor(depModNames[g.Intn(len(depModNames))]))
			}
		case 8:
			dc.Ds = append(dc.Ds, dDefine(name(), val()))
		case 9, 10:
			dc.Ds = append(dc.Ds, dBase(def(definable[g.Intn(len(definable))], name(), val())))
		default:
			l := g.Intn(nl)
			switch g.Intn(3) {
			case 0:
				dc.Ds = append(dc.Ds, dBase(loadEntry(l, name())))
			case 1:
				dc.Ds = append(dc.Ds, dBase(getEntry(l, name())))
			default:
				// not through the static loader: px.Load caches its miss in the context's loader, and the static loader is shared by all histories
				dc.Ds = append(dc.Ds, dBase(load(1+g.Intn(nl-1), name())))
			}
		}
	}
	return dc
}

func (r *runner) depRandom(rng *lib.Rng) {
	n, perFile := 3000, 160
	if r.cfg.Thorough() {
		n, perFile = 120000, 1500
	}
	cf := newDepCases()
	for i := 0; i < n; i++ {
		r.checkDep(randomDep(rng.Fork()), cf, i < perFile, "random")
	}
	r.res.CorrFiles = append(r.res.CorrFiles, cf.WriteTo(r.cfg.Out, "cases_dep_random"))
}

func (r *runner) replayDep(in interface{}, cf *lib.CasesFile) {
	var dc depCase
	lib.Remarshal(in, &dc)
	dr := runDep(r.c, dc)
	r.res.Evaluations++
	for i, d := range dc.Ds {
		fmt.Printf("  %-40s => %s\n", d.String(), dr.outs[i])
	}
	if dr.bad >= 0 {
		fmt.Printf("FAILS at step %d: %s returned %s, the specification says %s\n", dr.bad, dc.Ds[dr.bad], dr.outs[dr.bad], dr.want)
		r.res.Violate(lib.Violation{Clause: dr.clause,
			What:  fmt.Sprintf("step %d %s returned %s, the specification says %s", dr.bad, dc.Ds[dr.bad], dr.outs[dr.bad], dr.want),
			Input: dc.input()})
	} else {
		fmt.Println("implementation agrees with the specification on this history")
	}
	cf.Add(dc.gallina(dr.outs), in)
}
