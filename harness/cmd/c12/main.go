// c12: loader resolution — parents first, bindings are write-once, misses are not sticky.
package main

import (
	"fmt"
	"os"
	"runtime/pprof"
	"strings"

	"github.com/lyraproj/pcore/pcore"
	"github.com/lyraproj/pcore/px"
	"verifharness/lib"
)

type hcase struct {
	ops  []opT
	outs []string
	ml   []int // step -> the model's index of the loader the operation names (the type-set loaders that the
	//                      resolution of a type set creates are loaders of the model too)
	adds   map[int]string // step -> the Gallina term of an AddTypes operation (the types as they were parsed)
	ctx    []int          // step -> the model's number of the loader that the context of the operation's loader holds afterwards
	clause string         // the clause of full.go that step `bad` violates ("" = the step's output differs from the reference's)
}

func clauseAt(hc hcase, ops []opT, bad int) string {
	if hc.clause != "" {
		return hc.clause
	}
	return clauseOf(ops[bad], hc.outs[bad])
}

func (c hcase) gallina() string {
	ops := make([]string, len(c.ops))
	outs := make([]string, len(c.ops))
	for i, o := range c.ops {
		switch {
		case o.Kind == "AddTypes" || o.Kind == "Declare":
			ops[i] = c.adds[i]
			outs[i] = c.outs[i]
		case strings.HasPrefix(c.outs[i], "RNew "):
			// the new loader's index in the model: the same shift as for an index out of range
			var n int
			_, _ = fmt.Sscanf(c.outs[i], "RNew %d", &n)
			ops[i] = "XOp (" + o.gallina(c.ml[i]) + ")"
			outs[i] = fmt.Sprintf("XR (RNew %d)", n+c.ml[len(c.ops)+i])
		default:
			ops[i] = "XOp (" + o.gallina(c.ml[i]) + ")"
			outs[i] = "XR (" + c.outs[i] + ")"
		}
	}
	ctx := make([]string, len(c.ctx))
	for i, x := range c.ctx {
		ctx[i] = fmt.Sprintf("%d%%nat", x)
	}
	return "(" + lib.GList(ops, "xop") + ",\n    " + lib.GList(outs, "xout") + ",\n    " + lib.GList(ctx, "nat") + ")"
}

// runHistory runs a history on the implementation (fresh loaders) and on the reference specification;
// bad = first step whose projected output differs from the specification's.
func runHistory(c px.Context, ops []opT) (hc hcase, bad int, want string) {
	w := newWorld(c)
	r := newRefWorld()
	fs := newFullState()
	bad = -1
	hc.ops = ops
	hc.adds = map[int]string{}
	hc.ml = make([]int, 2*len(ops)) // second half: the number of hidden loaders before the step
	for i, o := range ops {
		hc.ml[i], hc.ml[len(ops)+i] = w.ml(o.L), w.hidden
		got := w.apply(o)
		hc.outs = append(hc.outs, got)
		if o.Kind == "AddTypes" {
			hc.adds[i] = w.lastAddGallina(hc.ml[i])
		}
		if o.Kind == "Declare" {
			hc.adds[i] = declareGallina(o, hc.ml[i])
		}
		// (the numbers of the loaders as they were before the operation: a context holds a loader that existed then)
		if o.Kind == "NewDep" {
			hc.ctx = append(hc.ctx, 0)
		} else {
			hc.ctx = append(hc.ctx, w.ctxLoader(o.L))
		}
		if o.Kind == "AddTypes" {
			w.hidden += w.lastHidden
		}
		if bad >= 0 {
			continue
		}
		var exp string
		if o.Kind == "AddTypes" {
			exp = r.applyAdd(o, w.lastAdd)
		} else if o.Kind == "Declare" {
			exp = r.applyDeclare(o)
		} else if o.L >= len(r.nodes) && o.Kind != "NewDep" {
			exp = "RBadLoader"
		} else {
			exp = r.apply(o)
		}
		if project(got) != exp {
			bad = i
			want = exp
		} else if cl, what := fs.checkFull(w, r, o, got); cl != "" {
			bad, want, hc.clause = i, what, cl
		}
	}
	return
}

func newCases() *lib.CasesFile {
	return &lib.CasesFile{Imports: []string{"Model.Base", "Model.Loader", "Model.LoaderAdd", "Corr.CorrC12"}, Typ: "list xop * list xout * list nat",
		Prelude:     gallinaPrelude(),
		Obligations: map[string]string{"loader_model": "loader_mismatches cfg cases", "loader_spec": "loader_spec_violations cfg cases"}}
}

func input(ops []opT) map[string]interface{} {
	return map[string]interface{}{"kind": "history", "ops": ops}
}

// shrink: drop single non-constructing operations as long as the last step still fails in the same way.
func shrink(c px.Context, ops []opT, clause string) []opT {
	cur := ops
	for changed := true; changed; {
		changed = false
		for i := len(cur) - 2; i >= 0; i-- {
			k := cur[i].Kind
			if k == "NewDep" || k == "NewParented" || k == "Fork" || k == "NewTypeSet" {
				continue
			}
			cand := append(append([]opT{}, cur[:i]...), cur[i+1:]...)
			hc, bad, _ := runHistory(c, cand)
			if bad == len(cand)-1 && clauseAt(hc, cand, bad) == clause {
				cur = cand
				changed = true
			}
		}
	}
	return cur
}

func nontrivial(hc hcase) bool {
	missed := map[string]bool{}
	for i, o := range hc.ops {
		out := hc.outs[i]
		switch o.Kind {
		case "AddTypes", "Declare":
			if strings.HasPrefix(out, "XA (AErr") {
				return true
			}
		case "Define", "AddType":
			if strings.HasPrefix(out, "RErr") || (strings.HasPrefix(out, "RDefined") && out != "RDefined "+gVal(o.V)) {
				return true
			}
		case "Load", "LoadEntry":
			k := fmt.Sprintf("%d/%s", o.L, o.N.mapKey())
			if out == "RFound None" || out == "REntry ENone" || out == "REntry EPlaceholder" {
				missed[k] = true
			} else if missed[k] {
				return true
			}
		}
	}
	return false
}

type runner struct {
	cfg   *lib.Config
	res   *lib.Result
	c     px.Context
	total int
	nviol int
}

func (r *runner) check(ops []opT, cf *lib.CasesFile, toCoq bool, family string) {
	hc, bad, want := runHistory(r.c, ops)
	r.total++
	r.res.Evaluations++
	r.res.Count("history." + family)
	r.res.Count(fmt.Sprintf("history.len%02d", (len(ops)/5)*5))
	if nontrivial(hc) {
		r.res.Nontrivial(strings.Join(opsText(ops), ";"))
		r.res.Count("history.nontrivial")
	}
	if bad >= 0 {
		clause := clauseAt(hc, ops, bad)
		small := ops[:bad+1]
		r.nviol++
		if r.nviol <= 8 {
			small = shrink(r.c, small, clause)
		}
		shc, sbad, swant := runHistory(r.c, small)
		if sbad < 0 {
			small, shc, sbad, swant = ops[:bad+1], hc, bad, want
		}
		r.res.Violate(lib.Violation{Clause: clause,
			What: fmt.Sprintf("step %d %s returned %s, the specification says %s (history: %s)", sbad, small[sbad], shc.outs[sbad], swant,
				strings.Join(opsText(small), "; ")),
			Input: input(small)})
		if r.nviol <= 20 {
			cf.Add(shc.gallina(), input(small))
		}
	}
	if bad < 0 && (r.cfg.Thorough() || r.total%4 == 0 || !strings.HasPrefix(family, "exhaustive")) {
		// the namespace clause, on two runs of the implementation (ns.go); quick tier: every fourth of the bounded-exhaustive
		// histories (neighbours differ in one operation), every history of the corpus and every random one
		what, k := checkNamespace(r.c, ops, hc.outs)
		if k > 0 {
			r.res.Count("history.namespace-erased")
		}
		if what != "" {
			r.res.Violate(lib.Violation{Clause: "namespace", What: what + " (history: " + strings.Join(opsText(ops), "; ") + ")", Input: input(ops)})
			if r.nviol++; r.nviol <= 20 {
				cf.Add(hc.gallina(), input(ops))
			}
		}
	}
	if toCoq {
		cf.Add(hc.gallina(), input(ops))
	}
	if r.total%4999 == 1 {
		r.res.Sample(map[string]interface{}{"ops": opsText(ops), "outs": hc.outs})
	}
}

func main() {
	cfg := lib.ParseFlags()
	res := lib.NewResult("C12")
	res.Rule = "histories of construct/define/load/load-entry/get-entry/has/discover operations and px.AddTypes of freshly parsed type sets " +
		"(nested sets, object members; also sets that are rejected while their members are resolved) and object types over loader trees " +
		"(static or fresh root, parented, forked, type-set loaders), every loader with a context of its own that lives as long as the history, " +
		"and declarations (px.RegisterResolvableType of alias types, bound by px.ResolveResolvables with the loader's context): corpus, " +
		"bounded-exhaustive over 10 tree shapes, seeded random to length 50; a history is non-trivial when it contains a redefinition " +
		"(rejected, or an equal-value no-op), a px.AddTypes or a binding of declarations that ends with a reported error, or a lookup that misses and later succeeds " +
		"through the same loader; distinct = distinct operation sequences; plus the scenarios of the declaration route at the public entry points " +
		"(binder x kind of declaration x earlier event x letter case x equal/different value; non-trivial when the declaration is not accepted)"
	rng := lib.NewRng(cfg.Seed)
	if pf := os.Getenv("C12_PROF"); pf != "" {
		f, _ := os.Create(pf)
		_ = pprof.StartCPUProfile(f)
		defer pprof.StopCPUProfile()
	}
	// the declaration route at the public entry points (pcore.Do, pcore.RootContext; decl.go), outside every context
	if cfg.Replay != "" {
		replayDeclScenarios(res, cfg.Replay)
	} else {
		declScenarios(res)
	}
	pcore.Do(func(c px.Context) {
		setupUniverse(c)
		checkAliasClasses()
		setupAddDecls(c)
		r := &runner{cfg: cfg, res: res, c: c}
		if cfg.Replay != "" {
			r.replay()
			return
		}
		for _, n := range namePool() {
			if msg := checkName(n); msg != "" {
				res.Violate(lib.Violation{Clause: "case-insensitive", What: msg, Input: map[string]interface{}{"kind": "name", "name": n}})
			}
		}
		r.corpus()
		r.exhaustive()
		r.random(rng)
		// the dependency loader with module loaders (dep.go)
		r.depCorpus()
		r.depExhaustive()
		r.depRandom(rng)
		// a loader parented by the dependency loader (depchild.go)
		r.childCorpus()
		r.childRandom(rng)
	})
	res.Write(cfg)
}

func (r *runner) replay() {
	cf := newCases()
	dcf := newDepCases()
	ccf := newChildCases()
	defer func() {
		if len(dcf.Cases) > 0 {
			r.res.CorrFiles = append(r.res.CorrFiles, dcf.WriteTo(r.cfg.Out, "cases_dep_replay"))
		}
		if len(ccf.Cases) > 0 {
			r.res.CorrFiles = append(r.res.CorrFiles, ccf.WriteTo(r.cfg.Out, "cases_depchild_replay"))
		}
	}()
	for _, in := range lib.ReplayInputs(r.cfg.Replay) {
		var x struct {
			Kind string `json:"kind"`
			Ops  []opT  `json:"ops"`
		}
		lib.Remarshal(in, &x)
		if x.Kind == "dep" {
			r.replayDep(in, dcf)
			continue
		}
		if x.Kind == "depchild" {
			r.replayChild(in, ccf)
			continue
		}
		if x.Kind != "history" {
			continue
		}
		hc, bad, want := runHistory(r.c, x.Ops)
		r.res.Evaluations++
		for i, o := range x.Ops {
			fmt.Printf("  %-40s => %s\n", o.String(), hc.outs[i])
		}
		if bad >= 0 {
			fmt.Printf("FAILS at step %d: %s returned %s, the specification says %s\n", bad, x.Ops[bad], hc.outs[bad], want)
			r.res.Violate(lib.Violation{Clause: clauseAt(hc, x.Ops, bad),
				What:  fmt.Sprintf("step %d %s returned %s, the specification says %s", bad, x.Ops[bad], hc.outs[bad], want),
				Input: input(x.Ops[:bad+1])})
		} else {
			fmt.Println("implementation agrees with the specification on this history")
			if what, _ := checkNamespace(r.c, x.Ops, hc.outs); what != "" {
				fmt.Println("FAILS the namespace clause: " + what)
				r.res.Violate(lib.Violation{Clause: "namespace", What: what, Input: input(x.Ops)})
			}
		}
		cf.Add(hc.gallina(), in)
	}
	r.res.CorrFiles = append(r.res.CorrFiles, cf.WriteTo(r.cfg.Out, "cases_replay"))
}
