package main

import (
	"fmt"
	"runtime"
	"strings"

	"github.com/lyraproj/pcore/hash"
	"verifharness/lib"
)

// ---- operations on hash.StringHash, mirrored by coq/Model/StringHash.v ----

type shOp struct {
	Kind string `json:"op"`
	H    int    `json:"h"`
	O    int    `json:"o,omitempty"`
	K    string `json:"k,omitempty"`
	V    int64  `json:"v,omitempty"`
	// ComputePut: the mapping function puts K2 => V2 into the same hash before it returns V
	K2 string `json:"k2,omitempty"`
	V2 int64  `json:"v2,omitempty"`
}

// producerPanic is what the mapping function of a ComputePanic step panics with
type producerPanic struct{}

func (o shOp) gallina() string {
	switch o.Kind {
	case "New":
		return "ONew"
	case "Put":
		return fmt.Sprintf("OPut %d %s %s", o.H, lib.GStr(o.K), lib.GZ(o.V))
	case "Delete":
		return fmt.Sprintf("ODelete %d %s", o.H, lib.GStr(o.K))
	case "Get":
		return fmt.Sprintf("OGet %d %s", o.H, lib.GStr(o.K))
	case "GetOrDefault":
		return fmt.Sprintf("OGetOrDefault %d %s %s", o.H, lib.GStr(o.K), lib.GZ(o.V))
	case "Includes":
		return fmt.Sprintf("OIncludes %d %s", o.H, lib.GStr(o.K))
	case "Compute":
		return fmt.Sprintf("OCompute %d %s %s", o.H, lib.GStr(o.K), lib.GZ(o.V))
	case "ComputePanic":
		return fmt.Sprintf("OComputePanic %d %s", o.H, lib.GStr(o.K))
	case "ComputePut":
		return fmt.Sprintf("OComputePut %d %s %s %s %s", o.H, lib.GStr(o.K), lib.GZ(o.V), lib.GStr(o.K2), lib.GZ(o.V2))
	case "Copy":
		return fmt.Sprintf("OCopy %d", o.H)
	case "Merge":
		return fmt.Sprintf("OMerge %d %d", o.H, o.O)
	case "PutAll":
		return fmt.Sprintf("OPutAll %d %d", o.H, o.O)
	case "Freeze":
		return fmt.Sprintf("OFreeze %d", o.H)
	case "Keys":
		return fmt.Sprintf("OKeys %d", o.H)
	case "Values":
		return fmt.Sprintf("OValues %d", o.H)
	case "Pairs":
		return fmt.Sprintf("OPairs %d", o.H)
	case "Len":
		return fmt.Sprintf("OLen %d", o.H)
	case "Empty":
		return fmt.Sprintf("OEmpty %d", o.H)
	case "IsFrozen":
		return fmt.Sprintf("OIsFrozen %d", o.H)
	case "Equals":
		return fmt.Sprintf("OEquals %d %d", o.H, o.O)
	}
	panic("bad op " + o.Kind)
}

func (o shOp) String() string {
	switch o.Kind {
	case "New":
		return "New"
	case "Put", "Compute", "GetOrDefault":
		return fmt.Sprintf("%s(h%d,%q,%d)", o.Kind, o.H, o.K, o.V)
	case "Delete", "Get", "Includes", "ComputePanic":
		return fmt.Sprintf("%s(h%d,%q)", o.Kind, o.H, o.K)
	case "ComputePut":
		return fmt.Sprintf("ComputePut(h%d,%q,%d,producer puts %q=>%d)", o.H, o.K, o.V, o.K2, o.V2)
	case "Merge", "PutAll", "Equals":
		return fmt.Sprintf("%s(h%d,h%d)", o.Kind, o.H, o.O)
	}
	return fmt.Sprintf("%s(h%d)", o.Kind, o.H)
}

// shOut is the canonical observable of one operation: both a Gallina term (type `out`) and a text
// used by the Go-side comparison with the reference map.
type shOut string

func optVal(present bool, v int64) string { return lib.GOpt(present, lib.GZ(v), "Z") }

func ifaceVal(x interface{}) (bool, int64) {
	if x == nil {
		return false, 0
	}
	return true, x.(int64)
}

// applyImpl runs one operation on the real implementation, recovering panics.
func applyImpl(objs *[]hash.StringHash, o shOp) (res shOut) {
	defer func() {
		if r := recover(); r != nil {
			if _, ok := r.(runtime.Error); ok {
				res = "RFault"
				return
			}
			if strings.Contains(fmt.Sprintf("%T", r), "frozenError") {
				res = "RFrozen"
				return
			}
			res = shOut("RFault (* unexpected panic " + strings.ReplaceAll(fmt.Sprintf("%v", r), "*)", "") + " *)")
		}
	}()
	if o.Kind == "New" {
		*objs = append(*objs, hash.NewStringHash(2))
		return shOut(fmt.Sprintf("RObj %d", len(*objs)-1))
	}
	h := (*objs)[o.H]
	switch o.Kind {
	case "Put":
		old, rep := h.Put(o.K, o.V)
		p, v := ifaceVal(old)
		return shOut(fmt.Sprintf("RPut %s %s", optVal(p, v), lib.GBool(rep)))
	case "Delete":
		p, v := ifaceVal(h.Delete(o.K))
		return shOut("RVal " + optVal(p, v))
	case "Get":
		x, ok := h.Get(o.K)
		p, v := ifaceVal(x)
		if ok != p {
			return "RFault (* Get: ok flag disagrees with value *)"
		}
		return shOut("RVal " + optVal(p, v))
	case "GetOrDefault":
		p, v := ifaceVal(h.GetOrDefault(o.K, o.V))
		return shOut("RVal " + optVal(p, v))
	case "Includes":
		return shOut("RBool " + lib.GBool(h.Includes(o.K)))
	case "Compute":
		v := o.V
		p, x := ifaceVal(h.ComputeIfAbsent(o.K, func() interface{} { return v }))
		return shOut("RVal " + optVal(p, x))
	case "ComputePanic":
		// the mapping function panics; the caller recovers from exactly that panic and goes on using the hash
		return func() (r shOut) {
			defer func() {
				if x := recover(); x != nil {
					if _, ok := x.(producerPanic); ok {
						r = "RPanic"
						return
					}
					panic(x)
				}
			}()
			p, x := ifaceVal(h.ComputeIfAbsent(o.K, func() interface{} { panic(producerPanic{}) }))
			return shOut("RVal " + optVal(p, x))
		}()
	case "ComputePut":
		// the mapping function re-enters the hash: it registers another key first
		v, k2, v2 := o.V, o.K2, o.V2
		p, x := ifaceVal(h.ComputeIfAbsent(o.K, func() interface{} {
			h.Put(k2, v2)
			return v
		}))
		return shOut("RVal " + optVal(p, x))
	case "Copy":
		*objs = append(*objs, h.Copy())
		return shOut(fmt.Sprintf("RObj %d", len(*objs)-1))
	case "Merge":
		m := h.Merge((*objs)[o.O])
		*objs = append(*objs, m)
		return shOut(fmt.Sprintf("RObj %d", len(*objs)-1))
	case "PutAll":
		h.PutAll((*objs)[o.O])
		return "RUnit"
	case "Freeze":
		h.Freeze()
		return "RUnit"
	case "Keys":
		ks := h.Keys()
		// cross-check EachKey with Keys (both are observables of the same order)
		i := 0
		same := true
		h.EachKey(func(k string) {
			if i >= len(ks) || ks[i] != k {
				same = false
			}
			i++
		})
		if !same || i != len(ks) {
			return "RFault (* EachKey disagrees with Keys *)"
		}
		gs := make([]string, len(ks))
		for i, k := range ks {
			gs[i] = lib.GStr(k)
		}
		return shOut("RKeys " + lib.GList(gs, "str"))
	case "Values":
		vs := h.Values()
		gs := make([]string, len(vs))
		for i, v := range vs {
			gs[i] = lib.GZ(v.(int64))
		}
		return shOut("RVals " + lib.GList(gs, "Z"))
	case "Pairs":
		gs := []string{}
		h.EachPair(func(k string, v interface{}) {
			gs = append(gs, lib.GPair(lib.GStr(k), lib.GZ(v.(int64))))
		})
		return shOut("RPairs " + lib.GList(gs, "str * val"))
	case "Len":
		return shOut("RInt " + lib.GZ(int64(h.Len())))
	case "Empty":
		return shOut("RBool " + lib.GBool(h.Empty()))
	case "IsFrozen":
		return shOut("RBool " + lib.GBool(h.Frozen()))
	case "Equals":
		return shOut("RBool " + lib.GBool(h.Equals((*objs)[o.O], nil)))
	}
	panic("bad op")
}

// ---- Go reference: the abstract insertion ordered map (direct check D) ----

type refEntry struct {
	k string
	v int64
}
type refHash struct {
	es     []refEntry
	frozen bool
}

func (r *refHash) find(k string) int {
	for i, e := range r.es {
		if e.k == k {
			return i
		}
	}
	return -1
}

func (r *refHash) put(k string, v int64) shOut {
	if r.frozen {
		return "RFrozen"
	}
	if i := r.find(k); i >= 0 {
		old := r.es[i].v
		r.es[i].v = v
		return shOut(fmt.Sprintf("RPut %s true", optVal(true, old)))
	}
	r.es = append(r.es, refEntry{k, v})
	return shOut(fmt.Sprintf("RPut %s false", optVal(false, 0)))
}

func (r *refHash) copy() *refHash {
	es := make([]refEntry, len(r.es))
	copy(es, r.es)
	return &refHash{es: es}
}

func applyRef(objs *[]*refHash, o shOp) shOut {
	if o.Kind == "New" {
		*objs = append(*objs, &refHash{})
		return shOut(fmt.Sprintf("RObj %d", len(*objs)-1))
	}
	h := (*objs)[o.H]
	switch o.Kind {
	case "Put":
		return h.put(o.K, o.V)
	case "Delete":
		if h.frozen {
			return "RFrozen"
		}
		i := h.find(o.K)
		if i < 0 {
			return shOut("RVal " + optVal(false, 0))
		}
		old := h.es[i].v
		ne := make([]refEntry, 0, len(h.es))
		ne = append(ne, h.es[:i]...)
		ne = append(ne, h.es[i+1:]...)
		h.es = ne
		return shOut("RVal " + optVal(true, old))
	case "Get":
		if i := h.find(o.K); i >= 0 {
			return shOut("RVal " + optVal(true, h.es[i].v))
		}
		return shOut("RVal " + optVal(false, 0))
	case "GetOrDefault":
		if i := h.find(o.K); i >= 0 {
			return shOut("RVal " + optVal(true, h.es[i].v))
		}
		return shOut("RVal " + optVal(true, o.V))
	case "Includes":
		return shOut("RBool " + lib.GBool(h.find(o.K) >= 0))
	case "Compute":
		if i := h.find(o.K); i >= 0 {
			return shOut("RVal " + optVal(true, h.es[i].v))
		}
		if h.frozen {
			return "RFrozen"
		}
		h.es = append(h.es, refEntry{o.K, o.V})
		return shOut("RVal " + optVal(true, o.V))
	case "ComputePanic":
		if i := h.find(o.K); i >= 0 {
			return shOut("RVal " + optVal(true, h.es[i].v))
		}
		if h.frozen {
			return "RFrozen"
		}
		return "RPanic" // nothing was computed, nothing changes
	case "ComputePut":
		if i := h.find(o.K); i >= 0 {
			return shOut("RVal " + optVal(true, h.es[i].v))
		}
		if h.frozen {
			return "RFrozen"
		}
		h.put(o.K2, o.V2)
		// a map has one entry per key, whatever the mapping function did
		if i := h.find(o.K); i >= 0 {
			h.es[i].v = o.V
		} else {
			h.es = append(h.es, refEntry{o.K, o.V})
		}
		return shOut("RVal " + optVal(true, o.V))
	case "Copy":
		*objs = append(*objs, h.copy())
		return shOut(fmt.Sprintf("RObj %d", len(*objs)-1))
	case "Merge":
		m := h.copy()
		for _, e := range (*objs)[o.O].es {
			m.put(e.k, e.v)
		}
		*objs = append(*objs, m)
		return shOut(fmt.Sprintf("RObj %d", len(*objs)-1))
	case "PutAll":
		other := append([]refEntry{}, (*objs)[o.O].es...)
		for _, e := range other {
			if r := h.put(e.k, e.v); r == "RFrozen" {
				return r
			}
		}
		return "RUnit"
	case "Freeze":
		h.frozen = true
		return "RUnit"
	case "Keys":
		gs := make([]string, len(h.es))
		for i, e := range h.es {
			gs[i] = lib.GStr(e.k)
		}
		return shOut("RKeys " + lib.GList(gs, "str"))
	case "Values":
		gs := make([]string, len(h.es))
		for i, e := range h.es {
			gs[i] = lib.GZ(e.v)
		}
		return shOut("RVals " + lib.GList(gs, "Z"))
	case "Pairs":
		gs := make([]string, len(h.es))
		for i, e := range h.es {
			gs[i] = lib.GPair(lib.GStr(e.k), lib.GZ(e.v))
		}
		return shOut("RPairs " + lib.GList(gs, "str * val"))
	case "Len":
		return shOut("RInt " + lib.GZ(int64(len(h.es))))
	case "Empty":
		return shOut("RBool " + lib.GBool(len(h.es) == 0))
	case "IsFrozen":
		return shOut("RBool " + lib.GBool(h.frozen))
	case "Equals":
		o2 := (*objs)[o.O]
		eq := len(h.es) == len(o2.es)
		if eq {
			for _, e := range h.es {
				j := o2.find(e.k)
				if j < 0 || o2.es[j].v != e.v {
					eq = false
					break
				}
			}
		}
		return shOut("RBool " + lib.GBool(eq))
	}
	panic("bad op")
}

// observers appended after every mutating step (per object touched)
func shObservers(h int, keys []string) []shOp {
	ops := []shOp{{Kind: "Keys", H: h}, {Kind: "Values", H: h}, {Kind: "Len", H: h}}
	for _, k := range keys {
		ops = append(ops, shOp{Kind: "Get", H: h, K: k})
	}
	return ops
}

type shCase struct {
	ops  []shOp
	outs []shOut
}

// runShHistory runs a history on implementation and reference; returns the first disagreement.
func runShHistory(ops []shOp) (c shCase, badStep int, want shOut) {
	impl := []hash.StringHash{}
	ref := []*refHash{}
	badStep = -1
	c.ops = ops
	for i, o := range ops {
		got := applyImpl(&impl, o)
		exp := applyRef(&ref, o)
		c.outs = append(c.outs, got)
		if got != exp && badStep < 0 {
			badStep = i
			want = exp
		}
	}
	return
}

func (c shCase) gallina() string {
	ops := make([]string, len(c.ops))
	for i, o := range c.ops {
		ops[i] = o.gallina()
	}
	outs := make([]string, len(c.outs))
	for i, o := range c.outs {
		outs[i] = string(o)
	}
	return "(" + lib.GList(ops, "op") + ",\n    " + lib.GList(outs, "out") + ")"
}

func opsText(ops []shOp) []string {
	r := make([]string, len(ops))
	for i, o := range ops {
		r[i] = o.String()
	}
	return r
}

var shKeys = []string{"a", "b", "c", "d"}

// shAlphabet: the mutating alphabet of the bounded-exhaustive family, all on object 0 (object 1 is
// a copy taken by "Copy"; Merge/PutAll use object 1 as the other operand when it exists).
func shAlphabet() []shOp {
	al := []shOp{}
	for _, k := range shKeys {
		al = append(al, shOp{Kind: "Put", H: 0, K: k}, shOp{Kind: "Delete", H: 0, K: k})
	}
	al = append(al, shOp{Kind: "Compute", H: 0, K: "a"}, shOp{Kind: "Compute", H: 0, K: "d"},
		shOp{Kind: "Freeze", H: 0}, shOp{Kind: "Copy", H: 0},
		// a mapping function that panics (the caller recovers), and one that registers another key first
		shOp{Kind: "ComputePanic", H: 0, K: "c"}, shOp{Kind: "ComputePut", H: 0, K: "b", K2: "d", V2: 7})
	return al
}

func expandSh(seq []shOp) []shOp {
	ops := []shOp{{Kind: "New"}}
	nobj := 1
	for i, o := range seq {
		o.V = int64(10 + i)
		ops = append(ops, o)
		if o.Kind == "Copy" {
			nobj++
		}
		ops = append(ops, shObservers(0, shKeys)...)
	}
	if nobj > 1 {
		ops = append(ops, shOp{Kind: "Equals", H: 0, O: 1}, shOp{Kind: "Merge", H: 1, O: 0})
		ops = append(ops, shObservers(nobj, shKeys)...)
		ops = append(ops, shObservers(1, shKeys)...)
	}
	return ops
}

func randomShHistory(r *lib.Rng, n int) []shOp {
	ops := []shOp{{Kind: "New"}}
	nobj := 1
	keys := []string{"a", "b", "c", "d", "", "ab", "\x00", "é"}
	for i := 0; i < n; i++ {
		h := r.Intn(nobj)
		o := r.Intn(nobj)
		k := keys[r.Intn(len(keys))]
		v := int64(r.Intn(5))
		var op shOp
		switch x := r.Intn(100); {
		case x < 30:
			op = shOp{Kind: "Put", H: h, K: k, V: v}
		case x < 50:
			op = shOp{Kind: "Delete", H: h, K: k}
		case x < 53:
			op = shOp{Kind: "Compute", H: h, K: k, V: v}
		case x < 54:
			op = shOp{Kind: "ComputePanic", H: h, K: k}
		case x < 56:
			k2 := keys[r.Intn(len(keys))]
			if k2 == k {
				// the mapping function puts ANOTHER key (the same key: open finding, see shCorpus)
				op = shOp{Kind: "Compute", H: h, K: k, V: v}
			} else {
				op = shOp{Kind: "ComputePut", H: h, K: k, V: v, K2: k2, V2: int64(r.Intn(5))}
			}
		case x < 60:
			op = shOp{Kind: "GetOrDefault", H: h, K: k, V: v}
		case x < 64:
			op = shOp{Kind: "Includes", H: h, K: k}
		case x < 68:
			if nobj < 5 {
				op = shOp{Kind: "Copy", H: h}
				nobj++
			} else {
				op = shOp{Kind: "Pairs", H: h}
			}
		case x < 72:
			if nobj < 5 {
				op = shOp{Kind: "Merge", H: h, O: o}
				nobj++
			} else {
				op = shOp{Kind: "Pairs", H: h}
			}
		case x < 76:
			op = shOp{Kind: "PutAll", H: h, O: o}
		case x < 78:
			op = shOp{Kind: "Freeze", H: h}
		case x < 80:
			if nobj < 5 {
				op = shOp{Kind: "New"}
				nobj++
			} else {
				op = shOp{Kind: "Len", H: h}
			}
		case x < 84:
			op = shOp{Kind: "Equals", H: h, O: o}
		case x < 88:
			op = shOp{Kind: "Pairs", H: h}
		case x < 90:
			op = shOp{Kind: "Empty", H: h}
		case x < 92:
			op = shOp{Kind: "IsFrozen", H: h}
		default:
			op = shOp{Kind: "Get", H: h, K: k}
		}
		ops = append(ops, op)
		if r.Chance(1, 3) {
			ops = append(ops, shOp{Kind: "Keys", H: h}, shOp{Kind: "Values", H: h})
		}
	}
	for h := 0; h < nobj; h++ {
		ops = append(ops, shObservers(h, keys)...)
	}
	return ops
}

// tagComputeSameKey marks exactly the open finding C09-compute-producer-puts-same-key: the history holds a
// ComputeIfAbsent whose mapping function puts the key being computed itself, on a hash where that key is absent.
const tagComputeSameKey = "compute-producer-puts-same-key"

func shTags(ops []shOp, bad int) []string {
	for _, o := range ops[:bad+1] {
		if o.Kind == "ComputePut" && o.K == o.K2 {
			return []string{tagComputeSameKey}
		}
	}
	return nil
}

// shCorpus: hand written histories.  The two seeded routes of a ComputeIfAbsent that writes its index entry too
// early (panic + later Put; nested registration), and the open finding.
func shCorpus() [][]shOp {
	obs := func(ops []shOp) []shOp {
		var out []shOp
		out = append(out, shOp{Kind: "New"})
		for _, o := range ops {
			out = append(out, o)
			out = append(out, shOp{Kind: "Includes", H: 0, K: o.K})
			out = append(out, shObservers(0, shKeys)...)
		}
		return out
	}
	return [][]shOp{
		obs([]shOp{{Kind: "Put", K: "a", V: 1}, {Kind: "ComputePanic", K: "b"}, {Kind: "Put", K: "c", V: 9}, {Kind: "Compute", K: "b", V: 4}}),
		obs([]shOp{{Kind: "ComputePanic", K: "a"}, {Kind: "ComputePanic", K: "a"}, {Kind: "Put", K: "a", V: 2}, {Kind: "ComputePanic", K: "a"}}),
		obs([]shOp{{Kind: "Put", K: "a", V: 1}, {Kind: "ComputePut", K: "b", V: 11, K2: "c", V2: 10}, {Kind: "Delete", K: "b"}, {Kind: "Delete", K: "c"}}),
		obs([]shOp{{Kind: "Put", K: "a", V: 1}, {Kind: "ComputePut", K: "b", V: 11, K2: "a", V2: 10}, {Kind: "Delete", K: "a"}}),
		obs([]shOp{{Kind: "Freeze"}, {Kind: "ComputePanic", K: "a"}, {Kind: "ComputePut", K: "a", V: 1, K2: "b", V2: 2}}),
		// open finding: the mapping function puts the computed key itself
		obs([]shOp{{Kind: "ComputePut", K: "a", V: 6, K2: "a", V2: 5}, {Kind: "Delete", K: "a"}}),
		obs([]shOp{{Kind: "Put", K: "b", V: 1}, {Kind: "ComputePut", K: "a", V: 6, K2: "a", V2: 5}, {Kind: "Put", K: "a", V: 7}}),
	}
}
