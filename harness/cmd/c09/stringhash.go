package main

import (
	"fmt"
	"runtime"
	"strings"

	"github.com/lyraproj/pcore/hash"
	"verifharness/lib"
)

// ---- operations on hash.StringHash, mirrored by coq/Model/StringHash.v ----

type shOp struct {
	Kind string `json:"op"`
	H    int    `json:"h"`
	O    int    `json:"o,omitempty"`
	K    string `json:"k,omitempty"`
	V    int64  `json:"v,omitempty"`
	// VN: the value (Put, Compute: what the mapping function returns, GetOrDefault: the default) is the Go value nil
	// (V is ignored); V2N: the same for V2
	VN  bool `json:"vn,omitempty"`
	V2N bool `json:"v2n,omitempty"`
	// ComputePut: the mapping function puts K2 => V2 into the same hash before it returns V
	K2 string `json:"k2,omitempty"`
	V2 int64  `json:"v2,omitempty"`
	// NewCap: NewStringHash(C) ("New" is NewStringHash(2))
	C int `json:"c,omitempty"`
	// Iter: h.<IK>(callback) with IK one of EachKey, EachPair, EachValue, AllPair, AnyPair; at its i-th call the
	// callback does Acts[i] to the SAME hash (nothing when the list has run out)
	IK   string  `json:"ik,omitempty"`
	Acts []shAct `json:"acts,omitempty"`
}

// shAct is what the callback of an iteration does at one call: A = "" (nothing), "del" (h.Delete(K)), "put"
// (h.Put(K, V)), "compute" (h.ComputeIfAbsent(K, func() { return V })); Stop: the callback of AllPair returns false /
// that of AnyPair returns true here (ignored by the Each methods, which cannot be stopped)
type shAct struct {
	A    string `json:"a,omitempty"`
	K    string `json:"k,omitempty"`
	V    int64  `json:"v,omitempty"`
	VN   bool   `json:"vn,omitempty"` // the value is nil
	Stop bool   `json:"stop,omitempty"`
}

// a value of the hash: the nil interface or an int64
func mkVal(isNil bool, v int64) interface{} {
	if isNil {
		return nil
	}
	return v
}
func (o shOp) val() interface{}  { return mkVal(o.VN, o.V) }
func (o shOp) val2() interface{} { return mkVal(o.V2N, o.V2) }
func (a shAct) val() interface{} { return mkVal(a.VN, a.V) }

// gVal: a value as a Gallina term of type val (Model/StringHash.v)
func gVal(x interface{}) string {
	if x == nil {
		return "VNil"
	}
	return "(VInt " + lib.GZ(x.(int64)) + ")"
}

// tVal: a value as text
func tVal(x interface{}) string {
	if x == nil {
		return "nil"
	}
	return fmt.Sprint(x.(int64))
}

func (a shAct) gallina() string {
	var t string
	switch a.A {
	case "":
		t = "ANone"
	case "del":
		t = "ADel " + lib.GStr(a.K)
	case "put":
		t = fmt.Sprintf("APut %s %s", lib.GStr(a.K), gVal(a.val()))
	case "compute":
		t = fmt.Sprintf("ACompute %s %s", lib.GStr(a.K), gVal(a.val()))
	default:
		panic("bad act " + a.A)
	}
	return lib.GPair(t, lib.GBool(a.Stop))
}

func (a shAct) String() string {
	t := "-"
	switch a.A {
	case "del":
		t = fmt.Sprintf("Delete(%q)", a.K)
	case "put":
		t = fmt.Sprintf("Put(%q,%s)", a.K, tVal(a.val()))
	case "compute":
		t = fmt.Sprintf("ComputeIfAbsent(%q,%s)", a.K, tVal(a.val()))
	}
	if a.Stop {
		t += "+stop"
	}
	return t
}

func actsGallina(acts []shAct) string {
	gs := make([]string, len(acts))
	for i, a := range acts {
		gs[i] = a.gallina()
	}
	return lib.GList(gs, "act * bool")
}

// producerPanic is what the mapping function of a ComputePanic step panics with
type producerPanic struct{}

func (o shOp) gallina() string {
	switch o.Kind {
	case "New":
		return "ONew"
	case "Put":
		return fmt.Sprintf("OPut %d %s %s", o.H, lib.GStr(o.K), gVal(o.val()))
	case "Delete":
		return fmt.Sprintf("ODelete %d %s", o.H, lib.GStr(o.K))
	case "Get":
		return fmt.Sprintf("OGet %d %s", o.H, lib.GStr(o.K))
	case "GetOrDefault":
		return fmt.Sprintf("OGetOrDefault %d %s %s", o.H, lib.GStr(o.K), gVal(o.val()))
	case "Includes":
		return fmt.Sprintf("OIncludes %d %s", o.H, lib.GStr(o.K))
	case "Compute":
		return fmt.Sprintf("OCompute %d %s %s", o.H, lib.GStr(o.K), gVal(o.val()))
	case "ComputePanic":
		return fmt.Sprintf("OComputePanic %d %s", o.H, lib.GStr(o.K))
	case "ComputePut":
		return fmt.Sprintf("OComputePut %d %s %s %s %s", o.H, lib.GStr(o.K), gVal(o.val()), lib.GStr(o.K2), gVal(o.val2()))
	case "Copy":
		return fmt.Sprintf("OCopy %d", o.H)
	case "Merge":
		return fmt.Sprintf("OMerge %d %d", o.H, o.O)
	case "PutAll":
		return fmt.Sprintf("OPutAll %d %d", o.H, o.O)
	case "Freeze":
		return fmt.Sprintf("OFreeze %d", o.H)
	case "Keys":
		return fmt.Sprintf("OKeys %d", o.H)
	case "Values":
		return fmt.Sprintf("OValues %d", o.H)
	case "Pairs":
		return fmt.Sprintf("OPairs %d", o.H)
	case "Len":
		return fmt.Sprintf("OLen %d", o.H)
	case "Empty":
		return fmt.Sprintf("OEmpty %d", o.H)
	case "IsFrozen":
		return fmt.Sprintf("OIsFrozen %d", o.H)
	case "Equals":
		return fmt.Sprintf("OEquals %d %d", o.H, o.O)
	case "NewCap":
		return fmt.Sprintf("ONewCap %d", o.C)
	case "Iter":
		return fmt.Sprintf("OIter %d I%s %s", o.H, o.IK, actsGallina(o.Acts))
	}
	panic("bad op " + o.Kind)
}

func (o shOp) String() string {
	switch o.Kind {
	case "New":
		return "New"
	case "Put", "Compute", "GetOrDefault":
		return fmt.Sprintf("%s(h%d,%q,%s)", o.Kind, o.H, o.K, tVal(o.val()))
	case "Delete", "Get", "Includes", "ComputePanic":
		return fmt.Sprintf("%s(h%d,%q)", o.Kind, o.H, o.K)
	case "ComputePut":
		return fmt.Sprintf("ComputePut(h%d,%q,%s,producer puts %q=>%s)", o.H, o.K, tVal(o.val()), o.K2, tVal(o.val2()))
	case "Merge", "PutAll", "Equals":
		return fmt.Sprintf("%s(h%d,h%d)", o.Kind, o.H, o.O)
	case "NewCap":
		return fmt.Sprintf("NewStringHash(%d)", o.C)
	case "Iter":
		as := make([]string, len(o.Acts))
		for i, a := range o.Acts {
			as[i] = a.String()
		}
		return fmt.Sprintf("%s(h%d, callback doing on h%d at its calls: %s)", o.IK, o.H, o.H, strings.Join(as, "; "))
	}
	return fmt.Sprintf("%s(h%d)", o.Kind, o.H)
}

// shOut is the canonical observable of one operation: both a Gallina term (type `out`) and a text
// used by the Go-side comparison with the reference map.
type shOut string

// flagged: the result of a method that returns a presence flag next to the value (Get, Put): the value of a present
// key - nil included - is Some, absence None
func flagged(present bool, x interface{}) string { return lib.GOpt(present, gVal(x), "val") }

// bare: the result of a method that returns a bare interface{} (Delete, GetOrDefault, ComputeIfAbsent): a Go caller
// cannot tell the value nil of a present key from "nothing" (Model/StringHash.v go_view)
func bare(x interface{}) shOut { return shOut("RVal " + lib.GOpt(x != nil, gVal(x), "val")) }

// applyImpl runs one operation on the real implementation, recovering panics.
func applyImpl(objs *[]hash.StringHash, o shOp) (res shOut) {
	defer func() {
		if r := recover(); r != nil {
			if _, ok := r.(runtime.Error); ok {
				res = "RFault"
				return
			}
			if strings.Contains(fmt.Sprintf("%T", r), "frozenError") {
				res = "RFrozen"
				return
			}
			res = shOut("RFault (* unexpected panic " + strings.ReplaceAll(fmt.Sprintf("%v", r), "*)", "") + " *)")
		}
	}()
	if o.Kind == "New" {
		*objs = append(*objs, hash.NewStringHash(2))
		return shOut(fmt.Sprintf("RObj %d", len(*objs)-1))
	}
	if o.Kind == "NewCap" {
		*objs = append(*objs, hash.NewStringHash(o.C))
		return shOut(fmt.Sprintf("RObj %d", len(*objs)-1))
	}
	h := (*objs)[o.H]
	switch o.Kind {
	case "Iter":
		// the callback re-enters the hash it is called from
		var ks []string
		var vs []interface{}
		lastIterVals = nil
		n := 0
		do := func() bool {
			var a shAct
			if n < len(o.Acts) {
				a = o.Acts[n]
			}
			n++
			switch a.A {
			case "del":
				h.Delete(a.K)
			case "put":
				h.Put(a.K, a.val())
			case "compute":
				v := a.val()
				h.ComputeIfAbsent(a.K, func() interface{} { return v })
			}
			return a.Stop
		}
		seeV := func(v interface{}) {
			vs = append(vs, v)
			lastIterVals = vs
		}
		res := true
		switch o.IK {
		case "EachKey":
			h.EachKey(func(k string) { ks = append(ks, k); do() })
		case "EachPair":
			h.EachPair(func(k string, v interface{}) { ks = append(ks, k); seeV(v); do() })
		case "EachValue":
			h.EachValue(func(v interface{}) { seeV(v); do() })
		case "AllPair":
			res = h.AllPair(func(k string, v interface{}) bool { ks = append(ks, k); seeV(v); return !do() })
		case "AnyPair":
			res = h.AnyPair(func(k string, v interface{}) bool { ks = append(ks, k); seeV(v); return do() })
		default:
			panic("bad iteration " + o.IK)
		}
		return iterOut(ks, vs, res)
	case "Put":
		old, rep := h.Put(o.K, o.val())
		if !rep && old != nil {
			return "RFault (* Put: an old value although nothing was replaced *)"
		}
		return shOut(fmt.Sprintf("RPut %s %s", flagged(rep, old), lib.GBool(rep)))
	case "Delete":
		return bare(h.Delete(o.K))
	case "Get":
		x, ok := h.Get(o.K)
		if !ok && x != nil {
			return "RFault (* Get: a value although the key is reported absent *)"
		}
		return shOut("RVal " + flagged(ok, x))
	case "GetOrDefault":
		return bare(h.GetOrDefault(o.K, o.val()))
	case "Includes":
		return shOut("RBool " + lib.GBool(h.Includes(o.K)))
	case "Compute":
		v := o.val()
		return bare(h.ComputeIfAbsent(o.K, func() interface{} { return v }))
	case "ComputePanic":
		// the mapping function panics; the caller recovers from exactly that panic and goes on using the hash
		return func() (r shOut) {
			defer func() {
				if x := recover(); x != nil {
					if _, ok := x.(producerPanic); ok {
						r = "RPanic"
						return
					}
					panic(x)
				}
			}()
			return bare(h.ComputeIfAbsent(o.K, func() interface{} { panic(producerPanic{}) }))
		}()
	case "ComputePut":
		// the mapping function re-enters the hash: it registers another key first
		v, k2, v2 := o.val(), o.K2, o.val2()
		return bare(h.ComputeIfAbsent(o.K, func() interface{} {
			h.Put(k2, v2)
			return v
		}))
	case "Copy":
		*objs = append(*objs, h.Copy())
		return shOut(fmt.Sprintf("RObj %d", len(*objs)-1))
	case "Merge":
		m := h.Merge((*objs)[o.O])
		*objs = append(*objs, m)
		return shOut(fmt.Sprintf("RObj %d", len(*objs)-1))
	case "PutAll":
		h.PutAll((*objs)[o.O])
		return "RUnit"
	case "Freeze":
		h.Freeze()
		return "RUnit"
	case "Keys":
		ks := h.Keys()
		// cross-check EachKey with Keys (both are observables of the same order)
		i := 0
		same := true
		h.EachKey(func(k string) {
			if i >= len(ks) || ks[i] != k {
				same = false
			}
			i++
		})
		if !same || i != len(ks) {
			return "RFault (* EachKey disagrees with Keys *)"
		}
		gs := make([]string, len(ks))
		for i, k := range ks {
			gs[i] = lib.GStr(k)
		}
		return shOut("RKeys " + lib.GList(gs, "str"))
	case "Values":
		vs := h.Values()
		gs := make([]string, len(vs))
		for i, v := range vs {
			gs[i] = gVal(v)
		}
		return shOut("RVals " + lib.GList(gs, "val"))
	case "Pairs":
		gs := []string{}
		h.EachPair(func(k string, v interface{}) {
			gs = append(gs, lib.GPair(lib.GStr(k), gVal(v)))
		})
		return shOut("RPairs " + lib.GList(gs, "str * val"))
	case "Len":
		return shOut("RInt " + lib.GZ(int64(h.Len())))
	case "Empty":
		return shOut("RBool " + lib.GBool(h.Empty()))
	case "IsFrozen":
		return shOut("RBool " + lib.GBool(h.Frozen()))
	case "Equals":
		return shOut("RBool " + lib.GBool(h.Equals((*objs)[o.O], nil)))
	}
	panic("bad op")
}

// lastIterVals: the values the implementation handed to the callback of the last Iter step (see applyRef)
var lastIterVals []interface{}

func iterOut(ks []string, vs []interface{}, res bool) shOut {
	gk := make([]string, len(ks))
	for i, k := range ks {
		gk[i] = lib.GStr(k)
	}
	gv := make([]string, len(vs))
	for i, v := range vs {
		gv[i] = gVal(v)
	}
	return shOut(fmt.Sprintf("RIter %s %s %s", lib.GList(gk, "str"), lib.GList(gv, "val"), lib.GBool(res)))
}

// ---- Go reference: the abstract insertion ordered map (direct check D) ----

type refEntry struct {
	k string
	v interface{} // nil or int64: a key associated with nil is as present as any other
}
type refHash struct {
	es     []refEntry
	frozen bool
}

func (r *refHash) find(k string) int {
	for i, e := range r.es {
		if e.k == k {
			return i
		}
	}
	return -1
}

func (r *refHash) put(k string, v interface{}) shOut {
	if r.frozen {
		return "RFrozen"
	}
	if i := r.find(k); i >= 0 {
		old := r.es[i].v
		r.es[i].v = v
		return shOut(fmt.Sprintf("RPut %s true", flagged(true, old)))
	}
	r.es = append(r.es, refEntry{k, v})
	return shOut(fmt.Sprintf("RPut %s false", flagged(false, nil)))
}

func (r *refHash) copy() *refHash {
	es := make([]refEntry, len(r.es))
	copy(es, r.es)
	return &refHash{es: es}
}

func applyRef(objs *[]*refHash, o shOp) shOut {
	if o.Kind == "New" || o.Kind == "NewCap" {
		*objs = append(*objs, &refHash{})
		return shOut(fmt.Sprintf("RObj %d", len(*objs)-1))
	}
	h := (*objs)[o.H]
	switch o.Kind {
	case "Iter":
		// The callback is called once for every entry the map held when the iteration started, in that order,
		// whatever it does to the map meanwhile; what it does takes effect at once.  A value it puts for an entry
		// still to come may or may not be the one handed out later (the property does not say): the value the
		// implementation showed is accepted when it is the entry's value at the start or one put meanwhile.
		start := append([]refEntry{}, h.es...)
		var ks []string
		var vs []interface{}
		putVals := map[string][]interface{}{}
		stopped := false
		for i, e := range start {
			ks = append(ks, e.k)
			v := e.v
			if i < len(lastIterVals) {
				for _, pv := range putVals[e.k] {
					if pv == lastIterVals[i] {
						v = pv
					}
				}
			}
			vs = append(vs, v)
			var a shAct
			if i < len(o.Acts) {
				a = o.Acts[i]
			}
			switch a.A {
			case "del":
				if h.frozen {
					return "RFrozen"
				}
				if j := h.find(a.K); j >= 0 {
					ne := append([]refEntry{}, h.es[:j]...)
					h.es = append(ne, h.es[j+1:]...)
				}
			case "put":
				if h.put(a.K, a.val()) == "RFrozen" {
					return "RFrozen"
				}
				putVals[a.K] = append(putVals[a.K], a.val())
			case "compute":
				if h.find(a.K) < 0 {
					if h.frozen {
						return "RFrozen"
					}
					h.es = append(h.es, refEntry{a.K, a.val()})
				}
			}
			if a.Stop && (o.IK == "AllPair" || o.IK == "AnyPair") {
				stopped = true
				break
			}
		}
		switch o.IK {
		case "EachKey":
			return iterOut(ks, nil, true)
		case "EachValue":
			return iterOut(nil, vs, true)
		case "AllPair":
			return iterOut(ks, vs, !stopped)
		case "AnyPair":
			return iterOut(ks, vs, stopped)
		}
		return iterOut(ks, vs, true)
	case "Put":
		return h.put(o.K, o.val())
	case "Delete":
		if h.frozen {
			return "RFrozen"
		}
		i := h.find(o.K)
		if i < 0 {
			return bare(nil)
		}
		old := h.es[i].v
		ne := make([]refEntry, 0, len(h.es))
		ne = append(ne, h.es[:i]...)
		ne = append(ne, h.es[i+1:]...)
		h.es = ne
		return bare(old)
	case "Get":
		if i := h.find(o.K); i >= 0 {
			return shOut("RVal " + flagged(true, h.es[i].v))
		}
		return shOut("RVal " + flagged(false, nil))
	case "GetOrDefault":
		// the value of a present key, whatever it is; the default for an absent key only
		if i := h.find(o.K); i >= 0 {
			return bare(h.es[i].v)
		}
		return bare(o.val())
	case "Includes":
		return shOut("RBool " + lib.GBool(h.find(o.K) >= 0))
	case "Compute":
		if i := h.find(o.K); i >= 0 {
			return bare(h.es[i].v)
		}
		if h.frozen {
			return "RFrozen"
		}
		h.es = append(h.es, refEntry{o.K, o.val()})
		return bare(o.val())
	case "ComputePanic":
		if i := h.find(o.K); i >= 0 {
			return bare(h.es[i].v)
		}
		if h.frozen {
			return "RFrozen"
		}
		return "RPanic" // nothing was computed, nothing changes
	case "ComputePut":
		if i := h.find(o.K); i >= 0 {
			return bare(h.es[i].v)
		}
		if h.frozen {
			return "RFrozen"
		}
		h.put(o.K2, o.val2())
		// a map has one entry per key, whatever the mapping function did
		if i := h.find(o.K); i >= 0 {
			h.es[i].v = o.val()
		} else {
			h.es = append(h.es, refEntry{o.K, o.val()})
		}
		return bare(o.val())
	case "Copy":
		*objs = append(*objs, h.copy())
		return shOut(fmt.Sprintf("RObj %d", len(*objs)-1))
	case "Merge":
		m := h.copy()
		for _, e := range (*objs)[o.O].es {
			m.put(e.k, e.v)
		}
		*objs = append(*objs, m)
		return shOut(fmt.Sprintf("RObj %d", len(*objs)-1))
	case "PutAll":
		other := append([]refEntry{}, (*objs)[o.O].es...)
		for _, e := range other {
			if r := h.put(e.k, e.v); r == "RFrozen" {
				return r
			}
		}
		return "RUnit"
	case "Freeze":
		h.frozen = true
		return "RUnit"
	case "Keys":
		gs := make([]string, len(h.es))
		for i, e := range h.es {
			gs[i] = lib.GStr(e.k)
		}
		return shOut("RKeys " + lib.GList(gs, "str"))
	case "Values":
		gs := make([]string, len(h.es))
		for i, e := range h.es {
			gs[i] = gVal(e.v)
		}
		return shOut("RVals " + lib.GList(gs, "val"))
	case "Pairs":
		gs := make([]string, len(h.es))
		for i, e := range h.es {
			gs[i] = lib.GPair(lib.GStr(e.k), gVal(e.v))
		}
		return shOut("RPairs " + lib.GList(gs, "str * val"))
	case "Len":
		return shOut("RInt " + lib.GZ(int64(len(h.es))))
	case "Empty":
		return shOut("RBool " + lib.GBool(len(h.es) == 0))
	case "IsFrozen":
		return shOut("RBool " + lib.GBool(h.frozen))
	case "Equals":
		o2 := (*objs)[o.O]
		eq := len(h.es) == len(o2.es)
		if eq {
			for _, e := range h.es {
				j := o2.find(e.k)
				if j < 0 || o2.es[j].v != e.v {
					eq = false
					break
				}
			}
		}
		return shOut("RBool " + lib.GBool(eq))
	}
	panic("bad op")
}

// observers appended after every mutating step (per object touched)
func shObservers(h int, keys []string) []shOp {
	ops := []shOp{{Kind: "Keys", H: h}, {Kind: "Values", H: h}, {Kind: "Len", H: h}}
	for _, k := range keys {
		ops = append(ops, shOp{Kind: "Get", H: h, K: k})
	}
	return ops
}

// shObserversFull: every lookup of the interface for every key - Get, GetOrDefault with a default that is not nil
// and no value of the history, Includes - and Len / Keys / Values / the pairs EachPair hands out: "lookups find
// exactly the present keys", whatever value a key is associated with
func shObserversFull(h int, keys []string) []shOp {
	ops := []shOp{{Kind: "Keys", H: h}, {Kind: "Values", H: h}, {Kind: "Len", H: h}, {Kind: "Pairs", H: h}}
	for _, k := range keys {
		ops = append(ops, shOp{Kind: "Get", H: h, K: k}, shOp{Kind: "GetOrDefault", H: h, K: k, V: 77},
			shOp{Kind: "Includes", H: h, K: k})
	}
	return ops
}

// shNilFamily: bounded-exhaustive histories in which keys are associated with the Go value nil: Put(k, nil) of a new
// and of an existing key, a value put over nil, ComputeIfAbsent whose mapping function returns nil / finds nil, a
// re-entrant mapping function and a re-entrant callback that put nil, Delete, Copy, Freeze; nil arriving through
// Merge / PutAll at the end; the full observation (all lookups of all keys) after every step.
func shNilFamily(maxLen int, yield func(ops []shOp)) {
	al := []shOp{
		{Kind: "Put", K: "a", VN: true}, {Kind: "Put", K: "a"}, {Kind: "Put", K: "b", VN: true}, {Kind: "Put", K: "b"},
		{Kind: "Delete", K: "a"}, {Kind: "Delete", K: "b"},
		{Kind: "Compute", K: "a", VN: true}, {Kind: "Compute", K: "b"}, {Kind: "ComputePanic", K: "a"},
		{Kind: "ComputePut", K: "b", K2: "a", V2N: true}, {Kind: "ComputePut", K: "a", VN: true, K2: "c", V2: 5},
		{Kind: "Iter", IK: "EachPair", Acts: []shAct{{A: "put", K: "b", VN: true}, {A: "compute", K: "c", VN: true}}},
		{Kind: "Copy"}, {Kind: "Freeze"},
	}
	keys := []string{"a", "b", "c"}
	var rec func(seq []shOp, l int)
	rec = func(seq []shOp, l int) {
		if len(seq) == l {
			ops := []shOp{{Kind: "New"}}
			nobj := 1
			for i, o := range seq {
				o.V = int64(10 + i)
				ops = append(ops, o)
				if o.Kind == "Copy" {
					nobj++
				}
				ops = append(ops, shObserversFull(0, keys)...)
			}
			if nobj > 1 {
				// nil arrives through Merge and PutAll, in both directions
				ops = append(ops, shOp{Kind: "Equals", H: 0, O: 1}, shOp{Kind: "Equals", H: 1, O: 0},
					shOp{Kind: "Merge", H: 1, O: 0}, shOp{Kind: "Merge", H: 0, O: 1})
				ops = append(ops, shObserversFull(nobj, keys)...)
				ops = append(ops, shObserversFull(nobj+1, keys)...)
				ops = append(ops, shOp{Kind: "PutAll", H: 1, O: 0})
				ops = append(ops, shObserversFull(1, keys)...)
			}
			yield(ops)
			return
		}
		for _, o := range al {
			rec(append(seq[:len(seq):len(seq)], o), l)
		}
	}
	for l := 1; l <= maxLen; l++ {
		rec(nil, l)
	}
}

type shCase struct {
	ops  []shOp
	outs []shOut
}

// runShHistory runs a history on implementation and reference; returns the first disagreement.
func runShHistory(ops []shOp) (c shCase, badStep int, want shOut) {
	impl := []hash.StringHash{}
	ref := []*refHash{}
	badStep = -1
	c.ops = ops
	for i, o := range ops {
		got := applyImpl(&impl, o)
		exp := applyRef(&ref, o)
		c.outs = append(c.outs, got)
		if got != exp && badStep < 0 {
			badStep = i
			want = exp
		}
	}
	return
}

func (c shCase) gallina() string {
	ops := make([]string, len(c.ops))
	for i, o := range c.ops {
		ops[i] = o.gallina()
	}
	outs := make([]string, len(c.outs))
	for i, o := range c.outs {
		outs[i] = string(o)
	}
	return "(" + lib.GList(ops, "op") + ",\n    " + lib.GList(outs, "out") + ")"
}

func opsText(ops []shOp) []string {
	r := make([]string, len(ops))
	for i, o := range ops {
		r[i] = o.String()
	}
	return r
}

var shKeys = []string{"a", "b", "c", "d"}

// shAlphabet: the mutating alphabet of the bounded-exhaustive family, all on object 0 (object 1 is
// a copy taken by "Copy"; Merge/PutAll use object 1 as the other operand when it exists).
func shAlphabet() []shOp {
	al := []shOp{}
	for _, k := range shKeys {
		al = append(al, shOp{Kind: "Put", H: 0, K: k}, shOp{Kind: "Delete", H: 0, K: k})
	}
	al = append(al, shOp{Kind: "Compute", H: 0, K: "a"}, shOp{Kind: "Compute", H: 0, K: "d"},
		shOp{Kind: "Freeze", H: 0}, shOp{Kind: "Copy", H: 0},
		// a mapping function that panics (the caller recovers), and one that registers another key first
		shOp{Kind: "ComputePanic", H: 0, K: "c"}, shOp{Kind: "ComputePut", H: 0, K: "b", K2: "d", V2: 7},
		// iterations whose callback re-enters the hash: "remove what was visited", and one that deletes the entry
		// after the visited one, replaces a later value, appends
		shOp{Kind: "Iter", H: 0, IK: "EachKey", Acts: []shAct{{A: "del", K: "a"}, {A: "del", K: "b"}, {A: "del", K: "c"}, {A: "del", K: "d"}}},
		shOp{Kind: "Iter", H: 0, IK: "AllPair", Acts: []shAct{{A: "del", K: "b"}, {A: "put", K: "d", V: 8}, {A: "compute", K: "a", V: 9}, {A: "del", K: "c", Stop: true}}})
	return al
}

func expandSh(seq []shOp) []shOp {
	ops := []shOp{{Kind: "New"}}
	nobj := 1
	for i, o := range seq {
		o.V = int64(10 + i)
		ops = append(ops, o)
		if o.Kind == "Copy" {
			nobj++
		}
		ops = append(ops, shObservers(0, shKeys)...)
	}
	if nobj > 1 {
		ops = append(ops, shOp{Kind: "Equals", H: 0, O: 1}, shOp{Kind: "Merge", H: 1, O: 0})
		ops = append(ops, shObservers(nobj, shKeys)...)
		ops = append(ops, shObservers(1, shKeys)...)
	}
	return ops
}

var shIterKinds = []string{"EachKey", "EachPair", "EachValue", "AllPair", "AnyPair"}

func randomActs(r *lib.Rng, keys []string) []shAct {
	n := r.Intn(7)
	acts := make([]shAct, n)
	for i := range acts {
		k := keys[r.Intn(len(keys))]
		switch x := r.Intn(10); {
		case x < 5:
			acts[i] = shAct{A: "del", K: k}
		case x < 7:
			acts[i] = shAct{A: "put", K: k, V: int64(5 + r.Intn(5)), VN: r.Chance(1, 5)}
		case x < 8:
			acts[i] = shAct{A: "compute", K: k, V: int64(5 + r.Intn(5)), VN: r.Chance(1, 5)}
		}
		acts[i].Stop = r.Chance(1, 8)
	}
	return acts
}

// shIterFamily: bounded-exhaustive iterations with a re-entrant callback.  A hash of n entries a=1, b=2, ... (n <= 4)
// made by NewStringHash(c) for a capacity below, equal to and above n (whether an append moves the entries), then
// one iteration of each of the five kinds whose callback does, at its i-th call, the i-th letter of every sequence
// over {nothing, Delete(a..d), Put(a..e), ComputeIfAbsent(a), ComputeIfAbsent(e)} (n <= 3; n = 4: nothing / Delete
// only), with AllPair / AnyPair stopped at every position in turn; then the full observation, a second (plain)
// iteration, a Put of a new key and the keys again.
func shIterFamily(yield func(ops []shOp)) {
	keys := []string{"a", "b", "c", "d"}
	full := []shAct{{}}
	dels := []shAct{{}}
	for _, k := range keys {
		full = append(full, shAct{A: "del", K: k})
		dels = append(dels, shAct{A: "del", K: k})
	}
	for _, k := range []string{"a", "b", "c", "d", "e"} {
		full = append(full, shAct{A: "put", K: k, V: 20})
	}
	full = append(full, shAct{A: "compute", K: "a", V: 30}, shAct{A: "compute", K: "e", V: 30})
	count := 0
	for n := 1; n <= 4; n++ {
		al := full
		if n == 4 {
			al = dels
		}
		caps := []int{0, n, 8}
		if n != 2 {
			caps = append(caps, 2)
		}
		var rec func(acts []shAct)
		rec = func(acts []shAct) {
			if len(acts) == n {
				for _, c := range caps {
					for _, kind := range shIterKinds {
						count++
						as := make([]shAct, n)
						for i, a := range acts {
							as[i] = a
							if a.A != "" {
								as[i].V = a.V + int64(i)
							}
						}
						if kind == "AllPair" || kind == "AnyPair" {
							if sp := count % (n + 1); sp < n {
								as[sp].Stop = true
							}
						}
						ops := []shOp{{Kind: "NewCap", C: c}}
						for i := 0; i < n; i++ {
							ops = append(ops, shOp{Kind: "Put", H: 0, K: keys[i], V: int64(i + 1)})
						}
						ops = append(ops, shOp{Kind: "Iter", H: 0, IK: kind, Acts: as})
						ops = append(ops, shObservers(0, []string{"a", "b", "c", "d", "e"})...)
						ops = append(ops, shOp{Kind: "Pairs", H: 0}, shOp{Kind: "Put", H: 0, K: "z", V: 99}, shOp{Kind: "Keys", H: 0},
							shOp{Kind: "Get", H: 0, K: "z"})
						yield(ops)
					}
				}
				return
			}
			for _, a := range al {
				rec(append(acts[:len(acts):len(acts)], a))
			}
		}
		rec(nil)
	}
}

func randomShHistory(r *lib.Rng, n int) []shOp {
	ops := []shOp{{Kind: "New"}}
	nobj := 1
	keys := []string{"a", "b", "c", "d", "", "ab", "\x00", "é"}
	for i := 0; i < n; i++ {
		h := r.Intn(nobj)
		o := r.Intn(nobj)
		k := keys[r.Intn(len(keys))]
		v := int64(r.Intn(5))
		vn := r.Chance(1, 5) // the value is nil
		var op shOp
		switch x := r.Intn(100); {
		case x < 4:
			op = shOp{Kind: "Iter", H: h, IK: shIterKinds[r.Intn(len(shIterKinds))], Acts: randomActs(r, keys)}
		case x < 30:
			op = shOp{Kind: "Put", H: h, K: k, V: v, VN: vn}
		case x < 50:
			op = shOp{Kind: "Delete", H: h, K: k}
		case x < 53:
			op = shOp{Kind: "Compute", H: h, K: k, V: v, VN: vn}
		case x < 54:
			op = shOp{Kind: "ComputePanic", H: h, K: k}
		case x < 56:
			k2 := keys[r.Intn(len(keys))]
			if k2 == k {
				// the mapping function puts ANOTHER key (the same key: open finding, see shCorpus)
				op = shOp{Kind: "Compute", H: h, K: k, V: v}
			} else {
				op = shOp{Kind: "ComputePut", H: h, K: k, V: v, VN: vn, K2: k2, V2: int64(r.Intn(5)), V2N: r.Chance(1, 5)}
			}
		case x < 60:
			op = shOp{Kind: "GetOrDefault", H: h, K: k, V: 70 + v, VN: r.Chance(1, 8)}
		case x < 64:
			op = shOp{Kind: "Includes", H: h, K: k}
		case x < 68:
			if nobj < 5 {
				op = shOp{Kind: "Copy", H: h}
				nobj++
			} else {
				op = shOp{Kind: "Pairs", H: h}
			}
		case x < 72:
			if nobj < 5 {
				op = shOp{Kind: "Merge", H: h, O: o}
				nobj++
			} else {
				op = shOp{Kind: "Pairs", H: h}
			}
		case x < 76:
			op = shOp{Kind: "PutAll", H: h, O: o}
		case x < 78:
			op = shOp{Kind: "Freeze", H: h}
		case x < 80:
			if nobj < 5 {
				op = shOp{Kind: "New"}
				nobj++
			} else {
				op = shOp{Kind: "Len", H: h}
			}
		case x < 84:
			op = shOp{Kind: "Equals", H: h, O: o}
		case x < 88:
			op = shOp{Kind: "Pairs", H: h}
		case x < 90:
			op = shOp{Kind: "Empty", H: h}
		case x < 92:
			op = shOp{Kind: "IsFrozen", H: h}
		default:
			op = shOp{Kind: "Get", H: h, K: k}
		}
		ops = append(ops, op)
		if r.Chance(1, 3) {
			ops = append(ops, shOp{Kind: "Keys", H: h}, shOp{Kind: "Values", H: h})
		}
	}
	for h := 0; h < nobj; h++ {
		ops = append(ops, shObserversFull(h, keys)...)
	}
	return ops
}

// tagComputeSameKey marks exactly the open finding C09-compute-producer-puts-same-key: the history holds a
// ComputeIfAbsent whose mapping function puts the key being computed itself, on a hash where that key is absent.
const tagComputeSameKey = "compute-producer-puts-same-key"

func shTags(ops []shOp, bad int) []string {
	for _, o := range ops[:bad+1] {
		if o.Kind == "ComputePut" && o.K == o.K2 {
			return []string{tagComputeSameKey}
		}
	}
	return nil
}

// shCorpus: hand written histories.  The two seeded routes of a ComputeIfAbsent that writes its index entry too
// early (panic + later Put; nested registration), and the open finding.
func shCorpus() [][]shOp {
	obs := func(ops []shOp) []shOp {
		var out []shOp
		out = append(out, shOp{Kind: "New"})
		for _, o := range ops {
			out = append(out, o)
			out = append(out, shOp{Kind: "Includes", H: 0, K: o.K})
			out = append(out, shObservers(0, shKeys)...)
		}
		return out
	}
	// a hash a=1, b=2, ... of n entries made by NewStringHash(c), one iteration, full observation
	iter := func(c, n int, vals []int64, kind string, acts ...shAct) []shOp {
		ops := []shOp{{Kind: "NewCap", C: c}}
		ks := []string{"a", "b", "c", "d", "e"}
		for i := 0; i < n; i++ {
			v := int64(i + 1)
			if vals != nil {
				v = vals[i]
			}
			ops = append(ops, shOp{Kind: "Put", H: 0, K: ks[i], V: v})
		}
		ops = append(ops, shOp{Kind: "Iter", H: 0, IK: kind, Acts: acts})
		ops = append(ops, shObservers(0, ks)...)
		return append(ops, shOp{Kind: "Pairs", H: 0})
	}
	del := func(k string) shAct { return shAct{A: "del", K: k} }
	frozenIter := func(kind string, acts ...shAct) []shOp {
		return []shOp{{Kind: "New"}, {Kind: "Put", K: "a", V: 1}, {Kind: "Put", K: "b", V: 2}, {Kind: "Freeze"},
			{Kind: "Iter", IK: kind, Acts: acts}, {Kind: "Pairs"}}
	}
	// keys associated with nil (seeded C09-m10): put, re-put, through Copy / Merge / PutAll / Freeze / a mapping
	// function that returns nil, every lookup afterwards
	nilRoutes := func() []shOp {
		ks := []string{"a", "b", "c", "z"}
		ops := []shOp{{Kind: "New"}, {Kind: "Put", K: "a", V: 1}, {Kind: "Put", K: "b", VN: true}}
		ops = append(ops, shObserversFull(0, ks)...)
		ops = append(ops, shOp{Kind: "Compute", K: "b", V: 5}, shOp{Kind: "Compute", K: "c", VN: true}, shOp{Kind: "Compute", K: "c", V: 6})
		ops = append(ops, shObserversFull(0, ks)...)
		ops = append(ops, shOp{Kind: "Copy"}, shOp{Kind: "New"}, shOp{Kind: "Put", H: 2, K: "z", V: 3}, shOp{Kind: "Merge", H: 2, O: 0},
			shOp{Kind: "PutAll", H: 2, O: 1}, shOp{Kind: "Put", K: "a", VN: true}, shOp{Kind: "Freeze"})
		for h := 0; h < 4; h++ {
			ops = append(ops, shObserversFull(h, ks)...)
		}
		return append(ops, shOp{Kind: "Equals", H: 0, O: 1}, shOp{Kind: "Equals", H: 2, O: 3}, shOp{Kind: "Delete", H: 1, K: "b"},
			shOp{Kind: "Delete", H: 1, K: "b"}, shOp{Kind: "Put", H: 1, K: "c", V: 4}, shOp{Kind: "Pairs", H: 1})
	}
	return [][]shOp{
		nilRoutes(),
		// re-entrant callbacks: remove every visited key; remove the even values; remove the entry that follows
		iter(4, 4, nil, "EachKey", del("a"), del("b"), del("c"), del("d")),
		iter(8, 5, []int64{2, 4, 1, 6, 3}, "EachPair", del("a"), del("b"), shAct{}, del("d"), shAct{}),
		iter(8, 5, []int64{2, 4, 1, 6, 3}, "AllPair", del("a"), del("b"), shAct{}, del("d"), shAct{}),
		iter(8, 5, []int64{2, 4, 1, 6, 3}, "AnyPair", del("a"), del("b"), shAct{}, del("d"), shAct{}),
		iter(8, 5, []int64{2, 4, 1, 6, 3}, "EachValue", del("a"), del("b"), shAct{}, del("d"), shAct{}),
		iter(2, 3, nil, "EachPair", del("b"), del("c")),
		// the callback puts a value for an entry still to come: handed out while the entries live where they did
		// when the iteration started (same history, capacity 4 / 3: an append moves them or not; after a Delete)
		iter(4, 3, nil, "EachPair", shAct{A: "compute", K: "d", V: 5}, shAct{A: "put", K: "c", V: 9}),
		iter(3, 3, nil, "EachPair", shAct{A: "compute", K: "d", V: 5}, shAct{A: "put", K: "c", V: 9}),
		iter(4, 3, nil, "EachValue", del("a"), shAct{A: "put", K: "c", V: 9}),
		iter(4, 3, nil, "AllPair", shAct{A: "put", K: "c", V: 9}, shAct{A: "put", K: "a", V: 8}, shAct{A: "put", K: "e", V: 7, Stop: true}),
		// a frozen hash: queries from the callback are fine, the first mutation panics out of the iteration
		frozenIter("EachPair", shAct{A: "compute", K: "a", V: 5}, del("b")),
		frozenIter("AnyPair", shAct{}, shAct{A: "put", K: "a", V: 5}),
		frozenIter("EachKey", shAct{A: "compute", K: "z", V: 5}),
		obs([]shOp{{Kind: "Put", K: "a", V: 1}, {Kind: "ComputePanic", K: "b"}, {Kind: "Put", K: "c", V: 9}, {Kind: "Compute", K: "b", V: 4}}),
		obs([]shOp{{Kind: "ComputePanic", K: "a"}, {Kind: "ComputePanic", K: "a"}, {Kind: "Put", K: "a", V: 2}, {Kind: "ComputePanic", K: "a"}}),
		obs([]shOp{{Kind: "Put", K: "a", V: 1}, {Kind: "ComputePut", K: "b", V: 11, K2: "c", V2: 10}, {Kind: "Delete", K: "b"}, {Kind: "Delete", K: "c"}}),
		obs([]shOp{{Kind: "Put", K: "a", V: 1}, {Kind: "ComputePut", K: "b", V: 11, K2: "a", V2: 10}, {Kind: "Delete", K: "a"}}),
		obs([]shOp{{Kind: "Freeze"}, {Kind: "ComputePanic", K: "a"}, {Kind: "ComputePut", K: "a", V: 1, K2: "b", V2: 2}}),
		// open finding: the mapping function puts the computed key itself
		obs([]shOp{{Kind: "ComputePut", K: "a", V: 6, K2: "a", V2: 5}, {Kind: "Delete", K: "a"}}),
		obs([]shOp{{Kind: "Put", K: "b", V: 1}, {Kind: "ComputePut", K: "a", V: 6, K2: "a", V2: 5}, {Kind: "Put", K: "a", V: 7}}),
	}
}
