// c09: ordered collections behave as their abstract models.
package main

import (
	"fmt"
	"time"

	"verifharness/lib"
)

func main() {
	cfg := lib.ParseFlags()
	res := lib.NewResult("C09")
	res.Rule = "Array/Hash: histories over a pool of values (literal, BuildArray/BuildHash and parser-built collections; every " +
		"List/OrderedMap operation on any earlier value), every result compared with the immutable-sequence / insertion-ordered-map " +
		"reference and all query methods with the element walk; non-trivial = merges into / deletes from / looks up in a non-empty " +
		"hash, or changes a non-empty array, or parses a literal with more than one entry. " +
		"Arrays of arbitrary values (values without a hash key: Object instances, Sensitive, TypedName, Deferred; NaN): every array of <= 3 " +
		"elements x every list of <= 2 doomed values through DeleteAll / Delete in turn / Any, random histories of Delete, DeleteAll, " +
		"Reject, Select, Any, Add, AddAll, Equals, results compared element by element by identity; non-trivial = holds such a value. " +
		"StringHash: all histories of length<=L over a 16-operation mutating alphabet on 4 keys (bounded-exhaustive, " +
		"full observation after every step) + all iterations (5 kinds) of hashes of <= 4 entries and 3-4 capacities whose callback " +
		"re-enters the hash (Delete / Put / ComputeIfAbsent at each call, every sequence) + seeded random multi-object histories; " +
		"a history is non-trivial when it " +
		"contains a Delete of a present key that is not the last entry, or a mutation of a frozen hash, or a Merge/PutAll " +
		"with a non-empty operand, or a ComputeIfAbsent whose mapping function panics or re-enters the hash, or an iteration " +
		"whose callback mutates the hash, or a key associated with the value nil (family nil-values: every lookup of every key " +
		"after every step); " +
		"distinct = distinct operation sequences"
	rng := lib.NewRng(cfg.Seed)
	if cfg.Replay != "" {
		replay(cfg, res)
	} else {
		t0 := time.Now()
		runStringHash(cfg, res, rng)
		res.Extra["stringhash_seconds"] = time.Since(t0).Seconds()
		runColl(cfg, res, rng)
		t0 = time.Now()
		runSeq(cfg, res, rng)
		res.Extra["seq_seconds"] = time.Since(t0).Seconds()
	}
	res.Write(cfg)
}

// replay re-runs exactly the input(s) of a replay file on the current implementation, prints what
// happens, and emits the same single case for the model.
func replay(cfg *lib.Config, res *lib.Result) {
	cf := &lib.CasesFile{Imports: []string{"Model.Base", "Model.StringHash", "Corr.CorrC09"}, Typ: "list op * list out",
		Obligations: map[string]string{"stringhash_model": "sh_mismatches cases"}}
	ccf := newCollCases()
	kf := newKeyCases()
	sf := newSeqCases()
	defer func() {
		if len(sf.Cases) > 0 {
			res.CorrFiles = append(res.CorrFiles, sf.WriteTo(cfg.Out, "cases_seq"))
		}
		if len(ccf.Cases) > 0 {
			res.CorrFiles = append(res.CorrFiles, ccf.WriteTo(cfg.Out, "cases_coll"))
		}
		if len(kf.Cases) > 0 {
			res.CorrFiles = append(res.CorrFiles, kf.WriteTo(cfg.Out, "cases_key"))
		}
	}()
	for _, in := range lib.ReplayInputs(cfg.Replay) {
		var x struct {
			Kind string `json:"kind"`
			Ops  []shOp `json:"ops"`
		}
		lib.Remarshal(in, &x)
		if x.Kind == "coll" {
			replayColl(cfg, res, in, ccf)
			continue
		}
		if x.Kind == "seq" {
			replaySeq(cfg, res, in, sf)
			continue
		}
		if x.Kind == "key" {
			replayKey(cfg, res, in, kf, ccf)
			continue
		}
		if x.Kind != "stringhash" {
			continue
		}
		c, bad, want := runShHistory(x.Ops)
		res.Evaluations++
		for i, o := range x.Ops {
			fmt.Printf("  %-28s => %s\n", o.String(), c.outs[i])
		}
		if bad >= 0 {
			fmt.Printf("FAILS at step %d: %s returned %s, the insertion-ordered map returns %s\n", bad, x.Ops[bad], c.outs[bad], want)
			res.Violate(lib.Violation{Clause: "stringhash-abstract-map",
				What:  fmt.Sprintf("step %d %s returned %s, the insertion-ordered map returns %s", bad, x.Ops[bad], c.outs[bad], want),
				Input: map[string]interface{}{"kind": "stringhash", "ops": x.Ops[:bad+1]}, Tags: shTags(x.Ops, bad)})
		} else {
			fmt.Println("implementation agrees with the abstract map on this history")
		}
		cf.Add(c.gallina(), in)
	}
	res.CorrFiles = append(res.CorrFiles, cf.WriteTo(cfg.Out, "cases_stringhash"))
}

func shNontrivial(c shCase) bool {
	// a Delete that returned a value and left later entries, a frozen rejection, or a merge of non-empty hashes
	for i, o := range c.ops {
		switch o.Kind {
		case "Delete":
			if len(c.outs[i]) > 10 && c.outs[i][:9] == "RVal (Som" {
				return true
			}
		case "Put", "Compute", "PutAll", "ComputePanic", "ComputePut":
			if c.outs[i] == "RFrozen" || c.outs[i] == "RPanic" || o.Kind == "ComputePut" {
				return true
			}
		case "Merge":
			return true
		case "GetOrDefault":
			// a present key whose value is nil, asked with a default that is not
			if !o.VN && c.outs[i] == "RVal (@None (val))" {
				return true
			}
		case "Iter":
			for _, a := range o.Acts {
				if a.A != "" {
					return true
				}
			}
		}
	}
	return false
}

func runStringHash(cfg *lib.Config, res *lib.Result, rng *lib.Rng) {
	cf := &lib.CasesFile{Imports: []string{"Model.Base", "Model.StringHash", "Corr.CorrC09"}, Typ: "list op * list out",
		Obligations: map[string]string{"stringhash_model": "sh_mismatches cases"}}
	maxLen := 4
	coqBudget := 400
	nRandom := 3000
	randomCoq := 300
	iterCoq := 400
	nilLen, nilCoq := 4, 250
	if cfg.Thorough() {
		nilLen, nilCoq = 5, 2000
		iterCoq = 4000
		maxLen = 5
		coqBudget = 3000
		nRandom = 100000
		randomCoq = 2000
	}
	al := shAlphabet()
	total := 0
	// count first, to sample evenly into the Coq file
	n := 0
	for l := 1; l <= maxLen; l++ {
		p := 1
		for i := 0; i < l; i++ {
			p *= len(al)
		}
		n += p
	}
	stride := n/coqBudget + 1
	check := func(ops []shOp, toCoq bool, family string) {
		c, bad, want := runShHistory(ops)
		total++
		res.Evaluations++
		res.Count("stringhash." + family)
		if shNontrivial(c) {
			res.Nontrivial(fmt.Sprint(opsText(ops)))
			res.Count("stringhash.nontrivial")
		}
		if bad >= 0 {
			res.Violate(lib.Violation{Clause: "stringhash-abstract-map",
				What:  fmt.Sprintf("step %d %s returned %s, the insertion-ordered map returns %s", bad, ops[bad], c.outs[bad], want),
				Input: map[string]interface{}{"kind": "stringhash", "ops": ops[:bad+1]}, Tags: shTags(ops, bad)})
		}
		if toCoq || (bad >= 0 && len(res.Violations) <= 20) {
			cf.Add(c.gallina(), map[string]interface{}{"kind": "stringhash", "ops": ops})
		}
		if total%977 == 1 {
			res.Sample(map[string]interface{}{"kind": "stringhash", "ops": opsText(ops), "outs": c.outs})
		}
	}
	for _, ops := range shCorpus() {
		check(ops, true, "corpus")
	}
	idx := 0
	var rec func(seq []shOp, l int)
	rec = func(seq []shOp, l int) {
		if len(seq) == l {
			idx++
			check(expandSh(seq), idx%stride == 0, "exhaustive")
			return
		}
		for _, o := range al {
			rec(append(seq, o), l)
		}
	}
	for l := 1; l <= maxLen; l++ {
		rec(nil, l)
	}
	res.Extra["stringhash_exhaustive_histories"] = idx
	res.Extra["stringhash_exhaustive_max_len"] = maxLen
	// iterations whose callback re-enters the hash
	nIter := 0
	shIterFamily(func(ops []shOp) { nIter++ })
	iterStride := nIter/iterCoq + 1
	j := 0
	shIterFamily(func(ops []shOp) {
		j++
		check(ops, j%iterStride == 0, "iter-reentrant")
	})
	res.Extra["stringhash_reentrant_iterations"] = nIter
	// keys associated with the value nil, all lookups after every step
	tNil := time.Now()
	nNil := 0
	shNilFamily(nilLen, func(ops []shOp) { nNil++ })
	nilStride := nNil/nilCoq + 1
	j = 0
	shNilFamily(nilLen, func(ops []shOp) {
		j++
		check(ops, j%nilStride == 0, "nil-values")
	})
	res.Extra["stringhash_nil_value_histories"] = nNil
	res.Extra["stringhash_nil_value_seconds"] = time.Since(tNil).Seconds()
	for i := 0; i < nRandom; i++ {
		r := rng.Fork()
		check(randomShHistory(r, 5+r.Intn(40)), i < randomCoq, "random")
	}
	res.CorrFiles = append(res.CorrFiles, cf.WriteTo(cfg.Out, "cases_stringhash"))
}
