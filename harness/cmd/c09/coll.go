package main

// Array / Hash half of C09: an Array behaves as an immutable sequence, a Hash as an immutable insertion-ordered
// map keyed by value equality with at most one entry per key.
//
// G: histories over a pool of values (verifharness/collh); D: after every step the result is compared with the
// Go reference (collh/ref.go: pure trees, no slices, no index) and every query method of the result is compared
// with its element walk (Len/At/Each*/Keys/Values/Get*/IncludesKey*), and the invariant "no two equal keys" is
// checked on the result and everything inside it; M: the results are compared with the pure model
// (coq/Model/Coll.v) by vm_compute.

import (
	"fmt"

	"verifharness/collh"
	"verifharness/lib"
)

func newCollCases() *lib.CasesFile {
	return &lib.CasesFile{Imports: []string{"Model.Base", "Model.Coll", "Corr.CorrC09"}, Typ: "list op * list out",
		Obligations: map[string]string{"coll_model": "coll_mismatches cases"}}
}

func collCase(h *collh.History) string {
	return "(" + collh.GallinaOps(h.Ops) + ",\n    " + collh.GallinaOuts(h.Outs) + ")"
}

func collInput(ops []collh.Op) map[string]interface{} {
	return map[string]interface{}{"kind": "coll", "ops": ops}
}

var collOpts = collh.RunOpts{Reference: true}

// tagLiteralRepeatedKey marks exactly the open finding C09-literal-repeated-key: the step reads literal text in
// which a hash repeats a key, and the parser returned the entries as written (both entries of the key).
const tagLiteralRepeatedKey = "literal-repeated-key"

func collViolation(h *collh.History) lib.Violation {
	d := h.Diff
	o := h.Ops[d.Step]
	tags := []string{o.Kind}
	if o.Kind == "Parse" && d.Clause == "parse-literal" && o.P.HasRepeatedKey() &&
		h.Outs[d.Step].Err == "" && h.Outs[d.Step].V.Equal(o.P) {
		tags = append(tags, tagLiteralRepeatedKey)
	}
	return lib.Violation{Clause: d.Clause, What: d.What, Input: collInput(h.Ops[:d.Step+1]), Tags: tags}
}

func collTieable(h *collh.History) bool {
	if h.Ambiguous || h.Unclean {
		return false
	}
	for _, o := range h.Outs {
		if len(o.Err) > 5 && o.Err[:5] == "other" {
			return false
		}
	}
	return true
}

// a history is non-trivial when it merges into / deletes from / looks up in a non-empty hash, or deletes from,
// slices, de-duplicates or flattens a non-empty array
func collNontrivial(h *collh.History) bool {
	for i, o := range h.Ops {
		switch o.Kind {
		case "Merge", "Delete", "DeleteAll", "Get", "Includes", "Add", "AddAll", "Slice", "Unique", "Flatten", "HashFromArray", "Parse":
			if o.Kind == "Parse" {
				if len(o.P.L) > 1 {
					return true
				}
				continue
			}
			if o.R < i && h.Outs[o.R].V != nil && len(h.Outs[o.R].V.L) > 0 {
				return true
			}
		}
	}
	return false
}

type collRunner struct {
	cfg   *lib.Config
	res   *lib.Result
	cf    *lib.CasesFile
	total int
	dcoq  int
}

func (r *collRunner) check(ops []collh.Op, toCoq bool, family string) {
	h := collh.Run(ops, collOpts)
	r.total++
	r.res.Evaluations++
	r.res.Count("coll." + family)
	for _, o := range ops {
		r.res.Count("coll.op." + o.Kind)
	}
	for _, o := range h.Outs {
		if o.Err != "" {
			r.res.Count("coll.result.error." + o.Err)
		}
	}
	if collNontrivial(h) {
		r.res.Nontrivial("coll:" + collh.OpsCanon(ops))
		r.res.Count("coll.nontrivial")
	}
	if h.Ambiguous {
		r.res.Count("coll.ambiguous-equality(not compared)")
	}
	bad := h.Diff != nil
	if bad {
		r.res.Violate(collViolation(h))
	}
	if (toCoq && collTieable(h)) || (bad && r.dcoq < 20) {
		if bad {
			r.dcoq++
		}
		r.cf.Add(collCase(h), collInput(h.Ops))
	}
	if r.total%4001 == 1 {
		outs := make([]string, len(h.Outs))
		for i, o := range h.Outs {
			outs[i] = o.String()
		}
		r.res.Sample(map[string]interface{}{"kind": "coll", "ops": collh.OpsText(ops), "results": outs})
	}
}

func replayColl(cfg *lib.Config, res *lib.Result, in interface{}, cf *lib.CasesFile) {
	var x struct {
		Ops []collh.Op `json:"ops"`
	}
	lib.Remarshal(in, &x)
	h := collh.Run(x.Ops, collOpts)
	res.Evaluations++
	for i, o := range h.Ops {
		fmt.Printf("  v%-2d := %-40s => %-30s reference: %s\n", i, o.String(), h.Outs[i], h.RefOuts[i])
	}
	if h.Diff != nil {
		v := collViolation(h)
		fmt.Println("FAILS: " + v.What)
		res.Violate(v)
	} else if h.Ambiguous {
		fmt.Println("the history compares values on which Equals and hash-key equality differ; not compared")
	} else {
		fmt.Println("implementation agrees with the abstract sequence / insertion-ordered map on this history")
	}
	cf.Add(collCase(h), in)
}

func runColl(cfg *lib.Config, res *lib.Result, rng *lib.Rng) {
	r := &collRunner{cfg: cfg, res: res, cf: newCollCases()}
	for _, ops := range collCorpus() {
		r.check(ops, true, "corpus")
	}
	literals(r)
	hashChains(r)
	arrayChains(r)
	n, coq := 20000, 400
	if cfg.Thorough() {
		n, coq = 400000, 5000
	}
	for i := 0; i < n; i++ {
		g := rng.Fork()
		r.check(collh.RandomHistory(g, 6+g.Intn(54), collh.ModelWeights), i < coq, "random")
	}
	res.CorrFiles = append(res.CorrFiles, r.cf.WriteTo(cfg.Out, "cases_coll"))
}

func collCorpus() [][]collh.Op {
	I, S, A, E, H := collh.In, collh.St, collh.Ar, collh.En, collh.Ha
	lit := func(p *collh.PV) collh.Op { return collh.Op{Kind: "Lit", P: p} }
	abc := H(E(S("a"), I(1)), E(S("b"), I(2)), E(S("c"), I(3)))
	return [][]collh.Op{
		// a literal with a repeated key
		{{Kind: "Parse", P: H(E(S("a"), I(1)), E(S("a"), I(2)))}},
		{{Kind: "Parse", P: A(H(E(S("a"), I(1)), E(S("b"), I(2)), E(S("a"), I(3))))}},
		// pairs with a repeated key
		{lit(A(A(S("a"), I(1)), A(S("a"), I(2)))), {Kind: "HashFromArray", R: 0}},
		{lit(H()), lit(A(A(S("a"), I(1)), A(S("a"), I(2)))), {Kind: "AddAll", R: 0, X: 1}},
		// DeleteAll removes every given key; Delete then lookups
		{lit(abc), lit(A(S("a"), S("b"))), {Kind: "DeleteAll", R: 0, X: 1}},
		{lit(abc), lit(S("a")), {Kind: "Delete", R: 0, X: 1}, {Kind: "Get", R: 2, X: 1}, {Kind: "Get", R: 0, X: 1}},
		// a slice may not reach beyond the length
		{{Kind: "Build", I: 4, P: A(I(1))}, {Kind: "Slice", R: 0, I: 0, J: 3}},
		{{Kind: "Build", I: 4, P: H(E(S("a"), I(1)))}, {Kind: "Slice", R: 0, I: 0, J: 2}},
		{lit(abc), lit(H(E(S("b"), I(9)))), {Kind: "Merge", R: 0, X: 1}, {Kind: "Slice", R: 2, I: 0, J: 4}},
		// merge: replace in place, append new
		{lit(abc), lit(H(E(S("d"), I(4)), E(S("b"), I(9)), E(S("e"), I(5)))), {Kind: "Merge", R: 0, X: 1}},
	}
}

// literals: every hash literal with at most 3 entries over keys {a,b,1,[a]} x values {1,2}, read by the parser
func literals(r *collRunner) {
	I, S, A, E := collh.In, collh.St, collh.Ar, collh.En
	keys := []*collh.PV{S("a"), S("b"), I(1), A(S("a"))}
	vals := []*collh.PV{I(1), I(2)}
	var entries []*collh.PV
	for _, k := range keys {
		for _, v := range vals {
			entries = append(entries, E(k, v))
		}
	}
	n := 0
	var rec func(es []*collh.PV, d int)
	rec = func(es []*collh.PV, d int) {
		n++
		r.check([]collh.Op{{Kind: "Parse", P: collh.Ha(es...)}}, n%5 == 0, "literal")
		if d == 3 {
			return
		}
		for _, e := range entries {
			rec(append(append([]*collh.PV{}, es...), e), d+1)
		}
	}
	rec(nil, 0)
	r.res.Extra["coll_literals"] = n
}

// hashChains: every sequence of at most L operations (each applied to the result of the previous one) over
// keys {a,b,c,1,[a]} x values {1,2}: put (Add of an entry), Delete, DeleteAll of two keys, Merge.
func hashChains(r *collRunner) {
	I, S, A, E, H := collh.In, collh.St, collh.Ar, collh.En, collh.Ha
	keys := []*collh.PV{S("a"), S("b"), S("c"), I(1), A(S("a"))}
	vals := []*collh.PV{I(1), I(2)}
	var pre []collh.Op
	lit := func(p *collh.PV) int {
		pre = append(pre, collh.Op{Kind: "Lit", P: p})
		return len(pre) - 1
	}
	var letters []collh.Op
	for _, k := range keys {
		for _, v := range vals {
			letters = append(letters, collh.Op{Kind: "Add", X: lit(E(k, v))})
		}
	}
	for _, k := range keys {
		letters = append(letters, collh.Op{Kind: "Delete", X: lit(k)})
	}
	letters = append(letters,
		collh.Op{Kind: "DeleteAll", X: lit(A(S("a"), S("c")))},
		collh.Op{Kind: "DeleteAll", X: lit(A(I(1), S("b"), A(S("a"))))},
		collh.Op{Kind: "Merge", X: lit(H(E(S("b"), I(7)), E(S("d"), I(8))))},
		collh.Op{Kind: "Merge", X: lit(H(E(A(S("a")), I(7)), E(S("a"), I(8)), E(I(1), I(9))))},
		collh.Op{Kind: "Slice", I: 0, J: 1},
		collh.Op{Kind: "Slice", I: 1, J: 2},
	)
	start := lit(H())
	maxLen := 4
	budget := 600
	if r.cfg.Thorough() {
		maxLen = 5
		budget = 4000
	}
	n := 0
	for l, p := 1, 1; l <= maxLen; l++ {
		p *= len(letters)
		n += p
	}
	stride := n/budget + 1
	idx := 0
	var rec func(ops []collh.Op, last, d int)
	rec = func(ops []collh.Op, last, d int) {
		if d > 0 {
			idx++
			// only maximal sequences and a sample of the shorter ones are run (prefixes are checked inside)
			if d == maxLen || idx%7 == 0 {
				r.check(ops, idx%stride == 0, "hash-chain")
			}
		}
		if d == maxLen {
			return
		}
		for _, l := range letters {
			o := l
			o.R = last
			rec(append(append([]collh.Op{}, ops...), o), len(ops), d+1)
		}
	}
	rec(pre, start, 0)
	r.res.Extra["coll_hash_chain_sequences"] = idx
	r.res.Extra["coll_hash_chain_max_len"] = maxLen
	r.res.Extra["coll_hash_chain_letters"] = len(letters)
}

// arrayChains: every sequence of at most L operations on arrays over elements {1,2,[1]}
func arrayChains(r *collRunner) {
	I, A := collh.In, collh.Ar
	var pre []collh.Op
	lit := func(p *collh.PV) int {
		pre = append(pre, collh.Op{Kind: "Lit", P: p})
		return len(pre) - 1
	}
	one, two, arr1 := lit(I(1)), lit(I(2)), lit(A(I(1)))
	letters := []collh.Op{
		{Kind: "Add", X: one}, {Kind: "Add", X: two}, {Kind: "Add", X: arr1},
		{Kind: "AddAll", X: lit(A(I(2), I(1)))}, {Kind: "AddAll", X: lit(A(A(I(1)), I(2)))},
		{Kind: "Delete", X: one}, {Kind: "Delete", X: arr1}, {Kind: "DeleteAll", X: lit(A(I(2), A(I(1))))},
		{Kind: "Slice", I: 0, J: 2}, {Kind: "Slice", I: 1, J: 3}, {Kind: "Slice", I: 1, J: 1},
		{Kind: "Unique"}, {Kind: "Flatten"}, {Kind: "Reject", Pd: &collh.Pred{Kind: "eq", X: two}},
		{Kind: "Select", Pd: &collh.Pred{Kind: "int"}}, {Kind: "Map", Mp: &collh.Mapper{Kind: "wrap"}},
		{Kind: "EachSlice", I: 2, J: 1},
	}
	start := lit(A())
	maxLen := 4
	budget := 400
	if r.cfg.Thorough() {
		maxLen = 5
		budget = 3000
	}
	n := 0
	for l, p := 1, 1; l <= maxLen; l++ {
		p *= len(letters)
		n += p
	}
	stride := n/budget + 1
	idx := 0
	var rec func(ops []collh.Op, last, d int)
	rec = func(ops []collh.Op, last, d int) {
		if d > 0 {
			idx++
			if d == maxLen || idx%7 == 0 {
				r.check(ops, idx%stride == 0, "array-chain")
			}
		}
		if d == maxLen {
			return
		}
		for _, l := range letters {
			o := l
			o.R = last
			rec(append(append([]collh.Op{}, ops...), o), len(ops), d+1)
		}
	}
	rec(pre, start, 0)
	r.res.Extra["coll_array_chain_sequences"] = idx
	r.res.Extra["coll_array_chain_max_len"] = maxLen
}
