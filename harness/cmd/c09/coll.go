package main

// Array / Hash half of C09: an Array behaves as an immutable sequence, a Hash as an immutable insertion-ordered
// map keyed by value equality with at most one entry per key.
//
// G: histories over a pool of values (verifharness/collh); D: after every step the result is compared with the
// Go reference (collh/ref.go: pure trees, no slices, no index) and every query method of the result is compared
// with its element walk (Len/At/Each*/Keys/Values/Get*/IncludesKey*), and the invariant "no two equal keys" is
// checked on the result and everything inside it; M: the results are compared with the pure model
// (coq/Model/Coll.v) by vm_compute.

import (
	"fmt"
	"time"

	"verifharness/collh"
	"verifharness/lib"
)

func newCollCases() *lib.CasesFile {
	return &lib.CasesFile{Imports: []string{"Model.Base", "Model.Coll", "Corr.CorrC09"}, Typ: "list op * list out",
		Obligations: map[string]string{"coll_model": "coll_mismatches cases"}}
}

func collCase(h *collh.History) string {
	return "(" + collh.GallinaOps(h.Ops) + ",\n    " + collh.GallinaOuts(h.Outs) + ")"
}

func collInput(ops []collh.Op) map[string]interface{} {
	return map[string]interface{}{"kind": "coll", "ops": ops}
}

// the reference keys hashes by Equals: the property says "a map keyed by value equality"
var collOpts = collh.RunOpts{Reference: true, KeysByEquals: true}

// tagLiteralRepeatedKey marks exactly the open finding C09-literal-repeated-key: the step reads literal text in
// which a hash repeats a key, and the parser returned the entries as written (both entries of the key).
const tagLiteralRepeatedKey = "literal-repeated-key"

func collViolation(h *collh.History) lib.Violation {
	d := h.Diff
	o := h.Ops[d.Step]
	tags := []string{o.Kind}
	if o.Kind == "Parse" && d.Clause == "parse-literal" && o.P.HasRepeatedKey() &&
		h.Outs[d.Step].Err == "" && h.Outs[d.Step].V.Equal(o.P) {
		tags = append(tags, tagLiteralRepeatedKey)
	}
	return lib.Violation{Clause: d.Clause, What: d.What, Input: collInput(h.Ops[:d.Step+1]), Tags: tags}
}

func collTieable(h *collh.History) bool {
	if h.Ambiguous || h.Unclean {
		return false
	}
	for _, o := range h.Outs {
		if len(o.Err) > 5 && o.Err[:5] == "other" {
			return false
		}
	}
	return true
}

// a history is non-trivial when it merges into / deletes from / looks up in a non-empty hash, or deletes from,
// slices, de-duplicates or flattens a non-empty array
func collNontrivial(h *collh.History) bool {
	for i, o := range h.Ops {
		switch o.Kind {
		case "Merge", "Delete", "DeleteAll", "Get", "Includes", "Add", "AddAll", "Slice", "Unique", "Flatten", "HashFromArray", "Parse":
			if o.Kind == "Parse" {
				if len(o.P.L) > 1 {
					return true
				}
				continue
			}
			if o.R < i && h.Outs[o.R].V != nil && len(h.Outs[o.R].V.L) > 0 {
				return true
			}
		}
	}
	return false
}

type collRunner struct {
	cfg *lib.Config
	res *lib.Result
	cf  *lib.CasesFile
	// cfKeys: the histories of the families about keys that are collections (large values) go to a file of their
	// own, evaluated in parallel with the other one
	cfKeys  *lib.CasesFile
	total   int
	dcoq    int
	keyHist int
	// tieAmbiguous: also compare with the model the histories that the reference flags Ambiguous (none since the
	// reference keys hashes by Equals, collOpts.KeysByEquals)
	tieAmbiguous bool
}

func collTieableModuloKeys(h *collh.History) bool {
	if h.Unclean {
		return false
	}
	for _, o := range h.Outs {
		if len(o.Err) > 5 && o.Err[:5] == "other" {
			return false
		}
	}
	return true
}

// lawCases counts, per history, the cases the theorems of Properties/C09.v (Array / Hash half) talk about, so that
// the input distribution shows that every interesting case of every law occurs.
func (r *collRunner) lawCases(h *collh.History) {
	seen := map[string]bool{}
	hit := func(k string) {
		if !seen[k] {
			seen[k] = true
			r.res.Count("coll.law." + k)
		}
	}
	val := func(i int) *collh.PV {
		if i < 0 || i >= len(h.Outs) || h.Outs[i].V == nil {
			return collh.U()
		}
		return h.Outs[i].V
	}
	hasKey := func(hv, k *collh.PV) bool {
		for _, e := range hv.L {
			if collh.Veq(e.L[0], k) {
				return true
			}
		}
		return false
	}
	nested := func(k *collh.PV) string {
		switch k.K {
		case "h":
			return "hash"
		case "e":
			return "entry"
		case "a":
			for _, c := range k.L {
				if c.K == "h" || c.K == "a" || c.K == "e" {
					return "nested-array"
				}
			}
			return "array"
		}
		return ""
	}
	for i, o := range h.Ops {
		if o.R >= i {
			continue
		}
		recv := val(o.R)
		if recv.K == "h" {
			for _, e := range recv.L {
				if n := nested(e.L[0]); n != "" {
					hit("hash-with-" + n + "-key")
				}
			}
		}
		switch o.Kind {
		case "Merge", "AddAll", "Add":
			if recv.K != "h" || o.X >= i {
				continue
			}
			arg := val(o.X)
			var es []*collh.PV
			switch {
			case arg.K == "h":
				es = arg.L
			case arg.K == "e":
				es = []*collh.PV{arg}
			case o.Kind == "Add" && arg.K == "a" && len(arg.L) == 2:
				es = []*collh.PV{collh.En(arg.L[0], arg.L[1])}
			default:
				continue
			}
			ex, nw := 0, 0
			for _, e := range es {
				if hasKey(recv, e.L[0]) {
					ex++
					for _, f := range recv.L {
						if collh.Veq(f.L[0], e.L[0]) && !f.L[0].Equal(e.L[0]) {
							hit("merge.replaces-equal-but-not-identical-key")
						}
					}
				} else {
					nw++
				}
			}
			switch {
			case ex > 0 && nw > 0:
				hit("merge.existing-and-new-keys")
			case ex > 0:
				hit("merge.existing-keys-only")
			case nw > 0:
				hit("merge.new-keys-only")
			}
			if nw > 1 {
				hit("merge.several-new-keys-in-argument-order")
			}
		case "Delete":
			if recv.K != "h" || o.X >= i {
				continue
			}
			k := val(o.X)
			if hasKey(recv, k) {
				hit("delete.present-key")
				if len(recv.L) > 1 && !collh.Veq(recv.L[len(recv.L)-1].L[0], k) {
					hit("delete.present-key-not-last")
				}
			} else {
				hit("delete.absent-key")
			}
		case "DeleteAll":
			if recv.K != "h" || o.X >= i {
				continue
			}
			ks := val(o.X)
			if ks.K != "a" && ks.K != "h" && ks.K != "e" {
				continue
			}
			hits, repeatedPresent, absent := 0, false, false
			for a, k := range ks.L {
				if hasKey(recv, k) {
					hits++
					for _, k2 := range ks.L[:a] {
						if collh.Veq(k, k2) {
							repeatedPresent = true
						}
					}
				} else {
					absent = true
				}
			}
			if repeatedPresent {
				hit("deleteall.present-key-named-twice")
				if hits >= len(recv.L) {
					hit("deleteall.present-key-named-twice.hits>=len")
				}
				if hits > len(recv.L) {
					hit("deleteall.present-key-named-twice.hits>len")
				}
			}
			if absent && hits > 0 {
				hit("deleteall.present-and-absent-keys")
			}
			if hits == 0 && len(ks.L) > 0 {
				hit("deleteall.absent-keys-only")
			}
		case "Get", "Includes":
			if recv.K != "h" || o.X >= i {
				continue
			}
			if hasKey(recv, val(o.X)) {
				hit("lookup.present-key")
			} else {
				hit("lookup.absent-key")
			}
			if n := nested(val(o.X)); n != "" {
				hit("lookup." + n + "-key")
			}
		case "Unique":
			if recv.K == "a" {
				for a := range recv.L {
					for _, y := range recv.L[:a] {
						if collh.Veq(recv.L[a], y) {
							hit("unique.array-with-equal-elements")
						}
					}
				}
			}
		case "Equals":
			if o.X < i && recv.K == "h" && val(o.X).K == "h" && collh.Veq(recv, val(o.X)) && !recv.Equal(val(o.X)) {
				hit("equals.hashes-equal-in-another-order")
			}
		}
	}
}

func (r *collRunner) check(ops []collh.Op, toCoq bool, family string) {
	h := collh.Run(ops, collOpts)
	r.total++
	r.res.Evaluations++
	r.res.Count("coll." + family)
	for _, o := range ops {
		r.res.Count("coll.op." + o.Kind)
	}
	r.lawCases(h)
	for _, o := range h.Outs {
		if o.Err != "" {
			r.res.Count("coll.result.error." + o.Err)
		}
	}
	if collNontrivial(h) {
		r.res.Nontrivial("coll:" + collh.OpsCanon(ops))
		r.res.Count("coll.nontrivial")
	}
	if h.Ambiguous {
		r.res.Count("coll.ambiguous-equality(not compared)")
	}
	bad := h.Diff != nil
	if bad {
		r.res.Violate(collViolation(h))
	}
	if (toCoq && (collTieable(h) || (r.tieAmbiguous && collTieableModuloKeys(h)))) || (bad && r.dcoq < 20) {
		if bad {
			r.dcoq++
		}
		cf := r.cf
		switch family {
		case "key-pairs", "key-pairs-random", "random-alike-keys", "equal-not-identical-keys":
			cf = r.cfKeys
		}
		cf.Add(collCase(h), collInput(h.Ops))
	}
	if r.total%4001 == 1 {
		outs := make([]string, len(h.Outs))
		for i, o := range h.Outs {
			outs[i] = o.String()
		}
		r.res.Sample(map[string]interface{}{"kind": "coll", "ops": collh.OpsText(ops), "results": outs})
	}
}

func replayColl(cfg *lib.Config, res *lib.Result, in interface{}, cf *lib.CasesFile) {
	var x struct {
		Ops []collh.Op `json:"ops"`
	}
	lib.Remarshal(in, &x)
	h := collh.Run(x.Ops, collOpts)
	res.Evaluations++
	for i, o := range h.Ops {
		fmt.Printf("  v%-2d := %-40s => %-30s reference: %s\n", i, o.String(), h.Outs[i], h.RefOuts[i])
	}
	if h.Diff != nil {
		v := collViolation(h)
		fmt.Println("FAILS: " + v.What)
		res.Violate(v)
	} else if h.Ambiguous {
		fmt.Println("the history compares values on which Equals and hash-key equality differ; not compared")
	} else {
		fmt.Println("implementation agrees with the abstract sequence / insertion-ordered map on this history")
	}
	cf.Add(collCase(h), in)
}

func runColl(cfg *lib.Config, res *lib.Result, rng *lib.Rng) {
	r := &collRunner{cfg: cfg, res: res, cf: newCollCases(), cfKeys: newCollCases()}
	r.cfKeys.Obligations = map[string]string{"coll_keys_model": "coll_mismatches cases"}
	for _, ops := range collCorpus() {
		r.check(ops, true, "corpus")
	}
	timed := func(name string, f func(*collRunner)) {
		t0 := time.Now()
		f(r)
		res.Extra["coll_seconds_"+name] = time.Since(t0).Seconds()
	}
	timed("literals", literals)
	timed("hash_chains", hashChains)
	timed("array_chains", arrayChains)
	timed("deleteall_lists", deleteAllLists)
	timed("deleteall_chains", deleteAllChains)
	timed("nested_keys", nestedKeys)
	timed("equal_not_identical_keys", equalNotIdenticalKeys)
	timed("key_pairs", func(r *collRunner) { keyPairs(r, rng.Fork()) })
	t0 := time.Now()
	defer func() { res.Extra["coll_seconds_random"] = time.Since(t0).Seconds() }()
	n, coq := 20000, 300
	alike := collh.AlikeKeys()
	if cfg.Thorough() {
		n, coq = 400000, 5000
	}
	for i := 0; i < n; i++ {
		g := rng.Fork()
		if i%3 == 2 {
			// keys that print alike, and equal keys that are different trees (hashes in another order)
			r.check(collh.RandomHistoryKeys(g, 6+g.Intn(40), collh.ModelWeights, alike), i < coq && i%2 == 0, "random-alike-keys")
			continue
		}
		r.check(collh.RandomHistory(g, 6+g.Intn(54), collh.ModelWeights), i < coq, "random")
	}
	res.CorrFiles = append(res.CorrFiles, r.cf.WriteTo(cfg.Out, "cases_coll"))
	res.CorrFiles = append(res.CorrFiles, r.cfKeys.WriteTo(cfg.Out, "cases_coll_keys"))
}

func collCorpus() [][]collh.Op {
	I, S, A, E, H := collh.In, collh.St, collh.Ar, collh.En, collh.Ha
	lit := func(p *collh.PV) collh.Op { return collh.Op{Kind: "Lit", P: p} }
	abc := H(E(S("a"), I(1)), E(S("b"), I(2)), E(S("c"), I(3)))
	return [][]collh.Op{
		// a literal with a repeated key
		{{Kind: "Parse", P: H(E(S("a"), I(1)), E(S("a"), I(2)))}},
		{{Kind: "Parse", P: A(H(E(S("a"), I(1)), E(S("b"), I(2)), E(S("a"), I(3))))}},
		// pairs with a repeated key
		{lit(A(A(S("a"), I(1)), A(S("a"), I(2)))), {Kind: "HashFromArray", R: 0}},
		{lit(H()), lit(A(A(S("a"), I(1)), A(S("a"), I(2)))), {Kind: "AddAll", R: 0, X: 1}},
		// DeleteAll removes every given key; Delete then lookups
		{lit(abc), lit(A(S("a"), S("b"))), {Kind: "DeleteAll", R: 0, X: 1}},
		{lit(abc), lit(S("a")), {Kind: "Delete", R: 0, X: 1}, {Kind: "Get", R: 2, X: 1}, {Kind: "Get", R: 0, X: 1}},
		// a slice may not reach beyond the length
		{{Kind: "Build", I: 4, P: A(I(1))}, {Kind: "Slice", R: 0, I: 0, J: 3}},
		{{Kind: "Build", I: 4, P: H(E(S("a"), I(1)))}, {Kind: "Slice", R: 0, I: 0, J: 2}},
		{lit(abc), lit(H(E(S("b"), I(9)))), {Kind: "Merge", R: 0, X: 1}, {Kind: "Slice", R: 2, I: 0, J: 4}},
		// merge: replace in place, append new
		{lit(abc), lit(H(E(S("d"), I(4)), E(S("b"), I(9)), E(S("e"), I(5)))), {Kind: "Merge", R: 0, X: 1}},
	}
}

// literals: every hash literal with at most 3 entries over keys {a,b,1,[a]} x values {1,2}, read by the parser
func literals(r *collRunner) {
	I, S, A, E := collh.In, collh.St, collh.Ar, collh.En
	keys := []*collh.PV{S("a"), S("b"), I(1), A(S("a"))}
	vals := []*collh.PV{I(1), I(2)}
	var entries []*collh.PV
	for _, k := range keys {
		for _, v := range vals {
			entries = append(entries, E(k, v))
		}
	}
	n := 0
	var rec func(es []*collh.PV, d int)
	rec = func(es []*collh.PV, d int) {
		n++
		r.check([]collh.Op{{Kind: "Parse", P: collh.Ha(es...)}}, n%5 == 0, "literal")
		if d == 3 {
			return
		}
		for _, e := range entries {
			rec(append(append([]*collh.PV{}, es...), e), d+1)
		}
	}
	rec(nil, 0)
	r.res.Extra["coll_literals"] = n
}

// hashChains: every sequence of at most L operations (each applied to the result of the previous one) over
// keys {a,b,c,1,[a]} x values {1,2}: put (Add of an entry), Delete, DeleteAll of two keys, Merge.
func hashChains(r *collRunner) {
	I, S, A, E, H := collh.In, collh.St, collh.Ar, collh.En, collh.Ha
	keys := []*collh.PV{S("a"), S("b"), S("c"), I(1), A(S("a"))}
	vals := []*collh.PV{I(1), I(2)}
	var pre []collh.Op
	lit := func(p *collh.PV) int {
		pre = append(pre, collh.Op{Kind: "Lit", P: p})
		return len(pre) - 1
	}
	var letters []collh.Op
	for i, k := range keys {
		for j, v := range vals {
			// quick tier: two values for the keys a and b only (the sequences of length 4 are the bulk of the run time)
			if j > 0 && i > 1 && !r.cfg.Thorough() {
				continue
			}
			letters = append(letters, collh.Op{Kind: "Add", X: lit(E(k, v))})
		}
	}
	for _, k := range keys {
		letters = append(letters, collh.Op{Kind: "Delete", X: lit(k)})
	}
	letters = append(letters,
		collh.Op{Kind: "DeleteAll", X: lit(A(S("a"), S("c")))},
		collh.Op{Kind: "DeleteAll", X: lit(A(I(1), S("b"), A(S("a"))))},
		collh.Op{Kind: "Merge", X: lit(H(E(S("b"), I(7)), E(S("d"), I(8))))},
		collh.Op{Kind: "Merge", X: lit(H(E(A(S("a")), I(7)), E(S("a"), I(8)), E(I(1), I(9))))},
		collh.Op{Kind: "Slice", I: 0, J: 1},
		collh.Op{Kind: "Slice", I: 1, J: 2},
	)
	start := lit(H())
	maxLen := 4
	budget := 450
	if r.cfg.Thorough() {
		maxLen = 5
		budget = 4000
	}
	n := 0
	for l, p := 1, 1; l <= maxLen; l++ {
		p *= len(letters)
		n += p
	}
	stride := n/budget + 1
	idx := 0
	var rec func(ops []collh.Op, last, d int)
	rec = func(ops []collh.Op, last, d int) {
		if d > 0 {
			idx++
			// only maximal sequences and a sample of the shorter ones are run (prefixes are checked inside)
			if d == maxLen || idx%7 == 0 {
				r.check(ops, idx%stride == 0, "hash-chain")
			}
		}
		if d == maxLen {
			return
		}
		for _, l := range letters {
			o := l
			o.R = last
			rec(append(append([]collh.Op{}, ops...), o), len(ops), d+1)
		}
	}
	rec(pre, start, 0)
	r.res.Extra["coll_hash_chain_sequences"] = idx
	r.res.Extra["coll_hash_chain_max_len"] = maxLen
	r.res.Extra["coll_hash_chain_letters"] = len(letters)
}

// arrayChains: every sequence of at most L operations on arrays over elements {1,2,[1]}
func arrayChains(r *collRunner) {
	I, A := collh.In, collh.Ar
	var pre []collh.Op
	lit := func(p *collh.PV) int {
		pre = append(pre, collh.Op{Kind: "Lit", P: p})
		return len(pre) - 1
	}
	one, two, arr1 := lit(I(1)), lit(I(2)), lit(A(I(1)))
	letters := []collh.Op{
		{Kind: "Add", X: one}, {Kind: "Add", X: two}, {Kind: "Add", X: arr1},
		{Kind: "AddAll", X: lit(A(I(2), I(1)))}, {Kind: "AddAll", X: lit(A(A(I(1)), I(2)))},
		{Kind: "Delete", X: one}, {Kind: "Delete", X: arr1}, {Kind: "DeleteAll", X: lit(A(I(2), A(I(1))))},
		{Kind: "Slice", I: 0, J: 2}, {Kind: "Slice", I: 1, J: 3}, {Kind: "Slice", I: 1, J: 1},
		{Kind: "Unique"}, {Kind: "Flatten"}, {Kind: "Reject", Pd: &collh.Pred{Kind: "eq", X: two}},
		{Kind: "Select", Pd: &collh.Pred{Kind: "int"}}, {Kind: "Map", Mp: &collh.Mapper{Kind: "wrap"}},
		{Kind: "EachSlice", I: 2, J: 1},
	}
	start := lit(A())
	maxLen := 4
	budget := 300
	if r.cfg.Thorough() {
		maxLen = 5
		budget = 3000
	}
	n := 0
	for l, p := 1, 1; l <= maxLen; l++ {
		p *= len(letters)
		n += p
	}
	stride := n/budget + 1
	idx := 0
	var rec func(ops []collh.Op, last, d int)
	rec = func(ops []collh.Op, last, d int) {
		if d > 0 {
			idx++
			if d == maxLen || idx%7 == 0 {
				r.check(ops, idx%stride == 0, "array-chain")
			}
		}
		if d == maxLen {
			return
		}
		for _, l := range letters {
			o := l
			o.R = last
			rec(append(append([]collh.Op{}, ops...), o), len(ops), d+1)
		}
	}
	rec(pre, start, 0)
	r.res.Extra["coll_array_chain_sequences"] = idx
	r.res.Extra["coll_array_chain_max_len"] = maxLen
}

// deleteAllLists: every hash over the keys a, b, c in five orders x every key list of at most 3 keys over
// {a, b, c, z} (keys named twice and three times, absent keys, every count of hits against every length),
// passed as an array and - the keys of a hash - as a hash; the result is observed by Len, Keys and a lookup of
// every key.
func deleteAllLists(r *collRunner) {
	I, S, A, E, H := collh.In, collh.St, collh.Ar, collh.En, collh.Ha
	hashes := []*collh.PV{
		H(), H(E(S("a"), I(1))), H(E(S("a"), I(1)), E(S("b"), I(2))), H(E(S("b"), I(2)), E(S("a"), I(1))),
		H(E(S("a"), I(1)), E(S("b"), I(2)), E(S("c"), I(3))), H(E(S("c"), I(3)), E(S("a"), I(1)), E(S("b"), I(2))),
	}
	keys := []*collh.PV{S("a"), S("b"), S("c"), S("z")}
	var lists [][]*collh.PV
	var rec func(l []*collh.PV, d int)
	rec = func(l []*collh.PV, d int) {
		lists = append(lists, append([]*collh.PV{}, l...))
		if d == 3 {
			return
		}
		for _, k := range keys {
			rec(append(l, k), d+1)
		}
	}
	rec(nil, 0)
	n := 0
	for _, hv := range hashes {
		for _, l := range lists {
			n++
			ops := []collh.Op{{Kind: "Lit", P: hv}, {Kind: "Lit", P: A(l...)}, {Kind: "DeleteAll", R: 0, X: 1},
				{Kind: "Len", R: 2}, {Kind: "Keys", R: 2}}
			for _, k := range keys[:3] {
				ops = append(ops, collh.Op{Kind: "Lit", P: k})
				ops = append(ops, collh.Op{Kind: "Get", R: 2, X: len(ops) - 1})
			}
			// the receiver is what it was
			ops = append(ops, collh.Op{Kind: "Len", R: 0})
			r.check(ops, n%4 == 0, "deleteall-lists")
		}
	}
	r.res.Extra["coll_deleteall_lists"] = n
}

// nestedKeys: every sequence of at most 3 operations (each on the result of the previous one) on hashes whose
// keys are hashes, arrays of hashes, nested arrays and empty collections: put, Delete, Get, Merge, DeleteAll
// with a key named twice.
func nestedKeys(r *collRunner) {
	I, S, A, E, H := collh.In, collh.St, collh.Ar, collh.En, collh.Ha
	keys := []*collh.PV{H(E(S("a"), I(1))), H(E(S("a"), I(2))), H(), A(), A(H(E(S("a"), I(1)))), A(A(S("a"))),
		H(E(H(), A()))}
	var pre []collh.Op
	lit := func(p *collh.PV) int {
		pre = append(pre, collh.Op{Kind: "Lit", P: p})
		return len(pre) - 1
	}
	var letters []collh.Op
	for i, k := range keys {
		letters = append(letters, collh.Op{Kind: "Add", X: lit(E(k, I(int64(i))))})
		kx := lit(k)
		letters = append(letters, collh.Op{Kind: "Delete", X: kx}, collh.Op{Kind: "Get", X: kx})
	}
	letters = append(letters,
		collh.Op{Kind: "Merge", X: lit(H(E(H(), I(8)), E(A(A(S("a"))), I(9)), E(H(E(S("a"), I(1))), I(7))))},
		collh.Op{Kind: "DeleteAll", X: lit(A(H(), A(), H()))},
		collh.Op{Kind: "DeleteAll", X: lit(A(H(E(S("a"), I(1))), H(E(S("a"), I(1)))))},
	)
	start := lit(H(E(H(E(S("a"), I(1))), S("x")), E(A(), S("y"))))
	maxLen := 3
	budget := 200
	if r.cfg.Thorough() {
		maxLen = 4
		budget = 2000
	}
	n := 0
	for l, p := 1, 1; l <= maxLen; l++ {
		p *= len(letters)
		n += p
	}
	stride := n/budget + 1
	idx := 0
	var rec func(ops []collh.Op, last, d int)
	rec = func(ops []collh.Op, last, d int) {
		if d > 0 {
			idx++
			if d == maxLen || idx%7 == 0 {
				r.check(ops, idx%stride == 0, "nested-keys")
			}
		}
		if d == maxLen {
			return
		}
		for _, l := range letters {
			o := l
			o.R = last
			next := len(ops)
			if o.Kind == "Get" {
				// a lookup does not give a hash: the chain goes on with the receiver
				rec(append(append([]collh.Op{}, ops...), o), last, d+1)
				continue
			}
			rec(append(append([]collh.Op{}, ops...), o), next, d+1)
		}
	}
	rec(pre, start, 0)
	r.res.Extra["coll_nested_key_sequences"] = idx
}

// equalNotIdenticalKeys: keys that are equal (Equals, and - property C07 - the same hash key) without being the
// same tree: a hash entry and its two element array, two hashes with the same entries in another order.  The Go
// reference takes no side on these (it flags the history), the model does: these histories are tied with the
// model only.
func equalNotIdenticalKeys(r *collRunner) {
	I, S, A, E, H := collh.In, collh.St, collh.Ar, collh.En, collh.Ha
	ab := H(E(S("a"), I(1)), E(S("b"), I(2)))
	ba := H(E(S("b"), I(2)), E(S("a"), I(1)))
	pairs := [][2]*collh.PV{{E(S("a"), I(1)), A(S("a"), I(1))}, {ab, ba}, {A(ab), A(ba)}, {A(E(S("a"), I(1))), A(A(S("a"), I(1)))}}
	// ... and with keys of different kinds that print alike inside the key hashes
	one, tr := H(E(I(1), S("a")), E(S("1"), S("b"))), H(E(collh.Bo(true), I(1)), E(S("true"), I(2)), E(collh.U(), I(3)), E(S("undef"), I(4)))
	oneR, trR := H(E(S("1"), S("b")), E(I(1), S("a"))), H(E(S("undef"), I(4)), E(S("true"), I(2)), E(collh.U(), I(3)), E(collh.Bo(true), I(1)))
	pairs = append(pairs, [2]*collh.PV{one, oneR}, [2]*collh.PV{tr, trR}, [2]*collh.PV{A(S("p"), one), A(S("p"), oneR)},
		[2]*collh.PV{H(E(one, I(1)), E(S("q"), tr)), H(E(S("q"), trR), E(oneR, I(1)))})
	r.tieAmbiguous = true
	defer func() { r.tieAmbiguous = false }()
	n := 0
	for _, p := range pairs {
		for swap := 0; swap < 2; swap++ {
			k1, k2 := p[swap], p[1-swap]
			base := []collh.Op{{Kind: "Lit", P: H(E(S("x"), I(0)), E(k1, I(1)), E(S("y"), I(2)))}, {Kind: "Lit", P: k2},
				{Kind: "Lit", P: H(E(S("z"), I(7)), E(k2, I(9)))}, {Kind: "Lit", P: A(k2, S("y"), k2)}, {Kind: "Lit", P: E(k2, I(5))}}
			for _, o := range []collh.Op{{Kind: "Get", R: 0, X: 1}, {Kind: "Includes", R: 0, X: 1}, {Kind: "Delete", R: 0, X: 1},
				{Kind: "Merge", R: 0, X: 2}, {Kind: "DeleteAll", R: 0, X: 3}, {Kind: "Add", R: 0, X: 4}, {Kind: "Equals", R: 0, X: 2}} {
				n++
				ops := append(append([]collh.Op{}, base...), o)
				if o.Kind != "Get" && o.Kind != "Includes" && o.Kind != "Equals" {
					ops = append(ops, collh.Op{Kind: "Keys", R: 5}, collh.Op{Kind: "Get", R: 5, X: 1}, collh.Op{Kind: "Len", R: 5})
				}
				r.check(ops, true, "equal-not-identical-keys")
			}
			// equality of the collections themselves, and Unique / Delete on arrays
			n++
			r.check([]collh.Op{{Kind: "Lit", P: k1}, {Kind: "Lit", P: k2}, {Kind: "Equals", R: 0, X: 1}, {Kind: "Equals", R: 1, X: 0},
				{Kind: "Lit", P: A(k1, S("q"), k2, k1)}, {Kind: "Unique", R: 4}, {Kind: "Delete", R: 4, X: 1},
				{Kind: "HashFromArray", R: 4}}, true, "equal-not-identical-keys")
		}
	}
	r.res.Extra["coll_equal_not_identical_key_histories"] = n
}

// deleteAllChains: every sequence of at most 4 operations (each on the result of the previous one) over puts,
// Merge, Slice and DeleteAll with key lists that name a key twice or three times - the receiver of a DeleteAll is
// then a hash made by an earlier operation (a merged one, a slice with spare capacity, a result of a DeleteAll).
func deleteAllChains(r *collRunner) {
	I, S, A, E, H := collh.In, collh.St, collh.Ar, collh.En, collh.Ha
	var pre []collh.Op
	lit := func(p *collh.PV) int {
		pre = append(pre, collh.Op{Kind: "Lit", P: p})
		return len(pre) - 1
	}
	letters := []collh.Op{
		{Kind: "Add", X: lit(E(S("a"), I(1)))}, {Kind: "Add", X: lit(E(S("b"), I(2)))}, {Kind: "Add", X: lit(E(S("c"), I(3)))},
		{Kind: "Merge", X: lit(H(E(S("b"), I(7)), E(S("d"), I(8))))},
		{Kind: "Slice", I: 0, J: 1}, {Kind: "Slice", I: 1, J: 2},
		{Kind: "DeleteAll", X: lit(A(S("a"), S("a")))},
		{Kind: "DeleteAll", X: lit(A(S("c"), S("a"), S("c")))},
		{Kind: "DeleteAll", X: lit(A(S("b"), S("b"), S("b")))},
		{Kind: "DeleteAll", X: lit(A(S("z"), S("b"), S("z"), S("b")))},
		{Kind: "DeleteAll", X: lit(H(E(S("a"), I(0)), E(S("d"), I(0))))},
	}
	start := lit(H())
	maxLen := 4
	if r.cfg.Thorough() {
		maxLen = 5
	}
	idx := 0
	var rec func(ops []collh.Op, last, d int)
	rec = func(ops []collh.Op, last, d int) {
		if d > 0 {
			idx++
			if d == maxLen || idx%7 == 0 {
				r.check(ops, idx%97 == 0, "deleteall-chain")
			}
		}
		if d == maxLen {
			return
		}
		for _, l := range letters {
			o := l
			o.R = last
			rec(append(append([]collh.Op{}, ops...), o), len(ops), d+1)
		}
	}
	rec(pre, start, 0)
	r.res.Extra["coll_deleteall_chain_sequences"] = idx
}
