package main

// The Array as a sequence of ARBITRARY values (round 6, seeded C09-m9): elements - and the argument lists of Delete /
// DeleteAll / Reject / Select / Any - that cannot be hash keys (instances of Object types, Sensitive, TypedName,
// Deferred: px.ToKey panics) and values equal to nothing (NaN, Sensitive), next to ordinary ones and
// nested in arrays.  "An Array behaves as an immutable sequence": deletion removes exactly the elements Equal to the
// given values, whatever else the sequence holds, and never fails; DeleteAll([x]) = Delete(x).
//
// G: a zoo of values with a known equality class; histories over a pool (literal arrays, Delete, DeleteAll, Reject /
// Select / Any by Equals, Add, AddAll, Equals, Len on any earlier value).  D: every result against the reference
// sequence (trees of zoo indices, equality by class; a result must hold the very same elements - NaN where NaN was),
// the receiver and the argument unchanged afterwards.  M: the same histories against Model/CollSeq.v (cases_seq).

import (
	"fmt"
	"math"
	"strings"

	"github.com/lyraproj/pcore/pcore"
	"github.com/lyraproj/pcore/px"
	"github.com/lyraproj/pcore/types"

	"verifharness/lib"
)

// seqTree: a value as a tree over the zoo: Arr ? an array of A : the zoo value Z
type seqTree struct {
	Z   int        `json:"z,omitempty"`
	Arr bool       `json:"arr,omitempty"`
	A   []*seqTree `json:"a,omitempty"`
}

type zooVal struct {
	name    string
	v       px.Value
	never   bool // equal to nothing, itself included
	keyless bool // px.ToKey panics
	class   int  // equality class (never: an identity)
}

var zoo []zooVal

func buildZoo(c px.Context) {
	ot := c.ParseType(`Object[{name => 'ZZ::SeqThing', attributes => {n => Integer}}]`)
	px.AddTypes(c, ot)
	zoo = []zooVal{
		{"undef", px.Undef, false, false, 0},
		{"1", types.WrapInteger(1), false, false, 1},
		{"2", types.WrapInteger(2), false, false, 2},
		{"'a'", types.WrapString("a"), false, false, 3},
		{"2.5", types.WrapFloat(2.5), false, false, 4},
		{"NaN", types.WrapFloat(math.NaN()), true, false, 1},
		{"3.5", types.WrapFloat(3.5), false, false, 5},
		{"Sensitive#1", types.WrapSensitive(types.WrapString("secret")), true, true, 3},
		{"Sensitive#2", types.WrapSensitive(types.WrapString("secret")), true, true, 4},
		{"TypedName(zz::a)#1", types.NewTypedName(px.NsType, "zz::a"), false, true, 10},
		{"TypedName(zz::a)#2", types.NewTypedName(px.NsType, "zz::a"), false, true, 10},
		{"TypedName(zz::b)", types.NewTypedName(px.NsType, "zz::b"), false, true, 11},
		{"ZZ::SeqThing(7)#1", px.New(c, ot, types.WrapInteger(7)), false, true, 20},
		{"ZZ::SeqThing(7)#2", px.New(c, ot, types.WrapInteger(7)), false, true, 20},
		{"ZZ::SeqThing(8)", px.New(c, ot, types.WrapInteger(8)), false, true, 21},
		{"Deferred(f,1)#1", types.NewDeferred("f", types.WrapInteger(1)), false, true, 30},
		{"Deferred(f,1)#2", types.NewDeferred("f", types.WrapInteger(1)), false, true, 30},
		{"Deferred(g)", types.NewDeferred("g"), false, true, 31},
	}
}

const (
	zUndef = iota
	zOne
	zTwo
	zStr
	zFloat
	zNaN
	zNaN2
	zSens1
	zSens2
	zTnA1
	zTnA2
	zTnB
	zObj7a
	zObj7b
	zObj8
	zDef1a
	zDef1b
	zDef2
)

func zv(i int) *seqTree          { return &seqTree{Z: i} }
func za(es ...*seqTree) *seqTree { return &seqTree{Arr: true, A: es} }
func (t *seqTree) String() string {
	if !t.Arr {
		return zoo[t.Z].name
	}
	ss := make([]string, len(t.A))
	for i, e := range t.A {
		ss[i] = e.String()
	}
	return "[" + strings.Join(ss, ", ") + "]"
}

func (t *seqTree) gallina() string {
	if !t.Arr {
		z := zoo[t.Z]
		if z.never {
			return fmt.Sprintf("(ENever %s %s)", lib.GBool(z.keyless), lib.GN(uint64(z.class)))
		}
		return fmt.Sprintf("(EAtom %s %s)", lib.GBool(z.keyless), lib.GN(uint64(z.class)))
	}
	gs := make([]string, len(t.A))
	for i, e := range t.A {
		gs[i] = e.gallina()
	}
	return "(EArr " + lib.GList(gs, "elem") + ")"
}

func (t *seqTree) value() px.Value {
	if !t.Arr {
		return zoo[t.Z].v
	}
	vs := make([]px.Value, len(t.A))
	for i, e := range t.A {
		vs[i] = e.value()
	}
	return types.WrapValues(vs)
}

// decode: the tree of an implementation value; an element is identified by IDENTITY (the same pointer, the same
// bits of a float), not by Equals
func decode(v px.Value) *seqTree {
	if a, ok := v.(*types.Array); ok {
		t := &seqTree{Arr: true, A: []*seqTree{}}
		a.Each(func(e px.Value) { t.A = append(t.A, decode(e)) })
		return t
	}
	for i, z := range zoo {
		if fz, ok := z.v.(px.Float); ok {
			if fv, ok := v.(px.Float); ok && math.Float64bits(fz.Float()) == math.Float64bits(fv.Float()) {
				return zv(i)
			}
			continue
		}
		if _, ok := v.(px.Float); ok {
			continue
		}
		if z.v == v {
			return zv(i)
		}
	}
	return zv(-1)
}

// same: identical trees
func (t *seqTree) same(o *seqTree) bool {
	if t.Arr != o.Arr {
		return false
	}
	if !t.Arr {
		return t.Z == o.Z
	}
	if len(t.A) != len(o.A) {
		return false
	}
	for i := range t.A {
		if !t.A[i].same(o.A[i]) {
			return false
		}
	}
	return true
}

// refEq: value equality as the property means it: by equality class; arrays element by element
func refEq(a, b *seqTree) bool {
	if a.Arr != b.Arr {
		return false
	}
	if !a.Arr {
		za, zb := zoo[a.Z], zoo[b.Z]
		return !za.never && !zb.never && za.class == zb.class
	}
	if len(a.A) != len(b.A) {
		return false
	}
	for i := range a.A {
		if !refEq(a.A[i], b.A[i]) {
			return false
		}
	}
	return true
}

type seqOp struct {
	Kind string   `json:"op"`
	R    int      `json:"r,omitempty"`
	X    int      `json:"x,omitempty"`
	Lit  *seqTree `json:"lit,omitempty"`
}

func (o seqOp) String() string {
	switch o.Kind {
	case "Lit":
		return o.Lit.String()
	case "Len", "Unique":
		return fmt.Sprintf("v%d.%s()", o.R, o.Kind)
	case "RejectEq", "SelectEq", "AnyEq":
		return fmt.Sprintf("v%d.%s(e => e.Equals(v%d))", o.R, strings.TrimSuffix(o.Kind, "Eq"), o.X)
	}
	return fmt.Sprintf("v%d.%s(v%d)", o.R, o.Kind, o.X)
}

func (o seqOp) gallina() string {
	switch o.Kind {
	case "Lit":
		return "SLit " + o.Lit.gallina()
	case "Len", "Unique":
		return fmt.Sprintf("S%s %d", o.Kind, o.R)
	}
	return fmt.Sprintf("S%s %d %d", o.Kind, o.R, o.X)
}

// seqOut: a result - a value (tree), a bool, a length, or a failure
type seqOut struct {
	T   *seqTree
	B   *bool
	N   *int
	Err string
}

func (o seqOut) String() string {
	switch {
	case o.Err != "":
		return "failed: " + o.Err
	case o.T != nil:
		return o.T.String()
	case o.B != nil:
		return fmt.Sprint(*o.B)
	case o.N != nil:
		return fmt.Sprint(*o.N)
	}
	return "?"
}

func (o seqOut) gallina() string {
	switch {
	case o.Err != "":
		return "OErr"
	case o.T != nil:
		return "OV " + o.T.gallina()
	case o.B != nil:
		return "OB " + lib.GBool(*o.B)
	case o.N != nil:
		return "ON " + lib.GZ(int64(*o.N))
	}
	return "OErr"
}

func (o seqOut) sameAs(p seqOut) bool {
	switch {
	case o.Err != "" || p.Err != "":
		return o.Err != "" && p.Err != ""
	case o.T != nil:
		return p.T != nil && o.T.same(p.T)
	case o.B != nil:
		return p.B != nil && *o.B == *p.B
	case o.N != nil:
		return p.N != nil && *o.N == *p.N
	}
	return false
}

func outB(b bool) seqOut { return seqOut{B: &b} }
func outN(n int) seqOut  { return seqOut{N: &n} }

// seqRef: one step of the reference sequence
func seqRef(pool []*seqTree, o seqOp) seqOut {
	if o.Kind == "Lit" {
		return seqOut{T: o.Lit}
	}
	recv := pool[o.R]
	var x *seqTree
	if o.Kind != "Len" && o.Kind != "Unique" {
		x = pool[o.X]
	}
	if o.Kind == "Equals" {
		return outB(refEq(recv, x))
	}
	if !recv.Arr {
		return seqOut{Err: "receiver is no array"}
	}
	filter := func(keep func(e *seqTree) bool) seqOut {
		r := za()
		r.A = []*seqTree{}
		for _, e := range recv.A {
			if keep(e) {
				r.A = append(r.A, e)
			}
		}
		return seqOut{T: r}
	}
	switch o.Kind {
	case "Len":
		return outN(len(recv.A))
	case "Unique":
		// first occurrences modulo equality: kept when no earlier element is equal to it
		r := za()
		r.A = []*seqTree{}
		for i, e := range recv.A {
			dup := false
			for _, s := range recv.A[:i] {
				dup = dup || refEq(s, e)
			}
			if !dup {
				r.A = append(r.A, e)
			}
		}
		return seqOut{T: r}
	case "Delete", "RejectEq":
		return filter(func(e *seqTree) bool { return !refEq(e, x) })
	case "SelectEq":
		return filter(func(e *seqTree) bool { return refEq(e, x) })
	case "DeleteAll":
		if !x.Arr {
			return seqOut{Err: "argument is no array"}
		}
		return filter(func(e *seqTree) bool {
			for _, d := range x.A {
				if refEq(e, d) {
					return false
				}
			}
			return true
		})
	case "AnyEq":
		for _, e := range recv.A {
			if refEq(e, x) {
				return outB(true)
			}
		}
		return outB(false)
	case "Add":
		return seqOut{T: za(append(append([]*seqTree{}, recv.A...), x)...)}
	case "AddAll":
		if !x.Arr {
			return seqOut{Err: "argument is no array"}
		}
		return seqOut{T: za(append(append([]*seqTree{}, recv.A...), x.A...)...)}
	}
	panic("bad seq op " + o.Kind)
}

// seqImpl: one step on the real Array
func seqImpl(pool []px.Value, o seqOp) (out seqOut) {
	defer func() {
		if r := recover(); r != nil {
			out = seqOut{Err: strings.ReplaceAll(fmt.Sprint(r), "*)", "")}
		}
	}()
	if o.Kind == "Lit" {
		return seqOut{T: o.Lit}
	}
	recv := pool[o.R]
	var x px.Value
	if o.Kind != "Len" && o.Kind != "Unique" {
		x = pool[o.X]
	}
	if o.Kind == "Equals" {
		return outB(recv.Equals(x, nil))
	}
	l, ok := recv.(*types.Array)
	if !ok {
		return seqOut{Err: "receiver is no array"}
	}
	list := func() px.List {
		if xl, ok := x.(*types.Array); ok {
			return xl
		}
		panic("argument is no array")
	}
	switch o.Kind {
	case "Len":
		return outN(l.Len())
	case "Unique":
		return seqOut{T: decode(l.Unique())}
	case "Delete":
		return seqOut{T: decode(l.Delete(x))}
	case "DeleteAll":
		return seqOut{T: decode(l.DeleteAll(list()))}
	case "RejectEq":
		return seqOut{T: decode(l.Reject(func(e px.Value) bool { return e.Equals(x, nil) }))}
	case "SelectEq":
		return seqOut{T: decode(l.Select(func(e px.Value) bool { return e.Equals(x, nil) }))}
	case "AnyEq":
		return outB(l.Any(func(e px.Value) bool { return e.Equals(x, nil) }))
	case "Add":
		return seqOut{T: decode(l.Add(x))}
	case "AddAll":
		return seqOut{T: decode(l.AddAll(list()))}
	}
	panic("bad seq op " + o.Kind)
}

type seqHistory struct {
	ops  []seqOp
	outs []seqOut
	bad  int
	what string
}

func runSeqHistory(ops []seqOp) *seqHistory {
	h := &seqHistory{ops: ops, bad: -1}
	var rpool []*seqTree
	var ipool []px.Value
	for i, o := range ops {
		want := seqRef(rpool, o)
		got := seqImpl(ipool, o)
		h.outs = append(h.outs, got)
		fail := func(what string) {
			if h.bad < 0 {
				h.bad, h.what = i, what
			}
		}
		if !got.sameAs(want) {
			fail(fmt.Sprintf("step %d %s returned %s, the sequence gives %s", i, o, got, want))
		}
		// immutability: receiver and argument are what they were
		if o.Kind != "Lit" {
			js := []int{o.R, o.X}
			if o.Kind == "Len" || o.Kind == "Unique" {
				js = js[:1]
			}
			for _, j := range js {
				if j < len(rpool) && !decode(ipool[j]).same(rpool[j]) {
					fail(fmt.Sprintf("step %d %s changed v%d: now %s, was %s", i, o, j, decode(ipool[j]), rpool[j]))
				}
			}
		}
		// the pool goes on with the reference's value (undef for a result that is no value)
		if want.T != nil {
			rpool = append(rpool, want.T)
			if got.T != nil && got.T.same(want.T) && o.Kind != "Lit" {
				// keep the implementation's own result object when it is right (later steps run on it)
				ipool = append(ipool, seqImplValue(ipool, o, want.T))
			} else {
				ipool = append(ipool, want.T.value())
			}
		} else {
			rpool = append(rpool, zv(zUndef))
			ipool = append(ipool, px.Undef)
		}
	}
	return h
}

// seqImplValue re-runs the step to get the implementation's result object itself (the operations are pure)
func seqImplValue(pool []px.Value, o seqOp, fallback *seqTree) (v px.Value) {
	defer func() {
		if recover() != nil {
			v = fallback.value()
		}
	}()
	l := pool[o.R].(*types.Array)
	if o.Kind == "Unique" {
		return l.Unique()
	}
	x := pool[o.X]
	switch o.Kind {
	case "Delete":
		return l.Delete(x)
	case "DeleteAll":
		return l.DeleteAll(x.(*types.Array))
	case "RejectEq":
		return l.Reject(func(e px.Value) bool { return e.Equals(x, nil) })
	case "SelectEq":
		return l.Select(func(e px.Value) bool { return e.Equals(x, nil) })
	case "Add":
		return l.Add(x)
	case "AddAll":
		return l.AddAll(x.(*types.Array))
	}
	return fallback.value()
}

func (h *seqHistory) gallina() string {
	ops := make([]string, len(h.ops))
	outs := make([]string, len(h.outs))
	for i, o := range h.ops {
		ops[i] = o.gallina()
		outs[i] = h.outs[i].gallina()
	}
	return "(" + lib.GList(ops, "sop") + ",\n    " + lib.GList(outs, "sout") + ")"
}

func newSeqCases() *lib.CasesFile {
	return &lib.CasesFile{Imports: []string{"Model.Base", "Model.CollSeq", "Corr.CorrC09"}, Typ: "list sop * list sout",
		Obligations: map[string]string{"seq_model": "seq_mismatches cases"}}
}

func seqInput(ops []seqOp) map[string]interface{} {
	return map[string]interface{}{"kind": "seq", "ops": ops}
}

func seqViolation(h *seqHistory) lib.Violation {
	return lib.Violation{Clause: "array-sequence", What: h.what, Input: seqInput(h.ops[:h.bad+1]), Tags: []string{h.ops[h.bad].Kind}}
}

func seqOpsText(ops []seqOp) []string {
	r := make([]string, len(ops))
	for i, o := range ops {
		r[i] = fmt.Sprintf("v%d := %s", i, o)
	}
	return r
}

// special: the history holds a keyless or never-equal value
func seqSpecial(t *seqTree) bool {
	if !t.Arr {
		return zoo[t.Z].never || zoo[t.Z].keyless
	}
	for _, e := range t.A {
		if seqSpecial(e) {
			return true
		}
	}
	return false
}

func runSeq(cfg *lib.Config, res *lib.Result, rng *lib.Rng) {
	pcore.Do(func(c px.Context) {
		buildZoo(c)
		cf := newSeqCases()
		total, dcoq := 0, 0
		check := func(ops []seqOp, toCoq bool, family string) {
			h := runSeqHistory(ops)
			total++
			res.Evaluations++
			res.Count("seq." + family)
			special := false
			for i, o := range ops {
				res.Count("seq.op." + o.Kind)
				if o.Kind == "Lit" && seqSpecial(o.Lit) {
					special = true
				}
				if (o.Kind == "Delete" || o.Kind == "DeleteAll") && h.outs[i].T != nil && h.outs[o.R].T != nil && special {
					if len(h.outs[i].T.A) < len(h.outs[o.R].T.A) {
						res.Count("seq.law.deletes-from-array-with-keyless-or-never-equal-values")
					}
				}
			}
			if special {
				res.Nontrivial("seq:" + strings.Join(seqOpsText(ops), ";"))
				res.Count("seq.nontrivial")
			}
			if h.bad >= 0 {
				res.Violate(seqViolation(h))
			}
			if toCoq || (h.bad >= 0 && dcoq < 20) {
				if h.bad >= 0 {
					dcoq++
				}
				cf.Add(h.gallina(), seqInput(ops))
			}
			if total%2003 == 1 {
				outs := make([]string, len(h.outs))
				for i, o := range h.outs {
					outs[i] = o.String()
				}
				res.Sample(map[string]interface{}{"kind": "seq", "ops": seqOpsText(ops), "results": outs})
			}
		}
		for _, ops := range seqCorpus() {
			check(ops, true, "corpus")
		}
		n := 0
		seqDeleteFamily(cfg.Thorough(), func(ops []seqOp) { n++ })
		coq := 250
		if cfg.Thorough() {
			coq = 2500
		}
		stride := n/coq + 1
		j := 0
		seqDeleteFamily(cfg.Thorough(), func(ops []seqOp) {
			j++
			check(ops, j%stride == 0, "delete-lists")
		})
		res.Extra["seq_delete_list_histories"] = n
		nRandom, randomCoq := 4000, 150
		if cfg.Thorough() {
			nRandom, randomCoq = 100000, 2000
		}
		for i := 0; i < nRandom; i++ {
			g := rng.Fork()
			check(randomSeqHistory(g, 4+g.Intn(24)), i < randomCoq, "random")
		}
		res.CorrFiles = append(res.CorrFiles, cf.WriteTo(cfg.Out, "cases_seq"))
	})
}

func seqCorpus() [][]seqOp {
	lit := func(t *seqTree) seqOp { return seqOp{Kind: "Lit", Lit: t} }
	var out [][]seqOp
	// the routes of seeded C09-m9: an array that holds a value without a hash key, ordinary values are deleted
	for _, other := range []int{zSens1, zTnA1, zObj7a, zDef1a} {
		out = append(out, []seqOp{lit(za(zv(zOne), zv(other), zv(zTwo), zv(zOne))), lit(zv(zOne)), lit(za(zv(zOne))),
			{Kind: "Delete", R: 0, X: 1}, {Kind: "DeleteAll", R: 0, X: 2}, lit(za(zv(other), zv(zTwo))), {Kind: "DeleteAll", R: 0, X: 5},
			{Kind: "Equals", R: 3, X: 4}, {Kind: "Len", R: 6}, {Kind: "Len", R: 0}})
	}
	// NaN is equal to nothing: DeleteAll([NaN]) = Delete(NaN) removes nothing
	out = append(out, []seqOp{lit(za(zv(zOne), zv(zNaN), zv(zFloat), zv(zNaN))), lit(zv(zNaN)), lit(za(zv(zNaN))),
		{Kind: "Delete", R: 0, X: 1}, {Kind: "DeleteAll", R: 0, X: 2}, lit(za(zv(zFloat), zv(zNaN2))), {Kind: "DeleteAll", R: 0, X: 5},
		{Kind: "AnyEq", R: 0, X: 1}, {Kind: "Equals", R: 0, X: 0}})
	// equal but not identical keyless values; nested
	out = append(out, []seqOp{lit(za(zv(zObj7a), zv(zObj8), za(zv(zTnA1)), zv(zObj7b), zv(zTnA2))), lit(za(zv(zObj7b), za(zv(zTnA2)))),
		{Kind: "DeleteAll", R: 0, X: 1}, lit(zv(zTnA1)), {Kind: "Delete", R: 2, X: 3}, {Kind: "SelectEq", R: 0, X: 3}})
	// Unique: total, first occurrences modulo Equals; two NaN are two elements; lists that hold such values
	out = append(out, []seqOp{lit(za(zv(zOne), zv(zObj7a), zv(zNaN), za(zv(zObj7a)), zv(zOne), zv(zNaN), zv(zObj7b), zv(zSens1),
		za(zv(zObj7b)), za(zv(zNaN)), za(zv(zNaN)), zv(zSens1), zv(zTnA2), zv(zTnA1), zv(zDef1a), zv(zDef1b))), {Kind: "Unique", R: 0},
		{Kind: "Unique", R: 1}, {Kind: "Len", R: 1}, lit(za(zv(zNaN), zv(zNaN))), {Kind: "Unique", R: 4}, lit(za(zv(zOne), zv(zSens1))), {Kind: "Unique", R: 6}})
	return out
}

// seqDeleteFamily: every array of at most 3 elements over an alphabet of ordinary, keyless, never-equal and nested
// values x every list of at most 2 doomed values: DeleteAll(list), then Delete of each value of the list in turn
// (the same thing, by C09_delete_all_is_delete_in_turn), Any, Len.
func seqDeleteFamily(thorough bool, yield func(ops []seqOp)) {
	elems := []*seqTree{zv(zOne), zv(zTwo), zv(zNaN), zv(zSens1), zv(zTnA1), zv(zObj7a), zv(zObj8), za(zv(zOne)), za(zv(zTnA2))}
	doomed := []*seqTree{zv(zOne), zv(zNaN), zv(zSens1), zv(zTnA2), zv(zObj7b), zv(zDef1a), za(zv(zOne)), za(zv(zTnA1))}
	maxLen := 3
	if thorough {
		maxLen = 4
	}
	var arrays, lists [][]*seqTree
	var rec func(al []*seqTree, acc *[][]*seqTree, l []*seqTree, d, max int)
	rec = func(al []*seqTree, acc *[][]*seqTree, l []*seqTree, d, max int) {
		*acc = append(*acc, append([]*seqTree{}, l...))
		if d == max {
			return
		}
		for _, e := range al {
			rec(al, acc, append(l[:len(l):len(l)], e), d+1, max)
		}
	}
	rec(elems, &arrays, nil, 0, maxLen)
	rec(doomed, &lists, nil, 0, 2)
	for _, a := range arrays {
		for _, l := range lists {
			ops := []seqOp{{Kind: "Lit", Lit: za(a...)}, {Kind: "Lit", Lit: za(l...)}, {Kind: "DeleteAll", R: 0, X: 1}}
			last := 0
			for _, x := range l {
				ops = append(ops, seqOp{Kind: "Lit", Lit: x})
				ops = append(ops, seqOp{Kind: "Delete", R: last, X: len(ops) - 1})
				last = len(ops) - 1
				ops = append(ops, seqOp{Kind: "AnyEq", R: 0, X: last - 1})
			}
			ops = append(ops, seqOp{Kind: "Equals", R: 2, X: last}, seqOp{Kind: "Len", R: 2})
			if len(l) == 0 {
				// Unique of the array, of the array twice over, and of the array of the two
				ops = append(ops, seqOp{Kind: "Unique", R: 0}, seqOp{Kind: "AddAll", R: 0, X: 0})
				ops = append(ops, seqOp{Kind: "Unique", R: len(ops) - 1}, seqOp{Kind: "Lit", Lit: za(za(a...), za(a...))})
				ops = append(ops, seqOp{Kind: "Unique", R: len(ops) - 1})
			}
			yield(ops)
		}
	}
}

func randomSeqTree(r *lib.Rng, depth int) *seqTree {
	if depth > 0 && r.Chance(1, 4) {
		n := r.Intn(4)
		t := za()
		t.A = []*seqTree{}
		for i := 0; i < n; i++ {
			t.A = append(t.A, randomSeqTree(r, depth-1))
		}
		return t
	}
	return zv(r.Intn(len(zoo)))
}

func randomSeqHistory(r *lib.Rng, n int) []seqOp {
	var ops []seqOp
	var arrays, all []int
	kinds := []string{"Delete", "Delete", "DeleteAll", "DeleteAll", "DeleteAll", "RejectEq", "SelectEq", "AnyEq", "Add", "AddAll", "Equals", "Len", "Unique", "Unique"}
	for i := 0; i < n; i++ {
		if len(arrays) == 0 || r.Chance(1, 3) {
			var t *seqTree
			if len(arrays) == 0 || r.Chance(2, 3) {
				t = za()
				t.A = []*seqTree{}
				for j, m := 0, r.Intn(6); j < m; j++ {
					t.A = append(t.A, randomSeqTree(r, 2))
				}
			} else {
				t = randomSeqTree(r, 1)
			}
			ops = append(ops, seqOp{Kind: "Lit", Lit: t})
			if t.Arr {
				arrays = append(arrays, len(ops)-1)
			}
			all = append(all, len(ops)-1)
			continue
		}
		k := kinds[r.Intn(len(kinds))]
		o := seqOp{Kind: k, R: arrays[r.Intn(len(arrays))]}
		switch k {
		case "DeleteAll", "AddAll":
			o.X = arrays[r.Intn(len(arrays))]
		case "Len", "Unique":
		case "Equals":
			o.R = all[r.Intn(len(all))]
			o.X = all[r.Intn(len(all))]
		default:
			o.X = all[r.Intn(len(all))]
		}
		ops = append(ops, o)
		switch k {
		case "Delete", "DeleteAll", "RejectEq", "SelectEq", "Add", "AddAll", "Unique":
			arrays = append(arrays, len(ops)-1)
			all = append(all, len(ops)-1)
		}
	}
	return ops
}

func replaySeq(cfg *lib.Config, res *lib.Result, in interface{}, cf *lib.CasesFile) {
	var x struct {
		Ops []seqOp `json:"ops"`
	}
	lib.Remarshal(in, &x)
	pcore.Do(func(c px.Context) {
		if zoo == nil {
			buildZoo(c)
		}
		h := runSeqHistory(x.Ops)
		res.Evaluations++
		for i, o := range h.ops {
			fmt.Printf("  v%-2d := %-50s => %s\n", i, o.String(), h.outs[i])
		}
		if h.bad >= 0 {
			fmt.Println("FAILS: " + h.what)
			res.Violate(seqViolation(h))
		} else {
			fmt.Println("implementation agrees with the abstract sequence on this history")
		}
		cf.Add(h.gallina(), in)
	})
}
